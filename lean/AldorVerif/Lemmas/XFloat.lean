import AldorVerif.Model.XFloat
/-! Lemmas about the model of xfloat.c / util.c bit-field helpers.

Part 1 relates byte strings to numbers (`beVal`, `beBytes`); part 2 shows that the byte loops of
`bfShiftUp`, `bfShiftDn`, `bfFirst1` compute shifts / the leading-one position of the big-endian
number for *any* byte count; part 3 evaluates dissemble/assemble of the four formats on numbers;
parts 4 and 5 compose them to the round trips through the portable format (single, double);
part 6: dissemble/assemble identity, `FiWord` views, buffers, classification.
All proofs are structural / `omega` / core `Nat` lemmas; the only `decide +kernel` is the 256-case
fact about the leading one of a byte (`first1Bit_spec_nat`). -/
namespace AldorVerif.XFloat

/-! ## part 1: byte strings and numbers -/

theorem pow256_pos (n : Nat) : 0 < 256 ^ n := Nat.pow_pos (by decide)

theorem pow256_eq (n : Nat) : 256 ^ n = 2 ^ (8 * n) := by
  rw [Nat.pow_mul]

@[simp] theorem beBytes_length (n v : Nat) : (beBytes n v).length = n := by
  induction n with
  | zero => rfl
  | succ n ih => simp [beBytes, ih]

theorem beVal_lt (l : List Byte) : beVal l < 256 ^ l.length := by
  induction l with
  | nil => simp [beVal]
  | cons b bs ih =>
    have hb := b.isLt
    simp only [beVal, List.length_cons, Nat.pow_succ]
    have : b.toNat * 256 ^ bs.length ≤ 255 * 256 ^ bs.length := Nat.mul_le_mul_right _ (by omega)
    omega

theorem beVal_append (a b : List Byte) : beVal (a ++ b) = beVal a * 256 ^ b.length + beVal b := by
  induction a with
  | nil => simp [beVal]
  | cons x xs ih =>
    simp only [List.cons_append, beVal, ih, List.length_append, Nat.pow_add, Nat.add_mul, Nat.mul_assoc, Nat.add_assoc]

@[simp] theorem beVal_replicate_zero (k : Nat) : beVal (List.replicate k (0 : Byte)) = 0 := by
  induction k with
  | zero => rfl
  | succ k ih => simpa [List.replicate_succ, beVal] using ih

theorem ofNat8_mod (x : Nat) : BitVec.ofNat 8 (x % 256) = BitVec.ofNat 8 x := by
  apply BitVec.eq_of_toNat_eq
  simp [BitVec.toNat_ofNat]

theorem beVal_beBytes (n v : Nat) : beVal (beBytes n v) = v % 256 ^ n := by
  induction n with
  | zero => simp [beBytes, beVal, Nat.mod_one]
  | succ n ih =>
    simp only [beBytes, beVal, beBytes_length, ih, BitVec.toNat_ofNat]
    have h8 : (2 : Nat) ^ 8 = 256 := rfl
    rw [h8, Nat.mod_pow_succ, Nat.mul_comm]
    omega

theorem beBytes_mod (n v : Nat) : beBytes n (v % 256 ^ n) = beBytes n v := by
  induction n generalizing v with
  | zero => rfl
  | succ n ih =>
    simp only [beBytes]
    congr 1
    · rw [Nat.pow_succ, Nat.mod_mul_right_div_self, ofNat8_mod]
    · rw [← ih (v % 256 ^ (n + 1)), Nat.mod_mod_of_dvd _ (Nat.pow_dvd_pow 256 (Nat.le_succ n)), ih]

theorem beBytes_beVal (l : List Byte) : beBytes l.length (beVal l) = l := by
  induction l with
  | nil => rfl
  | cons b bs ih =>
    have hb := b.isLt
    have hlt := beVal_lt bs
    have hp := pow256_pos bs.length
    simp only [List.length_cons, beBytes, beVal]
    congr 1
    · apply BitVec.eq_of_toNat_eq
      rw [BitVec.toNat_ofNat, Nat.mul_comm, Nat.mul_add_div hp, Nat.div_eq_of_lt hlt]
      simp; omega
    · rw [← beBytes_mod, Nat.add_comm, Nat.add_mul_mod_self_right, beBytes_mod, ih]

/-- a byte string of known length is determined by its value -/
theorem eq_beBytes_of_val {l : List Byte} {n v : Nat} (hl : l.length = n) (hv : beVal l = v) :
    l = beBytes n v := by
  subst hl hv; exact (beBytes_beVal l).symm

theorem hasFracOf_iff (l : List Byte) : hasFracOf l = true ↔ beVal l ≠ 0 := by
  induction l with
  | nil => simp [hasFracOf, beVal]
  | cons b bs ih =>
    unfold hasFracOf at ih ⊢
    rw [List.any_cons, Bool.or_eq_true, ih]
    show _ ↔ b.toNat * 256 ^ bs.length + beVal bs ≠ 0
    have hp := pow256_pos bs.length
    by_cases hb : b = 0
    · subst hb; simp
    · have h0 : b.toNat ≠ 0 := fun h => hb (BitVec.eq_of_toNat_eq h)
      have : 0 < b.toNat * 256 ^ bs.length := Nat.mul_pos (by omega) hp
      constructor
      · intro _; omega
      · intro _; left; simpa using hb

theorem hasFracOf_eq (l : List Byte) : hasFracOf l = decide (beVal l ≠ 0) := by
  rw [Bool.eq_iff_iff, hasFracOf_iff]; simp

/-! ## part 2: the byte loops of util.c are shifts of the big-endian number (any byte count) -/

theorem or_eq_add_of_lt {x c : Nat} (b : Nat) (h : c < 2 ^ x) : (b * 2 ^ x) ||| c = b * 2 ^ x + c := by
  rw [Nat.mul_comm, ← Nat.two_pow_add_eq_or_of_lt h]

theorem lt8_cases {x : Nat} (hx : x < 8) : x = 0 ∨ x = 1 ∨ x = 2 ∨ x = 3 ∨ x = 4 ∨ x = 5 ∨ x = 6 ∨ x = 7 := by omega

theorem shiftUp_step {x b c : Nat} (hx : x < 8) (hb : b < 256) (hc : c < 2 ^ x) :
    (b * 2 ^ x + c) % 256 + 256 * (b / 2 ^ (8 - x)) = b * 2 ^ x + c ∧ b / 2 ^ (8 - x) < 2 ^ x := by
  rcases lt8_cases hx with rfl | rfl | rfl | rfl | rfl | rfl | rfl | rfl <;> simp at hc ⊢ <;> omega

theorem shiftUpBits_spec (x : Nat) (hx : x < 8) (l : List Byte) :
    (shiftUpBits x 0 l).1.length = l.length ∧
    (shiftUpBits x 0 l).2 < 2 ^ x ∧
    beVal (shiftUpBits x 0 l).1 + (shiftUpBits x 0 l).2 * 256 ^ l.length = beVal l * 2 ^ x := by
  induction l with
  | nil => simp [shiftUpBits, beVal, Nat.pow_pos]
  | cons b bs ih =>
    obtain ⟨hlen, hov, hval⟩ := ih
    have hb := b.isLt
    obtain ⟨k1, k2⟩ := shiftUp_step (b := b.toNat) hx hb hov
    simp only [shiftUpBits, List.length_cons, hlen, beVal, BitVec.toNat_ofNat, Nat.shiftLeft_eq,
      Nat.shiftRight_eq_div_pow, CHAR_BIT, or_eq_add_of_lt _ hov, true_and]
    refine ⟨k2, ?_⟩
    have h8 : (2:Nat) ^ 8 = 256 := rfl
    rw [h8, Nat.pow_succ]
    generalize 256 ^ bs.length = T at *
    generalize (shiftUpBits x 0 bs).2 = c at *
    generalize beVal (shiftUpBits x 0 bs).1 = R at *
    have e1 := congrArg (· * T) k1
    simp only [Nat.add_mul] at e1
    rw [Nat.add_mul, Nat.mul_right_comm b.toNat T, ← hval]
    rw [Nat.mul_comm T 256, ← Nat.mul_assoc, Nat.mul_comm _ 256]
    omega

theorem dropFill_spec (l : List Byte) (k : Nat) :
    (l.drop k ++ List.replicate (min k l.length) (0 : Byte)).length = l.length ∧
    beVal (l.drop k ++ List.replicate (min k l.length) (0 : Byte)) = (beVal l * 256 ^ k) % 256 ^ l.length := by
  refine ⟨by simp; omega, ?_⟩
  rw [beVal_append, beVal_replicate_zero, List.length_replicate, Nat.add_zero]
  by_cases hk : l.length ≤ k
  · rw [List.drop_eq_nil_of_le hk]
    simp only [beVal, Nat.zero_mul]
    exact (Nat.mod_eq_zero_of_dvd (Nat.dvd_mul_left_of_dvd (Nat.pow_dvd_pow 256 hk) _)).symm
  · have hk' : k ≤ l.length := by omega
    rw [Nat.min_eq_left hk']
    have h1 := beVal_append (l.take k) (l.drop k)
    rw [List.take_append_drop, List.length_drop] at h1
    have h2 := beVal_lt (l.drop k)
    rw [List.length_drop] at h2
    rw [h1, Nat.add_mul, Nat.mul_assoc, Nat.pow_sub_mul_pow 256 hk', Nat.add_comm, Nat.add_mul_mod_self_right]
    refine (Nat.mod_eq_of_lt ?_).symm
    rw [← Nat.pow_sub_mul_pow 256 hk']
    exact (Nat.mul_lt_mul_right (pow256_pos k)).mpr h2

theorem two_pow_split (nsh : Nat) : 2 ^ nsh = 256 ^ (nsh / 8) * 2 ^ (nsh % 8) := by
  rw [pow256_eq, ← Nat.pow_add, Nat.div_add_mod]

theorem bfShiftUp_val (bv : List Byte) (nsh : Nat) :
    (bfShiftUp bv.length bv nsh false true).length = bv.length ∧
    beVal (bfShiftUp bv.length bv nsh false true) = (beVal bv * 2 ^ nsh) % 256 ^ bv.length := by
  have hx : nsh % 8 < 8 := Nat.mod_lt _ (by decide)
  obtain ⟨dl, dv⟩ := dropFill_spec bv (nsh / 8)
  have hbr : bfShiftUp bv.length bv nsh false true
      = (shiftUpBits (nsh % 8) 0 (bv.drop (nsh / 8) ++ List.replicate (min (nsh / 8) bv.length) (0 : Byte))).1 := by
    simp only [bfShiftUp, CHAR_BIT]
    rw [List.take_of_length_le (by simp)]
    rfl
  obtain ⟨sl, so, sv⟩ := shiftUpBits_spec (nsh % 8) hx (bv.drop (nsh / 8) ++ List.replicate (min (nsh / 8) bv.length) (0 : Byte))
  rw [hbr]
  refine ⟨by rw [sl, dl], ?_⟩
  have hlt := beVal_lt (shiftUpBits (nsh % 8) 0 (bv.drop (nsh / 8) ++ List.replicate (min (nsh / 8) bv.length) (0 : Byte))).1
  rw [sl, dl] at hlt
  rw [dl, dv] at sv
  rw [two_pow_split nsh, ← Nat.mul_assoc, ← Nat.mod_mul_mod, ← sv, Nat.add_mul_mod_self_right, Nat.mod_eq_of_lt hlt]

theorem shiftDn_step {x b c : Nat} (hx : x < 8) (hb : b < 256) (hc : c < 2 ^ x) :
    b / 2 ^ x < 2 ^ (8 - x) ∧ (c * 2 ^ (8 - x) + b / 2 ^ x) % 256 = c * 2 ^ (8 - x) + b / 2 ^ x ∧
    b % 2 ^ x < 2 ^ x ∧ (b * 2 ^ (8 - x)) % 256 = (b % 2 ^ x) * 2 ^ (8 - x) ∧
    c * 256 + b = (c * 2 ^ (8 - x) + b / 2 ^ x) * 2 ^ x + b % 2 ^ x := by
  rcases lt8_cases hx with rfl | rfl | rfl | rfl | rfl | rfl | rfl | rfl <;> simp at hc ⊢ <;> omega

theorem shiftDnBits_spec (x : Nat) (hx : x < 8) (l : List Byte) (ov c : Nat) (hc : c < 2 ^ x)
    (hov : ov % 256 = c * 2 ^ (8 - x)) :
    (shiftDnBits x ov l).length = l.length ∧
    beVal (shiftDnBits x ov l) = (c * 256 ^ l.length + beVal l) / 2 ^ x := by
  induction l generalizing ov c with
  | nil => simp [shiftDnBits, beVal]; exact (Nat.div_eq_of_lt hc).symm
  | cons b bs ih =>
    have hb := b.isLt
    obtain ⟨k1, k2, k3, k4, k5⟩ := shiftDn_step (b := b.toNat) hx hb hc
    obtain ⟨il, iv⟩ := ih (b.toNat <<< (CHAR_BIT - x)) (b.toNat % 2 ^ x) k3 (by simpa [Nat.shiftLeft_eq, CHAR_BIT] using k4)
    have hmask : ov &&& ((1 <<< CHAR_BIT) - 1) = ov % 256 := Nat.and_two_pow_sub_one_eq_mod ov 8
    simp only [shiftDnBits, List.length_cons, il, beVal, BitVec.toNat_ofNat, hmask, hov, true_and, iv,
      Nat.shiftRight_eq_div_pow]
    rw [Nat.or_comm, or_eq_add_of_lt _ k1]
    have h8 : (2:Nat) ^ 8 = 256 := rfl
    rw [h8, k2, Nat.pow_succ]
    generalize 256 ^ bs.length = T at *
    generalize c * 2 ^ (8 - x) + b.toNat / 2 ^ x = A at *
    generalize b.toNat % 2 ^ x = r at *
    have e : c * (T * 256) + (b.toNat * T + beVal bs) = (r * T + beVal bs) + (A * T) * 2 ^ x := by
      calc c * (T * 256) + (b.toNat * T + beVal bs)
          = (c * 256 + b.toNat) * T + beVal bs := by
            rw [Nat.add_mul, Nat.mul_comm T 256, Nat.mul_assoc, Nat.add_assoc]
        _ = (A * 2 ^ x + r) * T + beVal bs := by rw [k5]
        _ = (r * T + beVal bs) + (A * T) * 2 ^ x := by
            rw [Nat.add_mul, Nat.mul_right_comm A (2 ^ x) T]; omega
    rw [e, Nat.add_mul_div_right _ _ (Nat.pow_pos (by decide))]
    omega

theorem fill_zero (n k B : Nat) (h : ∀ i, i < n → i + 1 ≠ k) :
    (List.range n).map (fun i => BitVec.ofNat 8 (if i + 1 = k then B else 0)) = List.replicate n (0 : Byte) := by
  induction n with
  | zero => rfl
  | succ n ih =>
    rw [List.range_succ, List.map_append, ih (fun i hi => h i (by omega)), List.replicate_succ']
    simp [h n (by omega)]

theorem fill_spec (k nb B : Nat) (hB : B < 2) :
    ((List.range (min k nb)).map (fun i => BitVec.ofNat 8 (if i + 1 = k then B else 0))).length = min k nb ∧
    beVal ((List.range (min k nb)).map (fun i => BitVec.ofNat 8 (if i + 1 = k then B else 0)))
      = if 1 ≤ k ∧ k ≤ nb then B else 0 := by
  refine ⟨by simp, ?_⟩
  by_cases h : 1 ≤ k ∧ k ≤ nb
  · obtain ⟨m, rfl⟩ : ∃ m, k = m + 1 := ⟨k - 1, by omega⟩
    rw [if_pos h, Nat.min_eq_left h.2, List.range_succ, List.map_append, fill_zero m (m + 1) B (by omega),
      beVal_append, beVal_replicate_zero]
    simp [beVal]; omega
  · rw [if_neg h, fill_zero _ _ _ (by omega), beVal_replicate_zero]

theorem beVal_take (l : List Byte) (k : Nat) :
    beVal (l.take k) = beVal l / 256 ^ (l.length - k) := by
  have h1 := beVal_append (l.take k) (l.drop k)
  rw [List.take_append_drop, List.length_drop] at h1
  have h2 := beVal_lt (l.drop k)
  rw [List.length_drop] at h2
  rw [h1, Nat.mul_comm, Nat.mul_add_div (pow256_pos _), Nat.div_eq_of_lt h2, Nat.add_zero]

theorem br1_spec (bv : List Byte) (xb B : Nat) (hB : B < 2) :
    ((List.range (min xb bv.length)).map (fun i => BitVec.ofNat 8 (if i + 1 = xb then B else 0))
        ++ bv.take (bv.length - xb)).length = bv.length ∧
    beVal ((List.range (min xb bv.length)).map (fun i => BitVec.ofNat 8 (if i + 1 = xb then B else 0))
        ++ bv.take (bv.length - xb))
      = (beVal bv + (if xb = 0 then 0 else B) * 256 ^ bv.length) / 256 ^ xb := by
  obtain ⟨fl, fv⟩ := fill_spec xb bv.length B hB
  refine ⟨by rw [List.length_append, fl, List.length_take]; omega, ?_⟩
  rw [beVal_append, fv, beVal_take, List.length_take]
  have hV := beVal_lt bv
  by_cases h0 : xb = 0
  · subst h0; simp
  · by_cases h1 : xb ≤ bv.length
    · rw [if_pos ⟨by omega, h1⟩, if_neg h0]
      have e1 : min (bv.length - xb) bv.length = bv.length - xb := by omega
      have e2 : bv.length - (bv.length - xb) = xb := by omega
      rw [e1, e2, ← Nat.pow_sub_mul_pow 256 h1, ← Nat.mul_assoc, Nat.add_mul_div_right _ _ (pow256_pos _), Nat.add_comm]
    · rw [if_neg (by omega), if_neg h0]
      have e1 : min (bv.length - xb) bv.length = 0 := by omega
      have e2 : bv.length - (bv.length - xb) = bv.length := by omega
      rw [e1, e2, Nat.zero_mul, Nat.zero_add, Nat.div_eq_of_lt hV]
      refine (Nat.div_eq_of_lt ?_).symm
      have : 256 ^ (bv.length + 1) ≤ 256 ^ xb := Nat.pow_le_pow_right (by decide) (by omega)
      rw [Nat.pow_succ] at this
      have : B * 256 ^ bv.length ≤ 1 * 256 ^ bv.length := Nat.mul_le_mul_right _ (by omega)
      omega

theorem bfShiftDn_unfold (bv : List Byte) (nsh : Nat) (b1 : Bool) :
    bfShiftDn bv.length bv nsh false b1 true
      = shiftDnBits (nsh % 8) ((if nsh / 8 = 0 then b1.toNat else 0) <<< (8 - nsh % 8))
          ((List.range (min (nsh / 8) bv.length)).map (fun i => BitVec.ofNat 8 (if i + 1 = nsh / 8 then b1.toNat else 0))
            ++ bv.take (bv.length - nsh / 8)) := by
  cases b1 <;> simp [bfShiftDn, CHAR_BIT]

theorem bfShiftDn_val (bv : List Byte) (nsh : Nat) (b1 : Bool) :
    (bfShiftDn bv.length bv nsh false b1 true).length = bv.length ∧
    beVal (bfShiftDn bv.length bv nsh false b1 true)
      = (beVal bv + b1.toNat * 256 ^ bv.length) / 2 ^ nsh % 256 ^ bv.length := by
  have hB : b1.toNat < 2 := by cases b1 <;> decide
  have hx : nsh % 8 < 8 := Nat.mod_lt _ (by decide)
  rw [bfShiftDn_unfold]
  obtain ⟨rl, rv⟩ := br1_spec bv (nsh / 8) b1.toNat hB
  generalize hbr : (List.range (min (nsh / 8) bv.length)).map (fun i => BitVec.ofNat 8 (if i + 1 = nsh / 8 then b1.toNat else 0))
            ++ bv.take (bv.length - nsh / 8) = br1 at rl rv ⊢
  have hV := beVal_lt bv
  have hM := pow256_pos bv.length
  generalize hBn : b1.toNat = B at *
  have hBM : B * 256 ^ bv.length ≤ 1 * 256 ^ bv.length := Nat.mul_le_mul_right _ (by omega)
  by_cases h0 : nsh / 8 = 0
  · -- shift by less than a byte
    have hn : nsh % 8 = nsh := by omega
    rw [if_pos h0] at rv ⊢
    rw [h0] at rv
    simp only [Nat.zero_mul, Nat.add_zero, Nat.pow_zero, Nat.div_one] at rv
    rw [hn] at hx ⊢
    by_cases hz : nsh = 0
    · subst hz
      obtain ⟨sl, sv⟩ := shiftDnBits_spec 0 (by decide) br1 (B <<< (8 - 0)) 0 (by decide)
        (by rw [Nat.shiftLeft_eq]; omega)
      rw [sl, sv, rl, rv]
      refine ⟨rfl, ?_⟩
      simp only [Nat.zero_mul, Nat.zero_add, Nat.pow_zero, Nat.div_one]
      rw [Nat.add_mul_mod_self_right, Nat.mod_eq_of_lt hV]
    · have h2 : 2 ≤ 2 ^ nsh := by
        have := Nat.pow_le_pow_right (n := 2) (by decide) (show 1 ≤ nsh by omega)
        simpa using this
      obtain ⟨sl, sv⟩ := shiftDnBits_spec nsh hx br1 (B <<< (8 - nsh)) B (by omega)
        (by
          rw [Nat.shiftLeft_eq]
          have : 2 ^ (8 - nsh) * 2 ≤ 256 := by
            have h8 : 2 ^ (8 - nsh) * 2 ^ nsh = 256 := by
              rw [← Nat.pow_add, Nat.sub_add_cancel (by omega)]
            rw [← h8]; exact Nat.mul_le_mul_left _ h2
          have : B * 2 ^ (8 - nsh) ≤ 1 * 2 ^ (8 - nsh) := Nat.mul_le_mul_right _ (by omega)
          omega)
      rw [sl, sv, rl, rv]
      refine ⟨rfl, ?_⟩
      rw [Nat.add_comm]
      refine (Nat.mod_eq_of_lt (Nat.div_lt_of_lt_mul ?_)).symm
      have : 2 * 256 ^ bv.length ≤ 2 ^ nsh * 256 ^ bv.length := Nat.mul_le_mul_right _ h2
      omega
  · rw [if_neg h0] at rv ⊢
    obtain ⟨sl, sv⟩ := shiftDnBits_spec (nsh % 8) hx br1 (0 <<< (8 - nsh % 8)) 0 (Nat.pow_pos (by decide))
      (by simp)
    rw [sl, sv, rl, rv]
    refine ⟨rfl, ?_⟩
    rw [Nat.zero_mul, Nat.zero_add, Nat.div_div_eq_div_mul, ← two_pow_split]
    refine (Nat.mod_eq_of_lt (Nat.div_lt_of_lt_mul ?_)).symm
    have h2 : 2 ≤ 2 ^ nsh := by
      have := Nat.pow_le_pow_right (n := 2) (by decide) (show 1 ≤ nsh by omega)
      simpa using this
    have : 2 * 256 ^ bv.length ≤ 2 ^ nsh * 256 ^ bv.length := Nat.mul_le_mul_right _ h2
    omega

theorem first1Bit_spec_nat : ∀ n, n < 256 → n ≠ 0 →
    first1Bit (BitVec.ofNat 8 n) 8 0 < 8 ∧ 2 ^ (7 - first1Bit (BitVec.ofNat 8 n) 8 0) ≤ n ∧
      n < 2 ^ (8 - first1Bit (BitVec.ofNat 8 n) 8 0) := by
  decide +kernel

theorem first1Bit_spec (b : Byte) (hb : b ≠ 0) :
    first1Bit b 8 0 < 8 ∧ 2 ^ (7 - first1Bit b 8 0) ≤ b.toNat ∧ b.toNat < 2 ^ (8 - first1Bit b 8 0) := by
  have h := first1Bit_spec_nat b.toNat b.isLt (fun h => hb (BitVec.eq_of_toNat_eq h))
  simpa using h

theorem bfFirst1_spec (bv : List Byte) :
    (beVal bv = 0 → bfFirst1 bv.length bv = -1) ∧
    (beVal bv ≠ 0 → ∃ k : Nat, bfFirst1 bv.length bv = (k : Int) ∧ k < 8 * bv.length ∧
        2 ^ (8 * bv.length - 1 - k) ≤ beVal bv ∧ beVal bv < 2 ^ (8 * bv.length - k)) := by
  induction bv with
  | nil => simp [bfFirst1, first1Byte, beVal]
  | cons b bs ih =>
    have hunf : ∀ l : List Byte, bfFirst1 l.length l =
        if first1Byte l = l.length then -1
        else ((first1Byte l * 8 + first1Bit (l.getD (first1Byte l) 0) 8 0 : Nat) : Int) := by
      intro l; simp [bfFirst1, CHAR_BIT]
    rw [hunf] at ih ⊢
    by_cases hb : b = 0
    · subst hb
      have hv : beVal ((0 : Byte) :: bs) = beVal bs := by simp [beVal]
      have hf : first1Byte ((0 : Byte) :: bs) = first1Byte bs + 1 := by simp [first1Byte]
      rw [hv, hf]
      simp only [List.length_cons, Nat.add_right_cancel_iff, List.getD_cons_succ]
      constructor
      · intro h0
        have := ih.1 h0
        split at this
        · rw [if_pos ‹_›]
        · exact absurd this (by omega)
      · intro hne
        obtain ⟨k, hk, hlt, hlo, hhi⟩ := ih.2 hne
        split at hk
        · exact absurd hk (by omega)
        · rw [if_neg ‹_›]
          refine ⟨k + 8, by omega, by omega, ?_, ?_⟩
          · have : 8 * (bs.length + 1) - 1 - (k + 8) = 8 * bs.length - 1 - k := by omega
            rw [this]; exact hlo
          · have : 8 * (bs.length + 1) - (k + 8) = 8 * bs.length - k := by omega
            rw [this]; exact hhi
    · obtain ⟨k1, k2, k3⟩ := first1Bit_spec b hb
      have hf : first1Byte (b :: bs) = 0 := by simp [first1Byte, show ¬ b = 0#8 from hb]
      have hlt := beVal_lt bs
      rw [hf]
      simp only [List.length_cons, List.getD_cons_zero, Nat.zero_mul, Nat.zero_add]
      rw [if_neg (by omega)]
      have hpos : 0 < b.toNat := by
        have : b.toNat ≠ 0 := fun h => hb (BitVec.eq_of_toNat_eq h)
        omega
      have hvpos : beVal (b :: bs) ≠ 0 := by
        have : 0 < b.toNat * 256 ^ bs.length := Nat.mul_pos hpos (pow256_pos _)
        simp only [beVal]; omega
      refine ⟨fun h => absurd h hvpos, fun _ => ⟨first1Bit b 8 0, rfl, by omega, ?_, ?_⟩⟩
      · have e : 8 * (bs.length + 1) - 1 - first1Bit b 8 0 = (7 - first1Bit b 8 0) + 8 * bs.length := by omega
        rw [e, Nat.pow_add, ← pow256_eq]
        simp only [beVal]
        have := Nat.mul_le_mul_right (256 ^ bs.length) k2
        omega
      · have e : 8 * (bs.length + 1) - first1Bit b 8 0 = (8 - first1Bit b 8 0) + 8 * bs.length := by omega
        rw [e, Nat.pow_add, ← pow256_eq]
        simp only [beVal]
        have := Nat.mul_le_mul_right (256 ^ bs.length) (show b.toNat + 1 ≤ 2 ^ (8 - first1Bit b 8 0) by omega)
        rw [Nat.add_mul] at this
        omega

/-! ## part 3: dissemble / assemble of the four formats on numbers -/

theorem and_shifted_mask (x a k : Nat) : x &&& ((2 ^ a - 1) * 2 ^ k) = x / 2 ^ k % 2 ^ a * 2 ^ k := by
  apply Nat.eq_of_testBit_eq
  intro i
  rw [Nat.testBit_and, Nat.testBit_mul_two_pow, Nat.testBit_mul_two_pow, Nat.testBit_two_pow_sub_one,
    Nat.testBit_mod_two_pow, Nat.testBit_div_two_pow]
  by_cases h : k ≤ i
  · rw [Nat.sub_add_cancel h]; simp [h, Bool.and_comm]
  · simp [h]

theorem and_pow_ne_zero (x k : Nat) : (x &&& 2 ^ k ≠ 0) ↔ x / 2 ^ k % 2 = 1 := by
  have h := and_shifted_mask x 1 k
  simp only [Nat.pow_one, Nat.add_one_sub_one, Nat.one_mul] at h
  rw [h]
  have hp : 0 < 2 ^ k := Nat.pow_pos (by decide)
  constructor
  · intro hne
    rcases Nat.mod_two_eq_zero_or_one (x / 2 ^ k) with h0 | h1
    · rw [h0] at hne; simp at hne
    · exact h1
  · intro h1; rw [h1]; omega

theorem SF_consts : SF.size = 4 ∧ SF.fracShift = 7 ∧ SF.fracIx0 = 1 ∧ SF.fracSh0 = 1 ∧ SF.signMask = 2 ^ 15 ∧
    SF.fracMask = 127 ∧ SF.exponMask = (2 ^ 8 - 1) * 2 ^ 7 ∧ SF.exponMin = -127 ∧ SF.exponNAN = 128 ∧ SF.lgBase = 1 ∧
    SF.excess = 127 ∧ SF.hasNANs = true ∧ SF.hasNorm1 = true ∧ SF.lgLgBase = 0 := by decide

theorem natDissemble_SF (x : List Byte) :
    natDissemble SF x =
      (decide (ushort0 x &&& 32768 ≠ 0), (((ushort0 x &&& 32640) >>> 7 : Nat) : Int) - (127 : Nat),
       bfShiftUp 4 ((x.drop 1).take 3 ++ [0]) 1 false) := by
  rfl

theorem natAssemble_SF (sg : Bool) (e : Int) (fr : List Byte) :
    natAssemble SF sg e fr =
      [BitVec.ofNat 8 ((((if sg then 32768 else 0) ||| intAnd16 ((e + 127) * (128 : Nat)) 32640) >>> 8) &&& 0xff),
       BitVec.ofNat 8 (((if sg then 32768 else 0) ||| intAnd16 ((e + 127) * (128 : Nat)) 32640) &&& 0xff)
         ||| (bfShiftDn 4 fr 1 false false false).getD 0 0,
       (bfShiftDn 4 fr 1 false false false).getD 1 0,
       (bfShiftDn 4 fr 1 false false false).getD 2 0] := by
  rfl

theorem natAssemble_DF (sg : Bool) (e : Int) (fr : List Byte) :
    natAssemble DF sg e fr =
      [BitVec.ofNat 8 ((((if sg then 32768 else 0) ||| intAnd16 ((e + 1023) * (16 : Nat)) 32752) >>> 8) &&& 0xff),
       BitVec.ofNat 8 (((if sg then 32768 else 0) ||| intAnd16 ((e + 1023) * (16 : Nat)) 32752) &&& 0xff)
         ||| (bfShiftDn 8 fr 4 false false false).getD 0 0,
       (bfShiftDn 8 fr 4 false false false).getD 1 0,
       (bfShiftDn 8 fr 4 false false false).getD 2 0,
       (bfShiftDn 8 fr 4 false false false).getD 3 0,
       (bfShiftDn 8 fr 4 false false false).getD 4 0,
       (bfShiftDn 8 fr 4 false false false).getD 5 0,
       (bfShiftDn 8 fr 4 false false false).getD 6 0] := by
  rfl

theorem xAssemble_XSF (sg : Bool) (e : Int) (fr : List Byte) :
    xAssemble XSF sg e fr =
      [BitVec.ofNat 8 ((((if sg then 32768 else 0) ||| intAnd16 (e + 16382) 32767) >>> 8) &&& 255),
       BitVec.ofNat 8 (((if sg then 32768 else 0) ||| intAnd16 (e + 16382) 32767) &&& 255),
       fr.getD 0 0, fr.getD 1 0, fr.getD 2 0, fr.getD 3 0] := by
  rfl

theorem xAssemble_XDF (sg : Bool) (e : Int) (fr : List Byte) :
    xAssemble XDF sg e fr =
      [BitVec.ofNat 8 ((((if sg then 32768 else 0) ||| intAnd16 (e + 16382) 32767) >>> 8) &&& 255),
       BitVec.ofNat 8 (((if sg then 32768 else 0) ||| intAnd16 (e + 16382) 32767) &&& 255),
       fr.getD 0 0, fr.getD 1 0, fr.getD 2 0, fr.getD 3 0, fr.getD 4 0, fr.getD 5 0, fr.getD 6 0, fr.getD 7 0] := by
  rfl

theorem natDissemble_DF (x : List Byte) :
    natDissemble DF x =
      (decide (ushort0 x &&& 32768 ≠ 0), (((ushort0 x &&& 32752) >>> 4 : Nat) : Int) - (1023 : Nat),
       bfShiftUp 8 ((x.drop 1).take 7 ++ [0]) 4 false) := by
  rfl

theorem xDissemble_XSF (x : List Byte) :
    xDissemble XSF x =
      (decide (unbyte2 x &&& 32768 ≠ 0), ((unbyte2 x &&& 32767 : Nat) : Int) - (16382 : Nat), (x.drop 2).take 4) := by
  rfl

theorem xDissemble_XDF (x : List Byte) :
    xDissemble XDF x =
      (decide (unbyte2 x &&& 32768 ≠ 0), ((unbyte2 x &&& 32767 : Nat) : Int) - (16382 : Nat), (x.drop 2).take 8) := by
  rfl

theorem bfShiftUp_eq (bv : List Byte) (nsh : Nat) :
    bfShiftUp bv.length bv nsh false = beBytes bv.length ((beVal bv * 2 ^ nsh) % 256 ^ bv.length) :=
  eq_beBytes_of_val (bfShiftUp_val bv nsh).1 (bfShiftUp_val bv nsh).2

theorem bfShiftDn_eq (bv : List Byte) (nsh : Nat) (b1 : Bool) :
    bfShiftDn bv.length bv nsh false b1 = beBytes bv.length ((beVal bv + b1.toNat * 256 ^ bv.length) / 2 ^ nsh % 256 ^ bv.length) :=
  eq_beBytes_of_val (bfShiftDn_val bv nsh b1).1 (bfShiftDn_val bv nsh b1).2

theorem bfShiftDn_unaliased (bv : List Byte) (nsh : Nat) (b0 b1 : Bool) (h : nsh < 8) :
    bfShiftDn bv.length bv nsh b0 b1 false = bfShiftDn bv.length bv nsh b0 b1 true := by
  have h0 : nsh / 8 = 0 := by omega
  simp [bfShiftDn, CHAR_BIT, h0]

theorem ushort0_cons (a b : Byte) (r : List Byte) : ushort0 (a :: b :: r) = a.toNat * 256 + b.toNat := by
  have hb := b.isLt
  show (a.toNat <<< 8) ||| b.toNat = _
  rw [Nat.shiftLeft_eq]
  exact or_eq_add_of_lt (x := 8) a.toNat hb

theorem unbyte2_cons (a b : Byte) (r : List Byte) : unbyte2 (a :: b :: r) = a.toNat * 256 + b.toNat := by
  have ha := a.isLt
  have hb := b.isLt
  show (b.toNat &&& 255) ||| ((a.toNat &&& 255) <<< 8) = _
  rw [Nat.and_two_pow_sub_one_eq_mod _ 8, Nat.and_two_pow_sub_one_eq_mod _ 8, Nat.mod_eq_of_lt ha, Nat.mod_eq_of_lt hb,
    Nat.shiftLeft_eq, Nat.or_comm]
  exact or_eq_add_of_lt (x := 8) a.toNat hb

theorem and_32768 (x : Nat) : (x &&& 32768 ≠ 0) ↔ x / 32768 % 2 = 1 := and_pow_ne_zero x 15

theorem and_32640 (x : Nat) : (x &&& 32640) >>> 7 = x / 128 % 256 := by
  have := and_shifted_mask x 8 7
  rw [show (32640 : Nat) = (2 ^ 8 - 1) * 2 ^ 7 from rfl, this, Nat.shiftRight_eq_div_pow, Nat.mul_div_cancel _ (by decide)]

theorem and_32752 (x : Nat) : (x &&& 32752) >>> 4 = x / 16 % 2048 := by
  have := and_shifted_mask x 11 4
  rw [show (32752 : Nat) = (2 ^ 11 - 1) * 2 ^ 4 from rfl, this, Nat.shiftRight_eq_div_pow, Nat.mul_div_cancel _ (by decide)]

theorem and_32767 (x : Nat) : x &&& 32767 = x % 32768 := Nat.and_two_pow_sub_one_eq_mod x 15

theorem and_255 (x : Nat) : x &&& 255 = x % 256 := Nat.and_two_pow_sub_one_eq_mod x 8

theorem beBytes_4 (v : Nat) : beBytes 4 v =
    [BitVec.ofNat 8 (v / 256 ^ 3), BitVec.ofNat 8 (v / 256 ^ 2), BitVec.ofNat 8 (v / 256 ^ 1), BitVec.ofNat 8 (v / 256 ^ 0)] := rfl

theorem sf_dissemble_eq (n : Nat) (hn : n < 2 ^ 32) :
    natDissemble SF (beBytes 4 n) =
      (decide (n / 2 ^ 31 = 1), ((n / 2 ^ 23 % 256 : Nat) : Int) - 127, beBytes 4 (n % 2 ^ 23 * 512)) := by
  rw [natDissemble_SF, beBytes_4 n]
  simp only [ushort0_cons, BitVec.toNat_ofNat, and_32640]
  have e1 : (decide (((n / 256 ^ 3) % 2 ^ 8 * 256 + (n / 256 ^ 2) % 2 ^ 8) &&& 32768 ≠ 0)) = decide (n / 2 ^ 31 = 1) := by
    rw [decide_eq_decide, and_32768]; omega
  rw [e1]
  have e2 : ((n / 256 ^ 3) % 2 ^ 8 * 256 + (n / 256 ^ 2) % 2 ^ 8) / 128 % 256 = n / 2 ^ 23 % 256 := by omega
  rw [e2]
  have e3 : bfShiftUp 4 [BitVec.ofNat 8 (n / 256 ^ 2), BitVec.ofNat 8 (n / 256 ^ 1), BitVec.ofNat 8 (n / 256 ^ 0), 0] 1 false
      = beBytes 4 ((beVal [BitVec.ofNat 8 (n / 256 ^ 2), BitVec.ofNat 8 (n / 256 ^ 1), BitVec.ofNat 8 (n / 256 ^ 0), 0] * 2 ^ 1) % 256 ^ 4) :=
    bfShiftUp_eq [BitVec.ofNat 8 (n / 256 ^ 2), BitVec.ofNat 8 (n / 256 ^ 1), BitVec.ofNat 8 (n / 256 ^ 0), 0] 1
  have e4 : (beVal [BitVec.ofNat 8 (n / 256 ^ 2), BitVec.ofNat 8 (n / 256 ^ 1), BitVec.ofNat 8 (n / 256 ^ 0), 0] * 2 ^ 1)
      % 256 ^ 4 = n % 2 ^ 23 * 512 := by
    simp only [beVal, BitVec.toNat_ofNat, List.length_cons, List.length_nil]
    simp; omega
  rw [e4] at e3
  exact Prod.ext rfl (Prod.ext rfl e3)

theorem intAnd16_nat (x mask : Nat) : intAnd16 (x : Int) mask = (x % 65536) &&& mask := by
  unfold intAnd16
  have : ((x : Int) % 65536).toNat = x % 65536 := by omega
  rw [this]

theorem and_32640' (x : Nat) : x &&& 32640 = x / 128 % 256 * 128 := and_shifted_mask x 8 7

theorem and_32752' (x : Nat) : x &&& 32752 = x / 16 % 2048 * 16 := and_shifted_mask x 11 4

theorem sign_or (sg : Bool) (c : Nat) (hc : c < 32768) :
    (if sg = true then 32768 else 0) ||| c = sg.toNat * 32768 + c := by
  cases sg
  · simp
  · simpa using or_eq_add_of_lt (x := 15) 1 hc

theorem byte_or (a b : Nat) (k : Nat) (hk : k ≤ 8) (ha : a % 2 ^ k = 0) (hb : b % 256 < 2 ^ k) :
    (BitVec.ofNat 8 a ||| BitVec.ofNat 8 b).toNat = a % 256 + b % 256 := by
  rw [BitVec.toNat_or, BitVec.toNat_ofNat, BitVec.toNat_ofNat]
  have h8 : (2:Nat) ^ 8 = 256 := rfl
  rw [h8]
  have hd : 2 ^ k ∣ 256 := by rw [← h8]; exact Nat.pow_dvd_pow 2 hk
  have ha' : a % 256 % 2 ^ k = 0 := by rw [Nat.mod_mod_of_dvd _ hd]; exact ha
  have : a % 256 = (a % 256 / 2 ^ k) * 2 ^ k := by
    have := Nat.div_add_mod (a % 256) (2 ^ k)
    rw [ha', Nat.add_zero, Nat.mul_comm] at this; exact this.symm
  rw [this]
  exact or_eq_add_of_lt _ hb

theorem sf_assemble_eq (sg : Bool) (E P : Nat) (hE : E < 256) (hP : P < 2 ^ 32) :
    natAssemble SF sg ((E : Int) - 127) (beBytes 4 P) = beBytes 4 (sg.toNat * 2 ^ 31 + E * 2 ^ 23 + P / 512) := by
  rw [natAssemble_SF]
  have e0 : ((E : Int) - 127 + 127) * ((128 : Nat) : Int) = ((E * 128 : Nat) : Int) := by omega
  rw [e0, intAnd16_nat, and_32640']
  have e1 : E * 128 % 65536 / 128 % 256 * 128 = E * 128 := by omega
  rw [e1, sign_or sg _ (by omega)]
  have hs : sg.toNat < 2 := by cases sg <;> decide
  generalize sg.toNat = s at *
  have epb : bfShiftDn 4 (beBytes 4 P) 1 false false false = beBytes 4 (P / 2) := by
    have h1 := bfShiftDn_unaliased (beBytes 4 P) 1 false false (by decide)
    have h2 := bfShiftDn_eq (beBytes 4 P) 1 false
    rw [beBytes_length] at h1 h2
    rw [h1, h2, beVal_beBytes]
    congr 1
    simp; omega
  rw [epb, beBytes_4 (P / 2)]
  apply eq_beBytes_of_val rfl
  simp only [List.getD_cons_zero, List.getD_cons_succ, beVal, List.length_cons, List.length_nil]
  rw [byte_or _ _ 7 (by decide) (by rw [and_255]; omega) (by omega)]
  simp only [BitVec.toNat_ofNat, and_255, Nat.shiftRight_eq_div_pow]
  omega

theorem beBytes_6 (v : Nat) : beBytes 6 v =
    [BitVec.ofNat 8 (v / 256 ^ 5), BitVec.ofNat 8 (v / 256 ^ 4), BitVec.ofNat 8 (v / 256 ^ 3), BitVec.ofNat 8 (v / 256 ^ 2),
     BitVec.ofNat 8 (v / 256 ^ 1), BitVec.ofNat 8 (v / 256 ^ 0)] := rfl

theorem xsf_assemble_eq (sg : Bool) (W P : Nat) (hW : W < 32768) (hP : P < 2 ^ 32) :
    xAssemble XSF sg ((W : Int) - 16382) (beBytes 4 P) = beBytes 6 (sg.toNat * 2 ^ 47 + W * 2 ^ 32 + P) := by
  rw [xAssemble_XSF]
  have e0 : (W : Int) - 16382 + 16382 = ((W : Nat) : Int) := by omega
  rw [e0, intAnd16_nat, and_32767]
  have e1 : W % 65536 % 32768 = W := by omega
  rw [e1, sign_or sg _ hW]
  have hs : sg.toNat < 2 := by cases sg <;> decide
  generalize sg.toNat = s at *
  rw [beBytes_4 P]
  apply eq_beBytes_of_val rfl
  simp only [List.getD_cons_zero, List.getD_cons_succ, beVal, List.length_cons, List.length_nil]
  simp only [BitVec.toNat_ofNat, and_255, Nat.shiftRight_eq_div_pow]
  omega

theorem xsf_dissemble_eq (m : Nat) (hm : m < 2 ^ 48) :
    xDissemble XSF (beBytes 6 m) =
      (decide (m / 2 ^ 47 = 1), ((m / 2 ^ 32 % 32768 : Nat) : Int) - 16382, beBytes 4 (m % 2 ^ 32)) := by
  rw [xDissemble_XSF, beBytes_6 m]
  simp only [unbyte2_cons, BitVec.toNat_ofNat, and_32767]
  have e1 : (decide (((m / 256 ^ 5) % 2 ^ 8 * 256 + (m / 256 ^ 4) % 2 ^ 8) &&& 32768 ≠ 0)) = decide (m / 2 ^ 47 = 1) := by
    rw [decide_eq_decide, and_32768]; omega
  rw [e1]
  have e2 : ((m / 256 ^ 5) % 2 ^ 8 * 256 + (m / 256 ^ 4) % 2 ^ 8) % 32768 = m / 2 ^ 32 % 32768 := by omega
  rw [e2]
  have e3 : [BitVec.ofNat 8 (m / 256 ^ 3), BitVec.ofNat 8 (m / 256 ^ 2), BitVec.ofNat 8 (m / 256 ^ 1), BitVec.ofNat 8 (m / 256 ^ 0)]
      = beBytes 4 (m % 2 ^ 32) := by
    apply eq_beBytes_of_val rfl
    simp only [beVal, List.length_cons, List.length_nil, BitVec.toNat_ofNat]
    omega
  exact Prod.ext rfl (Prod.ext rfl e3)

theorem fracNormalize_eq (E : Int) (nb P : Nat) (hP0 : P ≠ 0) (hP : P < 256 ^ nb) :
    ∃ k : Nat, k < 8 * nb ∧ 2 ^ (8 * nb - 1 - k) ≤ P ∧ P < 2 ^ (8 * nb - k) ∧
      fracNormalize E nb (beBytes nb P) = (E - ((k : Int) + 1), beBytes nb (P * 2 ^ (k + 1) % 256 ^ nb)) := by
  have hv : beVal (beBytes nb P) = P := by rw [beVal_beBytes, Nat.mod_eq_of_lt hP]
  have hs := (bfFirst1_spec (beBytes nb P)).2 (by rw [hv]; exact hP0)
  rw [beBytes_length, hv] at hs
  obtain ⟨k, hk, h1, h2, h3⟩ := hs
  refine ⟨k, h1, h2, h3, ?_⟩
  unfold fracNormalize
  simp only [hk]
  rw [if_neg (by omega)]
  have e : ((k : Int) + 1).toNat = k + 1 := by omega
  have h4 := bfShiftUp_eq (beBytes nb P) (k + 1)
  rw [beBytes_length, hv] at h4
  rw [e, h4]

theorem fracDenormalize_eq (E emin : Int) (nb P : Nat) (hE : E ≤ emin) (hP : P < 256 ^ nb) :
    fracDenormalize E emin nb (beBytes nb P) 0 true =
      (emin, beBytes nb ((P + 256 ^ nb) / 2 ^ (emin - E).toNat % 256 ^ nb)) := by
  have hv : beVal (beBytes nb P) = P := by rw [beVal_beBytes, Nat.mod_eq_of_lt hP]
  unfold fracDenormalize
  rw [if_neg (by omega)]
  have h4 := bfShiftDn_eq (beBytes nb P) (emin - E).toNat true
  rw [beBytes_length, hv] at h4
  simp only [Nat.shiftLeft_zero]
  rw [h4]
  have : E + (emin - E) = emin := by omega
  rw [this]
  simp

/-! ## part 4: the round trip through the portable format, single precision -/

theorem sf_consts : SF.size = 4 ∧ SF.hasNANs = true ∧ SF.hasNorm1 = true ∧ SF.lgLgBase = 0 ∧ SF.exponMin = -127 ∧
    SF.exponNAN = 128 ∧ SF.lgBase = 1 := by decide
theorem xsf_consts : XSF.size = 6 ∧ XSF.fracIx0 = 2 ∧ XSF.hasNorm1 = true ∧ XSF.exponMin = -16382 ∧ XSF.exponNAN = 16385 := by decide

theorem sfOfBytes_beBytes (n : Nat) (hn : n < 2 ^ 32) : sfOfBytes (beBytes 4 n) = BitVec.ofNat 32 n := by
  unfold sfOfBytes; rw [beVal_beBytes]; congr 1; exact Nat.mod_eq_of_lt hn

theorem hasFrac_beBytes4 (P : Nat) (hP : P < 2 ^ 32) : hasFracOf (beBytes 4 P) = decide (P ≠ 0) := by
  rw [hasFracOf_eq, beVal_beBytes, Nat.mod_eq_of_lt hP]

theorem take4_beBytes4 (P : Nat) : List.take 4 (beBytes 4 P) = beBytes 4 P :=
  List.take_of_length_le (by simp)

/-- `xsfFrNative` on the number `n`, by class -/
theorem xsfFr_shape (n : Nat) (hn : n < 2 ^ 32) :
    (xFrNative XSF SF (beBytes 4 n)).1 =
      if n / 2 ^ 23 % 256 = 255 then xAssemble XSF (decide (n / 2 ^ 31 = 1)) 16385 (beBytes 4 (n % 2 ^ 23 * 512))
      else if n / 2 ^ 23 % 256 = 0 ∧ n % 2 ^ 23 = 0 then
        xAssemble XSF (decide (n / 2 ^ 31 = 1)) (-16382) (beBytes 4 (n % 2 ^ 23 * 512))
      else if n / 2 ^ 23 % 256 = 0 then
        xAssemble XSF (decide (n / 2 ^ 31 = 1)) (fracNormalize (-127) 4 (beBytes 4 (n % 2 ^ 23 * 512))).1
          (fracNormalize (-127) 4 (beBytes 4 (n % 2 ^ 23 * 512))).2
      else xAssemble XSF (decide (n / 2 ^ 31 = 1)) (((n / 2 ^ 23 % 256 : Nat) : Int) - 127) (beBytes 4 (n % 2 ^ 23 * 512)) := by
  have hP : n % 2 ^ 23 * 512 < 2 ^ 32 := by omega
  unfold xFrNative
  simp only [sf_dissemble_eq n hn, sf_consts, xsf_consts, Nat.reduceSub, List.replicate_zero, List.append_nil,
    take4_beBytes4, hasFrac_beBytes4 _ hP, decide_eq_true_eq]
  generalize n / 2 ^ 23 % 256 = e
  generalize hf : n % 2 ^ 23 = f
  have hC : (f * 512 ≠ 0) ↔ (f ≠ 0) := by omega
  simp only [hC]
  by_cases h1 : e = 255
  · subst h1; simp
  · have cA : ¬ ((e : Int) - 127 = 128) := by omega
    by_cases h2 : e = 0
    · subst h2
      by_cases h3 : f = 0
      · subst h3; simp
      · simp [h3]
    · have cB : ¬ ((e : Int) - 127 = -127) := by omega
      simp [h1, h2, cA, cB]

theorem fracDenormalize_fst (E emin : Int) (nb : Nat) (fr : List Byte) (lg : Nat) (h : Bool) (hE : E ≤ emin) :
    (fracDenormalize E emin nb fr lg h).1 = emin := by
  unfold fracDenormalize
  rw [if_neg (by omega)]
  show E + (emin - E) = emin
  omega

/-- shifting the leading 1 out at the top and back in restores the number -/
theorem shift_back (N k P : Nat) (hk : k < N) (h2 : 2 ^ (N - 1 - k) ≤ P) (h3 : P < 2 ^ (N - k)) :
    (P * 2 ^ (k + 1) % 2 ^ N + 2 ^ N) / 2 ^ (k + 1) % 2 ^ N = P := by
  have hpow : 2 ^ (N - 1 - k) * 2 ^ (k + 1) = 2 ^ N := by
    rw [← Nat.pow_add]; congr 1; omega
  have hpow2 : 2 ^ (N - k) * 2 ^ (k + 1) = 2 ^ N * 2 := by
    rw [← Nat.pow_add, ← Nat.pow_succ]; congr 1; omega
  have hlo : 2 ^ N ≤ P * 2 ^ (k + 1) := by
    rw [← hpow]; exact Nat.mul_le_mul_right _ h2
  have hhi : P * 2 ^ (k + 1) < 2 ^ N * 2 := by
    rw [← hpow2]; exact (Nat.mul_lt_mul_right (Nat.pow_pos (by decide))).mpr h3
  have hPN : P < 2 ^ N := Nat.lt_of_lt_of_le h3 (Nat.pow_le_pow_right (by decide) (by omega))
  have hmod : P * 2 ^ (k + 1) % 2 ^ N = P * 2 ^ (k + 1) - 2 ^ N := by
    rw [Nat.mod_eq_sub_mod hlo, Nat.mod_eq_of_lt (by omega)]
  rw [hmod, Nat.sub_add_cancel hlo, Nat.mul_div_cancel _ (Nat.pow_pos (by decide)), Nat.mod_eq_of_lt hPN]

theorem xsfTo_shape (M : Nat) (hM : M < 2 ^ 48) :
    (xToNative XSF SF (beBytes 6 M)).1 =
      if M / 2 ^ 32 % 32768 = 32767 then natAssemble SF (decide (M / 2 ^ 47 = 1)) 128 (beBytes 4 (M % 2 ^ 32))
      else if ((M / 2 ^ 32 % 32768 : Nat) : Int) - 16382 ≥ 128 then
        natAssemble SF (decide (M / 2 ^ 47 = 1)) 128 (List.replicate 4 0)
      else if M / 2 ^ 32 % 32768 = 0 ∧ M % 2 ^ 32 = 0 then
        natAssemble SF (decide (M / 2 ^ 47 = 1)) (-127) (beBytes 4 (M % 2 ^ 32))
      else if ((M / 2 ^ 32 % 32768 : Nat) : Int) - 16382 ≤ -127 then
        natAssemble SF (decide (M / 2 ^ 47 = 1)) (-127)
          (fracDenormalize (((M / 2 ^ 32 % 32768 : Nat) : Int) - 16382) (-127) 4 (beBytes 4 (M % 2 ^ 32)) 0 true).2
      else natAssemble SF (decide (M / 2 ^ 47 = 1)) (((M / 2 ^ 32 % 32768 : Nat) : Int) - 16382) (beBytes 4 (M % 2 ^ 32)) := by
  have hQ : M % 2 ^ 32 < 2 ^ 32 := Nat.mod_lt _ (by decide)
  unfold xToNative
  simp only [xsf_dissemble_eq M hM, sf_consts, xsf_consts, Nat.reduceSub, take4_beBytes4, hasFrac_beBytes4 _ hQ,
    decide_eq_true_eq, Int.shiftRight_zero]
  generalize M / 2 ^ 32 % 32768 = W
  generalize M % 2 ^ 32 = Q at *
  by_cases h1 : W = 32767
  · subst h1; simp
  · have c1 : ¬ ((W : Int) - 16382 = 16385) := by omega
    by_cases h2 : (W : Int) - 16382 ≥ 128
    · simp [h1, c1, h2]
    · by_cases h3 : W = 0
      · subst h3
        by_cases h4 : Q = 0
        · subst h4; simp
        · simp [h4, fracDenormalize_fst]
      · have c3 : ¬ ((W : Int) - 16382 = -16382) := by omega
        by_cases h5 : (W : Int) - 16382 ≤ -127
        · have hQ' : Q < 256 ^ 4 := by simpa using hQ
          simp [h1, c1, h2, h3, c3, h5, fracDenormalize_fst]
        · simp [h1, c1, h2, h3, c3, h5]

theorem decide_toNat_lt2 (s : Nat) (hs : s < 2) : (decide (s = 1)).toNat = s := by
  have : s = 0 ∨ s = 1 := by omega
  rcases this with rfl | rfl <;> rfl

theorem xsf_fields (s W P : Nat) (hs : s < 2) (hW : W < 32768) (hP : P < 2 ^ 32) :
    s * 2 ^ 47 + W * 2 ^ 32 + P < 2 ^ 48 ∧ (s * 2 ^ 47 + W * 2 ^ 32 + P) / 2 ^ 47 = s ∧
    (s * 2 ^ 47 + W * 2 ^ 32 + P) / 2 ^ 32 % 32768 = W ∧ (s * 2 ^ 47 + W * 2 ^ 32 + P) % 2 ^ 32 = P := by
  omega

/-- every single-precision bit pattern survives the portable encoding unchanged -/
theorem xsf_roundtrip_nat (n : Nat) (hn : n < 2 ^ 32) :
    (xToNative XSF SF (xFrNative XSF SF (beBytes 4 n)).1).1 = beBytes 4 n := by
  have hs : n / 2 ^ 31 < 2 := by omega
  have hst := decide_toNat_lt2 _ hs
  have hP : n % 2 ^ 23 * 512 < 2 ^ 32 := by omega
  rw [xsfFr_shape n hn]
  by_cases h1 : n / 2 ^ 23 % 256 = 255
  · -- infinities and NaNs
    rw [if_pos h1]
    have e := xsf_assemble_eq (decide (n / 2 ^ 31 = 1)) 32767 _ (by decide) hP
    rw [show ((32767 : Nat) : Int) - 16382 = 16385 from by decide, hst] at e
    obtain ⟨f1, f2, f3, f4⟩ := xsf_fields _ 32767 _ hs (by decide) hP
    rw [e, xsfTo_shape _ f1, f2, f3, f4, if_pos rfl]
    have a := sf_assemble_eq (decide (n / 2 ^ 31 = 1)) 255 _ (by decide) hP
    rw [show ((255 : Nat) : Int) - 127 = 128 from by decide, hst] at a
    rw [a]; congr 1; omega
  · rw [if_neg h1]
    by_cases h2 : n / 2 ^ 23 % 256 = 0
    · by_cases h3 : n % 2 ^ 23 = 0
      · -- zeros
        rw [if_pos ⟨h2, h3⟩]
        have e := xsf_assemble_eq (decide (n / 2 ^ 31 = 1)) 0 _ (by decide) hP
        rw [show ((0 : Nat) : Int) - 16382 = -16382 from by decide, hst] at e
        obtain ⟨f1, f2, f3, f4⟩ := xsf_fields _ 0 _ hs (by decide) hP
        rw [e, xsfTo_shape _ f1, f2, f3, f4, if_neg (by decide), if_neg (by decide), if_pos ⟨rfl, by omega⟩]
        have a := sf_assemble_eq (decide (n / 2 ^ 31 = 1)) 0 _ (by decide) hP
        rw [show ((0 : Nat) : Int) - 127 = -127 from by decide, hst] at a
        rw [a]; congr 1; omega
      · -- subnormals: normalised on the way out, denormalised on the way back
        rw [if_neg (by omega), if_pos h2]
        obtain ⟨k, k1, k2, k3, k4⟩ := fracNormalize_eq (-127) 4 (n % 2 ^ 23 * 512) (by omega) (by simpa using hP)
        rw [k4]
        simp only []
        have hk : k < 32 := k1
        have hP' : n % 2 ^ 23 * 512 * 2 ^ (k + 1) % 256 ^ 4 < 2 ^ 32 := Nat.mod_lt _ (by decide)
        have e := xsf_assemble_eq (decide (n / 2 ^ 31 = 1)) (16382 - 128 - k) _ (by omega) hP'
        rw [show ((16382 - 128 - k : Nat) : Int) - 16382 = -127 - ((k : Int) + 1) from by omega, hst] at e
        obtain ⟨f1, f2, f3, f4⟩ := xsf_fields _ (16382 - 128 - k) _ hs (by omega) hP'
        rw [e, xsfTo_shape _ f1, f2, f3, f4, if_neg (by omega), if_neg (by omega), if_neg (by omega), if_pos (by omega)]
        rw [fracDenormalize_eq _ (-127) 4 _ (by omega) (by simpa using hP')]
        simp only []
        have hsh : ((-127 : Int) - (((16382 - 128 - k : Nat) : Int) - 16382)).toNat = k + 1 := by omega
        rw [hsh]
        have hback := shift_back 32 k _ hk k2 k3
        rw [show (256 : Nat) ^ 4 = 2 ^ 32 from rfl]
        rw [hback]
        have a := sf_assemble_eq (decide (n / 2 ^ 31 = 1)) 0 _ (by decide) hP
        rw [show ((0 : Nat) : Int) - 127 = -127 from by decide, hst] at a
        rw [a]; congr 1; omega
    · -- normal numbers
      rw [if_neg (by omega), if_neg h2]
      have he : n / 2 ^ 23 % 256 < 256 := Nat.mod_lt _ (by decide)
      generalize hE : n / 2 ^ 23 % 256 = E at *
      have e := xsf_assemble_eq (decide (n / 2 ^ 31 = 1)) (E + 16382 - 127) _ (by omega) hP
      rw [show ((E + 16382 - 127 : Nat) : Int) - 16382 = (E : Int) - 127 from by omega, hst] at e
      obtain ⟨f1, f2, f3, f4⟩ := xsf_fields _ (E + 16382 - 127) _ hs (by omega) hP
      rw [e, xsfTo_shape _ f1, f2, f3, f4, if_neg (by omega), if_neg (by omega), if_neg (by omega), if_neg (by omega)]
      rw [show ((E + 16382 - 127 : Nat) : Int) - 16382 = (E : Int) - 127 from by omega]
      rw [sf_assemble_eq _ E _ he hP, hst]; congr 1; omega

/-! ## part 5: the same for double precision -/

theorem beBytes_8 (v : Nat) : beBytes 8 v =
    [BitVec.ofNat 8 (v / 256 ^ 7), BitVec.ofNat 8 (v / 256 ^ 6), BitVec.ofNat 8 (v / 256 ^ 5), BitVec.ofNat 8 (v / 256 ^ 4),
     BitVec.ofNat 8 (v / 256 ^ 3), BitVec.ofNat 8 (v / 256 ^ 2), BitVec.ofNat 8 (v / 256 ^ 1), BitVec.ofNat 8 (v / 256 ^ 0)] := rfl

theorem beBytes_10 (v : Nat) : beBytes 10 v =
    [BitVec.ofNat 8 (v / 256 ^ 9), BitVec.ofNat 8 (v / 256 ^ 8),
     BitVec.ofNat 8 (v / 256 ^ 7), BitVec.ofNat 8 (v / 256 ^ 6), BitVec.ofNat 8 (v / 256 ^ 5), BitVec.ofNat 8 (v / 256 ^ 4),
     BitVec.ofNat 8 (v / 256 ^ 3), BitVec.ofNat 8 (v / 256 ^ 2), BitVec.ofNat 8 (v / 256 ^ 1), BitVec.ofNat 8 (v / 256 ^ 0)] := rfl

theorem df_dissemble_eq (n : Nat) (hn : n < 2 ^ 64) :
    natDissemble DF (beBytes 8 n) =
      (decide (n / 2 ^ 63 = 1), ((n / 2 ^ 52 % 2048 : Nat) : Int) - 1023, beBytes 8 (n % 2 ^ 52 * 4096)) := by
  rw [natDissemble_DF, beBytes_8 n]
  simp only [ushort0_cons, BitVec.toNat_ofNat, and_32752]
  have e1 : (decide (((n / 256 ^ 7) % 2 ^ 8 * 256 + (n / 256 ^ 6) % 2 ^ 8) &&& 32768 ≠ 0)) = decide (n / 2 ^ 63 = 1) := by
    rw [decide_eq_decide, and_32768]; omega
  rw [e1]
  have e2 : ((n / 256 ^ 7) % 2 ^ 8 * 256 + (n / 256 ^ 6) % 2 ^ 8) / 16 % 2048 = n / 2 ^ 52 % 2048 := by omega
  rw [e2]
  have e3 : bfShiftUp 8 [BitVec.ofNat 8 (n / 256 ^ 6), BitVec.ofNat 8 (n / 256 ^ 5), BitVec.ofNat 8 (n / 256 ^ 4),
        BitVec.ofNat 8 (n / 256 ^ 3), BitVec.ofNat 8 (n / 256 ^ 2), BitVec.ofNat 8 (n / 256 ^ 1), BitVec.ofNat 8 (n / 256 ^ 0), 0] 4 false
      = beBytes 8 ((beVal [BitVec.ofNat 8 (n / 256 ^ 6), BitVec.ofNat 8 (n / 256 ^ 5), BitVec.ofNat 8 (n / 256 ^ 4),
        BitVec.ofNat 8 (n / 256 ^ 3), BitVec.ofNat 8 (n / 256 ^ 2), BitVec.ofNat 8 (n / 256 ^ 1), BitVec.ofNat 8 (n / 256 ^ 0), 0] * 2 ^ 4) % 256 ^ 8) :=
    bfShiftUp_eq [BitVec.ofNat 8 (n / 256 ^ 6), BitVec.ofNat 8 (n / 256 ^ 5), BitVec.ofNat 8 (n / 256 ^ 4),
        BitVec.ofNat 8 (n / 256 ^ 3), BitVec.ofNat 8 (n / 256 ^ 2), BitVec.ofNat 8 (n / 256 ^ 1), BitVec.ofNat 8 (n / 256 ^ 0), 0] 4
  have e4 : (beVal [BitVec.ofNat 8 (n / 256 ^ 6), BitVec.ofNat 8 (n / 256 ^ 5), BitVec.ofNat 8 (n / 256 ^ 4),
        BitVec.ofNat 8 (n / 256 ^ 3), BitVec.ofNat 8 (n / 256 ^ 2), BitVec.ofNat 8 (n / 256 ^ 1), BitVec.ofNat 8 (n / 256 ^ 0), 0] * 2 ^ 4)
      % 256 ^ 8 = n % 2 ^ 52 * 4096 := by
    simp only [beVal, BitVec.toNat_ofNat, List.length_cons, List.length_nil]
    simp; omega
  rw [e4] at e3
  exact Prod.ext rfl (Prod.ext rfl e3)

theorem df_assemble_eq (sg : Bool) (E P : Nat) (hE : E < 2048) (hP : P < 2 ^ 64) :
    natAssemble DF sg ((E : Int) - 1023) (beBytes 8 P) = beBytes 8 (sg.toNat * 2 ^ 63 + E * 2 ^ 52 + P / 4096) := by
  rw [natAssemble_DF]
  have e0 : ((E : Int) - 1023 + 1023) * ((16 : Nat) : Int) = ((E * 16 : Nat) : Int) := by omega
  rw [e0, intAnd16_nat, and_32752']
  have e1 : E * 16 % 65536 / 16 % 2048 * 16 = E * 16 := by omega
  rw [e1, sign_or sg _ (by omega)]
  have hs : sg.toNat < 2 := by cases sg <;> decide
  generalize sg.toNat = s at *
  have epb : bfShiftDn 8 (beBytes 8 P) 4 false false false = beBytes 8 (P / 16) := by
    have h1 := bfShiftDn_unaliased (beBytes 8 P) 4 false false (by decide)
    have h2 := bfShiftDn_eq (beBytes 8 P) 4 false
    rw [beBytes_length] at h1 h2
    rw [h1, h2, beVal_beBytes]
    congr 1
    simp; omega
  rw [epb, beBytes_8 (P / 16)]
  apply eq_beBytes_of_val rfl
  simp only [List.getD_cons_zero, List.getD_cons_succ, beVal, List.length_cons, List.length_nil]
  rw [byte_or _ _ 4 (by decide) (by rw [and_255]; omega) (by omega)]
  simp only [BitVec.toNat_ofNat, and_255, Nat.shiftRight_eq_div_pow]
  omega

theorem xdf_assemble_eq (sg : Bool) (W P : Nat) (hW : W < 32768) (hP : P < 2 ^ 64) :
    xAssemble XDF sg ((W : Int) - 16382) (beBytes 8 P) = beBytes 10 (sg.toNat * 2 ^ 79 + W * 2 ^ 64 + P) := by
  rw [xAssemble_XDF]
  have e0 : (W : Int) - 16382 + 16382 = ((W : Nat) : Int) := by omega
  rw [e0, intAnd16_nat, and_32767]
  have e1 : W % 65536 % 32768 = W := by omega
  rw [e1, sign_or sg _ hW]
  have hs : sg.toNat < 2 := by cases sg <;> decide
  generalize sg.toNat = s at *
  rw [beBytes_8 P]
  apply eq_beBytes_of_val rfl
  simp only [List.getD_cons_zero, List.getD_cons_succ, beVal, List.length_cons, List.length_nil]
  simp only [BitVec.toNat_ofNat, and_255, Nat.shiftRight_eq_div_pow]
  omega

theorem xdf_dissemble_eq (m : Nat) (hm : m < 2 ^ 80) :
    xDissemble XDF (beBytes 10 m) =
      (decide (m / 2 ^ 79 = 1), ((m / 2 ^ 64 % 32768 : Nat) : Int) - 16382, beBytes 8 (m % 2 ^ 64)) := by
  rw [xDissemble_XDF, beBytes_10 m]
  simp only [unbyte2_cons, BitVec.toNat_ofNat, and_32767]
  have e1 : (decide (((m / 256 ^ 9) % 2 ^ 8 * 256 + (m / 256 ^ 8) % 2 ^ 8) &&& 32768 ≠ 0)) = decide (m / 2 ^ 79 = 1) := by
    rw [decide_eq_decide, and_32768]; omega
  rw [e1]
  have e2 : ((m / 256 ^ 9) % 2 ^ 8 * 256 + (m / 256 ^ 8) % 2 ^ 8) % 32768 = m / 2 ^ 64 % 32768 := by omega
  rw [e2]
  have e3 : [BitVec.ofNat 8 (m / 256 ^ 7), BitVec.ofNat 8 (m / 256 ^ 6), BitVec.ofNat 8 (m / 256 ^ 5), BitVec.ofNat 8 (m / 256 ^ 4),
      BitVec.ofNat 8 (m / 256 ^ 3), BitVec.ofNat 8 (m / 256 ^ 2), BitVec.ofNat 8 (m / 256 ^ 1), BitVec.ofNat 8 (m / 256 ^ 0)]
      = beBytes 8 (m % 2 ^ 64) := by
    apply eq_beBytes_of_val rfl
    simp only [beVal, List.length_cons, List.length_nil, BitVec.toNat_ofNat]
    omega
  exact Prod.ext rfl (Prod.ext rfl e3)


theorem df_consts : DF.size = 8 ∧ DF.hasNANs = true ∧ DF.hasNorm1 = true ∧ DF.lgLgBase = 0 ∧ DF.exponMin = -1023 ∧
    DF.exponNAN = 1024 ∧ DF.lgBase = 1 := by decide
theorem xdf_consts : XDF.size = 10 ∧ XDF.fracIx0 = 2 ∧ XDF.hasNorm1 = true ∧ XDF.exponMin = -16382 ∧ XDF.exponNAN = 16385 := by decide

theorem dfOfBytes_beBytes (n : Nat) (hn : n < 2 ^ 64) : dfOfBytes (beBytes 8 n) = BitVec.ofNat 64 n := by
  unfold dfOfBytes; rw [beVal_beBytes]; congr 1; exact Nat.mod_eq_of_lt hn

theorem hasFrac_beBytes8 (P : Nat) (hP : P < 2 ^ 64) : hasFracOf (beBytes 8 P) = decide (P ≠ 0) := by
  rw [hasFracOf_eq, beVal_beBytes, Nat.mod_eq_of_lt hP]

theorem take8_beBytes8 (P : Nat) : List.take 8 (beBytes 8 P) = beBytes 8 P :=
  List.take_of_length_le (by simp)

/-- `xdfFrNative` on the number `n`, by class -/
theorem xdfFr_shape (n : Nat) (hn : n < 2 ^ 64) :
    (xFrNative XDF DF (beBytes 8 n)).1 =
      if n / 2 ^ 52 % 2048 = 2047 then xAssemble XDF (decide (n / 2 ^ 63 = 1)) 16385 (beBytes 8 (n % 2 ^ 52 * 4096))
      else if n / 2 ^ 52 % 2048 = 0 ∧ n % 2 ^ 52 = 0 then
        xAssemble XDF (decide (n / 2 ^ 63 = 1)) (-16382) (beBytes 8 (n % 2 ^ 52 * 4096))
      else if n / 2 ^ 52 % 2048 = 0 then
        xAssemble XDF (decide (n / 2 ^ 63 = 1)) (fracNormalize (-1023) 8 (beBytes 8 (n % 2 ^ 52 * 4096))).1
          (fracNormalize (-1023) 8 (beBytes 8 (n % 2 ^ 52 * 4096))).2
      else xAssemble XDF (decide (n / 2 ^ 63 = 1)) (((n / 2 ^ 52 % 2048 : Nat) : Int) - 1023) (beBytes 8 (n % 2 ^ 52 * 4096)) := by
  have hP : n % 2 ^ 52 * 4096 < 2 ^ 64 := by omega
  unfold xFrNative
  simp only [df_dissemble_eq n hn, df_consts, xdf_consts, Nat.reduceSub, List.replicate_zero, List.append_nil,
    take8_beBytes8, hasFrac_beBytes8 _ hP, decide_eq_true_eq]
  generalize n / 2 ^ 52 % 2048 = e
  generalize hf : n % 2 ^ 52 = f
  have hC : (f * 4096 ≠ 0) ↔ (f ≠ 0) := by omega
  simp only [hC]
  by_cases h1 : e = 2047
  · subst h1; simp
  · have cA : ¬ ((e : Int) - 1023 = 1024) := by omega
    by_cases h2 : e = 0
    · subst h2
      by_cases h3 : f = 0
      · subst h3; simp
      · simp [h3]
    · have cB : ¬ ((e : Int) - 1023 = -1023) := by omega
      simp [h1, h2, cA, cB]

theorem xdfTo_shape (M : Nat) (hM : M < 2 ^ 80) :
    (xToNative XDF DF (beBytes 10 M)).1 =
      if M / 2 ^ 64 % 32768 = 32767 then natAssemble DF (decide (M / 2 ^ 79 = 1)) 1024 (beBytes 8 (M % 2 ^ 64))
      else if ((M / 2 ^ 64 % 32768 : Nat) : Int) - 16382 ≥ 1024 then
        natAssemble DF (decide (M / 2 ^ 79 = 1)) 1024 (List.replicate 8 0)
      else if M / 2 ^ 64 % 32768 = 0 ∧ M % 2 ^ 64 = 0 then
        natAssemble DF (decide (M / 2 ^ 79 = 1)) (-1023) (beBytes 8 (M % 2 ^ 64))
      else if ((M / 2 ^ 64 % 32768 : Nat) : Int) - 16382 ≤ -1023 then
        natAssemble DF (decide (M / 2 ^ 79 = 1)) (-1023)
          (fracDenormalize (((M / 2 ^ 64 % 32768 : Nat) : Int) - 16382) (-1023) 8 (beBytes 8 (M % 2 ^ 64)) 0 true).2
      else natAssemble DF (decide (M / 2 ^ 79 = 1)) (((M / 2 ^ 64 % 32768 : Nat) : Int) - 16382) (beBytes 8 (M % 2 ^ 64)) := by
  have hQ : M % 2 ^ 64 < 2 ^ 64 := Nat.mod_lt _ (by decide)
  unfold xToNative
  simp only [xdf_dissemble_eq M hM, df_consts, xdf_consts, Nat.reduceSub, take8_beBytes8, hasFrac_beBytes8 _ hQ,
    decide_eq_true_eq, Int.shiftRight_zero]
  generalize M / 2 ^ 64 % 32768 = W
  generalize M % 2 ^ 64 = Q at *
  by_cases h1 : W = 32767
  · subst h1; simp
  · have c1 : ¬ ((W : Int) - 16382 = 16385) := by omega
    by_cases h2 : (W : Int) - 16382 ≥ 1024
    · simp [h1, c1, h2]
    · by_cases h3 : W = 0
      · subst h3
        by_cases h4 : Q = 0
        · subst h4; simp
        · simp [h4, fracDenormalize_fst]
      · have c3 : ¬ ((W : Int) - 16382 = -16382) := by omega
        by_cases h5 : (W : Int) - 16382 ≤ -1023
        · have hQ' : Q < 256 ^ 8 := by simpa using hQ
          simp [h1, c1, h2, h3, c3, h5, fracDenormalize_fst]
        · simp [h1, c1, h2, h3, c3, h5]

theorem xdf_fields (s W P : Nat) (hs : s < 2) (hW : W < 32768) (hP : P < 2 ^ 64) :
    s * 2 ^ 79 + W * 2 ^ 64 + P < 2 ^ 80 ∧ (s * 2 ^ 79 + W * 2 ^ 64 + P) / 2 ^ 79 = s ∧
    (s * 2 ^ 79 + W * 2 ^ 64 + P) / 2 ^ 64 % 32768 = W ∧ (s * 2 ^ 79 + W * 2 ^ 64 + P) % 2 ^ 64 = P := by
  omega

/-- every double-precision bit pattern survives the portable encoding unchanged -/
theorem xdf_roundtrip_nat (n : Nat) (hn : n < 2 ^ 64) :
    (xToNative XDF DF (xFrNative XDF DF (beBytes 8 n)).1).1 = beBytes 8 n := by
  have hs : n / 2 ^ 63 < 2 := by omega
  have hst := decide_toNat_lt2 _ hs
  have hP : n % 2 ^ 52 * 4096 < 2 ^ 64 := by omega
  rw [xdfFr_shape n hn]
  by_cases h1 : n / 2 ^ 52 % 2048 = 2047
  · -- infinities and NaNs
    rw [if_pos h1]
    have e := xdf_assemble_eq (decide (n / 2 ^ 63 = 1)) 32767 _ (by decide) hP
    rw [show ((32767 : Nat) : Int) - 16382 = 16385 from by decide, hst] at e
    obtain ⟨f1, f2, f3, f4⟩ := xdf_fields _ 32767 _ hs (by decide) hP
    rw [e, xdfTo_shape _ f1, f2, f3, f4, if_pos rfl]
    have a := df_assemble_eq (decide (n / 2 ^ 63 = 1)) 2047 _ (by decide) hP
    rw [show ((2047 : Nat) : Int) - 1023 = 1024 from by decide, hst] at a
    rw [a]; congr 1; omega
  · rw [if_neg h1]
    by_cases h2 : n / 2 ^ 52 % 2048 = 0
    · by_cases h3 : n % 2 ^ 52 = 0
      · -- zeros
        rw [if_pos ⟨h2, h3⟩]
        have e := xdf_assemble_eq (decide (n / 2 ^ 63 = 1)) 0 _ (by decide) hP
        rw [show ((0 : Nat) : Int) - 16382 = -16382 from by decide, hst] at e
        obtain ⟨f1, f2, f3, f4⟩ := xdf_fields _ 0 _ hs (by decide) hP
        rw [e, xdfTo_shape _ f1, f2, f3, f4, if_neg (by decide), if_neg (by decide), if_pos ⟨rfl, by omega⟩]
        have a := df_assemble_eq (decide (n / 2 ^ 63 = 1)) 0 _ (by decide) hP
        rw [show ((0 : Nat) : Int) - 1023 = -1023 from by decide, hst] at a
        rw [a]; congr 1; omega
      · -- subnormals: normalised on the way out, denormalised on the way back
        rw [if_neg (by omega), if_pos h2]
        obtain ⟨k, k1, k2, k3, k4⟩ := fracNormalize_eq (-1023) 8 (n % 2 ^ 52 * 4096) (by omega) (by simpa using hP)
        rw [k4]
        simp only []
        have hk : k < 64 := k1
        have hP' : n % 2 ^ 52 * 4096 * 2 ^ (k + 1) % 256 ^ 8 < 2 ^ 64 := Nat.mod_lt _ (by decide)
        have e := xdf_assemble_eq (decide (n / 2 ^ 63 = 1)) (16382 - 1024 - k) _ (by omega) hP'
        rw [show ((16382 - 1024 - k : Nat) : Int) - 16382 = -1023 - ((k : Int) + 1) from by omega, hst] at e
        obtain ⟨f1, f2, f3, f4⟩ := xdf_fields _ (16382 - 1024 - k) _ hs (by omega) hP'
        rw [e, xdfTo_shape _ f1, f2, f3, f4, if_neg (by omega), if_neg (by omega), if_neg (by omega), if_pos (by omega)]
        rw [fracDenormalize_eq _ (-1023) 8 _ (by omega) (by simpa using hP')]
        simp only []
        have hsh : ((-1023 : Int) - (((16382 - 1024 - k : Nat) : Int) - 16382)).toNat = k + 1 := by omega
        rw [hsh]
        have hback := shift_back 64 k _ hk k2 k3
        rw [show (256 : Nat) ^ 8 = 2 ^ 64 from rfl]
        rw [hback]
        have a := df_assemble_eq (decide (n / 2 ^ 63 = 1)) 0 _ (by decide) hP
        rw [show ((0 : Nat) : Int) - 1023 = -1023 from by decide, hst] at a
        rw [a]; congr 1; omega
    · -- normal numbers
      rw [if_neg (by omega), if_neg h2]
      have he : n / 2 ^ 52 % 2048 < 2048 := Nat.mod_lt _ (by decide)
      generalize hE : n / 2 ^ 52 % 2048 = E at *
      have e := xdf_assemble_eq (decide (n / 2 ^ 63 = 1)) (E + 16382 - 1023) _ (by omega) hP
      rw [show ((E + 16382 - 1023 : Nat) : Int) - 16382 = (E : Int) - 1023 from by omega, hst] at e
      obtain ⟨f1, f2, f3, f4⟩ := xdf_fields _ (E + 16382 - 1023) _ hs (by omega) hP
      rw [e, xdfTo_shape _ f1, f2, f3, f4, if_neg (by omega), if_neg (by omega), if_neg (by omega), if_neg (by omega)]
      rw [show ((E + 16382 - 1023 : Nat) : Int) - 16382 = (E : Int) - 1023 from by omega]
      rw [df_assemble_eq _ E _ he hP, hst]; congr 1; omega

/-! ## part 6: dissemble/assemble identity, `FiWord` views, buffers, literals -/

theorem sf_asm_dis_nat (n : Nat) (hn : n < 2 ^ 32) :
    natAssemble SF (natDissemble SF (beBytes 4 n)).1 (natDissemble SF (beBytes 4 n)).2.1
      (natDissemble SF (beBytes 4 n)).2.2 = beBytes 4 n := by
  rw [sf_dissemble_eq n hn]
  simp only []
  have hs : n / 2 ^ 31 < 2 := by omega
  rw [sf_assemble_eq _ _ _ (Nat.mod_lt _ (by decide)) (by omega), decide_toNat_lt2 _ hs]
  congr 1; omega

theorem df_asm_dis_nat (n : Nat) (hn : n < 2 ^ 64) :
    natAssemble DF (natDissemble DF (beBytes 8 n)).1 (natDissemble DF (beBytes 8 n)).2.1
      (natDissemble DF (beBytes 8 n)).2.2 = beBytes 8 n := by
  rw [df_dissemble_eq n hn]
  simp only []
  have hs : n / 2 ^ 63 < 2 := by omega
  rw [df_assemble_eq _ _ _ (Nat.mod_lt _ (by decide)) (by omega), decide_toNat_lt2 _ hs]
  congr 1; omega

theorem sfOfBytes_sfBytes (b : BitVec 32) : sfOfBytes (sfBytes b) = b := by
  unfold sfBytes
  rw [sfOfBytes_beBytes _ b.isLt]
  simp

theorem dfOfBytes_dfBytes (b : BitVec 64) : dfOfBytes (dfBytes b) = b := by
  unfold dfBytes
  rw [dfOfBytes_beBytes _ b.isLt]
  simp

theorem sf_dissemble_frac_length (b : BitVec 32) : (sfDissemble b).2.2.length = 4 := by
  unfold sfDissemble sfBytes
  rw [sf_dissemble_eq _ b.isLt]; simp

theorem df_dissemble_frac_length (b : BitVec 64) : (dfDissemble b).2.2.length = 8 := by
  unfold dfDissemble dfBytes
  rw [df_dissemble_eq _ b.isLt]; simp

/-- not in place, `bfShiftDn` reads only the first `nb` bytes of its argument -/
theorem bfShiftDn_take (nb : Nat) (bv : List Byte) (nsh : Nat) (b0 b1 : Bool) :
    bfShiftDn nb bv nsh b0 b1 false = bfShiftDn nb (bv.take nb) nsh b0 b1 false := by
  simp [bfShiftDn, List.take_take]

theorem natAssemble_take (F : Fmt) (s : Bool) (e : Int) (fr : List Byte) :
    natAssemble F s e fr = natAssemble F s e (fr.take F.size) := by
  unfold natAssemble
  rw [bfShiftDn_take]

@[simp] theorem wordBytes_length (w : BitVec 64) : (wordBytes w).length = 8 := by simp [wordBytes]

theorem wordBytes_wordOfBytes (l : List Byte) (h : l.length = 8) : wordBytes (wordOfBytes l) = l := by
  unfold wordBytes wordOfBytes
  have hl : l.reverse.length = 8 := by simpa using h
  have hlt := beVal_lt l.reverse
  rw [hl] at hlt
  rw [BitVec.toNat_ofNat, Nat.mod_eq_of_lt (by simpa using hlt)]
  have := beBytes_beVal l.reverse
  rw [hl] at this
  rw [this, List.reverse_reverse]

/-! ### buffers -/

theorem xsfFrNative_length (b : BitVec 32) : (xsfFrNative b).length = 6 := by
  unfold xsfFrNative sfBytes
  rw [xsfFr_shape _ b.isLt]
  repeat' split
  all_goals simp [xAssemble_XSF]

theorem xdfFrNative_length (b : BitVec 64) : (xdfFrNative b).length = 10 := by
  unfold xdfFrNative dfBytes
  rw [xdfFr_shape _ b.isLt]
  repeat' split
  all_goals simp [xAssemble_XDF]

theorem bufGetn_bufAddn (b : Buf) (s : List Byte) (h : b.pos ≤ b.data.length) :
    bufGetn { bufAddn b s with pos := b.pos } s.length = (s, { bufAddn b s with pos := b.pos + s.length }) := by
  unfold bufGetn bufAddn
  simp only [Prod.mk.injEq, and_true]
  rw [List.append_assoc, List.drop_left' (by simp; omega), List.take_left]

/-! ### classification -/

/-- the IEEE class of a pattern with exponent field `e`, fraction field `f` -/
def ieeeClass (e f emax : Nat) : FloatCase :=
  if e = 0 then (if f = 0 then .zero else .denorm)
  else if e = emax then (if f = 0 then .inf else .nan)
  else .norm

theorem and_127 (x : Nat) : x &&& 127 = x % 128 := Nat.and_two_pow_sub_one_eq_mod x 7
theorem and_15 (x : Nat) : x &&& 15 = x % 16 := Nat.and_two_pow_sub_one_eq_mod x 4

theorem natClassify_SF (x : List Byte) :
    natClassify SF x =
      if ushort0 x &&& 32640 = 0 then
        (if (List.range 3).any (fun i => ((x.getD (1 + i) 0).toNat &&& (if i ≠ 0 then 255 else 127)) ≠ 0) then .denorm else .zero)
      else if ushort0 x &&& 32640 = 32640 ∧ true = true then
        (if (List.range 3).any (fun i => ((x.getD (1 + i) 0).toNat &&& (if i ≠ 0 then 255 else 127)) ≠ 0) then .nan else .inf)
      else .norm := rfl

theorem sfClassify_spec (b : BitVec 32) :
    sfClassify b = ieeeClass (b.toNat / 2 ^ 23 % 256) (b.toNat % 2 ^ 23) 255 := by
  unfold sfClassify sfBytes
  have hn := b.isLt
  generalize b.toNat = n at *
  rw [natClassify_SF, beBytes_4 n]
  have hf : ((List.range 3).any (fun i => (([BitVec.ofNat 8 (n / 256 ^ 3), BitVec.ofNat 8 (n / 256 ^ 2), BitVec.ofNat 8 (n / 256 ^ 1),
      BitVec.ofNat 8 (n / 256 ^ 0)] : List Byte).getD (1 + i) 0).toNat &&& (if i ≠ 0 then 255 else 127) ≠ 0)) = decide (n % 2 ^ 23 ≠ 0) := by
    simp only [List.range, List.range.loop, List.any_cons, List.any_nil, Bool.or_false]
    rw [Bool.eq_iff_iff]
    simp
    simp only [and_127, and_255]
    omega
  rw [hf, ushort0_cons, and_32640']
  simp only [BitVec.toNat_ofNat, decide_eq_true_eq, and_true]
  unfold ieeeClass
  have e2 : ((n / 256 ^ 3) % 2 ^ 8 * 256 + (n / 256 ^ 2) % 2 ^ 8) / 128 % 256 = n / 2 ^ 23 % 256 := by omega
  rw [e2]
  have he : n / 2 ^ 23 % 256 < 256 := Nat.mod_lt _ (by decide)
  generalize n / 2 ^ 23 % 256 = e at *
  generalize n % 2 ^ 23 = f
  by_cases h0 : e = 0
  · subst h0; by_cases hf0 : f = 0 <;> simp [hf0]
  · by_cases h1 : e = 255
    · subst h1; by_cases hf0 : f = 0 <;> simp [hf0]
    · have c0 : ¬ (e * 128 = 0) := by omega
      have c1 : ¬ (e * 128 = 32640) := by omega
      simp [h0, h1, c0, c1]


theorem natClassify_DF (x : List Byte) :
    natClassify DF x =
      if ushort0 x &&& 32752 = 0 then
        (if (List.range 7).any (fun i => ((x.getD (1 + i) 0).toNat &&& (if i ≠ 0 then 255 else 15)) ≠ 0) then .denorm else .zero)
      else if ushort0 x &&& 32752 = 32752 ∧ true = true then
        (if (List.range 7).any (fun i => ((x.getD (1 + i) 0).toNat &&& (if i ≠ 0 then 255 else 15)) ≠ 0) then .nan else .inf)
      else .norm := rfl

theorem dfClassify_spec (b : BitVec 64) :
    dfClassify b = ieeeClass (b.toNat / 2 ^ 52 % 2048) (b.toNat % 2 ^ 52) 2047 := by
  unfold dfClassify dfBytes
  have hn := b.isLt
  generalize b.toNat = n at *
  rw [natClassify_DF, beBytes_8 n]
  have hf : ((List.range 7).any (fun i => (([BitVec.ofNat 8 (n / 256 ^ 7), BitVec.ofNat 8 (n / 256 ^ 6), BitVec.ofNat 8 (n / 256 ^ 5),
      BitVec.ofNat 8 (n / 256 ^ 4), BitVec.ofNat 8 (n / 256 ^ 3), BitVec.ofNat 8 (n / 256 ^ 2), BitVec.ofNat 8 (n / 256 ^ 1),
      BitVec.ofNat 8 (n / 256 ^ 0)] : List Byte).getD (1 + i) 0).toNat &&& (if i ≠ 0 then 255 else 15) ≠ 0)) = decide (n % 2 ^ 52 ≠ 0) := by
    simp only [List.range, List.range.loop, List.any_cons, List.any_nil, Bool.or_false]
    rw [Bool.eq_iff_iff]
    simp
    simp only [and_15, and_255, Nat.mod_mod]
    have key : n % 2 ^ 52 = n / 281474976710656 % 256 % 16 * 2 ^ 48 + n / 1099511627776 % 256 * 2 ^ 40
        + n / 4294967296 % 256 * 2 ^ 32 + n / 16777216 % 256 * 2 ^ 24 + n / 65536 % 256 * 2 ^ 16 + n / 256 % 256 * 2 ^ 8
        + n % 256 := by omega
    rw [key]
    generalize n / 281474976710656 % 256 % 16 = x1
    generalize n / 1099511627776 % 256 = x2
    generalize n / 4294967296 % 256 = x3
    generalize n / 16777216 % 256 = x4
    generalize n / 65536 % 256 = x5
    generalize n / 256 % 256 = x6
    generalize n % 256 = x7
    omega
  rw [hf, ushort0_cons, and_32752']
  simp only [BitVec.toNat_ofNat, decide_eq_true_eq, and_true]
  unfold ieeeClass
  have e2 : ((n / 256 ^ 7) % 2 ^ 8 * 256 + (n / 256 ^ 6) % 2 ^ 8) / 16 % 2048 = n / 2 ^ 52 % 2048 := by omega
  rw [e2]
  have he : n / 2 ^ 52 % 2048 < 2048 := Nat.mod_lt _ (by decide)
  generalize n / 2 ^ 52 % 2048 = e at *
  generalize n % 2 ^ 52 = f
  by_cases h0 : e = 0
  · subst h0; by_cases hf0 : f = 0 <;> simp [hf0]
  · by_cases h1 : e = 2047
    · subst h1; by_cases hf0 : f = 0 <;> simp [hf0]
    · have c0 : ¬ (e * 16 = 0) := by omega
      have c1 : ¬ (e * 16 = 32752) := by omega
      simp [h0, h1, c0, c1]

theorem sfClassify_nan_iff (b : BitVec 32) : sfClassify b = .nan ↔ sfIsNaN b := by
  rw [sfClassify_spec]; unfold ieeeClass sfIsNaN
  generalize b.toNat / 2 ^ 23 % 256 = e
  generalize b.toNat % 2 ^ 23 = f
  by_cases h0 : e = 0
  · subst h0; by_cases hf0 : f = 0 <;> simp [hf0]
  · by_cases h1 : e = 255
    · subst h1; by_cases hf0 : f = 0 <;> simp [hf0]
    · simp [h0, h1]

theorem dfClassify_nan_iff (b : BitVec 64) : dfClassify b = .nan ↔ dfIsNaN b := by
  rw [dfClassify_spec]; unfold ieeeClass dfIsNaN
  generalize b.toNat / 2 ^ 52 % 2048 = e
  generalize b.toNat % 2 ^ 52 = f
  by_cases h0 : e = 0
  · subst h0; by_cases hf0 : f = 0 <;> simp [hf0]
  · by_cases h1 : e = 2047
    · subst h1; by_cases hf0 : f = 0 <;> simp [hf0]
    · simp [h0, h1]

end AldorVerif.XFloat
