import AldorVerif.Model.Mangle
import AldorVerif.Model.CSplit

/-! helper lemmas for the `mangle` part (C16) -/
namespace AldorVerif.Mangle

/-! ## digit strings -/

theorem digitsRev_eq (b n : Nat) :
    digitsRev b n = if n = 0 ∨ b < 2 then [] else (n % b) :: digitsRev b (n / b) := by
  rw [digitsRev]; split <;> simp_all

/-- value of a little-endian digit list -/
def valRev (b : Nat) : List Nat → Nat
  | [] => 0
  | d :: ds => d + b * valRev b ds

theorem valRev_digitsRev (b : Nat) (hb : 2 ≤ b) (n : Nat) : valRev b (digitsRev b n) = n := by
  induction n using Nat.strongRecOn with
  | _ n ih =>
    rw [digitsRev_eq]
    by_cases h0 : n = 0
    · simp [h0, valRev]
    · have hlt : n / b < n := Nat.div_lt_self (by omega) (by omega)
      have : ¬ (n = 0 ∨ b < 2) := by omega
      simp only [this, if_false, valRev, ih _ hlt]
      exact Nat.mod_add_div n b

theorem digitsRev_inj (b : Nat) (hb : 2 ≤ b) {n m : Nat} (h : digitsRev b n = digitsRev b m) :
    n = m := by
  rw [← valRev_digitsRev b hb n, ← valRev_digitsRev b hb m, h]

theorem digitsRev_lt (b : Nat) (hb : 2 ≤ b) (n : Nat) : ∀ d ∈ digitsRev b n, d < b := by
  induction n using Nat.strongRecOn with
  | _ n ih =>
    rw [digitsRev_eq]
    by_cases h0 : n = 0
    · simp [h0]
    · have hlt : n / b < n := Nat.div_lt_self (by omega) (by omega)
      have : ¬ (n = 0 ∨ b < 2) := by omega
      simp only [this, if_false, List.mem_cons]
      intro d hd
      rcases hd with rfl | hd
      · exact Nat.mod_lt _ (by omega)
      · exact ih _ hlt d hd

theorem digitsRev_ne_nil (b : Nat) (hb : 2 ≤ b) {n : Nat} (hn : n ≠ 0) : digitsRev b n ≠ [] := by
  rw [digitsRev_eq]
  have : ¬ (n = 0 ∨ b < 2) := by omega
  simp [this]

theorem map_inj_on {α β} (f : α → β) (P : α → Prop)
    (hf : ∀ a b, P a → P b → f a = f b → a = b) :
    ∀ (l₁ l₂ : List α), (∀ a ∈ l₁, P a) → (∀ a ∈ l₂, P a) → l₁.map f = l₂.map f → l₁ = l₂
  | [], [], _, _, _ => rfl
  | [], _ :: _, _, _, h => by simp at h
  | _ :: _, [], _, _, h => by simp at h
  | a :: l₁, b :: l₂, h₁, h₂, h => by
    simp only [List.map_cons, List.cons.injEq] at h
    have hab := hf a b (h₁ a (by simp)) (h₂ b (by simp)) h.1
    have := map_inj_on f P hf l₁ l₂ (fun x hx => h₁ x (by simp [hx])) (fun x hx => h₂ x (by simp [hx])) h.2
    rw [hab, this]

theorem digitChar36_inj' : ∀ a, a < 36 → ∀ b, b < 36 → digitChar36 a = digitChar36 b → a = b := by
  decide

theorem digitChar36_inj (a b : Nat) (ha : a < 36) (hb : b < 36) (h : digitChar36 a = digitChar36 b) :
    a = b := digitChar36_inj' a ha b hb h

theorem digitChar10_val : ∀ d, d < 10 → (digitChar10 d).toNat - 48 = d := by decide

theorem hash36_inj {n m : Nat} (h : hash36 n = hash36 m) : n = m := by
  unfold hash36 digits36Rev at h
  have := map_inj_on digitChar36 (· < 36) digitChar36_inj _ _
    (by intro a ha; exact digitsRev_lt 36 (by decide) n a (by simpa using ha))
    (by intro a ha; exact digitsRev_lt 36 (by decide) m a (by simpa using ha)) h
  exact digitsRev_inj 36 (by decide) (List.reverse_inj.mp this)

theorem digitChar36_ne_us : ∀ d, d < 36 → digitChar36 d ≠ '_' := by decide

theorem hash36_no_us (n : Nat) : '_' ∉ hash36 n := by
  unfold hash36 digits36Rev
  intro h
  simp only [List.mem_map, List.mem_reverse] at h
  obtain ⟨d, hd, he⟩ := h
  exact digitChar36_ne_us d (digitsRev_lt 36 (by decide) n d hd) he

theorem digitChar10_isDigit : ∀ d, d < 10 → (digitChar10 d).isDigit = true := by decide

/-- decimal value of a digit string (left inverse of `putI`) -/
def decVal (cs : List Char) : Nat := cs.foldl (fun a c => 10 * a + (c.toNat - 48)) 0

theorem decVal_digits (l : List Nat) (hl : ∀ d ∈ l, d < 10) :
    decVal (l.reverse.map digitChar10) = valRev 10 l := by
  induction l with
  | nil => rfl
  | cons d ds ih =>
    have := ih (fun x hx => hl x (by simp [hx]))
    unfold decVal at this ⊢
    simp only [List.reverse_cons, List.map_append, List.foldl_append, List.map_cons, List.map_nil,
      List.foldl_cons, List.foldl_nil, this, valRev, digitChar10_val d (hl d (by simp))]
    omega

theorem decVal_putI (n : Nat) : decVal (putI n) = n := by
  unfold putI digits10Rev
  split
  · next h => subst h; decide
  · rw [decVal_digits _ (digitsRev_lt 10 (by decide) n), valRev_digitsRev 10 (by decide)]

theorem putI_inj {n m : Nat} (h : putI n = putI m) : n = m := by
  rw [← decVal_putI n, ← decVal_putI m, h]

theorem decVal_zeros (k : Nat) (l : List Char) : decVal (List.replicate k '0' ++ l) = decVal l := by
  unfold decVal
  induction k with
  | zero => simp
  | succ k ih => simpa [List.replicate_succ] using ih

theorem putI_digits (n : Nat) : ∀ c ∈ putI n, c.isDigit = true := by
  unfold putI digits10Rev
  split
  · intro c hc; simp at hc; subst hc; decide
  · intro c hc
    simp only [List.mem_map, List.mem_reverse] at hc
    obtain ⟨d, hd, rfl⟩ := hc
    exact digitChar10_isDigit d (digitsRev_lt 10 (by decide) n d hd)

/-! ## splitting a string at the first character of another class -/

/-- `p₁ ++ r₁ = p₂ ++ r₂`, all of `pᵢ` satisfy `P`, each `rᵢ` is empty or starts with a
character not satisfying `P`: then the pieces agree. -/
theorem span_unique {α} (P : α → Prop) :
    ∀ (p₁ p₂ r₁ r₂ : List α), (∀ a ∈ p₁, P a) → (∀ a ∈ p₂, P a) →
      (∀ a, r₁.head? = some a → ¬ P a) → (∀ a, r₂.head? = some a → ¬ P a) →
      p₁ ++ r₁ = p₂ ++ r₂ → p₁ = p₂ ∧ r₁ = r₂
  | [], [], _, _, _, _, _, _, h => ⟨rfl, by simpa using h⟩
  | [], b :: p₂, r₁, r₂, _, h₂, g₁, _, h => by
    simp only [List.nil_append, List.cons_append] at h
    exact absurd (h₂ b (by simp)) (g₁ b (by simp [h]))
  | a :: p₁, [], r₁, r₂, h₁, _, _, g₂, h => by
    simp only [List.nil_append, List.cons_append] at h
    exact absurd (h₁ a (by simp)) (g₂ a (by simp [← h]))
  | a :: p₁, b :: p₂, r₁, r₂, h₁, h₂, g₁, g₂, h => by
    simp only [List.cons_append, List.cons.injEq] at h
    have := span_unique P p₁ p₂ r₁ r₂ (fun x hx => h₁ x (by simp [hx])) (fun x hx => h₂ x (by simp [hx])) g₁ g₂ h.2
    exact ⟨by rw [h.1, this.1], this.2⟩

/-! ## `gc0ValidIdInBuf` without truncation, and the special-character code -/

theorem validIdFrom_noCut (idlen : Nat) : ∀ (pos : Nat) (s : Name),
    (idlen = 0 ∨ pos + (s.flatMap emit).length ≤ idlen) → validIdFrom idlen pos s = s.flatMap emit
  | _, [], _ => rfl
  | pos, c :: s, h => by
    have hu : underIdLen idlen pos c = true := by
      unfold underIdLen charc
      rcases h with h | h
      · simp [h]
      · simp only [List.flatMap_cons, List.length_append] at h
        simp only [Bool.or_eq_true, beq_iff_eq, decide_eq_true_eq]; right; omega
    have ih := validIdFrom_noCut idlen (pos + charc c) s (by
      rcases h with h | h
      · exact Or.inl h
      · right; unfold charc; simp only [List.flatMap_cons, List.length_append] at h; omega)
    simp only [validIdFrom, hu, if_true, ih, List.flatMap_cons]

/-- characters that `gc0ValidIdInBuf` keeps (writes something for) and for which the C code's
array accesses are in bounds: the alphanumerics and the characters of the table -/
def Kept (c : Char) : Prop := InDomain c ∧ emit c ≠ []

instance (c : Char) : Decidable (Kept c) := by unfold Kept; infer_instance

theorem emit_prefix_free_tab : ∀ i, i < 127 → ∀ j, j < 127 →
    emit (Char.ofNat i) ≠ [] → emit (Char.ofNat j) ≠ [] →
    (emit (Char.ofNat i)).isPrefixOf (emit (Char.ofNat j)) = true → i = j := by
  decide +kernel

theorem char_ofNat_toNat (c : Char) : Char.ofNat c.toNat = c := by
  simp [Char.ofNat_toNat]

/-- the texts written for kept characters form a prefix code -/
theorem emit_prefix_free {a b : Char} (ha : Kept a) (hb : Kept b) (h : emit a <+: emit b) : a = b := by
  have := emit_prefix_free_tab a.toNat ha.1.2 b.toNat hb.1.2
    (by rw [char_ofNat_toNat]; exact ha.2) (by rw [char_ofNat_toNat]; exact hb.2)
    (by rw [char_ofNat_toNat, char_ofNat_toNat]; exact List.isPrefixOf_iff_prefix.mpr h)
  rw [← char_ofNat_toNat a, ← char_ofNat_toNat b, this]

theorem flatMap_emit_inj : ∀ (a b : Name), (∀ c ∈ a, Kept c) → (∀ c ∈ b, Kept c) →
    a.flatMap emit = b.flatMap emit → a = b
  | [], [], _, _, _ => rfl
  | [], y :: b, _, hb, h => by
    simp only [List.flatMap_nil, List.flatMap_cons] at h
    have := (hb y (by simp)).2
    have h2 := congrArg List.length h
    simp only [List.length_nil, List.length_append] at h2
    have : (emit y).length ≠ 0 := by simpa using this
    omega
  | x :: a, [], ha, _, h => by
    simp only [List.flatMap_nil, List.flatMap_cons] at h
    have := (ha x (by simp)).2
    have h2 := congrArg List.length h
    simp only [List.length_nil, List.length_append] at h2
    have : (emit x).length ≠ 0 := by simpa using this
    omega
  | x :: a, y :: b, ha, hb, h => by
    simp only [List.flatMap_cons] at h
    have hxy : x = y := by
      rcases List.append_eq_append_iff.mp h with ⟨a', h1, _⟩ | ⟨c', h1, _⟩
      · exact emit_prefix_free (ha x (by simp)) (hb y (by simp)) ⟨a', h1.symm⟩
      · exact (emit_prefix_free (hb y (by simp)) (ha x (by simp)) ⟨c', h1.symm⟩).symm
    subst hxy
    have h' := List.append_cancel_left h
    rw [flatMap_emit_inj a b (fun c hc => ha c (by simp [hc])) (fun c hc => hb c (by simp [hc])) h']

theorem globalId_hash (idlen : Nat) (k x : Name) :
    globalId idlen true k x =
      k ++ '_' :: (idHash x ++ '_' :: validIdFrom idlen (k.length + 1 + (idHash x).length + 1) x) := by
  simp only [globalId, if_true, List.length_append, List.length_cons, List.length_nil,
    List.append_assoc, List.cons_append, List.nil_append]
  congr 4
  congr 1
  omega

theorem globalId_nohash (idlen : Nat) (k x : Name) :
    globalId idlen false k x = k ++ '_' :: validIdFrom idlen (k.length + 1) x := by
  simp [globalId, List.length_append]

end AldorVerif.Mangle
