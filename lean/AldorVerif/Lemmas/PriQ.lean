import AldorVerif.Model.PriQ

/-! Lemmas about the model of `priq.c`: the heap order is restored by the two sift loops, the
    slots are only permuted, the root carries a minimal key. -/
namespace AldorVerif.PriQ

/-- heap order on the first `n` slots: no parent key exceeds a child key -/
def HeapTo (h : Heap) (n : Nat) : Prop := ∀ j, 0 < j → j < n → key h (heapParent j) ≤ key h j

/-- heap order on all used slots -/
def HeapInv (h : Heap) : Prop := HeapTo h h.size

/-! ### heapExchange -/

theorem size_exch (h : Heap) (a b : Nat) : (heapExchange h a b).size = h.size := by
  simp [heapExchange]

theorem getD_exch (h : Heap) (a b : Nat) (ha : a < h.size) (hb : b < h.size) (j : Nat) :
    (heapExchange h a b).getD j (0, 0) =
      if j = a then h.getD b (0, 0) else if j = b then h.getD a (0, 0) else h.getD j (0, 0) := by
  unfold heapExchange
  rw [Array.swapIfInBounds_def, dif_pos ha, dif_pos hb]
  simp only [Array.getD_eq_getD_getElem?, Array.getElem?_swap]
  by_cases e1 : j = a
  · subst e1
    by_cases e2 : b = j
    · subst e2; simp [Array.getElem?_eq_getElem hb]
    · simp [e2, Array.getElem?_eq_getElem hb]
  · have e1' : ¬ a = j := fun h => e1 h.symm
    by_cases e2 : j = b
    · subst e2; simp [e1, Array.getElem?_eq_getElem ha]
    · have e2' : ¬ b = j := fun h => e2 h.symm
      simp [e1, e2, e1', e2']

theorem key_exch (h : Heap) (a b : Nat) (ha : a < h.size) (hb : b < h.size) (j : Nat) :
    key (heapExchange h a b) j = if j = a then key h b else if j = b then key h a else key h j := by
  unfold key
  rw [getD_exch h a b ha hb j]
  split
  · rfl
  · split <;> rfl

theorem perm_exch (h : Heap) (a b : Nat) : (heapExchange h a b).toList.Perm h.toList := by
  unfold heapExchange
  rw [Array.swapIfInBounds_def]
  split
  · split
    · exact Array.perm_iff_toList_perm.mp (Array.swap_perm _ _)
    · exact List.Perm.refl _
  · exact List.Perm.refl _

/-! ### heapSiftInward -/

/-- heap order everywhere except possibly between `i` and its parent; the children of `i`
    are already in order with the parent of `i` -/
def UpInv (h : Heap) (n i : Nat) : Prop :=
  (∀ j, 0 < j → j < n → j ≠ i → key h (heapParent j) ≤ key h j) ∧
  (0 < i → ∀ j, 0 < j → j < n → heapParent j = i → key h (heapParent i) ≤ key h j)

theorem siftInward_spec : ∀ (i : Nat) (h : Heap) (n : Nat), n ≤ h.size → i < n → UpInv h n i →
    HeapTo (heapSiftInward h 0 i) n ∧ (heapSiftInward h 0 i).size = h.size ∧
    (heapSiftInward h 0 i).toList.Perm h.toList := by
  intro i
  induction i using Nat.strongRecOn with
  | ind i ih =>
    intro h n hn hi hu
    rw [heapSiftInward]
    by_cases h0 : i > 0
    · simp only [h0, if_true]
      by_cases hk : key h (heapParent i) < key h i
      · simp only [hk, if_true]
        refine ⟨?_, trivial, List.Perm.refl _⟩
        intro j hj0 hjn
        by_cases e : j = i
        · subst e; exact Int.le_of_lt hk
        · exact hu.1 j hj0 hjn e
      · simp only [hk, if_false]
        have hp : heapParent i < i := by unfold heapParent; omega
        have hki : key h i ≤ key h (heapParent i) := by omega
        have hsz : (heapExchange h i (heapParent i)).size = h.size := size_exch _ _ _
        have key' := key_exch h i (heapParent i) (by omega) (by omega)
        have hu' : UpInv (heapExchange h i (heapParent i)) n (heapParent i) := by
          constructor
          · intro j hj0 hjn hne
            rw [key' j, key' (heapParent j)]
            have hpj : heapParent j < j := by unfold heapParent; omega
            by_cases e1 : j = i
            · subst e1
              simp only [if_true]
              have : ¬ heapParent j = j := by omega
              simp only [this, if_false]
              exact hki
            · simp only [e1, hne, if_false]
              by_cases e2 : heapParent j = i
              · simp only [e2, if_true]
                exact hu.2 h0 j hj0 hjn e2
              · simp only [e2, if_false]
                by_cases e3 : heapParent j = heapParent i
                · simp only [e3, if_true]
                  have := hu.1 j hj0 hjn e1
                  rw [e3] at this
                  omega
                · simp only [e3, if_false]
                  exact hu.1 j hj0 hjn e1
          · intro hp0 j hj0 hjn hpj
            rw [key' j, key' (heapParent (heapParent i))]
            have hpp : heapParent (heapParent i) < heapParent i := by
              have : ∀ x, 0 < x → heapParent x < x := by intro x hx; unfold heapParent; omega
              exact this _ hp0
            have n1 : ¬ heapParent (heapParent i) = i := by omega
            have n2 : ¬ heapParent (heapParent i) = heapParent i := by omega
            simp only [n1, n2, if_false]
            have hgp := hu.1 (heapParent i) hp0 (by omega) (by omega)
            by_cases e1 : j = i
            · simp only [e1, if_true]; exact hgp
            · have hjp : heapParent j < j := by unfold heapParent; omega
              have e2 : ¬ j = heapParent i := by omega
              simp only [e1, e2, if_false]
              have := hu.1 j hj0 hjn e1
              rw [hpj] at this
              omega
        obtain ⟨r1, r2, r3⟩ := ih (heapParent i) hp (heapExchange h i (heapParent i)) n (by omega) (by omega) hu'
        exact ⟨r1, r2.trans hsz, r3.trans (perm_exch _ _ _)⟩
    · simp only [h0, if_false]
      refine ⟨?_, trivial, List.Perm.refl _⟩
      intro j hj0 hjn
      exact hu.1 j hj0 hjn (by omega)

/-! ### heapSiftOutward -/

/-- heap order everywhere except possibly between `i` and its children; the children of `i`
    are already in order with the parent of `i` -/
def DownInv (h : Heap) (n i : Nat) : Prop :=
  (∀ j, 0 < j → j < n → heapParent j ≠ i → key h (heapParent j) ≤ key h j) ∧
  (0 < i → ∀ j, 0 < j → j < n → heapParent j = i → key h (heapParent i) ≤ key h j)

theorem child_cases (i s : Nat) (hs : 0 < s) (hp : heapParent s = i) : s = heapLeft i ∨ s = heapRight i := by
  unfold heapParent at hp; unfold heapLeft heapRight; omega

theorem siftChoice_spec (h : Heap) (n i : Nat) :
    (siftChoice h n i = i ∧ ∀ s, 0 < s → s < n → heapParent s = i → key h i < key h s) ∨
    (siftChoice h n i ≠ i ∧ siftChoice h n i < n ∧ 0 < siftChoice h n i ∧ heapParent (siftChoice h n i) = i ∧
      key h (siftChoice h n i) ≤ key h i ∧
      ∀ s, 0 < s → s < n → heapParent s = i → key h (siftChoice h n i) ≤ key h s) := by
  unfold siftChoice
  simp only
  by_cases c1 : heapLeft i < n ∧ key h (heapLeft i) ≤ key h i
  · rw [if_pos c1]
    by_cases c2 : heapRight i < n ∧ key h (heapRight i) ≤ key h (heapLeft i)
    · rw [if_pos c2]
      right
      refine ⟨by unfold heapRight; omega, c2.1, by unfold heapRight; omega, by unfold heapRight heapParent; omega, by omega, ?_⟩
      intro s hs0 hsn hps
      rcases child_cases i s hs0 hps with rfl | rfl
      · exact c2.2
      · exact Int.le_refl _
    · rw [if_neg c2]
      right
      refine ⟨by unfold heapLeft; omega, c1.1, by unfold heapLeft; omega, by unfold heapLeft heapParent; omega, c1.2, ?_⟩
      intro s hs0 hsn hps
      rcases child_cases i s hs0 hps with rfl | rfl
      · exact Int.le_refl _
      · have : ¬ key h (heapRight i) ≤ key h (heapLeft i) := fun hh => c2 ⟨hsn, hh⟩
        omega
  · rw [if_neg c1]
    by_cases c2 : heapRight i < n ∧ key h (heapRight i) ≤ key h i
    · rw [if_pos c2]
      right
      refine ⟨by unfold heapRight; omega, c2.1, by unfold heapRight; omega, by unfold heapRight heapParent; omega, c2.2, ?_⟩
      intro s hs0 hsn hps
      rcases child_cases i s hs0 hps with rfl | rfl
      · have : ¬ key h (heapLeft i) ≤ key h i := fun hh => c1 ⟨hsn, hh⟩
        omega
      · exact Int.le_refl _
    · rw [if_neg c2]
      left
      refine ⟨rfl, ?_⟩
      intro s hs0 hsn hps
      rcases child_cases i s hs0 hps with rfl | rfl
      · have : ¬ key h (heapLeft i) ≤ key h i := fun hh => c1 ⟨hsn, hh⟩
        omega
      · have : ¬ key h (heapRight i) ≤ key h i := fun hh => c2 ⟨hsn, hh⟩
        omega

theorem siftOutward_spec (h : Heap) (n i : Nat) (hn : n ≤ h.size) (hd : DownInv h n i) :
    HeapTo (heapSiftOutward h n i) n ∧ (heapSiftOutward h n i).size = h.size ∧
    (heapSiftOutward h n i).toList.Perm h.toList ∧
    (∀ j, n ≤ j → (heapSiftOutward h n i).getD j (0, 0) = h.getD j (0, 0)) := by
  fun_induction heapSiftOutward h n i with
  | case1 h i hc =>
    refine ⟨?_, rfl, List.Perm.refl _, fun j _ => rfl⟩
    intro j hj0 hjn
    by_cases e : heapParent j = i
    · rcases siftChoice_spec h n i with ⟨_, g⟩ | ⟨g, _⟩
      · have := g j hj0 hjn e
        rw [e]; omega
      · exact absurd hc g
    · exact hd.1 j hj0 hjn e
  | case2 h i hc ih =>
    rcases siftChoice_spec h n i with ⟨g, _⟩ | ⟨_, g1, g2, g3, g4, g5⟩
    · exact absurd g hc
    · have hi : i < siftChoice h n i := by unfold heapParent at g3; omega
      have key' := key_exch h i (siftChoice h n i) (by omega) (by omega)
      have get' := getD_exch h i (siftChoice h n i) (by omega) (by omega)
      have hsz : (heapExchange h i (siftChoice h n i)).size = h.size := size_exch _ _ _
      have hd' : DownInv (heapExchange h i (siftChoice h n i)) n (siftChoice h n i) := by
        constructor
        · intro j hj0 hjn hne
          rw [key' j, key' (heapParent j)]
          have hpj : heapParent j < j := by unfold heapParent; omega
          by_cases e1 : heapParent j = i
          · -- j is a child of i
            have nj : ¬ j = i := by omega
            simp only [e1, if_true, nj, if_false]
            by_cases e2 : j = siftChoice h n i
            · simp only [e2, if_true]; exact g4
            · simp only [e2, if_false]; exact g5 j hj0 hjn e1
          · simp only [e1, hne, if_false]
            by_cases e2 : j = i
            · subst e2
              simp only [if_true]
              exact hd.2 hj0 _ g2 g1 g3
            · have e3 : ¬ j = siftChoice h n i := by
                intro e; rw [e] at e1; exact e1 g3
              simp only [e2, e3, if_false]
              exact hd.1 j hj0 hjn e1
        · intro _ j hj0 hjn hpj
          rw [key' j, key' (heapParent (siftChoice h n i)), g3]
          have hjp : heapParent j < j := by unfold heapParent; omega
          have n1 : ¬ j = i := by omega
          have n2 : ¬ j = siftChoice h n i := by omega
          simp only [n1, n2, if_false, if_true]
          have := hd.1 j hj0 hjn (by omega)
          rw [hpj] at this
          exact this
      obtain ⟨r1, r2, r3, r4⟩ := ih (by omega) hd'
      refine ⟨r1, r2.trans hsz, r3.trans (perm_exch _ _ _), ?_⟩
      intro j hj
      rw [r4 j hj, get' j]
      have n1 : ¬ j = i := by omega
      have n2 : ¬ j = siftChoice h n i := by omega
      simp only [n1, n2, if_false]

/-! ### heapInsert, heapExtractMin, the root -/

theorem key_push_lt (h : Heap) (x : Part) (j : Nat) (hj : j < h.size) : key (h.push x) j = key h j := by
  unfold key
  have : ¬ j = h.size := by omega
  simp [Array.getD_eq_getD_getElem?, Array.getElem?_push, hj, this]

theorem heapInsert_spec (h : Heap) (k : Int) (e : Nat) (hi : HeapInv h) :
    HeapInv (heapInsert h k e) ∧ (heapInsert h k e).size = h.size + 1 ∧
    (heapInsert h k e).toList.Perm ((k, e) :: h.toList) := by
  unfold heapInsert
  simp only
  have hu : UpInv (h.push (k, e)) (h.size + 1) h.size := by
    constructor
    · intro j hj0 hjn hne
      have hjl : j < h.size := by omega
      have hpl : heapParent j < h.size := by unfold heapParent; omega
      rw [key_push_lt _ _ _ hjl, key_push_lt _ _ _ hpl]
      exact hi j hj0 hjl
    · intro h0 j hj0 hjn hp
      unfold heapParent at hp; omega
  obtain ⟨r1, r2, r3⟩ := siftInward_spec h.size (h.push (k, e)) (h.size + 1) (by simp) (by omega) hu
  have hs : (heapSiftInward (h.push (k, e)) 0 h.size).size = h.size + 1 := by rw [r2]; simp
  refine ⟨?_, hs, ?_⟩
  · unfold HeapInv; rw [hs]; exact r1
  · refine r3.trans ?_
    simp only [Array.toList_push]
    exact List.perm_append_comm

theorem toList_pop_append (a : Heap) (hn : 0 < a.size) :
    a.toList = a.pop.toList ++ [a.getD (a.size - 1) (0, 0)] := by
  have hne : a.toList ≠ [] := by
    intro e
    have : a.toList.length = 0 := by rw [e]; rfl
    rw [Array.length_toList] at this; omega
  have hsub : a.size - 1 < a.size := by omega
  rw [Array.toList_pop]
  have h1 := List.dropLast_concat_getLast hne
  have h2 : a.toList.getLast hne = a.getD (a.size - 1) (0, 0) := by
    rw [List.getLast_eq_getElem]
    simp [Array.getD, hsub]
  rw [← h2]; exact h1.symm

theorem key_pop_lt (a : Heap) (j : Nat) (hj : j < a.size - 1) : key a.pop j = key a j := by
  unfold key
  have h1 : j < a.pop.size := by simpa using hj
  have h2 : j < a.size := by omega
  rw [Array.getD_eq_getD_getElem?, Array.getD_eq_getD_getElem?, Array.getElem?_eq_getElem h1,
      Array.getElem?_eq_getElem h2, Array.getElem_pop]

theorem heapExtractMin_spec (h : Heap) (hn : 0 < h.size) (hi : HeapInv h) :
    (heapExtractMin h).1 = h.getD 0 (0, 0) ∧ HeapInv (heapExtractMin h).2 ∧
    (heapExtractMin h).2.size = h.size - 1 ∧
    h.toList.Perm ((heapExtractMin h).1 :: (heapExtractMin h).2.toList) := by
  unfold heapExtractMin
  simp only
  have key1 := key_exch h 0 (h.size - 1) hn (by omega)
  have get1 := getD_exch h 0 (h.size - 1) hn (by omega)
  have hsz1 : (heapExchange h 0 (h.size - 1)).size = h.size := size_exch _ _ _
  have hd : DownInv (heapExchange h 0 (h.size - 1)) (h.size - 1) 0 := by
    constructor
    · intro j hj0 hjn hne
      have hpj : heapParent j < j := by unfold heapParent; omega
      rw [key1 j, key1 (heapParent j)]
      have n1 : ¬ j = 0 := by omega
      have n2 : ¬ j = h.size - 1 := by omega
      have n3 : ¬ heapParent j = h.size - 1 := by omega
      simp only [n1, n2, n3, hne, if_false]
      exact hi j hj0 (by omega)
    · intro h0; omega
  obtain ⟨r1, r2, r3, r4⟩ := siftOutward_spec (heapExchange h 0 (h.size - 1)) (h.size - 1) 0 (by omega) hd
  have hlast : (heapSiftOutward (heapExchange h 0 (h.size - 1)) (h.size - 1) 0).getD (h.size - 1) (0, 0) = h.getD 0 (0, 0) := by
    rw [r4 _ (Nat.le_refl _), get1]
    by_cases e : h.size - 1 = 0
    · simp [e]
    · simp [e]
  have hs2 : (heapSiftOutward (heapExchange h 0 (h.size - 1)) (h.size - 1) 0).size = h.size := r2.trans hsz1
  refine ⟨hlast, ?_, by simp [hs2], ?_⟩
  · intro j hj0 hjn
    have hjn' : j < h.size - 1 := by simpa [hs2] using hjn
    have hpj : heapParent j < j := by unfold heapParent; omega
    rw [key_pop_lt _ j (by rw [hs2]; exact hjn'), key_pop_lt _ (heapParent j) (by rw [hs2]; omega)]
    exact r1 j hj0 hjn'
  · have := toList_pop_append (heapSiftOutward (heapExchange h 0 (h.size - 1)) (h.size - 1) 0) (by omega)
    rw [hs2] at this
    refine (perm_exch h 0 (h.size - 1)).symm.trans (r3.symm.trans ?_)
    rw [this]
    exact List.perm_append_comm

theorem root_min (h : Heap) (hi : HeapInv h) : ∀ j, j < h.size → key h 0 ≤ key h j := by
  intro j
  induction j using Nat.strongRecOn with
  | ind j ih =>
    intro hj
    by_cases e : j = 0
    · subst e; exact Int.le_refl _
    · have hp : heapParent j < j := by unfold heapParent; omega
      have := ih (heapParent j) hp (by omega)
      have := hi j (by omega) hj
      omega

theorem root_min_mem (h : Heap) (hi : HeapInv h) (x : Part) (hx : x ∈ h.toList) :
    (h.getD 0 (0, 0)).1 ≤ x.1 := by
  obtain ⟨j, hj, rfl⟩ := List.mem_iff_getElem.mp hx
  have hj' : j < h.size := by simpa using hj
  have := root_min h hi j hj'
  unfold key at this
  simpa [Array.getD, hj'] using this

end AldorVerif.PriQ
