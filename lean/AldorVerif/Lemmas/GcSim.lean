import AldorVerif.Lemmas.Gc

/-! simulation between a run with forced collections and the run that never collects -/
namespace AldorVerif.Gc

/-! ## more on `pointee` -/

theorem findFrom_contains : ∀ (h : Heap) (k a i : Nat), findFrom h k a = some i →
    ∃ b, h[i - k]? = some b ∧ b.contains a = true
  | [], _, _, _, hf => by simp [findFrom] at hf
  | c :: h, k, a, i, hf => by
    unfold findFrom at hf
    by_cases hc : c.contains a = true
    · simp only [hc, if_true, Option.some.injEq] at hf; subst hf
      exact ⟨c, by simp, hc⟩
    · simp only [hc] at hf
      have hb := findFrom_bound h (k + 1) a i hf
      obtain ⟨b, hb1, hb2⟩ := findFrom_contains h (k + 1) a i hf
      refine ⟨b, ?_, hb2⟩
      have : i - k = (i - (k + 1)) + 1 := by omega
      rw [this, List.getElem?_cons_succ]; exact hb1

theorem pointee_contains {h : Heap} {a i : Nat} (hp : pointee h a = some i) :
    ∃ b, h[i]? = some b ∧ b.contains a = true := by
  unfold pointee at hp
  by_cases hb : a < heapBase
  · simp [hb] at hp
  · simp only [hb, if_false] at hp
    simpa using findFrom_contains h 0 a i hp

/-! ## reachability under changes of the roots -/

def Rootish (R : List Nat) (a : Nat) : Prop := a ∈ R ∨ a < heapBase

theorem getD_rootish (R : List Nat) (t : Nat) : Rootish R (R.getD t 0) := by
  unfold Rootish
  by_cases ht : t < R.length
  · left
    have : R.getD t 0 = R[t] := by simp [List.getD, ht]
    rw [this]; exact List.getElem_mem ht
  · right
    have : R.getD t 0 = 0 := by simp [List.getD, List.getElem?_eq_none (Nat.le_of_not_lt ht)]
    rw [this]; decide

theorem Rootish.reach {h : Heap} {R : List Nat} {a j : Nat} (hr : Rootish R a) (hp : pointee h a = some j) :
    Reach h R j := by
  cases hr with
  | inl hm => exact Reach.root hm hp
  | inr hs => rw [pointee_small hs] at hp; cases hp

theorem reach_set {h : Heap} {R : List Nat} {r v : Nat}
    (hv : ∀ j, pointee h v = some j → Reach h R j) {i : Nat} (hr : Reach h (R.set r v) i) : Reach h R i := by
  induction hr with
  | root hw hp =>
    cases List.mem_or_eq_of_mem_set hw with
    | inl hm => exact Reach.root hm hp
    | inr he => subst he; exact hv _ hp
  | step _ hb hbusy hk hw hp ih => exact Reach.step ih hb hbusy hk hw hp

/-! ## agreement of two heaps on what the reference heap reaches -/

structure Agree (h h' : Heap) (R : List Nat) : Prop where
  shape : h.map Block.shape = h'.map Block.shape
  eq : ∀ i, Reach h' R i → h[i]? = h'[i]?

theorem Agree.length {h h' : Heap} {R : List Nat} (ha : Agree h h' R) : h.length = h'.length := by
  have := congrArg List.length ha.shape; simpa using this

theorem Agree.reach {h h' : Heap} {R : List Nat} (ha : Agree h h' R) {i : Nat} (hr : Reach h' R i) :
    Reach h R i := by
  induction hr with
  | root hw hp => exact Reach.root hw (by rw [pointee_shape ha.shape]; exact hp)
  | step hr' hb hbusy hk hw hp ih =>
    exact Reach.step ih (by rw [ha.eq _ hr']; exact hb) hbusy hk hw (by rw [pointee_shape ha.shape]; exact hp)

theorem Agree.reach' {h h' : Heap} {R : List Nat} (ha : Agree h h' R) {i : Nat} (hr : Reach h R i) :
    Reach h' R i := by
  induction hr with
  | root hw hp => exact Reach.root hw (by rw [← pointee_shape ha.shape]; exact hp)
  | step _ hb hbusy hk hw hp ih =>
    exact Reach.step ih (by rw [← ha.eq _ ih]; exact hb) hbusy hk hw (by rw [← pointee_shape ha.shape]; exact hp)

theorem collect_reachable_unchanged (h : Heap) (roots : List Nat) {i : Nat} (hr : Reach h roots i) :
    (collect h roots)[i]? = h[i]? := by
  rw [collect_getElem?]
  have hm : (mark h roots).getD i false = true := mark_complete hr
  rw [hm]
  cases h[i]? with
  | none => rfl
  | some b => simp [sweepBlock]

theorem Agree.collect {h h' : Heap} {R : List Nat} (ha : Agree h h' R) : Agree (collect h R) h' R :=
  ⟨by rw [collect_shape]; exact ha.shape,
   fun i hr => by rw [collect_reachable_unchanged h R (ha.reach hr)]; exact ha.eq i hr⟩

theorem Agree.roots {h h' : Heap} {R R2 : List Nat} (ha : Agree h h' R)
    (hsub : ∀ i, Reach h' R2 i → Reach h' R i) : Agree h h' R2 :=
  ⟨ha.shape, fun i hr => ha.eq i (hsub i hr)⟩

theorem Agree.setReg {h h' : Heap} {R : List Nat} (ha : Agree h h' R) (r v : Nat)
    (hv : ∀ j, pointee h' v = some j → Reach h' R j) : Agree h h' (R.set r v) :=
  ha.roots (fun _ hr => reach_set hv hr)

/-! ## invariants of the heap of the run that never collects -/

structure RefInv (h' : Heap) (next : Nat) : Prop where
  busy : ∀ b, b ∈ h' → b.busy = true
  data : ∀ b, b ∈ h' → noPtr b.kind = true → ∀ w, w ∈ b.words → w < heapBase
  below : ∀ b, b ∈ h' → b.base + b.extent ≤ next

theorem RefInv.pointee_frontier {h' : Heap} {next a : Nat} (hi : RefInv h' next) (ha : next ≤ a) :
    pointee h' a = none := by
  cases hp : pointee h' a with
  | none => rfl
  | some i =>
    obtain ⟨b, hb, hc⟩ := pointee_contains hp
    have hm : b ∈ h' := List.mem_of_getElem? hb
    have := hi.below b hm
    simp only [Block.contains, Bool.and_eq_true, decide_eq_true_eq] at hc
    omega

/-! ## `access` -/

theorem access_ok {h : Heap} {a i bi off : Nat} {b : Block} (hacc : access h a i = .ok bi off b) :
    pointee h a = some bi ∧ h[bi]? = some b ∧ b.busy = true ∧ off < b.words.length := by
  unfold access at hacc
  cases hp : pointee h a with
  | none => simp [hp] at hacc
  | some bi' =>
    simp only [hp] at hacc
    cases hb : h[bi']? with
    | none => simp [hb] at hacc
    | some b' =>
      simp only [hb] at hacc
      by_cases hbusy : b'.busy = true
      · simp only [hbusy, Bool.not_true, Bool.false_eq_true, if_false] at hacc
        by_cases hh : a < b'.base + b'.hdr
        · simp [hh] at hacc
        · simp only [hh, if_false] at hacc
          by_cases ho : a - (b'.base + b'.hdr) + i < b'.words.length
          · simp only [ho, if_true, Access.ok.injEq] at hacc
            obtain ⟨h1, h2, h3⟩ := hacc
            subst h1; subst h2; subst h3
            exact ⟨rfl, hb, hbusy, ho⟩
          · simp [ho] at hacc
      · simp [hbusy] at hacc

theorem access_agree {h h' : Heap} {R : List Nat} (ha : Agree h h' R) {a : Nat} (hr : Rootish R a) (i : Nat) :
    access h a i = access h' a i := by
  unfold access
  rw [pointee_shape ha.shape]
  cases hp : pointee h' a with
  | none => rfl
  | some bi => simp only []; rw [ha.eq bi (hr.reach hp)]

theorem access_not_freed {h' : Heap} {next : Nat} (hi : RefInv h' next) (a i : Nat) : access h' a i ≠ .freed := by
  unfold access
  cases hp : pointee h' a with
  | none => simp
  | some bi =>
    simp only []
    cases hb : h'[bi]? with
    | none => simp
    | some b =>
      have := hi.busy b (List.mem_of_getElem? hb)
      simp only [this, Bool.not_true, Bool.false_eq_true, if_false]
      split <;> (try split) <;> simp

/-! ## `setWord` -/

theorem setWord_getElem? (h : Heap) (bi off v i : Nat) :
    (setWord h bi off v)[i]? =
      if i = bi then (h[bi]?).map (fun b => { b with words := b.words.set off v }) else h[i]? := by
  unfold setWord
  cases hb : h[bi]? with
  | none =>
    by_cases hi : i = bi
    · subst hi; simp [hb]
    · simp [hi]
  | some b =>
    simp only [List.getElem?_set]
    by_cases hi : i = bi
    · subst hi
      have : i < h.length := by
        by_cases hl : i < h.length
        · exact hl
        · rw [List.getElem?_eq_none (Nat.le_of_not_lt hl)] at hb; cases hb
      simp [this]
    · have : ¬ bi = i := fun e => hi e.symm
      simp [hi, this]

theorem setWord_shape (h : Heap) (bi off v : Nat) : (setWord h bi off v).map Block.shape = h.map Block.shape := by
  apply List.ext_getElem?
  intro i
  simp only [List.getElem?_map, setWord_getElem?]
  by_cases hi : i = bi
  · subst hi
    simp only [if_true]
    cases h[i]? with
    | none => rfl
    | some b => simp [Block.shape]
  · simp [hi]

theorem setWord_mem {h : Heap} {bi off v : Nat} {c : Block} (hc : c ∈ setWord h bi off v) :
    c ∈ h ∨ ∃ b, h[bi]? = some b ∧ c = { b with words := b.words.set off v } := by
  obtain ⟨i, hi⟩ := List.mem_iff_getElem?.mp hc
  rw [setWord_getElem?] at hi
  by_cases hib : i = bi
  · subst hib
    simp only [if_true] at hi
    cases hb : h[i]? with
    | none => simp [hb] at hi
    | some b => simp only [hb, Option.map_some, Option.some.injEq] at hi; exact Or.inr ⟨b, rfl, hi.symm⟩
  · simp only [hib, if_false] at hi
    exact Or.inl (List.mem_of_getElem? hi)

theorem reach_setWord {h : Heap} {R : List Nat} {bi off v : Nat} {b : Block} (hb : h[bi]? = some b)
    (hv : Rootish R v) {i : Nat} (hr : Reach (setWord h bi off v) R i) : Reach h R i := by
  have hsh := setWord_shape h bi off v
  induction hr with
  | root hw hp => exact Reach.root hw (by rw [← pointee_shape hsh]; exact hp)
  | @step i j w b2 _ hb2 hbusy hk hw hp ih =>
    rw [pointee_shape hsh] at hp
    rw [setWord_getElem?] at hb2
    by_cases hib : i = bi
    · subst hib
      simp only [if_true, hb, Option.map_some, Option.some.injEq] at hb2
      subst hb2
      cases List.mem_or_eq_of_mem_set hw with
      | inl hm => exact Reach.step ih hb hbusy hk hm hp
      | inr he => subst he; exact hv.reach hp
    · simp only [hib, if_false] at hb2
      exact Reach.step ih hb2 hbusy hk hw hp

theorem Agree.setWord {h h' : Heap} {R : List Nat} (ha : Agree h h' R) {bi off v : Nat} {b : Block}
    (hb : h'[bi]? = some b) (hrb : Reach h' R bi) (hv : Rootish R v) :
    Agree (setWord h bi off v) (setWord h' bi off v) R := by
  refine ⟨by rw [setWord_shape, setWord_shape]; exact ha.shape, fun i hr => ?_⟩
  have hr' := reach_setWord hb hv hr
  rw [setWord_getElem?, setWord_getElem?]
  by_cases hib : i = bi
  · simp only [hib, if_true]; rw [ha.eq bi hrb]
  · simp only [hib, if_false]; exact ha.eq i hr'

theorem RefInv.setWord {h' : Heap} {next : Nat} (hi : RefInv h' next) {bi off v : Nat} {b : Block}
    (hb : h'[bi]? = some b) (hv : noPtr b.kind = true → v < heapBase) :
    RefInv (setWord h' bi off v) next := by
  have hbm : b ∈ h' := List.mem_of_getElem? hb
  refine ⟨fun c hc => ?_, fun c hc hk w hw => ?_, fun c hc => ?_⟩
  · cases setWord_mem hc with
    | inl hm => exact hi.busy c hm
    | inr he => obtain ⟨b', hb', rfl⟩ := he; rw [hb] at hb'; cases hb'; exact hi.busy b hbm
  · cases setWord_mem hc with
    | inl hm => exact hi.data c hm hk w hw
    | inr he =>
      obtain ⟨b', hb', rfl⟩ := he; rw [hb] at hb'; cases hb'
      cases List.mem_or_eq_of_mem_set hw with
      | inl hm => exact hi.data b hbm hk w hm
      | inr he => subst he; exact hv hk
  · cases setWord_mem hc with
    | inl hm => exact hi.below c hm
    | inr he =>
      obtain ⟨b', hb', rfl⟩ := he; rw [hb] at hb'; cases hb'
      have := hi.below b hbm
      simpa [Block.extent] using this

/-! ## allocation -/

def freshBlock (next n kind : Nat) : Block :=
  { base := next, hdr := hdrFor n, words := List.replicate n newFill, kind := kind, busy := true }

theorem reach_alloc {h' : Heap} {R : List Nat} {next n kind r : Nat} (hi : RefInv h' next) {j : Nat}
    (hr : Reach (h' ++ [freshBlock next n kind]) (R.set r (next + hdrFor n)) j) :
    j = h'.length ∨ Reach h' R j := by
  induction hr with
  | root hw hp =>
    cases pointee_append hp with
    | inr he => exact Or.inl he
    | inl hp' =>
      cases List.mem_or_eq_of_mem_set hw with
      | inl hm => exact Or.inr (Reach.root hm hp')
      | inr he =>
        subst he
        rw [hi.pointee_frontier (Nat.le_add_right _ _)] at hp'; cases hp'
  | @step i j w b2 _ hb2 hbusy hk hw hp ih =>
    cases ih with
    | inl he =>
      subst he
      rw [List.getElem?_concat_length] at hb2
      cases hb2
      simp only [freshBlock, List.mem_replicate] at hw
      rw [hw.2, pointee_small (by decide)] at hp; cases hp
    | inr hr' =>
      rw [List.getElem?_append_left hr'.lt] at hb2
      cases pointee_append hp with
      | inr he => exact Or.inl he
      | inl hp' => exact Or.inr (Reach.step hr' hb2 hbusy hk hw hp')

theorem Agree.alloc {h h' : Heap} {R : List Nat} {next : Nat} (ha : Agree h h' R) (hi : RefInv h' next)
    (n kind r : Nat) :
    Agree (h ++ [freshBlock next n kind]) (h' ++ [freshBlock next n kind]) (R.set r (next + hdrFor n)) := by
  refine ⟨by simp [ha.shape], fun j hr => ?_⟩
  cases reach_alloc hi hr with
  | inl he =>
    subst he
    rw [List.getElem?_concat_length, ← ha.length, List.getElem?_concat_length]
  | inr hr' =>
    rw [List.getElem?_append_left hr'.lt, List.getElem?_append_left (ha.length ▸ hr'.lt)]
    exact ha.eq j hr'

theorem RefInv.alloc {h' : Heap} {next : Nat} (hi : RefInv h' next) (n kind : Nat) :
    RefInv (h' ++ [freshBlock next n kind]) (next + hdrFor n + n) := by
  refine ⟨fun c hc => ?_, fun c hc hk w hw => ?_, fun c hc => ?_⟩
  · simp only [List.mem_append, List.mem_singleton] at hc
    cases hc with
    | inl hm => exact hi.busy c hm
    | inr he => subst he; rfl
  · simp only [List.mem_append, List.mem_singleton] at hc
    cases hc with
    | inl hm => exact hi.data c hm hk w hw
    | inr he =>
      subst he
      simp only [freshBlock, List.mem_replicate] at hw
      rw [hw.2]; decide
  · simp only [List.mem_append, List.mem_singleton] at hc
    cases hc with
    | inl hm => have := hi.below c hm; omega
    | inr he => subst he; simp [freshBlock, Block.extent]; omega

/-! ## the simulation -/

abbrev State.withHeap (s : State) (h : Heap) : State := { s with heap := h }

/-- `s` (run with forced collections) and `s'` (run that never collects) differ at most in pieces the
reference run cannot reach. -/
structure Sim (s s' : State) : Prop where
  eq : s = s'.withHeap s.heap
  agree : Agree s.heap s'.heap s'.regs
  inv : RefInv s'.heap s'.next

theorem Sim.mk' {s' : State} {h : Heap} (ha : Agree h s'.heap s'.regs) (hi : RefInv s'.heap s'.next) :
    Sim (s'.withHeap h) s' := ⟨rfl, ha, hi⟩

theorem doAlloc_sim (c : Bool) {s' : State} {h : Heap} (ha : Agree h s'.heap s'.regs)
    (hi : RefInv s'.heap s'.next) (r n kind : Nat) :
    Sim (doAlloc c (s'.withHeap h) r n kind).advance (doAlloc false s' r n kind).advance := by
  have ha0 : Agree (if c then collect h s'.regs else h) s'.heap s'.regs := by
    cases c with
    | true => exact ha.collect
    | false => exact ha
  unfold doAlloc
  by_cases hn : n = 0
  · simp only [hn, if_true]
    exact ⟨rfl, ha0.setReg r 0 (fun j hp => by rw [pointee_small (by decide)] at hp; cases hp), hi⟩
  · simp only [hn, if_false]
    exact ⟨rfl, ha0.alloc hi n kind r, hi.alloc n kind⟩

theorem exec_sim (c : Bool) {s' : State} {h : Heap} (ins : Instr) (hsafe : ins.safe = true)
    (ha : Agree h s'.heap s'.regs) (hi : RefInv s'.heap s'.next) :
    Sim (exec c (s'.withHeap h) ins) (exec false s' ins) := by
  have small : ∀ v, v < heapBase → ∀ j, pointee s'.heap v = some j → Reach s'.heap s'.regs j :=
    fun v hv j hp => by rw [pointee_small hv] at hp; cases hp
  have hmod : ∀ x, x % heapBase < heapBase := fun x => Nat.mod_lt _ (by decide)
  cases ins with
  | const r n =>
    simp only [Instr.safe, decide_eq_true_eq] at hsafe
    exact ⟨rfl, ha.setReg r n (small n hsafe), hi⟩
  | move r t =>
    exact ⟨rfl, ha.setReg r _ (fun j hp => (getD_rootish s'.regs t).reach hp), hi⟩
  | alloc r n kind => exact doAlloc_sim c ha hi r n kind
  | load r t i =>
    have hrt := getD_rootish s'.regs t
    have hacc : access h (s'.reg t) i = access s'.heap (s'.reg t) i := access_agree ha hrt i
    simp only [exec, State.withHeap, State.reg] at hacc ⊢
    rw [hacc]
    cases hac : access s'.heap (s'.regs.getD t 0) i with
    | bad => exact ⟨rfl, ha, hi⟩
    | freed => exact ⟨rfl, ha, hi⟩
    | ok bi off b =>
      obtain ⟨hp, hb, hbusy, hoff⟩ := access_ok hac
      have hrb : Reach s'.heap s'.regs bi := hrt.reach hp
      refine ⟨rfl, ha.setReg r _ (fun j hpj => ?_), hi⟩
      have hw : b.words.getD off 0 ∈ b.words := by
        have : b.words.getD off 0 = b.words[off] := by simp [List.getD, hoff]
        rw [this]; exact List.getElem_mem hoff
      by_cases hk : noPtr b.kind = true
      · have := hi.data b (List.mem_of_getElem? hb) hk _ hw
        rw [pointee_small this] at hpj; cases hpj
      · exact Reach.step hrb hb hbusy (by simpa using hk) hw hpj
  | store r i t =>
    have hrr := getD_rootish s'.regs r
    have hrt := getD_rootish s'.regs t
    have hacc : access h (s'.reg r) i = access s'.heap (s'.reg r) i := access_agree ha hrr i
    simp only [exec, State.withHeap, State.reg] at hacc ⊢
    rw [hacc]
    cases hac : access s'.heap (s'.regs.getD r 0) i with
    | bad => exact ⟨rfl, ha, hi⟩
    | freed => exact ⟨rfl, ha, hi⟩
    | ok bi off b =>
      obtain ⟨hp, hb, hbusy, hoff⟩ := access_ok hac
      have hrb : Reach s'.heap s'.regs bi := hrr.reach hp
      simp only []
      by_cases hg : (noPtr b.kind && decide (heapBase ≤ s'.regs.getD t 0)) = true
      · rw [if_pos hg, if_pos hg]; exact ⟨rfl, ha, hi⟩
      · rw [if_neg hg, if_neg hg]
        refine ⟨rfl, ha.setWord hb hrb hrt, hi.setWord hb (fun hk => ?_)⟩
        simp only [hk, Bool.true_and, decide_eq_true_eq] at hg
        omega
  | addp r t k =>
    have hrt := getD_rootish s'.regs t
    simp only [exec, State.withHeap, State.reg]
    by_cases hlt : s'.regs.getD t 0 < heapBase
    · simp only [hlt, if_true]
      exact ⟨rfl, ha.setReg r _ (small _ (hmod _)), hi⟩
    · simp only [hlt, if_false]
      simp only [pointee_shape ha.shape]
      cases hp : pointee s'.heap (s'.regs.getD t 0) with
      | none => exact ⟨rfl, ha, hi⟩
      | some bi =>
        simp only []
        by_cases hq : pointee s'.heap (s'.regs.getD t 0 + k) = some bi
        · simp only [hq, if_true]
          refine ⟨rfl, ha.setReg r _ (fun j hpj => ?_), hi⟩
          rw [hq] at hpj; cases hpj; exact hrt.reach hp
        · simp only [hq, if_false]; exact ⟨rfl, ha, hi⟩
  | arith r t u => exact ⟨rfl, ha.setReg r _ (small _ (hmod _)), hi⟩
  | eq r t u =>
    refine ⟨rfl, ha.setReg r _ (small _ ?_), hi⟩
    split <;> decide
  | drop r => exact ⟨rfl, ha.setReg r 0 (small 0 (by decide)), hi⟩
  | out r => exact ⟨rfl, ha, hi⟩
  | jz r target =>
    simp only [exec, State.withHeap, State.reg]
    by_cases hz : s'.regs.getD r 0 = 0
    · simp only [hz, if_true]; exact ⟨rfl, ha, hi⟩
    · simp only [hz, if_false]; exact ⟨rfl, ha, hi⟩
  | halt => exact ⟨rfl, ha, hi⟩

def Safe (prog : List Instr) : Prop := ∀ ins, ins ∈ prog → ins.safe = true

theorem step_sim (sched : Nat → Bool) {prog : List Instr} (hsafe : Safe prog) {s s' : State} (hs : Sim s s') :
    Sim (step sched prog s) (step never prog s') := by
  obtain ⟨heq, ha, hi⟩ := hs
  rw [heq]
  generalize s.heap = h at ha
  unfold step
  have hst : (s'.withHeap h).status = s'.status := rfl
  have hpc : (s'.withHeap h).pc = s'.pc := rfl
  have hna : (s'.withHeap h).nalloc = s'.nalloc := rfl
  rw [hst, hpc, hna]
  cases s'.status with
  | running =>
    simp only []
    cases hins : prog[s'.pc]? with
    | none => exact ⟨rfl, ha, hi⟩
    | some ins => exact exec_sim _ ins (hsafe ins (List.mem_of_getElem? hins)) ha hi
  | halted => exact ⟨rfl, ha, hi⟩
  | fault => exact ⟨rfl, ha, hi⟩
  | freedAccess => exact ⟨rfl, ha, hi⟩

theorem runFrom_sim (sched : Nat → Bool) {prog : List Instr} (hsafe : Safe prog) :
    ∀ (fuel : Nat) {s s' : State}, Sim s s' → Sim (runFrom sched prog fuel s) (runFrom never prog fuel s')
  | 0, _, _, hs => hs
  | fuel + 1, _, _, hs => runFrom_sim sched hsafe fuel (step_sim sched hsafe hs)

theorem init_sim (nregs : Nat) : Sim (State.init nregs) (State.init nregs) :=
  ⟨rfl, ⟨rfl, fun _ _ => rfl⟩,
   ⟨fun b hb => by simp [State.init] at hb, fun b hb => by simp [State.init] at hb,
    fun b hb => by simp [State.init] at hb⟩⟩

/-- the reference run never touches a freed piece -/
theorem step_ref_not_freed {prog : List Instr} {s' : State} (hi : RefInv s'.heap s'.next)
    (hst : s'.status ≠ .freedAccess) : (step never prog s').status ≠ .freedAccess := by
  unfold step
  cases hs : s'.status with
  | running =>
    simp only []
    cases hins : prog[s'.pc]? with
    | none => simp [State.stop]
    | some ins =>
      cases ins with
      | load r t i =>
        simp only [exec]
        cases hac : access s'.heap (s'.reg t) i with
        | ok bi off b => simp [State.advance, State.setReg, hs]
        | bad => simp [State.stop]
        | freed => exact absurd hac (access_not_freed hi _ _)
      | store r i t =>
        simp only [exec]
        cases hac : access s'.heap (s'.reg r) i with
        | ok bi off b =>
          simp only []
          split <;> simp [State.advance, State.stop, hs]
        | bad => simp [State.stop]
        | freed => exact absurd hac (access_not_freed hi _ _)
      | addp r t k =>
        simp only [exec]
        split
        · simp [State.advance, State.setReg, hs]
        · split
          · simp [State.stop]
          · split <;> simp [State.advance, State.setReg, State.stop, hs]
      | jz r target =>
        simp only [exec]
        split <;> simp [State.advance, hs]
      | alloc r n kind =>
        simp only [exec, doAlloc, never]
        split <;> simp [State.advance, hs]
      | halt => simp [exec, State.stop]
      | const r n => simp [exec, State.advance, State.setReg, hs]
      | move r t => simp [exec, State.advance, State.setReg, hs]
      | arith r t u => simp [exec, State.advance, State.setReg, hs]
      | eq r t u => simp [exec, State.advance, State.setReg, hs]
      | drop r => simp [exec, State.advance, State.setReg, hs]
      | out r => simp [exec, State.advance, hs]
  | halted => simp [hs]
  | fault => simp [hs]
  | freedAccess => exact absurd hs hst

end AldorVerif.Gc
