import AldorVerif.Lemmas.BigIntMod
/-! `bintToString` (core Lean only). -/
namespace AldorVerif.BigInt

/-- value of a list of decimal digits, most significant first -/
def dval (ds : List Nat) : Nat := ds.foldl (fun a d => 10 * a + d) 0

theorem foldl_dec (ds : List Nat) (n : Nat) :
    ds.foldl (fun a d => 10 * a + d) n = n * 10 ^ ds.length + ds.foldl (fun a d => 10 * a + d) 0 := by
  induction ds generalizing n with
  | nil => simp
  | cons d ds ih =>
    simp only [List.foldl_cons, List.length_cons, Nat.pow_succ]
    rw [ih (10 * n + d), ih (10 * 0 + d)]
    have : (10 * n + d) * 10 ^ ds.length = n * (10 ^ ds.length * 10) + (10 * 0 + d) * 10 ^ ds.length := by grind
    omega

theorem dval_append (a b : List Nat) : dval (a ++ b) = dval a * 10 ^ b.length + dval b := by
  unfold dval; rw [List.foldl_append, foldl_dec]

theorem digitChar_eq : ∀ d, d < 10 → digitChar d = Nat.digitChar d := by decide

/-- digits with leading zeros removed, as characters (at least one digit) -/
def render (ds : List Nat) : List Char :=
  let s := ds.dropWhile (· = 0)
  let s := if s.isEmpty then [0] else s
  s.map digitChar

/-- appending decimal digits to a positive number's text -/
theorem toDigits_append_digits : ∀ (E : List Nat) (n : Nat), 0 < n → (∀ d ∈ E, d < 10) →
    Nat.toDigits 10 n ++ E.map digitChar = Nat.toDigits 10 (E.foldl (fun a d => 10 * a + d) n) := by
  intro E
  induction E with
  | nil => intro n _ _; simp
  | cons d E ih =>
    intro n hn hE
    have hd : d < 10 := hE d (List.mem_cons_self ..)
    have h1 : Nat.toDigits 10 n ++ [digitChar d] = Nat.toDigits 10 (10 * n + d) := by
      rw [digitChar_eq d hd, ← Nat.toDigits_of_lt_base hd]
      exact Nat.toDigits_append_toDigits (by omega) hn hd
    simp only [List.map_cons, List.foldl_cons]
    rw [← ih (10 * n + d) (by omega) (fun x hx => hE x (List.mem_cons_of_mem _ hx)), ← h1]
    simp

theorem render_spec : ∀ (D : List Nat), (∀ d ∈ D, d < 10) → render D = Nat.toDigits 10 (dval D) := by
  intro D
  induction D with
  | nil => intro _; simp [render, dval, digitChar_eq]
  | cons d D ih =>
    intro hD
    have hd : d < 10 := hD d (List.mem_cons_self ..)
    have hD' : ∀ x ∈ D, x < 10 := fun x hx => hD x (List.mem_cons_of_mem _ hx)
    by_cases h0 : d = 0
    · subst h0
      have : render (0 :: D) = render D := by simp [render]
      rw [this, ih hD']
      simp [dval]
    · have hr : render (d :: D) = digitChar d :: D.map digitChar := by
        simp [render, h0]
      rw [hr]
      have := toDigits_append_digits D d (by omega) hD'
      rw [Nat.toDigits_of_lt_base hd, ← digitChar_eq d hd] at this
      simp only [List.singleton_append] at this
      rw [this]
      simp [dval]

/-- the nine digits of one remainder -/
theorem chunkDigits_spec : ∀ (j r : Nat) (acc : List Nat), r < 10 ^ j →
    ∃ C, chunkDigits j r acc = C ++ acc ∧ C.length = j ∧ (∀ d ∈ C, d < 10) ∧ dval C = r := by
  intro j
  induction j with
  | zero =>
    intro r acc h
    exact ⟨[], rfl, rfl, by simp, by simp at h; simp [dval]; omega⟩
  | succ j ih =>
    intro r acc h
    simp only [chunkDigits]
    obtain ⟨C, e, l, dg, v⟩ := ih (r / 10) ((r % 10) :: acc) (by rw [Nat.pow_succ] at h; omega)
    refine ⟨C ++ [r % 10], by rw [e]; simp, by simp [l], ?_, ?_⟩
    · intro d hd
      rcases List.mem_append.mp hd with h1 | h1
      · exact dg d h1
      · simp at h1; omega
    · rw [dval_append, v]; simp [dval]; omega

/-- termination measure of the division loop of `bintIntoString` -/
def strMeasure (ds : List Nat) : Nat := 2 * ds.length + (if 5 * R ^ (ds.length - 1) ≤ natVal ds then 1 else 0)

theorem strMeasure_nil : strMeasure [] = 0 := by
  unfold strMeasure; simp

theorem strMeasure_pos {ds : List Nat} (h : ds ≠ []) : 2 ≤ strMeasure ds := by
  unfold strMeasure; have := len_pos h; omega

theorem intoStringLoop_spec : ∀ (fuel : Nat) (ds acc : List Nat), Digits ds → Norm ds → strMeasure ds ≤ fuel →
    ∃ X, intoStringLoop fuel ds acc = X ++ acc ∧ (∀ d ∈ X, d < 10) ∧ dval X = natVal ds := by
  have hR := R_eq
  intro fuel
  induction fuel with
  | zero =>
    intro ds acc _ _ hm
    have : ds = [] := by
      cases ds with
      | nil => rfl
      | cons _ _ => simp [strMeasure] at hm
    subst this
    exact ⟨[], rfl, by simp, rfl⟩
  | succ f ih =>
    intro ds acc hd hn hm
    simp only [intoStringLoop]
    by_cases hne : ds.length > 0
    · rw [if_pos hne]
      have hne' : ds ≠ [] := ne_nil_of_length_pos hne
      obtain ⟨qv, rv, qd, ql⟩ := iintDivideS_spec hd (b := 1000000000) (by omega) (by rw [hR]; omega)
      have qn := iintDivideS_norm hd hn (b := 1000000000) (by omega) (by rw [hR]; omega)
      have hrlt : (iintDivideS ds 1000000000).2 < 10 ^ 9 := by
        rw [rv]; exact Nat.mod_lt _ (by omega)
      obtain ⟨C, ce, cl, cdg, cv⟩ := chunkDigits_spec 9 (iintDivideS ds 1000000000).2 acc hrlt
      -- the measure decreases
      have hdec : strMeasure (iintDivideS ds 1000000000).1 ≤ f := by
        have hV := natVal_lt hd
        have hge := natVal_ge_of_norm hn hne'
        generalize hq : (iintDivideS ds 1000000000).1 = q at *
        have hstep : strMeasure q + 1 ≤ strMeasure ds := by
          by_cases hqe : q = []
          · subst hqe
            rw [strMeasure_nil]
            have := strMeasure_pos hne'
            omega
          · unfold strMeasure
            have hL : ds.length = (ds.length - 1) + 1 := by omega
            rw [hL, Nat.pow_succ] at hV
            generalize hP : R ^ (ds.length - 1) = P at *
            rw [hR] at hV
            have hqge := natVal_ge_of_norm qn hqe
            by_cases hbig : 5 * P ≤ natVal ds
            · rw [if_pos hbig]
              by_cases hql : q.length = ds.length
              · rw [hql, hP]
                have : ¬ 5 * P ≤ natVal q := by rw [qv]; omega
                rw [if_neg this]; omega
              · have : q.length ≤ ds.length - 1 := by omega
                split <;> omega
            · rw [if_neg hbig]
              -- the quotient is shorter
              have hqs : q.length ≤ ds.length - 1 := by
                rcases Nat.lt_or_ge (ds.length - 1) q.length with h | h
                · exfalso
                  have : q.length = ds.length := by omega
                  rw [this, hP] at hqge
                  rw [qv] at hqge; omega
                · exact h
              split <;> omega
        omega
      obtain ⟨X, xe, xdg, xv⟩ := ih (iintDivideS ds 1000000000).1 (chunkDigits 9 (iintDivideS ds 1000000000).2 acc) qd qn hdec
      refine ⟨X ++ C, by rw [xe, ce]; simp, ?_, ?_⟩
      · intro d hdm
        rcases List.mem_append.mp hdm with h | h
        · exact xdg d h
        · exact cdg d h
      · rw [dval_append, xv, cv, cl, qv, rv]
        have := Nat.div_add_mod (natVal ds) 1000000000
        omega
    · have : ds = [] := by
        cases ds with
        | nil => rfl
        | cons _ _ => simp at hne
      subst this
      rw [if_neg (by simp)]
      exact ⟨[], rfl, by simp, rfl⟩

theorem strMeasure_le (ds : List Nat) : strMeasure ds ≤ 2 * ds.length + 1 := by
  unfold strMeasure; split <;> omega

/-- `bintToString`: the decimal text of the value, as `Nat.toDigits 10` writes it, with a leading
`-` for negative numbers. -/
theorem bintToString_spec {a : BInt} (ha : WF a) :
    bintToString a = (if a.val < 0 then ['-'] else []) ++ Nat.toDigits 10 a.val.natAbs := by
  cases a with
  | imm v =>
    show (if v < 0 then '-' :: natDecimal v.natAbs else natDecimal v.natAbs) =
      (if (BInt.imm v).val < 0 then ['-'] else []) ++ Nat.toDigits 10 (BInt.imm v).val.natAbs
    by_cases h : v < 0
    · rw [if_pos h, if_pos (show (BInt.imm v).val < 0 from h)]; rfl
    · rw [if_neg h, if_neg (show ¬ (BInt.imm v).val < 0 from h)]; rfl
  | big neg ds =>
    obtain ⟨hd, hn, hv⟩ := WF_big.mp ha
    rw [MAXI_eq] at hv
    obtain ⟨X, xe, xdg, xv⟩ := intoStringLoop_spec (2 * ds.length + 1) ds [] hd hn (strMeasure_le ds)
    simp only [List.append_nil] at xe
    have hr := render_spec X xdg
    rw [xv] at hr
    have hna : (BInt.big neg ds).val.natAbs = natVal ds := by cases neg <;> simp
    have hrender : (let digs := X.dropWhile (· = 0)
        let digs := if digs.isEmpty then [0] else digs
        digs.map digitChar) = Nat.toDigits 10 (natVal ds) := hr
    simp only [bintToString, xe, hna]
    simp only at hrender
    rw [hrender]
    cases neg
    · have : ¬ (BInt.big false ds).val < 0 := by simp
      rw [if_neg this]; simp
    · have : (BInt.big true ds).val < 0 := by simp; omega
      rw [if_pos this]; simp

end AldorVerif.BigInt
