import AldorVerif.Lemmas.Mangle

/-! helper lemmas for the splitting loop and the file names (C16, part `mangle`) -/
namespace AldorVerif.CSplit
open AldorVerif.Mangle

theorem takePart_append (smax : Nat) : ∀ (c : Nat) (l : List Nat),
    (takePart smax c l).1 ++ (takePart smax c l).2 = l
  | _, [] => rfl
  | c, w :: ws => by
    unfold takePart
    split
    · simp [takePart_append smax (c + w) ws]
    · rfl

/-- the inner loop stops only when the counter has reached the limit or nothing is left -/
theorem takePart_full (smax : Nat) : ∀ (c : Nat) (l : List Nat),
    (takePart smax c l).2 ≠ [] → smax ≤ c + (takePart smax c l).1.sum
  | _, [], h => by simp [takePart] at h
  | c, w :: ws, h => by
    unfold takePart at h ⊢
    split
    · next hc =>
      simp only [hc, if_true] at h
      have := takePart_full smax (c + w) ws h
      simp only [List.sum_cons]; omega
    · next hc => simp; omega

/-- … and it never takes a definition once the limit is reached: without its last definition
the part stays under the limit -/
theorem takePart_minimal (smax : Nat) : ∀ (c : Nat) (l : List Nat),
    (takePart smax c l).1 ≠ [] → c + (takePart smax c l).1.dropLast.sum < smax
  | _, [], h => by simp [takePart] at h
  | c, w :: ws, h => by
    unfold takePart at h ⊢
    split
    · next hc =>
      by_cases hn : (takePart smax (c + w) ws).1 = []
      · simp [hn]; exact hc
      · have := takePart_minimal smax (c + w) ws hn
        rw [List.dropLast_cons_of_ne_nil hn]
        simp only [List.sum_cons]; omega
    · next hc => simp [hc] at h

theorem splitLoop_flatten (smax n : Nat) (rest : List Nat) :
    (splitLoop smax n rest).1.flatten ++ (splitLoop smax n rest).2 = rest := by
  fun_induction splitLoop smax n rest with
  | case1 n rest h p r ih =>
    simp only [List.flatten_cons, List.append_assoc]
    rw [ih]
    exact takePart_append smax 0 rest
  | case2 n rest h => simp

theorem splitLoop_length (smax n : Nat) (rest : List Nat) (hs : 0 < smax) :
    (splitLoop smax n rest).1.length = (n - 1) / smax := by
  fun_induction splitLoop smax n rest with
  | case1 n rest h p r ih =>
    have : n - 1 = (n - smax - 1) + smax := by omega
    rw [this, Nat.add_div_right _ hs, ← ih]
    rfl
  | case2 n rest h =>
    simp only [List.length_nil]
    have : n - 1 < smax := by omega
    exact (Nat.div_eq_of_lt this).symm

theorem splitLoop_zero (n : Nat) (rest : List Nat) : splitLoop 0 n rest = ([], rest) := by
  rw [splitLoop]; simp

/-- every part before the last is a run of `takePart` on what was left -/
theorem splitLoop_parts (smax n : Nat) (rest : List Nat) :
    ∀ p ∈ (splitLoop smax n rest).1,
      (p ≠ [] → p.dropLast.sum < smax) ∧
      (smax ≤ p.sum ∨ (splitLoop smax n rest).2 = []) := by
  fun_induction splitLoop smax n rest with
  | case1 n rest h p r ih =>
    intro q hq
    simp only [List.mem_cons] at hq
    rcases hq with rfl | hq
    · refine ⟨fun hne => by simpa using takePart_minimal smax 0 rest hne, ?_⟩
      by_cases h2 : (takePart smax 0 rest).2 = []
      · right
        have hfl := splitLoop_flatten smax (n - smax) (takePart smax 0 rest).2
        rw [h2] at hfl
        have := congrArg List.length hfl
        simp only [List.length_append, List.length_nil] at this
        have h3 : (splitLoop smax (n - smax) []).2.length = 0 := by omega
        show (splitLoop smax (n - smax) (takePart smax 0 rest).2).2 = []
        rw [h2]; exact List.eq_nil_of_length_eq_zero h3
      · left; simpa using takePart_full smax 0 rest h2
    · exact ih q hq
  | case2 n rest h => intro p hp; simp at hp

/-! ## file names -/

theorem pad3_inj {n m : Nat} (h : pad3 n = pad3 m) : n = m := by
  have := congrArg decVal h
  unfold pad3 dec at this
  simpa [decVal_zeros, decVal_putI] using this

theorem pad3_length (n : Nat) : 3 ≤ (pad3 n).length := by
  unfold pad3; simp only [List.length_append, List.length_replicate]; omega

theorem partFile_inj (base : List Char) {i j : Nat} (hi : 2 ≤ i) (hj : 2 ≤ j)
    (h : partFile base i = partFile base j) : i = j := by
  unfold partFile at h
  have h1 : ¬ i ≤ 1 := by omega
  have h2 : ¬ j ≤ 1 := by omega
  simp only [h1, h2, if_false] at h
  have := pad3_inj (List.append_cancel_left h)
  omega

end AldorVerif.CSplit
