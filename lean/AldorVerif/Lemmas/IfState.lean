import AldorVerif.Model.IfState

/-! Lemmas about the includer's if-state machine: the number of `InclIfEof` errors equals the
number of `#if`s that are open at the end of the file. -/
namespace AldorVerif.IfState

theorem elseifState_ne (st : IfState) (b : Bool) (h : st ≠ .noIf) : elseifState st b ≠ .noIf := by
  cases st <;> simp [elseifState] at * <;> split <;> simp

theorem elseState_ne (st : IfState) (h : st ≠ .noIf) : elseState st ≠ .noIf := by
  cases st <;> simp [elseState] at *

@[simp] theorem eofCount_nil : eofCount [] = 0 := rfl
@[simp] theorem eofCount_line (i : Nat) (evs : List Ev) : eofCount (.line i :: evs) = eofCount evs := by
  simp [eofCount]
@[simp] theorem eofCount_eof (evs : List Ev) : eofCount (.ifEof :: evs) = eofCount evs + 1 := by
  simp [eofCount]
@[simp] theorem eofCount_append (a b : List Ev) : eofCount (a ++ b) = eofCount a + eofCount b := by
  simp [eofCount]

@[simp] theorem depth_nil (d : Nat) : depthAtEof d [] = some d := by cases d <;> rfl
@[simp] theorem depth_if (d p : Nat) (r : List Line) : depthAtEof d (.ifD p :: r) = depthAtEof (d + 1) r := by
  cases d <;> rfl
@[simp] theorem depth_endif_succ (d : Nat) (r : List Line) : depthAtEof (d + 1) (.endifD :: r) = depthAtEof d r := rfl
@[simp] theorem depth_endif_zero (r : List Line) : depthAtEof 0 (.endifD :: r) = none := rfl
@[simp] theorem depth_text (d i : Nat) (r : List Line) : depthAtEof d (.text i :: r) = depthAtEof d r := by cases d <;> rfl
@[simp] theorem depth_elseif (d p : Nat) (r : List Line) : depthAtEof d (.elseifD p :: r) = depthAtEof d r := by cases d <;> rfl
@[simp] theorem depth_else (d : Nat) (r : List Line) : depthAtEof d (.elseD :: r) = depthAtEof d r := by cases d <;> rfl
@[simp] theorem depth_assert (d p : Nat) (r : List Line) : depthAtEof d (.assertD p :: r) = depthAtEof d r := by cases d <;> rfl
@[simp] theorem depth_unassert (d p : Nat) (r : List Line) : depthAtEof d (.unassertD p :: r) = depthAtEof d r := by cases d <;> rfl

/-- what a nested level (`st ≠ NoIf`) does: either its `#endif` is found, or the file ends -/
def NestedOK (ls : List Line) (r : List Ev × List Line × List Nat) : Prop :=
  (eofCount r.1 = 0 ∧ r.2.1.length ≤ ls.length ∧ ∀ d, depthAtEof (d + 1) ls = depthAtEof d r.2.1) ∨
  (r.2.1 = [] ∧ ∃ j, eofCount r.1 = j + 1 ∧ ∀ d, depthAtEof (d + 1) ls = some (d + 1 + j))

theorem nested_ok : ∀ (n : Nat) (st : IfState) (as : List Nat) (ls : List Line),
    st ≠ .noIf → ls.length < n → NestedOK ls (contents n st as ls) := by
  intro n
  induction n with
  | zero => intro st as ls _ h; omega
  | succ n ih =>
    intro st as ls hst hlen
    cases ls with
    | nil =>
      right
      simp only [contents, if_pos hst]
      exact ⟨by simp, 0, by simp, fun d => by simp⟩
    | cons l ls =>
      have hl : ls.length < n := by simp at hlen; omega
      cases l with
      | text i =>
        have := ih st as ls hst hl
        simp only [contents]
        rcases this with ⟨h1, h2, h3⟩ | ⟨h1, j, h2, h3⟩
        · left
          refine ⟨?_, by simp; omega, fun d => by simpa using h3 d⟩
          split <;> simp [h1]
        · right
          refine ⟨h1, j, ?_, fun d => by simpa using h3 d⟩
          split <;> simp [h2]
      | assertD p =>
        have := ih st (if including st then p :: as else as) ls hst hl
        simp only [contents]
        rcases this with ⟨h1, h2, h3⟩ | ⟨h1, j, h2, h3⟩
        · exact Or.inl ⟨h1, by simp; omega, fun d => by simpa using h3 d⟩
        · exact Or.inr ⟨h1, j, h2, fun d => by simpa using h3 d⟩
      | unassertD p =>
        have := ih st (if including st then as.erase p else as) ls hst hl
        simp only [contents]
        rcases this with ⟨h1, h2, h3⟩ | ⟨h1, j, h2, h3⟩
        · exact Or.inl ⟨h1, by simp; omega, fun d => by simpa using h3 d⟩
        · exact Or.inr ⟨h1, j, h2, fun d => by simpa using h3 d⟩
      | elseifD p =>
        have := ih (elseifState st (decide (p ∈ as))) as ls (elseifState_ne _ _ hst) hl
        simp only [contents, if_neg hst]
        rcases this with ⟨h1, h2, h3⟩ | ⟨h1, j, h2, h3⟩
        · exact Or.inl ⟨h1, by simp; omega, fun d => by simpa using h3 d⟩
        · exact Or.inr ⟨h1, j, h2, fun d => by simpa using h3 d⟩
      | elseD =>
        have := ih (elseState st) as ls (elseState_ne _ hst) hl
        simp only [contents, if_neg hst]
        rcases this with ⟨h1, h2, h3⟩ | ⟨h1, j, h2, h3⟩
        · exact Or.inl ⟨h1, by simp; omega, fun d => by simpa using h3 d⟩
        · exact Or.inr ⟨h1, j, h2, fun d => by simpa using h3 d⟩
      | endifD =>
        left
        simp only [contents, if_neg hst]
        exact ⟨rfl, by simp, fun d => by simp⟩
      | ifD p =>
        simp only [contents]
        generalize hinner : (if including st = true then (if p ∈ as then IfState.activeIf else IfState.inactiveIf)
          else IfState.formerlyActiveIf) = inner
        have hin : inner ≠ .noIf := by
          rw [← hinner]; split
          · split <;> simp
          · simp
        have h1 := ih inner as ls hin hl
        generalize contents n inner as ls = r1 at h1
        rcases h1 with ⟨c1, l1, d1⟩ | ⟨e1, j, c1, d1⟩
        · have h2 := ih st r1.2.2 r1.2.1 hst (by omega)
          generalize contents n st r1.2.2 r1.2.1 = r2 at h2
          rcases h2 with ⟨c2, l2, d2⟩ | ⟨e2, j2, c2, d2⟩
          · left
            refine ⟨by simp [c1, c2], by simp; omega, fun d => ?_⟩
            simp only [depth_if]; rw [d1 (d + 1), d2 d]
          · right
            refine ⟨e2, j2, by simp [c1, c2], fun d => ?_⟩
            simp only [depth_if]; rw [d1 (d + 1), d2 d]
        · right
          have hn : ∃ m, n = m + 1 := ⟨n - 1, by omega⟩
          obtain ⟨m, hm⟩ := hn
          subst hm
          rw [e1]
          simp only [contents, if_pos hst]
          refine ⟨by simp, j + 1, by simp [c1], fun d => ?_⟩
          simp only [depth_if]; rw [d1 (d + 1)]; congr 1; omega

/-- the file level (`NoIf`) -/
theorem top_ok : ∀ (n : Nat) (as : List Nat) (ls : List Line), ls.length < n →
    depthAtEof 0 ls = none ∨ depthAtEof 0 ls = some (eofCount (contents n .noIf as ls).1) := by
  intro n
  induction n with
  | zero => intro as ls h; omega
  | succ n ih =>
    intro as ls hlen
    cases ls with
    | nil => right; simp [contents]
    | cons l ls =>
      have hl : ls.length < n := by simp at hlen; omega
      cases l with
      | text i =>
        rcases ih as ls hl with h | h
        · left; simpa using h
        · right; simp only [contents, including]; simpa using h
      | assertD p =>
        rcases ih (if including .noIf then p :: as else as) ls hl with h | h
        · left; simpa using h
        · right; simp only [contents]; simpa using h
      | unassertD p =>
        rcases ih (if including .noIf then as.erase p else as) ls hl with h | h
        · left; simpa using h
        · right; simp only [contents]; simpa using h
      | elseifD p =>
        rcases ih as ls hl with h | h
        · left; simpa using h
        · right; simp only [contents, elseifState]; simp [eofCount] at h ⊢; exact h
      | elseD =>
        rcases ih as ls hl with h | h
        · left; simpa using h
        · right; simp only [contents, elseState]; simp [eofCount] at h ⊢; exact h
      | endifD => left; simp
      | ifD p =>
        simp only [contents, including]
        generalize hinner : (if p ∈ as then IfState.activeIf else IfState.inactiveIf) = inner
        have hin : inner ≠ .noIf := by rw [← hinner]; split <;> simp
        have h1 := nested_ok n inner as ls hin hl
        simp only [if_true] 
        generalize contents n inner as ls = r1 at h1
        rcases h1 with ⟨c1, l1, d1⟩ | ⟨e1, j, c1, d1⟩
        · rcases ih r1.2.2 r1.2.1 (by omega) with h | h
          · left; simp only [depth_if]; rw [d1 0]; exact h
          · right; simp only [depth_if]; rw [d1 0, h]; simp [c1]
        · right
          have hn : ∃ m, n = m + 1 := ⟨n - 1, by omega⟩
          obtain ⟨m, hm⟩ := hn
          subst hm
          rw [e1]
          simp only [contents, depth_if]
          rw [d1 0]; simp [c1]; omega

end AldorVerif.IfState
