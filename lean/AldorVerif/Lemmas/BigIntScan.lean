import AldorVerif.Lemmas.BigIntText
/-! `bintRadixScanFrString` / `bintFrString` (core Lean only). -/
namespace AldorVerif.BigInt

/-- value of a digit character as the scan routines read it -/
def charDigit (c : Char) : Nat := if c.toNat ≤ 57 then c.toNat - 48 else c.toNat - 65 + 10

/-- a character the whole part may contain (`isdigit || isupper`) that is a digit of the radix -/
def ValidDigit (rdx : Nat) (c : Char) : Prop := (isDigitC c = true ∨ isUpperC c = true) ∧ charDigit c < rdx

/-- the number a digit string denotes in a radix -/
def radVal (rdx : Nat) (cs : List Char) : Nat := cs.foldl (fun n c => rdx * n + charDigit c) 0

theorem isDigitC_iff (c : Char) : isDigitC c = true ↔ (48 ≤ c.toNat ∧ c.toNat ≤ 57) := by
  unfold isDigitC
  simp only [Bool.and_eq_true, decide_eq_true_eq]
  constructor
  · rintro ⟨h1, h2⟩
    exact ⟨h1, h2⟩
  · rintro ⟨h1, h2⟩
    exact ⟨h1, h2⟩

theorem isUpperC_iff (c : Char) : isUpperC c = true ↔ (65 ≤ c.toNat ∧ c.toNat ≤ 90) := by
  unfold isUpperC
  simp only [Bool.and_eq_true, decide_eq_true_eq]
  constructor
  · rintro ⟨h1, h2⟩
    exact ⟨h1, h2⟩
  · rintro ⟨h1, h2⟩
    exact ⟨h1, h2⟩

theorem digVal_valid {rdx : Nat} {c : Char} (h : ValidDigit rdx c) : digVal c = (charDigit c : Int) := by
  unfold digVal charDigit
  rcases h.1 with h1 | h1
  · have := (isDigitC_iff c).mp h1
    rw [if_pos this.2, if_pos this.2]; omega
  · have := (isUpperC_iff c).mp h1
    rw [if_neg (by omega), if_neg (by omega)]; omega

theorem radFold (rdx : Nat) (cs : List Char) (n : Nat) :
    cs.foldl (fun n c => rdx * n + charDigit c) n = n * rdx ^ cs.length + radVal rdx cs := by
  induction cs generalizing n with
  | nil => simp [radVal]
  | cons c cs ih =>
    simp only [List.foldl_cons, List.length_cons, Nat.pow_succ, radVal]
    rw [ih (rdx * n + charDigit c), ih (rdx * 0 + charDigit c)]
    have : (rdx * n + charDigit c) * rdx ^ cs.length
        = n * (rdx ^ cs.length * rdx) + (rdx * 0 + charDigit c) * rdx ^ cs.length := by grind
    omega

theorem radVal_append (rdx : Nat) (a b : List Char) :
    radVal rdx (a ++ b) = radVal rdx a * rdx ^ b.length + radVal rdx b := by
  unfold radVal; rw [List.foldl_append, radFold]; rfl

theorem radVal_cons (rdx : Nat) (c : Char) (cs : List Char) :
    radVal rdx (c :: cs) = charDigit c * rdx ^ cs.length + radVal rdx cs := by
  have := radVal_append rdx [c] cs
  simpa [radVal] using this

theorem radVal_lt {rdx : Nat} {cs : List Char} (h : ∀ c ∈ cs, ValidDigit rdx c) : radVal rdx cs < rdx ^ cs.length := by
  induction cs with
  | nil => simp [radVal]
  | cons c cs ih =>
    rw [radVal_cons, List.length_cons, Nat.pow_succ]
    have h1 := (h c (List.mem_cons_self ..)).2
    have h2 := ih (fun x hx => h x (List.mem_cons_of_mem _ hx))
    have : (charDigit c + 1) * rdx ^ cs.length ≤ rdx * rdx ^ cs.length := Nat.mul_le_mul_right _ h1
    rw [Nat.add_mul, Nat.one_mul] at this
    rw [Nat.mul_comm (rdx ^ cs.length) rdx]; omega

/-- the C chunk accumulation `n = radix*n + dig` does not overflow on a chunk -/
theorem chunkFold_spec {rdx : Nat} : ∀ (cs : List Char) (n : Nat), (∀ c ∈ cs, ValidDigit rdx c) →
    n * rdx ^ cs.length + radVal rdx cs < 9223372036854775808 →
    cs.foldl (fun (n : Int) c => wrapL ((rdx : Int) * n + digVal c)) (n : Int)
      = ((n * rdx ^ cs.length + radVal rdx cs : Nat) : Int) := by
  intro cs
  induction cs with
  | nil => intro n _ _; simp [radVal]
  | cons c cs ih =>
    intro n hv hb
    have hc := hv c (List.mem_cons_self ..)
    have hv' : ∀ x ∈ cs, ValidDigit rdx x := fun x hx => hv x (List.mem_cons_of_mem _ hx)
    simp only [List.foldl_cons]
    rw [digVal_valid hc]
    rw [radVal_cons, List.length_cons, Nat.pow_succ] at hb
    have e : n * (rdx ^ cs.length * rdx) + (charDigit c * rdx ^ cs.length + radVal rdx cs)
        = (rdx * n + charDigit c) * rdx ^ cs.length + radVal rdx cs := by grind
    rw [e] at hb
    have hP : 1 ≤ rdx ^ cs.length ∨ rdx ^ cs.length = 0 := by omega
    have hsmall : rdx * n + charDigit c < 9223372036854775808 := by
      rcases Nat.eq_zero_or_pos (rdx ^ cs.length) with h0 | hpos
      · -- rdx = 0 : impossible for a valid digit
        have := hc.2
        have : rdx ≠ 0 := by omega
        have := Nat.pow_pos (n := cs.length) (Nat.pos_of_ne_zero this)
        omega
      · have : rdx * n + charDigit c ≤ (rdx * n + charDigit c) * rdx ^ cs.length := Nat.le_mul_of_pos_right _ hpos
        omega
    have hw : wrapL ((rdx : Int) * (n : Int) + (charDigit c : Int)) = ((rdx * n + charDigit c : Nat) : Int) := by
      rw [wrapL_eq] <;> (try push_cast) <;> omega
    rw [hw, ih (rdx * n + charDigit c) hv' hb, radVal_cons, List.length_cons, Nat.pow_succ, e]

theorem chunkVal_spec {rdx : Nat} {cs : List Char} (hv : ∀ c ∈ cs, ValidDigit rdx c)
    (hb : rdx ^ cs.length ≤ 9223372036854775808) : chunkVal (rdx : Int) cs = (radVal rdx cs : Int) := by
  unfold chunkVal
  have h := chunkFold_spec cs 0 hv (by have := radVal_lt hv; omega)
  simpa using h

theorem strtolDigits_spec {rdx : Nat} : ∀ (cs : List Char) (acc : Nat), (∀ c ∈ cs, ValidDigit rdx c) →
    strtolDigits rdx cs acc = acc * rdx ^ cs.length + radVal rdx cs := by
  intro cs
  induction cs with
  | nil => intro acc _; simp [strtolDigits, radVal]
  | cons c cs ih =>
    intro acc hv
    have hc := hv c (List.mem_cons_self ..)
    have hv' : ∀ x ∈ cs, ValidDigit rdx x := fun x hx => hv x (List.mem_cons_of_mem _ hx)
    simp only [strtolDigits]
    have hval : (if isDigitC c = true then some (c.toNat - 48)
        else if isUpperC c = true then some (c.toNat - 65 + 10)
        else if ('a' ≤ c && c ≤ 'z') = true then some (c.toNat - 97 + 10) else none) = some (charDigit c) := by
      unfold charDigit
      rcases hc.1 with h1 | h1
      · have := (isDigitC_iff c).mp h1
        rw [if_pos h1, if_pos this.2]
      · have := (isUpperC_iff c).mp h1
        have hnd : ¬ isDigitC c = true := fun h => by have := (isDigitC_iff c).mp h; omega
        rw [if_neg hnd, if_pos h1, if_neg (by omega)]
    rw [hval]
    simp only
    rw [if_pos hc.2, ih _ hv', radVal_cons, List.length_cons, Nat.pow_succ]
    have : (acc * rdx + charDigit c) * rdx ^ cs.length
        = acc * (rdx ^ cs.length * rdx) + charDigit c * rdx ^ cs.length := by grind
    omega

/-! ### the chunk loop -/

/-- shape of the accumulator: one place, or normalised -/
def Shape (acc : List Nat) : Prop := (∃ x, acc = [x]) ∨ (acc ≠ [] ∧ Norm acc)

theorem Shape.short_or_norm {acc : List Nat} (h : Shape acc) : acc.length ≤ 2 ∨ Norm acc := by
  rcases h with ⟨x, rfl⟩ | ⟨_, h⟩
  · left; simp
  · right; exact h

theorem timesSLoop_norm {b : Nat} (hb : b < R) (hb1 : 1 ≤ b) : ∀ {as : List Nat} {c : Nat}, Digits as → c < R →
    as ≠ [] → Norm as → Norm (timesSLoop b as c) ∧ timesSLoop b as c ≠ [] := by
  intro as
  induction as with
  | nil => intro c _ _ h; exact absurd rfl h
  | cons a as ih =>
    intro c hd hc _ hn
    obtain ⟨e, l2, lk⟩ := timesStep_spec hd.head hb hc R_pos
    have eq : timesSLoop b (a :: as) c = (timesStep a b c 0).2 :: timesSLoop b as (timesStep a b c 0).1 := rfl
    rw [eq]
    refine ⟨?_, by simp⟩
    by_cases hne : as = []
    · subst hne
      have ha0 := (norm_single a).mp hn
      simp only [timesSLoop]
      split
      · exact norm_cons (by simp) ((norm_single _).mpr (by assumption))
      · rename_i hk0
        have hk0 : (timesStep a b c 0).1 = 0 := by omega
        rw [hk0] at e
        apply (norm_single _).mpr
        have : a ≤ a * b := Nat.le_mul_of_pos_right a hb1
        omega
    · obtain ⟨n1, n2⟩ := ih hd.tail lk hne (norm_tail hn hne)
      exact norm_cons n2 n1

theorem timesSLoop_shape {b : Nat} (hb : b < R) (hb1 : 1 ≤ b) {as : List Nat} {c : Nat} (hd : Digits as) (hc : c < R)
    (hs : Shape as) : Shape (timesSLoop b as c) := by
  rcases hs with ⟨x, rfl⟩ | ⟨hne, hn⟩
  · simp only [timesSLoop]
    split
    · right; exact ⟨by simp, norm_cons (by simp) ((norm_single _).mpr (by assumption))⟩
    · left; exact ⟨_, rfl⟩
  · right
    obtain ⟨n1, n2⟩ := timesSLoop_norm hb hb1 hd hc hne hn
    exact ⟨n2, n1⟩

theorem scanChunks_spec {rdx rio dio : Nat} (hdio : 1 ≤ dio) (hrio : rio = rdx ^ dio) (hrioR : rio < R)
    (hrio1 : 1 ≤ rio) :
    ∀ (fuel k : Nat) (cs : List Char) (acc : List Nat), cs.length = k * dio → k < fuel →
      (∀ c ∈ cs, ValidDigit rdx c) → Digits acc → Shape acc →
      natVal (scanChunks (rdx : Int) rio dio fuel cs acc) = natVal acc * rdx ^ cs.length + radVal rdx cs ∧
      Digits (scanChunks (rdx : Int) rio dio fuel cs acc) ∧ Shape (scanChunks (rdx : Int) rio dio fuel cs acc) := by
  have hR := R_eq
  intro fuel
  induction fuel with
  | zero => intro k cs acc _ h; omega
  | succ f ih =>
    intro k cs acc hlen hk hv hd hs
    simp only [scanChunks]
    by_cases hemp : cs.isEmpty = true
    · rw [if_pos hemp]
      have : cs = [] := List.isEmpty_iff.mp hemp
      subst this
      exact ⟨by simp [radVal], hd, hs⟩
    · rw [if_neg hemp]
      have hcsne : cs ≠ [] := fun h => hemp (List.isEmpty_iff.mpr h)
      have hk1 : 1 ≤ k := by
        rcases Nat.eq_zero_or_pos k with h | h
        · subst h; simp at hlen; exact absurd hlen hcsne
        · exact h
      have hge : dio ≤ cs.length := by
        rw [hlen]; exact Nat.le_mul_of_pos_left dio hk1
      have htl : (cs.take dio).length = dio := by rw [List.length_take]; omega
      have hdl : (cs.drop dio).length = (k - 1) * dio := by
        rw [List.length_drop, hlen, Nat.sub_mul, Nat.one_mul]
      have hvt : ∀ c ∈ cs.take dio, ValidDigit rdx c := fun c hc => hv c (List.mem_of_mem_take hc)
      have hvd : ∀ c ∈ cs.drop dio, ValidDigit rdx c := fun c hc => hv c (List.mem_of_mem_drop hc)
      have hnlt := radVal_lt hvt
      rw [htl, ← hrio] at hnlt
      have hcv := chunkVal_spec hvt (by rw [htl, ← hrio]; rw [hR] at hrioR; omega)
      rw [hcv]
      have hun : uw (radVal rdx (cs.take dio) : Int) % R = radVal rdx (cs.take dio) := by
        rw [uw_eq (by omega) (by rw [hR] at hrioR; omega)]
        simp only [Int.toNat_natCast]
        exact Nat.mod_eq_of_lt (by omega)
      rw [hun]
      have hit : iintTimesPlusS acc rio (radVal rdx (cs.take dio)) = timesSLoop rio acc (radVal rdx (cs.take dio)) := by
        unfold iintTimesPlusS; rw [if_neg (by omega)]
      rw [hit]
      obtain ⟨tv, td, _, _, _⟩ := timesSLoop_spec hrioR hd (by omega : radVal rdx (cs.take dio) < R)
      have tsh := timesSLoop_shape hrioR hrio1 hd (by omega : radVal rdx (cs.take dio) < R) hs
      obtain ⟨v, dg, sh⟩ := ih (k - 1) (cs.drop dio) _ hdl (by omega) hvd td tsh
      refine ⟨?_, dg, sh⟩
      rw [v, tv]
      have hsplit : radVal rdx cs = radVal rdx (cs.take dio) * rdx ^ (cs.drop dio).length + radVal rdx (cs.drop dio) := by
        conv => lhs; rw [← List.take_append_drop dio cs]
        exact radVal_append _ _ _
      have hpow : rdx ^ cs.length = rio * rdx ^ (cs.drop dio).length := by
        rw [hrio, ← Nat.pow_add]; congr 1; rw [List.length_drop]; omega
      rw [hsplit, hpow]
      generalize rdx ^ (cs.drop dio).length = P
      generalize radVal rdx (cs.take dio) = n
      generalize radVal rdx (cs.drop dio) = D
      have : (natVal acc * rio + n) * P = natVal acc * (rio * P) + n * P := by grind
      omega

/-- the chunk parameters computed by `bintRadixScanFrString` for a radix -/
def scanPar (rdx : Nat) : Nat × Nat :=
  let rd := powLoop true rdx (R / rdx) 64 rdx 1
  ((rd.1 * rdx) % W, rd.2 + 1)

theorem scanPar_spec : ∀ rdx, rdx < 37 → 2 ≤ rdx →
    (scanPar rdx).1 = rdx ^ (scanPar rdx).2 ∧ (scanPar rdx).1 < R ∧ 1 ≤ (scanPar rdx).2 := by
  decide

theorem wrapL_uw_neg {V : Nat} (h : V < 9223372036854775808) : wrapL (uw (-(V : Int))) = -(V : Int) := by
  unfold uw wrapL
  rw [W_eq, Int.bmod_def]
  split <;> omega

/-- the conversion proper: every well formed digit string of the radix is read exactly, to the normal form -/
theorem radixScanCore_spec {rdx : Nat} (h2 : 2 ≤ rdx) (h36 : rdx ≤ 36) {num : List Char}
    (hv : ∀ c ∈ num, ValidDigit rdx c) (isNeg : Bool) :
    (radixScanCore isNeg (rdx : Int) num).1.val = (if isNeg then -(radVal rdx num : Int) else (radVal rdx num : Int)) ∧
    WF (radixScanCore isNeg (rdx : Int) num).1 := by
  have hR := R_eq
  have hW := W_eq
  have hp := scanPar_spec rdx (by omega) h2
  unfold scanPar at hp
  simp only at hp
  unfold radixScanCore
  simp only [Int.toNat_natCast]
  generalize powLoop true rdx (R / rdx) 64 rdx 1 = rd at *
  obtain ⟨hrio, hrioR, hdio⟩ := hp
  generalize hriodef : (rd.1 * rdx) % W = rio at *
  generalize hdiodef : rd.2 + 1 = dio at *
  have hlt := radVal_lt hv
  by_cases hsmall : num.length * (Nat.log2 rdx + 1) ≤ LGIMM
  · rw [if_pos hsmall]
    simp only
    -- the value fits 62 bits
    have hb : radVal rdx num < 2 ^ 62 := by
      have h1 : rdx ≤ 2 ^ (Nat.log2 rdx + 1) := Nat.le_of_lt Nat.lt_log2_self
      have h3 : rdx ^ num.length ≤ (2 ^ (Nat.log2 rdx + 1)) ^ num.length := Nat.pow_le_pow_left h1 _
      rw [← Nat.pow_mul, Nat.mul_comm] at h3
      have h4 : (2:Nat) ^ (num.length * (Nat.log2 rdx + 1)) ≤ 2 ^ 62 := Nat.pow_le_pow_right (by omega) hsmall
      omega
    have e62 : (2:Nat) ^ 62 = 4611686018427387904 := by decide
    rw [strtolDigits_spec num 0 hv, Nat.zero_mul, Nat.zero_add, Nat.mod_eq_of_lt (by rw [hW]; omega)]
    cases isNeg
    · simp only [Bool.false_eq_true, if_false]
      rw [wrapL_eq (by omega) (by omega), intToBInt_eq (by omega) (by omega)]
      exact ⟨rfl, WF_imm_of (by omega) (by omega)⟩
    · simp only [if_true]
      rw [wrapL_uw_neg (by omega), intToBInt_eq (by omega) (by omega)]
      exact ⟨rfl, WF_imm_of (by omega) (by omega)⟩
  · rw [if_neg hsmall]
    simp only
    have hrio1 : 1 ≤ rio := by rw [hrio]; exact Nat.pow_pos (by omega)
    -- the leading chunk
    have hl0 : num.length % dio < dio := Nat.mod_lt _ (by omega)
    have hvt : ∀ c ∈ num.take (num.length % dio), ValidDigit rdx c := fun c hc => hv c (List.mem_of_mem_take hc)
    have hvd : ∀ c ∈ num.drop (num.length % dio), ValidDigit rdx c := fun c hc => hv c (List.mem_of_mem_drop hc)
    have htl : (num.take (num.length % dio)).length = num.length % dio := by
      rw [List.length_take]; have := Nat.mod_le num.length dio; omega
    have hn0 := radVal_lt hvt
    rw [htl] at hn0
    have hpl : rdx ^ (num.length % dio) ≤ rio := by
      rw [hrio]; exact Nat.pow_le_pow_right (by omega) (Nat.le_of_lt hl0)
    have hcv := chunkVal_spec hvt (by rw [htl]; rw [hR] at hrioR; omega)
    rw [hcv]
    have hfirst : xintCopyInI (radVal rdx (num.take (num.length % dio)) : Int)
        = .big false [radVal rdx (num.take (num.length % dio))] := by
      unfold xintCopyInI
      rw [absL_eq (by omega) (by rw [hR] at hrioR; omega)]
      simp only [Int.natAbs_natCast]
      rw [if_pos (by omega)]
      have : ¬ ((radVal rdx (num.take (num.length % dio)) : Int) < 0) := by omega
      simp [this]
    rw [hfirst]
    simp only [digitsOf]
    have hdl : (num.drop (num.length % dio)).length = (num.length / dio) * dio := by
      rw [List.length_drop]
      have := Nat.div_add_mod num.length dio
      rw [Nat.mul_comm] at this; omega
    have hkf : num.length / dio < num.length + 1 := by
      have := Nat.div_le_self num.length dio; omega
    obtain ⟨v, dg, sh⟩ := scanChunks_spec hdio hrio hrioR hrio1 (num.length + 1) (num.length / dio)
      (num.drop (num.length % dio)) [radVal rdx (num.take (num.length % dio))] hdl hkf hvd
      (Digits.cons (by omega) Digits.nil) (Or.inl ⟨_, rfl⟩)
    obtain ⟨e, w⟩ := immedIfCan_spec isNeg dg sh.short_or_norm
    refine ⟨?_, w⟩
    rw [e, val_big, v]
    have hsplit : radVal rdx num = radVal rdx (num.take (num.length % dio)) * rdx ^ (num.drop (num.length % dio)).length
        + radVal rdx (num.drop (num.length % dio)) := by
      conv => lhs; rw [← List.take_append_drop (num.length % dio) num]
      exact radVal_append _ _ _
    rw [hsplit]
    simp

theorem scanCore_par : (powLoop false 10 MAXI.toNat 64 10 1).2 = 18 ∧ powLoop false 10 R 64 10 1 = (1000000000, 9) := by
  decide

/-- the conversion proper of `bintScanFrString`: every string of decimal digits is read exactly -/
theorem scanCore_spec {digs : List Char} (hv : ∀ c ∈ digs, ValidDigit 10 c) (isNeg : Bool) :
    (scanCore isNeg digs).1.val = (if isNeg then -(radVal 10 digs : Int) else (radVal 10 digs : Int)) ∧
    WF (scanCore isNeg digs).1 := by
  have hR := R_eq
  have hlt := radVal_lt hv
  unfold scanCore
  simp only [scanCore_par.1, scanCore_par.2]
  by_cases hsmall : digs.length ≤ 18
  · rw [if_pos hsmall]
    simp only
    have hp : 10 ^ digs.length ≤ 10 ^ 18 := Nat.pow_le_pow_right (by omega) hsmall
    have e18 : (10:Nat) ^ 18 = 1000000000000000000 := by decide
    have hcv : chunkVal (10 : Int) digs = (radVal 10 digs : Int) := chunkVal_spec (rdx := 10) hv (by omega)
    rw [hcv]
    cases isNeg
    · simp only [Bool.false_eq_true, if_false]
      rw [intToBInt_eq (by omega) (by omega)]
      exact ⟨rfl, WF_imm_of (by omega) (by omega)⟩
    · simp only [if_true]
      rw [wrapL_eq (by omega) (by omega), intToBInt_eq (by omega) (by omega)]
      exact ⟨rfl, WF_imm_of (by omega) (by omega)⟩
  · rw [if_neg hsmall]
    simp only
    have hl0 : digs.length % 9 < 9 := Nat.mod_lt _ (by omega)
    have hvt : ∀ c ∈ digs.take (digs.length % 9), ValidDigit 10 c := fun c hc => hv c (List.mem_of_mem_take hc)
    have hvd : ∀ c ∈ digs.drop (digs.length % 9), ValidDigit 10 c := fun c hc => hv c (List.mem_of_mem_drop hc)
    have htl : (digs.take (digs.length % 9)).length = digs.length % 9 := by
      rw [List.length_take]; have := Nat.mod_le digs.length 9; omega
    have hn0 := radVal_lt hvt
    rw [htl] at hn0
    have hpl : 10 ^ (digs.length % 9) ≤ 10 ^ 9 := Nat.pow_le_pow_right (by omega) (Nat.le_of_lt hl0)
    have e9 : (10:Nat) ^ 9 = 1000000000 := by decide
    have hcv : chunkVal (10 : Int) (digs.take (digs.length % 9)) = (radVal 10 (digs.take (digs.length % 9)) : Int) :=
      chunkVal_spec (rdx := 10) hvt (by rw [htl]; omega)
    rw [hcv]
    have hfirst : xintCopyInI (radVal 10 (digs.take (digs.length % 9)) : Int)
        = .big false [radVal 10 (digs.take (digs.length % 9))] := by
      unfold xintCopyInI
      rw [absL_eq (by omega) (by omega)]
      simp only [Int.natAbs_natCast]
      rw [if_pos (by omega)]
      have : ¬ ((radVal 10 (digs.take (digs.length % 9)) : Int) < 0) := by omega
      simp [this]
    rw [hfirst]
    simp only [digitsOf]
    have hdl : (digs.drop (digs.length % 9)).length = (digs.length / 9) * 9 := by
      rw [List.length_drop]; omega
    obtain ⟨v, dg, sh⟩ := scanChunks_spec (rdx := 10) (rio := 1000000000) (dio := 9) (by omega) (by decide)
      (by omega) (by omega) (digs.length + 1) (digs.length / 9)
      (digs.drop (digs.length % 9)) [radVal 10 (digs.take (digs.length % 9))] hdl (by omega) hvd
      (Digits.cons (by omega) Digits.nil) (Or.inl ⟨_, rfl⟩)
    have c10 : ((10 : Nat) : Int) = (10 : Int) := rfl
    rw [c10] at v dg sh
    obtain ⟨e, w⟩ := immedIfCan_spec isNeg dg sh.short_or_norm
    refine ⟨?_, w⟩
    rw [e, val_big, v]
    have hsplit : radVal 10 digs = radVal 10 (digs.take (digs.length % 9)) * 10 ^ (digs.drop (digs.length % 9)).length
        + radVal 10 (digs.drop (digs.length % 9)) := by
      conv => lhs; rw [← List.take_append_drop (digs.length % 9) digs]
      exact radVal_append _ _ _
    rw [hsplit]
    simp

/-! ### reading back the decimal text -/

theorem natVal_inj_norm {da db : List Nat} (hda : Digits da) (hdb : Digits db) (hna : Norm da) (hnb : Norm db)
    (h : natVal da = natVal db) : da = db := by
  by_cases hl : da.length = db.length
  · exact natVal_inj_of_length hl hda hdb h
  · by_cases h2 : da.length < db.length
    · have := natVal_lt_of_length_lt h2 hda hnb; omega
    · have := natVal_lt_of_length_lt (a := db) (b := da) (by omega) hdb hna; omega

/-- a value has one normal form -/
theorem WF_unique {a b : BInt} (ha : WF a) (hb : WF b) (h : a.val = b.val) : a = b := by
  have hM := MAXI_eq
  have hm := MINI_eq
  cases a with
  | imm x =>
    obtain ⟨x1, x2⟩ := WF_imm.mp ha
    cases b with
    | imm y => simp only [val_imm] at h; rw [h]
    | big nb db =>
      obtain ⟨_, _, hv⟩ := WF_big.mp hb
      exfalso; cases nb <;> simp at h <;> omega
  | big na da =>
    obtain ⟨hda, hna, hva⟩ := WF_big.mp ha
    cases b with
    | imm y =>
      obtain ⟨y1, y2⟩ := WF_imm.mp hb
      exfalso; cases na <;> simp at h <;> omega
    | big nb db =>
      obtain ⟨hdb, hnb, hvb⟩ := WF_big.mp hb
      cases na <;> cases nb <;> simp at h
      · rw [natVal_inj_norm hda hdb hna hnb (by omega)]
      · omega
      · omega
      · rw [natVal_inj_norm hda hdb hna hnb (by omega)]

theorem takeWhile_all {p : Char → Bool} : ∀ {l : List Char}, (∀ c ∈ l, p c = true) → l.takeWhile p = l := by
  intro l
  induction l with
  | nil => intro _; rfl
  | cons c l ih =>
    intro h
    rw [List.takeWhile_cons, if_pos (h c (List.mem_cons_self ..)), ih (fun x hx => h x (List.mem_cons_of_mem _ hx))]

theorem isSpaceC_small {c : Char} (h : isSpaceC c = true) : c.toNat ≤ 32 := by
  unfold isSpaceC at h
  simp only [Bool.or_eq_true, decide_eq_true_eq] at h
  rcases h with ((((h | h) | h) | h) | h) | h <;> subst h <;> decide

theorem digit_char_facts {c : Char} (h : c.isDigit = true) :
    isDigitC c = true ∧ ValidDigit 10 c ∧ charDigit c = c.toNat - '0'.toNat ∧ isSpaceC c = false ∧ c ≠ '+' ∧ c ≠ '-' := by
  have hd : isDigitC c = true := h
  have hr := (isDigitC_iff c).mp hd
  refine ⟨hd, ⟨Or.inl hd, ?_⟩, ?_, ?_, ?_, ?_⟩
  · unfold charDigit; rw [if_pos hr.2]; omega
  · unfold charDigit; rw [if_pos hr.2]; rfl
  · cases hs : isSpaceC c with
    | false => rfl
    | true => have := isSpaceC_small hs; omega
  · intro h0; subst h0; revert hr; decide
  · intro h0; subst h0; revert hr; decide

theorem radVal_ten_eq (D : List Char) (hD : ∀ c ∈ D, c.isDigit = true) : ∀ n,
    D.foldl (fun n c => 10 * n + charDigit c) n = Nat.ofDigitChars 10 D n := by
  induction D with
  | nil => intro n; rfl
  | cons c D ih =>
    intro n
    have hc := (digit_char_facts (hD c (List.mem_cons_self ..))).2.2.1
    simp only [List.foldl_cons, Nat.ofDigitChars]
    rw [hc]
    exact ih (fun x hx => hD x (List.mem_cons_of_mem _ hx)) _

theorem scanSignPM_digit {c : Char} {r : List Char} (h1 : c ≠ '+') (h2 : c ≠ '-') :
    scanSignPM (c :: r) = (false, c :: r) := by
  unfold scanSignPM
  split
  · rename_i heq; simp only [List.cons.injEq] at heq; exact absurd heq.1 h1
  · rename_i heq; simp only [List.cons.injEq] at heq; exact absurd heq.1 h2
  · rfl

/-- `bintFrString (bintToString a) = a`: the decimal text reads back to the same normal form. -/
theorem frString_toString_spec {a : BInt} (ha : WF a) : bintFrString (bintToString a) = a := by
  have hdig : ∀ c ∈ Nat.toDigits 10 a.val.natAbs, c.isDigit = true :=
    fun c hc => Nat.isDigit_of_mem_toDigits (by omega) (by omega) hc
  have hne : Nat.toDigits 10 a.val.natAbs ≠ [] := Nat.toDigits_ne_nil
  generalize hD : Nat.toDigits 10 a.val.natAbs = D at *
  have hvalid : ∀ c ∈ D, ValidDigit 10 c := fun c hc => (digit_char_facts (hdig c hc)).2.1
  have hallD : ∀ c ∈ D, isDigitC c = true := fun c hc => (digit_char_facts (hdig c hc)).1
  have hrad : radVal 10 D = a.val.natAbs := by
    unfold radVal
    rw [radVal_ten_eq D hdig 0, ← hD]
    exact Nat.ofDigitChars_ten_toDigits
  -- what the lexer sees
  have hlex : ∀ (isNeg : Bool) (s : List Char), s.dropWhile isSpaceC = s → scanSignPM s = (isNeg, D) →
      bintFrString s = (radixScanCore isNeg 10 D).1 := by
    intro isNeg s h1 h2
    unfold bintFrString bintRadixScan
    simp only [h1, h2, takeWhile_all hallD, List.drop_length, List.head?_nil]
    have : ¬ (none = some 'r') := by simp
    simp [this]
  have hcore : ∀ isNeg : Bool, (radixScanCore isNeg (10 : Int) D).1.val =
      (if isNeg then -(radVal 10 D : Int) else (radVal 10 D : Int)) ∧ WF (radixScanCore isNeg (10 : Int) D).1 :=
    fun isNeg => radixScanCore_spec (rdx := 10) (by omega) (by omega) hvalid isNeg
  rw [bintToString_spec ha, hD]
  obtain ⟨d, rest, hDc⟩ : ∃ d rest, D = d :: rest := by
    cases D with
    | nil => exact absurd rfl hne
    | cons d rest => exact ⟨d, rest, rfl⟩
  have hdf := digit_char_facts (hdig d (by rw [hDc]; exact List.mem_cons_self ..))
  by_cases hneg : a.val < 0
  · rw [if_pos hneg]
    have h1 : (['-'] ++ D).dropWhile isSpaceC = ['-'] ++ D := by
      simp [List.dropWhile_cons, isSpaceC]
    have h2 : scanSignPM (['-'] ++ D) = (true, D) := rfl
    rw [hlex true _ h1 h2]
    obtain ⟨v, w⟩ := hcore true
    apply WF_unique w ha
    rw [v, hrad]; simp; omega
  · rw [if_neg hneg]
    have h1 : ([] ++ D).dropWhile isSpaceC = [] ++ D := by
      rw [List.nil_append, hDc, List.dropWhile_cons, hdf.2.2.2.1]; simp
    have h2 : scanSignPM ([] ++ D) = (false, D) := by
      rw [List.nil_append, hDc]; exact scanSignPM_digit hdf.2.2.2.2.1 hdf.2.2.2.2.2
    rw [hlex false _ h1 h2]
    obtain ⟨v, w⟩ := hcore false
    apply WF_unique w ha
    rw [v, hrad]; simp; omega

end AldorVerif.BigInt
