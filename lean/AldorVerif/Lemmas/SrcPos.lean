import AldorVerif.Model.SrcPos
/-! helper lemmas for the `srcpos` part (C15): bit fields of the packed position, the search in
the global line table, the invariant of the includer's run.  Core Lean only. -/
namespace AldorVerif.SrcPos

/-! ## bit fields -/
theorem or_eq_add_of_low (a b i : Nat) (hb : b < 2 ^ i) (ha : a % 2 ^ i = 0) : a ||| b = a + b := by
  have h : a = (a / 2 ^ i) <<< i := by
    rw [Nat.shiftLeft_eq]; have := Nat.div_add_mod a (2^i); rw [ha] at this; rw [Nat.mul_comm]; omega
  rw [h, ← Nat.shiftLeft_add_eq_or_of_lt hb]

theorem lnoMask_val : SPOS_LNO_MASK.toNat = (2 ^ 48 - 1) <<< 15 := by decide
theorem cnoMask_val : SPOS_CNO_MASK.toNat = (2 ^ 14 - 1) <<< 1 := by decide
theorem macMask_val : SPOS_MAC_MASK.toNat = 1 := by decide

theorem and_shl_mask_shr (x n s : Nat) : (x &&& ((2 ^ n - 1) <<< s)) >>> s = x / 2 ^ s % 2 ^ n := by
  rw [Nat.shiftRight_and_distrib, Nat.shiftLeft_shiftRight, Nat.and_two_pow_sub_one_eq_mod, Nat.shiftRight_eq_div_pow]

theorem sposGlobalLine_toNat (p : SrcPos) : (sposGlobalLine p).toNat = p.toNat / 2 ^ 15 % 2 ^ 48 := by
  unfold sposGlobalLine
  rw [BitVec.toNat_ushiftRight, BitVec.toNat_and, lnoMask_val]
  exact and_shl_mask_shr _ 48 15

theorem sposChar_toNat (p : SrcPos) : (sposChar p).toNat = p.toNat / 2 % 2 ^ 14 := by
  unfold sposChar
  rw [BitVec.toNat_ushiftRight, BitVec.toNat_and, cnoMask_val]
  exact and_shl_mask_shr _ 14 1

theorem sposSet_toNat (l c : BitVec 64) (hl : l.toNat < 2 ^ 48) (hc : c.toNat < 2 ^ 14) :
    (sposSet l c).toNat = l.toNat * 2 ^ 15 + c.toNat * 2 := by
  unfold sposSet
  rw [BitVec.toNat_or, BitVec.toNat_shiftLeft, BitVec.toNat_shiftLeft]
  have h1 : l.toNat <<< SPOS_LNO_SHIFT % 2 ^ 64 = l.toNat * 2 ^ 15 := by
    show l.toNat <<< 15 % 2 ^ 64 = _; omega
  have h2 : c.toNat <<< SPOS_CNO_SHIFT % 2 ^ 64 = c.toNat * 2 := by
    show c.toNat <<< 1 % 2 ^ 64 = _; omega
  rw [h1, h2]
  exact or_eq_add_of_low _ _ 15 (by omega) (by omega)

/-- `sposOffset` adds on the word shifted right by one, modulo 2^63, and keeps the flag bit. -/
theorem sposOffset_toNat (p : SrcPos) (d : Int) :
    (sposOffset p d).toNat = (((p.toNat / 2 : Nat) + d) % 2 ^ 63).toNat * 2 + p.toNat % 2 := by
  unfold sposOffset
  rw [BitVec.toNat_or, BitVec.toNat_shiftLeft, BitVec.toNat_and, macMask_val, BitVec.toNat_add,
    BitVec.toNat_ushiftRight, BitVec.toNat_ofInt]
  have hm : p.toNat &&& 1 = p.toNat % 2 := Nat.and_two_pow_sub_one_eq_mod _ 1
  rw [hm]
  show ((p.toNat >>> 1 + (d % ↑(2 ^ 64 : Nat)).toNat) % 2 ^ 64) <<< 1 % 2 ^ 64 ||| p.toNat % 2 = _
  rw [or_eq_add_of_low _ _ 1 (by omega) (by omega)]
  omega


theorem mask_bit (n i : Nat) : (BitVec.ofNat 64 (2 ^ n - 1)).getLsbD i = (decide (i < 64) && decide (i < n)) := by
  rw [BitVec.getLsbD_ofNat, Nat.testBit_two_pow_sub_one]

theorem sposGlobalLine_lit (p : SrcPos) : sposGlobalLine p = (p &&& (BitVec.ofNat 64 (2 ^ 48 - 1) <<< 15)) >>> 15 := by
  have : SPOS_LNO_MASK = BitVec.ofNat 64 (2 ^ 48 - 1) <<< 15 := by decide
  rw [sposGlobalLine, this]; rfl
theorem sposChar_lit (p : SrcPos) : sposChar p = (p &&& (BitVec.ofNat 64 (2 ^ 14 - 1) <<< 1)) >>> 1 := by
  have : SPOS_CNO_MASK = BitVec.ofNat 64 (2 ^ 14 - 1) <<< 1 := by decide
  rw [sposChar, this]; rfl
theorem sposSet_lit (l c : BitVec 64) : sposSet l c = l <<< 15 ||| c <<< 1 := rfl

theorem sposSet_or (l c : BitVec 64) :
    sposGlobalLine (sposSet l c) = (l ||| (c >>> 14)) &&& (BitVec.ofNat 64 (2 ^ 48 - 1))
    ∧ sposChar (sposSet l c) = c &&& (BitVec.ofNat 64 (2 ^ 14 - 1)) := by
  constructor
  · ext i hi
    rw [sposGlobalLine_lit, sposSet_lit]
    simp only [BitVec.getLsbD_and, BitVec.getLsbD_or, BitVec.getLsbD_ushiftRight,
      BitVec.getLsbD_shiftLeft, mask_bit, ← BitVec.getLsbD_eq_getElem]
    have e1 : 15 + i - 15 = i := by omega
    have e2 : 15 + i - 1 = 14 + i := by omega
    rw [e1, e2]
    by_cases h : i < 48
    · have h2 : 15 + i < 64 := by omega
      have h3 : ¬ 15 + i < 15 := by omega
      have h4 : ¬ 15 + i < 1 := by omega
      simp [h, hi, h2, h3, h4]
    · simp [h]
  · ext i hi
    rw [sposChar_lit, sposSet_lit]
    simp only [BitVec.getLsbD_and, BitVec.getLsbD_or, BitVec.getLsbD_ushiftRight,
      BitVec.getLsbD_shiftLeft, mask_bit, ← BitVec.getLsbD_eq_getElem]
    have e3 : 1 + i - 1 = i := by omega
    rw [e3]
    by_cases h : i < 14
    · have h2 : 1 + i < 64 := by omega
      have h3 : 1 + i < 15 := by omega
      have h4 : ¬ 1 + i < 1 := by omega
      simp [h, hi, h2, h3, h4]
    · simp [h]

/-! ## table search -/
theorem toNat_ofInt_nonneg (x : Int) (h0 : 0 ≤ x) (h1 : x < 2 ^ 64) : (BitVec.ofInt 64 x).toNat = x.toNat := by
  rw [BitVec.toNat_ofInt]; omega

theorem intOfLength_small (x : Length) (h : x.toNat < 2 ^ 31) : intOfLength x = x := by
  unfold intOfLength
  have hm : (BitVec.setWidth 32 x).msb = false := by
    rw [BitVec.msb_eq_decide]; simp [BitVec.toNat_setWidth]; omega
  rw [BitVec.signExtend_eq_setWidth_of_msb_false hm]
  apply BitVec.eq_of_toNat_eq
  simp [BitVec.toNat_setWidth]; omega

theorem findEntry_all_le (t : List GLine) (g : Length) (h : ∀ x ∈ t, x.glno ≤ g) :
    findEntry t g = t.getLast? := by
  induction t with
  | nil => rfl
  | cons x r ih =>
    cases r with
    | nil => rfl
    | cons y r' =>
      have hy : y.glno ≤ g := h y (by simp)
      have : ¬ g < y.glno := by simp only [BitVec.lt_def, BitVec.le_def] at *; omega
      simp only [findEntry, this, decide_false, Bool.and_false, Bool.false_eq_true, ↓reduceIte]
      rw [ih (fun z hz => h z (List.mem_cons_of_mem _ hz))]
      simp [List.getLast?_cons_cons]

theorem findEntry_append_lt (t : List GLine) (e : GLine) (g : Length) (hne : t ≠ [])
    (hh : ∀ x ∈ t.head?, x.glno ≤ g) (hg : g < e.glno) : findEntry (t ++ [e]) g = findEntry t g := by
  induction t with
  | nil => exact absurd rfl hne
  | cons x r ih =>
    have hx : x.glno ≤ g := hh x (by simp)
    cases r with
    | nil => simp [findEntry, hx, hg]
    | cons y r' =>
      simp only [List.cons_append, findEntry]
      by_cases c : (x.glno ≤ g && g < y.glno) = true
      · simp [c]
      · simp only [c, Bool.false_eq_true, ↓reduceIte]
        have hy : y.glno ≤ g := by
          simp only [Bool.and_eq_true, decide_eq_true_eq, not_and] at c
          have := c hx
          simp only [BitVec.lt_def, BitVec.le_def] at *; omega
        have := ih (by simp) (by intro z hz; simp at hz; subst hz; exact hy)
        simpa using this

/-! ## invariant of the includer run -/
def MarkOK (t : Table) (serial : Int) (m : Mark) : Prop :=
  ∃ (σ : Int) (e : GLine), 1 ≤ σ ∧ σ ≤ serial ∧ m.pos = sposSet (BitVec.ofInt 64 σ) 1 ∧
    (∀ x ∈ t.head?, x.glno ≤ BitVec.ofInt 64 σ) ∧
    findEntry t (BitVec.ofInt 64 σ) = some e ∧ e.fn = m.file ∧
    (BitVec.ofInt 64 σ - e.glno) + e.flno = BitVec.ofInt 64 m.line

structure Inv (s : Incl) : Prop where
  ser0 : 0 ≤ s.serial
  ser1 : s.serial < 2 ^ 31
  tbl : ∀ e ∈ s.table, (e.glno.toNat : Int) ≤ s.serial
  marks : ∀ m ∈ s.marks, MarkOK s.table s.serial m

theorem head?_append_ne_nil {α} (t : List α) (e : α) (h : t ≠ []) : (t ++ [e]).head? = t.head? := by
  cases t with
  | nil => exact absurd rfl h
  | cons a r => rfl

theorem findEntry_some_ne_nil {t : List GLine} {g e} (h : findEntry t g = some e) : t ≠ [] := by
  intro h0; subst h0; simp [findEntry] at h

theorem markOK_mono {t serial serial' m} (h : MarkOK t serial m) (hs : serial ≤ serial') : MarkOK t serial' m := by
  obtain ⟨σ, e, h1, h2, h3⟩ := h
  exact ⟨σ, e, h1, by omega, h3⟩

theorem markOK_append {t : Table} {serial : Int} {m} (e : GLine) (h : MarkOK t serial m)
    (h0 : 0 ≤ serial) (h1 : serial < 2 ^ 31) (he : e.glno = BitVec.ofInt 64 (serial + 1)) :
    MarkOK (t ++ [e]) (serial + 1) m := by
  obtain ⟨σ, e0, a1, a2, a3, a4, a5, a6⟩ := h
  have hne := findEntry_some_ne_nil a5
  refine ⟨σ, e0, a1, by omega, a3, ?_, ?_, a6⟩
  · rw [head?_append_ne_nil _ _ hne]; exact a4
  · rw [findEntry_append_lt t e _ hne a4]
    · exact a5
    · rw [he, BitVec.lt_def, toNat_ofInt_nonneg _ (by omega) (by omega), toNat_ofInt_nonneg _ (by omega) (by omega)]
      omega

theorem mkLine_inv (s : Incl) (cur : FState) (rest : List FState) (hs : Inv s)
    (hst : (mkLine s cur rest).stale = false) (hb : (mkLine s cur rest).serial < 2 ^ 31) :
    Inv (mkLine s cur rest) := by
  have hb' : s.serial + 1 < 2 ^ 31 := hb
  have h0 := hs.ser0
  have gnat : (BitVec.ofInt 64 (s.serial + 1)).toNat = (s.serial + 1).toNat :=
    toNat_ofInt_nonneg _ (by omega) (by omega)
  have allle : ∀ x ∈ s.table, x.glno ≤ BitVec.ofInt 64 (s.serial + 1) := by
    intro x hx; have := hs.tbl x hx; rw [BitVec.le_def, gnat]; omega
  by_cases hg : sposNewGrows s.table cur.curFname (BitVec.ofInt 64 (s.serial + 1)) = true
  · -- an entry is added
    have htab : (mkLine s cur rest).table = s.table ++ [⟨BitVec.ofInt 64 (s.serial + 1), cur.curFname, BitVec.ofInt 64 (cur.lineNumber + 1)⟩] := by
      simp [mkLine, sposNew, hg, sposGrow]
    refine ⟨by show 0 ≤ s.serial + 1; omega, hb, ?_, ?_⟩
    · intro e he; rw [htab] at he
      show (e.glno.toNat : Int) ≤ s.serial + 1
      rcases List.mem_append.mp he with h | h
      · have := hs.tbl e h; omega
      · simp at h; subst h; simp only; rw [gnat]; omega
    · intro m hm
      rw [htab]
      show MarkOK _ (s.serial + 1) m
      have hm' : m = ⟨sposSet (BitVec.ofInt 64 (s.serial + 1)) 1, cur.curFname, cur.lineNumber + 1⟩ ∨ m ∈ s.marks := by
        simpa [mkLine, sposNew] using hm
      rcases hm' with h | h
      · subst h
        refine ⟨s.serial + 1, ⟨BitVec.ofInt 64 (s.serial + 1), cur.curFname, BitVec.ofInt 64 (cur.lineNumber + 1)⟩,
          by omega, by omega, rfl, ?_, ?_, rfl, by simp⟩
        · intro x hx
          cases ht : s.table with
          | nil => rw [ht] at hx; simp at hx; subst hx; exact BitVec.le_refl _
          | cons y r => rw [ht] at hx; simp at hx; subst hx; exact allle _ (by rw [ht]; simp)
        · rw [findEntry_all_le]
          · simp
          · intro x hx; rcases List.mem_append.mp hx with h | h
            · exact allle x h
            · simp at h; subst h; exact BitVec.le_refl _
      · exact markOK_append _ (hs.marks m h) h0 (by omega) rfl
  · -- no entry added: the last entry must map the line
    have htab : (mkLine s cur rest).table = s.table := by simp [mkLine, sposNew, hg]
    refine ⟨by show 0 ≤ s.serial + 1; omega, hb, ?_, ?_⟩
    · intro e he; rw [htab] at he; have := hs.tbl e he; show (e.glno.toNat : Int) ≤ s.serial + 1; omega
    · intro m hm
      rw [htab]
      show MarkOK _ (s.serial + 1) m
      have hm' : m = ⟨sposSet (BitVec.ofInt 64 (s.serial + 1)) 1, cur.curFname, cur.lineNumber + 1⟩ ∨ m ∈ s.marks := by
        simpa [mkLine, sposNew] using hm
      rcases hm' with h | h
      · subst h
        cases hl : s.table.getLast? with
        | none => simp [sposNewGrows, hl] at hg
        | some last =>
          have hst' : sposNewStale s.table cur.curFname (BitVec.ofInt 64 (cur.lineNumber + 1)) (BitVec.ofInt 64 (s.serial + 1)) = false := by
            have : (s.stale || sposNewStale s.table cur.curFname (BitVec.ofInt 64 (cur.lineNumber + 1)) (BitVec.ofInt 64 (s.serial + 1))) = false := hst
            exact (Bool.or_eq_false_iff.mp this).2
          simp only [sposNewGrows, hl, Bool.not_eq_true] at hg
          simp only [sposNewStale, hl, hg, Bool.not_false, Bool.true_and, bne_eq_false_iff_eq] at hst'
          have hfn : cur.curFname = last.fn := by
            have := (Bool.or_eq_false_iff.mp hg).2; simpa using this
          have hne : s.table ≠ [] := by intro h0; rw [h0] at hl; simp at hl
          refine ⟨s.serial + 1, last, by omega, by omega, rfl, ?_, ?_, hfn.symm, hst'⟩
          · intro x hx
            cases ht : s.table with
            | nil => exact absurd ht hne
            | cons y r => rw [ht] at hx; simp at hx; subst hx; exact allle _ (by rw [ht]; simp)
          · rw [findEntry_all_le _ _ allle]; exact hl
      · exact markOK_mono (hs.marks m h) (by omega)


theorem step_inv (s : Incl) (e : Ev) (hs : Inv s) (hst : (step s e).stale = false)
    (hb : (step s e).serial < 2 ^ 31) : Inv (step s e) := by
  unfold step at hst hb ⊢
  cases hstk : s.stack with
  | nil => simp only [hstk] at hst hb ⊢; exact hs
  | cons cur rest =>
    simp only [hstk] at hst hb ⊢
    cases e with
    | line => exact mkLine_inv s cur rest hs hst hb
    | skip =>
      have hb' : s.serial + 1 < 2 ^ 31 := hb
      have h0 := hs.ser0
      exact ⟨by show 0 ≤ s.serial + 1; omega, hb, fun e he => by have := hs.tbl e he; show _ ≤ s.serial + 1; omega,
        fun m hm => markOK_mono (hs.marks m hm) (by show s.serial ≤ s.serial + 1; omega)⟩
    | hashLine n f =>
      have hb' : s.serial + 1 < 2 ^ 31 := hb
      have h0 := hs.ser0
      refine ⟨by show 0 ≤ s.serial + 1; omega, hb, ?_, ?_⟩
      · intro e he
        show (e.glno.toNat : Int) ≤ s.serial + 1
        have he' : e ∈ s.table ++ [_] := he
        rcases List.mem_append.mp he' with h | h
        · have := hs.tbl e h; omega
        · simp at h; subst h; simp only; rw [toNat_ofInt_nonneg _ (by omega) (by omega)]; omega
      · intro m hm
        exact markOK_append _ (hs.marks m hm) h0 (by omega) rfl
    | incl f =>
      have := mkLine_inv s cur rest hs hst hb
      exact ⟨this.ser0, this.ser1, this.tbl, this.marks⟩
    | close => exact ⟨hs.ser0, hs.ser1, hs.tbl, hs.marks⟩

theorem serial_le_step (s : Incl) (e : Ev) : s.serial ≤ (step s e).serial := by
  unfold step
  cases s.stack with
  | nil => simp
  | cons cur rest => cases e <;> simp [mkLine] <;> omega

theorem stale_step (s : Incl) (e : Ev) (h : s.stale = true) : (step s e).stale = true := by
  unfold step
  cases s.stack with
  | nil => simpa using h
  | cons cur rest => cases e <;> simp [mkLine, h]

theorem run_cons (s : Incl) (e : Ev) (evs : List Ev) : run s (e :: evs) = run (step s e) evs := rfl
theorem run_append (s : Incl) (a b : List Ev) : run s (a ++ b) = run (run s a) b := by
  simp [run, List.foldl_append]

theorem serial_le_run (evs : List Ev) (s : Incl) : s.serial ≤ (run s evs).serial := by
  induction evs generalizing s with
  | nil => exact Int.le_refl _
  | cons e r ih => rw [run_cons]; exact Int.le_trans (serial_le_step s e) (ih _)

theorem stale_run (evs : List Ev) (s : Incl) (h : s.stale = true) : (run s evs).stale = true := by
  induction evs generalizing s with
  | nil => exact h
  | cons e r ih => rw [run_cons]; exact ih _ (stale_step s e h)

theorem run_inv (evs : List Ev) (s : Incl) (hs : Inv s) (hst : (run s evs).stale = false)
    (hb : (run s evs).serial < 2 ^ 31) : Inv (run s evs) := by
  induction evs generalizing s with
  | nil => exact hs
  | cons e r ih =>
    rw [run_cons] at hst hb ⊢
    apply ih _ _ hst hb
    apply step_inv s e hs
    · cases h : (step s e).stale with
      | false => rfl
      | true => rw [stale_run r _ h] at hst; exact absurd hst (by simp)
    · exact Int.lt_of_le_of_lt (serial_le_run r _) hb

theorem inv_start (f : String) : Inv (start f) :=
  ⟨by simp [start], by simp [start], by simp [start], by simp [start]⟩



theorem pack_gline (l c : BitVec 64) (hl : l.toNat < 2 ^ 48) (hc : c.toNat < 2 ^ 14) :
    sposGlobalLine (sposSet l c) = l := by
  apply BitVec.eq_of_toNat_eq
  rw [sposGlobalLine_toNat, sposSet_toNat l c hl hc]; omega

theorem pack_char (l c : BitVec 64) (hl : l.toNat < 2 ^ 48) (hc : c.toNat < 2 ^ 14) :
    sposChar (sposSet l c) = c := by
  apply BitVec.eq_of_toNat_eq
  rw [sposChar_toNat, sposSet_toNat l c hl hc]; omega

theorem not_special (l c : BitVec 64) (h0 : 0 < l.toNat) (hl : l.toNat < 2 ^ 48 - 1) (hc : c.toNat < 2 ^ 14) :
    sposIsSpecial (sposSet l c) = false := by
  unfold sposIsSpecial
  rw [pack_gline l c (by omega) hc]
  have e1 : (l == TOP_LINE_NO) = false := by
    apply beq_false_of_ne; intro h; rw [h] at h0; simp at h0
  have e2 : (l == END_LINE_NO) = false := by
    apply beq_false_of_ne; intro h; rw [h] at hl; revert hl; decide
  rw [e1, e2]; rfl

theorem markOK_decode {t : Table} {serial : Int} {m : Mark} (h : MarkOK t serial m) (hs : serial < 2 ^ 31) :
    sposFile t m.pos = some m.file ∧ sposLine t m.pos = BitVec.ofInt 64 m.line ∧ sposChar m.pos = 1 := by
  obtain ⟨σ, e, a1, a2, a3, a4, a5, a6, a7⟩ := h
  have gn : (BitVec.ofInt 64 σ).toNat = σ.toNat := toNat_ofInt_nonneg _ (by omega) (by omega)
  have hl : (BitVec.ofInt 64 σ).toNat < 2 ^ 48 - 1 := by rw [gn]; omega
  have h1 : (1 : BitVec 64).toNat < 2 ^ 14 := by decide
  have hsp := not_special (BitVec.ofInt 64 σ) 1 (by rw [gn]; omega) hl h1
  have hg := pack_gline (BitVec.ofInt 64 σ) 1 (by omega) h1
  have hne : t ≠ [] := findEntry_some_ne_nil a5
  have hemp : t.isEmpty = false := by cases t with | nil => exact absurd rfl hne | cons _ _ => rfl
  have hnz : (BitVec.ofInt 64 σ != 0) = true := by
    apply bne_iff_ne.mpr; intro h; rw [h] at gn; simp at gn; omega
  refine ⟨?_, ?_, ?_⟩
  · rw [a3]; unfold sposFile; rw [hsp]; simp only [Bool.false_eq_true, ↓reduceIte, hg, hemp, hnz, Bool.not_false, Bool.and_self, a5, Option.map_some, a6]
  · rw [a3]; unfold sposLine; rw [hsp]; simp only [Bool.false_eq_true, ↓reduceIte, hg, hemp, hnz, Bool.not_false, Bool.and_self, a5, a7]
  · rw [a3]; exact pack_char _ _ (by omega) h1

/-- every source line's position decodes, in the final table, to the file name and line number
the includer had in `fileState` when it read the line. -/
theorem incl_decode (f : String) (evs : List Ev)
    (hst : (run (start f) evs).stale = false) (hb : (run (start f) evs).serial < 2 ^ 31) :
    ∀ m ∈ (run (start f) evs).marks,
      sposFile (run (start f) evs).table m.pos = some m.file ∧
      sposLine (run (start f) evs).table m.pos = BitVec.ofInt 64 m.line ∧
      sposChar m.pos = 1 := by
  intro m hm
  exact markOK_decode ((run_inv evs _ (inv_start f) hst hb).marks m hm) hb


/-! ## bookkeeping only: what (file, line) the includer attaches to each source line -/

def Mark.key (m : Mark) : String × Int := (m.file, m.line)

/-- `step` restricted to `fileState` and its saved copies: new stack, and the (file, line) of the
source line made by this event, if any. -/
def bstep (st : List FState) (e : Ev) : List FState × List (String × Int) :=
  match st with
  | [] => ([], [])
  | cur :: rest =>
    match e with
    | .line => (⟨cur.curFname, cur.lineNumber + 1⟩ :: rest, [(cur.curFname, cur.lineNumber + 1)])
    | .skip => (⟨cur.curFname, cur.lineNumber + 1⟩ :: rest, [])
    | .hashLine n f => (⟨(match f with | some g => g | none => cur.curFname), n - 1⟩ :: rest, [])
    | .incl f => (⟨f, 0⟩ :: ⟨cur.curFname, cur.lineNumber + 1⟩ :: rest, [(cur.curFname, cur.lineNumber + 1)])
    | .close => (rest, [])

/-- the (file, line) pairs of the source lines of an event list, in reading order -/
def book : List FState → List Ev → List (String × Int)
  | _, [] => []
  | st, e :: r => (bstep st e).2 ++ book (bstep st e).1 r

def bstack : List FState → List Ev → List FState
  | st, [] => st
  | st, e :: r => bstack (bstep st e).1 r

theorem step_stack (s : Incl) (e : Ev) : (step s e).stack = (bstep s.stack e).1 := by
  unfold step bstep
  cases h : s.stack with
  | nil => simp [h]
  | cons cur rest => cases e <;> first | rfl | simp [mkLine]

theorem step_keys (s : Incl) (e : Ev) :
    (step s e).marks.reverse.map Mark.key = s.marks.reverse.map Mark.key ++ (bstep s.stack e).2 := by
  unfold step bstep
  cases h : s.stack with
  | nil => simp
  | cons cur rest => cases e <;> simp [mkLine, Mark.key]

theorem run_keys (evs : List Ev) (s : Incl) :
    (run s evs).marks.reverse.map Mark.key = s.marks.reverse.map Mark.key ++ book s.stack evs := by
  induction evs generalizing s with
  | nil => simp [run, book]
  | cons e r ih => rw [run_cons, ih, step_keys, step_stack, book, List.append_assoc]

theorem run_stack (evs : List Ev) (s : Incl) : (run s evs).stack = bstack s.stack evs := by
  induction evs generalizing s with
  | nil => rfl
  | cons e r ih => rw [run_cons, ih, step_stack, bstack]

theorem book_append (a b : List Ev) (st : List FState) :
    book st (a ++ b) = book st a ++ book (bstack st a) b := by
  induction a generalizing st with
  | nil => simp [book, bstack]
  | cons e r ih => simp [book, bstack, ih]

theorem bstack_append (a b : List Ev) (st : List FState) :
    bstack st (a ++ b) = bstack (bstack st a) b := by
  induction a generalizing st with
  | nil => simp [bstack]
  | cons e r ih => simp [bstack, ih]

theorem book_nil (evs : List Ev) : book [] evs = [] := by
  induction evs with
  | nil => rfl
  | cons e r ih => simp [book, bstep, ih]

/-- `m` ordinary lines in file `c` after line `n` -/
theorem book_lines (c : String) (n : Int) (rest : List FState) (m : Nat) :
    book (⟨c, n⟩ :: rest) (List.replicate m .line) = (List.range m).map (fun (i : Nat) => (c, n + 1 + (i : Int)))
    ∧ bstack (⟨c, n⟩ :: rest) (List.replicate m .line) = ⟨c, n + m⟩ :: rest := by
  induction m generalizing n with
  | zero => simp [book, bstack]
  | succ m ih =>
    rw [List.replicate_succ]
    simp only [book, bstack, bstep]
    obtain ⟨h1, h2⟩ := ih (n + 1)
    rw [h1, h2]
    refine ⟨?_, by simp; omega⟩
    rw [List.range_succ_eq_map]
    simp only [List.map_cons, List.map_map, List.singleton_append]
    congr 1
    · simp
    · apply List.map_congr_left; intro i _; simp; omega

/-! ## which later lines move when lines are inserted -/

def isTop : Option Nat → Bool
  | some 0 => true
  | _ => false
def scHash : Option Nat → Option Nat
  | some 0 => none
  | x => x
def scClose : Option Nat → Option Nat
  | some 0 => none
  | some (d + 1) => some d
  | none => none
def scIncl : Option Nat → Option Nat
  | some d => some (d + 1)
  | none => none

/-- `shifted (some d) evs`: for every source line made by `evs` (in order), does it belong to the
file instance whose `fileState` lies `d` levels below the top of the includer's stack, and has no
`#line` directive renumbered that file since?  (`none`: that file was closed or renumbered.) -/
def shifted : Option Nat → List Ev → List Bool
  | _, [] => []
  | sc, .line :: r => isTop sc :: shifted sc r
  | sc, .skip :: r => shifted sc r
  | sc, .hashLine _ _ :: r => shifted (scHash sc) r
  | sc, .incl _ :: r => isTop sc :: shifted (scIncl sc) r
  | sc, .close :: r => shifted (scClose sc) r

def bumpIf (k : Int) (b : Bool) (x : String × Int) : String × Int := if b then (x.1, x.2 + k) else x

theorem book_shift_none (k : Int) (evs : List Ev) (st : List FState) :
    book st evs = List.zipWith (bumpIf k) (shifted none evs) (book st evs) := by
  induction evs generalizing st with
  | nil => simp [book]
  | cons e r ih =>
    cases st with
    | nil => simp [book_nil]
    | cons cur rest =>
      cases e <;> simp only [book, bstep, shifted, scHash, scClose, scIncl, isTop, List.nil_append,
        List.singleton_append, List.zipWith_cons_cons, bumpIf, Bool.false_eq_true, ↓reduceIte] <;>
        first | exact ih _ | (congr 1; exact ih _)

/-- the stacks agree except that the entry `d` levels below the top counts `k` lines more in `B` -/
def Rel (k : Int) (d : Nat) (A B : List FState) : Prop :=
  ∃ top c n rest, A = top ++ ⟨c, n⟩ :: rest ∧ B = top ++ ⟨c, n + k⟩ :: rest ∧ top.length = d

theorem book_shift (k : Int) (evs : List Ev) (d : Nat) (A B : List FState) (h : Rel k d A B) :
    book B evs = List.zipWith (bumpIf k) (shifted (some d) evs) (book A evs) := by
  induction evs generalizing d A B with
  | nil => simp [book]
  | cons e r ih =>
    obtain ⟨top, c, n, rest, hA, hB, hd⟩ := h
    cases top with
    | nil =>
      simp at hd; subst hd; simp at hA hB; subst hA; subst hB
      cases e with
      | line =>
        simp only [book, bstep, shifted, isTop, List.singleton_append, List.zipWith_cons_cons, bumpIf, ↓reduceIte]
        congr 1
        · simp; omega
        · exact ih 0 _ _ ⟨[], c, n + 1, rest, rfl, by simp; omega, rfl⟩
      | skip =>
        simp only [book, bstep, shifted, List.nil_append]
        exact ih 0 _ _ ⟨[], c, n + 1, rest, rfl, by simp; omega, rfl⟩
      | hashLine m f =>
        simp only [book, bstep, shifted, scHash, List.nil_append]
        exact book_shift_none k r _
      | incl f =>
        simp only [book, bstep, shifted, isTop, scIncl, List.singleton_append, List.zipWith_cons_cons, bumpIf, ↓reduceIte]
        congr 1
        · simp; omega
        · exact ih 1 _ _ ⟨[⟨f, 0⟩], c, n + 1, rest, rfl, by simp; omega, rfl⟩
      | close =>
        simp only [book, bstep, shifted, scClose, List.nil_append]
        exact book_shift_none k r _
    | cons t0 top' =>
      simp at hd; subst hd; subst hA; subst hB
      cases e with
      | line =>
        simp only [List.cons_append, book, bstep, shifted, isTop, List.zipWith_cons_cons, bumpIf,
          Bool.false_eq_true, ↓reduceIte]
        congr 1
        exact ih (top'.length + 1) _ _ ⟨⟨t0.curFname, t0.lineNumber + 1⟩ :: top', c, n, rest, rfl, rfl, by simp⟩
      | skip =>
        simp only [List.cons_append, book, bstep, shifted, List.nil_append]
        exact ih (top'.length + 1) _ _ ⟨⟨t0.curFname, t0.lineNumber + 1⟩ :: top', c, n, rest, rfl, rfl, by simp⟩
      | hashLine m f =>
        simp only [List.cons_append, book, bstep, shifted, scHash, List.nil_append]
        exact ih (top'.length + 1) _ _ ⟨⟨_, m - 1⟩ :: top', c, n, rest, rfl, rfl, by simp⟩
      | incl f =>
        simp only [List.cons_append, book, bstep, shifted, isTop, scIncl, List.zipWith_cons_cons, bumpIf,
          Bool.false_eq_true, ↓reduceIte]
        congr 1
        exact ih (top'.length + 1 + 1) _ _ ⟨⟨f, 0⟩ :: ⟨t0.curFname, t0.lineNumber + 1⟩ :: top', c, n, rest, rfl, rfl, by simp⟩
      | close =>
        simp only [List.cons_append, book, bstep, shifted, scClose, List.nil_append]
        exact ih top'.length _ _ ⟨top', c, n, rest, rfl, rfl, rfl⟩



/-- what a diagnostic on each source line would report: (file, line, column), in reading order,
decoded in the final global line table. -/
def decoded (r : Incl) : List (Option String × Length × Length) :=
  r.marks.reverse.map (fun m => (sposFile r.table m.pos, sposLine r.table m.pos, sposChar m.pos))

def enc (x : String × Int) : Option String × Length × Length := (some x.1, BitVec.ofInt 64 x.2, 1)

def bumpD (k : Int) (b : Bool) (x : Option String × Length × Length) : Option String × Length × Length :=
  if b then (x.1, x.2.1 + BitVec.ofInt 64 k, x.2.2) else x

theorem decoded_eq (f : String) (evs : List Ev)
    (hst : (run (start f) evs).stale = false) (hb : (run (start f) evs).serial < 2 ^ 31) :
    decoded (run (start f) evs) = (book [⟨f, 0⟩] evs).map enc := by
  have hk := run_keys evs (start f)
  have : (start f).marks = [] := rfl
  rw [this] at hk; simp only [List.reverse_nil, List.map_nil, List.nil_append] at hk
  have : (start f).stack = [⟨f, 0⟩] := rfl
  rw [this] at hk
  rw [← hk, List.map_map]
  unfold decoded
  apply List.map_congr_left
  intro m hm
  obtain ⟨h1, h2, h3⟩ := incl_decode f evs hst hb m (List.mem_reverse.mp hm)
  simp [enc, Mark.key, h1, h2, h3]

theorem enc_bump (k : Int) (b : Bool) (x : String × Int) : enc (bumpIf k b x) = bumpD k b (enc x) := by
  cases b <;> simp [bumpIf, bumpD, enc, BitVec.ofInt_add]

theorem map_enc_zipWith (k : Int) (fl : List Bool) (xs : List (String × Int)) :
    (List.zipWith (bumpIf k) fl xs).map enc = List.zipWith (bumpD k) fl (xs.map enc) := by
  induction fl generalizing xs with
  | nil => simp
  | cons b r ih =>
    cases xs with
    | nil => simp
    | cons x xs => simp [enc_bump, ih]

theorem blank_shift_lists (f : String) (pre post : List Ev) (k : Nat) (c : String) (n : Int) (rest : List FState)
    (hopen : (run (start f) pre).stack = ⟨c, n⟩ :: rest)
    (hA : (run (start f) (pre ++ post)).stale = false)
    (hAb : (run (start f) (pre ++ post)).serial < 2 ^ 31)
    (hB : (run (start f) (pre ++ List.replicate k .line ++ post)).stale = false)
    (hBb : (run (start f) (pre ++ List.replicate k .line ++ post)).serial < 2 ^ 31) :
    decoded (run (start f) (pre ++ List.replicate k .line ++ post)) =
      (decoded (run (start f) (pre ++ post))).take (run (start f) pre).marks.length
      ++ (List.range k).map (fun (i : Nat) => ((some c, BitVec.ofInt 64 (n + 1 + i), 1) : Option String × Length × Length))
      ++ List.zipWith (bumpD k) (shifted (some 0) post)
           ((decoded (run (start f) (pre ++ post))).drop (run (start f) pre).marks.length) := by
  rw [decoded_eq f _ hA hAb, decoded_eq f _ hB hBb]
  have hst : bstack [⟨f, 0⟩] pre = ⟨c, n⟩ :: rest := by
    rw [← hopen, run_stack]; rfl
  have hP : (run (start f) pre).marks.length = (book [⟨f, 0⟩] pre).length := by
    have hk := run_keys pre (start f)
    have e1 : (start f).marks = [] := rfl
    have e2 : (start f).stack = [⟨f, 0⟩] := rfl
    rw [e1, e2] at hk; simp only [List.reverse_nil, List.map_nil, List.nil_append] at hk
    rw [← hk]; simp
  rw [hP, book_append, book_append, book_append, bstack_append, hst]
  obtain ⟨hl1, hl2⟩ := book_lines c n rest k
  rw [hl1, hl2, book_shift k post 0 (⟨c, n⟩ :: rest) (⟨c, n + k⟩ :: rest) ⟨[], c, n, rest, rfl, rfl, rfl⟩]
  simp only [List.map_append, map_enc_zipWith]
  rw [List.take_left' (by simp), List.drop_left' (by simp)]
  simp [enc]


theorem decoded_split (f : String) (pre mid : List Ev)
    (hst : (run (start f) (pre ++ mid)).stale = false) (hb : (run (start f) (pre ++ mid)).serial < 2 ^ 31) :
    (decoded (run (start f) (pre ++ mid))).drop (run (start f) pre).marks.length
      = (book (run (start f) pre).stack mid).map enc := by
  rw [decoded_eq f _ hst hb]
  have hP : (run (start f) pre).marks.length = (book [⟨f, 0⟩] pre).length := by
    have hk := run_keys pre (start f)
    have e1 : (start f).marks = [] := rfl
    have e2 : (start f).stack = [⟨f, 0⟩] := rfl
    rw [e1, e2] at hk; simp only [List.reverse_nil, List.map_nil, List.nil_append] at hk
    rw [← hk]; simp
  have hs : (run (start f) pre).stack = bstack [⟨f, 0⟩] pre := by rw [run_stack]; rfl
  rw [hP, hs, book_append, List.map_append, List.drop_left' (by simp)]

theorem hash_line_lists (f : String) (pre post : List Ev) (n : Int) (fo : Option String) (m : Nat)
    (c0 : String) (n0 : Int) (rest : List FState)
    (hopen : (run (start f) pre).stack = ⟨c0, n0⟩ :: rest)
    (hst : (run (start f) (pre ++ (.hashLine n fo :: List.replicate m .line ++ post))).stale = false)
    (hb : (run (start f) (pre ++ (.hashLine n fo :: List.replicate m .line ++ post))).serial < 2 ^ 31) :
    ((decoded (run (start f) (pre ++ (.hashLine n fo :: List.replicate m .line ++ post)))).drop
        (run (start f) pre).marks.length).take m
      = (List.range m).map (fun (i : Nat) => ((some (fo.getD c0), BitVec.ofInt 64 (n + i), 1) : Option String × Length × Length)) := by
  rw [decoded_split f pre _ hst hb, hopen]
  simp only [List.cons_append, book, bstep, List.nil_append]
  rw [book_append, (book_lines _ _ _ m).1, List.map_append, List.take_left' (by simp)]
  simp only [List.map_map]
  apply List.map_congr_left
  intro i _
  simp only [Function.comp, enc]
  have : n - 1 + 1 + (i : Int) = n + i := by omega
  rw [this]; cases fo <;> rfl

theorem include_lists (f : String) (pre post : List Ev) (g : String) (m : Nat)
    (c0 : String) (n0 : Int) (rest : List FState)
    (hopen : (run (start f) pre).stack = ⟨c0, n0⟩ :: rest)
    (hst : (run (start f) (pre ++ (.incl g :: List.replicate m .line ++ post))).stale = false)
    (hb : (run (start f) (pre ++ (.incl g :: List.replicate m .line ++ post))).serial < 2 ^ 31) :
    ((decoded (run (start f) (pre ++ (.incl g :: List.replicate m .line ++ post)))).drop
        (run (start f) pre).marks.length).take (m + 1)
      = ((some c0, BitVec.ofInt 64 (n0 + 1), 1) : Option String × Length × Length) ::
        (List.range m).map (fun (i : Nat) => ((some g, BitVec.ofInt 64 (1 + i), 1) : Option String × Length × Length)) := by
  rw [decoded_split f pre _ hst hb, hopen]
  simp only [List.cons_append, book, bstep, List.nil_append]
  rw [book_append, (book_lines _ _ _ m).1, List.map_cons, List.take_succ_cons, List.map_append, List.take_left' (by simp)]
  simp only [List.map_map, enc]
  congr 1

theorem include_return_lists (f : String) (pre post : List Ev) (g : String) (b m : Nat)
    (c0 : String) (n0 : Int) (rest : List FState)
    (hopen : (run (start f) pre).stack = ⟨c0, n0⟩ :: rest)
    (hst : (run (start f) (pre ++ (.incl g :: List.replicate b .line ++ (.close :: List.replicate m .line ++ post)))).stale = false)
    (hb : (run (start f) (pre ++ (.incl g :: List.replicate b .line ++ (.close :: List.replicate m .line ++ post)))).serial < 2 ^ 31) :
    ((decoded (run (start f) (pre ++ (.incl g :: List.replicate b .line ++ (.close :: List.replicate m .line ++ post))))).drop
        ((run (start f) pre).marks.length + 1 + b)).take m
      = (List.range m).map (fun (i : Nat) => ((some c0, BitVec.ofInt 64 (n0 + 2 + i), 1) : Option String × Length × Length)) := by
  rw [Nat.add_assoc, ← List.drop_drop, decoded_split f pre _ hst hb, hopen]
  simp only [List.cons_append, book, bstep, List.nil_append]
  rw [book_append, (book_lines _ _ _ b).1, (book_lines _ _ _ b).2]
  simp only [book, bstep, List.nil_append]
  rw [book_append, (book_lines _ _ _ m).1]
  rw [Nat.add_comm 1 b, List.map_cons, List.drop_succ_cons, List.map_append, List.drop_left' (by simp),
    List.map_append, List.take_left' (by simp)]
  simp only [List.map_map]
  apply List.map_congr_left
  intro i _
  have : n0 + 1 + 1 + (i : Int) = n0 + 2 + i := by omega
  simp only [Function.comp, enc, this]

/-! ## single files never go stale -/


/-- the last table entry (if any) maps the current serial number to the current line -/
def Sync (s : Incl) : Prop :=
  s.stale = false ∧ ∃ cur, s.stack = [cur] ∧
    ∀ last, s.table.getLast? = some last →
      last.fn = cur.curFname ∧ (BitVec.ofInt 64 s.serial - last.glno) + last.flno = BitVec.ofInt 64 cur.lineNumber

def Ev.flat : Ev → Bool
  | .incl _ => false
  | .close => false
  | _ => true

theorem bv_step (a g f l : BitVec 64) (h : (a - g) + f = l) : ((a + 1) - g) + f = l + 1 := by
  subst h; bv_omega

theorem sync_mkLine (s : Incl) (cur : FState) (h : Sync s) (hs : s.stack = [cur]) : Sync (mkLine s cur []) := by
  obtain ⟨h1, cur', h2, h3⟩ := h
  rw [hs] at h2; cases h2
  have ea : BitVec.ofInt 64 (s.serial + 1) = BitVec.ofInt 64 s.serial + 1 := by rw [BitVec.ofInt_add]; rfl
  have el : BitVec.ofInt 64 (cur.lineNumber + 1) = BitVec.ofInt 64 cur.lineNumber + 1 := by rw [BitVec.ofInt_add]; rfl
  refine ⟨?_, ⟨cur.curFname, cur.lineNumber + 1⟩, rfl, ?_⟩
  · show (s.stale || sposNewStale _ _ _ _) = false
    rw [h1, Bool.false_or]
    unfold sposNewStale
    cases hl : s.table.getLast? with
    | none => rfl
    | some e =>
      obtain ⟨a1, a2⟩ := h3 e hl
      simp only
      rw [ea, el, bv_step _ _ _ _ a2]
      simp
  · intro last hlast
    by_cases hg : sposNewGrows s.table cur.curFname (BitVec.ofInt 64 (s.serial + 1)) = true
    · have : (mkLine s cur []).table = s.table ++ [⟨BitVec.ofInt 64 (s.serial + 1), cur.curFname, BitVec.ofInt 64 (cur.lineNumber + 1)⟩] := by
        simp [mkLine, sposNew, hg, sposGrow]
      rw [this, List.getLast?_append, List.getLast?_singleton] at hlast
      simp at hlast; subst hlast
      exact ⟨rfl, by show (BitVec.ofInt 64 (s.serial + 1) - BitVec.ofInt 64 (s.serial + 1)) + _ = _; simp⟩
    · have : (mkLine s cur []).table = s.table := by simp [mkLine, sposNew, hg]
      rw [this] at hlast
      obtain ⟨a1, a2⟩ := h3 last hlast
      refine ⟨a1, ?_⟩
      show (BitVec.ofInt 64 (s.serial + 1) - last.glno) + last.flno = BitVec.ofInt 64 (cur.lineNumber + 1)
      rw [ea, el]; exact bv_step _ _ _ _ a2

theorem sync_step (s : Incl) (e : Ev) (h : Sync s) (he : e.flat = true) : Sync (step s e) := by
  obtain ⟨h1, cur, h2, h3⟩ := h
  unfold step
  rw [h2]
  cases e with
  | line => exact sync_mkLine s cur ⟨h1, cur, h2, h3⟩ h2
  | skip =>
    refine ⟨h1, ⟨cur.curFname, cur.lineNumber + 1⟩, rfl, ?_⟩
    intro last hlast
    obtain ⟨a1, a2⟩ := h3 last hlast
    refine ⟨a1, ?_⟩
    show (BitVec.ofInt 64 (s.serial + 1) - last.glno) + last.flno = BitVec.ofInt 64 (cur.lineNumber + 1)
    have ea : BitVec.ofInt 64 (s.serial + 1) = BitVec.ofInt 64 s.serial + 1 := by rw [BitVec.ofInt_add]; rfl
    have el : BitVec.ofInt 64 (cur.lineNumber + 1) = BitVec.ofInt 64 cur.lineNumber + 1 := by rw [BitVec.ofInt_add]; rfl
    rw [ea, el]; exact bv_step _ _ _ _ a2
  | hashLine n f =>
    cases f with
    | none =>
      refine ⟨h1, ⟨cur.curFname, n - 1⟩, rfl, ?_⟩
      intro last hlast
      have hl2 : (s.table ++ [(⟨BitVec.ofInt 64 (s.serial + 1), cur.curFname, BitVec.ofInt 64 (n - 1)⟩ : GLine)]).getLast? = some last := hlast
      rw [List.getLast?_append, List.getLast?_singleton] at hl2
      simp at hl2; subst hl2
      exact ⟨rfl, by show (BitVec.ofInt 64 (s.serial + 1) - BitVec.ofInt 64 (s.serial + 1)) + _ = _; simp⟩
    | some g =>
      refine ⟨h1, ⟨g, n - 1⟩, rfl, ?_⟩
      intro last hlast
      have hl2 : (s.table ++ [(⟨BitVec.ofInt 64 (s.serial + 1), g, BitVec.ofInt 64 (n - 1)⟩ : GLine)]).getLast? = some last := hlast
      rw [List.getLast?_append, List.getLast?_singleton] at hl2
      simp at hl2; subst hl2
      exact ⟨rfl, by show (BitVec.ofInt 64 (s.serial + 1) - BitVec.ofInt 64 (s.serial + 1)) + _ = _; simp⟩
  | incl f => simp [Ev.flat] at he
  | close => simp [Ev.flat] at he

/-- a single file (no `#include` that opens a file), with any number of `#line` directives and
inactive sections, never produces a stale `sposNew`: the side condition of the C15 theorems
holds for every such program. -/
theorem stale_false_flat' (f : String) (evs : List Ev) (h : ∀ e ∈ evs, e.flat = true) :
    (run (start f) evs).stale = false := by
  have : ∀ (evs : List Ev) (s : Incl), Sync s → (∀ e ∈ evs, e.flat = true) → Sync (run s evs) := by
    intro evs
    induction evs with
    | nil => intro s hs _; exact hs
    | cons e r ih =>
      intro s hs hf
      rw [run_cons]
      exact ih _ (sync_step s e hs (hf e (by simp))) (fun x hx => hf x (List.mem_cons_of_mem _ hx))
  exact (this evs (start f) ⟨rfl, ⟨f, 0⟩, rfl, by intro last hl; simp [start] at hl⟩ h).1

end AldorVerif.SrcPos
