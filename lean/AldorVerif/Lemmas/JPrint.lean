import AldorVerif.Model.JPrint
/-! the printer's output is read back by Java's grammar as the tree that was printed, provided the
operator table is consistent with Java's levels -/
namespace AldorVerif.JPrint

theorem Reads.down {ts : List Tok} {t : Tree} (j : Nat) :
    ∀ d, Reads (j + d) ts t → Reads j ts t := by
  intro d
  induction d with
  | zero => intro h; exact h
  | succ n ih => intro h; exact ih (Reads.up _ _ _ (by simpa [Nat.add_assoc] using h))

theorem Reads.mono {k j : Nat} {ts : List Tok} {t : Tree} (h : Reads k ts t) (hj : j ≤ k) :
    Reads j ts t := by
  obtain ⟨d, rfl⟩ := Nat.exists_eq_add_of_le hj
  exact Reads.down j d h

/-- what consistency gives for a parent `p` and a child operator `c` -/
theorem consistent_spec {ops : List Op} (h : Consistent ops) {p c : Op} (hp : p ∈ ops) (hc : c ∈ ops) :
    p.lr = true ∧ p.prec ≠ 0 ∧ (∃ k, jls p.txt = some k) ∧
    (p.prec ≤ c.prec → (jls p.txt).getD 0 ≤ (jls c.txt).getD 0) ∧
    (p.prec < c.prec → (jls p.txt).getD 0 < (jls c.txt).getD 0) := by
  unfold Consistent consistentB at h
  rw [List.all_eq_true] at h
  have h1 := h p hp
  simp only [Bool.and_eq_true, List.all_eq_true] at h1
  obtain ⟨⟨⟨hlr, hne⟩, hsome⟩, hall⟩ := h1
  have h2 := hall c hc
  simp only [Bool.and_eq_true, Bool.or_eq_true, Bool.not_eq_true', decide_eq_false_iff_not,
    decide_eq_true_eq] at h2
  refine ⟨hlr, by simpa using hne, Option.isSome_iff_exists.mp hsome, ?_, ?_⟩
  · intro hle; rcases h2.1 with h3 | h3
    · exact absurd hle h3
    · exact h3
  · intro hlt; rcases h2.2 with h3 | h3
    · exact absurd hlt h3
    · exact h3

theorem needs_bin (o c : Op) (cl cr : Tree) (hc : c.prec ≠ 0) :
    needs o (.bin c cl cr) = decide (o.prec > c.prec) := by
  simp [needs, precOf, hc]

/-- the level at which the printed form of `t` can be derived -/
def lvl : Tree → Nat
  | .leaf _ => 13
  | .bin o _ _ => (jls o.txt).getD 0

theorem print_reads_lvl {ops : List Op} (h : Consistent ops) :
    ∀ t : Tree, t.Over ops → Reads (lvl t) (print t) t := by
  intro t
  induction t with
  | leaf x => intro _; exact Reads.leaf _ x
  | bin o l r ihl ihr =>
    intro hov
    obtain ⟨ho, hl, hr⟩ := hov
    have hoo := consistent_spec h ho ho
    obtain ⟨hlr, hne, ⟨k, hk⟩, _, _⟩ := hoo
    have il := ihl hl
    have ir := ihr hr
    simp only [lvl, hk, Option.getD_some]
    simp only [print, hlr, Bool.not_true, Bool.false_and, Bool.true_and, paren, if_false]
    -- left operand at level k
    have hleft : Reads k (if needs o l = true then Tok.lp :: print l ++ [Tok.rp] else print l) l := by
      cases l with
      | leaf x => simp [needs, precOf, print]; exact Reads.leaf _ x
      | bin c cl cr =>
        obtain ⟨hc, _, _⟩ := hl
        have hs := consistent_spec h ho hc
        have hcne := (consistent_spec h hc hc).2.1
        by_cases hn : needs o (.bin c cl cr) = true
        · simp only [hn, if_true]
          exact Reads.paren _ _ _ (Reads.mono il (Nat.zero_le _))
        · simp only [hn]
          have : o.prec ≤ c.prec := by
            rw [needs_bin _ _ _ _ hcne] at hn
            simp at hn; omega
          have h4 := hs.2.2.2.1 this
          simp only [hk, Option.getD_some] at h4
          exact Reads.mono il (by simpa [lvl] using h4)
    -- right operand at level k + 1
    have hright : Reads (k + 1)
        (if (precOf r == o.prec) = true then
           Tok.lp :: (if needs o r = true then Tok.lp :: print r ++ [Tok.rp] else print r) ++ [Tok.rp]
         else (if needs o r = true then Tok.lp :: print r ++ [Tok.rp] else print r)) r := by
      cases r with
      | leaf x =>
        have h0 : ¬ (0 = o.prec) := fun e => hne e.symm
        simp [needs, precOf, print, h0]; exact Reads.leaf _ x
      | bin c cl cr =>
        obtain ⟨hc, _, _⟩ := hr
        have hs := consistent_spec h ho hc
        have hcne := (consistent_spec h hc hc).2.1
        by_cases he : (precOf (Tree.bin c cl cr) == o.prec) = true
        · have hn : needs o (.bin c cl cr) = false := by
            simp only [precOf, beq_iff_eq] at he
            simp [needs, precOf, he]
          simp only [he, hn, if_true]
          exact Reads.paren _ _ _ (Reads.mono ir (Nat.zero_le _))
        · by_cases hn : needs o (.bin c cl cr) = true
          · simp only [he, hn, if_true]
            exact Reads.paren _ _ _ (Reads.mono ir (Nat.zero_le _))
          · simp only [he, hn]
            have hlt : o.prec < c.prec := by
              rw [needs_bin _ _ _ _ hcne] at hn
              simp only [precOf, beq_iff_eq] at he
              simp at hn; omega
            have h4 := hs.2.2.2.2 hlt
            simp only [hk, Option.getD_some] at h4
            exact Reads.mono ir (by simp only [lvl]; omega)
    exact Reads.bin o k _ _ l r hk hleft hright

end AldorVerif.JPrint
