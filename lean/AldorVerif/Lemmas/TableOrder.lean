import AldorVerif.Model.TableOrder

/-! Helper lemmas for C08: the table operations commute with a renaming of the keys that
preserves hash values and the equality test; insertion sort (`lisort`) yields a sorted
permutation. Core Lean only. -/
namespace AldorVerif.TableOrder

variable {κ₁ κ₂ : Type}

def Slot.map (f : κ₁ → κ₂) (s : Slot κ₁) : Slot κ₂ := { key := f s.key, elt := s.elt, hash := s.hash }

def Table.map (f : κ₁ → κ₂) (t : Table κ₁) : Table κ₂ :=
  { buckc := t.buckc, buckv := t.buckv.map (·.map (Slot.map f)), count := t.count }

/-- the renaming `f` is compatible with the two tables' function pointers. -/
structure Compat (P₁ : Params κ₁) (P₂ : Params κ₂) (f : κ₁ → κ₂) : Prop where
  hash : ∀ a, P₂.hash (f a) = P₁.hash a
  eq : ∀ a b, P₂.eq (f a) (f b) = P₁.eq a b

theorem findSplit_map {P₁ : Params κ₁} {P₂ : Params κ₂} {f : κ₁ → κ₂} (C : Compat P₁ P₂ f)
    (h : Nat) (k : κ₁) (l : List (Slot κ₁)) :
    findSplit P₂ h (f k) (l.map (Slot.map f)) =
      (findSplit P₁ h k l).map (fun r => (r.1.map (Slot.map f), Slot.map f r.2.1, r.2.2.map (Slot.map f))) := by
  induction l with
  | nil => simp [findSplit]
  | cons b rest ih =>
    simp only [List.map_cons, findSplit]
    have hb : (Slot.map f b).hash = b.hash := rfl
    have hk : (Slot.map f b).key = f b.key := rfl
    rw [hb, hk, C.eq]
    by_cases hc : (b.hash == h && P₁.eq k b.key) = true
    · simp [hc]
    · simp only [hc, Bool.false_eq_true, ↓reduceIte]
      rw [ih]
      cases findSplit P₁ h k rest with
      | none => simp
      | some r => obtain ⟨pre, s, post⟩ := r; simp

theorem getD_map_nil {α β : Type} (g : α → β) (l : List (List α)) (x : Nat) :
    (l.map (·.map g)).getD x [] = (l.getD x []).map g := by
  simp only [List.getD_eq_getElem?_getD, List.getElem?_map]
  cases l[x]? <;> simp

theorem bucket_map (f : κ₁ → κ₂) (t : Table κ₁) (x : Nat) :
    bucket (t.map f) x = (bucket t x).map (Slot.map f) := by
  simp only [bucket, Table.map]
  exact getD_map_nil _ _ _

theorem tblElt_map {P₁ : Params κ₁} {P₂ : Params κ₂} {f : κ₁ → κ₂} (C : Compat P₁ P₂ f)
    (t : Table κ₁) (k : κ₁) :
    tblElt P₂ (t.map f) (f k) = ((tblElt P₁ t k).1.map f, (tblElt P₁ t k).2) := by
  simp only [tblElt, C.hash, bucket_map, findSplit_map C]
  have hbc : (t.map f).buckc = t.buckc := rfl
  rw [hbc]
  cases findSplit P₁ (P₁.hash k) k (bucket t (P₁.hash k % t.buckc)) with
  | none => simp
  | some r =>
    obtain ⟨pre, s, post⟩ := r
    simp [Table.map, List.map_set, Slot.map]

theorem foldl_enlarge_map (f : κ₁ → κ₂) (n : Nat) (l : List (Slot κ₁)) (init : List (List (Slot κ₁))) :
    (l.map (Slot.map f)).foldl
        (fun (nb : List (List (Slot κ₂))) (hd : Slot κ₂) => nb.set (hd.hash % n) (hd :: nb.getD (hd.hash % n) []))
        (init.map (·.map (Slot.map f))) =
      (l.foldl (fun (nb : List (List (Slot κ₁))) (hd : Slot κ₁) => nb.set (hd.hash % n) (hd :: nb.getD (hd.hash % n) []))
        init).map (·.map (Slot.map f)) := by
  induction l generalizing init with
  | nil => simp
  | cons a l ih =>
    simp only [List.map_cons, List.foldl_cons]
    have ha : (Slot.map f a).hash = a.hash := rfl
    rw [ha, getD_map_nil]
    rw [← ih]
    congr 1
    simp [List.map_set]

theorem tblEnlarge_map (f : κ₁ → κ₂) (t : Table κ₁) :
    tblEnlarge (t.map f) = (tblEnlarge t).map f := by
  simp only [tblEnlarge, Table.map]
  have h1 : (List.map (fun x => List.map (Slot.map f) x) t.buckv).flatten = t.buckv.flatten.map (Slot.map f) := by
    rw [List.map_flatten]
  rw [h1]
  have h2 : (List.replicate (binPrime (cielLg t.buckc + 1)) ([] : List (Slot κ₂))) =
      (List.replicate (binPrime (cielLg t.buckc + 1)) ([] : List (Slot κ₁))).map (·.map (Slot.map f)) := by
    simp
  rw [h2, foldl_enlarge_map]

theorem tblSetElt_map {P₁ : Params κ₁} {P₂ : Params κ₂} {f : κ₁ → κ₂} (C : Compat P₁ P₂ f)
    (t : Table κ₁) (k : κ₁) (e : Nat) :
    tblSetElt P₂ (t.map f) (f k) e = ((tblSetElt P₁ t k e).1.map f, (tblSetElt P₁ t k e).2) := by
  simp only [tblSetElt, C.hash, bucket_map, findSplit_map C]
  have hbc : (t.map f).buckc = t.buckc := rfl
  have hcn : (t.map f).count = t.count := rfl
  rw [hbc]
  cases findSplit P₁ (P₁.hash k) k (bucket t (P₁.hash k % t.buckc)) with
  | some r =>
    obtain ⟨pre, s, post⟩ := r
    simp [Table.map, List.map_set, Slot.map]
  | none =>
    simp only [Option.map_none, hcn]
    by_cases hl : t.count + 1 > TBL_MaxLoad * t.buckc
    · simp only [hl, ↓reduceIte]
      rw [← tblEnlarge_map]
      simp [Table.map, List.map_set, Slot.map]
    · simp only [hl, ↓reduceIte]
      simp [Table.map, List.map_set, Slot.map]

theorem tblDrop_map {P₁ : Params κ₁} {P₂ : Params κ₂} {f : κ₁ → κ₂} (C : Compat P₁ P₂ f)
    (t : Table κ₁) (k : κ₁) :
    tblDrop P₂ (t.map f) (f k) = ((tblDrop P₁ t k).1.map f, (tblDrop P₁ t k).2) := by
  simp only [tblDrop, C.hash, bucket_map, findSplit_map C]
  have hbc : (t.map f).buckc = t.buckc := rfl
  rw [hbc]
  cases findSplit P₁ (P₁.hash k) k (bucket t (P₁.hash k % t.buckc)) with
  | none => simp
  | some r =>
    obtain ⟨pre, s, post⟩ := r
    simp [Table.map, List.map_set]

def Run.map (f : κ₁ → κ₂) (r : Run κ₁) : Run κ₂ := { tbl := r.tbl.map f, gets := r.gets, tags := r.tags }

theorem step_map {P₁ : Params κ₁} {P₂ : Params κ₂} {f : κ₁ → κ₂} (C : Compat P₁ P₂ f)
    (r : Run κ₁) (o : Op κ₁) : step P₂ (r.map f) (o.map f) = (step P₁ r o).map f := by
  obtain ⟨kind, key, elt⟩ := o
  cases kind <;> simp [step, Op.map, Run.map, tblSetElt_map C, tblElt_map C, tblDrop_map C]

theorem run_map {P₁ : Params κ₁} {P₂ : Params κ₂} {f : κ₁ → κ₂} (C : Compat P₁ P₂ f)
    (ops : List (Op κ₁)) : run P₂ (ops.map (Op.map f)) = (run P₁ ops).map f := by
  unfold run
  have hinit : ({ tbl := tblNew, gets := [], tags := [] } : Run κ₂) =
      Run.map f { tbl := tblNew, gets := [], tags := [] } := by
    simp [Run.map, Table.map, tblNew, tblNew0]
  rw [hinit]
  generalize ({ tbl := tblNew, gets := [], tags := [] } : Run κ₁) = r0
  induction ops generalizing r0 with
  | nil => rfl
  | cons o ops ih => simp only [List.map_cons, List.foldl_cons, step_map C, ih]

theorem iterOrder_map (f : κ₁ → κ₂) (t : Table κ₁) : iterOrder (t.map f) = (iterOrder t).map f := by
  simp [iterOrder, iterSlots, Table.map, List.map_flatten, Slot.map, Function.comp_def]

/-! ### strHash -/

theorem strHashStep_lt (h : Nat) (b : UInt8) : strHashStep h b < 2 ^ 30 := by
  unfold strHashStep
  exact Nat.and_lt_two_pow _ (by omega)

theorem strHashAt_eq (mem : Nat → UInt8) (fuel a h : Nat) :
    strHashAt mem fuel a h = (cstr mem fuel a).foldl strHashStep h := by
  induction fuel generalizing a h with
  | zero => rfl
  | succ n ih =>
    simp only [strHashAt, cstr]
    by_cases hz : mem a = 0
    · simp [hz]
    · simp [hz, ih]

/-! ### lisort -/

variable {α : Type}

theorem sink_perm (cmp : α → α → Int) (x : α) (l : List α) : (sink cmp x l).Perm (x :: l) := by
  induction l with
  | nil => exact List.Perm.refl _
  | cons p ps ih =>
    simp only [sink]
    split
    · exact (List.Perm.cons p ih).trans (List.Perm.swap x p ps)
    · exact List.Perm.refl _

theorem foldl_sink_perm (cmp : α → α → Int) (a acc : List α) :
    (a.foldl (fun acc x => sink cmp x acc) acc).Perm (a.reverse ++ acc) := by
  induction a generalizing acc with
  | nil => simp
  | cons x a ih =>
    simp only [List.foldl_cons, List.reverse_cons, List.append_assoc, List.singleton_append]
    exact (ih _).trans (List.Perm.append_left _ (sink_perm cmp x acc))

theorem lisort_perm (cmp : α → α → Int) (a : List α) : (lisort cmp a).Perm a := by
  unfold lisort
  refine (List.reverse_perm _).trans ?_
  have h := foldl_sink_perm cmp a []
  rw [List.append_nil] at h
  exact h.trans (List.reverse_perm a)

/-- the reversed prefix is sorted downwards: every element is `≥` everything behind it,
expressed through the key `key` the comparator agrees with. -/
def Desc (key : α → Nat) (l : List α) : Prop := l.Pairwise (fun p q => key q ≤ key p)

theorem sink_desc (cmp : α → α → Int) (key : α → Nat)
    (hc : ∀ a b, cmp a b > 0 ↔ key a > key b) (x : α) (l : List α) (hl : Desc key l) :
    Desc key (sink cmp x l) := by
  induction l with
  | nil => simp [sink, Desc]
  | cons p ps ih =>
    simp only [sink]
    have hps : Desc key ps := (List.pairwise_cons.mp hl).2
    have hp : ∀ q ∈ ps, key q ≤ key p := (List.pairwise_cons.mp hl).1
    split
    · rename_i hgt
      have hxp : key x < key p := (hc p x).mp hgt
      refine List.pairwise_cons.mpr ⟨?_, ih hps⟩
      intro q hq
      have := (sink_perm cmp x ps).subset hq
      rcases List.mem_cons.mp this with rfl | hq'
      · omega
      · exact hp q hq'
    · rename_i hng
      have hxp : ¬ key p > key x := fun h => hng ((hc p x).mpr h)
      refine List.pairwise_cons.mpr ⟨?_, hl⟩
      intro q hq
      rcases List.mem_cons.mp hq with rfl | hq'
      · omega
      · have := hp q hq'; omega

theorem foldl_sink_desc (cmp : α → α → Int) (key : α → Nat)
    (hc : ∀ a b, cmp a b > 0 ↔ key a > key b) (a acc : List α) (hacc : Desc key acc) :
    Desc key (a.foldl (fun acc x => sink cmp x acc) acc) := by
  induction a generalizing acc with
  | nil => exact hacc
  | cons x a ih => exact ih _ (sink_desc cmp key hc x acc hacc)

theorem lisort_sorted (cmp : α → α → Int) (key : α → Nat)
    (hc : ∀ a b, cmp a b > 0 ↔ key a > key b) (a : List α) :
    (lisort cmp a).Pairwise (fun p q => key p ≤ key q) := by
  unfold lisort
  rw [List.pairwise_reverse]
  exact foldl_sink_desc cmp key hc a [] List.Pairwise.nil


theorem pairwise_mem_of_symm {R : α → α → Prop} (hs : ∀ {a b}, R a b → R b a) {l : List α}
    (h : l.Pairwise R) : ∀ a ∈ l, ∀ b ∈ l, a ≠ b → R a b := by
  induction l with
  | nil => intro a ha; cases ha
  | cons x xs ih =>
    have hx := (List.pairwise_cons.mp h).1
    have hxs := (List.pairwise_cons.mp h).2
    intro a ha b hb hab
    rcases List.mem_cons.mp ha with rfl | ha'
    · rcases List.mem_cons.mp hb with rfl | hb'
      · exact absurd rfl hab
      · exact hx b hb'
    · rcases List.mem_cons.mp hb with rfl | hb'
      · exact hs (hx a ha')
      · exact ih hxs a ha' b hb' hab

theorem sink_congr (c1 c2 : α → α → Int) (x : α) (acc : List α) (h : ∀ p ∈ acc, c1 p x = c2 p x) :
    sink c1 x acc = sink c2 x acc := by
  induction acc with
  | nil => rfl
  | cons p ps ih =>
    have hp : c1 p x = c2 p x := h p List.mem_cons_self
    have ih' := ih (fun q hq => h q (List.mem_cons_of_mem _ hq))
    simp only [sink, hp, ih']

theorem foldl_sink_congr (c1 c2 : α → α → Int) (l : List α) (h : ∀ a ∈ l, ∀ b ∈ l, c1 a b = c2 a b)
    (m acc : List α) (hm : ∀ a ∈ m, a ∈ l) (hacc : ∀ a ∈ acc, a ∈ l) :
    m.foldl (fun acc x => sink c1 x acc) acc = m.foldl (fun acc x => sink c2 x acc) acc := by
  induction m generalizing acc with
  | nil => rfl
  | cons x m ih =>
    simp only [List.foldl_cons]
    have hx : x ∈ l := hm x List.mem_cons_self
    rw [sink_congr c1 c2 x acc (fun p hp => h p (hacc p hp) x hx)]
    apply ih
    · exact fun a ha => hm a (List.mem_cons_of_mem _ ha)
    · intro a ha
      have := (sink_perm c2 x acc).subset ha
      rcases List.mem_cons.mp this with rfl | h'
      · exact hx
      · exact hacc a h'

/-- `lisort` only ever compares members of its input. -/
theorem lisort_congr (c1 c2 : α → α → Int) (l : List α) (h : ∀ a ∈ l, ∀ b ∈ l, c1 a b = c2 a b) :
    lisort c1 l = lisort c2 l := by
  unfold lisort
  rw [foldl_sink_congr c1 c2 l h l [] (fun _ ha => ha) (by simp)]

/-- a comparator that agrees with a key, and pairwise different keys: the result of `lisort`
does not depend on the order of arrival. -/
theorem lisort_canonical (cmp : α → α → Int) (key : α → Nat)
    (hc : ∀ a b, cmp a b > 0 ↔ key a > key b) (l l' : List α)
    (hd : ∀ a ∈ l, ∀ b ∈ l, key a = key b → a = b) (hp : l.Perm l') :
    lisort cmp l = lisort cmp l' := by
  have s1 := lisort_sorted cmp key hc l
  have s2 := lisort_sorted cmp key hc l'
  have p12 : (lisort cmp l).Perm (lisort cmp l') :=
    (lisort_perm cmp l).trans (hp.trans (lisort_perm cmp l').symm)
  refine List.Perm.eq_of_pairwise (le := fun p q => key p ≤ key q) ?_ s1 s2 p12
  intro a b ha hb hab hba
  have ha' : a ∈ l := (lisort_perm cmp l).subset ha
  have hb' : b ∈ l := hp.symm.subset ((lisort_perm cmp l').subset hb)
  exact hd a ha' b hb' (Nat.le_antisymm hab hba)

/-- on 31-bit values (every syme hash is masked with `0x3FFFFFFF`) the comparator's sign is the
sign of the mathematical difference. -/
theorem cmpCode_pos_iff (a b : Nat) (ha : a < 2 ^ 31) (hb : b < 2 ^ 31) : cmpCode a b > 0 ↔ a > b := by
  unfold cmpCode
  have e1 : a % 2 ^ 64 = a := Nat.mod_eq_of_lt (by omega)
  have e2 : b % 2 ^ 64 = b := Nat.mod_eq_of_lt (by omega)
  simp only [e1, e2]
  by_cases hab : b ≤ a
  · have e3 : (a + 2 ^ 64 - b) % 2 ^ 64 = a - b := by
      have : a + 2 ^ 64 - b = (a - b) + 2 ^ 64 := by omega
      rw [this, Nat.add_mod_right]
      exact Nat.mod_eq_of_lt (by omega)
    have e4 : (a - b) % 2 ^ 32 = a - b := Nat.mod_eq_of_lt (by omega)
    simp only [e3, e4]
    have : a - b < 2 ^ 31 := by omega
    simp only [this, ↓reduceIte]
    omega
  · have hlt : a < b := by omega
    have e3 : (a + 2 ^ 64 - b) % 2 ^ 64 = a + 2 ^ 64 - b := Nat.mod_eq_of_lt (by omega)
    have e4 : (a + 2 ^ 64 - b) % 2 ^ 32 = 2 ^ 32 - (b - a) := by
      have : a + 2 ^ 64 - b = (2 ^ 32 - (b - a)) + 2 ^ 32 * (2 ^ 32 - 1) := by omega
      rw [this, Nat.add_mul_mod_self_left]
      exact Nat.mod_eq_of_lt (by omega)
    simp only [e3, e4]
    have : ¬ (2 ^ 32 - (b - a) < 2 ^ 31) := by omega
    simp only [this, ↓reduceIte]
    omega

end AldorVerif.TableOrder
