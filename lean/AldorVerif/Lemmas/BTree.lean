import AldorVerif.Model.BTree
/-! Lemmas about the model of `btree.c`: in-order contents, the B-tree invariant, and the
specification of every operation against the sorted list of pairs. -/
namespace AldorVerif.BTree

/-! ## array helpers on decomposed lists -/

theorem kid_at {cl : List Node} {c : Node} {cr : List Node} {i : Nat} (h : cl.length = i) :
    kid (cl ++ c :: cr) i = c := by
  subst h; simp [kid, List.getD_eq_getElem?_getD]

theorem kid_at_succ {cl : List Node} {c d : Node} {cr : List Node} {i : Nat} (h : cl.length = i) :
    kid (cl ++ c :: d :: cr) (i + 1) = d := by
  subst h; simp [kid, List.getD_eq_getElem?_getD]

theorem kvAt_at {l : List KV} {a : KV} {r : List KV} {i : Nat} (h : l.length = i) :
    kvAt (l ++ a :: r) i = a := by
  subst h; simp [kvAt, List.getD_eq_getElem?_getD]

theorem getElem?_at {α} {l : List α} {a : α} {r : List α} {i : Nat} (h : l.length = i) :
    (l ++ a :: r)[i]? = some a := by
  subst h; simp

theorem getElem?_at_nil {α} {l : List α} {i : Nat} (h : l.length = i) :
    (l ++ ([] : List α))[i]? = none := by
  subst h; simp

theorem setAt_at {α} {l : List α} {a b : α} {r : List α} {i : Nat} (h : l.length = i) :
    setAt (l ++ a :: r) i b = l ++ b :: r := by
  subst h
  simp [setAt, List.drop_append]

theorem setAt_at_succ {α} {l : List α} {a b c : α} {r : List α} {i : Nat} (h : l.length = i) :
    setAt (l ++ a :: b :: r) (i + 1) c = l ++ a :: c :: r := by
  subst h
  have : l ++ a :: b :: r = (l ++ [a]) ++ b :: r := by simp
  rw [this, setAt_at (by simp)]; simp

theorem insAt_at {α} {l r : List α} {a : α} {i : Nat} (h : l.length = i) :
    insAt (l ++ r) i a = l ++ a :: r := by
  subst h; simp [insAt]

theorem delAt_at {α} {l : List α} {a : α} {r : List α} {i : Nat} (h : l.length = i) :
    delAt (l ++ a :: r) i = l ++ r := by
  subst h; simp [delAt, List.drop_append]

theorem take_at {α} {l r : List α} {i : Nat} (h : l.length = i) : (l ++ r).take i = l :=
  List.take_left' h

theorem drop_at {α} {l r : List α} {i : Nat} (h : l.length = i) : (l ++ r).drop i = r :=
  List.drop_left' h

theorem drop_at_succ {α} {l : List α} {a : α} {r : List α} {i : Nat} (h : l.length = i) :
    (l ++ a :: r).drop (i + 1) = r := by
  subst h; simp [List.drop_append]

theorem drop_at_succ2 {α} {l : List α} {a b : α} {r : List α} {i : Nat} (h : l.length = i) :
    (l ++ a :: b :: r).drop (i + 2) = r := by
  subst h; simp [List.drop_append]

/-- a list cut at a position not beyond its end -/
theorem exists_cut {α} (l : List α) (i : Nat) (h : i ≤ l.length) :
    ∃ a b, l = a ++ b ∧ a.length = i :=
  ⟨l.take i, l.drop i, (List.take_append_drop i l).symm, by simp; omega⟩

/-- a list cut around a valid index -/
theorem exists_cut_at {α} (l : List α) (i : Nat) (h : i < l.length) :
    ∃ a x b, l = a ++ x :: b ∧ a.length = i := by
  refine ⟨l.take i, l[i], l.drop (i + 1), ?_, by simp; omega⟩
  rw [← List.drop_eq_getElem_cons h, List.take_append_drop]

/-! ## the two scans -/

theorem mem_takeWhile_imp {α} {p : α → Bool} {l : List α} {a : α} (h : a ∈ l.takeWhile p) :
    p a = true := by
  have := @List.all_takeWhile _ p l
  rw [List.all_eq_true] at this
  exact this a h

/-- `scanL`: the keys before the stop are smaller, the key at the stop (if any) is not. -/
theorem scanL_cut (kvs : List KV) (k : Key) :
    ∃ l r, kvs = l ++ r ∧ l.length = scanL kvs k ∧ (∀ a ∈ l, a.1 < k) ∧
      (∀ a, r.head? = some a → k ≤ a.1) := by
  refine ⟨kvs.takeWhile (fun kv => kv.1 < k), kvs.dropWhile (fun kv => kv.1 < k),
    List.takeWhile_append_dropWhile.symm, rfl, ?_, ?_⟩
  · intro a ha
    have := mem_takeWhile_imp ha
    simpa using this
  · intro a ha
    have := List.head?_dropWhile_not (fun kv : KV => decide (kv.1 < k)) kvs
    rw [ha] at this
    simp at this; omega

/-- `scanR`: the keys after the stop are larger, the key just before the stop (if any) is not. -/
theorem scanR_cut (kvs : List KV) (k : Key) :
    ∃ l r, kvs = l ++ r ∧ l.length = scanR kvs k ∧ (∀ a ∈ r, k < a.1) ∧
      (∀ a, l.getLast? = some a → a.1 ≤ k) := by
  refine ⟨(kvs.reverse.dropWhile (fun kv => k < kv.1)).reverse,
    (kvs.reverse.takeWhile (fun kv => k < kv.1)).reverse, ?_, by simp [scanR], ?_, ?_⟩
  · rw [← List.reverse_append, List.takeWhile_append_dropWhile, List.reverse_reverse]
  · intro a ha
    have := mem_takeWhile_imp (List.mem_reverse.mp ha)
    simpa using this
  · intro a ha
    have := List.head?_dropWhile_not (fun kv : KV => decide (k < kv.1)) kvs.reverse
    rw [List.getLast?_reverse] at ha
    rw [ha] at this
    simp at this; omega


/-! ## in-order contents -/

/-- `c₀ k₀ c₁ k₁ …` for equally long lists -/
def pre : List (List KV) → List KV → List KV
  | c :: cs, kv :: kvs => c ++ kv :: pre cs kvs
  | _, _ => []

/-- `k₀ c₀ k₁ c₁ …` -/
def post : List KV → List (List KV) → List KV
  | kv :: kvs, c :: cs => kv :: (c ++ post kvs cs)
  | _, _ => []

/-- `c₀ k₀ c₁ … k_{n-1} c_n` -/
def interleave : List (List KV) → List KV → List KV
  | [], _ => []
  | c :: cs, kvs => c ++ post kvs cs

/-- the pairs of a tree of height `h` in order -/
def contents : Nat → Node → List KV
  | _, .leaf kvs => kvs
  | 0, .node _ _ => []
  | h + 1, .node kvs kids => interleave (kids.map (contents h)) kvs

@[simp] theorem post_nil_left (cs : List (List KV)) : post [] cs = [] := by
  cases cs <;> rfl
@[simp] theorem post_nil_right (ks : List KV) : post ks [] = [] := by
  cases ks <;> rfl
@[simp] theorem post_cons (kv : KV) (ks : List KV) (c : List KV) (cs : List (List KV)) :
    post (kv :: ks) (c :: cs) = kv :: (c ++ post ks cs) := rfl
@[simp] theorem pre_nil_left (ks : List KV) : pre [] ks = [] := rfl
@[simp] theorem pre_nil_right (cs : List (List KV)) : pre cs [] = [] := by
  cases cs <;> rfl
@[simp] theorem pre_cons (kv : KV) (ks : List KV) (c : List KV) (cs : List (List KV)) :
    pre (c :: cs) (kv :: ks) = c ++ kv :: pre cs ks := rfl

theorem interleave_split (cl : List (List KV)) (c : List KV) (cr : List (List KV)) (kl kr : List KV)
    (h : cl.length = kl.length) :
    interleave (cl ++ c :: cr) (kl ++ kr) = pre cl kl ++ c ++ post kr cr := by
  induction cl generalizing kl with
  | nil =>
    cases kl with
    | nil => simp [interleave]
    | cons _ _ => simp at h
  | cons a cl ih =>
    cases kl with
    | nil => simp at h
    | cons kv kl =>
      simp only [List.length_cons, Nat.add_right_cancel_iff] at h
      have := ih kl h
      cases cl with
      | nil =>
        cases kl with
        | nil => simp [interleave]
        | cons _ _ => simp at h
      | cons b cl =>
        simp only [interleave, List.cons_append, post_cons, pre_cons] at this ⊢
        rw [this]; simp

theorem pre_append (cl cs : List (List KV)) (kl ks : List KV) (h : cl.length = kl.length) :
    pre (cl ++ cs) (kl ++ ks) = pre cl kl ++ pre cs ks := by
  induction cl generalizing kl with
  | nil => cases kl with
    | nil => simp
    | cons _ _ => simp at h
  | cons a cl ih =>
    cases kl with
    | nil => simp at h
    | cons kv kl =>
      simp only [List.length_cons, Nat.add_right_cancel_iff] at h
      simp [ih kl h]

/-- contents of an interior node, focused on one branch -/
theorem contents_node (h : Nat) (kl kr : List KV) (cl : List Node) (c : Node) (cr : List Node)
    (hl : cl.length = kl.length) :
    contents (h + 1) (.node (kl ++ kr) (cl ++ c :: cr)) =
      pre (cl.map (contents h)) kl ++ contents h c ++ post kr (cr.map (contents h)) := by
  simp only [contents, List.map_append, List.map_cons]
  exact interleave_split _ _ _ _ _ (by simpa using hl)


/-! ## invariant -/

/-- shape of a subtree of height `h`: at most `2t-1` keys, `nKeys+1` branches, every branch has at
    least `t-1` keys and the same height (the lower bound for the node itself is stated outside). -/
def Shape (t : Nat) : Nat → Node → Prop
  | 0, .leaf kvs => kvs.length ≤ 2 * t - 1
  | h + 1, .node kvs kids =>
      kvs.length ≤ 2 * t - 1 ∧ kids.length = kvs.length + 1 ∧
        ∀ c ∈ kids, t - 1 ≤ c.nKeys ∧ Shape t h c
  | _, _ => False

abbrev Sorted (l : List KV) : Prop := l.Pairwise (fun a b => a.1 ≤ b.1)

theorem shape_zero {t : Nat} {x : Node} (h : Shape t 0 x) : ∃ kvs, x = .leaf kvs ∧ kvs.length ≤ 2 * t - 1 := by
  cases x with
  | leaf kvs => exact ⟨kvs, rfl, h⟩
  | node _ _ => simp [Shape] at h

theorem shape_succ {t h : Nat} {x : Node} (hs : Shape t (h + 1) x) :
    ∃ kvs kids, x = .node kvs kids ∧ kvs.length ≤ 2 * t - 1 ∧ kids.length = kvs.length + 1 ∧
      ∀ c ∈ kids, t - 1 ≤ c.nKeys ∧ Shape t h c := by
  cases x with
  | leaf kvs => simp [Shape] at hs
  | node kvs kids => exact ⟨kvs, kids, rfl, hs⟩

theorem shape_nKeys {t h : Nat} {x : Node} (hs : Shape t h x) : x.nKeys ≤ 2 * t - 1 := by
  cases h with
  | zero => obtain ⟨kvs, rfl, h⟩ := shape_zero hs; exact h
  | succ h => obtain ⟨kvs, kids, rfl, h, _⟩ := shape_succ hs; exact h

theorem sorted_le_last {l : List KV} (hs : Sorted l) {a : KV} (ha : l.getLast? = some a) :
    ∀ b ∈ l, b.1 ≤ a.1 := by
  obtain ⟨l', rfl⟩ : ∃ l', l = l' ++ [a] := by
    rcases List.eq_nil_or_concat l with rfl | ⟨l', b, hl⟩
    · simp at ha
    · rw [List.concat_eq_append] at hl; subst hl
      simp at ha; subst ha; exact ⟨l', rfl⟩
  intro b hb
  simp only [Sorted, List.pairwise_append] at hs
  simp only [List.mem_append, List.mem_singleton] at hb
  rcases hb with hb | rfl
  · exact hs.2.2 b hb a (by simp)
  · exact Nat.le_refl _

theorem sorted_head_le {l : List KV} (hs : Sorted l) {a : KV} (ha : l.head? = some a) :
    ∀ b ∈ l, a.1 ≤ b.1 := by
  cases l with
  | nil => simp at ha
  | cons x l =>
    simp at ha; subst ha
    intro b hb
    simp only [Sorted, List.pairwise_cons] at hs
    simp only [List.mem_cons] at hb
    rcases hb with rfl | hb
    · exact Nat.le_refl _
    · exact hs.1 b hb

theorem pre_getLast (cl : List (List KV)) (kl : List KV) (h : cl.length = kl.length) :
    (pre cl kl).getLast? = kl.getLast? := by
  induction cl generalizing kl with
  | nil => cases kl with
    | nil => rfl
    | cons _ _ => simp at h
  | cons c cl ih =>
    cases kl with
    | nil => simp at h
    | cons kv kl =>
      simp only [List.length_cons, Nat.add_right_cancel_iff] at h
      have := ih kl h
      simp only [pre_cons, List.getLast?_append]
      cases kl with
      | nil => cases cl with
        | nil => simp
        | cons _ _ => simp at h
      | cons kv2 kl =>
        cases cl with
        | nil => simp at h
        | cons c2 cl =>
          rw [List.getLast?_cons (a := kv), List.getLast?_cons (a := kv)]
          simp only [pre_cons] at this ⊢
          rw [this]
          simp

theorem post_head (kr : List KV) (cr : List (List KV)) (h : kr.length ≤ cr.length) :
    (post kr cr).head? = kr.head? := by
  cases kr with
  | nil => simp
  | cons kv kr => cases cr with
    | nil => simp at h
    | cons c cr => simp


/-! ## `btreeSplitChild` -/

theorem interleave_mid (ka kb : List (List KV)) (a b : List KV) (m : KV)
    (h : ka.length = a.length + 1) (hb : kb ≠ []) :
    interleave (ka ++ kb) (a ++ m :: b) = interleave ka a ++ m :: interleave kb b := by
  obtain ⟨ka', c, r, rfl, hlen⟩ := exists_cut_at ka a.length (by omega)
  have hr : r = [] := by
    have : (ka' ++ c :: r).length = a.length + 1 := h
    simp at this
    cases r with
    | nil => rfl
    | cons _ _ => simp at this; omega
  subst hr
  cases kb with
  | nil => exact absurd rfl hb
  | cons d kb =>
    have e1 := interleave_split ka' c (d :: kb) a (m :: b) hlen
    have e2 := interleave_split ka' c [] a [] hlen
    simp only [List.append_nil, post_nil_left] at e2
    simp only [List.append_assoc, List.cons_append, List.nil_append] at e1 ⊢
    rw [e1, e2]
    simp [interleave]

theorem splitChild_eq (t : Nat) (kl kr : List KV) (cl : List Node) (y : Node) (cr : List Node)
    (hl : cl.length = kl.length) :
    splitChild t (.node (kl ++ kr) (cl ++ y :: cr)) kl.length =
      .node (kl ++ kvAt y.kvs (t - 1) :: kr)
        (cl ++ y.like (y.kvs.take (t - 1)) (y.kids.take t) ::
           y.like ((y.kvs.drop t).take (t - 1)) ((y.kids.drop t).take t) :: cr) := by
  simp [splitChild, Node.like, Node.kvs, Node.kids, kid_at hl, insAt_at, take_at hl, drop_at_succ hl]

theorem split_halves (t h : Nat) (ht : 1 ≤ t) (y : Node) (hs : Shape t h y) (hf : y.nKeys = 2 * t - 1) :
    Shape t h (y.like (y.kvs.take (t - 1)) (y.kids.take t)) ∧
    Shape t h (y.like ((y.kvs.drop t).take (t - 1)) ((y.kids.drop t).take t)) ∧
    (y.like (y.kvs.take (t - 1)) (y.kids.take t)).nKeys = t - 1 ∧
    (y.like ((y.kvs.drop t).take (t - 1)) ((y.kids.drop t).take t)).nKeys = t - 1 ∧
    contents h y = contents h (y.like (y.kvs.take (t - 1)) (y.kids.take t)) ++
      kvAt y.kvs (t - 1) :: contents h (y.like ((y.kvs.drop t).take (t - 1)) ((y.kids.drop t).take t)) := by
  cases h with
  | zero =>
    obtain ⟨kvs, rfl, _⟩ := shape_zero hs
    simp only [Node.nKeys, Node.kvs] at hf
    obtain ⟨a, m, b, rfl, ha⟩ := exists_cut_at kvs (t - 1) (by omega)
    have hb : b.length = t - 1 := by simp at hf; omega
    have ht' : t - 1 + 1 = t := by omega
    have hd : (a ++ m :: b).drop t = b := by
      have := drop_at_succ (l := a) (a := m) (r := b) ha
      rwa [ht'] at this
    simp only [Node.like, Node.kvs, take_at ha, kvAt_at ha, hd, Shape, contents, Node.nKeys]
    rw [List.take_of_length_le (by omega)]
    refine ⟨by omega, by omega, ha, hb, rfl⟩
  | succ h =>
    obtain ⟨kvs, kids, rfl, hk, hkids, hc⟩ := shape_succ hs
    simp only [Node.nKeys, Node.kvs] at hf
    obtain ⟨a, m, b, rfl, ha⟩ := exists_cut_at kvs (t - 1) (by omega)
    have hb : b.length = t - 1 := by simp at hf; omega
    have ht' : t - 1 + 1 = t := by omega
    have hd : (a ++ m :: b).drop t = b := by
      have := drop_at_succ (l := a) (a := m) (r := b) ha
      rwa [ht'] at this
    obtain ⟨ka, kb, rfl, hka⟩ := exists_cut kids t (by simp at hkids; omega)
    have hkb : kb.length = t := by simp at hkids; omega
    have hkbne : kb ≠ [] := by intro h0; subst h0; simp at hkb; omega
    simp only [Node.like, Node.kvs, Node.kids, take_at ha, kvAt_at ha, hd, take_at hka, drop_at hka,
      Shape, Node.nKeys]
    rw [List.take_of_length_le (l := b) (by omega), List.take_of_length_le (l := kb) (by omega)]
    refine ⟨⟨by omega, by omega, fun c hcm => hc c (by simp [hcm])⟩,
            ⟨by omega, by omega, fun c hcm => hc c (by simp [hcm])⟩, ha, hb, ?_⟩
    simp only [contents, List.map_append]
    exact interleave_mid _ _ _ _ _ (by simp; omega) (by simpa using hkbne)


/-! ## `btreeInsertX` -/

/-- what an insertion does to the in-order contents: the pair goes between the pairs with
    keys `≤ k` and those with keys `≥ k` -/
def InsSpec (k : Key) (e : Ent) (old new : List KV) : Prop :=
  ∃ l r, old = l ++ r ∧ new = l ++ (k, e) :: r ∧ (∀ a ∈ l, a.1 ≤ k) ∧ (∀ a ∈ r, k ≤ a.1)

theorem all_le_of_getLast {l : List KV} (hs : Sorted l) {k : Key}
    (h : ∀ a, l.getLast? = some a → a.1 ≤ k) : ∀ b ∈ l, b.1 ≤ k := by
  intro b hb
  cases hl : l.getLast? with
  | none => simp at hl; subst hl; simp at hb
  | some a => exact Nat.le_trans (sorted_le_last hs hl b hb) (h a hl)

theorem all_ge_of_head {l : List KV} (hs : Sorted l) {k : Key}
    (h : ∀ a, l.head? = some a → k ≤ a.1) : ∀ b ∈ l, k ≤ b.1 := by
  intro b hb
  cases hl : l.head? with
  | none => simp at hl; subst hl; simp at hb
  | some a => exact Nat.le_trans (h a hl) (sorted_head_le hs hl b hb)

theorem ins_focus (h : Nat) (kl kr : List KV) (cl : List Node) (c c' : Node) (cr : List Node)
    (hl : cl.length = kl.length) (hr : kr.length = cr.length) (k : Key) (e : Ent)
    (hs : Sorted (contents (h + 1) (.node (kl ++ kr) (cl ++ c :: cr))))
    (hlo : ∀ a, kl.getLast? = some a → a.1 ≤ k) (hhi : ∀ a, kr.head? = some a → k ≤ a.1)
    (hc : InsSpec k e (contents h c) (contents h c')) :
    InsSpec k e (contents (h + 1) (.node (kl ++ kr) (cl ++ c :: cr)))
      (contents (h + 1) (.node (kl ++ kr) (cl ++ c' :: cr))) := by
  rw [contents_node h kl kr cl c cr hl] at hs ⊢
  rw [contents_node h kl kr cl c' cr hl]
  obtain ⟨l', r', h1, h2, h3, h4⟩ := hc
  rw [h1] at hs ⊢
  rw [h2]
  simp only [Sorted, List.pairwise_append] at hs
  refine ⟨pre (cl.map (contents h)) kl ++ l', r' ++ post kr (cr.map (contents h)), by simp, by simp, ?_, ?_⟩
  · intro a ha
    rcases List.mem_append.mp ha with ha | ha
    · exact all_le_of_getLast hs.1.1 (by rw [pre_getLast _ _ (by simpa using hl)]; exact hlo) a ha
    · exact h3 a ha
  · intro a ha
    rcases List.mem_append.mp ha with ha | ha
    · exact h4 a ha
    · exact all_ge_of_head hs.2.1 (by rw [post_head _ _ (by simp; omega)]; exact hhi) a ha

theorem insertNonFull_spec (t : Nat) (ht : 1 ≤ t) (k : Key) (e : Ent) :
    ∀ (h : Nat) (x : Node), Shape t h x → x.nKeys < 2 * t - 1 → Sorted (contents h x) →
      Shape t h (insertNonFull t h x k e) ∧
      x.nKeys ≤ (insertNonFull t h x k e).nKeys ∧ (insertNonFull t h x k e).nKeys ≤ x.nKeys + 1 ∧
      InsSpec k e (contents h x) (contents h (insertNonFull t h x k e)) := by
  intro h
  induction h with
  | zero =>
    intro x hs hn hso
    obtain ⟨kvs, rfl, _⟩ := shape_zero hs
    obtain ⟨l, r, rfl, hlen, hr, hl⟩ := scanR_cut kvs k
    simp only [insertNonFull, ← hlen, insAt_at rfl, Shape, Node.nKeys, Node.kvs, contents] at hn hso ⊢
    refine ⟨by simp at hn ⊢; omega, by simp, by simp; omega, l, r, rfl, rfl, ?_, fun a ha => Nat.le_of_lt (hr a ha)⟩
    simp only [Sorted, List.pairwise_append] at hso
    exact all_le_of_getLast hso.1 hl
  | succ h ih =>
    intro x hs hn hso
    obtain ⟨kvs, kids, rfl, hk, hkids, hc⟩ := shape_succ hs
    obtain ⟨kl, kr, rfl, hlen, hkr, hkl⟩ := scanR_cut kvs k
    obtain ⟨cl, c, cr, rfl, hcl⟩ := exists_cut_at kids kl.length (by simp at hkids ⊢; omega)
    have hcr : kr.length = cr.length := by simp at hkids; omega
    have hhi : ∀ a, kr.head? = some a → k ≤ a.1 := fun a ha =>
      Nat.le_of_lt (hkr a (List.mem_of_mem_head? ha))
    have hcc := hc c (by simp)
    have hn' : kl.length + kr.length < 2 * t - 1 := by simpa [Node.nKeys, Node.kvs] using hn
    simp only [insertNonFull, ← hlen, kid_at hcl, setAt_at hcl]
    by_cases hfull : c.nKeys = 2 * t - 1
    · -- the branch is full: split it first
      simp only [hfull, if_true]
      rw [splitChild_eq t kl kr cl c cr hcl]
      obtain ⟨hyl, hyr, hnl, hnr, hcont⟩ := split_halves t h ht c hcc.2 hfull
      generalize hYL : c.like (c.kvs.take (t - 1)) (c.kids.take t) = yl at *
      generalize hYR : c.like ((c.kvs.drop t).take (t - 1)) ((c.kids.drop t).take t) = yr at *
      generalize hM : kvAt c.kvs (t - 1) = m at *
      -- contents of the node after the split
      have hsplit : contents (h + 1) (.node (kl ++ m :: kr) (cl ++ yl :: yr :: cr)) =
          contents (h + 1) (.node (kl ++ kr) (cl ++ c :: cr)) := by
        rw [contents_node h kl (m :: kr) cl yl (yr :: cr) hcl, contents_node h kl kr cl c cr hcl, hcont]
        simp
      have hso' : Sorted (contents (h + 1) (.node (kl ++ m :: kr) (cl ++ yl :: yr :: cr))) := by
        rw [hsplit]; exact hso
      simp only [Node.kvs, Node.kids, kvAt_at rfl]
      by_cases hgo : m.1 < k
      · -- continue in the right half
        simp only [hgo, if_true, kid_at_succ hcl, setAt_at_succ hcl]
        have hyrn : yr.nKeys < 2 * t - 1 := by omega
        have hsub : Sorted (contents h yr) := by
          have := hso'
          rw [contents_node h kl (m :: kr) cl yl (yr :: cr) hcl] at this
          simp only [post_cons, List.map_cons, Sorted, List.pairwise_append, List.pairwise_cons] at this
          exact this.2.1.2.1
        obtain ⟨i1, i2, i3, i4⟩ := ih yr hyr hyrn hsub
        refine ⟨?_, by simp [Node.nKeys, Node.kvs], by simp [Node.nKeys, Node.kvs]; omega, ?_⟩
        · simp only [Shape]
          refine ⟨by simp only [List.length_append, List.length_cons]; omega, by simp only [List.length_append, List.length_cons]; omega, ?_⟩
          intro d hd
          simp only [List.mem_append, List.mem_cons] at hd
          rcases hd with hd | rfl | rfl | hd
          · exact hc d (by simp [hd])
          · exact ⟨by omega, hyl⟩
          · exact ⟨by omega, i1⟩
          · exact hc d (by simp [hd])
        · rw [← hsplit]
          have e1 : kl ++ m :: kr = (kl ++ [m]) ++ kr := by simp
          have e2 : ∀ z, cl ++ yl :: z :: cr = (cl ++ [yl]) ++ z :: cr := by simp
          rw [e1, e2, e2]
          apply ins_focus h (kl ++ [m]) kr (cl ++ [yl]) yr _ cr (by simp; omega) hcr k e
          · rw [← e1, ← e2]; exact hso'
          · intro a ha; simp at ha; subst ha; exact Nat.le_of_lt hgo
          · exact hhi
          · exact i4
      · -- continue in the left half
        simp only [hgo, if_false, kid_at hcl, setAt_at hcl]
        have hyln : yl.nKeys < 2 * t - 1 := by omega
        have hsub : Sorted (contents h yl) := by
          have := hso'
          rw [contents_node h kl (m :: kr) cl yl (yr :: cr) hcl] at this
          simp only [Sorted, List.pairwise_append] at this
          exact this.1.2.1
        obtain ⟨i1, i2, i3, i4⟩ := ih yl hyl hyln hsub
        refine ⟨?_, by simp [Node.nKeys, Node.kvs], by simp [Node.nKeys, Node.kvs]; omega, ?_⟩
        · simp only [Shape]
          refine ⟨by simp only [List.length_append, List.length_cons]; omega, by simp only [List.length_append, List.length_cons]; omega, ?_⟩
          intro d hd
          simp only [List.mem_append, List.mem_cons] at hd
          rcases hd with hd | rfl | rfl | hd
          · exact hc d (by simp [hd])
          · exact ⟨by omega, i1⟩
          · exact ⟨by omega, hyr⟩
          · exact hc d (by simp [hd])
        · rw [← hsplit]
          apply ins_focus h kl (m :: kr) cl yl _ (yr :: cr) hcl (by simp; omega) k e hso' hkl
          · intro a ha; simp at ha; subst ha; exact Nat.le_of_not_lt hgo
          · exact i4
    · simp only [hfull, if_false]
      have hcn : c.nKeys < 2 * t - 1 := by
        have := shape_nKeys hcc.2; omega
      have hsub : Sorted (contents h c) := by
        have := hso
        rw [contents_node h kl kr cl c cr hcl] at this
        simp only [Sorted, List.pairwise_append] at this
        exact this.1.2.1
      obtain ⟨i1, i2, i3, i4⟩ := ih c hcc.2 hcn hsub
      refine ⟨?_, by simp [Node.nKeys, Node.kvs], by simp [Node.nKeys, Node.kvs], ?_⟩
      · simp only [Shape]
        refine ⟨hk, by simp only [List.length_append, List.length_cons]; omega, ?_⟩
        intro d hd
        simp only [List.mem_append, List.mem_cons] at hd
        rcases hd with hd | rfl | hd
        · exact hc d (by simp [hd])
        · exact ⟨by omega, i1⟩
        · exact hc d (by simp [hd])
      · exact ins_focus h kl kr cl c _ cr hcl hcr k e hso hkl hhi i4


/-- the B-tree invariant of a whole tree: degree at least 2, shape (key counts, branch counts,
    uniform height `h`), an interior root has a key, and the in-order keys ascend. -/
def Inv (b : BTree) : Prop :=
  2 ≤ b.t ∧ Shape b.t b.h b.root ∧ (0 < b.h → 1 ≤ b.root.nKeys) ∧ Sorted (contents b.h b.root)

/-- abstraction: the pairs of the tree in order -/
def BTree.contents (b : BTree) : List KV := AldorVerif.BTree.contents b.h b.root

theorem InsSpec.sorted {k : Key} {e : Ent} {old new : List KV} (hs : Sorted old)
    (h : InsSpec k e old new) : Sorted new := by
  obtain ⟨l, r, rfl, rfl, hl, hr⟩ := h
  simp only [Sorted, List.pairwise_append, List.pairwise_cons, List.mem_cons] at hs ⊢
  refine ⟨hs.1, ⟨hr, hs.2.1⟩, ?_⟩
  intro a ha b hb
  rcases hb with rfl | hb
  · exact hl a ha
  · exact hs.2.2 a ha b hb

theorem InsSpec.perm {k : Key} {e : Ent} {old new : List KV} (h : InsSpec k e old new) :
    new.Perm ((k, e) :: old) := by
  obtain ⟨l, r, rfl, rfl, _, _⟩ := h
  exact List.perm_middle

theorem inv_new (t : Nat) (ht : 2 ≤ t) : Inv (BTree.new t) := by
  refine ⟨ht, ?_, ?_, ?_⟩ <;> simp [BTree.new, Shape, contents]

theorem insert_spec (b : BTree) (hb : Inv b) (k : Key) (e : Ent) :
    Inv (b.insert k e) ∧ InsSpec k e b.contents (b.insert k e).contents := by
  obtain ⟨ht, hs, hr, hso⟩ := hb
  unfold BTree.insert BTree.contents
  by_cases hfull : b.root.nKeys = 2 * b.t - 1
  · simp only [hfull, if_true]
    have hsp := splitChild_eq b.t [] [] [] b.root [] rfl
    simp only [List.nil_append, List.length_nil] at hsp
    rw [hsp]
    obtain ⟨hyl, hyr, hnl, hnr, hcont⟩ := split_halves b.t b.h (by omega) b.root hs hfull
    generalize b.root.like (b.root.kvs.take (b.t - 1)) (b.root.kids.take b.t) = yl at *
    generalize b.root.like ((b.root.kvs.drop b.t).take (b.t - 1)) ((b.root.kids.drop b.t).take b.t) = yr at *
    generalize kvAt b.root.kvs (b.t - 1) = m at *
    have hc : contents (b.h + 1) (.node [m] [yl, yr]) = contents b.h b.root := by
      have := contents_node b.h [] [m] [] yl [yr] rfl
      simp only [List.nil_append] at this
      rw [this, hcont]; simp
    have hshape : Shape b.t (b.h + 1) (.node [m] [yl, yr]) := by
      simp only [Shape]
      refine ⟨by simp; omega, by simp, ?_⟩
      intro c hc
      simp only [List.mem_cons, List.not_mem_nil, or_false] at hc
      rcases hc with rfl | rfl
      · exact ⟨by omega, hyl⟩
      · exact ⟨by omega, hyr⟩
    obtain ⟨i1, i2, i3, i4⟩ := insertNonFull_spec b.t (by omega) k e (b.h + 1) _ hshape
      (by simp [Node.nKeys, Node.kvs]; omega) (by rw [hc]; exact hso)
    rw [hc] at i4
    refine ⟨⟨ht, i1, fun _ => ?_, i4.sorted hso⟩, i4⟩
    simp [Node.nKeys, Node.kvs] at i2
    exact i2
  · simp only [hfull, if_false]
    have hn : b.root.nKeys < 2 * b.t - 1 := by
      have := shape_nKeys hs; omega
    obtain ⟨i1, i2, i3, i4⟩ := insertNonFull_spec b.t (by omega) k e b.h _ hs hn hso
    exact ⟨⟨ht, i1, fun h0 => Nat.le_trans (hr h0) i2, i4.sorted hso⟩, i4⟩


/-! ## searches -/

theorem length_post (ks : List KV) (cs : List (List KV)) (h : ks.length ≤ cs.length) :
    ks.length ≤ (post ks cs).length := by
  induction ks generalizing cs with
  | nil => simp
  | cons kv ks ih =>
    cases cs with
    | nil => simp at h
    | cons c cs =>
      simp only [List.length_cons, Nat.add_le_add_iff_right] at h
      have := ih cs h
      simp only [post_cons, List.length_cons, List.length_append]; omega

/-- a node with `n` keys holds at least `n` pairs -/
theorem nKeys_le_contents {t h : Nat} {x : Node} (hs : Shape t h x) :
    x.nKeys ≤ (contents h x).length := by
  cases h with
  | zero => obtain ⟨kvs, rfl, _⟩ := shape_zero hs; simp [contents, Node.nKeys, Node.kvs]
  | succ h =>
    obtain ⟨kvs, kids, rfl, _, hkids, _⟩ := shape_succ hs
    cases kids with
    | nil => simp at hkids
    | cons c cs =>
      simp only [contents, List.map_cons, interleave, List.length_append, Node.nKeys, Node.kvs]
      have := length_post kvs (cs.map (contents h)) (by simp at hkids ⊢; omega)
      omega

theorem contents_ne_nil {t h : Nat} {x : Node} (hs : Shape t h x) (hn : 1 ≤ x.nKeys) :
    contents h x ≠ [] := by
  intro h0
  have := nKeys_le_contents hs
  rw [h0] at this; simp at this; omega

/-- the frame around one branch of a sorted interior node -/
theorem node_frame (h : Nat) (kl kr : List KV) (cl : List Node) (c : Node) (cr : List Node)
    (hl : cl.length = kl.length) (hr : kr.length = cr.length)
    (hso : Sorted (contents (h + 1) (.node (kl ++ kr) (cl ++ c :: cr)))) :
    ∃ P Q, contents (h + 1) (.node (kl ++ kr) (cl ++ c :: cr)) = P ++ contents h c ++ Q ∧
      (∀ c', contents (h + 1) (.node (kl ++ kr) (cl ++ c' :: cr)) = P ++ contents h c' ++ Q) ∧
      Sorted (P ++ contents h c ++ Q) ∧ P.getLast? = kl.getLast? ∧ Q.head? = kr.head? ∧
      (∀ a ∈ kl, a ∈ P) ∧ (∀ a ∈ kr, a ∈ Q) := by
  refine ⟨pre (cl.map (contents h)) kl, post kr (cr.map (contents h)),
    contents_node h kl kr cl c cr hl, fun c' => contents_node h kl kr cl c' cr hl, ?_,
    pre_getLast _ _ (by simpa using hl), post_head _ _ (by simp; omega), ?_, ?_⟩
  · rw [← contents_node h kl kr cl c cr hl]; exact hso
  · clear hso hr
    induction cl generalizing kl with
    | nil => cases kl with
      | nil => simp
      | cons _ _ => simp at hl
    | cons d cl ih =>
      cases kl with
      | nil => simp at hl
      | cons kv kl =>
        simp only [List.length_cons, Nat.add_right_cancel_iff] at hl
        intro a ha
        simp only [List.map_cons, pre_cons, List.mem_append, List.mem_cons] at ha ⊢
        rcases ha with rfl | ha
        · exact Or.inr (Or.inl rfl)
        · exact Or.inr (Or.inr (ih kl hl a ha))
  · clear hso hl
    induction kr generalizing cr with
    | nil => simp
    | cons kv kr ih =>
      cases cr with
      | nil => simp at hr
      | cons d cr =>
        simp only [List.length_cons, Nat.add_right_cancel_iff] at hr
        intro a ha
        simp only [List.map_cons, post_cons, List.mem_append, List.mem_cons] at ha ⊢
        rcases ha with rfl | ha
        · exact Or.inl rfl
        · exact Or.inr (Or.inr (ih cr hr a ha))

theorem hitAt_at {l : List KV} {a : KV} {r : List KV} {i : Nat} (h : l.length = i) (k : Key) :
    hitAt (l ++ a :: r) i k = (k == a.1) := by
  simp [hitAt, getElem?_at h]

theorem hitAt_nil {l : List KV} {i : Nat} (h : l.length = i) (k : Key) :
    hitAt (l ++ []) i k = false := by
  subst h; simp [hitAt]

/-- `btreeSearchEQ` on a subtree -/
theorem searchEQ_spec (t : Nat) (k : Key) :
    ∀ (h : Nat) (x : Node), Shape t h x → Sorted (contents h x) →
      (∀ kv, searchEQ h x k = some kv → kv.1 = k ∧ kv ∈ contents h x) ∧
      (searchEQ h x k = none → ∀ kv ∈ contents h x, kv.1 ≠ k) := by
  intro h
  induction h with
  | zero =>
    intro x hs hso
    obtain ⟨kvs, rfl, _⟩ := shape_zero hs
    obtain ⟨l, r, rfl, hlen, hl, hr⟩ := scanL_cut kvs k
    simp only [searchEQ, ← hlen, contents] at hso ⊢
    cases r with
    | nil =>
      simp only [hitAt_nil rfl]
      refine ⟨by simp, fun _ kv hkv => ?_⟩
      have := hl kv (by simpa using hkv)
      exact Nat.ne_of_lt this
    | cons a r =>
      simp only [hitAt_at rfl, getElem?_at rfl]
      by_cases hk : k = a.1
      · simp [hk]
      · have hk' : (k == a.1) = false := by simpa using hk
        simp only [hk']
        refine ⟨by simp, fun _ kv hkv => ?_⟩
        have hka : k < a.1 := Nat.lt_of_le_of_ne (hr a rfl) hk
        simp only [Sorted, List.pairwise_append] at hso
        rcases List.mem_append.mp hkv with hm | hm
        · exact Nat.ne_of_lt (hl kv hm)
        · have := sorted_head_le hso.2.1 (a := a) rfl kv hm
          exact Nat.ne_of_gt (Nat.lt_of_lt_of_le hka this)
  | succ h ih =>
    intro x hs hso
    obtain ⟨kvs, kids, rfl, hk, hkids, hc⟩ := shape_succ hs
    obtain ⟨kl, kr, rfl, hlen, hkl, hkr⟩ := scanL_cut kvs k
    obtain ⟨cl, c, cr, rfl, hcl⟩ := exists_cut_at kids kl.length (by simp at hkids ⊢; omega)
    have hcr : kr.length = cr.length := by simp at hkids; omega
    obtain ⟨P, Q, hcont, _, hsoPQ, hP, hQ, hmP, hmQ⟩ := node_frame h kl kr cl c cr hcl hcr hso
    have hPlt : ∀ a ∈ P, a.1 < k := by
      intro a ha
      simp only [Sorted, List.pairwise_append] at hsoPQ
      cases hlast : P.getLast? with
      | none => simp at hlast; subst hlast; simp at ha
      | some b =>
        have h1 := sorted_le_last hsoPQ.1.1 hlast a ha
        have h2 := hkl b (List.mem_of_getLast? (hP ▸ hlast))
        exact Nat.lt_of_le_of_lt h1 h2
    have hsub : Sorted (contents h c) := by
      simp only [Sorted, List.pairwise_append] at hsoPQ
      exact hsoPQ.1.2.1
    have ihc := ih c (hc c (by simp)).2 hsub
    rw [hcont]
    simp only [searchEQ, ← hlen, kid_at hcl]
    cases kr with
    | nil =>
      simp only [hitAt_nil rfl, Bool.false_eq_true, if_false]
      have hQ0 : Q = [] := by simpa using hQ
      subst hQ0
      refine ⟨fun kv hkv => ⟨(ihc.1 kv hkv).1, by simp [(ihc.1 kv hkv).2]⟩, fun hn kv hkv => ?_⟩
      simp only [List.append_nil, List.mem_append] at hkv
      rcases hkv with hm | hm
      · exact Nat.ne_of_lt (hPlt kv hm)
      · exact ihc.2 hn kv hm
    | cons a kr =>
      simp only [hitAt_at rfl, getElem?_at rfl]
      by_cases hka : k = a.1
      · simp only [hka, beq_self_eq_true, if_true]
        refine ⟨fun kv hkv => ?_, by simp⟩
        have hakv : a = kv := by simpa using hkv
        subst hakv
        exact ⟨rfl, by simp [hmQ a (by simp)]⟩
      · have hk' : (k == a.1) = false := by simpa using hka
        simp only [hk', Bool.false_eq_true, if_false]
        have hlt : k < a.1 := Nat.lt_of_le_of_ne (hkr a rfl) hka
        refine ⟨fun kv hkv => ⟨(ihc.1 kv hkv).1, by simp [(ihc.1 kv hkv).2]⟩, fun hn kv hkv => ?_⟩
        simp only [List.mem_append] at hkv
        rcases hkv with (hm | hm) | hm
        · exact Nat.ne_of_lt (hPlt kv hm)
        · exact ihc.2 hn kv hm
        · simp only [Sorted, List.pairwise_append] at hsoPQ
          have := sorted_head_le hsoPQ.2.1 (a := a) (by rw [hQ]; rfl) kv hm
          exact Nat.ne_of_gt (Nat.lt_of_lt_of_le hlt this)


/-- `btreeSearchGE` on a subtree: a least pair with key `≥ k`, or `last` when all keys are smaller -/
theorem searchGE_spec (t : Nat) (k : Key) :
    ∀ (h : Nat) (x : Node) (last : Option KV), Shape t h x → Sorted (contents h x) →
      (∃ kv, searchGE h x k last = some kv ∧ kv ∈ contents h x ∧ k ≤ kv.1 ∧
          ∀ a ∈ contents h x, k ≤ a.1 → kv.1 ≤ a.1) ∨
      (searchGE h x k last = last ∧ ∀ a ∈ contents h x, a.1 < k) := by
  intro h
  induction h with
  | zero =>
    intro x last hs hso
    obtain ⟨kvs, rfl, _⟩ := shape_zero hs
    obtain ⟨l, r, rfl, hlen, hl, hr⟩ := scanL_cut kvs k
    simp only [searchGE, ← hlen, contents] at hso ⊢
    cases r with
    | nil =>
      simp only [hitAt_nil rfl, getElem?_at_nil rfl]
      exact Or.inr ⟨by simp, fun a ha => hl a (by simpa using ha)⟩
    | cons a r =>
      have hka : k ≤ a.1 := hr a rfl
      simp only [hitAt_at rfl, getElem?_at rfl, hka, if_true, ite_self]
      refine Or.inl ⟨a, rfl, by simp, hka, fun b hb hkb => ?_⟩
      simp only [Sorted, List.pairwise_append] at hso
      rcases List.mem_append.mp hb with hm | hm
      · exact absurd (hl b hm) (Nat.not_lt.mpr hkb)
      · exact sorted_head_le hso.2.1 (a := a) rfl b hm
  | succ h ih =>
    intro x last hs hso
    obtain ⟨kvs, kids, rfl, hk, hkids, hc⟩ := shape_succ hs
    obtain ⟨kl, kr, rfl, hlen, hkl, hkr⟩ := scanL_cut kvs k
    obtain ⟨cl, c, cr, rfl, hcl⟩ := exists_cut_at kids kl.length (by simp at hkids ⊢; omega)
    have hcr : kr.length = cr.length := by simp at hkids; omega
    obtain ⟨P, Q, hcont, _, hsoPQ, hP, hQ, hmP, hmQ⟩ := node_frame h kl kr cl c cr hcl hcr hso
    have hso3 := hsoPQ
    simp only [Sorted, List.pairwise_append] at hso3
    have hPlt : ∀ a ∈ P, a.1 < k := by
      intro a ha
      cases hlast : P.getLast? with
      | none => simp at hlast; subst hlast; simp at ha
      | some b =>
        have h1 := sorted_le_last hso3.1.1 hlast a ha
        have h2 := hkl b (List.mem_of_getLast? (hP ▸ hlast))
        exact Nat.lt_of_le_of_lt h1 h2
    rw [hcont]
    simp only [searchGE, ← hlen, kid_at hcl]
    cases kr with
    | nil =>
      simp only [hitAt_nil rfl, getElem?_at_nil rfl, Bool.false_eq_true, if_false]
      have hQ0 : Q = [] := by simpa using hQ
      subst hQ0
      rcases ih c last (hc c (by simp)).2 hso3.1.2.1 with ⟨kv, h1, h2, h3, h4⟩ | ⟨h1, h2⟩
      · refine Or.inl ⟨kv, h1, by simp [h2], h3, fun a ha hka => ?_⟩
        simp only [List.append_nil, List.mem_append] at ha
        rcases ha with hm | hm
        · exact absurd (hPlt a hm) (Nat.not_lt.mpr hka)
        · exact h4 a hm hka
      · refine Or.inr ⟨h1, fun a ha => ?_⟩
        simp only [List.append_nil, List.mem_append] at ha
        rcases ha with hm | hm
        · exact hPlt a hm
        · exact h2 a hm
    | cons a kr =>
      simp only [hitAt_at rfl, getElem?_at rfl]
      have hka : k ≤ a.1 := hkr a rfl
      have haQ : a ∈ Q := hmQ a (by simp)
      have hQa : ∀ b ∈ Q, a.1 ≤ b.1 := sorted_head_le hso3.2.1 (a := a) (by rw [hQ]; rfl)
      have hCa : ∀ b ∈ contents h c, b.1 ≤ a.1 := fun b hb => hso3.2.2 b (by simp [hb]) a haQ
      by_cases hhit : k = a.1
      · simp only [hhit, beq_self_eq_true, if_true]
        refine Or.inl ⟨a, rfl, by simp [haQ], Nat.le_refl _, fun b hb hkb => ?_⟩
        simp only [List.mem_append] at hb
        rcases hb with (hm | hm) | hm
        · exact hkb
        · exact hkb
        · exact hQa b hm
      · have hk' : (k == a.1) = false := by simpa using hhit
        simp only [hk', Bool.false_eq_true, if_false]
        rcases ih c (some a) (hc c (by simp)).2 hso3.1.2.1 with ⟨kv, h1, h2, h3, h4⟩ | ⟨h1, h2⟩
        · refine Or.inl ⟨kv, h1, by simp [h2], h3, fun b hb hkb => ?_⟩
          simp only [List.mem_append] at hb
          rcases hb with (hm | hm) | hm
          · exact absurd (hPlt b hm) (Nat.not_lt.mpr hkb)
          · exact h4 b hm hkb
          · exact Nat.le_trans (hCa kv h2) (hQa b hm)
        · refine Or.inl ⟨a, h1, by simp [haQ], hka, fun b hb hkb => ?_⟩
          simp only [List.mem_append] at hb
          rcases hb with (hm | hm) | hm
          · exact absurd (hPlt b hm) (Nat.not_lt.mpr hkb)
          · exact absurd (h2 b hm) (Nat.not_lt.mpr hkb)
          · exact hQa b hm

/-- `btreeSearchMin`: the first pair in order -/
theorem searchMin_spec (t : Nat) (ht : 2 ≤ t) :
    ∀ (h : Nat) (x : Node), Shape t h x → searchMin h x = (contents h x).head? := by
  intro h
  induction h with
  | zero =>
    intro x hs
    obtain ⟨kvs, rfl, _⟩ := shape_zero hs
    simp [searchMin, contents, List.head?_eq_getElem?]
  | succ h ih =>
    intro x hs
    obtain ⟨kvs, kids, rfl, hk, hkids, hc⟩ := shape_succ hs
    cases kids with
    | nil => simp at hkids
    | cons c cr =>
      have hcc := hc c (by simp)
      have := contents_node h [] kvs [] c cr rfl
      simp only [List.nil_append, List.map_nil, pre_nil_left] at this
      rw [this]
      simp only [searchMin, kid, List.getD_cons_zero]
      rw [ih c hcc.2]
      have hne := contents_ne_nil hcc.2 (by omega)
      cases hC : contents h c with
      | nil => exact absurd hC hne
      | cons a _ => simp

/-- `btreeSearchMax`: the last pair in order -/
theorem searchMax_spec (t : Nat) (ht : 2 ≤ t) :
    ∀ (h : Nat) (x : Node), Shape t h x → searchMax h x = (contents h x).getLast? := by
  intro h
  induction h with
  | zero =>
    intro x hs
    obtain ⟨kvs, rfl, _⟩ := shape_zero hs
    simp only [searchMax, contents]
    rw [List.getLast?_eq_getElem?]
    split
    · next h0 => simp [List.length_eq_zero_iff.mp h0]
    · rfl
  | succ h ih =>
    intro x hs
    obtain ⟨kvs, kids, rfl, hk, hkids, hc⟩ := shape_succ hs
    obtain ⟨cl, c, cr, rfl, hcl⟩ := exists_cut_at kids kvs.length (by omega)
    have hcr : cr = [] := by
      cases cr with
      | nil => rfl
      | cons _ _ => simp at hkids; omega
    subst hcr
    have hcc := hc c (by simp)
    have := contents_node h kvs [] cl c [] hcl
    simp only [List.append_nil, List.map_nil, post_nil_left] at this
    rw [this]
    simp only [searchMax, kid_at hcl]
    rw [ih c hcc.2, List.getLast?_append]
    have hne := contents_ne_nil hcc.2 (by omega)
    cases hC : (contents h c).getLast? with
    | none => simp at hC; exact absurd hC hne
    | some a => simp


/-! ## merge and rotations -/

theorem interleave_cons (d : List KV) (ds : List (List KV)) (m : KV) (bs : List KV) (h : ds ≠ []) :
    interleave (d :: ds) (m :: bs) = d ++ m :: interleave ds bs := by
  cases ds with
  | nil => exact absurd rfl h
  | cons _ _ => simp [interleave]

theorem interleave_snoc (ka : List (List KV)) (a : List KV) (d : List KV) (m : KV)
    (h : ka.length = a.length + 1) :
    interleave (ka ++ [d]) (a ++ [m]) = interleave ka a ++ m :: d := by
  have := interleave_mid ka [d] a [] m h (by simp)
  simpa [interleave] using this

theorem unsplitChild_eq (kl kr : List KV) (kv : KV) (cl : List Node) (y z : Node) (cr : List Node)
    (hl : cl.length = kl.length) :
    unsplitChild (.node (kl ++ kv :: kr) (cl ++ y :: z :: cr)) kl.length =
      .node (kl ++ kr) (cl ++ y.like (y.kvs ++ kv :: z.kvs) (y.kids ++ z.kids) :: cr) := by
  simp [unsplitChild, Node.like, Node.kvs, Node.kids, kid_at hl, kid_at_succ hl, kvAt_at,
    delAt_at, take_at hl, drop_at_succ2 hl]

theorem rotateDown_eq (kl kr : List KV) (kv : KV) (cl : List Node) (y z : Node) (cr : List Node)
    (hl : cl.length = kl.length) :
    rotateDown (.node (kl ++ kv :: kr) (cl ++ y :: z :: cr)) kl.length =
      .node (kl ++ kvAt z.kvs 0 :: kr)
        (cl ++ y.like (y.kvs ++ [kv]) (y.kids ++ z.kids.take 1) ::
          z.like (z.kvs.drop 1) (z.kids.drop 1) :: cr) := by
  simp [rotateDown, Node.like, Node.kvs, Node.kids, kid_at hl, kid_at_succ hl, kvAt_at,
    setAt_at, take_at hl, drop_at_succ2 hl]

theorem rotateUp_eq (kl kr : List KV) (kv : KV) (cl : List Node) (z y : Node) (cr : List Node)
    (hl : cl.length = kl.length) :
    rotateUp (.node (kl ++ kv :: kr) (cl ++ z :: y :: cr)) kl.length =
      .node (kl ++ kvAt z.kvs (z.nKeys - 1) :: kr)
        (cl ++ z.like (z.kvs.take (z.nKeys - 1)) (z.kids.take z.nKeys) ::
          y.like (kv :: y.kvs) ((z.kids.drop z.nKeys).take 1 ++ y.kids) :: cr) := by
  simp [rotateUp, Node.like, Node.kvs, Node.kids, kid_at hl, kid_at_succ hl, kvAt_at,
    setAt_at, take_at hl, drop_at_succ2 hl]

/-- the merged node of `btreeUnsplitChild` -/
theorem merge_spec (t h : Nat) (ht : 1 ≤ t) (y z : Node) (kv : KV) (hy : Shape t h y) (hz : Shape t h z)
    (hny : y.nKeys = t - 1) (hnz : z.nKeys = t - 1) :
    Shape t h (y.like (y.kvs ++ kv :: z.kvs) (y.kids ++ z.kids)) ∧
    (y.like (y.kvs ++ kv :: z.kvs) (y.kids ++ z.kids)).nKeys = 2 * t - 1 ∧
    contents h (y.like (y.kvs ++ kv :: z.kvs) (y.kids ++ z.kids)) =
      contents h y ++ kv :: contents h z := by
  cases h with
  | zero =>
    obtain ⟨a, rfl, _⟩ := shape_zero hy
    obtain ⟨b, rfl, _⟩ := shape_zero hz
    simp only [Node.nKeys, Node.kvs] at hny hnz
    simp only [Node.like, Node.kvs, Shape, Node.nKeys, contents, List.length_append, List.length_cons]
    refine ⟨by omega, by omega, trivial⟩
  | succ h =>
    obtain ⟨a, ka, rfl, _, hka, hca⟩ := shape_succ hy
    obtain ⟨b, kb, rfl, _, hkb, hcb⟩ := shape_succ hz
    simp only [Node.nKeys, Node.kvs] at hny hnz
    simp only [Node.like, Node.kvs, Node.kids, Shape, Node.nKeys, contents, List.length_append,
      List.length_cons, List.map_append]
    refine ⟨⟨by omega, by omega, fun c hc => ?_⟩, by omega, ?_⟩
    · rcases List.mem_append.mp hc with hc | hc
      · exact hca c hc
      · exact hcb c hc
    · exact interleave_mid _ _ _ _ _ (by simp; omega) (by
        intro h0; simp at h0; subst h0; simp at hkb)

/-- the two branches after `btreeRotateDown` -/
theorem rotDown_spec (t h : Nat) (y z : Node) (kv : KV) (hy : Shape t h y) (hz : Shape t h z)
    (hny : y.nKeys < 2 * t - 1) (hnz : 1 ≤ z.nKeys) :
    Shape t h (y.like (y.kvs ++ [kv]) (y.kids ++ z.kids.take 1)) ∧
    Shape t h (z.like (z.kvs.drop 1) (z.kids.drop 1)) ∧
    (y.like (y.kvs ++ [kv]) (y.kids ++ z.kids.take 1)).nKeys = y.nKeys + 1 ∧
    (z.like (z.kvs.drop 1) (z.kids.drop 1)).nKeys = z.nKeys - 1 ∧
    contents h y ++ kv :: contents h z =
      contents h (y.like (y.kvs ++ [kv]) (y.kids ++ z.kids.take 1)) ++
        kvAt z.kvs 0 :: contents h (z.like (z.kvs.drop 1) (z.kids.drop 1)) ∧
    (∀ a ∈ contents h y, a ∈ contents h (y.like (y.kvs ++ [kv]) (y.kids ++ z.kids.take 1))) := by
  cases h with
  | zero =>
    obtain ⟨a, rfl, _⟩ := shape_zero hy
    obtain ⟨b, rfl, _⟩ := shape_zero hz
    simp only [Node.nKeys, Node.kvs] at hny hnz
    cases b with
    | nil => simp at hnz
    | cons m bs =>
      simp only [Node.like, Node.kvs, Shape, Node.nKeys, contents, List.length_append,
        List.length_cons, List.drop_succ_cons, List.drop_zero, kvAt, List.getD_cons_zero] at *
      refine ⟨by simp; omega, by omega, by simp, by simp, by simp, fun a ha => by simp [ha]⟩
  | succ h =>
    obtain ⟨a, ka, rfl, _, hka, hca⟩ := shape_succ hy
    obtain ⟨b, kb, rfl, _, hkb, hcb⟩ := shape_succ hz
    simp only [Node.nKeys, Node.kvs] at hny hnz
    cases b with
    | nil => simp at hnz
    | cons m bs =>
      cases kb with
      | nil => simp at hkb
      | cons d ds =>
        have hds : ds ≠ [] := by
          intro h0; subst h0; simp at hkb
        simp only [Node.like, Node.kvs, Node.kids, Shape, Node.nKeys, contents, List.length_append,
          List.length_cons, List.drop_succ_cons, List.drop_zero, kvAt, List.getD_cons_zero,
          List.take_succ_cons, List.take_zero, List.map_append, List.map_cons, List.map_nil] at *
        have e1 := interleave_snoc (ka.map (contents h)) a (contents h d) kv (by simp; omega)
        have e2 := interleave_cons (contents h d) (ds.map (contents h)) m bs (by simpa using hds)
        refine ⟨⟨by simp; omega, by simp; omega, fun c hc => ?_⟩, ⟨by omega, by omega, fun c hc => ?_⟩,
          by simp, by simp, ?_, fun x hx => ?_⟩
        · simp only [List.mem_append, List.mem_singleton] at hc
          rcases hc with hc | rfl
          · exact hca c hc
          · exact hcb c (by simp)
        · exact hcb c (by simp [hc])
        · rw [e1, e2]; simp
        · rw [e1]; simp [hx]

/-- the two branches after `btreeRotateUp` -/
theorem rotUp_spec (t h : Nat) (z y : Node) (kv : KV) (hz : Shape t h z) (hy : Shape t h y)
    (hny : y.nKeys < 2 * t - 1) (hnz : 1 ≤ z.nKeys) :
    Shape t h (z.like (z.kvs.take (z.nKeys - 1)) (z.kids.take z.nKeys)) ∧
    Shape t h (y.like (kv :: y.kvs) ((z.kids.drop z.nKeys).take 1 ++ y.kids)) ∧
    (z.like (z.kvs.take (z.nKeys - 1)) (z.kids.take z.nKeys)).nKeys = z.nKeys - 1 ∧
    (y.like (kv :: y.kvs) ((z.kids.drop z.nKeys).take 1 ++ y.kids)).nKeys = y.nKeys + 1 ∧
    contents h z ++ kv :: contents h y =
      contents h (z.like (z.kvs.take (z.nKeys - 1)) (z.kids.take z.nKeys)) ++
        kvAt z.kvs (z.nKeys - 1) ::
          contents h (y.like (kv :: y.kvs) ((z.kids.drop z.nKeys).take 1 ++ y.kids)) ∧
    (∀ a ∈ contents h y, a ∈ contents h (y.like (kv :: y.kvs) ((z.kids.drop z.nKeys).take 1 ++ y.kids))) := by
  cases h with
  | zero =>
    obtain ⟨b, rfl, _⟩ := shape_zero hz
    obtain ⟨a, rfl, _⟩ := shape_zero hy
    simp only [Node.nKeys, Node.kvs] at hny hnz
    obtain ⟨bs, m, r, rfl, hbs⟩ := exists_cut_at b (b.length - 1) (by omega)
    have hr : r = [] := by
      cases r with
      | nil => rfl
      | cons _ _ => simp at hbs <;> omega
    subst hr
    have hbs' : bs.length = (bs ++ [m]).length - 1 := by simp
    simp only [Node.like, Node.kvs, Shape, Node.nKeys, contents] at *
    rw [take_at hbs', kvAt_at hbs']
    refine ⟨by simp at *; omega, by simp; omega, by simp, by simp, by simp, fun a ha => by simp [ha]⟩
  | succ h =>
    obtain ⟨b, kb, rfl, _, hkb, hcb⟩ := shape_succ hz
    obtain ⟨a, ka, rfl, _, hka, hca⟩ := shape_succ hy
    simp only [Node.nKeys, Node.kvs] at hny hnz
    obtain ⟨bs, m, r, rfl, hbs⟩ := exists_cut_at b (b.length - 1) (by omega)
    have hr : r = [] := by
      cases r with
      | nil => rfl
      | cons _ _ => simp at hbs <;> omega
    subst hr
    have hbs' : bs.length = (bs ++ [m]).length - 1 := by simp
    obtain ⟨ds, d, r, rfl, hds⟩ := exists_cut_at kb (bs ++ [m]).length (by omega)
    have hr : r = [] := by
      cases r with
      | nil => rfl
      | cons _ _ => simp at hkb hds <;> omega
    subst hr
    have hka0 : ka ≠ [] := by
      intro h0; subst h0; simp at hka
    simp only [Node.like, Node.kvs, Node.kids, Shape, Node.nKeys, contents] at *
    rw [take_at hbs', kvAt_at hbs', take_at hds, drop_at hds]
    simp only [List.take_succ_cons, List.take_zero, List.map_append, List.map_cons, List.map_nil,
      List.cons_append, List.nil_append]
    have e1 := interleave_snoc (ds.map (contents h)) bs (contents h d) m (by simp at hds ⊢; omega)
    have e2 := interleave_cons (contents h d) (ka.map (contents h)) kv a (by simpa using hka0)
    refine ⟨⟨by simp at *; omega, by simp at hds ⊢; omega, fun c hc => hcb c (by simp [hc])⟩,
      ⟨by simp; omega, by simp; omega, fun c hc => ?_⟩, by simp, by simp, ?_, fun x hx => ?_⟩
    · simp only [List.mem_cons] at hc
      rcases hc with rfl | hc
      · exact hcb c (by simp)
      · exact hca c hc
    · rw [e1, e2]; simp
    · rw [e2]; simp [hx]


/-! ## `btreeDelete0` -/

/-- what `btreeDelete0` has to achieve on a subtree of height `h` (for every key present) -/
def DelGoal (t h : Nat) : Prop :=
  ∀ (k : Key) (x : Node), Shape t h x → (0 < h → 1 ≤ x.nKeys) → Sorted (contents h x) →
    (∃ e, (k, e) ∈ contents h x) →
    Shape t h (delete0 t h x k).1 ∧ x.nKeys ≤ (delete0 t h x k).1.nKeys + 1 ∧
    ∃ e, (delete0 t h x k).2 = some e ∧
      ((k, e) :: contents h (delete0 t h x k).1).Perm (contents h x) ∧
      Sorted (contents h (delete0 t h x k).1)

/-- the descent of `btreeDelete0` from the (rebalanced) node `p.1` into its branch `p.2` -/
def StepGoal (t h : Nat) (k : Key) (X : Node) (p : Node × Nat) : Prop :=
  Shape t (h + 1) (.node p.1.kvs (setAt p.1.kids p.2 (delete0 t h (kid p.1.kids p.2) k).1)) ∧
  X.nKeys ≤ p.1.kvs.length + 1 ∧
  ∃ e, (delete0 t h (kid p.1.kids p.2) k).2 = some e ∧
    ((k, e) :: contents (h + 1) (.node p.1.kvs (setAt p.1.kids p.2 (delete0 t h (kid p.1.kids p.2) k).1))).Perm
      (contents (h + 1) X) ∧
    Sorted (contents (h + 1) (.node p.1.kvs (setAt p.1.kids p.2 (delete0 t h (kid p.1.kids p.2) k).1)))

theorem del_frame {P C C' Q : List KV} {k : Key} {e : Ent} (hso : Sorted (P ++ C ++ Q))
    (hp : ((k, e) :: C').Perm C) (hs' : Sorted C') :
    ((k, e) :: (P ++ C' ++ Q)).Perm (P ++ C ++ Q) ∧ Sorted (P ++ C' ++ Q) := by
  have hsub : ∀ a ∈ C', a ∈ C := fun a ha => hp.mem_iff.mp (List.mem_cons_of_mem _ ha)
  constructor
  · have h1 : ((k, e) :: (P ++ C' ++ Q)).Perm (P ++ ((k, e) :: C') ++ Q) := by
      simp only [List.append_assoc, List.cons_append]
      exact List.perm_middle.symm
    exact h1.trans ((hp.append_left P).append_right Q)
  · simp only [Sorted, List.pairwise_append, List.mem_append] at hso ⊢
    refine ⟨⟨hso.1.1, hs', fun a ha b hb => hso.1.2.2 a ha b (hsub b hb)⟩, hso.2.1, ?_⟩
    intro a ha b hb
    rcases ha with ha | ha
    · exact hso.2.2 a (Or.inl ha) b hb
    · exact hso.2.2 a (Or.inr (hsub a ha)) b hb

theorem step_core {t h : Nat} (hIH : DelGoal t h) (ht : 2 ≤ t) (k : Key) (X : Node)
    (kl kr : List KV) (cl : List Node) (c : Node) (cr : List Node)
    (hl : cl.length = kl.length) (hr : kr.length = cr.length)
    (hshape : Shape t (h + 1) (.node (kl ++ kr) (cl ++ c :: cr))) (hct : t ≤ c.nKeys)
    (hcont : contents (h + 1) (.node (kl ++ kr) (cl ++ c :: cr)) = contents (h + 1) X)
    (hso : Sorted (contents (h + 1) X)) (hpres : ∃ e, (k, e) ∈ contents h c)
    (hn : X.nKeys ≤ (kl ++ kr).length + 1) :
    StepGoal t h k X (.node (kl ++ kr) (cl ++ c :: cr), kl.length) := by
  simp only [StepGoal, Node.kids, Node.kvs, kid_at hl, setAt_at hl]
  simp only [Shape] at hshape
  obtain ⟨hk, hkids, hc⟩ := hshape
  rw [← hcont] at hso ⊢
  obtain ⟨P, Q, hC, hC', hsoPQ, _, _, _, _⟩ := node_frame h kl kr cl c cr hl hr hso
  have hsubC : Sorted (contents h c) := by
    simp only [Sorted, List.pairwise_append] at hsoPQ
    exact hsoPQ.1.2.1
  obtain ⟨s1, s2, e, s3, s4, s5⟩ := hIH k c (hc c (by simp)).2 (fun _ => by omega) hsubC hpres
  obtain ⟨f1, f2⟩ := del_frame hsoPQ s4 s5
  refine ⟨?_, hn, e, s3, ?_, ?_⟩
  · simp only [Shape]
    refine ⟨hk, by simp at hkids ⊢; omega, fun d hd => ?_⟩
    simp only [List.mem_append, List.mem_cons] at hd
    rcases hd with hd | rfl | hd
    · exact hc d (by simp [hd])
    · exact ⟨by omega, s1⟩
    · exact hc d (by simp [hd])
  · rw [hC' _, hC]; exact f1
  · rw [hC' _]; exact f2


theorem shape_node_elim {t h : Nat} {kvs : List KV} {kids : List Node}
    (hs : Shape t (h + 1) (.node kvs kids)) :
    kvs.length ≤ 2 * t - 1 ∧ kids.length = kvs.length + 1 ∧ ∀ c ∈ kids, t - 1 ≤ c.nKeys ∧ Shape t h c := hs

theorem rotDown_case {t h : Nat} (hIH : DelGoal t h) (ht : 2 ≤ t) (k : Key)
    (kl kr : List KV) (a : KV) (cl : List Node) (c z : Node) (cr : List Node)
    (hl : cl.length = kl.length) (hr : kr.length = cr.length)
    (hshape : Shape t (h + 1) (.node (kl ++ a :: kr) (cl ++ c :: z :: cr)))
    (hcn : c.nKeys = t - 1) (hzn : t - 1 < z.nKeys)
    (hso : Sorted (contents (h + 1) (.node (kl ++ a :: kr) (cl ++ c :: z :: cr))))
    (hpres : ∃ e, (k, e) ∈ contents h c) :
    StepGoal t h k (.node (kl ++ a :: kr) (cl ++ c :: z :: cr))
      (rotateDown (.node (kl ++ a :: kr) (cl ++ c :: z :: cr)) kl.length, kl.length) := by
  rw [rotateDown_eq kl kr a cl c z cr hl]
  obtain ⟨hk, hkids, hc⟩ := shape_node_elim hshape
  have hcc := hc c (by simp)
  have hcz := hc z (by simp)
  obtain ⟨r1, r2, r3, r4, r5, r6⟩ := rotDown_spec t h c z a hcc.2 hcz.2 (by omega) (by omega)
  generalize c.like (c.kvs ++ [a]) (c.kids ++ z.kids.take 1) = y' at *
  generalize z.like (z.kvs.drop 1) (z.kids.drop 1) = z' at *
  generalize kvAt z.kvs 0 = m at *
  have r5' : ∀ T, contents h c ++ a :: (contents h z ++ T) = contents h y' ++ m :: (contents h z' ++ T) := by
    intro T
    have := congrArg (· ++ T) r5
    simpa using this
  apply step_core hIH ht k _ kl (m :: kr) cl y' (z' :: cr) hl (by simp; omega)
  · simp only [Shape]
    refine ⟨by simp at hk ⊢; omega, by simp at hkids ⊢; omega, fun d hd => ?_⟩
    simp only [List.mem_append, List.mem_cons] at hd
    rcases hd with hd | rfl | rfl | hd
    · exact hc d (by simp [hd])
    · exact ⟨by omega, r1⟩
    · exact ⟨by omega, r2⟩
    · exact hc d (by simp [hd])
  · omega
  · rw [contents_node h kl (m :: kr) cl y' (z' :: cr) hl, contents_node h kl (a :: kr) cl c (z :: cr) hl]
    simp [r5']
  · exact hso
  · obtain ⟨e, he⟩ := hpres
    exact ⟨e, r6 _ he⟩
  · simp [Node.nKeys, Node.kvs]

theorem rotUp_case {t h : Nat} (hIH : DelGoal t h) (ht : 2 ≤ t) (k : Key)
    (kl kr : List KV) (b : KV) (cl : List Node) (w c : Node) (cr : List Node)
    (hl : cl.length = kl.length) (hr : kr.length = cr.length)
    (hshape : Shape t (h + 1) (.node (kl ++ b :: kr) (cl ++ w :: c :: cr)))
    (hcn : c.nKeys = t - 1) (hwn : t - 1 < w.nKeys)
    (hso : Sorted (contents (h + 1) (.node (kl ++ b :: kr) (cl ++ w :: c :: cr))))
    (hpres : ∃ e, (k, e) ∈ contents h c) :
    StepGoal t h k (.node (kl ++ b :: kr) (cl ++ w :: c :: cr))
      (rotateUp (.node (kl ++ b :: kr) (cl ++ w :: c :: cr)) kl.length, kl.length + 1) := by
  rw [rotateUp_eq kl kr b cl w c cr hl]
  obtain ⟨hk, hkids, hc⟩ := shape_node_elim hshape
  have hcc := hc c (by simp)
  have hcw := hc w (by simp)
  obtain ⟨r1, r2, r3, r4, r5, r6⟩ := rotUp_spec t h w c b hcw.2 hcc.2 (by omega) (by omega)
  generalize w.like (w.kvs.take (w.nKeys - 1)) (w.kids.take w.nKeys) = w' at *
  generalize c.like (b :: c.kvs) ((w.kids.drop w.nKeys).take 1 ++ c.kids) = c' at *
  generalize kvAt w.kvs (w.nKeys - 1) = m at *
  have r5' : ∀ T, contents h w ++ b :: (contents h c ++ T) = contents h w' ++ m :: (contents h c' ++ T) := by
    intro T
    have := congrArg (· ++ T) r5
    simpa using this
  have e1 : kl ++ m :: kr = (kl ++ [m]) ++ kr := by simp
  have e2 : cl ++ w' :: c' :: cr = (cl ++ [w']) ++ c' :: cr := by simp
  have e3 : kl.length + 1 = (kl ++ [m]).length := by simp
  rw [e1, e2, e3]
  apply step_core hIH ht k _ (kl ++ [m]) kr (cl ++ [w']) c' cr (by simp; omega) hr
  · rw [← e1, ← e2]
    simp only [Shape]
    refine ⟨by simp at hk ⊢; omega, by simp at hkids ⊢; omega, fun d hd => ?_⟩
    simp only [List.mem_append, List.mem_cons] at hd
    rcases hd with hd | rfl | rfl | hd
    · exact hc d (by simp [hd])
    · exact ⟨by omega, r1⟩
    · exact ⟨by omega, r2⟩
    · exact hc d (by simp [hd])
  · omega
  · rw [← e1, ← e2]
    rw [contents_node h kl (m :: kr) cl w' (c' :: cr) hl, contents_node h kl (b :: kr) cl w (c :: cr) hl]
    simp [r5']
  · exact hso
  · obtain ⟨e, he⟩ := hpres
    exact ⟨e, r6 _ he⟩
  · simp [Node.nKeys, Node.kvs]

theorem merge_case {t h : Nat} (hIH : DelGoal t h) (ht : 2 ≤ t) (k : Key)
    (kl kr : List KV) (a : KV) (cl : List Node) (c z : Node) (cr : List Node)
    (hl : cl.length = kl.length) (hr : kr.length = cr.length)
    (hshape : Shape t (h + 1) (.node (kl ++ a :: kr) (cl ++ c :: z :: cr)))
    (hcn : c.nKeys = t - 1) (hzn : z.nKeys = t - 1)
    (hso : Sorted (contents (h + 1) (.node (kl ++ a :: kr) (cl ++ c :: z :: cr))))
    (hpres : ∃ e, (k, e) ∈ contents h c ++ a :: contents h z) :
    StepGoal t h k (.node (kl ++ a :: kr) (cl ++ c :: z :: cr))
      (unsplitChild (.node (kl ++ a :: kr) (cl ++ c :: z :: cr)) kl.length, kl.length) := by
  rw [unsplitChild_eq kl kr a cl c z cr hl]
  obtain ⟨hk, hkids, hc⟩ := shape_node_elim hshape
  have hcc := hc c (by simp)
  have hcz := hc z (by simp)
  obtain ⟨r1, r2, r3⟩ := merge_spec t h (by omega) c z a hcc.2 hcz.2 hcn hzn
  generalize c.like (c.kvs ++ a :: z.kvs) (c.kids ++ z.kids) = M at *
  apply step_core hIH ht k _ kl kr cl M cr hl hr
  · simp only [Shape]
    refine ⟨by simp at hk ⊢; omega, by simp at hkids ⊢; omega, fun d hd => ?_⟩
    simp only [List.mem_append, List.mem_cons] at hd
    rcases hd with hd | rfl | hd
    · exact hc d (by simp [hd])
    · exact ⟨by omega, r1⟩
    · exact hc d (by simp [hd])
  · omega
  · rw [contents_node h kl kr cl M cr hl, contents_node h kl (a :: kr) cl c (z :: cr) hl, r3]
    simp
  · exact hso
  · rw [r3]; exact hpres
  · simp [Node.nKeys, Node.kvs]; omega


theorem fixChild_plain {t : Nat} {x : Node} {i : Nat} (h : (kid x.kids i).nKeys ≠ t - 1) :
    fixChild t x i = (x, i) := by
  simp [fixChild, h]

theorem fixChild_rotDown {t : Nat} {x : Node} {i : Nat} (h : (kid x.kids i).nKeys = t - 1)
    (h1 : i < x.nKeys) (h2 : t - 1 < (kid x.kids (i + 1)).nKeys) :
    fixChild t x i = (rotateDown x i, i) := by
  simp [fixChild, h, h1, h2]

theorem fixChild_rotUp {t : Nat} {x : Node} {i : Nat} (h : (kid x.kids i).nKeys = t - 1)
    (h1 : ¬ (i < x.nKeys ∧ t - 1 < (kid x.kids (i + 1)).nKeys))
    (h2 : 0 < i) (h3 : t - 1 < (kid x.kids (i - 1)).nKeys) :
    fixChild t x i = (rotateUp x (i - 1), i) := by
  simp only [fixChild, h, if_true, h1, if_false, h2, h3, and_self]

theorem fixChild_merge {t : Nat} {x : Node} {i : Nat} (h : (kid x.kids i).nKeys = t - 1)
    (h1 : ¬ (i < x.nKeys ∧ t - 1 < (kid x.kids (i + 1)).nKeys))
    (h2 : ¬ (0 < i ∧ t - 1 < (kid x.kids (i - 1)).nKeys)) :
    fixChild t x i = (unsplitChild x (if i = x.nKeys then i - 1 else i), if i = x.nKeys then i - 1 else i) := by
  simp only [fixChild, h, if_true, h1, if_false, h2]

theorem kid_at_pred {cl : List Node} {w : Node} {rest : List Node} :
    kid ((cl ++ [w]) ++ rest) ((cl ++ [w]).length - 1) = w := by
  have : (cl ++ [w]) ++ rest = cl ++ w :: rest := by simp
  rw [this]
  exact kid_at (by simp)

/-- the descent of `btreeDelete0` when the key is not in the node: rebalance, then continue -/
theorem miss_spec {t h : Nat} (hIH : DelGoal t h) (ht : 2 ≤ t) (k : Key)
    (kl kr : List KV) (cl : List Node) (c : Node) (cr : List Node)
    (hl : cl.length = kl.length) (hr : kr.length = cr.length)
    (hshape : Shape t (h + 1) (.node (kl ++ kr) (cl ++ c :: cr)))
    (hn1 : 1 ≤ (kl ++ kr).length)
    (hso : Sorted (contents (h + 1) (.node (kl ++ kr) (cl ++ c :: cr))))
    (hpres : ∃ e, (k, e) ∈ contents h c) :
    StepGoal t h k (.node (kl ++ kr) (cl ++ c :: cr))
      (fixChild t (.node (kl ++ kr) (cl ++ c :: cr)) kl.length) := by
  obtain ⟨hk, hkids, hc⟩ := shape_node_elim hshape
  have hcc := hc c (by simp)
  by_cases hcn : c.nKeys = t - 1
  · -- the branch is minimal: rotate or merge
    have hkc : (kid (Node.node (kl ++ kr) (cl ++ c :: cr)).kids kl.length).nKeys = t - 1 := by
      simp only [Node.kids, kid_at hl]; exact hcn
    -- left neighbour
    have hleft : (kl = [] ∧ cl = []) ∨ ∃ kl' b cl' w, kl = kl' ++ [b] ∧ cl = cl' ++ [w] ∧ cl'.length = kl'.length := by
      rcases List.eq_nil_or_concat kl with rfl | ⟨kl', b, rfl⟩
      · left; exact ⟨rfl, by simpa using hl⟩
      · right
        rcases List.eq_nil_or_concat cl with rfl | ⟨cl', w, rfl⟩
        · simp at hl
        · refine ⟨kl', b, cl', w, by simp, by simp, by simpa using hl⟩
    cases kr with
    | nil =>
      have hcr : cr = [] := by
        cases cr with
        | nil => rfl
        | cons _ _ => simp at hr
      subst hcr
      have hnr : ¬ (kl.length < (Node.node (kl ++ []) (cl ++ [c])).nKeys ∧
          t - 1 < (kid (Node.node (kl ++ []) (cl ++ [c])).kids (kl.length + 1)).nKeys) := by
        simp [Node.nKeys, Node.kvs]
      rcases hleft with ⟨rfl, rfl⟩ | ⟨kl', b, cl', w, rfl, rfl, hl'⟩
      · simp at hn1
      · have e1 : (kl' ++ [b]) ++ [] = kl' ++ b :: [] := by simp
        have e2 : (cl' ++ [w]) ++ [c] = cl' ++ w :: c :: [] := by simp
        have e3 : (kl' ++ [b]).length - 1 = kl'.length := by simp
        have e4 : (kl' ++ [b]).length = kl'.length + 1 := by simp
        have hcw := hc w (by simp)
        have hkw : kid (Node.node (kl' ++ [b] ++ []) (cl' ++ [w] ++ [c])).kids ((kl' ++ [b]).length - 1) = w := by
          simp only [Node.kids]
          have : (kl' ++ [b]).length = (cl' ++ [w]).length := by simp; omega
          rw [this]; exact kid_at_pred
        by_cases hw : t - 1 < w.nKeys
        · rw [fixChild_rotUp hkc hnr (by simp) (by rw [hkw]; exact hw)]
          rw [e1, e2] at hshape hso ⊢
          rw [e3, e4]
          exact rotUp_case hIH ht k kl' [] b cl' w c [] hl' rfl hshape hcn hw hso hpres
        · rw [fixChild_merge hkc hnr (by rw [hkw]; intro h0; exact hw h0.2)]
          have hi : (kl' ++ [b]).length = (Node.node (kl' ++ [b] ++ []) (cl' ++ [w] ++ [c])).nKeys := by
            simp [Node.nKeys, Node.kvs]
          simp only [← hi, if_true]
          rw [e1, e2] at hshape hso ⊢
          rw [e3]
          obtain ⟨e, he⟩ := hpres
          exact merge_case hIH ht k kl' [] b cl' w c [] hl' rfl hshape (by omega) hcn hso
            ⟨e, by simp [he]⟩
    | cons a kr =>
      cases cr with
      | nil => simp at hr
      | cons z cr =>
        simp only [List.length_cons, Nat.add_right_cancel_iff] at hr
        have hcz := hc z (by simp)
        have hi : kl.length < (Node.node (kl ++ a :: kr) (cl ++ c :: z :: cr)).nKeys := by
          simp [Node.nKeys, Node.kvs]
        have hkz : kid (Node.node (kl ++ a :: kr) (cl ++ c :: z :: cr)).kids (kl.length + 1) = z := by
          simp only [Node.kids]; exact kid_at_succ hl
        by_cases hz : t - 1 < z.nKeys
        · rw [fixChild_rotDown hkc hi (by rw [hkz]; exact hz)]
          exact rotDown_case hIH ht k kl kr a cl c z cr hl hr hshape hcn hz hso hpres
        · have hnr : ¬ (kl.length < (Node.node (kl ++ a :: kr) (cl ++ c :: z :: cr)).nKeys ∧
              t - 1 < (kid (Node.node (kl ++ a :: kr) (cl ++ c :: z :: cr)).kids (kl.length + 1)).nKeys) := by
            rw [hkz]; intro h0; exact hz h0.2
          have hmerge : ∀ (hnl : ¬ (0 < kl.length ∧
              t - 1 < (kid (Node.node (kl ++ a :: kr) (cl ++ c :: z :: cr)).kids (kl.length - 1)).nKeys)),
              StepGoal t h k (.node (kl ++ a :: kr) (cl ++ c :: z :: cr))
                (fixChild t (.node (kl ++ a :: kr) (cl ++ c :: z :: cr)) kl.length) := by
            intro hnl
            rw [fixChild_merge hkc hnr hnl]
            have hne : kl.length ≠ (Node.node (kl ++ a :: kr) (cl ++ c :: z :: cr)).nKeys := Nat.ne_of_lt hi
            simp only [hne, if_false]
            obtain ⟨e, he⟩ := hpres
            exact merge_case hIH ht k kl kr a cl c z cr hl hr hshape hcn (by omega) hso ⟨e, by simp [he]⟩
          rcases hleft with ⟨rfl, rfl⟩ | ⟨kl', b, cl', w, rfl, rfl, hl'⟩
          · exact hmerge (by simp)
          · have hcw := hc w (by simp)
            have hkw : kid (Node.node (kl' ++ [b] ++ a :: kr) (cl' ++ [w] ++ c :: z :: cr)).kids ((kl' ++ [b]).length - 1) = w := by
              simp only [Node.kids]
              have : (kl' ++ [b]).length = (cl' ++ [w]).length := by simp; omega
              rw [this]; exact kid_at_pred
            by_cases hw : t - 1 < w.nKeys
            · rw [fixChild_rotUp hkc hnr (by simp) (by rw [hkw]; exact hw)]
              have e1 : (kl' ++ [b]) ++ a :: kr = kl' ++ b :: a :: kr := by simp
              have e2 : (cl' ++ [w]) ++ c :: z :: cr = cl' ++ w :: c :: z :: cr := by simp
              have e3 : (kl' ++ [b]).length - 1 = kl'.length := by simp
              have e4 : (kl' ++ [b]).length = kl'.length + 1 := by simp
              rw [e1, e2] at hshape hso ⊢
              rw [e3, e4]
              exact rotUp_case hIH ht k kl' (a :: kr) b cl' w c (z :: cr) hl' (by simp; omega) hshape hcn hw hso hpres
            · exact hmerge (by rw [hkw]; intro h0; exact hw h0.2)
  · -- enough keys: go down directly
    rw [fixChild_plain (by simp only [Node.kids, kid_at hl]; exact hcn)]
    exact step_core hIH ht k _ kl kr cl c cr hl hr hshape (by omega) rfl hso hpres (by simp [Node.nKeys, Node.kvs])


/-- replacing the separator `a` by the maximum `s` taken out of the branch before it -/
theorem replace_by_pred {P C C' T : List KV} {a s : KV} (hso : Sorted (P ++ C ++ a :: T))
    (hp : (s :: C').Perm C) (hs' : Sorted C') (hmax : ∀ x ∈ C, x.1 ≤ s.1) :
    (a :: (P ++ C' ++ s :: T)).Perm (P ++ C ++ a :: T) ∧ Sorted (P ++ C' ++ s :: T) := by
  have hsub : ∀ x ∈ C', x ∈ C := fun x hx => hp.mem_iff.mp (List.mem_cons_of_mem _ hx)
  have hsC : s ∈ C := hp.mem_iff.mp (by simp)
  constructor
  · rw [List.perm_iff_count]
    intro x
    have := (List.perm_iff_count.mp hp) x
    simp only [List.count_append, List.count_cons] at this ⊢
    omega
  · simp only [Sorted, List.pairwise_append, List.pairwise_cons, List.mem_append, List.mem_cons] at hso ⊢
    obtain ⟨⟨hP, hC, hPC⟩, ⟨haT, hT⟩, hcross⟩ := hso
    have hsa : s.1 ≤ a.1 := hcross s (Or.inr hsC) a (Or.inl rfl)
    refine ⟨⟨hP, hs', fun x hx y hy => hPC x hx y (hsub y hy)⟩,
      ⟨fun y hy => Nat.le_trans hsa (haT y hy), hT⟩, ?_⟩
    intro x hx y hy
    rcases hy with rfl | hy
    · rcases hx with hx | hx
      · exact hPC x hx y hsC
      · exact hmax x (hsub x hx)
    · rcases hx with hx | hx
      · exact hcross x (Or.inl hx) y (Or.inr hy)
      · exact hcross x (Or.inr (hsub x hx)) y (Or.inr hy)

/-- replacing the separator `a` by the minimum `s` taken out of the branch after it -/
theorem replace_by_succ {P C Z Z' Q : List KV} {a s : KV} (hso : Sorted (P ++ C ++ a :: (Z ++ Q)))
    (hp : (s :: Z').Perm Z) (hs' : Sorted Z') (hmin : ∀ x ∈ Z, s.1 ≤ x.1) :
    (a :: (P ++ C ++ s :: (Z' ++ Q))).Perm (P ++ C ++ a :: (Z ++ Q)) ∧
      Sorted (P ++ C ++ s :: (Z' ++ Q)) := by
  have hsub : ∀ x ∈ Z', x ∈ Z := fun x hx => hp.mem_iff.mp (List.mem_cons_of_mem _ hx)
  have hsZ : s ∈ Z := hp.mem_iff.mp (by simp)
  constructor
  · rw [List.perm_iff_count]
    intro x
    have := (List.perm_iff_count.mp hp) x
    simp only [List.count_append, List.count_cons] at this ⊢
    omega
  · simp only [Sorted, List.pairwise_append, List.pairwise_cons, List.mem_append, List.mem_cons] at hso ⊢
    obtain ⟨⟨hP, hC, hPC⟩, ⟨haT, ⟨hZ, hQ, hZQ⟩⟩, hcross⟩ := hso
    have has : a.1 ≤ s.1 := haT s (Or.inl hsZ)
    refine ⟨⟨hP, hC, hPC⟩, ⟨?_, hs', hQ, fun x hx y hy => hZQ x (hsub x hx) y hy⟩, ?_⟩
    · intro y hy
      rcases hy with hy | hy
      · exact hmin y (hsub y hy)
      · exact hZQ s hsZ y hy
    · intro x hx y hy
      rcases hy with rfl | hy | hy
      · exact Nat.le_trans (hcross x hx a (Or.inl rfl)) has
      · exact hcross x hx y (Or.inr (Or.inl (hsub y hy)))
      · exact hcross x hx y (Or.inr (Or.inr hy))


theorem getLast?_mem_split {l : List KV} {a : KV} (h : l.getLast? = some a) : a ∈ l :=
  List.mem_of_getLast? h

/-- `btreeDelete0` meets its goal at every height -/
theorem delete0_spec (t : Nat) (ht : 2 ≤ t) : ∀ h, DelGoal t h := by
  intro h
  induction h with
  | zero =>
    intro k x hs _ hso hpres
    obtain ⟨kvs, rfl, hk⟩ := shape_zero hs
    obtain ⟨l, r, rfl, hlen, hl, hr⟩ := scanL_cut kvs k
    obtain ⟨e, he⟩ := hpres
    simp only [contents] at he hso
    have her : (k, e) ∈ r := by
      rcases List.mem_append.mp he with hm | hm
      · exact absurd (hl _ hm) (Nat.lt_irrefl k)
      · exact hm
    cases r with
    | nil => simp at her
    | cons a r =>
      have hso' := hso
      simp only [Sorted, List.pairwise_append] at hso'
      have hka : k = a.1 := by
        have h1 : k ≤ a.1 := hr a rfl
        have h2 := sorted_head_le hso'.2.1 (a := a) rfl _ her
        exact Nat.le_antisymm h1 h2
      subst hka
      simp only [delete0, ← hlen, hitAt_at rfl, beq_self_eq_true, if_true, delAt_at rfl,
        kvAt_at rfl, Shape, Node.nKeys, Node.kvs, contents]
      refine ⟨by simp at hk ⊢; omega, by simp; omega, a.2, rfl, ?_, ?_⟩
      · exact List.perm_middle.symm
      · exact hso.sublist (by simp)
  | succ h ih =>
    intro k x hs hroot hso hpres
    obtain ⟨kvs, kids, rfl, hk, hkids, hc⟩ := shape_succ hs
    obtain ⟨kl, kr, rfl, hlen, hkl, hkr⟩ := scanL_cut kvs k
    obtain ⟨cl, c, cr, rfl, hcl⟩ := exists_cut_at kids kl.length (by simp at hkids ⊢; omega)
    have hcr : kr.length = cr.length := by simp at hkids; omega
    have hn1 : 1 ≤ (kl ++ kr).length := hroot (by omega)
    have hcc := hc c (by simp)
    obtain ⟨P, Q, hcont, _, hsoPQ, hP, hQ, hmP, hmQ⟩ := node_frame h kl kr cl c cr hcl hcr hso
    have hso3 := hsoPQ
    simp only [Sorted, List.pairwise_append] at hso3
    have hPlt : ∀ a ∈ P, a.1 < k := by
      intro a ha
      cases hlast : P.getLast? with
      | none => simp at hlast; subst hlast; simp at ha
      | some b =>
        have h1 := sorted_le_last hso3.1.1 hlast a ha
        have h2 := hkl b (List.mem_of_getLast? (hP ▸ hlast))
        exact Nat.lt_of_le_of_lt h1 h2
    -- the descent when the key is not in this node
    have hmiss : (∃ e, (k, e) ∈ contents h c) →
        let p := fixChild t (.node (kl ++ kr) (cl ++ c :: cr)) kl.length
        let r := delete0 t h (kid p.1.kids p.2) k
        Shape t (h + 1) (.node p.1.kvs (setAt p.1.kids p.2 r.1)) ∧
        (Node.node (kl ++ kr) (cl ++ c :: cr)).nKeys ≤ (Node.node p.1.kvs (setAt p.1.kids p.2 r.1)).nKeys + 1 ∧
        ∃ e, r.2 = some e ∧
          ((k, e) :: contents (h + 1) (.node p.1.kvs (setAt p.1.kids p.2 r.1))).Perm
            (contents (h + 1) (.node (kl ++ kr) (cl ++ c :: cr))) ∧
          Sorted (contents (h + 1) (.node p.1.kvs (setAt p.1.kids p.2 r.1))) := by
      intro hpresC
      obtain ⟨g1, g2, e, g3, g4, g5⟩ := miss_spec ih ht k kl kr cl c cr hcl hcr hs hn1 hso hpresC
      exact ⟨g1, by simpa [Node.nKeys, Node.kvs] using g2, e, g3, g4, g5⟩
    obtain ⟨e0, he0⟩ := hpres
    rw [hcont] at he0
    simp only [delete0, ← hlen]
    cases kr with
    | nil =>
      simp only [hitAt_nil rfl, Bool.false_eq_true, if_false]
      have hQ0 : Q = [] := by simpa using hQ
      subst hQ0
      apply hmiss
      simp only [List.append_nil, List.mem_append] at he0
      rcases he0 with hm | hm
      · exact absurd (hPlt _ hm) (Nat.lt_irrefl k)
      · exact ⟨e0, hm⟩
    | cons a kr =>
      cases cr with
      | nil => simp at hcr
      | cons z cr =>
        simp only [List.length_cons, Nat.add_right_cancel_iff] at hcr
        have hcz := hc z (by simp)
        have haQ : a ∈ Q := hmQ a (by simp)
        have hQa : ∀ b ∈ Q, a.1 ≤ b.1 := sorted_head_le hso3.2.1 (a := a) (by rw [hQ]; rfl)
        have hka : k ≤ a.1 := hkr a rfl
        simp only [hitAt_at rfl]
        by_cases hhit : k = a.1
        · -- the key is in this node
          subst hhit
          simp only [beq_self_eq_true, if_true, kid_at hcl, kid_at_succ hcl, kvAt_at rfl, setAt_at rfl]
          have hX := contents_node h kl (a :: kr) cl c (z :: cr) hcl
          simp only [List.map_cons, post_cons] at hX
          generalize hPdef : pre (cl.map (contents h)) kl = P' at hX
          generalize hQdef : post kr (cr.map (contents h)) = Q' at hX
          have hsoX : Sorted (P' ++ contents h c ++ a :: (contents h z ++ Q')) := by
            rw [← hX]; exact hso
          have hsoX3 := hsoX
          simp only [Sorted, List.pairwise_append, List.pairwise_cons] at hsoX3
          have hsubC : Sorted (contents h c) := hsoX3.1.2.1
          have hsubZ : Sorted (contents h z) := hsoX3.2.1.2.1
          by_cases h1 : t - 1 < c.nKeys
          · -- replace by the predecessor
            simp only [h1, if_true, setAt_at hcl]
            rw [searchMax_spec t ht h c hcc.2]
            have hne := contents_ne_nil hcc.2 (by omega)
            cases hlast : (contents h c).getLast? with
            | none => simp at hlast; exact absurd hlast hne
            | some s =>
              simp only [Option.getD_some]
              have hsmem : s ∈ contents h c := List.mem_of_getLast? hlast
              obtain ⟨s1, s2, oe, s3, s4, s5⟩ := ih s.1 c hcc.2 (fun _ => by omega) hsubC ⟨s.2, hsmem⟩
              simp only [s3, Option.getD_some]
              have hmax : ∀ x ∈ contents h c, x.1 ≤ (s.1, oe).1 :=
                fun x hx => sorted_le_last hsubC hlast x hx
              obtain ⟨f1, f2⟩ := replace_by_pred hsoX s4 s5 hmax
              have hN := contents_node h kl ((s.1, oe) :: kr) cl (delete0 t h c s.1).1 (z :: cr) hcl
              simp only [List.map_cons, post_cons, hPdef, hQdef] at hN
              refine ⟨?_, by simp [Node.nKeys, Node.kvs], a.2, rfl, ?_, ?_⟩
              · simp only [Shape]
                refine ⟨by simp at hk ⊢; omega, by simp at hkids ⊢; omega, fun d hd => ?_⟩
                simp only [List.mem_append, List.mem_cons] at hd
                rcases hd with hd | rfl | rfl | hd
                · exact hc d (by simp [hd])
                · exact ⟨by omega, s1⟩
                · exact hcz
                · exact hc d (by simp [hd])
              · rw [hN, hX]; exact f1
              · rw [hN]; exact f2
          · by_cases h2 : t - 1 < z.nKeys
            · -- replace by the successor
              simp only [h1, h2, if_true, if_false, setAt_at_succ hcl]
              rw [searchMin_spec t ht h z hcz.2]
              have hne := contents_ne_nil hcz.2 (by omega)
              cases hfirst : (contents h z).head? with
              | none => simp at hfirst; exact absurd hfirst hne
              | some s =>
                simp only [Option.getD_some]
                have hsmem : s ∈ contents h z := List.mem_of_head? hfirst
                obtain ⟨s1, s2, oe, s3, s4, s5⟩ := ih s.1 z hcz.2 (fun _ => by omega) hsubZ ⟨s.2, hsmem⟩
                simp only [s3, Option.getD_some]
                have hmin : ∀ x ∈ contents h z, (s.1, oe).1 ≤ x.1 :=
                  fun x hx => sorted_head_le hsubZ hfirst x hx
                obtain ⟨f1, f2⟩ := replace_by_succ hsoX s4 s5 hmin
                have hN := contents_node h kl ((s.1, oe) :: kr) cl c ((delete0 t h z s.1).1 :: cr) hcl
                simp only [List.map_cons, post_cons, hPdef, hQdef] at hN
                refine ⟨?_, by simp [Node.nKeys, Node.kvs], a.2, rfl, ?_, ?_⟩
                · simp only [Shape]
                  refine ⟨by simp at hk ⊢; omega, by simp at hkids ⊢; omega, fun d hd => ?_⟩
                  simp only [List.mem_append, List.mem_cons] at hd
                  rcases hd with hd | rfl | rfl | hd
                  · exact hc d (by simp [hd])
                  · exact hcc
                  · exact ⟨by omega, s1⟩
                  · exact hc d (by simp [hd])
                · rw [hN, hX]; exact f1
                · rw [hN]; exact f2
            · -- both neighbours minimal: merge around the key, continue in the merged branch
              simp only [h1, h2, if_false]
              obtain ⟨g1, g2, e, g3, g4, g5⟩ := merge_case ih ht a.1 kl kr a cl c z cr hcl hcr hs
                (by omega) (by omega) hso ⟨a.2, by simp⟩
              simp only [g3, Option.orElse_some] at g1 g4 g5 ⊢
              exact ⟨g1, by simpa [Node.nKeys, Node.kvs] using g2, e, rfl, g4, g5⟩
        · -- the key is below
          have hk' : (k == a.1) = false := by simpa using hhit
          simp only [hk', Bool.false_eq_true, if_false]
          apply hmiss
          have hlt : k < a.1 := Nat.lt_of_le_of_ne hka hhit
          simp only [List.mem_append] at he0
          rcases he0 with (hm | hm) | hm
          · exact absurd (hPlt _ hm) (Nat.lt_irrefl k)
          · exact ⟨e0, hm⟩
          · exact absurd (Nat.lt_of_lt_of_le hlt (hQa _ hm)) (Nat.lt_irrefl k)


/-! ## `btreeDeleteX` -/

theorem delete_spec (b : BTree) (hb : Inv b) (k : Key) (hpres : ∃ e, (k, e) ∈ b.contents) :
    Inv (b.delete k).1 ∧
    ∃ e, (b.delete k).2 = some e ∧ ((k, e) :: (b.delete k).1.contents).Perm b.contents := by
  obtain ⟨t, h, root⟩ := b
  obtain ⟨ht, hs, hr, hso⟩ := hb
  simp only [BTree.contents] at *
  obtain ⟨s1, s2, e, s3, s4, s5⟩ := delete0_spec t ht h k root hs hr hso hpres
  unfold BTree.delete
  simp only [Inv]
  split
  · next kids heq =>
    -- the root lost its last key: its only branch becomes the root
    rw [heq] at s1 s4 s5
    cases h with
    | zero => simp [Shape] at s1
    | succ h' =>
      obtain ⟨_, hkids, hc⟩ := shape_node_elim s1
      cases kids with
      | nil => simp at hkids
      | cons c rest =>
        have hrest : rest = [] := by
          cases rest with
          | nil => rfl
          | cons _ _ => simp at hkids
        subst hrest
        have hcc := hc c (by simp)
        have hcont : contents (h' + 1) (.node [] [c]) = contents h' c := by
          simp [contents, interleave]
        rw [hcont] at s4 s5
        simp only [kid, List.getD_cons_zero, Nat.add_sub_cancel]
        exact ⟨⟨ht, hcc.2, fun _ => by omega, s5⟩, e, s3, s4⟩
  · next hne =>
    refine ⟨⟨ht, s1, fun h0 => ?_, s5⟩, e, s3, s4⟩
    simp only at h0
    cases h with
    | zero => omega
    | succ h' =>
      obtain ⟨kvs, kids, hx, _⟩ := shape_succ s1
      rw [hx] at hne ⊢
      cases kvs with
      | nil => exact absurd rfl (hne kids)
      | cons _ _ => simp [Node.nKeys, Node.kvs]

/-! ## `btreeCheck` -/

theorem sublist_post (ks : List KV) (cs : List (List KV)) (h : ks.length ≤ cs.length) :
    ks.Sublist (post ks cs) := by
  induction ks generalizing cs with
  | nil => simp
  | cons kv ks ih =>
    cases cs with
    | nil => simp at h
    | cons c cs =>
      simp only [List.length_cons, Nat.add_le_add_iff_right] at h
      simp only [post_cons]
      exact List.Sublist.cons_cons _ ((ih cs h).trans (List.sublist_append_right _ _))

/-- the keys of a node are among its contents, in order -/
theorem kvs_sublist_contents {t h : Nat} {x : Node} (hs : Shape t h x) :
    x.kvs.Sublist (contents h x) := by
  cases h with
  | zero => obtain ⟨kvs, rfl, _⟩ := shape_zero hs; simp [contents, Node.kvs]
  | succ h =>
    obtain ⟨kvs, kids, rfl, _, hkids, _⟩ := shape_succ hs
    cases kids with
    | nil => simp at hkids
    | cons c cs =>
      simp only [contents, List.map_cons, interleave, Node.kvs]
      exact (sublist_post kvs (cs.map (contents h)) (by simp at hkids ⊢; omega)).trans
        (List.sublist_append_right _ _)

theorem ascending_of_sorted : ∀ (l : List KV), Sorted l → ascending l = true
  | [], _ => rfl
  | [_], _ => rfl
  | a :: b :: r, hs => by
    simp only [Sorted, List.pairwise_cons] at hs
    simp only [ascending, Bool.and_eq_true, decide_eq_true_eq]
    exact ⟨hs.1 b (by simp), ascending_of_sorted (b :: r) (by simp only [Sorted, List.pairwise_cons]; exact hs.2)⟩

/-- every pair lies within the bounds handed down by `btreeCheck0` -/
def Bounded (lo hi : Option Key) (l : List KV) : Prop :=
  (∀ l0, lo = some l0 → ∀ a ∈ l, l0 ≤ a.1) ∧ (∀ h0, hi = some h0 → ∀ a ∈ l, a.1 ≤ h0)

theorem checkKids_ok (t h : Nat) (hi : Option Key)
    (ih : ∀ (x : Node) (lo hi : Option Key), Shape t h x → t - 1 ≤ x.nKeys → Sorted (contents h x) →
      Bounded lo hi (contents h x) → check0 t h x lo hi = 0) :
    ∀ (kids : List Node) (kvs : List KV) (lo : Option Key) (code : Int),
      kids.length = kvs.length + 1 → (∀ c ∈ kids, t - 1 ≤ c.nKeys ∧ Shape t h c) →
      Sorted (interleave (kids.map (contents h)) kvs) →
      Bounded lo hi (interleave (kids.map (contents h)) kvs) →
      checkKids (check0 t h) kids kvs lo hi code = 0 := by
  intro kids
  induction kids with
  | nil => intro kvs lo code hlen; simp at hlen
  | cons c cs ihk =>
    intro kvs lo code hlen hc hso hbd
    have hcc := hc c (by simp)
    cases kvs with
    | nil =>
      have hcs : cs = [] := by
        cases cs with
        | nil => rfl
        | cons _ _ => simp at hlen
      subst hcs
      simp only [List.map_cons, List.map_nil, interleave, post_nil_left, List.append_nil] at hso hbd
      simp only [checkKids]
      rw [ih c lo hi hcc.2 hcc.1 hso hbd]; simp
    | cons kv kvs =>
      cases cs with
      | nil => simp at hlen
      | cons c2 cs =>
        simp only [List.map_cons, interleave, post_cons] at hso hbd
        obtain ⟨hC, hrest, hcross⟩ := List.pairwise_append.mp hso
        obtain ⟨hkvR, hR⟩ := List.pairwise_cons.mp hrest
        have h1 : check0 t h c lo (some kv.1) = 0 := by
          apply ih c lo (some kv.1) hcc.2 hcc.1 hC
          refine ⟨fun l0 hl0 a ha => hbd.1 l0 hl0 a (by simp [ha]), fun h0 hh0 a ha => ?_⟩
          simp only [Option.some.injEq] at hh0; subst hh0
          exact hcross a ha kv (by simp)
        simp only [checkKids, h1, ne_eq, not_true_eq_false, if_false]
        apply ihk kvs (some kv.1) (-8) (by simp at hlen ⊢; omega) (fun d hd => hc d (by simp [hd]))
        · simp only [List.map_cons, interleave]
          exact hR
        · simp only [List.map_cons, interleave]
          refine ⟨fun l0 hl0 a ha => ?_, fun h0 hh0 a ha => hbd.2 h0 hh0 a (by simp [ha])⟩
          simp only [Option.some.injEq] at hl0; subst hl0
          exact hkvR a ha

theorem check0_pre (t h : Nat) (x : Node) (lo hi : Option Key) (hs : Shape t h x) (hn : t - 1 ≤ x.nKeys)
    (hso : Sorted (contents h x)) (hbd : Bounded lo hi (contents h x)) :
    decide (2 * t - 1 < x.nKeys) = false ∧ decide (x.nKeys < t - 1) = false ∧
    loBad lo x.kvs = false ∧ ascending x.kvs = true ∧ hiBad hi x.kvs = false := by
  have hsub := kvs_sublist_contents hs
  refine ⟨by simpa using shape_nKeys hs, by simpa using hn, ?_, ?_, ?_⟩
  · unfold loBad
    cases lo with
    | none => rfl
    | some l =>
      cases hhead : x.kvs.head? with
      | none => rfl
      | some kv =>
        have hm : kv ∈ contents h x := hsub.subset (List.mem_of_head? hhead)
        have := hbd.1 l rfl kv hm
        simpa using this
  · exact ascending_of_sorted _ (hso.sublist hsub)
  · unfold hiBad
    cases hi with
    | none => rfl
    | some l =>
      cases hlast : x.kvs.getLast? with
      | none => rfl
      | some kv =>
        have hm : kv ∈ contents h x := hsub.subset (List.mem_of_getLast? hlast)
        have := hbd.2 l rfl kv hm
        simpa using this

theorem check0_ok (t : Nat) :
    ∀ (h : Nat) (x : Node) (lo hi : Option Key), Shape t h x → t - 1 ≤ x.nKeys →
      Sorted (contents h x) → Bounded lo hi (contents h x) → check0 t h x lo hi = 0 := by
  intro h
  induction h with
  | zero =>
    intro x lo hi hs hn hso hbd
    obtain ⟨f1, f2, f3, f4, f5⟩ := check0_pre t 0 x lo hi hs hn hso hbd
    obtain ⟨kvs, rfl, hk⟩ := shape_zero hs
    unfold check0
    simp [f1, f2, f3, f4, f5]
  | succ h ih =>
    intro x lo hi hs hn hso hbd
    obtain ⟨f1, f2, f3, f4, f5⟩ := check0_pre t (h + 1) x lo hi hs hn hso hbd
    obtain ⟨kvs, kids, rfl, hk, hkids, hc⟩ := shape_succ hs
    unfold check0
    simp only [f1, f2, f3, f4, f5, Bool.and_false, Bool.or_false, Bool.false_eq_true, if_false,
      Bool.not_true]
    exact checkKids_ok t h hi ih kids kvs lo (-7) hkids hc hso hbd

theorem check_ok (b : BTree) (hb : Inv b) : b.check = 0 := by
  obtain ⟨t, h, root⟩ := b
  obtain ⟨ht, hs, hr, hso⟩ := hb
  simp only at ht hs hr hso
  -- the root may have fewer than t-1 keys: both bounds are absent there
  unfold BTree.check
  simp only
  have hsub := kvs_sublist_contents hs
  have f1 : decide (2 * t - 1 < root.nKeys) = false := by simpa using shape_nKeys hs
  have f4 : ascending root.kvs = true := ascending_of_sorted _ (hso.sublist hsub)
  cases h with
  | zero =>
    obtain ⟨kvs, rfl, hk⟩ := shape_zero hs
    unfold check0
    simp [f1, f4, loBad, hiBad]
  | succ h =>
    obtain ⟨kvs, kids, rfl, hk, hkids, hc⟩ := shape_succ hs
    unfold check0
    simp only [f1, f4, loBad, hiBad, Option.isNone_none, Bool.and_self, Bool.and_false, Bool.not_true,
      Bool.false_and, Bool.false_eq_true, if_false]
    exact checkKids_ok t h none (check0_ok t h) kids kvs none (-7) hkids hc hso
      ⟨fun _ h0 => by simp at h0, fun _ h0 => by simp at h0⟩


end AldorVerif.BTree
