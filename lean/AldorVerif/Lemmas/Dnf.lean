import AldorVerif.Model.Dnf

namespace AldorVerif.Dnf

/-- atoms are non-zero (0 would be its own negation) -/
def NZc (c : Conj) : Prop := ∀ l ∈ c, l ≠ 0
def NZ (d : DNF) : Prop := ∀ c ∈ d, NZc c
def NZs (a : Slots) : Prop := ∀ c, some c ∈ a → NZc c

theorem litSem_neg (ρ : Nat → Bool) (l : Int) (h : l ≠ 0) : litSem ρ (-l) = !(litSem ρ l) := by
  unfold litSem
  have : (-l).natAbs = l.natAbs := Int.natAbs_neg l
  rw [this]
  by_cases hl : 0 < l
  · have : ¬ (0 < -l) := by omega
    simp [hl]; omega
  · have : 0 < -l := by omega
    simp [hl]; omega

theorem conjSem_cons (ρ) (x : Int) (xs : Conj) : conjSem ρ (x :: xs) = (litSem ρ x && conjSem ρ xs) := by
  simp [conjSem]

theorem conjSem_nil (ρ) : conjSem ρ [] = true := by simp [conjSem]

/-! ### dnfAndMerge -/

theorem mergeLoop_sem (ρ) (xs ys : Conj) :
    match mergeLoop xs ys with
    | some r => conjSem ρ r = (conjSem ρ xs && conjSem ρ ys)
    | none => (conjSem ρ xs && conjSem ρ ys) = false := by
  fun_induction mergeLoop xs ys with
  | case1 ys => simp [conjSem_nil]
  | case2 xs h => simp [conjSem_nil]
  | case3 x xs y ys h ih =>
    cases hm : mergeLoop xs (y :: ys) <;> simp only [hm, Option.map, conjSem_cons] at ih ⊢ <;> grind
  | case4 x xs y ys h1 h2 ih =>
    cases hm : mergeLoop (x :: xs) ys <;> simp only [hm, Option.map, conjSem_cons] at ih ⊢ <;> grind
  | case5 xs l ys h1 h2 ih =>
    cases hm : mergeLoop xs (l :: ys) <;> simp only [hm, conjSem_cons] at ih ⊢ <;> grind
  | case6 x xs y ys h1 h2 h3 =>
    simp only [atomLT, decide_eq_true_eq] at h1 h2
    have hxy : x = -y := by omega
    have hy : y ≠ 0 := by omega
    simp only [conjSem_cons, hxy, litSem_neg ρ y hy]
    grind

theorem mergeLoop_nz (xs ys : Conj) (hx : NZc xs) (hy : NZc ys) :
    ∀ r, mergeLoop xs ys = some r → NZc r := by
  fun_induction mergeLoop xs ys with
  | case1 ys => intro r h; simp at h; subst h; exact hy
  | case2 xs h => intro r h; simp at h; subst h; exact hx
  | case3 x xs y ys h ih =>
    intro r hr
    cases hm : mergeLoop xs (y :: ys) with
    | none => simp [hm] at hr
    | some r' =>
      simp [hm] at hr; subst hr
      have := ih (fun l hl => hx l (List.mem_cons_of_mem _ hl)) hy r' hm
      intro l hl
      rcases List.mem_cons.mp hl with h | h
      · subst h; exact hx _ (List.mem_cons_self)
      · exact this l h
  | case4 x xs y ys h1 h2 ih =>
    intro r hr
    cases hm : mergeLoop (x :: xs) ys with
    | none => simp [hm] at hr
    | some r' =>
      simp [hm] at hr; subst hr
      have := ih hx (fun l hl => hy l (List.mem_cons_of_mem _ hl)) r' hm
      intro l hl
      rcases List.mem_cons.mp hl with h | h
      · subst h; exact hy _ (List.mem_cons_self)
      · exact this l h
  | case5 xs l ys h1 h2 ih =>
    intro r hr
    exact ih (fun l' hl => hx l' (List.mem_cons_of_mem _ hl)) hy r hr
  | case6 x xs y ys h1 h2 h3 => intro r hr; simp at hr

theorem andMerge_sem (ρ) (xs ys : Conj) :
    match andMerge xs ys with
    | some r => conjSem ρ r = (conjSem ρ xs && conjSem ρ ys)
    | none => (conjSem ρ xs && conjSem ρ ys) = false := by
  unfold andMerge
  by_cases h1 : xs.isEmpty = true
  · rw [if_pos h1]; simp at h1; subst h1; simp [conjSem_nil]
  · rw [if_neg h1]
    by_cases h2 : ys.isEmpty = true
    · rw [if_pos h2]; simp at h2; subst h2; simp [conjSem_nil]
    · rw [if_neg h2]; exact mergeLoop_sem ρ xs ys

theorem andMerge_nz (xs ys : Conj) (hx : NZc xs) (hy : NZc ys) :
    ∀ r, andMerge xs ys = some r → NZc r := by
  unfold andMerge
  by_cases h1 : xs.isEmpty = true
  · rw [if_pos h1]; intro r h; simp at h; subst h; exact hy
  · rw [if_neg h1]
    by_cases h2 : ys.isEmpty = true
    · rw [if_pos h2]; intro r h; simp at h; subst h; exact hx
    · rw [if_neg h2]; exact mergeLoop_nz xs ys hx hy

/-! ### dnfAndImplies / dnfAndImpliesNegation / dnfAndCancelNegation -/

theorem impliesLoop_sound (ρ) (xs ys : Conj) (h : impliesLoop xs ys = true)
    (hx : conjSem ρ xs = true) : conjSem ρ ys = true := by
  fun_induction impliesLoop xs ys with
  | case1 xs => exact conjSem_nil ρ
  | case2 y ys => simp at h
  | case3 x xs y ys hlt ih =>
    simp [conjSem_cons] at hx; exact ih h hx.2
  | case4 x xs ys hlt ih =>
    simp [conjSem_cons] at hx ⊢; exact ⟨hx.1, ih h hx.2⟩
  | case5 x xs y ys h1 h2 => simp at h

theorem andImplies_sound (ρ) (xs ys : Conj) (h : andImplies xs ys = true)
    (hx : conjSem ρ xs = true) : conjSem ρ ys = true := by
  unfold andImplies at h
  split at h
  · simp at h
  · exact impliesLoop_sound ρ xs ys h hx

/-- all literals of `ys`, negated, hold -/
def negAll (ρ : Nat → Bool) (ys : Conj) : Bool := ys.all (fun y => litSem ρ (-y))

theorem cancelNeg_sem (ρ) (xs ys : Conj) (h : impliesNegLoop xs ys = true) :
    conjSem ρ xs = (conjSem ρ (cancelNeg xs ys) && negAll ρ ys) := by
  fun_induction impliesNegLoop xs ys with
  | case1 xs => simp [cancelNeg, negAll]
  | case2 y ys => simp at h
  | case3 x xs y ys hlt ih =>
    simp [cancelNeg, hlt, conjSem_cons, ih h, Bool.and_assoc]
  | case4 xs y ys hlt ih =>
    simp only [cancelNeg, hlt]
    simp only [conjSem_cons, ih h, negAll, List.all_cons]
    cases litSem ρ (-y) <;> simp
  | case5 x xs y ys h1 h2 => simp at h

theorem cancelNeg_sub (xs ys : Conj) : ∀ l ∈ cancelNeg xs ys, l ∈ xs := by
  fun_induction cancelNeg xs ys with
  | case1 xs => intro l h; exact h
  | case2 y ys => intro l h; simp at h
  | case3 x xs y ys hlt ih =>
    intro l h
    rcases List.mem_cons.mp h with h | h
    · subst h; exact List.mem_cons_self
    · exact List.mem_cons_of_mem _ (ih l h)
  | case4 xs y ys hlt ih =>
    intro l h; exact List.mem_cons_of_mem _ (ih l h)
  | case5 x xs y ys h1 h2 => intro l h; exact h

/-! ### slots -/

def slotSem (ρ : Nat → Bool) (o : Option Conj) : Bool :=
  match o with | some c => conjSem ρ c | none => false

def slotsSem (ρ : Nat → Bool) (a : Slots) : Bool := a.any (slotSem ρ)

theorem slot_some (a : Slots) (i : Nat) (c : Conj) (h : slot a i = some c) :
    ∃ hi : i < a.length, a[i] = some c := by
  unfold slot at h
  cases hg : a[i]? with
  | none => simp [hg] at h
  | some o =>
    simp [hg] at h
    subst h
    have := List.getElem?_eq_some_iff.mp hg
    exact this

theorem slotsSem_true_iff (ρ) (a : Slots) :
    slotsSem ρ a = true ↔ ∃ c, some c ∈ a ∧ conjSem ρ c = true := by
  unfold slotsSem
  rw [List.any_eq_true]
  constructor
  · rintro ⟨o, ho, hs⟩
    cases o with
    | none => simp [slotSem] at hs
    | some c => exact ⟨c, ho, hs⟩
  · rintro ⟨c, hc, hs⟩
    exact ⟨some c, hc, hs⟩

theorem mem_set_iff {α} (a : List α) (i : Nat) (hi : i < a.length) (v x : α) :
    x ∈ a.set i v ↔ x = v ∨ ∃ k, ∃ hk : k < a.length, k ≠ i ∧ a[k] = x := by
  constructor
  · intro h
    rcases List.mem_iff_getElem.mp h with ⟨k, hk, hx⟩
    rw [List.length_set] at hk
    rw [List.getElem_set] at hx
    by_cases hik : i = k
    · simp [hik] at hx; left; exact hx.symm
    · simp [hik] at hx; right; exact ⟨k, hk, fun e => hik e.symm, hx⟩
  · rintro (h | ⟨k, hk, hne, hx⟩)
    · subst h
      exact List.mem_iff_getElem.mpr ⟨i, by simpa using hi, by simp⟩
    · refine List.mem_iff_getElem.mpr ⟨k, by simpa using hk, ?_⟩
      rw [List.getElem_set]
      have : ¬ i = k := fun e => hne e.symm
      simp [this, hx]

/-- replacing slot i (holding xi) by `none` when xi ⇒ xj, xj in another slot -/
theorem stepAbsorb_sem (ρ) (a : Slots) (i j : Nat) :
    slotsSem ρ (stepAbsorb a i j) = slotsSem ρ a := by
  unfold stepAbsorb
  split
  · rename_i hij
    split
    · rename_i xi xj hi hj
      split
      · rename_i himp
        obtain ⟨hil, hiv⟩ := slot_some a i xi hi
        obtain ⟨hjl, hjv⟩ := slot_some a j xj hj
        apply Bool.eq_iff_iff.mpr
        rw [slotsSem_true_iff, slotsSem_true_iff]
        constructor
        · rintro ⟨c, hc, hs⟩
          rcases (mem_set_iff a i hil none (some c)).mp hc with h | ⟨k, hk, _, hx⟩
          · simp at h
          · exact ⟨c, List.mem_iff_getElem.mpr ⟨k, hk, hx⟩, hs⟩
        · rintro ⟨c, hc, hs⟩
          rcases List.mem_iff_getElem.mp hc with ⟨k, hk, hx⟩
          by_cases hki : k = i
          · subst hki
            have : c = xi := by rw [hiv] at hx; exact (Option.some.inj hx).symm
            subst this
            refine ⟨xj, ?_, andImplies_sound ρ c xj himp hs⟩
            exact (mem_set_iff a k hil none (some xj)).mpr (Or.inr ⟨j, hjl, fun e => hij e.symm, hjv⟩)
          · exact ⟨c, (mem_set_iff a i hil none (some c)).mpr (Or.inr ⟨k, hk, hki, hx⟩), hs⟩
      · rfl
    · rfl
  · rfl

theorem stepAbsorb_nz (a : Slots) (i j : Nat) (h : NZs a) : NZs (stepAbsorb a i j) := by
  unfold stepAbsorb
  split
  · split
    · rename_i xi xj hi hj
      split
      · obtain ⟨hil, hiv⟩ := slot_some a i xi hi
        intro c hc
        rcases (mem_set_iff a i hil none (some c)).mp hc with h' | ⟨k, hk, _, hx⟩
        · simp at h'
        · exact h c (List.mem_iff_getElem.mpr ⟨k, hk, hx⟩)
      · exact h
    · exact h
  · exact h

theorem stepAbsorb_length (a : Slots) (i j : Nat) : (stepAbsorb a i j).length = a.length := by
  unfold stepAbsorb; split
  · split
    · split <;> simp
    · rfl
  · rfl

theorem impliesNegLoop_len (xs ys : Conj) (h : impliesNegLoop xs ys = true) : ys.length ≤ xs.length := by
  fun_induction impliesNegLoop xs ys with
  | case1 xs => simp
  | case2 y ys => simp at h
  | case3 x xs y ys hlt ih => have := ih h; simp at this ⊢; omega
  | case4 xs y ys hlt ih => have := ih h; simp; omega
  | case5 x xs y ys h1 h2 => simp at h

/-- the cancel step is sound when the cancelled disjunct xj is a single literal -/
theorem stepCancel_sem (ρ) (a : Slots) (i j : Nat) (hnz : NZs a)
    (hsingle : ∀ xj, slot a j = some xj → cancelFires a i j = true → xj.length ≤ 1) :
    slotsSem ρ (stepCancel a i j) = slotsSem ρ a := by
  unfold stepCancel
  split
  · rename_i hij
    split
    · rename_i xi xj hi hj
      split
      · rename_i himp
        obtain ⟨hil, hiv⟩ := slot_some a i xi hi
        obtain ⟨hjl, hjv⟩ := slot_some a j xj hj
        have hfire : cancelFires a i j = true := by
          simp [cancelFires, hij, hi, hj, himp]
        have hlen := hsingle xj hj hfire
        have himp' : impliesNegLoop xi xj = true := by
          unfold andImpliesNeg at himp; split at himp
          · simp at himp
          · exact himp
        have hsem := cancelNeg_sem ρ xi xj himp'
        have hxjnz : NZc xj := hnz xj (List.mem_iff_getElem.mpr ⟨j, hjl, hjv⟩)
        -- key: conjSem xi ∨ conjSem xj = conjSem (cancel) ∨ conjSem xj
        have key : (conjSem ρ xi || conjSem ρ xj) = (conjSem ρ (cancelNeg xi xj) || conjSem ρ xj) := by
          rw [hsem]
          match xj, hlen, hxjnz with
          | [], _, _ => simp [negAll, conjSem_nil]
          | [y], _, hy =>
            have : y ≠ 0 := hy y (by simp)
            simp [negAll, conjSem, litSem_neg ρ y this]
            cases litSem ρ y <;> simp
          | _ :: _ :: _, hl, _ => simp at hl
        apply Bool.eq_iff_iff.mpr
        rw [slotsSem_true_iff, slotsSem_true_iff]
        have hjmem' : some xj ∈ a.set i (some (cancelNeg xi xj)) :=
          (mem_set_iff a i hil _ (some xj)).mpr (Or.inr ⟨j, hjl, fun e => hij e.symm, hjv⟩)
        have hjmem : some xj ∈ a := List.mem_iff_getElem.mpr ⟨j, hjl, hjv⟩
        have himem : some xi ∈ a := List.mem_iff_getElem.mpr ⟨i, hil, hiv⟩
        constructor
        · rintro ⟨c, hc, hs⟩
          rcases (mem_set_iff a i hil _ (some c)).mp hc with h | ⟨k, hk, _, hx⟩
          · have hc' : c = cancelNeg xi xj := Option.some.inj h
            subst hc'
            have : (conjSem ρ xi || conjSem ρ xj) = true := by rw [key]; simp [hs]
            rcases Bool.or_eq_true_iff.mp this with h1 | h1
            · exact ⟨xi, himem, h1⟩
            · exact ⟨xj, hjmem, h1⟩
          · exact ⟨c, List.mem_iff_getElem.mpr ⟨k, hk, hx⟩, hs⟩
        · rintro ⟨c, hc, hs⟩
          rcases List.mem_iff_getElem.mp hc with ⟨k, hk, hx⟩
          by_cases hki : k = i
          · subst hki
            have : c = xi := by rw [hiv] at hx; exact (Option.some.inj hx).symm
            subst this
            have : (conjSem ρ (cancelNeg c xj) || conjSem ρ xj) = true := by rw [← key]; simp [hs]
            rcases Bool.or_eq_true_iff.mp this with h1 | h1
            · exact ⟨_, (mem_set_iff a k hil _ _).mpr (Or.inl rfl), h1⟩
            · exact ⟨xj, hjmem', h1⟩
          · exact ⟨c, (mem_set_iff a i hil _ (some c)).mpr (Or.inr ⟨k, hk, hki, hx⟩), hs⟩
      · rfl
    · rfl
  · rfl

theorem stepCancel_nz (a : Slots) (i j : Nat) (h : NZs a) : NZs (stepCancel a i j) := by
  unfold stepCancel
  split
  · split
    · rename_i xi xj hi hj
      split
      · obtain ⟨hil, hiv⟩ := slot_some a i xi hi
        intro c hc
        rcases (mem_set_iff a i hil _ (some c)).mp hc with h' | ⟨k, hk, _, hx⟩
        · have hc' : c = cancelNeg xi xj := Option.some.inj h'
          subst hc'
          have hxi : NZc xi := h xi (List.mem_iff_getElem.mpr ⟨i, hil, hiv⟩)
          intro l hl; exact hxi l (cancelNeg_sub xi xj l hl)
        · exact h c (List.mem_iff_getElem.mpr ⟨k, hk, hx⟩)
      · exact h
    · exact h
  · exact h

theorem stepCancel_length (a : Slots) (i j : Nat) : (stepCancel a i j).length = a.length := by
  unfold stepCancel; split
  · split
    · split <;> simp
    · rfl
  · rfl

theorem step_sem (ρ) (a : Slots) (i j : Nat) (hnz : NZs a) (hm : stepMulti a i j = false) :
    slotsSem ρ (step a i j) = slotsSem ρ a := by
  unfold step
  rw [stepCancel_sem ρ _ i j (stepAbsorb_nz a i j hnz), stepAbsorb_sem]
  intro xj hj hfire
  unfold stepMulti at hm
  simp only [hfire, hj, Bool.true_and, decide_eq_false_iff_not] at hm
  omega

theorem step_nz (a : Slots) (i j : Nat) (h : NZs a) : NZs (step a i j) :=
  stepCancel_nz _ i j (stepAbsorb_nz a i j h)

theorem step_length (a : Slots) (i j : Nat) : (step a i j).length = a.length := by
  unfold step; rw [stepCancel_length, stepAbsorb_length]

/-! ### the loops -/

theorem inner_gen (ρ) (i : Nat) (js : List Nat) (a : Slots) (b : Bool) (hnz : NZs a) :
    let r := js.foldl (fun (s : Slots × Bool) j => (step s.1 i j, s.2 || stepMulti s.1 i j)) (a, b)
    r.1 = js.foldl (fun a j => step a i j) a ∧ NZs r.1 ∧ (r.2 = false → b = false ∧ slotsSem ρ r.1 = slotsSem ρ a) := by
  induction js generalizing a b with
  | nil => simp [hnz]
  | cons j js ih =>
    simp only [List.foldl_cons]
    have := ih (step a i j) (b || stepMulti a i j) (step_nz a i j hnz)
    refine ⟨this.1, this.2.1, ?_⟩
    intro hr
    have h2 := this.2.2 hr
    have hb : b = false ∧ stepMulti a i j = false := by
      have := h2.1; simpa [Bool.or_eq_false_iff] using this
    exact ⟨hb.1, by rw [h2.2, step_sem ρ a i j hnz hb.2]⟩

theorem innerMulti_spec (ρ) (n : Nat) (a : Slots) (i : Nat) (hnz : NZs a) :
    (innerMulti n a i).1 = innerLoop n a i ∧ NZs (innerMulti n a i).1 ∧
    ((innerMulti n a i).2 = false → slotsSem ρ (innerLoop n a i) = slotsSem ρ a) := by
  have := inner_gen ρ i (List.range n) a false hnz
  unfold innerMulti innerLoop
  refine ⟨this.1, this.2.1, fun h => ?_⟩
  have h2 := (this.2.2 h).2
  rw [← this.1]; exact h2

theorem outer_gen (ρ) (n : Nat) (is : List Nat) (a : Slots) (b : Bool) (hnz : NZs a) :
    let r := is.foldl (fun (s : Slots × Bool) i =>
      let r := innerMulti n s.1 i; (r.1, s.2 || r.2)) (a, b)
    r.1 = is.foldl (fun a i => innerLoop n a i) a ∧ NZs r.1 ∧
      (r.2 = false → b = false ∧ slotsSem ρ r.1 = slotsSem ρ a) := by
  induction is generalizing a b with
  | nil => simp [hnz]
  | cons i is ih =>
    simp only [List.foldl_cons]
    have hi := innerMulti_spec ρ n a i hnz
    have := ih (innerMulti n a i).1 (b || (innerMulti n a i).2) hi.2.1
    rw [hi.1] at this
    rw [hi.1]
    refine ⟨this.1, this.2.1, ?_⟩
    intro hr
    have h2 := this.2.2 hr
    have hb : b = false ∧ (innerMulti n a i).2 = false := by
      have := h2.1; simpa [Bool.or_eq_false_iff] using this
    exact ⟨hb.1, by rw [h2.2, hi.2.2 hb.2]⟩

theorem sem_filterMap (ρ) (a : Slots) : sem ρ (a.filterMap id) = slotsSem ρ a := by
  unfold sem slotsSem
  induction a with
  | nil => simp
  | cons o a ih =>
    cases o with
    | none => simp [List.filterMap_cons, slotSem, ih]
    | some c => simp [List.filterMap_cons, slotSem, ih]

theorem nz_filterMap (a : Slots) (h : NZs a) : NZ (a.filterMap id) := by
  intro c hc
  simp at hc
  exact h c hc

theorem orMerge_spec (ρ) (a : Slots) (hnz : NZs a) :
    NZ (orMerge a) ∧ (orMergeMulti a = false → sem ρ (orMerge a) = slotsSem ρ a) := by
  have := outer_gen ρ a.length (List.range a.length) a false hnz
  unfold orMerge orMergeMulti outerLoop outerMulti
  constructor
  · apply nz_filterMap; rw [← this.1]; exact this.2.1
  · intro h
    rw [sem_filterMap, ← this.1]
    exact (this.2.2 h).2

/-! ### public operations -/

theorem isTrue_sem (ρ) (x : DNF) (h : isTrue x = true) : sem ρ x = true := by
  unfold isTrue at h
  match x, h with
  | [c], h => simp at h; subst h; simp [sem, conjSem]

theorem isFalse_sem (ρ) (x : DNF) (h : isFalse x = true) : sem ρ x = false := by
  unfold isFalse at h; simp at h; subst h; simp [sem]

theorem sem_true (ρ) : sem ρ dnfTrue = true := by simp [dnfTrue, sem, conjSem]
theorem sem_false (ρ) : sem ρ dnfFalse = false := by simp [dnfFalse, sem]

theorem sem_append (ρ) (x y : DNF) : sem ρ (x ++ y) = (sem ρ x || sem ρ y) := by
  simp [sem]

theorem slotsSem_map_some (ρ) (x : DNF) : slotsSem ρ (x.map some) = sem ρ x := by
  simp [slotsSem, sem, List.any_map, Function.comp_def, slotSem]

theorem nzs_map_some (x : DNF) (h : NZ x) : NZs (x.map some) := by
  intro c hc; simp at hc; exact h c hc

theorem nz_append (x y : DNF) (hx : NZ x) (hy : NZ y) : NZ (x ++ y) := by
  intro c hc
  rcases List.mem_append.mp hc with h | h
  · exact hx c h
  · exact hy c h

theorem dnfOr_spec (ρ) (x y : DNF) (hx : NZ x) (hy : NZ y) :
    NZ (dnfOr x y) ∧ (dnfOrMulti x y = false → sem ρ (dnfOr x y) = (sem ρ x || sem ρ y)) := by
  unfold dnfOr dnfOrMulti
  by_cases h1 : (isTrue x || isTrue y) = true
  · simp only [h1, if_true]
    refine ⟨?_, fun _ => ?_⟩
    · intro c hc; simp [dnfTrue] at hc; subst hc; intro l hl; simp at hl
    · rcases Bool.or_eq_true_iff.mp h1 with h | h
      · rw [sem_true, isTrue_sem ρ x h]; simp
      · rw [sem_true, isTrue_sem ρ y h]; simp
  · simp only [h1]
    by_cases h2 : isFalse x = true
    · simp only [h2, if_true]
      exact ⟨hy, fun _ => by rw [isFalse_sem ρ x h2]; simp⟩
    · simp only [h2]
      by_cases h3 : isFalse y = true
      · simp only [h3, if_true]
        exact ⟨hx, fun _ => by rw [isFalse_sem ρ y h3]; simp⟩
      · simp only [h3]
        have hs := orMerge_spec ρ (orSlots x y) (nzs_map_some _ (nz_append x y hx hy))
        refine ⟨hs.1, fun hm => ?_⟩
        have := hs.2 (by simpa using hm)
        simp only [Bool.false_eq_true, if_false]
        rw [this]; unfold orSlots; rw [slotsSem_map_some, sem_append]

theorem andRow_sem (ρ) (xi : Conj) (y : DNF) :
    (List.map (fun yj => andMerge xi yj) y).any (slotSem ρ) = (conjSem ρ xi && y.any (conjSem ρ)) := by
  induction y with
  | nil => simp
  | cons yj ys ihy =>
    simp only [List.map_cons, List.any_cons, ihy]
    have hm := andMerge_sem ρ xi yj
    cases hmm : andMerge xi yj with
    | none =>
      simp only [hmm] at hm
      simp only [slotSem]
      cases h1 : conjSem ρ xi <;> cases h2 : conjSem ρ yj <;> simp_all
    | some r =>
      simp only [hmm] at hm
      simp only [slotSem, hm]
      cases conjSem ρ xi <;> simp

theorem andSlots_sem (ρ) (x y : DNF) : slotsSem ρ (andSlots x y) = (sem ρ x && sem ρ y) := by
  unfold andSlots slotsSem sem
  induction x with
  | nil => simp
  | cons xi xs ih =>
    simp only [List.flatMap_cons, List.any_append, List.any_cons, ih, andRow_sem]
    cases conjSem ρ xi <;> simp

theorem andSlots_nz (x y : DNF) (hx : NZ x) (hy : NZ y) : NZs (andSlots x y) := by
  intro c hc
  unfold andSlots at hc
  simp only [List.mem_flatMap, List.mem_map] at hc
  obtain ⟨xi, hxi, yj, hyj, hm⟩ := hc
  exact andMerge_nz xi yj (hx xi hxi) (hy yj hyj) c hm

theorem dnfAnd_spec (ρ) (x y : DNF) (hx : NZ x) (hy : NZ y) :
    NZ (dnfAnd x y) ∧ (dnfAndMulti x y = false → sem ρ (dnfAnd x y) = (sem ρ x && sem ρ y)) := by
  unfold dnfAnd dnfAndMulti
  by_cases h1 : (isFalse x || isFalse y) = true
  · simp only [h1, if_true]
    refine ⟨?_, fun _ => ?_⟩
    · intro c hc; simp [dnfFalse] at hc
    · rcases Bool.or_eq_true_iff.mp h1 with h | h
      · rw [sem_false, isFalse_sem ρ x h]; simp
      · rw [sem_false, isFalse_sem ρ y h]; simp
  · simp only [h1]
    by_cases h2 : isTrue x = true
    · simp only [h2, if_true]
      exact ⟨hy, fun _ => by rw [isTrue_sem ρ x h2]; simp⟩
    · simp only [h2]
      by_cases h3 : isTrue y = true
      · simp only [h3, if_true]
        exact ⟨hx, fun _ => by rw [isTrue_sem ρ y h3]; simp⟩
      · simp only [h3]
        have hs := orMerge_spec ρ (andSlots x y) (andSlots_nz x y hx hy)
        refine ⟨hs.1, fun hm => ?_⟩
        have := hs.2 (by simpa using hm)
        simp only [Bool.false_eq_true, if_false]
        rw [this, andSlots_sem]

theorem andNot_sem (ρ) (c : Conj) (h : NZc c) : sem ρ (andNot c) = !(conjSem ρ c) := by
  unfold andNot sem conjSem
  induction c with
  | nil => simp
  | cons l ls ih =>
    have hl : l ≠ 0 := h l (by simp)
    have := ih (fun l' hl' => h l' (List.mem_cons_of_mem _ hl'))
    simp only [List.map_cons, List.any_cons, List.all_cons, this]
    simp [List.all_cons, litSem_neg ρ l hl]

theorem andNot_nz (c : Conj) (h : NZc c) : NZ (andNot c) := by
  intro c' hc'
  unfold andNot at hc'
  simp at hc'
  obtain ⟨a, ha, rfl⟩ := hc'
  intro l hl; simp at hl; subst hl
  have := h a ha; omega

theorem notFold_spec (ρ) (xs : DNF) (r : DNF) (b : Bool) (hxs : NZ xs) (hr : NZ r) :
    let s := xs.foldl (fun (s : DNF × Bool) xi =>
      (dnfAnd s.1 (andNot xi), s.2 || dnfAndMulti s.1 (andNot xi))) (r, b)
    s.1 = xs.foldl (fun rr xi => dnfAnd rr (andNot xi)) r ∧ NZ s.1 ∧
    (s.2 = false → b = false ∧ sem ρ s.1 = (sem ρ r && !(sem ρ xs))) := by
  induction xs generalizing r b with
  | nil => simp [hr, sem]
  | cons xi xs ih =>
    simp only [List.foldl_cons]
    have hxi : NZc xi := hxs xi (by simp)
    have hxs' : NZ xs := fun c hc => hxs c (List.mem_cons_of_mem _ hc)
    have ha := dnfAnd_spec ρ r (andNot xi) hr (andNot_nz xi hxi)
    have := ih (dnfAnd r (andNot xi)) (b || dnfAndMulti r (andNot xi)) hxs' ha.1
    refine ⟨this.1, this.2.1, fun hs => ?_⟩
    have h2 := this.2.2 hs
    have hb : b = false ∧ dnfAndMulti r (andNot xi) = false := by
      have := h2.1; simpa [Bool.or_eq_false_iff] using this
    refine ⟨hb.1, ?_⟩
    rw [h2.2, ha.2 hb.2, andNot_sem ρ xi hxi]
    simp [sem, Bool.and_assoc]

theorem dnfNot_spec (ρ) (x : DNF) (hx : NZ x) :
    NZ (dnfNot x) ∧ (dnfNotMulti x = false → sem ρ (dnfNot x) = !(sem ρ x)) := by
  unfold dnfNot dnfNotMulti
  by_cases h1 : isFalse x = true
  · simp only [if_pos h1]
    refine ⟨?_, fun _ => by rw [isFalse_sem ρ x h1, sem_true]; simp⟩
    intro c hc; simp [dnfTrue] at hc; subst hc; intro l hl; simp at hl
  · simp only [if_neg h1]
    by_cases h2 : isTrue x = true
    · simp only [if_pos h2]
      refine ⟨?_, fun _ => by rw [isTrue_sem ρ x h2, sem_false]; simp⟩
      intro c hc; simp [dnfFalse] at hc
    · simp only [if_neg h2]
      have htrue : NZ dnfTrue := by
        intro c hc; simp [dnfTrue] at hc; subst hc; intro l hl; simp at hl
      have := notFold_spec ρ x dnfTrue false hx htrue
      refine ⟨by rw [← this.1]; exact this.2.1, fun hm => ?_⟩
      have h := (this.2.2 hm).2
      rw [← this.1, h, sem_true]; simp

theorem dnfImplies_sound (ρ) (x y : DNF) (h : dnfImplies x y = true) (hx : sem ρ x = true) :
    sem ρ y = true := by
  unfold dnfImplies at h
  unfold sem at hx ⊢
  rw [List.any_eq_true] at hx ⊢
  obtain ⟨xi, hxi, hs⟩ := hx
  rw [List.all_eq_true] at h
  have := h xi hxi
  rw [List.any_eq_true] at this
  obtain ⟨yj, hyj, himp⟩ := this
  exact ⟨yj, hyj, andImplies_sound ρ xi yj himp hs⟩

end AldorVerif.Dnf
