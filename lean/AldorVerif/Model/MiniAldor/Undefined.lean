import AldorVerif.Model.MiniAldor.Eval
/-!
# MiniAldor — the points the language definition leaves open

The family of programs C01 quantifies over excludes every program whose evaluation reaches one of
these points: the reference evaluator answers `Res.undef why` there, `evalProg` turns that into
`ExitClass.undefined why`, and the driver reports the program as rejected (it is counted, not run).

| `why` | where the definition leaves it open |
|---|---|
| argument order | Aldor User Guide, "Function calls" (langfuns.tex): *"the order in which the arguments to a function are evaluated is not defined"* and "Multiple values" (langexpr.tex). Handled statically by `OrderIndependent` (Effects.lean), not by `undef`. |
| `mi-div-by-zero`, `int-div-by-zero` | libaldor `IntegerType` (`sal_intcat.as`): `quo`, `rem`, `mod` are specified for *"integers, b ≠ 0"* only. |
| `mi-quo-overflow` | `min quo -1` is not representable; the machine operation traps (C: undefined). |
| `mi-mod-min` | `a mod min`: `0 ≤ m < |b|` cannot be expressed in the type for `b = min`. |
| `negative-exponent` | `sal_mint.as`: `(a:%) ^ (b:%)` begins `assert(b >= 0)`. |
| `zero-to-zero` | the library returns `0` for `0^0` (`zero? a or one? a => a`), mathematics says `1`; the guide says nothing. Left out of the family. |
| `machine-of-large-integer` | `machine: % -> MachineInteger` (`sal_intcat.as`): *"can cause a loss of precision if a is greater than a machine word"* — result not specified. |
| `list-index-out-of-range`, `array-index-out-of-range` | `apply`/`set!` of `List`/`Array` are specified for `1 ≤ n ≤ #l` resp. `0 ≤ n < #a` only (`sal_list.as`, `sal_array.as`; bounds checks are a compile-time option of the library). |
| `first-of-empty`, `rest-of-empty` | `first`/`rest` of `List`: parameter *"a nonempty list"*. |
| `wrong-union-branch` | Guide, "Union": selecting a branch the value is not in is an error whose effect is not defined. |
| `negative-array-size`, `huge-array`, `huge-range` | resource limits of the harness, not of the language (kept out so that runs stay short). |
| `range-end-overflow` | `for i in a..b` with `b + step` outside the machine word: the library generator's final increment wraps. |
| reading an unassigned variable | Guide, "Variables": the value of a variable that has not been assigned is not defined. Excluded statically: the checker only admits declarations with an initial value. |
-/
namespace AldorVerif.MiniAldor

/-- the reasons the evaluator can answer `undef` with -/
def undefinedReasons : List String :=
  ["mi-div-by-zero", "int-div-by-zero", "mi-quo-overflow", "mi-mod-min", "negative-exponent", "zero-to-zero",
   "machine-of-large-integer", "list-index-out-of-range", "array-index-out-of-range", "first-of-empty",
   "rest-of-empty", "wrong-union-branch", "negative-array-size", "huge-array", "huge-range", "range-end-overflow"]

end AldorVerif.MiniAldor
