import AldorVerif.Model.MiniAldor.Expand
/-!
# MiniAldor — `OrderIndependent`

The Aldor User Guide leaves the order of evaluation of the actual arguments of an application
undefined.  The family of C01 therefore only contains programs in which that order cannot be
observed.  This file defines the decidable (computable) predicate: a conservative effect
analysis (`Eff`: reads mutable state / writes mutable state / prints / may leave abnormally) and
the requirement that in every application — including the nested applications a `<<` chain
stands for — the effects of any two arguments commute.
-/
namespace AldorVerif.MiniAldor

structure Eff where
  r : Bool := false   -- reads a mutable variable, an array element or a record field
  w : Bool := false   -- assigns a variable, an array element or a record field
  p : Bool := false   -- writes to stdout
  x : Bool := false   -- may throw (leave the argument list abnormally)
  c : Bool := false   -- return, break, iterate (abnormal too, but stops at the function boundary)
  deriving DecidableEq, Repr, Inhabited

def Eff.none : Eff := {}
def Eff.top : Eff := ⟨true, true, true, true, false⟩
def Eff.union (a b : Eff) : Eff := ⟨a.r || b.r, a.w || b.w, a.p || b.p, a.x || b.x, a.c || b.c⟩
def Eff.abn (a : Eff) : Bool := a.x || a.c
instance : Append Eff := ⟨Eff.union⟩

/-- two arguments may be evaluated in either order -/
def compat (a b : Eff) : Bool :=
  !(a.w && (b.r || b.w)) && !(b.w && (a.r || a.w)) && !(a.p && b.p)
  && !(a.abn && (b.w || b.p || b.abn)) && !(b.abn && (a.w || a.p || a.abn))

def compatWithAll (a : Eff) : List Eff → Bool
  | [] => true
  | b :: r => compat a b && compatWithAll a r

def pairwiseCompat : List Eff → Bool
  | [] => true
  | a :: r => compatWithAll a r && pairwiseCompat r

/-- key of a summary: a named function with its signature (overloads are told apart), or a
method name (unique; all implementations of a method share one summary) -/
abbrev FKey := String × List Ty × Ty

def methKey (m : String) : FKey := (m, [], .unit)

abbrev Summ := List (FKey × Eff)

def Summ.get (σ : Summ) (f : FKey) : Eff :=
  match σ with
  | [] => Eff.top
  | (g, e) :: r => if f = g then e else Summ.get r f

section
variable (muts : List String) (σ : Summ)

mutual
def eff : Expr → Eff
  | .var x => if x ∈ muts then ⟨true, false, false, false, false⟩ else Eff.none
  | .bin _ a b => eff a ++ eff b
  | .un op a => (match op with | .len => ⟨true, false, false, false, false⟩ | _ => Eff.none) ++ eff a
  | .ite c t e => eff c ++ eff t ++ eff e
  | .seq ss => effL ss
  | .exit c v => eff c ++ eff v
  | .decl _ _ e => eff e
  | .assign _ e => ⟨false, true, false, false, false⟩ ++ eff e
  | .call f sg r as => σ.get (f, sg, r) ++ effL as
  | .app f as => Eff.top ++ eff f ++ effL as
  | .lam _ _ _ _ => Eff.none
  | .mcall _ as => Eff.top ++ effL as
  | .dcall _ d m _ as => σ.get (methKey m) ++ eff d ++ effL as
  | .selfcall m _ as => σ.get (methKey m) ++ effL as
  | .listLit _ es => effL es
  | .arrLit _ es => effL es
  | .arrNew _ n v => eff n ++ eff v
  | .index a i => ⟨true, false, false, false, false⟩ ++ eff a ++ eff i
  | .setIdx a i v => ⟨false, true, false, false, false⟩ ++ eff a ++ eff i ++ eff v
  | .recLit _ es => effL es
  | .field r _ => ⟨true, false, false, false, false⟩ ++ eff r
  | .setField r _ v => ⟨false, true, false, false, false⟩ ++ eff r ++ eff v
  | .uniLit _ _ e => eff e
  | .ucase u _ => ⟨true, false, false, false, false⟩ ++ eff u
  | .uget u _ => ⟨true, false, false, false, false⟩ ++ eff u
  | .while c b => eff c ++ eff b
  | .forRange _ lo hi _ b => eff lo ++ eff hi ++ eff b
  | .forIn _ l b => ⟨true, false, false, false, false⟩ ++ eff l ++ eff b
  | .forGen _ g b => Eff.top ++ eff g ++ eff b
  | .brk | .iter => ⟨false, false, false, false, true⟩
  | .ret e => ⟨false, false, false, false, true⟩ ++ eff e
  | .generate _ _ => Eff.none
  | .yield e => Eff.top ++ eff e
  | .throw _ as => ⟨false, false, false, true, false⟩ ++ effL as
  | .tryCatch b _ hs ca fin => eff b ++ effH hs ++ effO ca ++ effO fin
  | .error _ => ⟨false, false, false, true, false⟩
  | .print es => ⟨false, false, true, false, false⟩ ++ effL es
  | _ => Eff.none
def effL : List Expr → Eff
  | [] => Eff.none
  | e :: es => eff e ++ effL es
def effH : List (String × Expr) → Eff
  | [] => Eff.none
  | (_, e) :: hs => eff e ++ effH hs
def effO : Option Expr → Eff
  | none => Eff.none
  | some e => eff e
end

/-- effects of the items of a `<<` chain, checked as the nested applications they stand for:
`acc` is the effect of the chain so far (`stdout` alone does nothing; once an item has been
written the chain prints) -/
def chainOK (acc : Eff) : List Eff → Bool
  | [] => true
  | e :: r => compat acc e && chainOK (acc ++ e ++ ⟨false, false, true, false, false⟩) r

mutual
/-- every application inside `e` has pairwise commuting arguments -/
def oi : Expr → Bool
  | .bin op a b =>
      oi a && oi b && (match op with
        | .and | .or => true
        | _ => compat (eff muts σ a) (eff muts σ b))
  | .un _ a => oi a
  | .ite c t e => oi c && oi t && oi e
  | .seq ss => oiL ss
  | .exit c v => oi c && oi v
  | .decl _ _ e => oi e
  | .assign _ e => oi e
  | .call _ _ _ as => oiL as && pairwiseCompat (effs as)
  | .app f as => oi f && oiL as && pairwiseCompat (eff muts σ f :: effs as)
  | .lam _ _ _ b => oi b
  | .mcall _ _ => false
  | .dcall _ d _ _ as => oi d && oiL as && pairwiseCompat (effs as)
  | .selfcall _ _ as => oiL as && pairwiseCompat (effs as)
  | .listLit _ es => oiL es && pairwiseCompat (effs es)
  | .arrLit _ es => oiL es && pairwiseCompat (effs es)
  | .arrNew _ n v => oi n && oi v && compat (eff muts σ n) (eff muts σ v)
  | .index a i => oi a && oi i && compat (eff muts σ a) (eff muts σ i)
  | .setIdx a i v => oi a && oi i && oi v && pairwiseCompat [eff muts σ a, eff muts σ i, eff muts σ v]
  | .recLit _ es => oiL es && pairwiseCompat (effs es)
  | .field r _ => oi r
  | .setField r _ v => oi r && oi v && compat (eff muts σ r) (eff muts σ v)
  | .uniLit _ _ e => oi e
  | .ucase u _ => oi u
  | .uget u _ => oi u
  | .while c b => oi c && oi b
  | .forRange _ lo hi _ b => oi lo && oi hi && oi b && compat (eff muts σ lo) (eff muts σ hi)
  | .forIn _ l b => oi l && oi b
  | .forGen _ g b => oi g && oi b
  | .ret e => oi e
  | .generate _ b => oi b
  | .yield e => oi e
  | .throw _ as => oiL as && pairwiseCompat (effs as)
  | .tryCatch b _ hs ca fin => oi b && oiH hs && oiO ca && oiO fin
  | .print es => oiL es && chainOK Eff.none (effs es)
  | _ => true
def oiL : List Expr → Bool
  | [] => true
  | e :: es => oi e && oiL es
def oiH : List (String × Expr) → Bool
  | [] => true
  | (_, e) :: hs => oi e && oiH hs
def oiO : Option Expr → Bool
  | none => true
  | some e => oi e
def effs : List Expr → List Eff
  | [] => []
  | e :: es => eff muts σ e :: effs es
end

end

/-! ### per-function summaries: least fixed point by iteration -/

mutual
def declNames : Expr → List String
  | .decl x _ e => x :: declNames e
  | .bin _ a b => declNames a ++ declNames b
  | .un _ a => declNames a
  | .ite c t e => declNames c ++ declNames t ++ declNames e
  | .seq ss => declNamesL ss
  | .exit c v => declNames c ++ declNames v
  | .assign _ e => declNames e
  | .call _ _ _ as => declNamesL as
  | .app f as => declNames f ++ declNamesL as
  | .lam _ _ _ b => declNames b
  | .mcall _ as => declNamesL as
  | .dcall _ d _ _ as => declNames d ++ declNamesL as
  | .selfcall _ _ as => declNamesL as
  | .listLit _ es => declNamesL es
  | .arrLit _ es => declNamesL es
  | .arrNew _ n v => declNames n ++ declNames v
  | .index a i => declNames a ++ declNames i
  | .setIdx a i v => declNames a ++ declNames i ++ declNames v
  | .recLit _ es => declNamesL es
  | .field r _ => declNames r
  | .setField r _ v => declNames r ++ declNames v
  | .uniLit _ _ e => declNames e
  | .ucase u _ => declNames u
  | .uget u _ => declNames u
  | .while c b => declNames c ++ declNames b
  | .forRange _ lo hi _ b => declNames lo ++ declNames hi ++ declNames b
  | .forIn _ l b => declNames l ++ declNames b
  | .forGen _ g b => declNames g ++ declNames b
  | .ret e => declNames e
  | .generate _ b => declNames b
  | .yield e => declNames e
  | .throw _ as => declNamesL as
  | .tryCatch b _ hs ca fin => declNames b ++ declNamesH hs ++ declNamesO ca ++ declNamesO fin
  | .print es => declNamesL es
  | _ => []
def declNamesL : List Expr → List String
  | [] => []
  | e :: es => declNames e ++ declNamesL es
def declNamesH : List (String × Expr) → List String
  | [] => []
  | (_, e) :: hs => declNames e ++ declNamesH hs
def declNamesO : Option Expr → List String
  | none => []
  | some e => declNames e
end

/-- all function and method bodies of the program, keyed by name -/
def bodies : List Top → List (FKey × Expr)
  | [] => []
  | .fn d :: r => ((d.name, d.params.map (·.2), d.res), d.body) :: bodies r
  | .cat _ _ ds :: r => ds.map (fun d => (methKey d.name, d.body)) ++ bodies r
  | .dom _ _ _ _ ms :: r => ms.map (fun d => (methKey d.name, d.body)) ++ bodies r
  | _ :: r => bodies r

def topExprs : List Top → List Expr
  | [] => []
  | .const _ _ e :: r => e :: topExprs r
  | .var _ _ e :: r => e :: topExprs r
  | .stmt e :: r => e :: topExprs r
  | _ :: r => topExprs r

def mutNames (tops : List Top) : List String :=
  (tops.filterMap (fun t => match t with | .var x _ _ => some x | _ => none))
  ++ declNamesL ((bodies tops).map (·.2)) ++ declNamesL (topExprs tops)

def summStep (muts : List String) (bs : List (FKey × Expr)) (σ : Summ) : Summ :=
  σ.map (fun (f, _) =>
    (f, { (bs.filter (fun b => b.1 = f)).foldl (fun acc b => acc ++ eff muts σ b.2) Eff.none with c := false }))

def iterN (f : α → α) : Nat → α → α
  | 0, a => a
  | n + 1, a => iterN f n (f a)

/-- effect summaries of the named functions and methods -/
def summaries (tops : List Top) : Summ :=
  let bs := bodies tops
  let names := (bs.map (·.1)).eraseDups
  iterN (summStep (mutNames tops) bs) (4 * names.length + 1) (names.map (fun f => (f, Eff.none)))

/-- the decidable predicate `OrderIndependent` (on the macro-free program) -/
def orderIndependentB (p : Prog) : Bool :=
  let tops := (expand p).tops
  let muts := mutNames tops
  let σ := summaries tops
  oiL muts σ ((bodies tops).map (·.2)) && oiL muts σ (topExprs tops)

def OrderIndependent (p : Prog) : Prop := orderIndependentB p = true

instance (p : Prog) : Decidable (OrderIndependent p) := inferInstanceAs (Decidable (_ = true))

end AldorVerif.MiniAldor
