/-!
# MiniAldor — abstract syntax of the Aldor subset named in property C01

Layer A of DESIGN.md §1.1.  Everything the renderer needs to disambiguate Aldor's
overloading is part of the tree (literal types, the signature of the overload a call means,
element types of empty lists …), so `render` is a plain structural function and the
type checker only *checks* annotations, it never has to guess.
-/
namespace AldorVerif.MiniAldor

/-- Types of the subset.  `pair` only occurs as the argument part of `fn`
(`fn (pair a b) r` is `(A, B) -> R`, `fn unit r` is `() -> R`).  `named` is a record or union
type introduced by a top-level type definition (rendered as a macro name). -/
inductive Ty where
  | mi | int | bool | str | unit
  | list (t : Ty)
  | arr (t : Ty)
  | named (n : String)
  | fn (a : Ty) (r : Ty)
  | pair (a b : Ty)
  | gen (t : Ty)
  | exit                      -- type of `return`, `break`, `throw` …: no value is produced
  deriving DecidableEq, Repr, Inhabited, BEq

inductive BinOp where
  | add | sub | mul | quo | rem | mod | pow      -- integers of either width (pow: exponent is a machine integer)
  | eq | ne | lt | le | gt | ge                  -- comparisons (eq/ne also booleans and strings)
  | and | or                                     -- short-circuit, left to right
  | concat                                       -- strings
  | max | min                                    -- integers of either width
  | cons                                         -- element, list
  deriving DecidableEq, Repr, Inhabited

inductive UnOp where
  | neg | abs | not
  | len          -- `#` on strings, lists, arrays
  | toInt        -- MachineInteger → Integer  (`x::Integer`)
  | toMI         -- Integer → MachineInteger (`machine x`), defined only when it fits
  | first | rest | isEmpty | reverse
  deriving DecidableEq, Repr, Inhabited

inductive Expr where
  | litMI (v : Int)
  | litInt (v : Int)
  | litBool (b : Bool)
  | litStr (s : String)
  | unitLit
  | newline                                   -- only as an item of `print`
  | var (x : String)
  | bin (op : BinOp) (a b : Expr)
  | un (op : UnOp) (a : Expr)
  | ite (c t e : Expr)
  | seq (ss : List Expr)
  | exit (c v : Expr)                          -- `c => v`, only as a direct item of `seq`
  | decl (x : String) (t : Ty) (e : Expr)      -- `x: T := e`, only as a direct item of a body `seq`
  | assign (x : String) (e : Expr)
  | call (f : String) (sig : List Ty) (res : Ty) (args : List Expr)
  | app (f : Expr) (args : List Expr)
  | lam (params : List (String × Ty)) (res : Ty) (frees : List String) (body : Expr)
  | mcall (m : String) (args : List Expr)      -- macro use; removed by `expand`
  | dcall (dom : String) (darg : Expr) (meth : String) (res : Ty) (args : List Expr)
  | selfcall (meth : String) (res : Ty) (args : List Expr)
  | listLit (t : Ty) (es : List Expr)
  | arrLit (t : Ty) (es : List Expr)
  | arrNew (t : Ty) (n v : Expr)
  | index (a i : Expr)                         -- lists 1-based, arrays 0-based
  | setIdx (a i v : Expr)                      -- arrays only
  | recLit (tn : String) (es : List Expr)
  | field (r : Expr) (f : String)
  | setField (r : Expr) (f : String) (v : Expr)
  | uniLit (tn : String) (tag : String) (e : Expr)
  | ucase (u : Expr) (tag : String)
  | uget (u : Expr) (tag : String)
  | while (c body : Expr)
  | forRange (x : String) (lo hi : Expr) (step : Int) (body : Expr)
  | forIn (x : String) (l : Expr) (body : Expr)       -- list or array
  | forGen (x : String) (g : Expr) (body : Expr)
  | brk | iter
  | ret (e : Expr)
  | generate (t : Ty) (body : Expr)
  | yield (e : Expr)
  | throw (ex : String) (args : List Expr)             -- zero or one argument
  | tryCatch (body : Expr) (ev : String) (handlers : List (String × Expr))
             (catchAll : Option Expr) (fin : Option Expr)
  | exnVal (ev : String)                               -- `val()$E` inside a handler
  | error (msg : String)
  | print (es : List Expr)
  deriving Repr, Inhabited

structure FunDef where
  name : String
  params : List (String × Ty)
  res : Ty
  frees : List String          -- outer variables the body assigns (`free x`)
  body : Expr
  deriving Repr, Inhabited

structure MethSig where
  name : String
  args : List Ty
  res : Ty
  deriving Repr, Inhabited, DecidableEq

inductive Top where
  | fn (d : FunDef)
  | const (x : String) (t : Ty) (e : Expr)                 -- `x: T == e`
  | var (x : String) (t : Ty) (e : Expr)                   -- `x: T := e`
  | macro (name : String) (params : List String) (body : Expr)
  | recDef (name : String) (fields : List (String × Ty))
  | uniDef (name : String) (fields : List (String × Ty))
  | exn (name : String) (payload : Option Ty)
  | cat (name : String) (sigs : List MethSig) (defaults : List FunDef)
  | dom (name : String) (param : String) (pty : Ty) (cat : String) (methods : List FunDef)
  | stmt (e : Expr)
  deriving Repr, Inhabited

structure Prog where
  tops : List Top
  deriving Repr, Inhabited

/-! ### size (used by the shrinker and for reporting) -/

mutual
def Expr.size : Expr → Nat
  | .bin _ a b => 1 + a.size + b.size
  | .un _ a => 1 + a.size
  | .ite c t e => 1 + c.size + t.size + e.size
  | .seq ss => 1 + Expr.sizeL ss
  | .exit c v => 1 + c.size + v.size
  | .decl _ _ e => 1 + e.size
  | .assign _ e => 1 + e.size
  | .call _ _ _ as => 1 + Expr.sizeL as
  | .app f as => 1 + f.size + Expr.sizeL as
  | .lam _ _ _ b => 1 + b.size
  | .mcall _ as => 1 + Expr.sizeL as
  | .dcall _ d _ _ as => 1 + d.size + Expr.sizeL as
  | .selfcall _ _ as => 1 + Expr.sizeL as
  | .listLit _ es => 1 + Expr.sizeL es
  | .arrLit _ es => 1 + Expr.sizeL es
  | .arrNew _ n v => 1 + n.size + v.size
  | .index a i => 1 + a.size + i.size
  | .setIdx a i v => 1 + a.size + i.size + v.size
  | .recLit _ es => 1 + Expr.sizeL es
  | .field r _ => 1 + r.size
  | .setField r _ v => 1 + r.size + v.size
  | .uniLit _ _ e => 1 + e.size
  | .ucase u _ => 1 + u.size
  | .uget u _ => 1 + u.size
  | .while c b => 1 + c.size + b.size
  | .forRange _ lo hi _ b => 1 + lo.size + hi.size + b.size
  | .forIn _ l b => 1 + l.size + b.size
  | .forGen _ g b => 1 + g.size + b.size
  | .ret e => 1 + e.size
  | .generate _ b => 1 + b.size
  | .yield e => 1 + e.size
  | .throw _ as => 1 + Expr.sizeL as
  | .tryCatch b _ hs ca fin => 1 + b.size + Expr.sizeH hs + Expr.sizeO ca + Expr.sizeO fin
  | .print es => 1 + Expr.sizeL es
  | _ => 1
def Expr.sizeL : List Expr → Nat
  | [] => 0
  | e :: es => e.size + Expr.sizeL es
def Expr.sizeH : List (String × Expr) → Nat
  | [] => 0
  | (_, e) :: hs => e.size + Expr.sizeH hs
def Expr.sizeO : Option Expr → Nat
  | none => 0
  | some e => e.size
end

end AldorVerif.MiniAldor
