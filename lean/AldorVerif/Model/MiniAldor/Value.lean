import AldorVerif.Model.MiniAldor.Syntax
/-!
# MiniAldor — values, store, results, evaluator rules (coverage tags)
-/
namespace AldorVerif.MiniAldor

/-- Run-time values.  `cell a` is what a *mutable variable* is bound to in an environment (the
value lives in the store at address `a`, so closures share it); `ref a` is an array, record or
union object in the store (a union object is `[str tag, value]`: the tag is the branch *label*, so
branches of one type are told apart; `u.tag := x` changes the shared object); `yk` is the pending loop body a `yield` hands its value to (generators
are evaluated by inversion of control, see `Eval.lean`); `dom` is `%` inside a domain. -/
inductive Val where
  | mi (v : BitVec 64)
  | int (v : Int)
  | bool (b : Bool)
  | str (s : String)
  | unit
  | list (vs : List Val)
  | ref (a : Nat)
  | uni (tag : String) (v : Val)
  | clo (params : List String) (res : Ty) (body : Expr) (env : List (String × Val))
  | gen (body : Expr) (env : List (String × Val))
  | exn (name : String) (payload : Val)
  | dom (name : String) (arg : Val)
  | cell (a : Nat)
  | yk (x : String) (body : Expr) (env : List (String × Val))
  deriving Inhabited

abbrev Env := List (String × Val)

/-- coverage tags: which evaluator rule fired (the correspondence check requires every named
feature of C01 to fire often enough) -/
inductive Rule where
  | litMI | litInt | litBool | litStr
  | miArith | miWrap | miDiv | miCmp
  | intArith | intBig | intDiv | intCmp | pow | conv
  | boolOp | strOp | strCmp
  | varRead | assign | decl
  | iteTrue | iteFalse | seqExit
  | call | callOverloaded | callRec | retEarly
  | cloMake | cloApply | cloMutate
  | listLit | listOp | listIndex
  | arrLit | arrNew | arrIndex | arrSet | arrLen
  | recLit | recField | recSet
  | uniLit | uniCase | uniGet | uniSet
  | whileIter | forRangeIter | forInIter | forGenIter | brk | iter
  | genMake | yield
  | throw | catchNamed | catchAll | finallyRun | exnVal | uncaught | errorCall
  | domCall | domOwn | catDefault | selfCall
  | print | printNewline
  | constDef | topStmt
  deriving Repr, DecidableEq, Inhabited

def Rule.all : List Rule :=
  [.litMI, .litInt, .litBool, .litStr, .miArith, .miWrap, .miDiv, .miCmp, .intArith, .intBig,
   .intDiv, .intCmp, .pow, .conv, .boolOp, .strOp, .strCmp, .varRead, .assign, .decl, .iteTrue,
   .iteFalse, .seqExit, .call, .callOverloaded, .callRec, .retEarly, .cloMake, .cloApply,
   .cloMutate, .listLit, .listOp, .listIndex, .arrLit, .arrNew, .arrIndex, .arrSet, .arrLen,
   .recLit, .recField, .recSet, .uniLit, .uniCase, .uniGet, .uniSet, .whileIter, .forRangeIter,
   .forInIter, .forGenIter, .brk, .iter, .genMake, .yield, .throw, .catchNamed, .catchAll,
   .finallyRun, .exnVal, .uncaught, .errorCall, .domCall, .domOwn, .catDefault, .selfCall,
   .print, .printNewline, .constDef, .topStmt]

def Rule.name (r : Rule) : String := (reprStr r).replace "AldorVerif.MiniAldor.Rule." ""

def Rule.idx (r : Rule) : Nat := r.ctorIdx

/-- `globals`: top-level variables and constants defined so far (named functions, methods and
closures see them; all names of an accepted program are distinct, so nothing is shadowed) -/
structure State where
  heap : Array (List Val)
  out : String
  counts : List Nat
  globals : List (String × Val)
  deriving Inhabited

def State.init : State :=
  { heap := #[], out := "", counts := List.replicate Rule.all.length 0, globals := [] }

/-- non-local control: `esc s` is a signal raised by a loop body that is being run inside a
generator (at a `yield`); it passes through every construct of the generator body unchanged and
is unwrapped by the `for` loop that consumes the generator. -/
inductive Sig where
  | brk | iter
  | ret (v : Val)
  | exc (name : String) (v : Val)
  | esc (s : Sig)
  deriving Inhabited

inductive Res (α : Type) where
  | ok (a : α) (s : State)
  | sig (g : Sig) (s : State)
  | timeout
  | undef (why : String)     -- a point the language definition leaves open was reached
  | stuck (why : String)     -- type confusion: excluded for accepted programs
  deriving Inhabited

/-- state-and-result monad of the evaluator -/
def M (α : Type) := State → Res α

@[inline] def M.pure (a : α) : M α := fun s => .ok a s
@[inline] def M.bind (x : M α) (f : α → M β) : M β := fun s =>
  match x s with
  | .ok a s' => f a s'
  | .sig g s' => .sig g s'
  | .timeout => .timeout
  | .undef w => .undef w
  | .stuck w => .stuck w

instance : Monad M where
  pure := M.pure
  bind := M.bind

def bump (i : Nat) : List Nat → List Nat
  | [] => []
  | c :: cs => match i with
    | 0 => (c + 1) :: cs
    | i + 1 => c :: bump i cs

def tick (r : Rule) : M Unit := fun s => .ok () { s with counts := bump r.idx s.counts }
def raise (g : Sig) : M α := fun s => .sig g s
def stuck (w : String) : M α := fun _ => .stuck w
def undef (w : String) : M α := fun _ => .undef w
def emit (t : String) : M Unit := fun s => .ok () { s with out := s.out ++ t }
def alloc (obj : List Val) : M Nat := fun s => .ok s.heap.size { s with heap := s.heap.push obj }
def readObj (a : Nat) : M (List Val) := fun s =>
  match s.heap[a]? with
  | some o => .ok o s
  | none => .stuck "dangling-address"
def writeObj (a : Nat) (o : List Val) : M Unit := fun s =>
  if a < s.heap.size then .ok () { s with heap := s.heap.setIfInBounds a o } else .stuck "dangling-address"

def lookupRaw (env : Env) (x : String) : Option Val :=
  match env with
  | [] => none
  | (y, v) :: r => if x = y then some v else lookupRaw r x

/-- local environment first, then the globals -/
def lookupVar (env : Env) (x : String) : M (Option Val) := fun s =>
  match lookupRaw env x with
  | some v => .ok (some v) s
  | none => .ok (lookupRaw s.globals x) s

def addGlobal (x : String) (v : Val) : M Unit := fun s =>
  .ok () { s with globals := (x, v) :: s.globals }

/-! ### result combinators (each is monotone in the fuel order, see `Props/C01.lean`) -/

/-- a function-call boundary: `return v` lands here -/
def catchRet (res : Ty) (x : M Val) : M Val := fun s =>
  match x s with
  | .ok v s' => .ok (if res = .unit then .unit else v) s'
  | .sig (.ret v) s' => .ok (if res = .unit then .unit else v) s'
  | .sig .brk _ => .stuck "break-outside-loop"
  | .sig .iter _ => .stuck "iterate-outside-loop"
  | r => r

/-- one loop iteration `x`, then `again` unless the body said `break` -/
@[inline] def loopStep (x : M Val) (again : M Val) : M Val := fun s =>
  match x s with
  | .ok _ s2 => again s2
  | .sig .iter s2 => again s2
  | .sig .brk s2 => .ok .unit s2
  | r => r

/-- the loop body run at a `yield`: `iterate` ends it, everything else abnormal escapes through
the generator body -/
def atYield (x : M Val) : M Val := fun s =>
  match x s with
  | .ok _ s' => .ok .unit s'
  | .sig .iter s' => .ok .unit s'
  | .sig g s' => .sig (.esc g) s'
  | r => r

/-- the `for` loop consuming a generator body `x` -/
def consumeGen (x : M Val) : M Val := fun s =>
  match x s with
  | .ok _ s' => .ok .unit s'
  | .sig (.esc .brk) s' => .ok .unit s'
  | .sig (.esc g) s' => .sig g s'
  | .sig .brk _ => .stuck "break-outside-loop"
  | .sig .iter _ => .stuck "iterate-outside-loop"
  | .sig (.ret _) _ => .stuck "return-in-generator"
  | r => r

/-- `try x catch … ` : `handler name payload` is the handler to run, if any -/
def tryWith (x : M Val) (handler : String → Val → Option (M Val)) : M Val := fun s =>
  match x s with
  | .sig (.exc name pv) s1 =>
    match handler name pv with
    | some h => h s1
    | none => .sig (.exc name pv) s1
  | r => r

/-- `… finally f`: `f` runs after a normal result and after a signal; its own abnormal result wins -/
def finallyDo (x : M Val) (f : M Val) : M Val := fun s =>
  match x s with
  | .ok v s2 =>
    match f s2 with
    | .ok _ s3 => .ok v s3
    | r => r
  | .sig g s2 =>
    match f s2 with
    | .ok _ s3 => .sig g s3
    | r => r
  | r => r

/-! ### outcome of a whole program -/

inductive ExitClass where
  | normal
  | uncaught (name : String)       -- an exception reached the top level
  | failure (msg : String)         -- `error msg` reached the top level
  | undefined (why : String)       -- not a program of the family (Undefined.lean)
  | stuck (why : String)           -- never for accepted programs
  deriving Repr, DecidableEq, Inhabited

structure Outcome where
  stdout : String
  exit : ExitClass
  counts : List Nat
  deriving Inhabited

end AldorVerif.MiniAldor
