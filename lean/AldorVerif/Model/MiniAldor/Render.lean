import AldorVerif.Model.MiniAldor.Syntax
/-!
# MiniAldor — rendering to concrete Aldor text

Two steps.  `linesOf piled p : List Line` turns the program into *logical lines* of tokens with
a nesting depth (braced form: `{`, `}` and `;` are tokens; `#pile` form: the depth alone carries
the block structure).  `layoutChars l` turns logical lines into characters under the layout
parameters `l` (indent width, tabs or spaces, blank and comment lines, spaces between tokens,
trailing comments).  `Props/C01.lean` proves that a small lexer recovers exactly the logical
lines from the text, whatever the layout parameters.

Every literal carries its type (`(3@MachineInteger)`), every call of a named function its
result type, every compound expression its own parentheses: Aldor's overload resolution is
left nothing to choose.
-/
namespace AldorVerif.MiniAldor

structure Line where
  depth : Nat
  toks : List String
  deriving Repr, DecidableEq, Inhabited

structure Layout where
  piled : Bool := false
  indent : Nat := 4       -- 1..8 spaces per level (ignored with tabs: one tab per level)
  tabs : Bool := false
  seed : Nat := 0         -- 0: no noise at all; otherwise drives blank lines, comments, gaps
  deriving Repr, Inhabited

/-! ### tokens of types and expressions -/

def paren (ts : List String) : List String := "(" :: ts ++ [")"]

def commaSep : List (List String) → List String
  | [] => []
  | [a] => a
  | a :: r => a ++ "," :: commaSep r

def isFnTy : Ty → Bool
  | .fn _ _ => true
  | _ => false

def tyToks : Ty → List String
  | .mi => ["MachineInteger"]
  | .int => ["Integer"]
  | .bool => ["Boolean"]
  | .str => ["String"]
  | .unit => ["(", ")"]
  | .exit => ["Exit"]
  | .list t => "List" :: paren (tyToks t)
  | .arr t => "Array" :: paren (tyToks t)
  | .gen t => "Generator" :: paren (tyToks t)
  | .named n => [n]
  | .pair a b => tyToks a ++ "," :: tyToks b
  | .fn a r =>
      (if a = .unit then ["(", ")"] else paren (tyToks a))
      ++ "->" :: (if isFnTy r then paren (tyToks r) else tyToks r)

def escapeChars : List Char → List Char
  | [] => []
  | c :: r => if c = '"' ∨ c = '_' then '_' :: c :: escapeChars r else c :: escapeChars r

def strTok (s : String) : String := String.ofList ('"' :: escapeChars s.toList ++ ['"'])

def annot (ts : List String) (t : Ty) : List String := paren (ts ++ "@" :: tyToks t)

def intLit (v : Int) (t : Ty) : List String :=
  if v < 0 then paren ("-" :: annot [toString v.natAbs] t) else annot [toString v] t

def binOpTok : BinOp → String
  | .add => "+" | .sub => "-" | .mul => "*" | .quo => "quo" | .rem => "rem" | .mod => "mod"
  | .pow => "^" | .eq => "=" | .ne => "~=" | .lt => "<" | .le => "<=" | .gt => ">" | .ge => ">="
  | .and => "and" | .or => "or" | .concat => "+" | .max => "max" | .min => "min" | .cons => "cons"

/-- the argument of a domain constructor: a literal is written bare (the parameter's declared
type fixes its meaning) -/
def bareLit (v : Int) : List String :=
  if v < 0 then ["(", "-", toString v.natAbs, ")"] else [toString v]

def paramToks (ps : List (String × Ty)) : List String :=
  paren (commaSep (ps.map (fun p => p.1 :: ":" :: tyToks p.2)))

def freeToks (fr : List String) : List String :=
  if fr.isEmpty then [] else "free" :: commaSep (fr.map (fun x => [x])) ++ [";"]

def semiSep : List (List String) → List String
  | [] => []
  | [a] => a
  | a :: r => a ++ ";" :: semiSep r

def isSeq : Expr → Bool
  | .seq _ => true
  | _ => false

/-- `{ … }` around the tokens of a body; a sequence loses the parentheses `toksE` gave it -/
def blockWrap (b : Expr) (ts : List String) : List String :=
  "{" :: (if isSeq b then (ts.drop 1).dropLast else ts) ++ ["}"]

mutual
/-- an expression on one line, self-delimiting (an atom or parenthesised) -/
def toksE : Expr → List String
  | .litMI v => if v = -9223372036854775808 then annot ["min"] .mi else intLit v .mi
  | .litInt v => intLit v .int
  | .litBool b => [if b then "true" else "false"]
  | .litStr s => annot [strTok s] .str
  | .unitLit => ["(", ")"]
  | .newline => ["newline"]
  | .var x => [x]
  | .bin op a b =>
    match op with
    | .max | .min | .cons => binOpTok op :: paren (toksE a ++ "," :: toksE b)
    | _ => paren (toksE a ++ binOpTok op :: toksE b)
  | .un op a =>
    match op with
    | .neg => paren ("-" :: toksE a)
    | .not => paren ("not" :: toksE a)
    | .len => paren ("#" :: toksE a)
    | .toInt => paren (toksE a ++ ["::", "Integer"])
    | .abs => "abs" :: paren (toksE a)
    | .toMI => "machine" :: paren (toksE a)
    | .first => "first" :: paren (toksE a)
    | .rest => "rest" :: paren (toksE a)
    | .isEmpty => "empty?" :: paren (toksE a)
    | .reverse => "reverse" :: paren (toksE a)
  | .ite c t e =>
    match e with
    | .unitLit => paren ("if" :: toksE c ++ "then" :: toksE t)
    | _ => paren ("if" :: toksE c ++ "then" :: toksE t ++ "else" :: toksE e)
  | .seq ss => paren (toksSemi ss)
  | .exit c v => toksE c ++ "=>" :: toksE v
  | .decl x t e => x :: ":" :: tyToks t ++ ":=" :: toksE e
  | .assign x e => paren (x :: ":=" :: toksE e)
  | .call f _ res as =>
    match res with
    | .unit => f :: paren (toksArgs as)
    | _ => annot (f :: paren (toksArgs as)) res
  | .app f as => toksE f ++ paren (toksArgs as)
  | .lam ps res fr body =>
      paren (paramToks ps ++ ":" :: tyToks res ++ "+->" :: "{" :: freeToks fr ++
        (if isSeq body then ((toksE body).drop 1).dropLast else toksE body) ++ ["}"])
  | .mcall m as => m :: paren (toksArgs as)
  | .dcall d da m _ as =>
      paren (m :: paren (toksArgs as) ++ "$" :: d :: paren (match da with
        | .litMI v => bareLit v
        | .litInt v => bareLit v
        | _ => toksE da))
  | .selfcall m _ as => m :: paren (toksArgs as)
  | .listLit t es =>
    match es with
    | [] => annot ["empty"] (.list t)
    | _ => annot ("[" :: toksArgs es ++ ["]"]) (.list t)
  | .arrLit t es =>
    match es with
    | [] => annot ["empty"] (.arr t)
    | _ => annot ("[" :: toksArgs es ++ ["]"]) (.arr t)
  | .arrNew t n v => annot ("new" :: paren (toksE n ++ "," :: toksE v)) (.arr t)
  | .index a i => paren (toksE a ++ paren (toksE i))
  | .setIdx a i v => paren (toksE a ++ paren (toksE i) ++ ":=" :: toksE v)
  | .recLit tn es => annot ("[" :: toksArgs es ++ ["]"]) (.named tn)
  | .field r f => paren (toksE r ++ [".", f])
  | .setField r f v => paren (toksE r ++ "." :: f :: ":=" :: toksE v)
  | .uniLit tn tag e => annot ("[" :: tag :: "==" :: toksE e ++ ["]"]) (.named tn)
  | .ucase u tag => paren (toksE u ++ ["case", tag])
  | .uget u tag => paren (toksE u ++ [".", tag])
  | .while c b => "while" :: toksE c ++ "repeat" :: blockWrap b (toksE b)
  | .forRange x lo hi step b =>
      "for" :: x :: "in" :: toksE lo ++ ".." :: toksE hi ++
        (if step = 1 then [] else if step < 0 then ["by", "(", "-", toString step.natAbs, ")"]
         else ["by", toString step]) ++ "repeat" :: blockWrap b (toksE b)
  | .forIn x l b => "for" :: x :: "in" :: toksE l ++ "repeat" :: blockWrap b (toksE b)
  | .forGen x g b => "for" :: x :: "in" :: toksE g ++ "repeat" :: blockWrap b (toksE b)
  | .brk => ["break"]
  | .iter => ["iterate"]
  | .ret e =>
    match e with
    | .unitLit => ["return"]
    | _ => "return" :: toksE e
  | .generate _ b => paren ("generate" :: blockWrap b (toksE b))
  | .yield e => "yield" :: toksE e
  | .throw ex as =>
    match as with
    | [] => ["throw", ex]
    | _ => "throw" :: ex :: paren (toksArgs as)
  | .tryCatch b ev hs ca fin =>
      paren ("try" :: toksE b ++ "catch" :: ev :: "in" :: "{" :: toksHandlers ev hs ++
        "true" :: "=>" :: (match ca with
          | some h => toksE h
          | none => ["throw", ev]) ++ ";" :: "never" :: "}" ::
        (match fin with
         | some f => "finally" :: toksE f
         | none => []))
  | .exnVal ev => paren ["val", "(", ")", "$", ev]
  | .error msg => "error" :: paren [strTok msg]
  | .print es => paren ("stdout" :: toksPrint es)

def toksArgs : List Expr → List String
  | [] => []
  | [a] => toksE a
  | a :: r => toksE a ++ "," :: toksArgs r

def toksSemi : List Expr → List String
  | [] => []
  | [a] => toksE a
  | a :: r => toksE a ++ ";" :: toksSemi r

def toksPrint : List Expr → List String
  | [] => []
  | a :: r => "<<" :: toksE a ++ toksPrint r

def toksHandlers (ev : String) : List (String × Expr) → List String
  | [] => []
  | (en, h) :: r => ev :: "has" :: (en ++ "Type") :: "=>" :: toksE h ++ ";" :: toksHandlers ev r

end

/-- statement form: the outermost parentheses of `toksE` dropped where that is natural -/
def toksS : Expr → List String
  | .assign x e => x :: ":=" :: toksE e
  | .setIdx a i v => toksE a ++ paren (toksE i) ++ ":=" :: toksE v
  | .setField r f v => toksE r ++ "." :: f :: ":=" :: toksE v
  | .print es => "stdout" :: toksPrint es
  | .ite c t e =>
    match e with
    | .unitLit => "if" :: toksE c ++ "then" :: toksE t
    | _ => "if" :: toksE c ++ "then" :: toksE t ++ "else" :: toksE e
  | e => toksE e

/-! ### logical lines -/

def addTerm (term : List String) : List Line → List Line
  | [] => []
  | [l] => [{ l with toks := l.toks ++ term }]
  | l :: r => l :: addTerm term r

def headerOfLoop : Expr → List String
  | .while c _ => "while" :: toksE c ++ ["repeat"]
  | .forRange x lo hi step _ =>
      "for" :: x :: "in" :: toksE lo ++ ".." :: toksE hi ++
        (if step = 1 then [] else if step < 0 then ["by", "(", "-", toString step.natAbs, ")"]
         else ["by", toString step]) ++ ["repeat"]
  | .forIn x l _ => "for" :: x :: "in" :: toksE l ++ ["repeat"]
  | .forGen x g _ => "for" :: x :: "in" :: toksE g ++ ["repeat"]
  | _ => []

def semT (piled : Bool) : List String := if piled then [] else [";"]

def wrapLoop (piled : Bool) (d : Nat) (term : List String) (hdr : List String) (body : List Line) : List Line :=
  if piled then ⟨d, hdr⟩ :: body
  else ⟨d, hdr ++ ["{"]⟩ :: body ++ [⟨d, "}" :: term⟩]

def wrapLam (piled : Bool) (d : Nat) (term : List String) (hdr : List String)
    (ps : List (String × Ty)) (res : Ty) (fr : List String) (body : List Line) : List Line :=
  let h := hdr ++ paramToks ps ++ ":" :: tyToks res ++ ["+->"]
  let frl : List Line := if fr.isEmpty then [] else
    [⟨d + 1, "free" :: commaSep (fr.map (fun x => [x])) ++ semT piled⟩]
  if piled then ⟨d, h⟩ :: frl ++ body
  else ⟨d, h ++ ["{"]⟩ :: frl ++ body ++ [⟨d, "}" :: term⟩]

mutual
/-- the lines of statement `e` at depth `d`; `term` is appended to its last line (`[";"]` in
braced form).  `blk`: `e` is the body of a block, so a sequence is spread over lines. -/
def linesS (piled : Bool) (d : Nat) (term : List String) (blk : Bool) : Expr → List Line
  | .seq ss => if blk then linesList piled d ss else [⟨d, toksE (.seq ss) ++ term⟩]
  | .ite c t e =>
    if piled then
      ⟨d, "if" :: toksE c ++ ["then"]⟩ :: linesS piled (d + 1) (semT piled) true t ++
        (if e matches .unitLit then [] else ⟨d, ["else"]⟩ :: linesS piled (d + 1) (semT piled) true e)
    else
      ⟨d, "if" :: toksE c ++ ["then", "{"]⟩ :: linesS piled (d + 1) (semT piled) true t ++
        (if e matches .unitLit then [⟨d, "}" :: term⟩]
         else ⟨d, ["}", "else", "{"]⟩ :: linesS piled (d + 1) (semT piled) true e ++ [⟨d, "}" :: term⟩])
  | .while c b =>
      wrapLoop piled d term (headerOfLoop (.while c .unitLit)) (linesS piled (d + 1) (semT piled) true b)
  | .forRange x lo hi st b =>
      wrapLoop piled d term (headerOfLoop (.forRange x lo hi st .unitLit)) (linesS piled (d + 1) (semT piled) true b)
  | .forIn x l b =>
      wrapLoop piled d term (headerOfLoop (.forIn x l .unitLit)) (linesS piled (d + 1) (semT piled) true b)
  | .forGen x g b =>
      wrapLoop piled d term (headerOfLoop (.forGen x g .unitLit)) (linesS piled (d + 1) (semT piled) true b)
  | .decl x t (.lam ps res fr body) =>
      wrapLam piled d term (x :: ":" :: tyToks t ++ [":="]) ps res fr (linesS piled (d + 1) (semT piled) true body)
  | .assign x (.lam ps res fr body) =>
      wrapLam piled d term [x, ":="] ps res fr (linesS piled (d + 1) (semT piled) true body)
  | .tryCatch b ev hs ca fin =>
    if piled then
      ⟨d, ["try"]⟩ :: linesS piled (d + 1) (semT piled) true b ++
      ⟨d, ["catch", ev, "in"]⟩ :: linesHandlers piled (d + 1) ev hs ++
      (match ca with
       | some h => ⟨d + 1, ["true", "=>"]⟩ :: linesS piled (d + 2) (semT piled) true h
       | none => [⟨d + 1, ["true", "=>", "throw", ev]⟩]) ++
      ⟨d + 1, ["never"]⟩ ::
      (match fin with
       | some f => ⟨d, ["finally"]⟩ :: linesS piled (d + 1) (semT piled) true f
       | none => [])
    else
      ⟨d, ["try", "{"]⟩ :: linesS piled (d + 1) (semT piled) true b ++
      ⟨d, ["}", "catch", ev, "in", "{"]⟩ :: linesHandlers piled (d + 1) ev hs ++
      (match ca with
       | some h => ⟨d + 1, ["true", "=>", "{"]⟩ :: linesS piled (d + 2) (semT piled) true h ++ [⟨d + 1, ["}", ";"]⟩]
       | none => [⟨d + 1, ["true", "=>", "throw", ev, ";"]⟩]) ++
      ⟨d + 1, ["never", ";"]⟩ ::
      (match fin with
       | some f => ⟨d, ["}", "finally", "{"]⟩ :: linesS piled (d + 1) (semT piled) true f ++ [⟨d, "}" :: term⟩]
       | none => [⟨d, "}" :: term⟩])
  | e => [⟨d, toksS e ++ term⟩]

def linesList (piled : Bool) (d : Nat) : List Expr → List Line
  | [] => []
  | s :: r => linesS piled d (semT piled) false s ++ linesList piled d r

def linesHandlers (piled : Bool) (d : Nat) (ev : String) : List (String × Expr) → List Line
  | [] => []
  | (en, h) :: r =>
    (if piled then ⟨d, [ev, "has", en ++ "Type", "=>"]⟩ :: linesS piled (d + 1) (semT piled) true h
     else ⟨d, [ev, "has", en ++ "Type", "=>", "{"]⟩ :: linesS piled (d + 1) (semT piled) true h ++ [⟨d, ["}", ";"]⟩])
    ++ linesHandlers piled d ev r
end

/-- the statements of a block, each terminated (`;` in braced form) -/
def linesItems (piled : Bool) (d : Nat) (e : Expr) : List Line := linesS piled d (semT piled) true e

/-- `name(params): R == body` -/
def linesFun (piled : Bool) (d : Nat) (term : List String) (f : FunDef) : List Line :=
  let h := f.name :: paramToks f.params ++ ":" :: tyToks f.res ++ ["=="]
  let frl : List Line := if f.frees.isEmpty then [] else
    [⟨d + 1, "free" :: commaSep (f.frees.map (fun x => [x])) ++ (if piled then [] else [";"])⟩]
  match f.body with
  | .generate _ b =>
    if piled then ⟨d, h ++ ["generate"]⟩ :: frl ++ linesItems piled (d + 1) b
    else ⟨d, h ++ ["generate", "{"]⟩ :: frl ++ linesItems piled (d + 1) b ++ [⟨d, "}" :: term⟩]
  | .seq ss =>
    if piled then ⟨d, h⟩ :: frl ++ linesList piled (d + 1) ss
    else ⟨d, h ++ ["{"]⟩ :: frl ++ linesList piled (d + 1) ss ++ [⟨d, "}" :: term⟩]
  | b =>
    if f.frees.isEmpty then [⟨d, h ++ toksE b ++ term⟩]
    else if piled then ⟨d, h⟩ :: frl ++ linesItems piled (d + 1) b
    else ⟨d, h ++ ["{"]⟩ :: frl ++ linesItems piled (d + 1) b ++ [⟨d, "}" :: term⟩]

def linesFuns (piled : Bool) (d : Nat) (term : List String) : List FunDef → List Line
  | [] => []
  | f :: r => linesFun piled d term f ++ linesFuns piled d term r

def sigToks (s : MethSig) : List String :=
  s.name :: ":" :: paren (commaSep (s.args.map tyToks)) ++ "->" :: tyToks s.res

/-! ### imports: aggregate types are imported as soon as the named types they mention exist -/

def subAggs : Ty → List Ty
  | .list t => .list t :: subAggs t
  | .arr t => .arr t :: subAggs t
  | .gen t => subAggs t
  | .fn a r => subAggs a ++ subAggs r
  | .pair a b => subAggs a ++ subAggs b
  | _ => []

mutual
def tysE : Expr → List Ty
  | .bin _ a b => tysE a ++ tysE b
  | .un _ a => tysE a
  | .ite c t e => tysE c ++ tysE t ++ tysE e
  | .seq ss => tysL ss
  | .exit c v => tysE c ++ tysE v
  | .decl _ t e => t :: tysE e
  | .assign _ e => tysE e
  | .call _ sg r as => r :: sg ++ tysL as
  | .app f as => tysE f ++ tysL as
  | .lam ps r _ b => r :: ps.map (·.2) ++ tysE b
  | .mcall _ as => tysL as
  | .dcall _ d _ r as => r :: tysE d ++ tysL as
  | .selfcall _ r as => r :: tysL as
  | .listLit t es => .list t :: tysL es
  | .arrLit t es => .arr t :: tysL es
  | .arrNew t n v => .arr t :: tysE n ++ tysE v
  | .index a i => tysE a ++ tysE i
  | .setIdx a i v => tysE a ++ tysE i ++ tysE v
  | .recLit _ es => tysL es
  | .field r _ => tysE r
  | .setField r _ v => tysE r ++ tysE v
  | .uniLit _ _ e => tysE e
  | .ucase u _ => tysE u
  | .uget u _ => tysE u
  | .while c b => tysE c ++ tysE b
  | .forRange _ lo hi _ b => tysE lo ++ tysE hi ++ tysE b
  | .forIn _ l b => tysE l ++ tysE b
  | .forGen _ g b => tysE g ++ tysE b
  | .ret e => tysE e
  | .generate t b => t :: tysE b
  | .yield e => tysE e
  | .throw _ as => tysL as
  | .tryCatch b _ hs ca fin => tysE b ++ tysH hs ++ tysO ca ++ tysO fin
  | .print es => tysL es
  | _ => []
def tysL : List Expr → List Ty
  | [] => []
  | e :: es => tysE e ++ tysL es
def tysH : List (String × Expr) → List Ty
  | [] => []
  | (_, e) :: hs => tysE e ++ tysH hs
def tysO : Option Expr → List Ty
  | none => []
  | some e => tysE e
end

def tysFun (f : FunDef) : List Ty := f.res :: f.params.map (·.2) ++ tysE f.body

def tysTop : Top → List Ty
  | .fn d => tysFun d
  | .const _ t e => t :: tysE e
  | .var _ t e => t :: tysE e
  | .macro _ _ b => tysE b
  | .recDef _ fs => fs.map (·.2)
  | .uniDef _ fs => fs.map (·.2)
  | .exn _ _ => []
  | .cat _ ss ds => ss.flatMap (fun s => s.res :: s.args) ++ ds.flatMap tysFun
  | .dom _ _ t _ ms => t :: ms.flatMap tysFun
  | .stmt e => tysE e

def namedIn : Ty → List String
  | .named n => [n]
  | .list t => namedIn t
  | .arr t => namedIn t
  | .gen t => namedIn t
  | .fn a r => namedIn a ++ namedIn r
  | .pair a b => namedIn a ++ namedIn b
  | _ => []

/-- all aggregate types mentioned in the program, each once -/
def aggTypes (p : Prog) : List Ty := ((p.tops.flatMap tysTop).flatMap subAggs).eraseDups

def importLine (term : List String) (ts : List Ty) : List Line :=
  if ts.isEmpty then [] else [⟨0, "import" :: "from" :: commaSep (ts.map tyToks) ++ term⟩]

/-! ### top-level forms -/

def linesTop (piled : Bool) (term : List String) : Top → List Line
  | .fn d => linesFun piled 0 term d
  | .const x t e => [⟨0, x :: ":" :: tyToks t ++ "==" :: toksE e ++ term⟩]
  | .var x t e => linesS piled 0 term false (.decl x t e)
  | .macro n ps b => [⟨0, n :: paren (commaSep (ps.map (fun x => [x]))) ++ "==>" :: toksE b ++ term⟩]
  | .recDef n fs =>
      [⟨0, n :: "==>" :: "Record" :: paren (commaSep (fs.map (fun f => f.1 :: ":" :: tyToks f.2))) ++ term⟩]
  | .uniDef n fs =>
      [⟨0, n :: "==>" :: "Union" :: paren (commaSep (fs.map (fun f => f.1 :: ":" :: tyToks f.2))) ++ term⟩]
  | .exn n p =>
    match p with
    | none =>
      [⟨0, ["define", n ++ "Type", ":", "Category", "==", "with", "{", "}"] ++ term⟩,
       ⟨0, [n, ":", n ++ "Type", "==", "add", "{", "}"] ++ term⟩]
    | some t =>
      [⟨0, ["define", n ++ "Type", ":", "Category", "==", "with", "{", "val", ":", "(", ")", "->"]
            ++ tyToks t ++ "}" :: term⟩,
       ⟨0, n :: paren ("pv" :: ":" :: tyToks t) ++ ":" :: (n ++ "Type") :: "==" :: "add" :: "{" ::
            "val" :: "(" :: ")" :: ":" :: tyToks t ++ ["==", "pv", "}"] ++ term⟩]
  | .cat n ss ds =>
    let sem := if piled then [] else [";"]
    let sigl : List Line := ss.map (fun s => ⟨1, sigToks s ++ sem⟩)
    if piled then
      ⟨0, ["define", n, ":", "Category", "==", "with"]⟩ :: sigl ++
        (if ds.isEmpty then [] else ⟨1, ["default"]⟩ :: linesFuns piled 2 sem ds)
    else
      ⟨0, ["define", n, ":", "Category", "==", "with", "{"]⟩ :: sigl ++
        (if ds.isEmpty then [] else ⟨1, ["default", "{"]⟩ :: linesFuns piled 2 sem ds ++ [⟨1, ["}", ";"]⟩])
        ++ [⟨0, "}" :: term⟩]
  | .dom n p pt c ms =>
    let sem := if piled then [] else [";"]
    let h := n :: paren (p :: ":" :: tyToks pt) ++ [":", c, "==", "add"]
    if piled then ⟨0, h⟩ :: linesFuns piled 1 sem ms
    else ⟨0, h ++ ["{"]⟩ :: linesFuns piled 1 sem ms ++ [⟨0, "}" :: term⟩]
  | .stmt e => linesS piled 0 term false e

def scalarTys : List Ty := [.mi, .int, .bool, .str]

/-- forms with the imports that become possible after each type definition -/
def linesTops (piled : Bool) (term : List String) (defined : List String) (pending : List Ty) :
    List Top → List (List Line)
  | [] => []
  | t :: r =>
    let (defined', now, later) := match t with
      | .recDef n _ | .uniDef n _ =>
        let d := n :: defined
        let (a, b) := pending.partition (fun ty => (namedIn ty).all (· ∈ d))
        (d, Ty.named n :: a, b)
      | _ => (defined, [], pending)
    (linesTop piled term t ++ importLine term now) :: linesTops piled term defined' later r

def headerLines (piled : Bool) (term : List String) (p : Prog) : List (List Line) :=
  let (now, _) := (aggTypes p).partition (fun ty => (namedIn ty).isEmpty)
  [[⟨0, ["#include", "\"aldor\""]⟩], [⟨0, ["#include", "\"aldorio\""]⟩]] ++
  (if piled then [[⟨0, ["#pile"]⟩]] else []) ++
  [importLine term (scalarTys ++ now)]

/-- every top-level form as its own group of lines (header forms first) -/
def formLines (piled : Bool) (p : Prog) : List (List Line) :=
  let term := if piled then [] else [";"]
  let (_, later) := (aggTypes p).partition (fun ty => (namedIn ty).isEmpty)
  headerLines piled term p ++ linesTops piled term [] later p.tops

def linesOf (piled : Bool) (p : Prog) : List Line := (formLines piled p).flatten

/-! ### layout -/

/-- a small deterministic mixer (SplitMix-like on `Nat`, reduced mod 2^32) -/
def mix (a b : Nat) : Nat :=
  let x := (a * 2654435761 + b * 40503 + 12345) % 4294967296
  let y := (x ^^^ (x >>> 15)) * 2246822519 % 4294967296
  (y ^^^ (y >>> 13)) % 4294967296

def isDelimTok (t : String) : Bool := t ∈ ["(", ")", ",", ";", "[", "]", "{", "}"]

def commentPool : List (List Char) :=
  ["--".toList, "-- c".toList, "--- x := 1;".toList, "-- { unbalanced ( [".toList, "-- \"quote".toList,
   "--}".toList, "-- if then else".toList, "--\ttab".toList]

def spaces (n : Nat) : List Char := List.replicate n ' '

def indentChars (l : Layout) (d : Nat) : List Char :=
  if l.tabs then List.replicate d '\t' else spaces (d * l.indent)

/-- spaces between two adjacent tokens: ≥ 1, or ≥ 0 next to a delimiter token -/
def gap (l : Layout) (i j : Nat) (a b : String) : Nat :=
  if l.seed = 0 then 1
  else
    let h := mix (mix l.seed i) j
    if isDelimTok a ∨ isDelimTok b then h % 3 else 1 + h % 2

def tokChars (l : Layout) (i : Nat) : Nat → List String → List Char
  | _, [] => []
  | _, [t] => t.toList
  | j, a :: b :: r => a.toList ++ spaces (gap l i j a b) ++ tokChars l i (j + 1) (b :: r)

/-- noise lines (blank or comment-only) put before logical line `i` -/
def noiseBefore (l : Layout) (i : Nat) : List (List Char) :=
  if l.seed = 0 then []
  else
    let h := mix (mix l.seed (i + 1000003)) 7
    match h % 8 with
    | 0 => [[]]
    | 1 => [spaces (h / 8 % 5)]
    | 2 => [spaces (h / 8 % 9) ++ commentPool.getD (h / 128 % commentPool.length) []]
    | 3 => [[], spaces (h / 8 % 9) ++ commentPool.getD (h / 128 % commentPool.length) []]
    | _ => []

def trailing (l : Layout) (i : Nat) : List Char :=
  if l.seed = 0 then []
  else
    let h := mix (mix l.seed (i + 2000003)) 11
    match h % 6 with
    | 0 => spaces (1 + h / 8 % 3)
    | 1 => spaces (1 + h / 8 % 3) ++ commentPool.getD (h / 128 % commentPool.length) []
    | _ => []

/-- preprocessor lines (`#include`, `#pile`) are left alone: column 0, no trailing comment -/
def isDirective (ln : Line) : Bool :=
  match ln.toks with
  | t :: _ => t.startsWith "#"
  | [] => false

def physLine (l : Layout) (i : Nat) (ln : Line) : List (List Char) :=
  if isDirective ln then [tokChars { l with seed := 0 } i 0 ln.toks]
  else noiseBefore l i ++ [indentChars l ln.depth ++ tokChars l i 0 ln.toks ++ trailing l i]

def physLines (l : Layout) : Nat → List Line → List (List Char)
  | _, [] => []
  | i, ln :: r => physLine l i ln ++ physLines l (i + 1) r

def joinLines : List (List Char) → List Char
  | [] => []
  | a :: r => a ++ '\n' :: joinLines r

def layoutChars (l : Layout) (ls : List Line) : List Char := joinLines (physLines l 0 ls)

def renderChars (l : Layout) (p : Prog) : List Char := layoutChars l (linesOf l.piled p)

/-- concrete Aldor text of `p` under layout `l` -/
def render (l : Layout) (p : Prog) : String := String.ofList (renderChars l p)

/-- each top-level form on one line (for the interactive loop), braced form -/
def forms (p : Prog) : List String :=
  (formLines false p).filterMap (fun g =>
    if g.isEmpty then none else some (" ".intercalate (g.flatMap (·.toks))))

end AldorVerif.MiniAldor
