import AldorVerif.Model.MiniAldor.Syntax
/-!
# MiniAldor — macro expansion by substitution

`m(x, y) ==> body` : a use `m(a, b)` stands for `body[x := a, y := b]` (tree substitution, what
the compiler's `macex` phase does).  Macro bodies of the subset bind no variables (the checker
enforces it), so substitution is capture-free by construction.
-/
namespace AldorVerif.MiniAldor

abbrev MacroTable := List (String × List String × Expr)

def lookupSubst (σ : List (String × Expr)) (x : String) : Option Expr :=
  match σ with
  | [] => none
  | (y, e) :: r => if x = y then some e else lookupSubst r x

def findMacro (ms : MacroTable) (m : String) : Option (List String × Expr) :=
  match ms with
  | [] => none
  | (n, ps, b) :: r => if m = n then some (ps, b) else findMacro r m

def zipSubst (ps : List String) (as : List Expr) : List (String × Expr) :=
  match ps, as with
  | p :: ps, a :: as => (p, a) :: zipSubst ps as
  | _, _ => []

mutual
/-- replace the variables bound by `σ` -/
def subst (σ : List (String × Expr)) : Expr → Expr
  | .var x => match lookupSubst σ x with
    | some e => e
    | none => .var x
  | .bin op a b => .bin op (subst σ a) (subst σ b)
  | .un op a => .un op (subst σ a)
  | .ite c t e => .ite (subst σ c) (subst σ t) (subst σ e)
  | .seq ss => .seq (substL σ ss)
  | .exit c v => .exit (subst σ c) (subst σ v)
  | .decl x t e => .decl x t (subst σ e)
  | .assign x e => .assign x (subst σ e)
  | .call f sg r as => .call f sg r (substL σ as)
  | .app f as => .app (subst σ f) (substL σ as)
  | .lam ps r fr b => .lam ps r fr (subst σ b)
  | .mcall m as => .mcall m (substL σ as)
  | .dcall d da m r as => .dcall d (subst σ da) m r (substL σ as)
  | .selfcall m r as => .selfcall m r (substL σ as)
  | .listLit t es => .listLit t (substL σ es)
  | .arrLit t es => .arrLit t (substL σ es)
  | .arrNew t n v => .arrNew t (subst σ n) (subst σ v)
  | .index a i => .index (subst σ a) (subst σ i)
  | .setIdx a i v => .setIdx (subst σ a) (subst σ i) (subst σ v)
  | .recLit tn es => .recLit tn (substL σ es)
  | .field r f => .field (subst σ r) f
  | .setField r f v => .setField (subst σ r) f (subst σ v)
  | .uniLit tn tag e => .uniLit tn tag (subst σ e)
  | .ucase u tag => .ucase (subst σ u) tag
  | .uget u tag => .uget (subst σ u) tag
  | .while c b => .while (subst σ c) (subst σ b)
  | .forRange x lo hi st b => .forRange x (subst σ lo) (subst σ hi) st (subst σ b)
  | .forIn x l b => .forIn x (subst σ l) (subst σ b)
  | .forGen x g b => .forGen x (subst σ g) (subst σ b)
  | .ret e => .ret (subst σ e)
  | .generate t b => .generate t (subst σ b)
  | .yield e => .yield (subst σ e)
  | .throw ex as => .throw ex (substL σ as)
  | .tryCatch b ev hs ca fin => .tryCatch (subst σ b) ev (substH σ hs) (substO σ ca) (substO σ fin)
  | .print es => .print (substL σ es)
  | e => e
def substL (σ : List (String × Expr)) : List Expr → List Expr
  | [] => []
  | e :: es => subst σ e :: substL σ es
def substH (σ : List (String × Expr)) : List (String × Expr) → List (String × Expr)
  | [] => []
  | (n, e) :: hs => (n, subst σ e) :: substH σ hs
def substO (σ : List (String × Expr)) : Option Expr → Option Expr
  | none => none
  | some e => some (subst σ e)
end

mutual
/-- replace every macro use by the (already expanded) macro body with the arguments put in -/
def expandE (ms : MacroTable) : Expr → Expr
  | .mcall m as =>
    match findMacro ms m with
    | some (ps, body) => subst (zipSubst ps (expandL ms as)) body
    | none => .mcall m (expandL ms as)
  | .bin op a b => .bin op (expandE ms a) (expandE ms b)
  | .un op a => .un op (expandE ms a)
  | .ite c t e => .ite (expandE ms c) (expandE ms t) (expandE ms e)
  | .seq ss => .seq (expandL ms ss)
  | .exit c v => .exit (expandE ms c) (expandE ms v)
  | .decl x t e => .decl x t (expandE ms e)
  | .assign x e => .assign x (expandE ms e)
  | .call f sg r as => .call f sg r (expandL ms as)
  | .app f as => .app (expandE ms f) (expandL ms as)
  | .lam ps r fr b => .lam ps r fr (expandE ms b)
  | .dcall d da m r as => .dcall d (expandE ms da) m r (expandL ms as)
  | .selfcall m r as => .selfcall m r (expandL ms as)
  | .listLit t es => .listLit t (expandL ms es)
  | .arrLit t es => .arrLit t (expandL ms es)
  | .arrNew t n v => .arrNew t (expandE ms n) (expandE ms v)
  | .index a i => .index (expandE ms a) (expandE ms i)
  | .setIdx a i v => .setIdx (expandE ms a) (expandE ms i) (expandE ms v)
  | .recLit tn es => .recLit tn (expandL ms es)
  | .field r f => .field (expandE ms r) f
  | .setField r f v => .setField (expandE ms r) f (expandE ms v)
  | .uniLit tn tag e => .uniLit tn tag (expandE ms e)
  | .ucase u tag => .ucase (expandE ms u) tag
  | .uget u tag => .uget (expandE ms u) tag
  | .while c b => .while (expandE ms c) (expandE ms b)
  | .forRange x lo hi st b => .forRange x (expandE ms lo) (expandE ms hi) st (expandE ms b)
  | .forIn x l b => .forIn x (expandE ms l) (expandE ms b)
  | .forGen x g b => .forGen x (expandE ms g) (expandE ms b)
  | .ret e => .ret (expandE ms e)
  | .generate t b => .generate t (expandE ms b)
  | .yield e => .yield (expandE ms e)
  | .throw ex as => .throw ex (expandL ms as)
  | .tryCatch b ev hs ca fin =>
      .tryCatch (expandE ms b) ev (expandH ms hs) (expandO ms ca) (expandO ms fin)
  | .print es => .print (expandL ms es)
  | e => e
def expandL (ms : MacroTable) : List Expr → List Expr
  | [] => []
  | e :: es => expandE ms e :: expandL ms es
def expandH (ms : MacroTable) : List (String × Expr) → List (String × Expr)
  | [] => []
  | (n, e) :: hs => (n, expandE ms e) :: expandH ms hs
def expandO (ms : MacroTable) : Option Expr → Option Expr
  | none => none
  | some e => some (expandE ms e)
end

def expandFun (ms : MacroTable) (d : FunDef) : FunDef := { d with body := expandE ms d.body }

/-- expand the top-level forms in order; a macro may use the macros defined before it -/
def expandTops (ms : MacroTable) : List Top → List Top
  | [] => []
  | .macro n ps b :: r => expandTops ((n, ps, expandE ms b) :: ms) r
  | .fn d :: r => .fn (expandFun ms d) :: expandTops ms r
  | .const x t e :: r => .const x t (expandE ms e) :: expandTops ms r
  | .var x t e :: r => .var x t (expandE ms e) :: expandTops ms r
  | .cat n ss ds :: r => .cat n ss (ds.map (expandFun ms)) :: expandTops ms r
  | .dom n p t c mds :: r => .dom n p t c (mds.map (expandFun ms)) :: expandTops ms r
  | .stmt e :: r => .stmt (expandE ms e) :: expandTops ms r
  | t :: r => t :: expandTops ms r

/-- the macro-free program `p` stands for -/
def expand (p : Prog) : Prog := ⟨expandTops [] p.tops⟩

end AldorVerif.MiniAldor
