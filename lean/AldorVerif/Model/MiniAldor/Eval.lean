import AldorVerif.Model.MiniAldor.Value
/-!
# MiniAldor — the reference evaluator

A fuelled big-step evaluator.  `fuel` bounds the *depth* of the evaluation (every recursive
call passes `n` where the caller holds `n+1`), loops are tail calls.  `timeout` is a result of
its own, so "more fuel never changes a defined outcome" is a statement about `Res`.

The order in which the actual arguments of an application are evaluated is left open by the
language definition; the evaluator is parametrised by `π : List Expr → Bool` (`true`: this
argument list is evaluated right to left).  The reference order is `fun _ => false`.

Generators are evaluated by inversion of control: `for x in g repeat B` runs the body of the
generator `g` with a pending-body binding `%yield ↦ yk x B env`; `yield e` evaluates `e` and runs
`B` right there.  The observable order of side effects is that of the coroutine implementation
(generator prefix, value, loop body, generator continues …).  A `break`/`return`/exception raised
by `B` travels through the generator body as `esc s` and is unwrapped by the `for`.
-/
namespace AldorVerif.MiniAldor

/-! ### static lookups in the program's definitions -/

def findFun (tops : List Top) (f : String) (sig : List Ty) (res : Ty) : Option FunDef :=
  match tops with
  | [] => none
  | .fn d :: r => if d.name = f ∧ d.params.map (·.2) = sig ∧ d.res = res then some d else findFun r f sig res
  | _ :: r => findFun r f sig res

def countFuns (tops : List Top) (f : String) : Nat :=
  match tops with
  | [] => 0
  | .fn d :: r => (if d.name = f then 1 else 0) + countFuns r f
  | _ :: r => countFuns r f

def indexOfField (fs : List (String × Ty)) (f : String) : Option Nat :=
  match fs with
  | [] => none
  | (g, _) :: r => if f = g then some 0 else (indexOfField r f).map (· + 1)

/-- index of record field `f` (field names are unique in accepted programs) -/
def fieldIndex (tops : List Top) (f : String) : Option Nat :=
  match tops with
  | [] => none
  | .recDef _ fs :: r => match indexOfField fs f with
    | some i => some i
    | none => fieldIndex r f
  | _ :: r => fieldIndex r f

structure DomInfo where
  param : String
  pty : Ty
  cat : String
  methods : List FunDef

def findDom (tops : List Top) (d : String) : Option DomInfo :=
  match tops with
  | [] => none
  | .dom n p t c ms :: r => if n = d then some ⟨p, t, c, ms⟩ else findDom r d
  | _ :: r => findDom r d

def findCat (tops : List Top) (c : String) : Option (List MethSig × List FunDef) :=
  match tops with
  | [] => none
  | .cat n ss ds :: r => if n = c then some (ss, ds) else findCat r c
  | _ :: r => findCat r c

def findMeth (ms : List FunDef) (m : String) : Option FunDef :=
  match ms with
  | [] => none
  | d :: r => if d.name = m then some d else findMeth r m

def isUniTag (tops : List Top) (f : String) : Bool :=
  match tops with
  | [] => false
  | .uniDef _ fs :: r => fs.any (fun p => p.1 = f) || isUniTag r f
  | _ :: r => isUniTag r f

def exnHasPayload (tops : List Top) (e : String) : Option Bool :=
  match tops with
  | [] => none
  | .exn n p :: r => if n = e then some p.isSome else exnHasPayload r e
  | _ :: r => exnHasPayload r e

/-! ### primitive operations -/

def minMI : Int := -9223372036854775808
def maxMI : Int := 9223372036854775807
def fitsMI (i : Int) : Bool := minMI ≤ i && i ≤ maxMI

def miRes (exact : Int) : M Val := do
  tick .miArith
  let r := BitVec.ofInt 64 exact
  if r.toInt ≠ exact then tick .miWrap
  pure (.mi r)

def intRes (v : Int) : M Val := do
  tick .intArith
  if !fitsMI v then tick .intBig
  pure (.int v)

def boolRes (r : Rule) (b : Bool) : M Val := do tick r; pure (.bool b)

def binop (op : BinOp) (x y : Val) : M Val :=
  match op, x, y with
  | .add, .mi a, .mi b => miRes (a.toInt + b.toInt)
  | .sub, .mi a, .mi b => miRes (a.toInt - b.toInt)
  | .mul, .mi a, .mi b => miRes (a.toInt * b.toInt)
  | .quo, .mi a, .mi b =>
      if b.toInt = 0 then undef "mi-div-by-zero"
      else if a.toInt = minMI ∧ b.toInt = -1 then undef "mi-quo-overflow"
      else do tick .miDiv; pure (.mi (BitVec.ofInt 64 (Int.tdiv a.toInt b.toInt)))
  | .rem, .mi a, .mi b =>
      if b.toInt = 0 then undef "mi-div-by-zero"
      else if a.toInt = minMI ∧ b.toInt = -1 then undef "mi-quo-overflow"
      else do tick .miDiv; pure (.mi (BitVec.ofInt 64 (Int.tmod a.toInt b.toInt)))
  | .mod, .mi a, .mi b =>
      if b.toInt = 0 then undef "mi-div-by-zero"
      else if b.toInt = minMI then undef "mi-mod-min"
      else do tick .miDiv; pure (.mi (BitVec.ofInt 64 (Int.emod a.toInt b.toInt)))
  | .pow, .mi a, .mi b =>
      if b.toInt < 0 then undef "negative-exponent"
      else if a.toInt = 0 ∧ b.toInt = 0 then undef "zero-to-zero"
      else do tick .pow; miRes (a.toInt ^ b.toInt.toNat)
  | .max, .mi a, .mi b => do tick .miCmp; pure (.mi (if a.toInt < b.toInt then b else a))
  | .min, .mi a, .mi b => do tick .miCmp; pure (.mi (if b.toInt < a.toInt then b else a))
  | .eq, .mi a, .mi b => boolRes .miCmp (a == b)
  | .ne, .mi a, .mi b => boolRes .miCmp (a != b)
  | .lt, .mi a, .mi b => boolRes .miCmp (a.toInt < b.toInt)
  | .le, .mi a, .mi b => boolRes .miCmp (a.toInt ≤ b.toInt)
  | .gt, .mi a, .mi b => boolRes .miCmp (a.toInt > b.toInt)
  | .ge, .mi a, .mi b => boolRes .miCmp (a.toInt ≥ b.toInt)
  | .add, .int a, .int b => intRes (a + b)
  | .sub, .int a, .int b => intRes (a - b)
  | .mul, .int a, .int b => intRes (a * b)
  | .quo, .int a, .int b =>
      if b = 0 then undef "int-div-by-zero" else do tick .intDiv; intRes (Int.tdiv a b)
  | .rem, .int a, .int b =>
      if b = 0 then undef "int-div-by-zero" else do tick .intDiv; intRes (Int.tmod a b)
  | .mod, .int a, .int b =>
      if b = 0 then undef "int-div-by-zero" else do tick .intDiv; intRes (Int.emod a b)
  | .pow, .int a, .mi b =>
      if b.toInt < 0 then undef "negative-exponent"
      else if a = 0 ∧ b.toInt = 0 then undef "zero-to-zero"
      else do tick .pow; intRes (a ^ b.toInt.toNat)
  | .max, .int a, .int b => do tick .intCmp; pure (.int (if a < b then b else a))
  | .min, .int a, .int b => do tick .intCmp; pure (.int (if b < a then b else a))
  | .eq, .int a, .int b => boolRes .intCmp (a == b)
  | .ne, .int a, .int b => boolRes .intCmp (a != b)
  | .lt, .int a, .int b => boolRes .intCmp (a < b)
  | .le, .int a, .int b => boolRes .intCmp (a ≤ b)
  | .gt, .int a, .int b => boolRes .intCmp (a > b)
  | .ge, .int a, .int b => boolRes .intCmp (a ≥ b)
  | .eq, .bool a, .bool b => boolRes .boolOp (a == b)
  | .ne, .bool a, .bool b => boolRes .boolOp (a != b)
  | .eq, .str a, .str b => boolRes .strCmp (a == b)
  | .ne, .str a, .str b => boolRes .strCmp (a != b)
  | .concat, .str a, .str b => do tick .strOp; pure (.str (a ++ b))
  | .cons, v, .list vs => do tick .listOp; pure (.list (v :: vs))
  | _, _, _ => stuck "binop"

def unop (op : UnOp) (x : Val) : M Val :=
  match op, x with
  | .neg, .mi a => miRes (- a.toInt)
  | .abs, .mi a => miRes (if a.toInt < 0 then - a.toInt else a.toInt)
  | .neg, .int a => intRes (- a)
  | .abs, .int a => intRes (if a < 0 then - a else a)
  | .not, .bool b => boolRes .boolOp (!b)
  | .len, .str s => do tick .strOp; pure (.mi (BitVec.ofNat 64 s.length))
  | .len, .list vs => do tick .listOp; pure (.mi (BitVec.ofNat 64 vs.length))
  | .len, .ref a => do
      tick .arrLen
      let o ← readObj a
      pure (.mi (BitVec.ofNat 64 o.length))
  | .toInt, .mi a => do tick .conv; pure (.int a.toInt)
  | .toMI, .int a => if fitsMI a then do tick .conv; pure (.mi (BitVec.ofInt 64 a)) else undef "machine-of-large-integer"
  | .first, .list vs => match vs with
      | v :: _ => do tick .listOp; pure v
      | [] => undef "first-of-empty"
  | .rest, .list vs => match vs with
      | _ :: r => do tick .listOp; pure (.list r)
      | [] => undef "rest-of-empty"
  | .isEmpty, .list vs => do tick .listOp; pure (.bool vs.isEmpty)
  | .reverse, .list vs => do tick .listOp; pure (.list vs.reverse)
  | _, _ => stuck "unop"

/-- text `<<` writes for a scalar -/
def showScalar : Val → Option String
  | .mi v => some (toString v.toInt)
  | .int v => some (toString v)
  | .bool b => some (if b then "T" else "F")
  | .str s => some s
  | _ => none

def showElems : List Val → Option (List String)
  | [] => some []
  | v :: vs => match showScalar v, showElems vs with
    | some s, some r => some (s :: r)
    | _, _ => none

def showSeq (vs : List Val) : M String :=
  match showElems vs with
  | some ss => pure ("[" ++ ",".intercalate ss ++ "]")
  | none => stuck "print-element"

def showVal (v : Val) : M String :=
  match v with
  | .list vs => showSeq vs
  | .ref a => do let o ← readObj a; showSeq o
  | v => match showScalar v with
    | some s => pure s
    | none => stuck "print"

/-- values a range loop runs through; `none` when there would be more than `cap` of them -/
def rangeVals (lo hi step : Int) (cap : Nat) : Option (List Int) :=
  if step = 0 then some []
  else
    let cnt : Int := if step > 0 then (if lo > hi then 0 else (hi - lo) / step + 1)
                     else (if lo < hi then 0 else (lo - hi) / (-step) + 1)
    if cnt > cap then none
    else some ((List.range cnt.toNat).map (fun (k : Nat) => lo + step * (k : Int)))

def bindParams (ps : List String) (vs : List Val) : Option Env :=
  match ps, vs with
  | [], [] => some []
  | p :: ps, v :: vs => (bindParams ps vs).map ((p, v) :: ·)
  | _, _ => none

def listSet (l : List Val) (i : Nat) (v : Val) : List Val :=
  match l, i with
  | [], _ => []
  | _ :: r, 0 => v :: r
  | x :: r, i + 1 => x :: listSet r i v

def findHandler (hs : List (String × Expr)) (name : String) : Option Expr :=
  match hs with
  | [] => none
  | (en, h) :: r => if en = name then some h else findHandler r name

def isNewline : Expr → Bool
  | .newline => true
  | _ => false

def timeoutM : M α := fun _ => .timeout

/-- evaluate the expressions of a list from left to right with `f` -/
def mapEval (f : Expr → M Val) : List Expr → M (List Val)
  | [] => pure []
  | e :: r => do
      let v ← f e
      let vs ← mapEval f r
      pure (v :: vs)

/-- the handler a `try … catch ev in { … }` installs: `run` evaluates a handler body -/
def mkHandler (run : Env → Expr → M Val) (env : Env) (ev : String) (handlers : List (String × Expr))
    (catchAll : Option Expr) : String → Val → Option (M Val) := fun name pv =>
  match findHandler handlers name with
  | some h => some (do tick .catchNamed; run ((ev, .exn name pv) :: env) h)
  | none =>
    match catchAll with
    | some h => some (do tick .catchAll; run ((ev, .exn name pv) :: env) h)
    | none => none

/-! ### loop variables

A `for` variable is a local variable of the function the loop stands in: one store cell per
invocation of that function, assigned at the start of every iteration (observed: closures
created in different iterations all see the last value).  `loopVars` collects the `for`
variables of a body without entering nested closures. -/

mutual
def loopVars : Expr → List String
  | .bin _ a b => loopVars a ++ loopVars b
  | .un _ a => loopVars a
  | .ite c t e => loopVars c ++ loopVars t ++ loopVars e
  | .seq ss => loopVarsL ss
  | .exit c v => loopVars c ++ loopVars v
  | .decl _ _ e => loopVars e
  | .assign _ e => loopVars e
  | .call _ _ _ as => loopVarsL as
  | .app f as => loopVars f ++ loopVarsL as
  | .lam _ _ _ _ => []
  | .mcall _ as => loopVarsL as
  | .dcall _ d _ _ as => loopVars d ++ loopVarsL as
  | .selfcall _ _ as => loopVarsL as
  | .listLit _ es => loopVarsL es
  | .arrLit _ es => loopVarsL es
  | .arrNew _ n v => loopVars n ++ loopVars v
  | .index a i => loopVars a ++ loopVars i
  | .setIdx a i v => loopVars a ++ loopVars i ++ loopVars v
  | .recLit _ es => loopVarsL es
  | .field r _ => loopVars r
  | .setField r _ v => loopVars r ++ loopVars v
  | .uniLit _ _ e => loopVars e
  | .ucase u _ => loopVars u
  | .uget u _ => loopVars u
  | .while c b => loopVars c ++ loopVars b
  | .forRange x lo hi _ b => x :: loopVars lo ++ loopVars hi ++ loopVars b
  | .forIn x l b => x :: loopVars l ++ loopVars b
  | .forGen x g b => x :: loopVars g ++ loopVars b
  | .ret e => loopVars e
  | .generate _ b => loopVars b
  | .yield e => loopVars e
  | .throw _ as => loopVarsL as
  | .tryCatch b _ hs ca fin => loopVars b ++ loopVarsH hs ++ loopVarsO ca ++ loopVarsO fin
  | .print es => loopVarsL es
  | _ => []
def loopVarsL : List Expr → List String
  | [] => []
  | e :: es => loopVars e ++ loopVarsL es
def loopVarsH : List (String × Expr) → List String
  | [] => []
  | (_, e) :: hs => loopVars e ++ loopVarsH hs
def loopVarsO : Option Expr → List String
  | none => []
  | some e => loopVars e
end

/-- one fresh cell per name -/
def allocCells : List String → M Env
  | [] => pure []
  | x :: r => do
      let a ← alloc [.unit]
      let rest ← allocCells r
      pure ((x, .cell a) :: rest)

/-- run a function body: its loop variables get their cells first -/
def withLoopCells (body : Expr) (k : Env → M α) : M α := do
  let cells ← allocCells (loopVars body)
  k cells

/-- the loop assigns its variable at the start of an iteration -/
def setLoopVar (env : Env) (x : String) (v : Val) : M Unit :=
  match lookupRaw env x with
  | some (.cell a) => writeObj a [v]
  | _ => stuck "loop-variable-cell"

section
variable (tops : List Top) (π : List Expr → Bool)

mutual

def eval : Nat → Env → Expr → M Val
  | 0, _, _ => timeoutM
  | n + 1, env, e =>
    match e with
    | .litMI v => do tick .litMI; pure (.mi (BitVec.ofInt 64 v))
    | .litInt v => do
        tick .litInt
        if !fitsMI v then tick .intBig
        pure (.int v)
    | .litBool b => do tick .litBool; pure (.bool b)
    | .litStr s => do tick .litStr; pure (.str s)
    | .unitLit => pure .unit
    | .newline => pure (.str "\n")
    | .var x => do
      let b ← lookupVar env x
      match b with
      | some (.cell a) => do
          tick .varRead
          let o ← readObj a
          match o with
          | [v] => pure v
          | _ => stuck "cell-shape"
      | some v => pure v
      | none => stuck "unbound-variable"
    | .bin .and a b => do
        let va ← eval n env a
        match va with
        | .bool false => boolRes .boolOp false
        | .bool true => do tick .boolOp; eval n env b
        | _ => stuck "and"
    | .bin .or a b => do
        let va ← eval n env a
        match va with
        | .bool true => boolRes .boolOp true
        | .bool false => do tick .boolOp; eval n env b
        | _ => stuck "or"
    | .bin op a b => do
        let vs ← evalArgs n env [a, b]
        match vs with
        | [x, y] => binop op x y
        | _ => stuck "bin-arity"
    | .un op a => do
        let v ← eval n env a
        unop op v
    | .ite c t e => do
        let vc ← eval n env c
        match vc with
        | .bool true => do tick .iteTrue; eval n env t
        | .bool false => do tick .iteFalse; eval n env e
        | _ => stuck "if-condition"
    | .seq ss => evalSeq n env ss
    | .exit _ _ => stuck "exit-outside-sequence"
    | .decl _ _ _ => stuck "declaration-outside-body"
    | .assign x e => do
        let v ← eval n env e
        let b ← lookupVar env x
        match b with
        | some (.cell a) => do tick .assign; writeObj a [v]; pure v
        | _ => stuck "assign-to-immutable"
    | .call f sig res args => do
        let vs ← evalArgs n env args
        match findFun tops f sig res with
        | none => stuck "unknown-function"
        | some d =>
          match bindParams (d.params.map (·.1)) vs with
          | none => stuck "call-arity"
          | some penv => do
              tick (if countFuns tops f > 1 then .callOverloaded else .call)
              withLoopCells d.body (fun cells => catchRet d.res (eval n (penv ++ cells) d.body))
    | .app f args => do
        let vs ← evalArgs n env (f :: args)
        match vs with
        | .clo ps res body cenv :: avs =>
          match bindParams ps avs with
          | none => stuck "apply-arity"
          | some penv => do
              tick .cloApply
              withLoopCells body (fun cells => catchRet res (eval n (penv ++ cells ++ cenv) body))
        | _ => stuck "apply-non-function"
    | .lam params res _ body => do
        tick .cloMake
        pure (.clo (params.map (·.1)) res body env)
    | .mcall _ _ => stuck "unexpanded-macro"
    | .dcall dom darg meth _ args => do
        let dv ← eval n env darg
        let vs ← evalArgs n env args
        tick .domCall
        evalMeth n dom dv meth vs
    | .selfcall meth _ args => do
        let vs ← evalArgs n env args
        match lookupRaw env "%" with
        | some (.dom dom dv) => do tick .selfCall; evalMeth n dom dv meth vs
        | _ => stuck "no-self"
    | .listLit _ es => do
        let vs ← evalArgs n env es
        tick .listLit
        pure (.list vs)
    | .arrLit _ es => do
        let vs ← evalArgs n env es
        tick .arrLit
        let a ← alloc vs
        pure (.ref a)
    | .arrNew _ cnt v => do
        let vs ← evalArgs n env [cnt, v]
        match vs with
        | [.mi k, x] =>
          if k.toInt < 0 then undef "negative-array-size"
          else if k.toInt > 100000 then undef "huge-array"
          else do
            tick .arrNew
            let a ← alloc (List.replicate k.toInt.toNat x)
            pure (.ref a)
        | _ => stuck "array-new"
    | .index a i => do
        let vs ← evalArgs n env [a, i]
        match vs with
        | [.list l, .mi k] =>
          if k.toInt < 1 ∨ k.toInt > l.length then undef "list-index-out-of-range"
          else match l[k.toInt.toNat - 1]? with
            | some v => do tick .listIndex; pure v
            | none => stuck "list-index"
        | [.ref r, .mi k] => do
          let o ← readObj r
          if k.toInt < 0 ∨ k.toInt ≥ o.length then undef "array-index-out-of-range"
          else match o[k.toInt.toNat]? with
            | some v => do tick .arrIndex; pure v
            | none => stuck "array-index"
        | _ => stuck "index"
    | .setIdx a i v => do
        let vs ← evalArgs n env [a, i, v]
        match vs with
        | [.ref r, .mi k, x] => do
          let o ← readObj r
          if k.toInt < 0 ∨ k.toInt ≥ o.length then undef "array-index-out-of-range"
          else do
            tick .arrSet
            writeObj r (listSet o k.toInt.toNat x)
            pure x
        | _ => stuck "set-index"
    | .recLit _ es => do
        let vs ← evalArgs n env es
        tick .recLit
        let a ← alloc vs
        pure (.ref a)
    | .field r f => do
        let v ← eval n env r
        match v, fieldIndex tops f with
        | .ref a, some i => do
          let o ← readObj a
          match o[i]? with
          | some x => do tick .recField; pure x
          | none => stuck "record-shape"
        | _, _ => stuck "field"
    | .setField r f v => do
        let vs ← evalArgs n env [r, v]
        match vs, fieldIndex tops f with
        | [.ref a, x], some i => do
          let o ← readObj a
          if i < o.length then do
            tick .recSet
            writeObj a (listSet o i x)
            pure x
          else stuck "record-shape"
        | [.ref a, x], none =>
          -- `u.tag := x` on a union: the object changes its branch (unions are shared objects)
          if isUniTag tops f then do
            tick .uniSet
            writeObj a [.str f, x]
            pure x
          else stuck "set-field"
        | _, _ => stuck "set-field"
    | .uniLit _ tag e => do
        let v ← eval n env e
        tick .uniLit
        let a ← alloc [.str tag, v]
        pure (.ref a)
    | .ucase u tag => do
        let v ← eval n env u
        match v with
        | .ref a => do
          let o ← readObj a
          match o with
          | [.str t, _] => boolRes .uniCase (t == tag)
          | _ => stuck "union-shape"
        | _ => stuck "case"
    | .uget u tag => do
        let v ← eval n env u
        match v with
        | .ref a => do
          let o ← readObj a
          match o with
          | [.str t, x] => if t = tag then do tick .uniGet; pure x else undef "wrong-union-branch"
          | _ => stuck "union-shape"
        | _ => stuck "union-get"
    | .while c body => evalWhile n env c body
    | .forRange x lo hi step body => do
        let vs ← evalArgs n env [lo, hi]
        match vs with
        | [.mi a, .mi b] =>
          if !fitsMI (b.toInt + step) then undef "range-end-overflow"
          else match rangeVals a.toInt b.toInt step 1000000 with
            | none => undef "huge-range"
            | some is => evalFor n env x (is.map (fun i => .mi (BitVec.ofInt 64 i))) .forRangeIter body
        | [.int a, .int b] =>
          match rangeVals a b step 1000000 with
          | none => undef "huge-range"
          | some is => evalFor n env x (is.map .int) .forRangeIter body
        | _ => stuck "range"
    | .forIn x l body => do
        let v ← eval n env l
        match v with
        | .list vs => evalFor n env x vs .forInIter body
        | .ref a => do
          let o ← readObj a
          evalForArr n env x a 0 o.length body
        | _ => stuck "for-in"
    | .forGen x g body => do
        let v ← eval n env g
        match v with
        | .gen gbody genv => consumeGen (eval n (("%yield", .yk x body env) :: genv) gbody)
        | _ => stuck "for-generator"
    | .brk => do tick .brk; raise .brk
    | .iter => do tick .iter; raise .iter
    | .ret e => do
        let v ← eval n env e
        tick .retEarly
        raise (.ret v)
    | .generate _ body => do
        tick .genMake
        pure (.gen body env)
    | .yield e => do
        let v ← eval n env e
        match lookupRaw env "%yield" with
        | some (.yk x body benv) => do
          tick .yield
          tick .forGenIter
          setLoopVar benv x v
          atYield (eval n benv body)
        | _ => stuck "yield-outside-generator"
    | .throw ex args => do
        let vs ← evalArgs n env args
        tick .throw
        match vs with
        | [] => raise (.exc ex .unit)
        | [v] => raise (.exc ex v)
        | _ => stuck "throw-arity"
    | .tryCatch body ev handlers catchAll fin =>
        match fin with
        | none => tryWith (eval n env body) (mkHandler (eval n) env ev handlers catchAll)
        | some f => finallyDo (tryWith (eval n env body) (mkHandler (eval n) env ev handlers catchAll))
                      (do tick .finallyRun; eval n env f)
    | .exnVal ev =>
      match lookupRaw env ev with
      | some (.exn _ v) => do tick .exnVal; pure v
      | _ => stuck "exception-value"
    | .error msg => do
        tick .errorCall
        raise (.exc "RuntimeError" (.str msg))
    | .print es => do
        evalPrint n env es.reverse
        pure .unit

def evalMeth : Nat → String → Val → String → List Val → M Val
  | 0, _, _, _, _ => timeoutM
  | n + 1, dom, dv, meth, vs =>
    match findDom tops dom with
    | none => stuck "unknown-domain"
    | some di =>
      match findMeth di.methods meth with
      | some d =>
        match bindParams (d.params.map (·.1)) vs with
        | none => stuck "method-arity"
        | some penv => do
            tick .domOwn
            withLoopCells d.body (fun cells =>
              catchRet d.res (eval n (penv ++ cells ++ [("%", .dom dom dv), (di.param, dv)]) d.body))
      | none =>
        match findCat tops di.cat with
        | none => stuck "unknown-category"
        | some (_, defaults) =>
          match findMeth defaults meth with
          | none => stuck "unknown-method"
          | some d =>
            match bindParams (d.params.map (·.1)) vs with
            | none => stuck "method-arity"
            | some penv => do
                tick .catDefault
                withLoopCells d.body (fun cells =>
                  catchRet d.res (eval n (penv ++ cells ++ [("%", .dom dom dv)]) d.body))

/-- every element of the list gets the same fuel, so the order of evaluation does not
change how much fuel an argument has -/
def evalList : Nat → Env → List Expr → M (List Val)
  | 0, _, _ => timeoutM
  | n + 1, env, es => mapEval (eval n env) es

def evalArgs : Nat → Env → List Expr → M (List Val)
  | 0, _, _ => timeoutM
  | n + 1, env, es =>
    if π es then do
      let vs ← evalList n env es.reverse
      pure vs.reverse
    else evalList n env es

def evalSeq : Nat → Env → List Expr → M Val
  | 0, _, _ => timeoutM
  | n + 1, env, ss =>
    match ss with
    | [] => pure .unit
    | .decl x _ e :: r => do
        let v ← eval n env e
        tick .decl
        let a ← alloc [v]
        match r with
        | [] => pure v
        | _ => evalSeq n ((x, .cell a) :: env) r
    | .exit c v :: r => do
        let vc ← eval n env c
        match vc with
        | .bool true => do tick .seqExit; eval n env v
        | .bool false => evalSeq n env r
        | _ => stuck "exit-condition"
    | [s] => eval n env s
    | s :: r => do
        let _ ← eval n env s
        evalSeq n env r

def evalWhile : Nat → Env → Expr → Expr → M Val
  | 0, _, _, _ => timeoutM
  | n + 1, env, c, body => do
    let vc ← eval n env c
    match vc with
    | .bool true => loopStep (do tick .whileIter; eval n env body) (evalWhile n env c body)
    | .bool false => pure .unit
    | _ => stuck "while-condition"

def evalFor : Nat → Env → String → List Val → Rule → Expr → M Val
  | 0, _, _, _, _, _ => timeoutM
  | n + 1, env, x, vs, rule, body =>
    match vs with
    | [] => pure .unit
    | v :: r => loopStep (do tick rule; setLoopVar env x v; eval n env body) (evalFor n env x r rule body)

/-- array traversal: the length is read once, the elements as the loop gets to them -/
def evalForArr : Nat → Env → String → Nat → Nat → Nat → Expr → M Val
  | 0, _, _, _, _, _, _ => timeoutM
  | n + 1, env, x, a, i, len, body =>
    if i ≥ len then pure .unit
    else do
      let o ← readObj a
      match o[i]? with
      | none => undef "array-index-out-of-range"
      | some v =>
        loopStep (do tick .forInIter; setLoopVar env x v; eval n env body) (evalForArr n env x a (i + 1) len body)

/-- `stdout << e₁ << … << eₖ` is the nested application `<<(<<(…), eₖ)`; the list comes reversed -/
def evalPrint : Nat → Env → List Expr → M Unit
  | 0, _, _ => timeoutM
  | n + 1, env, rs =>
    match rs with
    | [] => pure ()
    | last :: init =>
      if π [.print init.reverse, last] then do
        let v ← eval n env last
        evalPrint n env init
        let t ← showVal v
        tick (if isNewline last then .printNewline else .print)
        emit t
      else do
        evalPrint n env init
        let v ← eval n env last
        let t ← showVal v
        tick (if isNewline last then .printNewline else .print)
        emit t

end

/-! ### whole programs -/

/-- top-level forms in order; definitions are static (looked up in `tops`), constants and
variables extend the globals, statements run with an empty local environment -/
def evalTops (fuel : Nat) : List Top → M Unit
  | [] => pure ()
  | .const x _ e :: r => do
      let v ← withLoopCells e (fun cells => eval tops π fuel cells e)
      tick .constDef
      addGlobal x v
      evalTops fuel r
  | .var x _ e :: r => do
      let v ← withLoopCells e (fun cells => eval tops π fuel cells e)
      tick .decl
      let a ← alloc [v]
      addGlobal x (.cell a)
      evalTops fuel r
  | .stmt e :: r => do
      let _ ← withLoopCells e (fun cells => eval tops π fuel cells e)
      tick .topStmt
      evalTops fuel r
  | _ :: r => evalTops fuel r

end

def outcomeOf (r : Res Unit) (sofar : State) : Option Outcome :=
  match r with
  | .ok _ s => some ⟨s.out, .normal, s.counts⟩
  | .sig (.exc "RuntimeError" (.str msg)) s => some ⟨s.out, .failure msg, bump Rule.uncaught.idx s.counts⟩
  | .sig (.exc name _) s => some ⟨s.out, .uncaught name, bump Rule.uncaught.idx s.counts⟩
  | .sig _ s => some ⟨s.out, .stuck "stray-signal", s.counts⟩
  | .timeout => none
  | .undef w => some ⟨sofar.out, .undefined w, sofar.counts⟩
  | .stuck w => some ⟨sofar.out, .stuck w, sofar.counts⟩

/-- `evalWith π fuel p`: the outcome of program `p` (already macro-expanded) when argument
lists are evaluated in the orders `π` chooses; `none` = out of fuel -/
def evalWith (π : List Expr → Bool) (fuel : Nat) (p : Prog) : Option Outcome :=
  outcomeOf (evalTops p.tops π fuel p.tops State.init) State.init

/-- the reference outcome: arguments left to right -/
def evalProg (fuel : Nat) (p : Prog) : Option Outcome := evalWith (fun _ => false) fuel p

end AldorVerif.MiniAldor
