import AldorVerif.Model.MiniAldor.Render
/-!
# MiniAldor — a small lexer for the renderer's own output

A one-pass state machine over the characters of a physical line: blanks separate tokens, the
characters `( ) , ; [ ] { }` are tokens by themselves, `"` opens a string literal that runs to the
next unescaped `"` (`_` escapes one character), `--` at the start of a token opens a comment
running to the end of the line.  `lexChars` returns, for every physical line that carries at
least one token, the visual column of its first token and its tokens.

It is the tokenizer model `render_layout_irrelevant` (Props/C01.lean) is stated with; that
the real scanner agrees with it on the renderer's output is checked by every compile the
correspondence runs (C01, C14).
-/
namespace AldorVerif.MiniAldor

inductive Mode where
  | gap                       -- between tokens
  | dash                      -- a token that so far is `-`
  | word (acc : List Char)
  | str (acc : List Char)     -- inside a string literal
  | esc (acc : List Char)     -- inside a string literal, after `_`
  | comment
  deriving Repr, DecidableEq, Inhabited

def isDelimChar (c : Char) : Bool :=
  c = '(' || c = ')' || c = ',' || c = ';' || c = '[' || c = ']' || c = '{' || c = '}'

def isBlankChar (c : Char) : Bool := c = ' ' || c = '\t'

/-- one character: tokens completed by it, and the new mode -/
def step : Mode → Char → List (List Char) × Mode
  | .comment, _ => ([], .comment)
  | .gap, c =>
    if isBlankChar c then ([], .gap)
    else if isDelimChar c then ([[c]], .gap)
    else if c = '"' then ([], .str ['"'])
    else if c = '-' then ([], .dash)
    else ([], .word [c])
  | .dash, c =>
    if c = '-' then ([], .comment)
    else if isBlankChar c then ([['-']], .gap)
    else if isDelimChar c then ([['-'], [c]], .gap)
    else if c = '"' then ([['-']], .str ['"'])
    else ([], .word ['-', c])
  | .word acc, c =>
    if isBlankChar c then ([acc], .gap)
    else if isDelimChar c then ([acc, [c]], .gap)
    else if c = '"' then ([acc], .str ['"'])
    else ([], .word (acc ++ [c]))
  | .str acc, c =>
    if c = '_' then ([], .esc (acc ++ [c]))
    else if c = '"' then ([acc ++ [c]], .gap)
    else ([], .str (acc ++ [c]))
  | .esc acc, c => ([], .str (acc ++ [c]))

def run : Mode → List Char → List (List Char) × Mode
  | m, [] => ([], m)
  | m, c :: r =>
    let (t1, m1) := step m c
    let (t2, m2) := run m1 r
    (t1 ++ t2, m2)

/-- the token pending at the end of a line -/
def flush : Mode → List (List Char)
  | .dash => [['-']]
  | .word acc => [acc]
  | .str acc => [acc]
  | .esc acc => [acc]
  | _ => []

def lexLine (cs : List Char) : List (List Char) :=
  let (ts, m) := run .gap cs
  ts ++ flush m

/-- split at newlines; every line of the text is newline-terminated -/
def splitLines : List Char → List (List Char)
  | [] => []
  | c :: r =>
    if c = '\n' then [] :: splitLines r
    else match splitLines r with
      | [] => [[c]]
      | l :: ls => (c :: l) :: ls

/-- visual column of the first non-blank character (a tab goes to the next multiple of 8) -/
def indentCol : Nat → List Char → Nat
  | col, [] => col
  | col, c :: r =>
    if c = ' ' then indentCol (col + 1) r
    else if c = '\t' then indentCol ((col / 8 + 1) * 8) r
    else col

def lexChars (cs : List Char) : List (Nat × List String) :=
  (splitLines cs).filterMap (fun ln =>
    let ts := lexLine ln
    if ts.isEmpty then none else some (indentCol 0 ln, ts.map String.ofList))

/-- column a logical line of depth `d` starts in -/
def colOf (l : Layout) (d : Nat) : Nat := if l.tabs then d * 8 else d * l.indent

def expectedLex (l : Layout) (ls : List Line) : List (Nat × List String) :=
  ls.filterMap (fun ln => if ln.toks.isEmpty then none else some (colOf l ln.depth, ln.toks))

/-! ### well-formed tokens -/

def isWordTok (t : List Char) : Bool :=
  match run .gap t with
  | ([], .word acc) => acc == t
  | ([], .dash) => t == ['-']
  | _ => false

def isStrTok (t : List Char) : Bool :=
  match run .gap t with
  | ([a], .gap) => a == t && t.head? == some '"'
  | _ => false

def headNotBlank (t : List Char) : Bool :=
  match t with
  | c :: _ => !isBlankChar c
  | [] => false

def tokOK (t : String) : Bool :=
  (isDelimTok t || isWordTok t.toList || isStrTok t.toList)
  && headNotBlank t.toList && t.toList.all (fun c => c != '\n')

def lineOK (ln : Line) : Bool :=
  ln.toks.all tokOK && !ln.toks.isEmpty &&
  (if isDirective ln then ln.depth == 0 else true)

def tokensOK (ls : List Line) : Bool := ls.all lineOK

end AldorVerif.MiniAldor
