import AldorVerif.Model.MiniAldor.Eval
import AldorVerif.Model.MiniAldor.Expand
/-!
# MiniAldor — the type checker (decidable: it is a function)

`typecheck : Prog → Except TypeErr Unit` works on the macro-expanded program.  Besides types
it enforces the discipline the reference semantics relies on:

* every name is introduced once and before it is used (no shadowing, no forward references);
* variables are declared with an initial value, at the top level or directly in a function
  body — so no variable is ever read before it has been assigned;
* parameters, loop variables and constants are never assigned; outer variables a function
  assigns are listed in its `free` declaration;
* `break`/`iterate` only inside a loop of the same function, not across a `try`;
  `yield` only inside `generate`, not inside `try`; a generator is consumed by exactly one
  `for` loop (it is not storable);
* exponents are literals in `0..64`; strings are printable ASCII.
-/
namespace AldorVerif.MiniAldor

abbrev TypeErr := String
abbrev TC := Except TypeErr

structure VarInfo where
  ty : Ty
  isMut : Bool
  depth : Nat
  loopVar : Bool := false     -- a `for` variable: immutable, but not usable inside a type
  deriving Repr, Inhabited

structure Ctx where
  vars : List (String × VarInfo) := []
  tops : List Top := []                 -- definitions visible here
  names : List String := []             -- every name introduced so far
  ret : Option Ty := none               -- inside a function: its result type
  inLoop : Bool := false
  inGen : Option Ty := none
  self : Option String := none          -- inside a domain or a category default: the category
  depth : Nat := 0
  frees : List String := []
  exns : List (String × String) := []   -- handler variable ↦ exception it is known to be
  lenient : Bool := false               -- also accept the forms the compiler is known to mishandle:
                                        -- `val()$E` in file-scope handlers, `return` inside `try`
  deriving Inhabited

def lookupVarInfo (vs : List (String × VarInfo)) (x : String) : Option VarInfo :=
  match vs with
  | [] => none
  | (y, i) :: r => if x = y then some i else lookupVarInfo r x

def lookupStr (l : List (String × String)) (x : String) : Option String :=
  match l with
  | [] => none
  | (y, i) :: r => if x = y then some i else lookupStr r x

def argTys : Ty → List Ty
  | .unit => []
  | .pair a b => [a, b]
  | t => [t]

def mkFnTy (ps : List Ty) (r : Ty) : Option Ty :=
  match ps with
  | [] => some (.fn .unit r)
  | [a] => some (.fn a r)
  | [a, b] => some (.fn (.pair a b) r)
  | _ => none

def tjoin (a b : Ty) : Option Ty :=
  if a = b then some a else if a = .exit then some b else if b = .exit then some a else none

def isLowerId (s : String) : Bool :=
  match s.toList with
  | c :: r => c.isLower && r.all (fun d => d.isAlphanum) && (match r.getLast? with | some d => d.isDigit | none => false)
  | [] => false

def isUpperId (s : String) : Bool :=
  match s.toList with
  | c :: r => c.isUpper && r.all (fun d => d.isAlphanum) && (match r.getLast? with | some d => d.isDigit | none => false)
  | [] => false

def printableStr (s : String) : Bool := s.toList.all (fun c => 32 ≤ c.toNat && c.toNat ≤ 126)

def findRec (tops : List Top) (n : String) : Option (List (String × Ty)) :=
  match tops with
  | [] => none
  | .recDef m fs :: r => if m = n then some fs else findRec r n
  | _ :: r => findRec r n

def findUni (tops : List Top) (n : String) : Option (List (String × Ty)) :=
  match tops with
  | [] => none
  | .uniDef m fs :: r => if m = n then some fs else findUni r n
  | _ :: r => findUni r n

def findExn (tops : List Top) (n : String) : Option (Option Ty) :=
  match tops with
  | [] => none
  | .exn m p :: r => if m = n then some p else findExn r n
  | _ :: r => findExn r n

def lookupField (fs : List (String × Ty)) (f : String) : Option Ty :=
  match fs with
  | [] => none
  | (g, t) :: r => if f = g then some t else lookupField r f

def findSig (ss : List MethSig) (m : String) : Option MethSig :=
  match ss with
  | [] => none
  | s :: r => if s.name = m then some s else findSig r m

def isScalar : Ty → Bool
  | .mi | .int | .bool | .str => true
  | _ => false

def isPrintable : Ty → Bool
  | .list t => isScalar t
  | .arr t => isScalar t
  | t => isScalar t

/-- types a variable, field, element, parameter may have -/
def storable (tops : List Top) : Ty → Bool
  | .mi | .int | .bool | .str => true
  | .list t => storable tops t
  | .arr t => storable tops t
  | .named n => (findRec tops n).isSome || (findUni tops n).isSome
  | .fn a r =>
      (match a with
       | .unit => true
       | .pair x y => storable tops x && storable tops y
       | t => storable tops t)
      && (r = .unit || storable tops r)
  | _ => false

/-- result types of named functions: storable, `()` or a generator -/
def resultTy (tops : List Top) : Ty → Bool
  | .unit => true
  | .gen t => storable tops t
  | t => storable tops t

def isIntTy (t : Ty) : Bool := t = .mi || t = .int

def binTy (op : BinOp) (a b : Ty) (rhs : Expr) : TC Ty :=
  match op with
  | .add | .sub | .mul | .quo | .rem | .mod | .max | .min =>
      if a = b ∧ isIntTy a then pure a else throw s!"operator on {repr a} and {repr b}"
  | .pow =>
      if isIntTy a ∧ b = .mi then
        match rhs with
        | .litMI k => if 0 ≤ k ∧ k ≤ 64 then pure a else throw "exponent out of 0..64"
        | _ => throw "exponent must be a literal"
      else throw "bad power"
  | .eq | .ne => if a = b ∧ isScalar a then pure .bool else throw "bad equality"
  | .lt | .le | .gt | .ge => if a = b ∧ isIntTy a then pure .bool else throw "bad comparison"
  | .and | .or => if a = .bool ∧ b = .bool then pure .bool else throw "bad connective"
  | .concat => if a = .str ∧ b = .str then pure .str else throw "bad concat"
  | .cons => if b = .list a then pure b else throw "bad cons"

def unTy (op : UnOp) (a : Ty) : TC Ty :=
  match op, a with
  | .neg, .mi | .abs, .mi => pure .mi
  | .neg, .int | .abs, .int => pure .int
  | .not, .bool => pure .bool
  | .len, .str | .len, .list _ | .len, .arr _ => pure .mi
  | .toInt, .mi => pure .int
  | .toMI, .int => pure .mi
  | .first, .list t => pure t
  | .rest, .list t => pure (.list t)
  | .isEmpty, .list _ => pure .bool
  | .reverse, .list t => pure (.list t)
  | _, _ => throw s!"bad operand for {repr op}"

def fresh (c : Ctx) (x : String) : TC Unit :=
  if (lookupVarInfo c.vars x).isSome ∨ x ∈ c.names then throw s!"name {x} introduced twice" else pure ()

def checkParams (c : Ctx) (ps : List (String × Ty)) : TC Unit :=
  match ps with
  | [] => pure ()
  | (x, t) :: r => do
      fresh c x
      if !isLowerId x then throw s!"bad identifier {x}"
      if r.any (fun q => q.1 = x) then throw s!"parameter {x} twice"
      if !storable c.tops t then throw s!"parameter type of {x}"
      checkParams c r

def checkFrees (c : Ctx) (fr : List String) : TC Unit :=
  match fr with
  | [] => pure ()
  | x :: r =>
      match lookupVarInfo c.vars x with
      | some i => if i.isMut then checkFrees c r else throw s!"free {x} is not assignable"
      | none => throw s!"free {x} unknown"

def fits (t res : Ty) : Bool := t = res || t = .exit || res = .unit

/-- may stand as the argument of a domain constructor: a literal or an immutable name -/
def constArg (c : Ctx) : Expr → Bool
  | .litMI _ | .litInt _ | .litBool _ | .litStr _ => true
  | .var x => match lookupVarInfo c.vars x with
    | some i => !i.isMut && !i.loopVar
    | none => false
  | _ => false

def enterFn (c : Ctx) (ps : List (String × Ty)) (res : Ty) (fr : List String) : Ctx :=
  { c with vars := ps.map (fun p => (p.1, ⟨p.2, false, c.depth + 1, false⟩)) ++ c.vars,
           ret := some res, inLoop := false, inGen := none, depth := c.depth + 1, frees := fr }

mutual

def tyOf (c : Ctx) : Expr → TC Ty
  | .litMI v => if fitsMI v then pure .mi else throw "machine-integer literal out of range"
  | .litInt _ => pure .int
  | .litBool _ => pure .bool
  | .litStr s => if printableStr s then pure .str else throw "string literal not printable ASCII"
  | .unitLit => pure .unit
  | .newline => throw "newline outside print"
  | .var x =>
    match lookupVarInfo c.vars x with
    | some i => pure i.ty
    | none => throw s!"unknown variable {x}"
  | .bin op a b => do
      let ta ← tyOf c a
      let tb ← tyOf c b
      binTy op ta tb b
  | .un op a => do
      let ta ← tyOf c a
      unTy op ta
  | .ite cnd t e => do
      let tc ← tyOf c cnd
      if tc ≠ .bool then throw "if condition"
      let tt ← tyOf c t
      let te ← tyOf c e
      match tjoin tt te with
      | some t => pure t
      | none => pure .unit
  | .seq ss => tySeq c false ss
  | .exit _ _ => throw "exit outside sequence"
  | .decl _ _ _ => throw "declaration not directly in a body"
  | .assign x e => do
      let te ← tyOf c e
      match lookupVarInfo c.vars x with
      | none => throw s!"assignment to unknown {x}"
      | some i =>
        if !i.isMut then throw s!"assignment to immutable {x}"
        else if i.ty ≠ te then throw s!"assignment type {x}"
        else if i.depth < c.depth ∧ x ∉ c.frees then throw s!"assignment to outer {x} without free"
        else pure te
  | .call f sig res args => do
      let ts ← tyOfL c args
      if ts ≠ sig then throw s!"arguments of {f}"
      match findFun c.tops f sig res with
      | some _ => pure res
      | none => throw s!"no function {f} with this signature"
  | .app f args => do
      let tf ← tyOf c f
      let ts ← tyOfL c args
      match tf with
      | .fn a r => if argTys a = ts then pure r else throw "closure arguments"
      | _ => throw "application of a non-function"
  | .lam ps res fr body => do
      checkParams c ps
      checkFrees c fr
      if !(res = .unit || storable c.tops res) then throw "closure result type"
      let c1 := enterFn c ps res fr
      let t ← match body with
        | .seq ss => tySeq c1 true ss
        | b => tyOf c1 b
      if !fits t res then throw "closure body type"
      match mkFnTy (ps.map (·.2)) res with
      | some t => pure t
      | none => throw "closure arity"
  | .mcall m _ => throw s!"unexpanded macro {m}"
  | .dcall dom darg meth res args => do
      let ts ← tyOfL c args
      let td ← tyOf c darg
      match findDom c.tops dom with
      | none => throw s!"unknown domain {dom}"
      | some di =>
        if td ≠ di.pty then throw "domain argument type"
        else if !constArg c darg then throw "domain argument must be a literal or an immutable name"
        else match findCat c.tops di.cat with
          | none => throw "unknown category"
          | some (sigs, _) =>
            match findSig sigs meth with
            | none => throw s!"no method {meth}"
            | some sg => if sg.args = ts ∧ sg.res = res then pure res else throw s!"method {meth} signature"
  | .selfcall meth res args => do
      let ts ← tyOfL c args
      match c.self with
      | none => throw "method call outside a domain"
      | some cat =>
        match findCat c.tops cat with
        | none => throw "unknown category"
        | some (sigs, _) =>
          match findSig sigs meth with
          | none => throw s!"no method {meth}"
          | some sg => if sg.args = ts ∧ sg.res = res then pure res else throw s!"method {meth} signature"
  | .listLit t es => do
      let ts ← tyOfL c es
      if !storable c.tops t then throw "list element type"
      if ts.all (· = t) then pure (.list t) else throw "list element"
  | .arrLit t es => do
      let ts ← tyOfL c es
      if !storable c.tops t then throw "array element type"
      if ts.all (· = t) then pure (.arr t) else throw "array element"
  | .arrNew t n v => do
      let tn ← tyOf c n
      let tv ← tyOf c v
      if !storable c.tops t then throw "array element type"
      if tn = .mi ∧ tv = t then pure (.arr t) else throw "array new"
  | .index a i => do
      let ta ← tyOf c a
      let ti ← tyOf c i
      if ti ≠ .mi then throw "index type"
      match ta with
      | .list t => pure t
      | .arr t => pure t
      | _ => throw "indexing a non-aggregate"
  | .setIdx a i v => do
      let ta ← tyOf c a
      let ti ← tyOf c i
      let tv ← tyOf c v
      if ti ≠ .mi then throw "index type"
      match ta with
      | .arr t => if tv = t then pure t else throw "array store type"
      | _ => throw "store into a non-array"
  | .recLit tn es => do
      let ts ← tyOfL c es
      match findRec c.tops tn with
      | some fs => if fs.map (·.2) = ts then pure (.named tn) else throw s!"record {tn} fields"
      | none => throw s!"unknown record {tn}"
  | .field r f => do
      let tr ← tyOf c r
      match tr with
      | .named tn =>
        match findRec c.tops tn with
        | some fs => match lookupField fs f with
          | some t => pure t
          | none => throw s!"no field {f}"
        | none => throw "field of a non-record"
      | _ => throw "field of a non-record"
  | .setField r f v => do
      let tr ← tyOf c r
      let tv ← tyOf c v
      match tr with
      | .named tn =>
        match findRec c.tops tn with
        | some fs => match lookupField fs f with
          | some t => if t = tv then pure t else throw s!"field {f} store type"
          | none => throw s!"no field {f}"
        | none =>
          match findUni c.tops tn with
          | some fs => match lookupField fs f with
            | some t => if t = tv then pure t else throw s!"branch {f} store type"
            | none => throw s!"no branch {f}"
          | none => throw "field of a non-record"
      | _ => throw "field of a non-record"
  | .uniLit tn tag e => do
      let te ← tyOf c e
      match findUni c.tops tn with
      | some fs => match lookupField fs tag with
        | some t => if t = te then pure (.named tn) else throw s!"union branch {tag} type"
        | none => throw s!"no branch {tag}"
      | none => throw s!"unknown union {tn}"
  | .ucase u tag => do
      let tu ← tyOf c u
      match tu with
      | .named tn =>
        match findUni c.tops tn with
        | some fs => if (lookupField fs tag).isSome then pure .bool else throw s!"no branch {tag}"
        | none => throw "case on a non-union"
      | _ => throw "case on a non-union"
  | .uget u tag => do
      let tu ← tyOf c u
      match tu with
      | .named tn =>
        match findUni c.tops tn with
        | some fs => match lookupField fs tag with
          | some t => pure t
          | none => throw s!"no branch {tag}"
        | none => throw "branch of a non-union"
      | _ => throw "branch of a non-union"
  | .while cnd body => do
      let tc ← tyOf c cnd
      if tc ≠ .bool then throw "while condition"
      let _ ← tyOf { c with inLoop := true } body
      pure .unit
  | .forRange x lo hi step body => do
      let tl ← tyOf c lo
      let th ← tyOf c hi
      if !(tl = th ∧ isIntTy tl) then throw "range bounds"
      if step = 0 then throw "zero step"
      fresh c x
      if !isLowerId x then throw s!"bad identifier {x}"
      let _ ← tyOf { c with inLoop := true, vars := (x, ⟨tl, false, c.depth, true⟩) :: c.vars } body
      pure .unit
  | .forIn x l body => do
      let tl ← tyOf c l
      fresh c x
      if !isLowerId x then throw s!"bad identifier {x}"
      match tl with
      | .list t | .arr t =>
        let _ ← tyOf { c with inLoop := true, vars := (x, ⟨t, false, c.depth, true⟩) :: c.vars } body
        pure .unit
      | _ => throw "for over a non-aggregate"
  | .forGen x g body => do
      let tg ← tyOf c g
      fresh c x
      if !isLowerId x then throw s!"bad identifier {x}"
      let direct := match g with
        | .call _ _ _ _ => true
        | .generate _ _ => true
        | _ => false
      if !direct then throw "generator must be a call or a generate expression"
      match tg with
      | .gen t =>
        let _ ← tyOf { c with inLoop := true, vars := (x, ⟨t, false, c.depth, true⟩) :: c.vars } body
        pure .unit
      | _ => throw "for over a non-generator"
  | .brk => if c.inLoop then pure .exit else throw "break outside loop"
  | .iter => if c.inLoop then pure .exit else throw "iterate outside loop"
  | .ret e => do
      let te ← tyOf c e
      match c.ret with
      | some r => if te = r then pure .exit else throw "return type"
      | none => throw "return outside function"
  | .generate t body => do
      if !storable c.tops t then throw "generator element type"
      let _ ← tyOf { c with inGen := some t, inLoop := false, ret := none } body
      pure (.gen t)
  | .yield e => do
      let te ← tyOf c e
      match c.inGen with
      | some t => if te = t then pure .unit else throw "yield type"
      | none => throw "yield outside generate"
  | .throw ex args => do
      let ts ← tyOfL c args
      match findExn c.tops ex with
      | none => throw s!"unknown exception {ex}"
      | some none => if ts = [] then pure .exit else throw "exception takes no argument"
      | some (some t) => if ts = [t] then pure .exit else throw "exception argument"
  | .tryCatch body ev handlers catchAll fin => do
      fresh c ev
      if !isUpperId ev then throw s!"bad handler identifier {ev}"
      let ci := { c with inLoop := false, inGen := none, ret := if c.lenient then c.ret else none }
      let tb ← tyOf ci body
      let th ← tyHandlers ci ev [] handlers
      let tca ← match catchAll with
        | some h => tyOf { ci with names := ev :: ci.names } h
        | none => pure Ty.exit
      match fin with
        | some f => let _ ← tyOf ci f; pure ()
        | none => pure ()
      match tjoin tb th with
      | none => throw "handler type"
      | some t1 => match tjoin t1 tca with
        | none => throw "catch-all type"
        | some t => pure t
  | .exnVal ev =>
    match lookupStr c.exns ev with
    | none => throw "exception value outside its handler"
    | some en =>
      if c.depth = 0 ∧ !c.lenient then throw "exception value in a file-scope handler"
      else match findExn c.tops en with
        | some (some t) => pure t
        | _ => throw "exception has no value"
  | .error msg => if printableStr msg ∧ msg ≠ "" then pure .exit else throw "error message"
  | .print es => do
      if es.isEmpty then throw "empty print"
      tyPrint c es
      pure .unit

def tyOfL (c : Ctx) : List Expr → TC (List Ty)
  | [] => pure []
  | e :: r => do
      let t ← tyOf c e
      let ts ← tyOfL c r
      pure (t :: ts)

def tyPrint (c : Ctx) : List Expr → TC Unit
  | [] => pure ()
  | .newline :: r => tyPrint c r
  | e :: r => do
      let t ← tyOf c e
      if !isPrintable t then throw "print of a non-printable type"
      tyPrint c r

/-- `body`: declarations allowed (a function body) -/
def tySeq (c : Ctx) (body : Bool) : List Expr → TC Ty
  | [] => throw "empty sequence"
  | [.exit _ _] => throw "sequence ends in an exit"
  | [.decl _ _ _] => throw "sequence ends in a declaration"
  | .decl x t e :: r => do
      if !body then throw "declaration not directly in a body"
      fresh c x
      if !isLowerId x then throw s!"bad identifier {x}"
      if !storable c.tops t then throw s!"type of {x}"
      let te ← tyOf c e
      if te ≠ t then throw s!"initial value of {x}"
      tySeq { c with vars := (x, ⟨t, true, c.depth, false⟩) :: c.vars } body r
  | .exit cnd v :: r => do
      let tc ← tyOf c cnd
      if tc ≠ .bool then throw "exit condition"
      let tv ← tyOf c v
      let tr ← tySeq c body r
      match tjoin tv tr with
      | some t => pure t
      | none => throw "exit value type"
  | [s] => tyOf c s
  | s :: r => do
      let _ ← tyOf c s
      tySeq c body r

def tyHandlers (c : Ctx) (ev : String) (seen : List String) : List (String × Expr) → TC Ty
  | [] => pure .exit
  | (en, h) :: r => do
      if en ∈ seen then throw s!"two handlers for {en}"
      if (findExn c.tops en).isNone then throw s!"unknown exception {en}"
      let th ← tyOf { c with exns := (ev, en) :: c.exns, names := ev :: c.names } h
      let tr ← tyHandlers c ev (en :: seen) r
      match tjoin th tr with
      | some t => pure t
      | none => throw "handler types differ"

end

/-! ### top-level forms -/

/-- the body of a function or method -/
def tyBody (c : Ctx) : Expr → TC Ty
  | .seq ss => tySeq c true ss
  | .generate t (.seq ss) => do
      if !storable c.tops t then throw "generator element type"
      let _ ← tySeq { c with inGen := some t, inLoop := false, ret := none } true ss
      pure (.gen t)
  | e => tyOf c e


def checkFunDef (c : Ctx) (d : FunDef) (self : Option String) (extra : List (String × VarInfo)) : TC Unit := do
  checkParams c d.params
  checkFrees c d.frees
  if !resultTy c.tops d.res then throw s!"result type of {d.name}"
  let c1 := enterFn { c with vars := extra ++ c.vars, self := self } d.params d.res d.frees
  let t ← tyBody c1 d.body
  if !fits t d.res then throw s!"body of {d.name} has the wrong type"

def checkFields (c : Ctx) (fs : List (String × Ty)) : TC Unit :=
  match fs with
  | [] => pure ()
  | (f, t) :: r => do
      fresh c f
      if !isLowerId f then throw s!"bad identifier {f}"
      if r.any (fun q => q.1 = f) then throw s!"field {f} twice"
      if !storable c.tops t then throw s!"field type of {f}"
      checkFields c r

def distinctTys : List Ty → Bool
  | [] => true
  | t :: r => !(r.contains t) && distinctTys r

def checkSigs (c : Ctx) (ss : List MethSig) : TC Unit :=
  match ss with
  | [] => pure ()
  | s :: r => do
      fresh c s.name
      if !isLowerId s.name then throw s!"bad identifier {s.name}"
      if r.any (fun q => q.name = s.name) then throw s!"method {s.name} twice"
      if !(s.args.all (storable c.tops)) then throw s!"method {s.name} argument type"
      if !(s.res = .unit || storable c.tops s.res) then throw s!"method {s.name} result type"
      checkSigs c r

def checkMethods (c : Ctx) (cat : String) (sigs : List MethSig) (extra : List (String × VarInfo))
    (seen : List String) : List FunDef → TC Unit
  | [] => pure ()
  | d :: r => do
      if d.name ∈ seen then throw s!"method {d.name} defined twice"
      match findSig sigs d.name with
      | none => throw s!"method {d.name} not in the category"
      | some sg =>
        if sg.args ≠ d.params.map (·.2) ∨ sg.res ≠ d.res then throw s!"method {d.name} signature"
        checkFunDef c d (some cat) extra
      checkMethods c cat sigs extra (d.name :: seen) r

def checkTops (c : Ctx) : List Top → TC Unit
  | [] => pure ()
  | .fn d :: r => do
      if !isLowerId d.name then throw s!"bad identifier {d.name}"
      if (lookupVarInfo c.vars d.name).isSome then throw s!"name {d.name} introduced twice"
      if d.name ∈ c.names ∧ countFuns c.tops d.name = 0 then throw s!"name {d.name} introduced twice"
      if (findFun c.tops d.name (d.params.map (·.2)) d.res).isSome then throw s!"{d.name} defined twice with one signature"
      if c.tops.any (fun t => match t with
          | .fn d' => d'.name = d.name ∧ d'.params.map (·.2) = d.params.map (·.2) ∧ (d'.res = .unit ∨ d.res = .unit)
          | _ => false) then throw s!"{d.name}: overloads differing only in a () result"
      let c1 := { c with tops := c.tops ++ [.fn d], names := d.name :: c.names }
      checkFunDef c1 d none []
      checkTops c1 r
  | .const x t e :: r => do
      fresh c x
      if !isLowerId x then throw s!"bad identifier {x}"
      if !storable c.tops t then throw s!"type of {x}"
      let te ← tyOf c e
      if te ≠ t then throw s!"value of constant {x}"
      checkTops { c with vars := (x, ⟨t, false, 0, false⟩) :: c.vars, tops := c.tops ++ [.const x t e] } r
  | .var x t e :: r => do
      fresh c x
      if !isLowerId x then throw s!"bad identifier {x}"
      if !storable c.tops t then throw s!"type of {x}"
      let te ← tyOf c e
      if te ≠ t then throw s!"initial value of {x}"
      checkTops { c with vars := (x, ⟨t, true, 0, false⟩) :: c.vars, tops := c.tops ++ [.var x t e] } r
  | .macro _ _ _ :: _ => throw "macro left after expansion"
  | .recDef n fs :: r => do
      fresh c n
      if !isUpperId n then throw s!"bad type identifier {n}"
      if fs.isEmpty then throw "empty record"
      checkFields c fs
      checkTops { c with tops := c.tops ++ [.recDef n fs], names := n :: fs.map (·.1) ++ c.names } r
  | .uniDef n fs :: r => do
      fresh c n
      if !isUpperId n then throw s!"bad type identifier {n}"
      if fs.isEmpty then throw "empty union"
      checkFields c fs
      checkTops { c with tops := c.tops ++ [.uniDef n fs], names := n :: fs.map (·.1) ++ c.names } r
  | .exn n p :: r => do
      fresh c n
      if !isUpperId n then throw s!"bad exception identifier {n}"
      match p with
        | some t => if !isScalar t then throw "exception payload type"
        | none => pure ()
      checkTops { c with tops := c.tops ++ [.exn n p], names := n :: c.names } r
  | .cat n sigs defaults :: r => do
      fresh c n
      if !isUpperId n then throw s!"bad category identifier {n}"
      if sigs.isEmpty then throw "empty category"
      checkSigs c sigs
      let c1 := { c with tops := c.tops ++ [.cat n sigs defaults], names := n :: sigs.map (·.name) ++ c.names }
      checkMethods c1 n sigs [] [] defaults
      checkTops c1 r
  | .dom n p pt cat ms :: r => do
      fresh c n
      if !isUpperId n then throw s!"bad domain identifier {n}"
      fresh c p
      if !isLowerId p then throw s!"bad identifier {p}"
      if !(pt = .mi ∨ pt = .int) then throw "domain parameter type"
      match findCat c.tops cat with
      | none => throw s!"unknown category {cat}"
      | some (sigs, defaults) =>
        if !(sigs.all (fun s => (findMeth ms s.name).isSome ∨ (findMeth defaults s.name).isSome)) then
          throw s!"domain {n} lacks a method"
        let c1 := { c with tops := c.tops ++ [.dom n p pt cat ms], names := n :: p :: c.names }
        checkMethods c1 cat sigs [(p, ⟨pt, false, 0, false⟩)] [] ms
        checkTops c1 r
  | .stmt e :: r => do
      let _ ← tyOf c e
      checkTops c r

/-- the named functions of a program -/
def funDefs : List Top → List FunDef
  | [] => []
  | .fn d :: r => d :: funDefs r
  | _ :: r => funDefs r

def sameSig (d e : FunDef) : Bool :=
  d.name = e.name && d.params.map (·.2) = e.params.map (·.2) && d.res = e.res

/-- no two named functions share name, argument types and result type -/
def sigsDistinct : List FunDef → Bool
  | [] => true
  | d :: r => !(r.any (sameSig d)) && sigsDistinct r

/-- the decidable checker; works on the macro-free program -/
def typecheckWith (lenient : Bool) (p : Prog) : TC Unit := do
  checkTops { lenient := lenient } (expand p).tops
  if !sigsDistinct (funDefs (expand p).tops) then throw "two functions with one signature"

def typecheck (p : Prog) : TC Unit := typecheckWith false p

end AldorVerif.MiniAldor
