/-
Model of aldor/aldor/src/xfloat.c (portable extended floating-point format of object files),
of the bit-field helpers `bfShiftUp`, `bfShiftDn`, `bfFirst1` of util.c, of
`bufWrSFloat/bufRdSFloat/bufWrDFloat/bufRdDFloat` of buffer.c and of
`fiSFloDissemble/fiSFloAssemble/fiDFloDissemble/fiDFloAssemble/fiArrToSFlo/fiArrToDFlo` of foam_c.c
(hand model, tied by correspondence: harness/xfloat_drv.c).

Bytes are `BitVec 8`; a C `UByte[]` is a `List Byte`; C `int` temporaries are `Nat`/`Int`
(no `int` computation of the modelled code can overflow for bytes < 256 and the exponent ranges
in use).  A native `float`/`double` is seen through the macros `SF_UByte(p,i)` / `DF_UByte(p,i)`,
which hide the host byte order (`TixPart`): index 0 is the most significant byte.  So the native
value with bit pattern `b` is the byte string `beBytes 4 b.toNat` (resp. `beBytes 8`), and
`SF_UShort(p,0)` is `256 * byte 0 + byte 1`.  The C text exists four times (SF, DF, XSF, XDF) with
only the macro prefix changed; the model has one copy parametrised by the format constants `Fmt`,
whose values for this build the C driver prints on the request `consts` (compared by the check).
-/
namespace AldorVerif.XFloat

abbrev Byte := BitVec 8

def CHAR_BIT : Nat := 8

/-- big-endian value of a byte string (byte 0 is the most significant) -/
def beVal : List Byte → Nat
  | [] => 0
  | b :: bs => b.toNat * 256 ^ bs.length + beVal bs

/-- the `n` low-order bytes of `v`, most significant first -/
def beBytes : Nat → Nat → List Byte
  | 0, _ => []
  | n + 1, v => BitVec.ofNat 8 (v / 256 ^ n) :: beBytes n v

/-! ## util.c: bit-fiddling -/

/-- last loop of `bfShiftUp`, `for (i = nb-1; i >= 0; i--) { b = bv[i]; br[i] = (b << xbit) | ov;
ov = b >> (CHAR_BIT - xbit); }`: the new bytes and the final `ov`. -/
def shiftUpBits (xbit : Nat) (BF : Nat) : List Byte → List Byte × Nat
  | [] => ([], BF)
  | b :: bs =>
    let p := shiftUpBits xbit BF bs
    (BitVec.ofNat 8 ((b.toNat <<< xbit) ||| p.2) :: p.1, b.toNat >>> (CHAR_BIT - xbit))

/-- `bfShiftUp(nb, br, nsh, bv, bF)`.  `aliased` says whether `br == bv`: the last loop reads
`bv[i]`, which holds the byte-moved data only when the shift is done in place. -/
def bfShiftUp (nb : Nat) (bv : List Byte) (nsh : Nat) (bF : Bool) (aliased : Bool := true) : List Byte :=
  let BF : Nat := if bF then (1 <<< CHAR_BIT) - 1 else 0
  let xbyte := nsh / CHAR_BIT
  let xbit := nsh % CHAR_BIT
  -- for (i = 0; i < nb - xbyte; i++) br[i] = bv[i + xbyte];  for ( ; i < nb; i++) br[i] = BF;
  let br1 := (bv.drop xbyte).take (nb - xbyte) ++ List.replicate (min xbyte nb) (BitVec.ofNat 8 BF)
  let src := if aliased then br1 else bv.take nb
  (shiftUpBits xbit BF src).1

/-- last loop of `bfShiftDn`, `for (i = 0; i < nb; i++) { b = bv[i];
br[i] = (b >> xbit) | (ov & ((1 << CHAR_BIT) - 1)); ov = b << (CHAR_BIT - xbit); }`. -/
def shiftDnBits (xbit : Nat) : Nat → List Byte → List Byte
  | _, [] => []
  | ov, b :: bs =>
    BitVec.ofNat 8 ((b.toNat >>> xbit) ||| (ov &&& ((1 <<< CHAR_BIT) - 1)))
      :: shiftDnBits xbit (b.toNat <<< (CHAR_BIT - xbit)) bs

/-- `bfShiftDn(nb, br, nsh, bv, b0, b1)`; `aliased` as for `bfShiftUp`. -/
def bfShiftDn (nb : Nat) (bv : List Byte) (nsh : Nat) (b0 b1 : Bool) (aliased : Bool := true) : List Byte :=
  let B0 : Nat := if b0 then (1 <<< CHAR_BIT) - 1 else 0
  let B1 : Nat := if b1 then B0 ||| 1 else B0 &&& 254       -- B0 & ~1
  let xbyte := nsh / CHAR_BIT
  let xbit := nsh % CHAR_BIT
  -- for (i = nb-1; i >= xbyte; i--) br[i] = bv[i - xbyte];
  -- for (i = 0; i < xbyte && i < nb; i++) br[i] = (i == xbyte-1) ? B1 : B0;
  let fill := (List.range (min xbyte nb)).map fun i => BitVec.ofNat 8 (if i + 1 = xbyte then B1 else B0)
  let br1 := fill ++ bv.take (nb - xbyte)
  let src := if aliased then br1 else bv.take nb
  shiftDnBits xbit ((if xbyte = 0 then B1 else B0) <<< (CHAR_BIT - xbit)) src

/-- `for (xbyte = 0; xbyte < nb; xbyte++) if (bv[xbyte]) break;` -/
def first1Byte : List Byte → Nat
  | [] => 0
  | b :: bs => if b ≠ 0 then 0 else first1Byte bs + 1

/-- `for (xbit = …; xbit < CHAR_BIT; xbit++) if (b & (1 << (CHAR_BIT - xbit - 1))) break;`
(`fuel` = iterations left). -/
def first1Bit (b : Byte) : Nat → Nat → Nat
  | 0, xbit => xbit
  | fuel + 1, xbit =>
    if b.toNat &&& (1 <<< (CHAR_BIT - xbit - 1)) ≠ 0 then xbit else first1Bit b fuel (xbit + 1)

/-- `bfFirst1(nb, bv)`: index of the first 1 bit counting from the most significant bit of
`bv[0]`, or -1. -/
def bfFirst1 (nb : Nat) (bv : List Byte) : Int :=
  let bv := bv.take nb
  let xbyte := first1Byte bv
  if xbyte = bv.length then -1
  else ((xbyte * CHAR_BIT + first1Bit (bv.getD xbyte 0) CHAR_BIT 0 : Nat) : Int)

/-! ## format parameters (cport.h `SF_*`, `DF_*`; xfloat.h `XSF_*`, `XDF_*`; macros of xfloat.c) -/

structure Fmt where
  size : Nat          -- `sizeof` the native type / the struct XSFloat, XDFloat
  hasNANs : Bool
  hasNorm1 : Bool
  lgLgBase : Nat
  excess : Nat
  fracOff : Nat
  deriving Repr, DecidableEq

def USHORT_BIT : Nat := 16

namespace Fmt
def fracShift (F : Fmt) : Nat := USHORT_BIT - F.fracOff
def fracIx0 (F : Fmt) : Nat := F.fracOff / CHAR_BIT
def fracSh0 (F : Fmt) : Nat := F.fracOff % CHAR_BIT
def signMask (_ : Fmt) : Nat := 1 <<< (USHORT_BIT - 1)
def fracMask (F : Fmt) : Nat := (1 <<< F.fracShift) - 1
/-- `((1<<USHORT_BIT)-1) &~SignMask &~FracMask` -/
def exponMask (F : Fmt) : Nat :=
  ((1 <<< USHORT_BIT) - 1) &&& (((1 <<< USHORT_BIT) - 1) ^^^ F.signMask) &&& (((1 <<< USHORT_BIT) - 1) ^^^ F.fracMask)
def exponMin (F : Fmt) : Int := -(F.excess : Int)
def exponNAN (F : Fmt) : Int := ((F.exponMask >>> F.fracShift : Nat) : Int) - (F.excess : Int)
def lgBase (F : Fmt) : Nat := 1 <<< F.lgLgBase
end Fmt

/-- IEEE single, `float` (this build: not `CC_SF_is_double`, IEEE, little-endian host) -/
def SF : Fmt := { size := 4, hasNANs := true, hasNorm1 := true, lgLgBase := 0, excess := 0x7f, fracOff := 9 }
def DF : Fmt := { size := 8, hasNANs := true, hasNorm1 := true, lgLgBase := 0, excess := 0x3ff, fracOff := 12 }
def XSF : Fmt := { size := 6, hasNANs := true, hasNorm1 := true, lgLgBase := 0, excess := 0x3ffe, fracOff := 16 }
def XDF : Fmt := { size := 10, hasNANs := true, hasNorm1 := true, lgLgBase := 0, excess := 0x3ffe, fracOff := 16 }

inductive FloatCase | norm | denorm | zero | nan | inf
  deriving Repr, DecidableEq

/-- `x & mask` for a C `int` `x` (two's complement) and a mask below 2^16. -/
def intAnd16 (x : Int) (mask : Nat) : Nat := (x % 65536).toNat &&& mask

/-- `SF_UShort(p, int0)` -/
def ushort0 (x : List Byte) : Nat := ((x.getD 0 0).toNat <<< CHAR_BIT) ||| (x.getD 1 0).toNat

/-- `UNBYTE2(X_UByte(p,1), X_UByte(p,0))` -/
def unbyte2 (x : List Byte) : Nat := ((x.getD 1 0).toNat &&& 255) ||| (((x.getD 0 0).toNat &&& 255) <<< 8)

/-! ## classification -/

/-- `sfClassify` / `dfClassify` -/
def natClassify (F : Fmt) (x : List Byte) : FloatCase :=
  let expbits := ushort0 x &&& F.exponMask
  -- for (i = 0; i < sizeof - FracIx0; i++) if (UByte(p, FracIx0 + i) & (i ? ~0 : FracMask)) hasFrac = true
  let hasFrac := (List.range (F.size - F.fracIx0)).any fun i =>
    ((x.getD (F.fracIx0 + i) 0).toNat &&& (if i ≠ 0 then 255 else F.fracMask)) ≠ 0
  if expbits = 0 then (if hasFrac then .denorm else .zero)
  else if expbits = F.exponMask ∧ F.hasNANs then (if hasFrac then .nan else .inf)
  else .norm

/-- `xsfClassify` / `xdfClassify` -/
def xClassify (X : Fmt) (x : List Byte) : FloatCase :=
  let expbits := unbyte2 x &&& X.exponMask
  let hasFrac := (List.range (X.size - X.fracIx0)).any fun i => x.getD (X.fracIx0 + i) 0 ≠ 0
  if expbits = 0 then (if hasFrac then .denorm else .zero)
  else if expbits = X.exponMask ∧ X.hasNANs then (if hasFrac then .nan else .inf)
  else .norm

/-! ## dissemble -/

/-- `*iszero = *psf == 0.0`: a floating-point comparison, true exactly of +0 and -0. -/
def natIsZero (F : Fmt) (x : List Byte) : Bool := decide (beVal x % 2 ^ (8 * F.size - 1) = 0)

/-- `sfDissemble` / `dfDissemble`: sign, exponent, fraction bytes (`sizeof` of them). -/
def natDissemble (F : Fmt) (x : List Byte) : Bool × Int × List Byte :=
  let us := ushort0 x
  let sign := decide (us &&& F.signMask ≠ 0)
  let expo : Int := (((us &&& F.exponMask) >>> F.fracShift : Nat) : Int) - (F.excess : Int)
  -- for (i = 0; i < sizeof - FracIx0; i++) pf[i] = UByte(p, FracIx0 + i);  for ( ; i < sizeof; i++) pf[i] = 0;
  let pf := (x.drop F.fracIx0).take (F.size - F.fracIx0) ++ List.replicate (min F.fracIx0 F.size) (0 : Byte)
  (sign, expo, bfShiftUp F.size pf F.fracSh0 false)

/-- `xsfDissemble` / `xdfDissemble` (the exponent is not shifted: `XSF_FracShift` is 0). -/
def xDissemble (X : Fmt) (x : List Byte) : Bool × Int × List Byte :=
  let w0 := unbyte2 x
  let sign := decide (w0 &&& X.signMask ≠ 0)
  let expo : Int := ((w0 &&& X.exponMask : Nat) : Int) - (X.excess : Int)
  (sign, expo, (x.drop X.fracIx0).take (X.size - X.fracIx0))

/-! ## assemble -/

/-- `sfAssemble` / `dfAssemble`.  The result object is uninitialised in every caller; with
`FracIx0 = 1` each of its bytes is stored to, the model starts from zero bytes. -/
def natAssemble (F : Fmt) (sign : Bool) (expo : Int) (frac : List Byte) : List Byte :=
  let us : Nat := (if sign then F.signMask else 0)
                  ||| intAnd16 ((expo + (F.excess : Int)) * (2 ^ F.fracShift : Nat)) F.exponMask
  let p := (List.replicate F.size (0 : Byte)).set 0 (BitVec.ofNat 8 ((us >>> CHAR_BIT) &&& 0xff))
  let p := p.set 1 (BitVec.ofNat 8 (us &&& 0xff))
  let pb := bfShiftDn F.size frac F.fracSh0 false false (aliased := false)
  -- for (i = 0; i < 1; i++) UByte(p, FracIx0 + i) |= pb[i];
  let p := p.set F.fracIx0 (p.getD F.fracIx0 0 ||| pb.getD 0 0)
  -- for ( ; i < sizeof - FracIx0; i++) UByte(p, FracIx0 + i) = pb[i];
  (List.range' 1 (F.size - F.fracIx0 - 1)).foldl (fun p i => p.set (F.fracIx0 + i) (pb.getD i 0)) p

/-- `xsfAssemble` / `xdfAssemble` -/
def xAssemble (X : Fmt) (sign : Bool) (expo : Int) (frac : List Byte) : List Byte :=
  let w0 : Nat := (if sign then X.signMask else 0) ||| intAnd16 (expo + (X.excess : Int)) X.exponMask
  let p := (List.replicate X.size (0 : Byte)).set 0 (BitVec.ofNat 8 ((w0 >>> 8) &&& 255))
  let p := p.set 1 (BitVec.ofNat 8 (w0 &&& 255))
  (List.range (X.size - X.fracIx0)).foldl (fun p i => p.set (X.fracIx0 + i) (frac.getD i 0)) p

/-! ## fracNormalize, fracDenormalize -/

def fracNormalize (expo : Int) (nb : Nat) (frac : List Byte) : Int × List Byte :=
  let ix1 := bfFirst1 nb frac
  if ix1 = -1 then (expo, frac)
  else (expo - (ix1 + 1), bfShiftUp nb frac (ix1 + 1).toNat false)

def fracDenormalize (expo expmin : Int) (nb : Nat) (frac : List Byte) (lglgBase : Nat) (hasNorm1 : Bool) :
    Int × List Byte :=
  if expo > expmin then (expo, frac)
  else
    let ix1 := expmin - expo
    (expo + ix1, bfShiftDn nb frac (ix1.toNat <<< lglgBase) false hasNorm1)

/-- `ROUND_UP(n,d)` of util.h (C `%` truncates) -/
def roundUp (n d : Int) : Int := if n.tmod d ≠ 0 then n + d - n.tmod d else n
/-- `ROUND_UP0(exp, lgB)` of xfloat.c -/
def roundUp0 (e lgB : Int) : Int := if e > 0 then roundUp e lgB else -(roundUp (-e) lgB - lgB)

/-! ## native → portable, portable → native -/

def hasFracOf (pb : List Byte) : Bool := pb.any (· ≠ 0)

/-- `xsfFrNative` / `xdfFrNative`; second component: the branch taken (the C debug marks). -/
def xFrNative (X N : Fmt) (x : List Byte) : List Byte × String :=
  let pbTot := X.size - X.fracIx0
  -- `pb` is cleared, then `sfDissemble` stores `sizeof(native)` bytes into it
  let d := natDissemble N x
  let sign := d.1
  let expon := d.2.1
  let pb := d.2.2 ++ List.replicate (pbTot - N.size) (0 : Byte)
  let hasFrac := hasFracOf (pb.take pbTot)
  if N.hasNANs ∧ expon = N.exponNAN then (xAssemble X sign X.exponNAN pb, "A")
  else if expon = N.exponMin ∧ ¬ hasFrac then (xAssemble X sign X.exponMin pb, "E")
  else if expon = N.exponMin ∧ hasFrac then
    let r := fracNormalize (expon * N.lgBase) pbTot pb
    (xAssemble X sign r.1 r.2, "B")
  else
    let expon := expon * N.lgBase
    if X.hasNorm1 ∧ ¬ N.hasNorm1 then
      if hasFrac then
        let r := fracNormalize expon pbTot pb
        (xAssemble X sign r.1 r.2, "DnC")
      else (xAssemble X sign X.exponMin pb, "Z")
    else (xAssemble X sign expon pb, "C")

/-- `xsfToNative` / `xdfToNative` -/
def xToNative (X N : Fmt) (x : List Byte) : List Byte × String :=
  let pbTot := X.size - X.fracIx0
  let d := xDissemble X x
  let sign := d.1
  let expon := d.2.1
  let pb := d.2.2
  let hasFrac := hasFracOf (pb.take pbTot)
  if expon = X.exponNAN then
    -- if (!hasNANs) for (i = 0; i < sizeof(SFloat); i++) pb[i] = 0xff;
    let pb := if ¬ N.hasNANs then List.replicate N.size (0xff : Byte) ++ pb.drop N.size else pb
    (natAssemble N sign N.exponNAN pb, "A")
  else if expon >>> N.lgLgBase ≥ N.exponNAN then
    let fillMask : Byte := if N.hasNANs then 0x00 else 0xff
    (natAssemble N sign N.exponNAN (List.replicate pbTot fillMask), "B")
  else if expon = X.exponMin ∧ ¬ hasFrac then (natAssemble N sign N.exponMin pb, "E")
  else
    let s1 : Int × List Byte :=
      if X.hasNorm1 ∧ ¬ N.hasNorm1 then (expon + 1, bfShiftDn pbTot pb 1 false true) else (expon, pb)
    let s2 : Int × List Byte :=
      if s1.1.tmod N.lgBase ≠ 0 then
        let p := roundUp0 s1.1 N.lgBase
        (p, bfShiftDn pbTot s1.2 (-s1.1 + p).toNat false false)
      else s1
    let expon := s2.1 >>> N.lgLgBase
    let pb := s2.2
    if expon ≤ N.exponMin then
      let r := fracDenormalize expon N.exponMin N.size pb N.lgLgBase N.hasNorm1
      let b := hasFracOf (r.2.take pbTot)
      let expon := if hasFrac ∧ ¬ b then N.exponMin else r.1
      (natAssemble N sign expon r.2, "C")
    else (natAssemble N sign expon pb, "D")

/-! ## the instances on bit patterns -/

/-- the bytes of a `float` as `SF_UByte` indexes them -/
def sfBytes (b : BitVec 32) : List Byte := beBytes 4 b.toNat
def sfOfBytes (l : List Byte) : BitVec 32 := BitVec.ofNat 32 (beVal l)
def dfBytes (b : BitVec 64) : List Byte := beBytes 8 b.toNat
def dfOfBytes (l : List Byte) : BitVec 64 := BitVec.ofNat 64 (beVal l)

def sfClassify (b : BitVec 32) : FloatCase := natClassify SF (sfBytes b)
def dfClassify (b : BitVec 64) : FloatCase := natClassify DF (dfBytes b)
def xsfClassify (x : List Byte) : FloatCase := xClassify XSF x
def xdfClassify (x : List Byte) : FloatCase := xClassify XDF x

def sfDissemble (b : BitVec 32) : Bool × Int × List Byte := natDissemble SF (sfBytes b)
def dfDissemble (b : BitVec 64) : Bool × Int × List Byte := natDissemble DF (dfBytes b)
def sfAssemble (sign : Bool) (expo : Int) (frac : List Byte) : BitVec 32 := sfOfBytes (natAssemble SF sign expo frac)
def dfAssemble (sign : Bool) (expo : Int) (frac : List Byte) : BitVec 64 := dfOfBytes (natAssemble DF sign expo frac)
def xsfDissemble (x : List Byte) := xDissemble XSF x
def xdfDissemble (x : List Byte) := xDissemble XDF x
def xsfAssemble (sign : Bool) (expo : Int) (frac : List Byte) := xAssemble XSF sign expo frac
def xdfAssemble (sign : Bool) (expo : Int) (frac : List Byte) := xAssemble XDF sign expo frac

def xsfFrNative (b : BitVec 32) : List Byte := (xFrNative XSF SF (sfBytes b)).1
def xsfToNative (x : List Byte) : BitVec 32 := sfOfBytes (xToNative XSF SF x).1
def xdfFrNative (b : BitVec 64) : List Byte := (xFrNative XDF DF (dfBytes b)).1
def xdfToNative (x : List Byte) : BitVec 64 := dfOfBytes (xToNative XDF DF x).1

/-- IEEE "is a NaN" on bit patterns (what the python oracle and the C sweep test) -/
def sfIsNaN (b : BitVec 32) : Prop := b.toNat / 2 ^ 23 % 256 = 255 ∧ b.toNat % 2 ^ 23 ≠ 0
def dfIsNaN (b : BitVec 64) : Prop := b.toNat / 2 ^ 52 % 2048 = 2047 ∧ b.toNat % 2 ^ 52 ≠ 0
instance (b : BitVec 32) : Decidable (sfIsNaN b) := by unfold sfIsNaN; infer_instance
instance (b : BitVec 64) : Decidable (dfIsNaN b) := by unfold dfIsNaN; infer_instance

/-! ## foam_c.c: `fiSFloDissemble`, `fiSFloAssemble`, `fiDFloDissemble`, `fiDFloAssemble`

A `FiWord` (8 bytes here) in memory on this little-endian host: lowest address = least
significant byte. -/

def wordBytes (w : BitVec 64) : List Byte := (beBytes 8 w.toNat).reverse
def wordOfBytes (l : List Byte) : BitVec 64 := BitVec.ofNat 64 (beVal l.reverse)

/-- `fiSFloDissemble(sf, &sign, &expon, &sig0)`: `sfDissemble` stores `sizeof(float)` bytes at the
address of `*psig0`; the remaining bytes of the word keep what they held (`old`). -/
def fiSFloDissemble (sf : BitVec 32) (old : BitVec 64) : Bool × Int × BitVec 64 :=
  let d := sfDissemble sf
  (d.1, d.2.1, wordOfBytes (d.2.2 ++ (wordBytes old).drop d.2.2.length))

/-- `fiSFloAssemble(sign, exponent, sig0)`: `sfAssemble` reads the bytes at `&sig0`. -/
def fiSFloAssemble (sign : Bool) (expo : Int) (sig0 : BitVec 64) : BitVec 32 :=
  sfAssemble sign expo (wordBytes sig0)

/-- `fiDFloDissemble`: `FiWord fracb[2]`, `dfDissemble` stores 8 bytes = `fracb[0]`; `fracb[1]`
is never written (`junk`: what the stack held) and is returned as `*psig1`. -/
def fiDFloDissemble (df : BitVec 64) (junk : BitVec 64) : Bool × Int × BitVec 64 × BitVec 64 :=
  let d := dfDissemble df
  let mem := d.2.2 ++ (wordBytes 0 ++ wordBytes junk).drop d.2.2.length
  (d.1, d.2.1, wordOfBytes (mem.take 8), wordOfBytes ((mem.drop 8).take 8))

def fiDFloAssemble (sign : Bool) (expo : Int) (sig0 sig1 : BitVec 64) : BitVec 64 :=
  dfAssemble sign expo (wordBytes sig0 ++ wordBytes sig1)

/-! ## buffer.c: `bufWrSFloat`, `bufRdSFloat`, `bufWrDFloat`, `bufRdDFloat` -/

structure Buf where
  data : List Byte      -- argv[0 .. high-water mark)
  pos : Nat
  deriving Repr

def bufNew : Buf := ⟨[], 0⟩
def bufStart (b : Buf) : Buf := { b with pos := 0 }
/-- `bufAddn`: `memmove(b->argv + b->pos, s, n); b->pos += n` -/
def bufAddn (b : Buf) (s : List Byte) : Buf :=
  ⟨b.data.take b.pos ++ s ++ b.data.drop (b.pos + s.length), b.pos + s.length⟩
/-- `bufGetn`: pointer to the next `n` bytes, `b->pos += n` -/
def bufGetn (b : Buf) (n : Nat) : List Byte × Buf := ((b.data.drop b.pos).take n, { b with pos := b.pos + n })

def XSFLOAT_BYTES : Nat := 6
def XDFLOAT_BYTES : Nat := 10

def bufWrSFloat (b : Buf) (s : BitVec 32) : Buf := bufAddn b ((xsfFrNative s).take XSFLOAT_BYTES)
def bufWrDFloat (b : Buf) (d : BitVec 64) : Buf := bufAddn b ((xdfFrNative d).take XDFLOAT_BYTES)
def bufRdSFloat (b : Buf) : BitVec 32 × Buf := let r := bufGetn b XSFLOAT_BYTES; (xsfToNative r.1, r.2)
def bufRdDFloat (b : Buf) : BitVec 64 × Buf := let r := bufGetn b XDFLOAT_BYTES; (xdfToNative r.1, r.2)

/-! ## decimal literals: of_cfold.c (`FOAM_BVal_ArrToSFlo`, `FOAM_BVal_ArrToDFlo`) and
foam_c.c (`fiArrToSFlo`, `fiArrToDFlo`)

Both sites call the C library's `atof` on the characters of the literal and convert the
`double` to the target type by a C cast.  `atof` and the cast are parameters of the model.
A FOAM character array (`gen0CharArray`) holds the characters of the literal in `eltv`;
`foamArgc` is their number plus one (the base-type slot). -/

section literals
variable {D S : Type} (atof : List Nat → D) (castS : D → S)

/-- what a C function taking a `char *` sees of a buffer: the bytes before the first NUL -/
def cString (buf : List Nat) : List Nat := buf.takeWhile (· ≠ 0)

/-- `cfoldArrToString`: `strAlloc(argc)`, copies the `argc - 1` elements, stores NUL after them -/
def cfoldArrToString (eltv : List Nat) : List Nat := eltv ++ [0]
/-- the array as the back ends materialise it for the runtime: genc.c emits
`foamArrToString(foam)` (the same copy loop) as a C string literal, i.e. the characters and a NUL -/
def rtArray (eltv : List Nat) : List Nat := eltv ++ [0]

/-- of_cfold.c: `s = cfoldArrToString(argv[0]); foam = foamNewSFlo((SFloat) atof(s));` -/
def cfoldArrToSFlo (eltv : List Nat) : S := castS (atof (cString (cfoldArrToString eltv)))
/-- of_cfold.c: `foam = foamNewDFlo(atof(s));` -/
def cfoldArrToDFlo (eltv : List Nat) : D := atof (cString (cfoldArrToString eltv))
/-- foam_c.c: `return (FiSFlo) atof((String) s);` on the array in memory -/
def fiArrToSFlo (mem : List Nat) : S := castS (atof (cString mem))
/-- foam_c.c: `return (FiDFlo) atof((String) s);` -/
def fiArrToDFlo (mem : List Nat) : D := atof (cString mem)
end literals

end AldorVerif.XFloat
