/-
Decision model of "no back end after errors" (axlcomp.c, emit.c), used by property C06.

Modelled, statement by statement:
* `emitDoneOptions` (emit.c): `emitNeed[]` / `emitKeep[]` from the `-F` selections `emitDo[]`
  (source-file compilation; the `-Ginterp file.ao` special case is left out);
* `compIsMoreAfterSyntax` = `compIsMoreAfterFront` (axlcomp.c): the gate in front of
  `compFileMiddle; compFileSave; compFileBack` in `compSourceFile`;
* `compPhaseSave`, `compFileBack`: each output is written under `emitIsOutputNeededOrWarn`;
* the link stage of `compFilesLoop` (`totErrors == 0`);
* the per-file decision of `emitCleanup` (run by `compExitHandler` on `EXIT_FAILURE`).
`errs` is `comsgErrorCount()` at the time `compFileFront` returns.
-/
namespace AldorVerif.EmitGate

inductive FType where
  | included | absyn | oldabsyn | intermed | foamexpr | symeexpr | annabs
  | lisp | c | java | cpp | object | exec | axlmainc
deriving DecidableEq, Repr

/-- the outputs written by `compPhaseSave` and `compFileBack` -/
def backEnd : List FType := [.symeexpr, .intermed, .foamexpr, .lisp, .java, .c, .object]

structure Opts where
  emitDo : FType → Bool
  run    : Bool := false     -- `-Grun`
  interp : Bool := false     -- `-Ginterp`

/-- `emitDoneOptions`: `emitNeed[ft]` -/
def need (o : Opts) (ft : FType) : Bool :=
  let d := o.emitDo
  let dflt := !(d .included || d .cpp || d .absyn || d .oldabsyn || d .foamexpr || d .symeexpr ||
                d .lisp || d .c || d .object || d .exec || d .axlmainc || d .java ||
                o.run || o.interp)
  match ft with
  | .intermed => d .intermed || dflt || o.interp
  | .c        => d .c || d .object || d .exec || o.run
  | .object   => d .object || d .exec || o.run
  | .axlmainc => d .axlmainc || d .exec || o.run
  | .exec     => d .exec || o.run
  | ft        => d ft

/-- `compIsMoreAfterSyntax` (`fintMode == FINT_LOOP` is `loop`) -/
def moreAfterSyntax (errs : Nat) (loop : Bool) (o : Opts) : Bool :=
  if errs != 0 then false
  else if loop then true
  else need o .intermed || need o .foamexpr || need o .symeexpr || need o .c || need o .cpp ||
       need o .lisp || need o .java || need o .exec

/-- `compSourceFile`: is the back-end output `ft` of a source file written? -/
def emitted (errs : Nat) (o : Opts) (ft : FType) : Bool :=
  backEnd.contains ft && moreAfterSyntax errs false o && need o ft

/-- `compFilesLoop`: the link/run stage runs only when no file had an error -/
def linkStage (totErrors : Nat) (fileCount : Nat) : Bool := fileCount > 0 && totErrors == 0

/-- the executable is produced -/
def linked (totErrors fileCount : Nat) (o : Opts) : Bool :=
  linkStage totErrors fileCount && need o .exec

inductive Cleanup where
  | leave | remove | rename
deriving DecidableEq, Repr

/-- body of the inner loop of `emitCleanup` for one file type of one input file:
`hasName` = a file name was computed for it, `inUse` = it was being written,
`there` = the (temporary) file exists. -/
def cleanup (hasName needed inUse there keep : Bool) : Cleanup :=
  if !hasName || !needed then .leave
  else if inUse && there then .remove
  else if there then (if !keep then .remove else .rename)
  else .leave

/-- for the driver: which of the requested back-end outputs exist after the run -/
def outputs (errs : Nat) (o : Opts) (fts : List FType) : List Bool := fts.map (emitted errs o)

end AldorVerif.EmitGate
