/-
Model of aldor/aldor/src/bigint.c, the big-integer part of foam_i.c and the double-word
remainder of dword.c (hand model, tied by correspondence: harness/bigint_drv.c).

Configuration modelled: the x86-64 build.  `BIntS` = `unsigned int` (32 bit digits, radix
`2^32`), `IInt` = `long` (64 bit), immediates are the longs `n` with
`INT_MIN_IMMED = -(2^62-1) ≤ n ≤ INT_MAX_IMMED = 2^62-1`, encoded `(n<<1)|1` in the pointer.
The driver's `consts` request prints the same constants from the C side so that a change of
configuration is detected by the correspondence check.

A `BInt` is either `imm v` (the immediate encoding of the long `v`) or `big neg ds`
(`struct bint`: `isNeg`, `placec = ds.length`, `placev = ds`, least significant digit first,
exactly as the C code stores them).  `placea` (the allocation size) is not modelled: it
never influences a value, only whether a write stays inside the allocation.

Loops over digit vectors are structural recursions over the digit lists; loops over a
counter are recursions over an explicit fuel that is at least the C loop's trip count.
C arithmetic that can wrap is written with explicit `% W` (unsigned long), `wrapL` (long),
`% R` (digit type).
-/
namespace AldorVerif.BigInt

/-- `BINT_LG_RADIX` = `bitsizeof(BIntS)`. -/
abbrev LG : Nat := 32
/-- `BINT_RADIX`. -/
def R : Nat := 4294967296
/-- `2^bitsizeof(long)`. -/
def W : Nat := 18446744073709551616
/-- `INT_LG_IMMED` = `bitsizeof(IInt)-2`. -/
abbrev LGIMM : Nat := 62
/-- `INT_MAX_IMMED`. -/
def MAXI : Int := 4611686018427387903
/-- `INT_MIN_IMMED`. -/
def MINI : Int := -4611686018427387903
/-- `INT_MAX_HALF` (`INT_LG_HALF` = 31). -/
def MAXH : Int := 2147483647

inductive BInt where
  | imm (v : Int)
  | big (neg : Bool) (ds : List Nat)
  deriving Repr, DecidableEq, Inhabited

/-- value of a digit vector -/
def natVal : List Nat → Nat
  | [] => 0
  | d :: ds => d + R * natVal ds

/-- the integer denoted -/
def BInt.val : BInt → Int
  | .imm v => v
  | .big neg ds => if neg then -(natVal ds : Int) else (natVal ds : Int)

/-- what the `bint*` entry points guarantee about their results (and expect of their
arguments): immediates are inside the immediate range; stored numbers have digits below the
radix, a non-zero leading digit, and lie outside the immediate range. -/
def WF : BInt → Prop
  | .imm v => MINI ≤ v ∧ v ≤ MAXI
  | .big _ ds => (∀ d ∈ ds, d < R) ∧ ds.getLast? ≠ some 0 ∧ MAXI < (natVal ds : Int)

/-! ## C integer conversions -/

/-- a value stored into a `long` -/
def wrapL (x : Int) : Int := Int.bmod x W
/-- a value stored into an `unsigned long` -/
def uw (x : Int) : Nat := (x % (W : Int)).toNat

/-- `IntToBInt(n)`: `(n << 1) | 1` as a pointer; `BIntToInt` shifts back arithmetically, so
only 63 bits survive. -/
def intToBInt (n : Int) : BInt := .imm (Int.bmod n 9223372036854775808)

def INT_IS_IMMED (n : Int) : Bool := decide (MINI ≤ n) && decide (n ≤ MAXI)
def INT_IS_HALF (n : Int) : Bool := decide (-MAXH ≤ n) && decide (n ≤ MAXH)

/-! ## Double precision macros -/

/-- `PlusStep(kout, r, a, b, kin)` on digits: returns `(kout, r)`. -/
def plusStep (a b kin : Nat) : Nat × Nat :=
  let r := a + b + kin
  if r ≥ R then (1, r - R) else (0, r)

/-- `MinusStep(kp1out, r, a, b, kp1in)`. -/
def minusStep (a b kp1 : Nat) : Nat × Nat := plusStep a (R - 1 - b) kp1

/-- `TimesStep(kout, r, a, b, c, kin)`: returns `(kout, r)`. -/
def timesStep (a b c kin : Nat) : Nat × Nat :=
  let t := a * b + c + kin
  (t / R, t % R)

/-- `DivideDouble(q, r, nh, nl, d)` with `q` stored into a digit: returns `(q, r)`. -/
def divideDouble (nh nl d : Nat) : Nat × Nat :=
  let n := nh * R + nl
  ((n / d) % R, (n % d) % R)

/-! ## Related machine integer operations -/

/-- loop of `uintLength`: `for (i = 1, p = 2; ; i += 1, p <<= 1) if (!p || u < p) break;` -/
def uintLengthLoop : Nat → Nat → Nat → Nat → Nat
  | 0, i, _, _ => i
  | f + 1, i, p, u => if p = 0 ∨ u < p then i else uintLengthLoop f (i + 1) ((p * 2) % W) u

/-- `uintLength(u)`. -/
def uintLength (u : Nat) : Nat := uintLengthLoop 64 1 2 u

/-- `(n < 0) ? -n : n` computed in `long`, then converted to `unsigned long`. -/
def absL (n : Int) : Nat := uw (if n < 0 then wrapL (-n) else n)

/-- `intLength(n)`. -/
def intLength (n : Int) : Nat := uintLength (absL n)

/-- `uintBit(si, ix)`. -/
def uintBit (si : Nat) (ix : Nat) : Bool := decide (ix < 64) && si.testBit ix

/-- `intBit(si, ix)`. -/
def intBit (si : Int) (ix : Nat) : Bool := uintBit (absL si) ix

/-! ## Low-level allocation -/

/-- digit loop of `xintCopyInI`: `for (i = 0; u != 0 && i < c; i++)`; two places hold any
`unsigned long`, and `c ≥ a ≥` the number of digits after the reallocation test. -/
def toDigits : Nat → Nat → List Nat
  | 0, _ => []
  | f + 1, u => if u = 0 then [] else (u % R) :: toDigits f (u / R)

/-- `xintCopyInI(b, n)` for a `b` with at least one place allocated. -/
def xintCopyInI (n : Int) : BInt :=
  let u := absL n
  if u < R then .big (decide (n < 0)) [u]
  else .big (decide (n < 0)) (toDigits 2 u)

/-- `xintStoreI(n)`. -/
def xintStoreI (n : Int) : BInt := xintCopyInI n

/-- `xintStore(b)`. -/
def xintStore : BInt → BInt
  | .imm v => xintStoreI v
  | b => b

/-- `xintImmedIfCan(b)`.  The generic loop for `pb*BINT_LG_RADIX <= bitsizeof(IInt)` is covered
by the one/two place case in this configuration. -/
def xintImmedIfCan : BInt → BInt
  | .imm v => .imm v
  | .big neg ds =>
    match ds with
    | [] => intToBInt 0
    | [d0] =>
      let u := d0
      if neg then (if (u : Int) > -MINI then .big neg ds else intToBInt (-(u : Int)))
      else (if (u : Int) > MAXI then .big neg ds else intToBInt u)
    | [d0, d1] =>
      let u := (d1 * R + d0) % W
      if neg then (if (u : Int) > -MINI then .big neg ds else intToBInt (-(wrapL u)))
      else (if (u : Int) > MAXI then .big neg ds else intToBInt u)
    | _ => .big neg ds

/-- remove most significant zero places (the `for (i = c-1; i >= 0; i--) if (v[i] != 0) break;`
and `while (Placec(r) > 0 && top == 0) Placec(r)--` loops). -/
def stripTop : List Nat → List Nat
  | [] => []
  | d :: ds =>
    match stripTop ds with
    | [] => if d = 0 then [] else [d]
    | r => d :: r

/-- `bintNew(n)` for a C `long`. -/
def bintNewI (n : Int) : BInt := if INT_IS_IMMED n then intToBInt n else xintStoreI n

def bintNew (n : BitVec 64) : BInt := bintNewI n.toInt

/-- `bintFrPlacev(isNeg, placec, data)`. -/
def bintFrPlacev (isNeg : Bool) (data : List Nat) : BInt :=
  xintImmedIfCan (.big isNeg (stripTop data))

/-- `bintIsSmall`, `bintSmall`. -/
def bintIsSmall : BInt → Bool
  | .imm _ => true
  | _ => false
/-- loop of `bintSmall` on a stored number:
`for (i = 0, sh = 0; i < Placec(b) && sh < bitsizeof(ULong); i++, sh += BINT_LG_RADIX) u |= ((ULong) Placev(b)[i]) << sh;` -/
def bintSmallLoop : List Nat → Nat → Nat → Nat
  | [], _, u => u
  | d :: ds, sh, u => if sh < 64 then bintSmallLoop ds (sh + LG) (u ||| ((d <<< sh) % W)) else u

/-- `bintSmall`: the value as a C `long`; a stored number contributes its places that fit an
`unsigned long`, negated in `unsigned long` when the sign flag is set. -/
def bintSmall : BInt → Int
  | .imm v => v
  | .big neg ds =>
    let u := bintSmallLoop ds 0 0
    wrapL (if neg then uw (0 - (u : Int)) else u)

/-! ## General arithmetic -/

def bintIsNeg : BInt → Bool
  | .imm v => decide (v < 0)
  | .big neg _ => neg

def bintIsZero : BInt → Bool
  | .imm v => decide (v = 0)
  | .big _ _ => false

def bintIsPos : BInt → Bool
  | .imm v => decide (v > 0)
  | .big neg ds => decide (ds.length > 0) && !neg

/-- `bintEQ`. -/
def bintEQ : BInt → BInt → Bool
  | .imm a, .imm b => decide (a = b)
  | .imm _, .big _ _ => false
  | .big _ _, .imm _ => false
  | .big na da, .big nb db =>
    if na != nb then false
    else if da.length != db.length then false
    else decide (da = db)

/-- the downward digit comparison loops of `bintLT`/`bintGT` on equally long vectors, most
significant digit first: `some true` = first difference has `a[i] < b[i]`, `some false` =
`a[i] > b[i]`, `none` = no difference. -/
def cmpLoop : List Nat → List Nat → Option Bool
  | a :: as, b :: bs => if a = b then cmpLoop as bs else some (decide (a < b))
  | _, _ => none

/-- `bintLT`. -/
def bintLT : BInt → BInt → Bool
  | .imm a, .imm b => decide (a < b)
  | .imm _, .big nb _ => !nb
  | .big na _, .imm _ => na
  | .big na da, .big nb db =>
    if na != nb then na && !nb
    else if na then
      if da.length != db.length then decide (da.length > db.length)
      else match cmpLoop da.reverse db.reverse with
        | some lt => !lt
        | none => false
    else
      if da.length != db.length then decide (da.length < db.length)
      else match cmpLoop da.reverse db.reverse with
        | some lt => lt
        | none => false

/-- `bintGT`. -/
def bintGT : BInt → BInt → Bool
  | .imm a, .imm b => decide (a > b)
  | .imm _, .big nb _ => nb
  | .big na _, .imm _ => !na
  | .big na da, .big nb db =>
    if na != nb then !na && nb
    else if na then
      if da.length != db.length then decide (da.length < db.length)
      else match cmpLoop da.reverse db.reverse with
        | some lt => lt
        | none => false
    else
      if da.length != db.length then decide (da.length > db.length)
      else match cmpLoop da.reverse db.reverse with
        | some lt => !lt
        | none => false

/-- `BINT_NEGATE(r)`. -/
def BINT_NEGATE : BInt → BInt
  | .imm v => intToBInt (-v)
  | .big neg ds => .big (!neg) ds

/-- `bintNegate`. -/
def bintNegate : BInt → BInt
  | .imm v => intToBInt (-v)
  | .big neg ds => .big (!neg) ds

/-- `bintAbs`. -/
def bintAbs : BInt → BInt
  | .imm v => if v < 0 then bintNewI (-v) else .imm v
  | .big _ ds => .big false ds

/-- `bintLength` of a stored number: `BINT_LG_RADIX*(Placec(b)-1) + uintLength(top)`.
(For `placec = 0` the C code would read `placev[-1]`; no entry point produces that.) -/
def lengthBig (ds : List Nat) : Nat := LG * (ds.length - 1) + uintLength (ds.getLastD 0)

/-- `bintLength`. -/
def bintLength : BInt → Nat
  | .imm v => intLength v
  | .big _ ds => lengthBig ds

/-- `bintBit`. -/
def bintBit (b : BInt) (ix : Nat) : Bool :=
  match b with
  | .imm v => intBit v ix
  | .big _ ds =>
    let cq := ix / LG
    let cr := ix % LG
    decide (cq < ds.length) && (ds.getD cq 0).testBit cr

/-! ### iintPlus -/

/-- second and third loop and the final carry of `iintPlus`: propagate the carry through the
rest of `a`; once it is clear the rest is copied. -/
def iintPlusCarry : List Nat → Nat → List Nat
  | [], k => if k ≠ 0 then [k] else []
  | a :: as, k =>
    if k ≠ 0 then
      let ks := plusStep a 0 k
      ks.2 :: iintPlusCarry as ks.1
    else a :: as

/-- `iintPlus(r, a, b)` (`Placec(a) >= Placec(b)` asserted). -/
def iintPlusLoop : List Nat → List Nat → Nat → List Nat
  | a :: as, b :: bs, k =>
    let ks := plusStep a b k
    ks.2 :: iintPlusLoop as bs ks.1
  | as, [], k => iintPlusCarry as k
  | [], _ :: _, _ => []          -- assert(Placec(a) >= Placec(b)) fails

def iintPlus (a b : List Nat) : List Nat := iintPlusLoop a b 0

/-! ### iintMinus -/

/-- second and third loop of `iintMinus`. -/
def iintMinusBorrow : List Nat → Nat → List Nat
  | [], _ => []
  | a :: as, kp1 =>
    if kp1 = 0 then
      let ks := minusStep a 0 kp1
      ks.2 :: iintMinusBorrow as ks.1
    else a :: as

def iintMinusLoop : List Nat → List Nat → Nat → List Nat
  | a :: as, b :: bs, kp1 =>
    let ks := minusStep a b kp1
    ks.2 :: iintMinusLoop as bs ks.1
  | as, [], kp1 => iintMinusBorrow as kp1
  | [], _ :: _, _ => []          -- assert(Placec(a) >= Placec(b)) fails

/-- `iintMinus(r, a, b)` (`a >= b >= 0`), including the `normalize:` loop. -/
def iintMinus (a b : List Nat) : List Nat := stripTop (iintMinusLoop a b 1)

/-- general case of `bintPlus`: both operands stored and non-negative. -/
def plusGen (a b : List Nat) : BInt :=
  let (a, b) := if lengthBig a < lengthBig b then (b, a) else (a, b)
  xintImmedIfCan (.big false (iintPlus a b))

/-- general case of `bintMinus`: both operands stored and non-negative. -/
def minusGen (a b : List Nat) : BInt :=
  let rNeg := bintLT (.big false a) (.big false b)
  let (a, b) := if rNeg then (b, a) else (a, b)
  xintImmedIfCan (.big rNeg (iintMinus a b))

def digitsOf : BInt → List Nat
  | .imm _ => []
  | .big _ ds => ds

/-- `PlusStep(ki, ri, ai, bi, int0)` at type `IInt`: the sum is formed in `unsigned long`. -/
def plusStepL (a b : Int) : Int × Int :=
  let r := uw (a + b)
  if r ≥ R then (1, wrapL ((r : Int) - R)) else (0, wrapL r)

/-- small integer case of `bintPlus`. -/
def plusFast : BInt → BInt → Option BInt
  | .imm ai, .imm bi =>
    let kr := plusStepL ai bi
    if kr.1 = 0 ∧ INT_IS_IMMED kr.2 then some (intToBInt kr.2) else none
  | _, _ => none

/-- `bintPlus`.  The recursive calls of the C text are made on stored operands whose sign
flag was cleared, so each of them enters the general case of the callee directly. -/
def bintPlus (a b : BInt) : BInt :=
  match plusFast a b with
  | some r => r
  | none =>
    let a := xintStore a
    let b := xintStore b
    let aNeg := bintIsNeg a
    let bNeg := bintIsNeg b
    if aNeg && bNeg then BINT_NEGATE (plusGen (digitsOf a) (digitsOf b))
    else if aNeg then minusGen (digitsOf b) (digitsOf a)
    else if bNeg then minusGen (digitsOf a) (digitsOf b)
    else plusGen (digitsOf a) (digitsOf b)

/-- small integer case of `bintMinus`. -/
def minusFast : BInt → BInt → Option BInt
  | .imm ai, .imm bi =>
    let ri := wrapL (ai - bi)
    if INT_IS_IMMED ri then some (intToBInt ri) else none
  | _, _ => none

/-- `bintMinus`. -/
def bintMinus (a b : BInt) : BInt :=
  match minusFast a b with
  | some r => r
  | none =>
    let a := xintStore a
    let b := xintStore b
    let aNeg := bintIsNeg a
    let bNeg := bintIsNeg b
    if aNeg && bNeg then minusGen (digitsOf b) (digitsOf a)
    else if aNeg then BINT_NEGATE (plusGen (digitsOf a) (digitsOf b))
    else if bNeg then plusGen (digitsOf a) (digitsOf b)
    else minusGen (digitsOf a) (digitsOf b)

/-! ### iintTimes -/

/-- inner loop of `iintTimes` for one digit `bj`: `rs` is `r[j .. j+ac-1]`; the result is
`r[j .. j+ac]` (the last place is `Placev(r)[ac+j] = k`). -/
def timesRow (bj : Nat) : List Nat → List Nat → Nat → List Nat
  | [], _, k => [k]
  | a :: as, rs, k =>
    let kr := timesStep a bj (rs.headD 0) k
    kr.2 :: timesRow bj as rs.tail kr.1

/-- outer loop of `iintTimes`: `rw` is the window `r[j .. j+ac-1]`. -/
def iintTimesLoop (as : List Nat) : List Nat → List Nat → List Nat
  | [], rw => rw
  | bj :: bs, rw =>
    let row := if bj ≠ 0 then timesRow bj as rw 0 else rw ++ [0]
    row.headD 0 :: iintTimesLoop as bs row.tail

/-- `iintTimes(r, a, b)`, including the final place count loop. -/
def iintTimes (a b : List Nat) : List Nat :=
  let (a, b) := if a.length < b.length then (b, a) else (a, b)
  stripTop (iintTimesLoop a b (List.replicate a.length 0))

/-- general case of `bintTimes`. -/
def timesGen (a b : List Nat) : BInt := xintImmedIfCan (.big false (iintTimes a b))

/-- `bintCopy`. -/
def bintCopy (b : BInt) : BInt := b

/-- small integer case of `bintTimes`. -/
def timesHalf : BInt → BInt → Option BInt
  | .imm ai, .imm bi =>
    if INT_IS_HALF ai && INT_IS_HALF bi then some (bintNewI (wrapL (ai * bi))) else none
  | _, _ => none

/-- `if (aImmed) { if (ai == 0) ...; if (ai == 1) ...; if (ai == -1) ... }` with `b` the other operand. -/
def timesUnit : BInt → BInt → Option BInt
  | .imm ai, b =>
    if ai = 0 then some (intToBInt 0) else if ai = 1 then some (bintCopy b)
    else if ai = -1 then some (bintNegate b) else none
  | _, _ => none

/-- `bintTimes`. -/
def bintTimes (a b : BInt) : BInt :=
  match timesHalf a b with
  | some r => r
  | none =>
  match timesUnit a b with
  | some r => r
  | none =>
  match timesUnit b a with
  | some r => r
  | none =>
    let a := xintStore a
    let b := xintStore b
    let aNeg := bintIsNeg a
    let bNeg := bintIsNeg b
    if aNeg && bNeg then timesGen (digitsOf a) (digitsOf b)
    else if aNeg then BINT_NEGATE (timesGen (digitsOf a) (digitsOf b))
    else if bNeg then BINT_NEGATE (timesGen (digitsOf a) (digitsOf b))
    else timesGen (digitsOf a) (digitsOf b)

/-! ### single digit multiply / divide -/

/-- loop of `iintTimesS`/`iintTimesPlusS`: `TimesStep(c, r[j], a[j], b, c, 0)`, then
`if (c) r[j++] = c`. -/
def timesSLoop (b : Nat) : List Nat → Nat → List Nat
  | [], c => if c ≠ 0 then [c] else []
  | a :: as, c =>
    let kr := timesStep a b c 0
    kr.2 :: timesSLoop b as kr.1

/-- `iintTimesPlusS(r, a, b, c)`. -/
def iintTimesPlusS (a : List Nat) (b c : Nat) : List Nat :=
  if b = 0 then digitsOf (xintCopyInI c) else timesSLoop b a c

/-- `iintTimesS(r, a, b)`. -/
def iintTimesS (a : List Nat) (b : Nat) : List Nat :=
  if b = 0 then digitsOf (xintCopyInI 0) else timesSLoop b a 0

/-- loop of `iintDivideS` over the digits most significant first: returns the quotient
digits (most significant first) and the remainder. -/
def divSLoop (b : Nat) : List Nat → Nat → List Nat × Nat
  | [], r => ([], r)
  | a :: as, r =>
    let qr := divideDouble r a b
    let rest := divSLoop b as qr.2
    (qr.1 :: rest.1, rest.2)

/-- `iintDivideS(q, &r, a, b)`: quotient places (at most one leading zero place dropped:
`Placec(q) = (q[n-1] == 0) ? n-1 : n`) and remainder. -/
def iintDivideS (a : List Nat) (b : Nat) : List Nat × Nat :=
  let qr := divSLoop b a.reverse 0
  let q := match qr.1 with
    | 0 :: rest => rest.reverse
    | q => q.reverse
  (q, qr.2)

/-! ### iintDivide (Knuth, Algorithm D) -/

/-- branch counters kept beside the computation (evidence only): `uj0 == v1`, number of
`qhat--` corrections, number of add-backs, third pass of the correction loop (asserted
impossible in C). -/
structure DTrace where
  ujEq : Nat := 0
  corr : Nat := 0
  addBack : Nat := 0
  third : Nat := 0
  deriving Repr, DecidableEq, Inhabited

/-- correction loop of step D3 (`for (i = 1; ; i++)`, `assert(i <= 2)`): returns
`(qhat, rhat, corrections, third-pass-entered)`. -/
def qhatLoop (v1 v2 uj2 : Nat) : Nat → Nat → Nat → Nat → Nat × Nat × Nat
  | 0, qhat, _, c => (qhat, c, 1)
  | f + 1, qhat, rhat, c =>
    let t := v2 * qhat
    let v2qhh := t / R
    let v2qhl := t % R
    let isGT := decide (v2qhh > rhat) || (decide (v2qhh = rhat) && decide (v2qhl > uj2))
    if !isGT then (qhat, c, 0)
    else
      let qhat := (qhat + R - 1) % R
      let kr := plusStep rhat v1 0
      if kr.1 ≠ 0 then (qhat, c + 1, 0) else qhatLoop v1 v2 uj2 f qhat kr.2 (c + 1)

/-- pack the result of step D3: `(qhat, uj0 == v1, corrections, third)`. -/
def mkQhat (ujEq : Bool) (r : Nat × Nat × Nat) : Nat × Bool × Nat × Nat := (r.1, ujEq, r.2.1, r.2.2)

/-- step D3: `(qhat, uj0 == v1, corrections, third)`. -/
def computeQhat (v1 v2 uj0 uj1 uj2 : Nat) : Nat × Bool × Nat × Nat :=
  if uj0 = v1 then
    let kr := plusStep uj1 v1 0
    if kr.1 = 0 then mkQhat true (qhatLoop v1 v2 uj2 2 (R - 1) kr.2 0)
    else (R - 1, true, 0, 0)
  else
    let qr := divideDouble uj0 uj1 v1
    mkQhat false (qhatLoop v1 v2 uj2 2 qr.1 qr.2 0)

/-- one place of step D4: `TimesDouble(uh, ul, qhat, vi); MinusStep(kk, ujj, ujj, ul, 1); uh += !kk;
MinusStep(kk, ujj, ujj, k, 1); uh += !kk;` — returns the new `(ujj, uh)`. -/
def mulSubPlace (qhat vi ujj k : Nat) : Nat × Nat :=
  let t := qhat * vi
  let s1 := minusStep ujj (t % R) 1
  let uh1 := (t / R + (if s1.1 = 0 then 1 else 0)) % R
  let s2 := minusStep s1.2 k 1
  let uh2 := (uh1 + (if s2.1 = 0 then 1 else 0)) % R
  (s2.2, uh2)

/-- step D4 over the window (least significant place first) against `v ++ [0]`:
returns the new window and the final `k`. -/
def mulSubLoop (qhat : Nat) : List Nat → List Nat → Nat → List Nat × Nat
  | [], _, k => ([], k)
  | ujj :: us, vs, k =>
    let p := mulSubPlace qhat (vs.headD 0) ujj k
    let rest := mulSubLoop qhat us vs.tail p.2
    (p.1 :: rest.1, rest.2)

/-- step D6 over the window against `v ++ [0]`; the final carry is dropped. -/
def addBackLoop : List Nat → List Nat → Nat → List Nat
  | [], _, _ => []
  | u :: us, vs, k =>
    let kr := plusStep (vs.headD 0) u k
    kr.2 :: addBackLoop us vs.tail kr.1

/-- one pass D3–D6 on the window `u[m-kj .. nm-kj]` (`n+1` places, least significant first). -/
def divStep (v : List Nat) (v1 v2 : Nat) (win : List Nat) : Nat × List Nat × DTrace :=
  let top := win.reverse
  let uj0 := top.getD 0 0
  let uj1 := top.getD 1 0
  let uj2 := top.getD 2 0
  let qh := computeQhat v1 v2 uj0 uj1 uj2
  let qhat := qh.1
  let ms := mulSubLoop qhat win v 0
  let tr : DTrace := { ujEq := if qh.2.1 then 1 else 0, corr := qh.2.2.1, third := qh.2.2.2 }
  if ms.2 ≠ 0 then
    ((qhat + R - 1) % R, addBackLoop ms.1 v 0, { tr with addBack := 1 })
  else (qhat, ms.1, tr)

def DTrace.add (a b : DTrace) : DTrace :=
  { ujEq := a.ujEq + b.ujEq, corr := a.corr + b.corr, addBack := a.addBack + b.addBack,
    third := a.third + b.third }

/-- loop D2–D7: `win` is the current window, `lo` the places below it, most significant
first.  Returns the quotient digits, most significant first, and the last window. -/
def divLoop (v : List Nat) (v1 v2 : Nat) : List Nat → List Nat → List Nat × List Nat × DTrace
  | [], win =>
    let s := divStep v v1 v2 win
    ([s.1], s.2.1, s.2.2)
  | x :: lo, win =>
    let s := divStep v v1 v2 win
    let rest := divLoop v v1 v2 lo (x :: s.2.1.dropLast)
    (s.1 :: rest.1, rest.2.1, s.2.2.add rest.2.2)

/-- which path `iintDivide` took -/
inductive DPath where
  | single | less | knuth (d : Nat) (tr : DTrace)
  deriving Repr, DecidableEq, Inhabited

/-- steps D2–D8 of `iintDivide` on the operands `u'`, `v'` already multiplied by `d` (`nm`, `n`: the place
counts of the original `u`, `v`): quotient places, remainder places, branch counters. -/
def knuthCore (nm n d : Nat) (u' v' : List Nat) : List Nat × List Nat × DTrace :=
  let v1 := v'.getLastD 0
  let v2 := v'.reverse.getD 1 0
  -- if (Placec(u) == nm) Placev(u)[Placec(u)++] = 0;
  let u' := if u'.length = nm then u' ++ [0] else u'
  let m := nm - n
  -- window: top n+1 places; below: m places, brought down one per pass
  let r := divLoop v' v1 v2 (u'.take m).reverse (u'.drop m)
  -- D8: Placec(u) = n; u /= d; then both place counts are normalised
  let rem := (iintDivideS (r.2.1.take n) d).1
  (stripTop r.1.reverse, stripTop rem, r.2.2)

/-- `iintDivide(q, r, u, v)`: quotient places, remainder places, path. -/
def iintDivide (u v : List Nat) : List Nat × List Nat × DPath :=
  let n := v.length
  let nm := u.length
  if n = 1 then
    let qr := iintDivideS u (v.headD 0)
    (qr.1, [qr.2], .single)
  else if bintLT (.big false u) (.big false v) then
    ([], u, .less)
  else
    -- D1
    let v1 := v.getLastD 0
    if v1 ≥ R / 2 then
      let r := knuthCore nm n 1 u v
      (r.1, r.2.1, .knuth 1 r.2.2)
    else
      let d := R / (v1 + 1)
      let r := knuthCore nm n d (iintTimesS u d) (iintTimesS v d)
      (r.1, r.2.1, .knuth d r.2.2)

/-- general case of `bintDivide`: both operands stored and non-negative. -/
def divideGen (a b : List Nat) : BInt × BInt × DPath :=
  let qr := iintDivide a b
  (xintImmedIfCan (.big false qr.1), xintImmedIfCan (.big false qr.2.1), qr.2.2)

/-- `bintDivide`: `(q, r)`; every recursive call of the C text enters the general case. -/
def bintDivideT (a b : BInt) : BInt × BInt × DPath :=
  let a := xintStore a
  let b := xintStore b
  let aNeg := bintIsNeg a
  let bNeg := bintIsNeg b
  let g := divideGen (digitsOf a) (digitsOf b)
  if aNeg && bNeg then (g.1, BINT_NEGATE g.2.1, g.2.2)
  else if aNeg then (BINT_NEGATE g.1, BINT_NEGATE g.2.1, g.2.2)
  else if bNeg then (BINT_NEGATE g.1, g.2.1, g.2.2)
  else g

def bintDivide (a b : BInt) : BInt × BInt :=
  let r := bintDivideT a b
  (r.1, r.2.1)

/-! ### bintMod, bintModi, xxModDouble -/

/-- `xxTimesDouble(&H, &L, A, B)` (dword.c, half-word products). -/
def xxTimesDouble (A B : Nat) : Nat × Nat :=
  let Ah := A / R
  let Al := A % R
  let Bh := B / R
  let Bl := B % R
  let H := (Ah * Bh) % W
  let M := (Al * Bh) % W
  let N := (Ah * Bl) % W
  let L := (Al * Bl) % W
  let Mh := M / R
  let Mx := ((M % R) * R) % W
  let Nh := N / R
  let Nx := ((N % R) * R) % W
  let T := L
  let L := (L + Mx) % W
  let H := (H + (if L < T then 1 else 0)) % W
  let H := (H + Mh) % W
  let T := L
  let L := (L + Nx) % W
  let H := (H + (if L < T then 1 else 0)) % W
  let H := (H + Nh) % W
  (H, L)

/-- main loop of `xxModDouble`: `while (rh != 0 || rl >= d)`; the double word `rh:rl` decreases in
every pass, so its value bounds the trip count (the fuel). -/
def xxModLoop (d rB : Nat) : Nat → Nat → Nat → Nat
  | 0, _, rl => rl
  | f + 1, rh, rl =>
    if rh ≠ 0 ∨ rl ≥ d then
      let rrh := rh % d
      let rrl := rl % d
      let t := xxTimesDouble rrh rB
      let rl' := (t.2 + rrl) % W
      let rh' := (t.1 + (if rl' < rrl then 1 else 0)) % W
      xxModLoop d rB f rh' rl'
    else rl

/-- `xxModDouble(nh, nl, d)`. -/
def xxModDouble (nh nl d : Nat) : Nat :=
  if d = 1 then 0
  else if d < R then
    -- DivideDouble on unsigned long operands, four half words
    let r := 0
    let r := ((r * R) % W + nh / R) % W % d
    let r := ((r * R) % W + nh % R) % W % d
    let r := ((r * R) % W + nl / R) % W % d
    let r := ((r * R) % W + nl % R) % W % d
    r
  else
    let Bd := W - 1 - (d - 1)
    let rB := Bd % d
    xxModLoop d rB (nh * W + nl + 1) nh nl

/-- body of the first loop of `bintModi` (`b < 2^32`, `d = 2^32 % b`):
`acc = (acc * d) % b; tmp = acc - b + Placev(a)[i] % b; if (tmp < 0) tmp += b; acc = tmp;` -/
def modiStepS (b d acc a : Nat) : Nat :=
  let acc := ((acc * d) % W) % b
  let tmp := wrapL ((acc : Int) - b + (a % b : Nat))
  let tmp := if tmp < 0 then wrapL (tmp + b) else tmp
  uw tmp

/-- first loop of `bintModi`, places most significant first after the top one. -/
def modiLoopS (b d : Nat) (as : List Nat) (acc : Nat) : Nat := as.foldl (modiStepS b d) acc

/-- body of the second loop of `bintModi` (`b >= 2^32`):
`hi = acc >> 32; lo = acc << 32; rem = xxModDouble(hi, lo, b); tmp = (rem - (long) b) + Placev(a)[i];
if (tmp < 0) tmp += b; acc = tmp;` -/
def modiStepL (b acc a : Nat) : Nat :=
  let hi := acc / R
  let lo := (acc * R) % W
  let rem := xxModDouble hi lo b
  let tmp := wrapL ((rem : Int) - wrapL b + a)
  let tmp := if tmp < 0 then wrapL (tmp + b) else tmp
  uw tmp

/-- second loop of `bintModi`. -/
def modiLoopL (b : Nat) (as : List Nat) (acc : Nat) : Nat := as.foldl (modiStepL b) acc

/-- `bintModi(a, b)` for non-negative `a`. -/
def bintModi (a : BInt) (b : Nat) : BInt :=
  match a with
  | .imm ai => bintNewI (wrapL ((uw ai % b : Nat) : Int))
  | .big _ ds =>
    let top := ds.reverse
    if b < R then
      let d := R % b
      bintNewI (wrapL (modiLoopS b d top.tail (top.headD 0 % b)))
    else
      bintNewI (wrapL (modiLoopL b top.tail (top.headD 0)))

/-- `bintToULong`. -/
def bintToULong : BInt → Nat
  | .imm v => uw v
  | .big _ ds => (ds.getD 0 0 + (ds.getD 1 0 * R) % W) % W

/-- which path `bintMod` took -/
inductive MPath where
  | immDivisor | wordDivisor | divide (p : DPath)
  deriving Repr, DecidableEq, Inhabited

/-- `bintMod`. -/
def bintModT (a b : BInt) : BInt × MPath :=
  let neg := bintIsNeg a
  let a := if neg then bintNegate a else a
  let b := if bintIsNeg b then bintNegate b else b
  let rp : BInt × MPath :=
    match b with
    | .imm bi => (bintModi a (uw bi), .immDivisor)
    | .big _ _ =>
      if bintLength b < 64 then (bintModi a (bintToULong b), .wordDivisor)
      else
        let d := bintDivideT a b
        (d.2.1, .divide d.2.2)
  (if neg then bintNegate rp.1 else rp.1, rp.2)

def bintMod (a b : BInt) : BInt := (bintModT a b).1

/-! ### shifts -/

/-- `QUO_ROUND_UP(n, d)`. -/
def quoRoundUp (n d : Nat) : Nat := if n % d ≠ 0 then n / d + 1 else n / d

/-- digit `i` of a vector addressed with a C `long` index; the only out-of-range index
the shift loops form is `-1` (`bp[-1]`, the upper half of `placec`, zero). -/
def dg (ds : List Nat) (i : Int) : Nat := if i < 0 then 0 else ds.getD i.toNat 0

/-- `h ? x >> h : 0` -/
def lowPart (h : Nat) (x : Nat) : Nat := if h = 0 then 0 else x >>> h
/-- `x << k` on an `unsigned int` -/
def shl32 (x k : Nat) : Nat := (x <<< k) % R
/-- one result place from two adjacent source places -/
def mix (h k lo hi : Nat) : Nat := lowPart h lo ||| shl32 hi k

/-- the quantities `iintShift` computes before its loops -/
structure ShiftPar where
  rc : Nat
  up : Bool
  q0 : Int
  h : Nat
  k : Nat
  deriving Repr, DecidableEq, Inhabited

/-- `bbitc`, `bc`, `n` ↦ `rc`, `up`, `q0`, `h`, `k` (statement by statement; `h` after the
`if (h == BINT_LG_RADIX) h = 0;` adjustment, `k` before it). -/
def shiftPar (bbitc bc n : Int) : ShiftPar :=
  let bz := bc * LG - bbitc
  let rbitc := bbitc + n
  let rc : Nat := quoRoundUp rbitc.toNat LG
  let rz := (rc : Int) * LG - rbitc
  let up : Bool := decide (rz ≤ bz)
  let q := (rc : Int) - bc
  let q0 := q + (if up then 1 else 0)
  let h0 := q0 * LG - n
  { rc := rc, up := up, q0 := q0, h := if h0 = LG then 0 else h0.toNat, k := (LG - h0).toNat }

/-- the copy loops of `iintShift`.  Every place of the result is formed from two adjacent
places of `b`; the `x0`/`x1` variables of the C loops only delay the store so that the routine
can run in place, and are not modelled. -/
def iintShiftWith (p : ShiftPar) (ds : List Nat) (n : Int) : List Nat :=
  if n < 0 then
    -- copy from lo to hi; bp = Placev(b) - q0
    let body := (List.range (p.rc - 1)).map fun (j : Nat) =>
      mix p.h p.k (dg ds ((j : Int) - p.q0)) (dg ds ((j : Int) + 1 - p.q0))
    let last := if p.up then mix p.h p.k (dg ds ((p.rc : Int) - 1 - p.q0)) (dg ds ((p.rc : Int) - p.q0))
                else lowPart p.h (dg ds ((p.rc : Int) - 1 - p.q0))
    body ++ [last]
  else if n > 0 then
    -- copy from hi to lo
    let zeros := List.replicate (p.q0 - 1).toNat 0
    let body := (List.range ds.length).map fun (i : Nat) =>
      mix p.h p.k (dg ds ((i : Int) - 1)) (dg ds i)
    let top := if p.up then [] else [lowPart p.h (dg ds ((ds.length : Int) - 1))]
    zeros ++ body ++ top
  else ds.take p.rc

/-- `iintShift(r, b, n)` for `rbitc = bbitc + n > 0`. -/
def iintShift (ds : List Nat) (n : Int) : List Nat :=
  iintShiftWith (shiftPar (lengthBig ds) ds.length n) ds n

/-- `bintShift(b, n)` for a C `int` `n`. -/
def bintShift (b : BInt) (n : Int) : BInt :=
  let bbitc : Int := bintLength b
  let rbitc := bbitc + n
  if b = .imm 0 then .imm 0
  else if rbitc ≤ 0 then intToBInt 0
  else
    let small : Option BInt :=
      match b with
      | .imm i =>
        if rbitc ≤ LGIMM then
          let u := uw (if i > 0 then i else wrapL (-i))
          let u := if n > 0 then (u <<< n.toNat) % W else u >>> (-n).toNat
          some (intToBInt (if i > 0 then wrapL u else wrapL (-(wrapL u))))
        else none
      | _ => none
    match small with
    | some r => r
    | none =>
      let bs := xintStore b
      let r := BInt.big (bintIsNeg bs) (iintShift (digitsOf bs) n)
      if rbitc ≤ LGIMM then xintImmedIfCan r else r

/-! ## Text -/

/-- the `dio` decimal digits of one remainder, most significant first
(`for (j = 0; j < dio; j++) { s[--i] = '0' + r % 10; r /= 10; }`). -/
def chunkDigits : Nat → Nat → List Nat → List Nat
  | 0, _, acc => acc
  | j + 1, r, acc => chunkDigits j (r / 10) ((r % 10) :: acc)

/-- `while (Placec(b) > 0)` loop of `bintIntoString`: decimal digits, most significant first
(with the temporary leading zeros). -/
def intoStringLoop : Nat → List Nat → List Nat → List Nat
  | 0, _, acc => acc
  | f + 1, ds, acc =>
    if ds.length > 0 then
      let qr := iintDivideS ds 1000000000
      intoStringLoop f qr.1 (chunkDigits 9 qr.2 acc)
    else acc

def digitChar (d : Nat) : Char := Char.ofNat (48 + d)

/-- decimal text of a natural number as `sprintf("%ld")` prints it -/
def natDecimal (n : Nat) : List Char := (Nat.toDigits 10 n)

/-- `bintToString` / `bintIntoString`. -/
def bintToString : BInt → List Char
  | .imm v => if v < 0 then '-' :: natDecimal v.natAbs else natDecimal v.natAbs
  | .big neg ds =>
    let digs := intoStringLoop (2 * ds.length + 1) ds []
    let digs := digs.dropWhile (· = 0)              -- while (s[i] == '0') i++
    let digs := if digs.isEmpty then [0] else digs  -- ensure at least one digit
    let s := digs.map digitChar
    if neg then '-' :: s else s

def isSpaceC (c : Char) : Bool := c = ' ' || c = '\t' || c = '\n' || c = '\x0b' || c = '\x0c' || c = '\r'
def isDigitC (c : Char) : Bool := '0' ≤ c && c ≤ '9'
def isUpperC (c : Char) : Bool := 'A' ≤ c && c ≤ 'Z'

/-- `dig = (*num <= '9') ? (*num - '0') : (*num - 'A') + 10` (as a C `long`). -/
def digVal (c : Char) : Int := if c.toNat ≤ 57 then (c.toNat : Int) - 48 else (c.toNat : Int) - 65 + 10

/-- `for (n = 0, l = ...; l > 0; l--) n = radix*n + dig` over a chunk of characters. -/
def chunkVal (radix : Int) (cs : List Char) : Int :=
  cs.foldl (fun n c => wrapL (radix * n + digVal c)) 0

/-- chunk loop of the scan routines: `iintTimesPlusS(b, b, rio, n)` for each chunk of `dio`
characters. -/
def scanChunks (radix : Int) (rio dio : Nat) : Nat → List Char → List Nat → List Nat
  | 0, _, acc => acc
  | f + 1, cs, acc =>
    if cs.isEmpty then acc
    else
      let n := chunkVal radix (cs.take dio)
      scanChunks radix rio dio f (cs.drop dio) (iintTimesPlusS acc rio (uw n % R))

/-- largest-power loops: `for (r = radix, d = 1; radix*r < maxi; r *= radix, d++)`
(`strict = true`) or `... <= maxi` (`strict = false`); arithmetic in `unsigned long`. -/
def powLoop (strict : Bool) (radix maxi : Nat) : Nat → Nat → Nat → Nat × Nat
  | 0, r, d => (r, d)
  | f + 1, r, d =>
    let p := (radix * r) % W
    if (if strict then decide (p < maxi) else decide (p ≤ maxi)) then powLoop strict radix maxi f ((r * radix) % W) (d + 1)
    else (r, d)

/-- `strtol` restricted to what `ulongSmallIntFrString` feeds it here: the longest prefix of
valid digits in the radix (no sign, no blanks; the `0x` prefix rule of radix 16 is not
modelled). -/
def strtolDigits (radix : Nat) : List Char → Nat → Nat
  | [], acc => acc
  | c :: cs, acc =>
    let v : Option Nat :=
      if isDigitC c then some (c.toNat - 48)
      else if isUpperC c then some (c.toNat - 65 + 10)
      else if 'a' ≤ c && c ≤ 'z' then some (c.toNat - 97 + 10)
      else none
    match v with
    | some d => if d < radix then strtolDigits radix cs (acc * radix + d) else acc
    | none => acc

/-- how a scan produced its result -/
inductive SPath where
  | bad | small | chunks
  deriving Repr, DecidableEq, Inhabited

/-- the conversion proper of `bintRadixScanFrString`, once the sign, the radix and the characters of the
whole part are known: result and path. -/
def radixScanCore (isNeg : Bool) (radix : Int) (num : List Char) : BInt × SPath :=
  let rdx := radix.toNat
  let maxi := R / rdx
  let rd := powLoop true rdx maxi 64 rdx 1
  let rio := (rd.1 * rdx) % W
  let dio := rd.2 + 1
  let bpd := Nat.log2 rdx + 1          -- (ULong)(log(radix)/log(2.0)) + 1
  let ndigs := num.length
  let nbits := ndigs * bpd
  if nbits ≤ LGIMM then
    let ires := strtolDigits rdx num 0 % W
    let ires := if isNeg then uw (-(ires : Int)) else ires
    (intToBInt (wrapL ires), .small)
  else
    let l0 := ndigs % dio
    let first := xintCopyInI (chunkVal radix (num.take l0))
    let ds := scanChunks radix rio dio (ndigs + 1) (num.drop l0) (digitsOf first)
    (xintImmedIfCan (.big isNeg ds), .chunks)

/-- `if ((*num == '+') || (*num == '-')) { isNeg = (*num == '-'); num++; }` -/
def scanSignPM : List Char → Bool × List Char
  | '+' :: r => (false, r)
  | '-' :: r => (true, r)
  | r => (false, r)

/-- `if (*s == '-') { isNeg = true; s++; }` -/
def scanSignM : List Char → Bool × List Char
  | '-' :: r => (true, r)
  | r => (false, r)

/-- `bintRadixScanFrString(num, &end)`: result, number of characters consumed, path. -/
def bintRadixScan (s : List Char) : BInt × Nat × SPath :=
  let s1 := s.dropWhile isSpaceC
  let isNeg := (scanSignPM s1).1
  let s2 := (scanSignPM s1).2
  let pre := s2.takeWhile isDigitC
  let after := s2.drop pre.length
  let hasRadix := after.head? = some 'r'
  let whole := if hasRadix then (after.drop 1).takeWhile (fun c => isDigitC c || isUpperC c) else []
  let endPos := (s.length - s2.length) + pre.length + (if hasRadix then 1 + whole.length else 0)
  if hasRadix && pre.isEmpty then (intToBInt 0, endPos, .bad)
  else
    -- radix: strtol over at most 64 characters, stored into a long
    let radix : Int := if hasRadix then (strtolDigits 10 (pre.take 64) 0 : Nat) else 10
    if hasRadix && (radix < 2 || radix > 36) then (intToBInt 0, endPos, .bad)
    else
      let r := radixScanCore isNeg radix (if hasRadix then whole else pre)
      (r.1, endPos, r.2)

/-- `bintFrString`. -/
def bintFrString (s : List Char) : BInt := (bintRadixScan s).1

/-- the conversion proper of `bintScanFrString`, once the sign and the decimal digits (leading zeros
skipped) are known: result and path. -/
def scanCore (isNeg : Bool) (digs : List Char) : BInt × SPath :=
  let dim := (powLoop false 10 MAXI.toNat 64 10 1).2
  let rd := powLoop false 10 R 64 10 1
  let rio := rd.1
  let dio := rd.2
  let ndig := digs.length
  if ndig ≤ dim then
    let n := chunkVal 10 digs
    (intToBInt (if isNeg then wrapL (-n) else n), .small)
  else
    let l0 := ndig % dio
    let first := xintCopyInI (chunkVal 10 (digs.take l0))
    let ds := scanChunks 10 rio dio (ndig + 1) (digs.drop l0) (digitsOf first)
    (xintImmedIfCan (.big isNeg ds), .chunks)

/-- `bintScanFrString(s, &end)` (decimal only): result, characters consumed, path. -/
def bintScan (s : List Char) : BInt × Nat × SPath :=
  let s1 := s.dropWhile isSpaceC
  let isNeg := (scanSignM s1).1
  let s2 := (scanSignM s1).2
  let s3 := s2.dropWhile (· = '0')
  let digs := s3.takeWhile isDigitC
  let endPos := (s.length - s3.length) + digs.length
  let r := scanCore isNeg digs
  (r.1, endPos, r.2)

/-! ## foam_i.c -/

/-- `fiSIntLength(i)`. -/
def fiSIntLengthLoop : Nat → Nat → Nat → Nat
  | 0, _, b => b
  | f + 1, x, b => if x ≠ 0 then fiSIntLengthLoop f (x / 2) (b + 1) else b
def fiSIntLength (i : BitVec 64) : Nat := fiSIntLengthLoop 64 (absL i.toInt) 0

/-- `fiSIntBit(n, i)` = `!!(n & (1L << i))` for `0 ≤ i < 64`. -/
def fiSIntBit (n : BitVec 64) (i : Nat) : Bool := n.getLsbD i

/-- `fiSIntToBInt`. -/
def fiSIntToBInt (i : BitVec 64) : BInt := bintNew i

/-- bit loop of `fiBIntToSInt`: `for (i = 63, n = 0; i >= 0; i--) { n = n << 1; if (bit) n++; }` -/
def toSIntLoop (b : BInt) : Nat → BitVec 64 → BitVec 64
  | 0, n => n
  | i + 1, n => toSIntLoop b i ((n <<< 1) + (if bintBit b i then 1 else 0))

/-- `fiBIntToSInt`. -/
def fiBIntToSInt (b : BInt) : BitVec 64 :=
  match b with
  | .imm v => BitVec.ofInt 64 v
  | .big neg _ =>
    let n := toSIntLoop b 64 0
    if neg then -n else n

/-- `fiBIntIsSingle`. -/
def fiBIntIsSingle (b : BInt) : Bool := decide (bintLength b < 64)

/-- loop of `fiBIntGcd`: `while (bintNE(d, bint0)) { t = c; c = d; q = bintDivide(&d, t, c); }` -/
def gcdLoop : Nat → BInt → BInt → BInt × Nat
  | 0, c, _ => (c, 0)
  | f + 1, c, d =>
    if !(bintEQ d (.imm 0)) then
      let r := gcdLoop f d (bintDivide c d).2
      (r.1, r.2 + 1)
    else (c, 0)

/-- fuel for `gcdLoop`: the remainders at least halve every second step. -/
def gcdFuel (a b : BInt) : Nat := 2 * (bintLength a + bintLength b) + 4

/-- `fiBIntGcd`: result and number of division steps. -/
def fiBIntGcdT (a b : BInt) : BInt × Nat :=
  let c := if bintLT a (.imm 0) then bintNegate a else a
  let d := if bintLT b (.imm 0) then bintNegate b else b
  gcdLoop (gcdFuel a b) c d

def fiBIntGcd (a b : BInt) : BInt := (fiBIntGcdT a b).1

/-- the square-and-multiply loop shared by `fiBIntSIPower`, `fiBIntBIPower`
(`for (i = 0; ; i++) { if (bit i) p = p*a; if (i >= l) break; a = a*a; }`):
`todo` counts the remaining iterations `l - i + 1`. -/
def powerLoop (bit : Nat → Bool) : Nat → Nat → BInt → BInt → BInt
  | 0, _, p, _ => p
  | todo + 1, i, p, a =>
    let p := if bit i then bintTimes p a else p
    if todo = 0 then p else powerLoop bit todo (i + 1) p (bintTimes a a)

/-- `fiBIntSIPower(a, b)` for `b ≥ 0` (a negative `b` raises an exception). -/
def fiBIntSIPower (a : BInt) (b : BitVec 64) : BInt :=
  if b.toInt = 0 then .imm 1
  else powerLoop (fiSIntBit b) (fiSIntLength b + 1) 0 (.imm 1) a

/-- `fiBIntBIPower(a, b)` for `b ≥ 0`. -/
def fiBIntBIPower (a b : BInt) : BInt :=
  if bintIsZero b then .imm 1
  else powerLoop (bintBit b) (bintLength b + 1) 0 (.imm 1) a

/-- loop of `fiBIntPowerMod`. -/
def powerModLoop (bit : Nat → Bool) (c : BInt) : Nat → Nat → BInt → BInt → BInt
  | 0, _, p, _ => p
  | todo + 1, i, p, a =>
    let p := if bit i then bintMod (bintTimes p a) c else p
    if todo = 0 then p else powerModLoop bit c todo (i + 1) p (bintMod (bintTimes a a) c)

/-- `fiBIntPowerMod(a, b, c)` for `c ≠ 0`, `b ≥ 0`. -/
def fiBIntPowerMod (a b c : BInt) : BInt :=
  if bintIsZero b then bintMod (.imm 1) c
  else
    let reda := bintMod a c
    if bintIsZero reda then .imm 0
    else powerModLoop (bintBit b) c (bintLength b + 1) 0 (.imm 1) reda

/-- `fiBIntTimesPlus`. -/
def fiBIntTimesPlus (a b c : BInt) : BInt := bintPlus (bintTimes a b) c

/-- `bintShiftRem(b, n)`: immediate case `x & ((1 << n) - 1)` with `1 << n` an `int` shift
(count taken modulo 32 by the hardware, result sign-extended to `long`); stored case copies
`placea - 1` places and masks the last one. -/
def bintShiftRem (b : BInt) (n : Nat) : BInt :=
  match b with
  | .imm x =>
    let one : Int := Int.bmod ((1 : Int) <<< (n % 32)) 4294967296
    let mask : Int := Int.bmod (one - 1) 4294967296
    intToBInt (wrapL ((uw x &&& uw mask : Nat) : Int))
  | .big _ ds =>
    let pa := quoRoundUp n LG
    let top := n - LG * (pa - 1)
    let m32 : Nat := (Int.bmod (Int.bmod ((1 : Int) <<< (top % 32)) 4294967296 - 1) 4294967296 % 4294967296).toNat
    let body := (List.range (pa - 1)).map fun i => ds.getD i 0
    xintImmedIfCan (.big false (body ++ [(ds.getD (pa - 1) 0) &&& m32]))

end AldorVerif.BigInt
