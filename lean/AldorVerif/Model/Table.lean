/-
Model of aldor/aldor/src/table.c (hand model, tied by correspondence: harness/table_drv.c).

`struct table` is the bucket vector (`buckv`, an array of chains; `buckc` is its size) and
`count`.  A chain (`struct TblSlot *` list) is the list of its slots from the head.  Keys and
elements are `Nat` (the harness stores small integers in the `Pointer`s), the hash function
`hf` is a parameter (the harness supplies `k mod m`), the equality function is `=` on `Nat`.
Every function follows the C text statement by statement; mutation returns the new table.
-/
namespace AldorVerif.Table

/-- `struct TblSlot` without the `next` pointer. -/
structure Slot where
  key  : Nat
  elt  : Nat
  hash : Nat
  deriving DecidableEq, Repr, Inhabited

/-- `struct table` (`hashFun`/`eqFun`/`info` are parameters of the operations). -/
structure Table where
  buckv : Array (List Slot)
  count : Nat
  deriving Repr, Inhabited

def Table.buckc (t : Table) : Nat := t.buckv.size

/-- `TBL_InitBuckC` -/
def initBuckC : Nat := 7
/-- `TBL_MaxLoad` -/
def maxLoad : Nat := 5

/-- util.c `binPrimeArray[33]` -/
def binPrimeArray : List Nat :=
  [1, 2, 3, 7, 13, 31, 61, 127, 251, 509, 1021, 2039, 4093, 8191, 16381,
   32749, 65521, 131071, 262139, 524287, 1048573, 2097143, 4194301,
   8388593, 16777213, 33554393, 67108859, 134217689, 268435399,
   536870909, 1073741789, 2147483647, 4294967291]

/-- util.c `binPrime`.  For `nbits > 32` the C code reads past the array (needs a table of more
    than 2·10¹⁰ entries); the model answers the last entry there. -/
def binPrime (nbits : Nat) : Nat := binPrimeArray.getD nbits 4294967291

/-- loop of util.c `cielLg`: `for (i = 0, p = 1; ; i++, p <<= 1) if (n <= p) return i;`
    (`p` is a 64-bit word; 65 rounds of fuel: for `n > 2^63` the C loop does not terminate). -/
def cielLgLoop : Nat → Nat → Nat → Nat → Nat
  | 0, _, i, _ => i
  | fuel + 1, n, i, p => if n ≤ p then i else cielLgLoop fuel n (i + 1) (p * 2 % 2 ^ 64)

def cielLg (n : Nat) : Nat := cielLgLoop 65 n 0 1

/-- `tblNew0` -/
def tblNew0 (buckc : Nat) : Table := { buckv := Array.replicate buckc [], count := 0 }

/-- `tblNew` -/
def tblNew : Table := tblNew0 initBuckC

/-- `tblSize` -/
def tblSize (t : Table) : Nat := t.count

/-- `BUCKET_SEARCH`: walk the chain; the first slot with `b->hash == h` and `efun(k, b->key)`
    is unlinked (`p->next = b->next`).  Result: that slot and the chain without it. -/
def bucketSearch (h k : Nat) : List Slot → Option (Slot × List Slot)
  | [] => none
  | b :: rest =>
    if b.hash = h ∧ b.key = k then some (b, rest)
    else match bucketSearch h k rest with
      | some (s, r) => some (s, b :: r)
      | none => none

/-- the chain `t->buckv[x]` -/
def Table.chain (t : Table) (x : Nat) : List Slot := t.buckv.getD x []

/-- `tblElt`: a successful search moves the slot to the front of its chain. -/
def tblElt (hf : Nat → Nat) (t : Table) (k notFound : Nat) : Table × Nat :=
  let h := hf k
  let x := h % t.buckc
  match bucketSearch h k (t.chain x) with
  | some (b, rest) => ({ t with buckv := t.buckv.setIfInBounds x (b :: rest) }, b.elt)
  | none => (t, notFound)

/-- `tblEnlarge`, body of the inner `while`: push `hd` on the front of its new chain. -/
def enlargeStep (nbuckc : Nat) (nbuckv : Array (List Slot)) (hd : Slot) : Array (List Slot) :=
  let x := hd.hash % nbuckc
  nbuckv.setIfInBounds x (hd :: nbuckv.getD x [])

/-- `tblEnlarge` -/
def tblEnlarge (t : Table) : Table :=
  let nbuckc := binPrime (cielLg t.buckc + 1)
  let nbuckv := t.buckv.foldl (fun nb chain => chain.foldl (enlargeStep nbuckc) nb)
                  (Array.replicate nbuckc [])
  { buckv := nbuckv, count := t.count }

/-- `tblSetElt` -/
def tblSetElt (hf : Nat → Nat) (t : Table) (k e : Nat) : Table :=
  let h := hf k
  let x := h % t.buckc
  match bucketSearch h k (t.chain x) with
  | some (b, rest) => { t with buckv := t.buckv.setIfInBounds x ({ b with elt := e } :: rest) }
  | none =>
    let t1 : Table := { buckv := t.buckv.setIfInBounds x (⟨k, e, h⟩ :: t.chain x), count := t.count + 1 }
    if t1.count > maxLoad * t1.buckc then tblEnlarge t1 else t1

/-- `tblDrop` -/
def tblDrop (hf : Nat → Nat) (t : Table) (k : Nat) : Table :=
  let h := hf k
  let x := h % t.buckc
  match bucketSearch h k (t.chain x) with
  | some (_, rest) => { buckv := t.buckv.setIfInBounds x rest, count := t.count - 1 }
  | none => t

/-- `tblNMap` -/
def tblNMap (f : Nat → Nat) (t : Table) : Table :=
  { t with buckv := t.buckv.map (fun c => c.map (fun b => { b with elt := f b.elt })) }

/-- `tblRemoveIf`: elements that are non-null and satisfy the test are freed and nulled. -/
def tblRemoveIf (test : Nat → Bool) (t : Table) : Table :=
  { t with buckv := t.buckv.map (fun c => c.map (fun b =>
      if b.elt ≠ 0 ∧ test b.elt then { b with elt := 0 } else b)) }

/-- `tblCopy`: same chains in the same order. -/
def tblCopy (t : Table) : Table := { buckv := t.buckv.map (fun c => c.map id), count := t.count }

/-- the sequence visited by `tblITER/tblMORE/tblSTEP`: buckets in index order, each chain
    from its head. -/
def tblIter (t : Table) : List Slot := t.buckv.toList.flatten

end AldorVerif.Table
