/-! # Model of how the compiler writes its output files (`emit.c` and the writers below it)

An output file is produced by the sequence `open; write*; flush*; close` against a file system
that may fail any step (device full: `ENOSPC`).  A failed `write`/`flush`/`close` loses data:
the file is incomplete.  The compiler *notices* a failure only at a step whose site is
`checked` (its result is tested, or `ferror` is consulted before the close).  `fileMustOpen`
does test the result of the open (`fileError` handler, fatal), so `open` steps are checked.
The exit status is 0 exactly when nothing was noticed (`main.c`: status = number of errors).

libc buffering is modelled only as "a failure surfaces at the write, the flush or the close
that pushes the data out"; which of them is the fault environment's choice. -/
namespace AldorVerif.Emit

inductive Op
  | opn | write | flush | close
deriving Repr, DecidableEq

structure Step where
  op : Op
  checked : Bool
deriving Repr, DecidableEq

structure Output where
  kind : String
  steps : List Step
deriving Repr, DecidableEq

/-- state while one output is produced -/
structure St where
  noticed : Bool      -- some failure was seen by the compiler
  complete : Bool     -- no step has failed so far
deriving Repr, DecidableEq

def St.init : St := ⟨false, true⟩

/-- one step under fault `f` -/
def stepRun (st : St) (s : Step) (f : Bool) : St :=
  if f then ⟨st.noticed || s.checked, false⟩ else st

/-- the steps of one output; `faults` is aligned with the steps (missing = no fault) -/
def runSteps : St → List Step → List Bool → St
  | st, [], _ => st
  | st, s :: ss, [] => runSteps (stepRun st s false) ss []
  | st, s :: ss, f :: fs => runSteps (stepRun st s f) ss fs

structure Result where
  exit : Nat
  complete : List Bool      -- per requested output
deriving Repr, DecidableEq

def runOutputs : List Output → List (List Bool) → List St
  | [], _ => []
  | o :: os, [] => runSteps St.init o.steps [] :: runOutputs os []
  | o :: os, f :: fs => runSteps St.init o.steps f :: runOutputs os fs

/-- `run : outputs → faults → (exit status, files complete?)` -/
def run (outs : List Output) (faults : List (List Bool)) : Result :=
  let sts := runOutputs outs faults
  ⟨if sts.any (·.noticed) then 1 else 0, sts.map (·.complete)⟩

def Result.allComplete (r : Result) : Bool := r.complete.all id

end AldorVerif.Emit
