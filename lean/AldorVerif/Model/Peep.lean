/-
Model of the peephole pass aldor/aldor/src/of_peep.c on a FOAM *expression* fragment
(hand model, tied by correspondence: harness/optdrv.c), together with the side-effect
predicate `foamHasSideEffect` (foam.c) restricted to the fragment and an evaluator that
follows the interpreter (fint.c: operands of a builtin call are evaluated left to right,
both always evaluated).

Fragment
* data: `Bool`, `SInt` constants (machine integers are `BitVec 64`, the `AInt`/`FiSInt` of
  the 64-bit build), locals `(Loc i)` whose declared type is fixed by `locTy i`;
* `(CCall t (Glo k) a)`: a call of an unknown function – never flagged pure, so
  `foamHasSideEffect` answers true; its meaning is a parameter `F` of the evaluator;
* builtin calls on Bool/SInt (`Op0`, `Op1`, `Op2`), `(Cast t e)`;
* statements `(Return e)`, `(If e l)`, `(Select e l0 … ln)`, `(Goto l)`, `(NOp)`.

`rule` is one application of the `switch` in `peepExpr` (peepBCall / peepCast) to a node whose
operands were already treated; `peepAux` is the `do … while (subChanged)` loop of the C
function of the same name (it takes fuel, because the C loop is not obviously terminating and
in fact does not terminate on `x + MinInt`, see Props/C02.lean); `peepStmt` is what `peepProg`
does to one statement of the body.

The Boolean parameter `fast` is `foldfloats`: it selects `foamBValOpInfoTableFast` (which has
no row for `SIntIsNeg`) or `foamBValOpInfoTableSlow`.
-/
namespace AldorVerif.Peep

abbrev W := BitVec 64

inductive Ty | bool | char | sint | word
  deriving DecidableEq, Repr

/-- bits of a value of the type (`FiBool`, `FiChar` are bytes; `FiSInt`, `FiWord` 64 bits) -/
def Ty.width : Ty → Nat
  | .bool | .char => 8
  | .sint | .word => 64

/-- nullary builtins -/
inductive Op0 | boolFalse | boolTrue
  deriving DecidableEq, Repr

/-- unary builtins (`sintNot` stands for the builtins that have no row in the peephole tables) -/
inductive Op1 | boolNot | sintNegate | sintNext | sintPrev | sintIsZero | sintIsPos | sintIsNeg | sintNot
  deriving DecidableEq, Repr

/-- binary builtins (`sintAnd`: no row in the tables; `sintShiftUp`: produced by `peepTimesOp`) -/
inductive Op2 | boolAnd | boolOr | boolEQ | boolNE
  | sintPlus | sintMinus | sintTimes | sintGcd | sintEQ | sintNE | sintLT | sintLE
  | sintShiftUp | sintAnd
  deriving DecidableEq, Repr

inductive Expr
  | bool (b : Bool)
  | sint (v : W)
  | loc (i : Nat)
  | call (k : Nat) (t : Ty) (a : Expr)
  | b0 (op : Op0)
  | b1 (op : Op1) (a : Expr)
  | b2 (op : Op2) (a b : Expr)
  | cast (t : Ty) (e : Expr)
  deriving DecidableEq, Repr

inductive Stmt
  | ret (e : Expr)
  | ifgoto (c : Expr) (l : Nat)
  | select (e : Expr) (ls : List Nat)
  | goto (l : Nat)
  | nop
  /-- not FOAM: stands for "the C code read `argv[idx]` outside the Select node" -/
  | oobRead
  deriving DecidableEq, Repr

/-! ## types -/

/-- declared type of local `i` (convention shared with harness/optdrv.c) -/
def locTy (i : Nat) : Ty :=
  if i % 3 = 0 then .sint else if i % 3 = 1 then .bool else .word

def Op1.argTy : Op1 → Ty
  | .boolNot => .bool
  | _ => .sint

def Op1.retTy : Op1 → Ty
  | .boolNot | .sintIsZero | .sintIsPos | .sintIsNeg => .bool
  | _ => .sint

def Op2.argTy : Op2 → Ty
  | .boolAnd | .boolOr | .boolEQ | .boolNE => .bool
  | _ => .sint

def Op2.retTy : Op2 → Ty
  | .boolAnd | .boolOr | .boolEQ | .boolNE | .sintEQ | .sintNE | .sintLT | .sintLE => .bool
  | _ => .sint

/-- the type of a well-typed expression, `none` for an ill-typed one -/
def typeOf : Expr → Option Ty
  | .bool _ => some .bool
  | .sint _ => some .sint
  | .loc i => some (locTy i)
  | .call _ t a => if (typeOf a).isSome then some t else none
  | .b0 _ => some .bool
  | .b1 op a => if typeOf a = some op.argTy then some op.retTy else none
  | .b2 op a b => if typeOf a = some op.argTy ∧ typeOf b = some op.argTy then some op.retTy else none
  | .cast t e => if (typeOf e).isSome then some t else none

def WT (e : Expr) : Prop := (typeOf e).isSome = true

instance (e : Expr) : Decidable (WT e) := by unfold WT; infer_instance

/-- `peepFoamExprType`: data → its tag, BCall → `retType` of the builtin, CCall → its type
field, Loc → the declaration; everything else (here: Cast) 0. -/
def exprType : Expr → Option Ty
  | .bool _ => some .bool
  | .sint _ => some .sint
  | .loc i => some (locTy i)
  | .call _ t _ => some t
  | .b0 _ => some .bool
  | .b1 op _ => some op.retTy
  | .b2 op _ _ => some op.retTy
  | .cast _ _ => none

/-! ## evaluation (fint.c) -/

structure St where
  loc : Nat → W
  out : List W

def ofBool (b : Bool) : W := if b then 1 else 0

/-- a value seen at type `t` (Bool values are 0/1) -/
def normTy (t : Ty) (v : W) : W :=
  match t with
  | .bool => ofBool (v != 0)
  | _ => v

def sem0 : Op0 → W
  | .boolFalse => 0
  | .boolTrue => 1

def absNat (v : W) : Nat := v.toInt.natAbs

def sem1 : Op1 → W → W
  | .boolNot, v => ofBool (v == 0)
  | .sintNegate, v => -v
  | .sintNext, v => v + 1
  | .sintPrev, v => v - 1
  | .sintIsZero, v => ofBool (v == 0)
  | .sintIsPos, v => ofBool (BitVec.slt 0 v)
  | .sintIsNeg, v => ofBool (BitVec.slt v 0)
  | .sintNot, v => ~~~v

def sem2 : Op2 → W → W → W
  | .boolAnd, a, b => ofBool (a != 0 && b != 0)
  | .boolOr, a, b => ofBool (a != 0 || b != 0)
  | .boolEQ, a, b => ofBool (a == b)
  | .boolNE, a, b => ofBool (a != b)
  | .sintPlus, a, b => a + b
  | .sintMinus, a, b => a - b
  | .sintTimes, a, b => a * b
  | .sintGcd, a, b => BitVec.ofNat 64 (Nat.gcd (absNat a) (absNat b))
  | .sintEQ, a, b => ofBool (a == b)
  | .sintNE, a, b => ofBool (a != b)
  | .sintLT, a, b => ofBool (BitVec.slt a b)
  | .sintLE, a, b => ofBool (BitVec.sle a b)
  | .sintShiftUp, a, b => a <<< b.toNat
  | .sintAnd, a, b => a &&& b

/-- `Cast`: a change of view (fint.c FOAM_Cast, by the sizes of the two types).  SInt ↔ Word
keep all 64 bits, Bool/Char → SInt/Word widen; SInt/Word → Bool/Char keep one byte only ("Some
loss of data is inevitable if we view … SInts as Bools"). -/
def castSem (src : Option Ty) (dst : Ty) (v : W) : W :=
  match src with
  | some s => if dst.width < s.width then v &&& 0xff else v
  | none => v

/-- meaning of unknown functions: function number, argument, state ↦ result, state -/
abbrev Calls := Nat → W → St → W × St

def evalE (F : Calls) : Expr → St → W × St
  | .bool b, st => (ofBool b, st)
  | .sint v, st => (v, st)
  | .loc i, st => (normTy (locTy i) (st.loc i), st)
  | .call k t a, st =>
    let r := evalE F a st
    let q := F k r.1 r.2
    (normTy t q.1, q.2)
  | .b0 op, st => (sem0 op, st)
  | .b1 op a, st =>
    let r := evalE F a st
    (sem1 op r.1, r.2)
  | .b2 op a b, st =>
    let r := evalE F a st
    let q := evalE F b r.2
    (sem2 op r.1 q.1, q.2)
  | .cast t e, st =>
    let r := evalE F e st
    (castSem (typeOf e) t r.1, r.2)

/-- what a statement does: the value returned, the label jumped to, or falling through;
`stuck` = the interpreter runs off the label list of a Select -/
inductive Outcome | returned (v : W) | jump (l : Nat) | fall | stuck
  deriving DecidableEq, Repr

def evalS (F : Calls) : Stmt → St → Outcome × St
  | .ret e, st => let r := evalE F e st; (.returned r.1, r.2)
  | .ifgoto c l, st => let r := evalE F c st; (if r.1 != 0 then .jump l else .fall, r.2)
  | .select e ls, st =>
    let r := evalE F e st
    (match ls[r.1.toNat]? with
     | some l => .jump l
     | none => .stuck, r.2)
  | .goto l, st => (.jump l, st)
  | .nop, st => (.fall, st)
  | .oobRead, st => (.stuck, st)

/-! ## `foamHasSideEffect` on the fragment -/

/-- CCall: never flagged pure here → true; BCall: `hasSideFx` is 0 for every builtin of the
fragment; otherwise any operand. -/
def sideFx : Expr → Bool
  | .bool _ | .sint _ | .loc _ | .b0 _ => false
  | .call _ _ _ => true
  | .b1 _ a => sideFx a
  | .b2 _ a b => sideFx a || sideFx b
  | .cast _ e => sideFx e

/-- no Cast narrows, and only a Bool is viewed as Bool (the hypothesis under which `peepCast`
and the Boolean rules, which take Bool values to be 0/1, are sound) -/
def castOK : Expr → Bool
  | .bool _ | .sint _ | .loc _ | .b0 _ => true
  | .call _ _ a => castOK a
  | .b1 _ a => castOK a
  | .b2 _ a b => castOK a && castOK b
  | .cast t e => castOK e && (match typeOf e with
    | some s => decide (s.width ≤ t.width) && (t != .bool || s == .bool)
    | none => true)

/-- reads no local and calls nothing: its value does not depend on the state -/
def closed : Expr → Bool
  | .bool _ | .sint _ | .b0 _ => true
  | .loc _ | .call _ _ _ => false
  | .b1 _ a => closed a
  | .b2 _ a b => closed a && closed b
  | .cast _ e => closed e

/-- a sufficient condition for "evaluating `a` then `b` is the same as `b` then `a`" -/
def commute (a b : Expr) : Bool := (!sideFx a && !sideFx b) || closed a || closed b

/-- the two operands of every binary builtin call commute (the hypothesis under which the two
reordering rules, `(-a)+b → b-a` and `not (a R b) → b R' a`, are sound) -/
def ordered : Expr → Bool
  | .bool _ | .sint _ | .loc _ | .b0 _ => true
  | .call _ _ a => ordered a
  | .b1 _ a => ordered a
  | .b2 _ a b => ordered a && ordered b && commute a b
  | .cast _ e => ordered e

/-! ## the tables of of_peep.c -/

/-- `enum bvalOp`, the real operations that occur for Bool/SInt -/
inductive POp | plus | minus | times | gcd | eq | ne | lt | le | neg | next | prev | isZero | isNeg | isPos
  deriving DecidableEq, Repr

/-- an entry of a `peepBValOpInfo` column: `OpNone`, one of the faked operations, or a real
unary operation -/
inductive NOp | none | id | zero | one | mone | tt | ff | nonZero | nonNeg | nonPos | un (p : POp)
  deriving DecidableEq, Repr

/-- `peepFindOpInfo` on unary builtins (rows of `foamBValOpInfoTableFast/Slow`) -/
def info1 (fast : Bool) : Op1 → Option (Ty × POp)
  | .sintNegate => some (.sint, .neg)
  | .sintNext => some (.sint, .next)
  | .sintPrev => some (.sint, .prev)
  | .sintIsZero => some (.sint, .isZero)
  | .sintIsPos => some (.sint, .isPos)
  | .sintIsNeg => if fast then none else some (.sint, .isNeg)
  | .boolNot | .sintNot => none

/-- `peepFindOpInfo` on binary builtins -/
def info2 : Op2 → Option (Ty × POp)
  | .boolEQ => some (.bool, .eq)
  | .boolNE => some (.bool, .ne)
  | .sintPlus => some (.sint, .plus)
  | .sintMinus => some (.sint, .minus)
  | .sintTimes => some (.sint, .times)
  | .sintGcd => some (.sint, .gcd)
  | .sintEQ => some (.sint, .eq)
  | .sintNE => some (.sint, .ne)
  | .sintLT => some (.sint, .lt)
  | .sintLE => some (.sint, .le)
  | .boolAnd | .boolOr | .sintShiftUp | .sintAnd => none

/-- `peepFindFoamOp` for a unary result -/
def findOp1 (fast : Bool) : POp → Ty → Option Op1
  | .neg, .sint => some .sintNegate
  | .next, .sint => some .sintNext
  | .prev, .sint => some .sintPrev
  | .isZero, .sint => some .sintIsZero
  | .isPos, .sint => some .sintIsPos
  | .isNeg, .sint => if fast then none else some .sintIsNeg
  | _, _ => none

/-- `peepFindFoamOp` for a binary result -/
def findOp2 : POp → Ty → Option Op2
  | .eq, .bool => some .boolEQ
  | .ne, .bool => some .boolNE
  | .plus, .sint => some .sintPlus
  | .minus, .sint => some .sintMinus
  | .times, .sint => some .sintTimes
  | .gcd, .sint => some .sintGcd
  | .eq, .sint => some .sintEQ
  | .ne, .sint => some .sintNE
  | .lt, .sint => some .sintLT
  | .le, .sint => some .sintLE
  | _, _ => none

/-- column `dual` of `peepBValOpInfo` -/
def dual : POp → Option POp
  | .eq => some .ne
  | .ne => some .eq
  | .le => some .lt
  | .neg => some .neg
  | .next => some .prev
  | .prev => some .next
  | _ => none

/-- column `l=r` -/
def leqr : POp → NOp
  | .minus => .zero
  | .eq => .tt
  | .ne => .ff
  | .lt => .ff
  | .le => .tt
  | _ => .none

/-- column `l=1` (binary rows) -/
def leftOne : POp → NOp
  | .plus => .un .next
  | .times => .id
  | .gcd => .one
  | _ => .none

/-- column `r=1` -/
def rightOne : POp → NOp
  | .plus => .un .next
  | .minus => .un .prev
  | .times => .id
  | .gcd => .one
  | _ => .none

/-- column `l=0` -/
def leftZero : POp → NOp
  | .plus => .id
  | .minus => .un .neg
  | .times => .zero
  | .eq => .un .isZero
  | .ne => .nonZero
  | .lt => .un .isPos
  | .le => .nonNeg
  | _ => .none

/-- column `r=0` -/
def rightZero : POp → NOp
  | .plus => .id
  | .minus => .id
  | .times => .zero
  | .eq => .un .isZero
  | .ne => .nonZero
  | .lt => .un .isNeg
  | .le => .nonPos
  | _ => .none

/-- `peepMakeUnaryOp` reads `peepBValOpInfo[op].arity` also for the faked operations OpNonNeg,
OpNonPos and OpId, whose numbers (35, 36, 37) lie behind the last row (34) of the table: what
is read there belongs to whatever the linker placed after the array.  The three fields say
whether the word read is 0 ("arity 0") in the executable at hand; the harness reports them. -/
structure Oob where
  nonNeg : Bool
  nonPos : Bool
  id : Bool
  deriving DecidableEq, Repr

/-- `peepBValOpInfo[op].arity == 0`: the rows OpZero, OpOne, OpMOne, OpTrue, OpFalse have
arity 0; OpNonZero (34) hits the terminating row (arity 1); the real unary operations have 1. -/
def NOp.nullary (oob : Oob) : NOp → Bool
  | .zero | .one | .mone | .tt | .ff => true
  | .nonNeg => oob.nonNeg
  | .nonPos => oob.nonPos
  | .id => oob.id
  | _ => false

/-! ## helpers of of_peep.c -/

/-- `peepFoamValue` -/
def valueOf (t : Ty) (v : W) : Expr :=
  match t with
  | .bool => .bool (v != 0)
  | _ => .sint v

/-- `peepFoamIsValue(type, value, foam)` for value 0 or 1 -/
def isValue (t : Ty) (v : W) : Expr → Bool
  | .bool b => t = .bool && (ofBool b == v)
  | .sint c => t = .sint && (c == v)
  | _ => false

/-- `otIsFoamConst` -/
def isConst : Expr → Bool
  | .bool _ | .sint _ => true
  | _ => false

/-- `intLength`: bits of |n| (1 for 0); |MinInt| stays 2^63 -/
def intLength (c : W) : Nat :=
  let u := if BitVec.slt c 0 then (-c).toNat else c.toNat
  if u = 0 then 1 else Nat.log2 u + 1

/-- `peepFoamIsPowerOf2` -/
def isPow2 : Expr → Bool
  | .sint c => c != 0 && c != 1 && (c &&& (c - 1)) == 0
  | _ => false

/-- `peepMakeUnaryOp` -/
def makeUnary (oob : Oob) (fast : Bool) (op : NOp) (t : Ty) (a : Expr) : Option Expr :=
  if op.nullary oob && sideFx a then none
  else match op with
    | .none => none
    | .zero => some (valueOf t 0)
    | .one => some (valueOf t 1)
    | .mone => some (valueOf t (-1))
    | .tt => some (.bool true)
    | .ff => some (.bool false)
    | .id => some a
    | .nonZero => (findOp1 fast .isZero t).map fun o => .b1 .boolNot (.b1 o a)
    | .nonPos => (findOp1 fast .isPos t).map fun o => .b1 .boolNot (.b1 o a)
    | .nonNeg => (findOp1 fast .isNeg t).map fun o => .b1 .boolNot (.b1 o a)
    | .un p => (findOp1 fast p t).map fun o => .b1 o a

/-- `peepMakeBinaryOp` -/
def makeBinary (p : POp) (t : Ty) (a b : Expr) : Option Expr :=
  (findOp2 p t).map fun o => .b2 o a b

/-- `peepPositive` -/
def positive (fast : Bool) : Expr → Option Expr
  | .b1 op a => match info1 fast op with
    | some (_, .neg) => some a
    | _ => none
  | .sint c => if BitVec.slt c 0 then some (.sint (-c)) else none
  | _ => none

/-- `peepAdditiveOp` (`isPlus`: OpPlus, else OpMinus) -/
def additive (fast : Bool) (t : Ty) (isPlus : Bool) (l r : Expr) : Option Expr :=
  let new := if isPlus then POp.minus else POp.plus
  match (if isPlus then positive fast l else none) with
  | some p => makeBinary new t r p            -- (-a) + b ==> b - a
  | none =>
    match positive fast r with
    | some p => makeBinary new t l p          -- a +/- (-b) ==> a -/+ b
    | none => none

/-- `peepTimesOp` -/
def timesOp (t : Ty) (l r : Expr) : Option Expr :=
  if t ≠ .sint then none
  else
    let l' := if isConst l then r else l
    let r' := if isConst l then l else r
    if !isConst r' then none
    else if !isPow2 r' then none
    else match r' with
      | .sint c =>
        let shift := intLength c - 1
        if shift > 30 then none
        else some (.b2 .sintShiftUp l' (.sint (BitVec.ofNat 64 shift)))
      | _ => none

/-- the `if … else if …` chain of `peepBinaryBCall` that chooses `newOp` and `arg` -/
def chooseOp (t : Ty) (p : POp) (l r : Expr) : NOp × Expr :=
  if leftZero p ≠ .none ∧ isValue t 0 l then (leftZero p, r)
  else if leftOne p ≠ .none ∧ isValue t 1 l then (leftOne p, r)
  else if rightZero p ≠ .none ∧ isValue t 0 r then (rightZero p, l)
  else if rightOne p ≠ .none ∧ isValue t 1 r then (rightOne p, l)
  else if !sideFx l ∧ l = r then (leqr p, l)
  else (.none, l)

/-- `peepBinaryBCall` -/
def binaryBCall (oob : Oob) (fast : Bool) (op : Op2) (l r : Expr) : Option Expr :=
  match info2 op with
  | none => none
  | some (t, p) =>
    match (if p = .plus ∨ p = .minus then additive fast t (p = .plus) l r else none) with
    | some n => some n
    | none =>
      match (if p = .times then timesOp t l r else none) with
      | some n => some n
      | none =>
        let c := chooseOp t p l r
        makeUnary oob fast c.1 t c.2

/-- `peepUnaryBCall` -/
def unaryBCall (fast : Bool) (op : Op1) (a : Expr) : Option Expr :=
  match a with
  | .b1 iop x =>
    match info1 fast op, info1 fast iop with
    | some (_, p), some (_, q) => if dual p = some q then some x else none
    | _, _ => none
  | _ => none

/-- `peepNegate` (the argument of a BoolNot); the rows of binary builtins are the same in both tables -/
def negate (_fast : Bool) (a : Expr) : Option Expr :=
  match a with
  | .b1 .boolNot x => some x
  | .b2 op x y =>
    match info2 op with
    | some (t, p) =>
      match dual p with
      | some d => if !sideFx x || !sideFx y then makeBinary d t y x else none
      | none => none
    | none => none
  | _ => none

/-- the first `switch` of `peepBCall` for BoolAnd (`isAnd`) / BoolOr: `z` is the absorbing
constant (false for And), `u` the neutral one -/
def andOr (isAnd : Bool) (l r : Expr) : Option Expr :=
  let z := !isAnd
  if l = .bool z then (if !sideFx r then some (.bool z) else none)
  else if l = .bool (!z) then some r
  else if r = .bool z then (if !sideFx l then some (.bool z) else none)
  else if r = .bool (!z) then some l
  else none

/-- strip the Casts at the head of an expression -/
def stripCasts : Expr → Expr
  | .cast _ e => stripCasts e
  | e => e

/-- `peepCast` -/
def castRule (t : Ty) (e : Expr) : Option Expr :=
  match e with
  | .cast _ _ =>
    let x := stripCasts e
    if exprType x = some t then some x else some (.cast t x)
  | _ => if exprType e = some t then some e else none

/-- one pass through the `switch` of `peepExpr` on a node whose operands are done;
`none` = the node is returned unchanged (`expr == newExpr`) -/
def rule (oob : Oob) (fast : Bool) : Expr → Option Expr
  | .b0 .boolFalse => some (.bool false)
  | .b0 .boolTrue => some (.bool true)
  | .b1 .boolNot a =>
    match negate fast a with
    | some n => some n
    | none => unaryBCall fast .boolNot a
  | .b1 op a => unaryBCall fast op a
  | .b2 .boolAnd l r =>
    match andOr true l r with
    | some n => some n
    | none => binaryBCall oob fast .boolAnd l r
  | .b2 .boolOr l r =>
    match andOr false l r with
    | some n => some n
    | none => binaryBCall oob fast .boolOr l r
  | .b2 op l r => binaryBCall oob fast op l r
  | .cast t e => castRule t e
  | _ => none

/-- `peepAux`: operands first, then the rule, again while something changed -/
def peepAux (oob : Oob) (fast : Bool) : Nat → Expr → Expr
  | 0, e => e
  | n + 1, e =>
    let e1 := match e with
      | .call k t a => .call k t (peepAux oob fast n a)
      | .b1 op a => .b1 op (peepAux oob fast n a)
      | .b2 op a b => .b2 op (peepAux oob fast n a) (peepAux oob fast n b)
      | .cast t x => .cast t (peepAux oob fast n x)
      | x => x
    match rule oob fast e1 with
    | some r => peepAux oob fast n r
    | none => e1

/-- `peepIf` / `peepSelect` on a statement whose operands are done.  `int idx` takes the low
32 bits of the constant; `argv[idx]` is not checked against the number of labels. -/
def stmtRule : Stmt → Stmt
  | .ifgoto (.bool true) l => .goto l
  | .ifgoto (.bool false) _ => .nop
  | .select (.sint c) ls =>
    let idx : Int := (c.setWidth 32).toInt
    if idx < 0 then .oobRead
    else match ls[idx.toNat]? with
      | some l => .goto l
      | none => .oobRead
  | s => s

/-- what `peepProg` does to one statement of the body: `peepExpr` once (operands through
`peepAux`) -/
def peepStmt (oob : Oob) (fast : Bool) (n : Nat) : Stmt → Stmt
  | .ret e => .ret (peepAux oob fast n e)
  | .ifgoto c l => stmtRule (.ifgoto (peepAux oob fast n c) l)
  | .select e ls => stmtRule (.select (peepAux oob fast n e) ls)
  | s => s

/-- number of nodes -/
def Expr.size : Expr → Nat
  | .call _ _ a => a.size + 1
  | .b1 _ a => a.size + 1
  | .b2 _ a b => a.size + b.size + 1
  | .cast _ e => e.size + 1
  | _ => 1

/-- does the rule still fire somewhere (used by the driver to tell "fuel ran out") -/
def normal (oob : Oob) (fast : Bool) : Expr → Bool
  | .call k t a => normal oob fast a && (rule oob fast (.call k t a)).isNone
  | .b1 op a => normal oob fast a && (rule oob fast (.b1 op a)).isNone
  | .b2 op a b => normal oob fast a && normal oob fast b && (rule oob fast (.b2 op a b)).isNone
  | .cast t e => normal oob fast e && (rule oob fast (.cast t e)).isNone
  | e => (rule oob fast e).isNone

end AldorVerif.Peep
