import AldorVerif.Model.Peep
import AldorVerif.Gen.PeepTable
/-
Reading of the regenerated tables of of_peep.c (`AldorVerif.Gen.PeepTable`) in the vocabulary of
the hand model (`AldorVerif.Peep`): names of enumerators ↔ `POp` / `NOp` / `Ty`, builtin names ↔
`Op1` / `Op2`, and the Boolean checks that the hand-written columns (`dual`, `leqr`, `leftOne`,
`rightOne`, `leftZero`, `rightZero`, `info1`, `info2`, the arities) are what the C tables say.
Props/C02.lean proves the checks (`decide`), so an edited row of the C tables breaks an obligation
unless the model – and with it the semantic theorem `table_sound` – is changed accordingly.
-/
namespace AldorVerif.Peep
open AldorVerif.Gen.PeepTable

def POp.cname : POp → String
  | .plus => "OpPlus" | .minus => "OpMinus" | .times => "OpTimes" | .gcd => "OpGCD"
  | .eq => "OpEQ" | .ne => "OpNE" | .lt => "OpLT" | .le => "OpLE"
  | .neg => "OpNeg" | .next => "OpNext" | .prev => "OpPrev"
  | .isZero => "OpIsZero" | .isNeg => "OpIsNeg" | .isPos => "OpIsPos"

def allPOps : List POp :=
  [.plus, .minus, .times, .gcd, .eq, .ne, .lt, .le, .neg, .next, .prev, .isZero, .isNeg, .isPos]

def binaryPOps : List POp := [.plus, .minus, .times, .gcd, .eq, .ne, .lt, .le]

def POp.ofCName (s : String) : Option POp := allPOps.find? (·.cname == s)

/-- an entry of a column: `OpNone`, a faked operation, or a real unary operation; `none` for an
enumerator the model has no use for in a column (a binary or floating-point operation) -/
def NOp.ofCName : String → Option NOp
  | "OpNone" => some .none | "OpId" => some .id | "OpZero" => some .zero | "OpOne" => some .one
  | "OpMOne" => some .mone | "OpTrue" => some .tt | "OpFalse" => some .ff
  | "OpNonZero" => some .nonZero | "OpNonNeg" => some .nonNeg | "OpNonPos" => some .nonPos
  | "OpNeg" => some (.un .neg) | "OpNext" => some (.un .next) | "OpPrev" => some (.un .prev)
  | "OpIsZero" => some (.un .isZero) | "OpIsNeg" => some (.un .isNeg) | "OpIsPos" => some (.un .isPos)
  | _ => none

def NOp.cname : NOp → String
  | .none => "OpNone" | .id => "OpId" | .zero => "OpZero" | .one => "OpOne" | .mone => "OpMOne"
  | .tt => "OpTrue" | .ff => "OpFalse" | .nonZero => "OpNonZero" | .nonNeg => "OpNonNeg" | .nonPos => "OpNonPos"
  | .un p => p.cname

def Ty.ofCName : String → Option Ty
  | "Bool" => some .bool | "Char" => some .char | "SInt" => some .sint | "Word" => some .word
  | _ => none

def Op1.cname : Op1 → String
  | .boolNot => "BoolNot" | .sintNegate => "SIntNegate" | .sintNext => "SIntNext" | .sintPrev => "SIntPrev"
  | .sintIsZero => "SIntIsZero" | .sintIsPos => "SIntIsPos" | .sintIsNeg => "SIntIsNeg" | .sintNot => "SIntNot"

def Op2.cname : Op2 → String
  | .boolAnd => "BoolAnd" | .boolOr => "BoolOr" | .boolEQ => "BoolEQ" | .boolNE => "BoolNE"
  | .sintPlus => "SIntPlus" | .sintMinus => "SIntMinus" | .sintTimes => "SIntTimes" | .sintGcd => "SIntGcd"
  | .sintEQ => "SIntEQ" | .sintNE => "SIntNE" | .sintLT => "SIntLT" | .sintLE => "SIntLE"
  | .sintShiftUp => "SIntShiftUp" | .sintAnd => "SIntAnd"

def allOp1 : List Op1 := [.boolNot, .sintNegate, .sintNext, .sintPrev, .sintIsZero, .sintIsPos, .sintIsNeg, .sintNot]
def allOp2 : List Op2 := [.boolAnd, .boolOr, .boolEQ, .boolNE, .sintPlus, .sintMinus, .sintTimes, .sintGcd,
  .sintEQ, .sintNE, .sintLT, .sintLE, .sintShiftUp, .sintAnd]

/-- the number of an enumerator of `enum bvalOp` -/
def opNumber (name : String) : Option Nat := bvalOps.findIdx? (· == name)

/-- `peepBValOpInfo[op]` as the C code reads it: by the number of the operation; `none` when the
number lies behind the last row -/
def rowByNumber (name : String) : Option InfoRow := (opNumber name).bind fun i => opInfo[i]?

/-- the row that describes abstract operation `p` -/
def genRow (p : POp) : Option InfoRow := rowByNumber p.cname

/-- `peepFindOpInfo` on the regenerated table -/
def genInfo (fast : Bool) (builtin : String) : Option (Ty × POp) :=
  ((if fast then tableFast else tableSlow).find? (·.builtin == builtin)).bind fun r =>
    (Ty.ofCName r.type).bind fun t => (POp.ofCName r.op).map fun p => (t, p)

def dualOfCName (s : String) : Option (Option POp) :=
  if s == "OpNone" then some none else (POp.ofCName s).map some

/-- the hand-written columns of `p` are those of the regenerated row: all six for a binary
operation, `dual` and a non-zero arity for a unary one (the other columns of unary rows are never
read by `peepBinaryBCall`/`peepUnaryBCall`) -/
def rowMatches (p : POp) : Bool :=
  match genRow p with
  | none => false
  | some r =>
    r.op == p.cname && dualOfCName r.dual == some (dual p) &&
    (if binaryPOps.contains p then
      r.arity == 2 &&
      NOp.ofCName r.leqr == some (leqr p) && NOp.ofCName r.leftOne == some (leftOne p) &&
      NOp.ofCName r.rightOne == some (rightOne p) && NOp.ofCName r.leftZero == some (leftZero p) &&
      NOp.ofCName r.rightZero == some (rightZero p)
    else r.arity == 1)

/-- `peepBValOpInfo[op].arity == 0` as read through the number of a faked/real operation:
`some b` when the row exists -/
def genNullary (n : NOp) : Option Bool := (rowByNumber n.cname).map fun r => r.arity == 0

def inTableNOps : List NOp :=
  [.zero, .one, .mone, .tt, .ff, .nonZero, .un .neg, .un .next, .un .prev, .un .isZero, .un .isNeg, .un .isPos]

/-- every row carries the number it is stored at (the C code asserts this for the row it uses) -/
def rowsAligned : Bool :=
  (List.range (opInfo.length - 1)).all fun i => (opInfo[i]?.map (·.op)) == bvalOps[i]?

end AldorVerif.Peep
