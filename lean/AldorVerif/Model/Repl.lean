/-! # C13: the interactive loop (`aldor -Gloop`)

Two models.

1. `contStep` — `scan.c:scanIsContinued`, statement by statement.  The C function keeps its state
   in function-local `static`s (`unmatchedBraces`, `isDefining`, `topLine`, `inStringLiteral`,
   `sawEscape`); here the state is the record `ContState` threaded through the calls.  A line is a
   `List Char` with **one `Char` per byte** of the C string (the driver decodes hex bytes with
   `Char.ofNat`); only ASCII values are ever compared.  `include.c:inclLine` calls it once per
   line read (`do … while (isCont && (*isCont)(curLineString))`), the line still carrying its
   `'\n'`; `readForm`/`splitForms` model that loop.

2. `replStep`/`batch` — an abstract session: the file-level symbol table and the interpreter's
   globals are an environment `List (String × Int)`; a top-level form is a definition, an output
   statement or an erroneous form.  `scobind.c:scoSetUndoState`, the incremental `stab` and
   `fintphase.c:fintWrap` are **not** modelled statement by statement: the session model says what
   they have to achieve, and the end-to-end search (`checks/parts/replsearch.py`) ties it to the
   code.  Core Lean only. -/
namespace AldorVerif.Repl

/-! ## `scanIsContinued` -/

/-- the `static` variables of `scanIsContinued` -/
structure ContState where
  /-- `unmatchedBraces` -/
  ub : Int := 0
  /-- `isDefining` -/
  isDef : Bool := false
  /-- `topLine`: initialised `true`, only ever assigned `true` -/
  topLine : Bool := true
  /-- `inStringLiteral` -/
  inStr : Bool := false
  /-- `sawEscape` -/
  esc : Bool := false
deriving DecidableEq, Repr

def ContState.init : ContState := {}

/-- the variables the `for` loop over the characters of one line works on -/
structure Scan where
  ub : Int
  inStr : Bool
  esc : Bool
  /-- `foundSemicolon` -/
  semi : Bool
  /-- `doubleEqualIsLast` -/
  deq : Bool
deriving DecidableEq, Repr

/-- one iteration of the loop: `c = line[i]`, `next = line[i+1]` (`none` = the terminating NUL) -/
def scanChar (s : Scan) (c : Char) (next : Option Char) : Scan :=
  if s.esc then { s with esc := false }
  else if s.inStr then
    if c = '_' then { s with esc := true }
    else if c = '"' then { s with inStr := false }      -- `if (!sawEscape)`: always so here
    else s
  else if c = '_' then { s with esc := true }
  else if c = '"' then { s with inStr := true, deq := false }
  else if c = '(' ∨ c = '{' then { s with ub := s.ub + 1 }
  else if c = ')' ∨ c = '}' then { s with ub := s.ub - 1 }
  else if c = ';' then { s with semi := true }
  else if c = '=' then (if next = some '=' then { s with deq := true } else s)
  else if c = ' ' ∨ c = '\n' then s
  else { s with deq := false }

def scanChars : Scan → List Char → Scan
  | s, [] => s
  | s, c :: rest => scanChars (scanChar s c rest.head?) rest

/-- which `return` of the C function was taken -/
inductive Branch
  | null | hash | blank | negative | defining | openOrString | semicolon | plain
deriving DecidableEq, Repr

def Branch.name : Branch → String
  | .null => "null" | .hash => "hash" | .blank => "blank" | .negative => "neg"
  | .defining => "def" | .openOrString => "open" | .semicolon => "semi" | .plain => "plain"

def isBlankStart (line : List Char) : Bool :=
  line.head? = some ' ' || line.head? = some '\n' || line.head? = some '\t'

/-- `scanIsContinued(line)`; `none` is the NULL pointer.  The interactive prompt
`"...     "` (printed only when stdin is a terminal) is not part of the model.  The second
`if (isDefining) { isDefining = false; return false; }` of the C text cannot be reached (the
first `if (isDefining) return true;` has returned) and has no counterpart here. -/
def contStepB (st : ContState) : Option (List Char) → ContState × Bool × Branch
  | none => (st, decide (st.ub > 0), .null)
  | some line =>
    if line.head? = some '#' ∧ st.ub = 0 then (st, false, .hash)
    else if line.head? = some '\n' then (st, true, .blank)
    else
      let isDef1 := if isBlankStart line then st.isDef else false
      let r := scanChars ⟨st.ub, st.inStr, st.esc, false, false⟩ line
      if r.ub < 0 then
        ({ ub := 0, isDef := isDef1, topLine := st.topLine, inStr := r.inStr, esc := r.esc }, false, .negative)
      else
        let isDef2 := isDef1 || (st.topLine && r.deq)
        let st' : ContState := { ub := r.ub, isDef := isDef2, topLine := st.topLine, inStr := r.inStr, esc := r.esc }
        if isDef2 then (st', true, .defining)
        else if decide (r.ub > 0) || r.inStr then (st', true, .openOrString)
        else if r.semi then (st', false, .semicolon)
        else ({ st' with topLine := true }, false, .plain)

def contStep (st : ContState) (line : Option (List Char)) : ContState × Bool :=
  let r := contStepB st line
  (r.1, r.2.1)

/-- the bytes of a string, one `Char` per byte -/
def bytesOf (s : String) : List Char := s.toUTF8.toList.map (fun b => Char.ofNat b.toNat)

/-- a fresh `scanIsContinued` asked about one line of text -/
def isContinued (s : String) : Bool := (contStep .init (some (bytesOf s))).2

/-- the answers for a sequence of lines -/
def feedLines : ContState → List (List Char) → ContState × List Bool
  | st, [] => (st, [])
  | st, l :: ls =>
    ((feedLines (contStep st (some l)).1 ls).1,
     (contStep st (some l)).2 :: (feedLines (contStep st (some l)).1 ls).2)

/-- result of reading one form: the state afterwards, the lines of the form (in order), the
remaining input -/
structure ReadResult where
  st : ContState
  form : List (List Char)
  rest : List (List Char)

/-- `include.c:inclLine` with `isCont = scanIsContinued`: lines are consumed up to and including
the first one for which the answer is `false` (or to the end of input). -/
def readForm : ContState → List (List Char) → ReadResult
  | st, [] => ⟨st, [], []⟩
  | st, l :: ls =>
    if (contStep st (some l)).2 then
      let r := readForm (contStep st (some l)).1 ls
      ⟨r.st, l :: r.form, r.rest⟩
    else ⟨(contStep st (some l)).1, [l], ls⟩

theorem readForm_rest_length (st : ContState) (ls : List (List Char)) :
    (readForm st ls).rest.length ≤ ls.length := by
  induction ls generalizing st with
  | nil => simp [readForm]
  | cons l ls ih =>
    simp only [readForm]
    split
    · have := ih (contStep st (some l)).1
      simp only [List.length_cons]; omega
    · simp

theorem readForm_rest_lt (st : ContState) (l : List Char) (ls : List (List Char)) :
    (readForm st (l :: ls)).rest.length < (l :: ls).length := by
  simp only [readForm]
  split
  · have := readForm_rest_length (contStep st (some l)).1 ls
    simp only [List.length_cons]; omega
  · simp

/-- the whole input cut into the pieces handed to the scanner/parser, step after step
(`compGLoopEval`: one `compFileFront` per step) -/
def splitForms (st : ContState) (ls : List (List Char)) : List (List (List Char)) :=
  match ls with
  | [] => []
  | l :: ls' =>
    (readForm st (l :: ls')).form :: splitForms (readForm st (l :: ls')).st (readForm st (l :: ls')).rest
termination_by ls.length
decreasing_by exact readForm_rest_lt st l ls'

/-! ### a renderer of balanced forms (token level) -/

/-- characters with no special role outside a string -/
def isOrd (c : Char) : Bool :=
  !(c = '_' || c = '"' || c = '(' || c = ')' || c = '{' || c = '}' || c = '\n')

/-- characters with no special role inside a string -/
def isStrOrd (c : Char) : Bool := !(c = '_' || c = '"' || c = '\n')

/-- one element of a string literal's body -/
inductive SCh
  | plain (c : Char)      -- `isStrOrd c`
  | esc (c : Char)        -- `_c`, `c ≠ '\n'`
deriving DecidableEq, Repr

def SCh.render : SCh → List Char
  | .plain c => [c]
  | .esc c => ['_', c]

def SCh.ok : SCh → Bool
  | .plain c => isStrOrd c
  | .esc c => c ≠ '\n'

inductive Tok
  | ord (c : Char)            -- `isOrd c`
  | esc (c : Char)            -- `_c` outside strings, `c ≠ '\n'`
  | str (body : List SCh)     -- `"…"`
  | opn (curly : Bool)        -- `{` or `(`
  | cls (curly : Bool)        -- `}` or `)`
deriving DecidableEq, Repr

def renderBody : List SCh → List Char
  | [] => []
  | s :: ss => s.render ++ renderBody ss

def Tok.render : Tok → List Char
  | .ord c => [c]
  | .esc c => ['_', c]
  | .str b => '"' :: (renderBody b ++ ['"'])
  | .opn curly => [if curly then '{' else '(']
  | .cls curly => [if curly then '}' else ')']

def Tok.ok : Tok → Bool
  | .ord c => isOrd c
  | .esc c => c ≠ '\n'
  | .str b => b.all SCh.ok
  | _ => true

def renderToks : List Tok → List Char
  | [] => []
  | t :: ts => t.render ++ renderToks ts

/-- one source line: its tokens followed by the newline -/
def renderLine (ts : List Tok) : List Char := renderToks ts ++ ['\n']

/-- bracket depth change of a token sequence, brackets inside strings and escaped ones not counted -/
def net : List Tok → Int
  | [] => 0
  | .opn _ :: ts => net ts + 1
  | .cls _ :: ts => net ts - 1
  | _ :: ts => net ts

/-- `doubleEqualIsLast` computed on tokens: set by an `=` directly followed by an `=`, cleared by a
string and by any ordinary character other than blank, `;` and `=` -/
def deqT : Bool → List Tok → Bool
  | b, [] => b
  | b, .ord c :: ts =>
    if c = ';' then deqT b ts
    else if c = '=' then
      (match ts with
       | .ord c2 :: _ => if c2 = '=' then deqT true ts else deqT b ts
       | _ => deqT b ts)
    else if c = ' ' then deqT b ts
    else deqT false ts
  | b, .esc _ :: ts => deqT b ts
  | _, .str _ :: ts => deqT false ts
  | b, .opn _ :: ts => deqT b ts
  | b, .cls _ :: ts => deqT b ts

/-- `foundSemicolon` computed on tokens -/
def semiT : Bool → List Tok → Bool
  | b, [] => b
  | b, .ord c :: ts => semiT (b || c = ';') ts
  | b, _ :: ts => semiT b ts

/-- does the rendered line start with a blank or a tab -/
def startsBlank : List Tok → Bool
  | .ord c :: _ => c = ' ' || c = '\t'
  | _ => false

def startsHash : List Tok → Bool
  | .ord c :: _ => c = '#'
  | _ => false

/-- cumulative depth after each line -/
def depths : Int → List (List Tok) → List Int
  | _, [] => []
  | d, l :: ls => (d + net l) :: depths (d + net l) ls

/-- A *well laid out form*: a non-empty list of non-empty token lines such that
* every token is well formed,
* the bracket depth is positive after every line but the last and zero after the last,
* the first line does not start with `#`,
* the last line starts in column one (no blank, no tab) and does not end in `==`
  (`deqT false last = false`).
These are exactly the things the renderer used by the search guarantees. -/
def wellLaidOut : Int → List (List Tok) → Bool
  | _, [] => false
  | d, [l] => l.all Tok.ok && !l.isEmpty && d + net l == 0 && !startsBlank l && !deqT false l
              && (d != 0 || !startsHash l)
  | d, l :: ls => l.all Tok.ok && !l.isEmpty && decide (d + net l > 0) && (d != 0 || !startsHash l)
              && wellLaidOut (d + net l) ls

/-! ## the session -/

abbrev Name := String
abbrev Env := List (Name × Int)

/-- expressions over the session's constants -/
inductive Expr
  | lit (n : Int)
  | var (x : Name)
  | add (a b : Expr)
  | mul (a b : Expr)
deriving DecidableEq, Repr

inductive Form
  /-- `x : T == e;` — binds `x`, shadowing an earlier `x` -/
  | define (x : Name) (e : Expr)
  /-- `stdout << "@@" << e << newline;` -/
  | output (e : Expr)
  /-- an erroneous form of the catalogue (tag = kind); rejected in every session -/
  | bad (kind : String)
deriving DecidableEq, Repr

def lookup (env : Env) (x : Name) : Option Int :=
  match env with
  | [] => none
  | (y, v) :: r => if y = x then some v else lookup r x

/-- checking + evaluation against the session's environment: `none` = the form is rejected
(no meaning for an identifier) -/
def eval (env : Env) : Expr → Option Int
  | .lit n => some n
  | .var x => lookup env x
  | .add a b => match eval env a, eval env b with
    | some x, some y => some (x + y)
    | _, _ => none
  | .mul a b => match eval env a, eval env b with
    | some x, some y => some (x * y)
    | _, _ => none

structure Session where
  env : Env := []
deriving DecidableEq, Repr

/-- one line of a transcript, as the harness classifies it: a program output line (it starts
with the marker `@@`) or a diagnostic -/
inductive Line
  | out (v : Int)
  | diag
deriving DecidableEq, Repr

def Line.text : Line → String
  | .out v => "@@" ++ toString v
  | .diag => "(Error)"

def Line.isOut : Line → Bool
  | .out _ => true
  | .diag => false

/-- one step of the interactive loop.  A rejected form returns the session **unchanged**
together with a diagnostic. -/
def replStep (s : Session) : Form → Session × List Line
  | .define x e =>
    match eval s.env e with
    | some v => ({ env := (x, v) :: s.env }, [])
    | none => (s, [.diag])
  | .output e =>
    match eval s.env e with
    | some v => (s, [.out v])
    | none => (s, [.diag])
  | .bad _ => (s, [.diag])

/-- the same step with the transcript as text -/
def replStepText (s : Session) (f : Form) : Session × List String :=
  ((replStep s f).1, (replStep s f).2.map Line.text)

/-- is the form accepted in this session -/
def accepts (s : Session) : Form → Bool
  | .define _ e => (eval s.env e).isSome
  | .output e => (eval s.env e).isSome
  | .bad _ => false

/-- the whole interactive session -/
def replRun : Session → List Form → Session × List Line
  | s, [] => (s, [])
  | s, f :: fs => ((replRun (replStep s f).1 fs).1, (replStep s f).2 ++ (replRun (replStep s f).1 fs).2)

/-- the program output lines of a transcript -/
def markers (out : List Line) : List Line := out.filter Line.isOut

/-- the diagnostics of a transcript -/
def diags (out : List Line) : List Line := out.filter (fun l => !l.isOut)

/-- every form of the list is accepted in the session it meets -/
def allAccepted : Session → List Form → Bool
  | _, [] => true
  | s, f :: fs => accepts s f && allAccepted (replStep s f).1 fs

/-! ### the batch compiler: check the whole file, then run it -/

def Expr.scoped (bound : List Name) : Expr → Bool
  | .lit _ => true
  | .var x => bound.contains x
  | .add a b => a.scoped bound && b.scoped bound
  | .mul a b => a.scoped bound && b.scoped bound

/-- phase 1: the whole file is analysed before anything runs -/
def checkFile (bound : List Name) : List Form → Bool
  | [] => true
  | .define x e :: fs => e.scoped bound && checkFile (x :: bound) fs
  | .output e :: fs => e.scoped bound && checkFile bound fs
  | .bad _ :: _ => false

/-- total evaluation used by phase 2 (unbound names cannot occur in a checked file; 0 is a filler) -/
def evalD (env : Env) : Expr → Int
  | .lit n => n
  | .var x => (lookup env x).getD 0
  | .add a b => evalD env a + evalD env b
  | .mul a b => evalD env a * evalD env b

/-- phase 2: run the checked file -/
def runFile (env : Env) : List Form → List Line
  | [] => []
  | .define x e :: fs => runFile ((x, evalD env e) :: env) fs
  | .output e :: fs => .out (evalD env e) :: runFile env fs
  | .bad _ :: fs => runFile env fs

/-- `aldor -Ginterp file.as`: nothing is run unless the whole file checks -/
def batchFrom (env : Env) (fs : List Form) : List Line :=
  if checkFile (env.map (·.1)) fs then runFile env fs else []

def batch (fs : List Form) : List Line := batchFrom [] fs

def batchText (fs : List Form) : List String := (batch fs).map Line.text

end AldorVerif.Repl
