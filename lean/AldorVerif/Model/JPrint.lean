/-! # The Java expression printer of `javacode.c` (binary operators) and how Java reads its output

Hand model of `jcBinOpPrint`, `jc0PrintWithParens`, `jc0NeedsParens`:

    lpar = this.assoc == RL && lhs.prec == this.prec
    rpar = this.assoc == LR && rhs.prec == this.prec
    print lhs, in parentheses if lpar, and again in parentheses if NeedsParens(this, lhs)
    write this.txt
    print rhs, likewise with rpar
    NeedsParens(c1, c2) = (c2.prec == 0) ? false : c1.prec > c2.prec      -- leaves have prec 0

The operator table (text, precedence, associativity per operation) is read from the source by
`translate/jmap.py` into `Gen.JMap.binOps`.  `Reads` is the Java expression grammar (JLS §15.17–15.24,
all binary operators left-associative): level `k` derives `E_k → E_k op E_{k+1} | E_{k+1}`,
primaries are names and parenthesised expressions.  `jls` is the level of each operator text in
Java, hand-written from the JLS — NOT taken from the compiler's table. -/
namespace AldorVerif.JPrint

structure Op where
  name : String      -- JCO_OP_x
  txt : String       -- the operator as printed (blanks removed)
  prec : Nat         -- the class table's precedence
  lr : Bool          -- JCO_LR
  deriving DecidableEq, Repr

inductive Tree where
  | leaf (x : String)
  | bin (o : Op) (l r : Tree)
  deriving DecidableEq, Repr

inductive Tok where
  | id (x : String)
  | op (txt : String)
  | lp
  | rp
  deriving DecidableEq, Repr

def precOf : Tree → Nat
  | .leaf _ => 0
  | .bin o _ _ => o.prec

def paren (b : Bool) (ts : List Tok) : List Tok := if b then Tok.lp :: ts ++ [Tok.rp] else ts

/-- `jc0NeedsParens(oClss, aClss)` -/
def needs (o : Op) (c : Tree) : Bool := precOf c != 0 && decide (o.prec > precOf c)

/-- `jcBinOpPrint` -/
def print : Tree → List Tok
  | .leaf x => [Tok.id x]
  | .bin o l r =>
    paren (!o.lr && precOf l == o.prec) (paren (needs o l) (print l)) ++ [Tok.op o.txt] ++
      paren (o.lr && precOf r == o.prec) (paren (needs o r) (print r))

def showTok : Tok → String
  | .id x => x
  | .op t => t
  | .lp => "("
  | .rp => ")"

/-- level of a binary operator in Java's grammar (JLS): a higher level binds tighter -/
def jls (txt : String) : Option Nat :=
  match txt with
  | "*" | "/" | "%" => some 12
  | "+" | "-" => some 11
  | "<<" | ">>" | ">>>" => some 10
  | "<" | "<=" | ">" | ">=" => some 9
  | "==" | "!=" => some 8
  | "&" => some 7
  | "^" => some 6
  | "|" => some 5
  | "&&" => some 4
  | "||" => some 3
  | _ => none

/-- `Reads k ts t`: Java's grammar derives the tokens `ts` from the nonterminal of level `k`
with expression tree `t` -/
inductive Reads : Nat → List Tok → Tree → Prop where
  | leaf (k : Nat) (x : String) : Reads k [Tok.id x] (.leaf x)
  | paren (k : Nat) (ts : List Tok) (t : Tree) : Reads 0 ts t → Reads k (Tok.lp :: ts ++ [Tok.rp]) t
  | bin (o : Op) (k : Nat) (tl tr : List Tok) (l r : Tree) :
      jls o.txt = some k → Reads k tl l → Reads (k + 1) tr r →
      Reads k (tl ++ [Tok.op o.txt] ++ tr) (.bin o l r)
  | up (k : Nat) (ts : List Tok) (t : Tree) : Reads (k + 1) ts t → Reads k ts t

/-- every operator of the tree is one of `ops` -/
def Tree.Over (ops : List Op) : Tree → Prop
  | .leaf _ => True
  | .bin o l r => o ∈ ops ∧ l.Over ops ∧ r.Over ops

/-- the compiler's table orders the operators the way Java does: whenever the printer leaves a
left operand (`p.prec ≤ c.prec`) resp. a right operand (`p.prec < c.prec`) without parentheses,
Java's grammar accepts it there; and every operator is a left-associative Java operator -/
def consistentB (ops : List Op) : Bool :=
  ops.all fun p => p.lr && p.prec != 0 && (jls p.txt).isSome && ops.all fun c =>
    (!decide (p.prec ≤ c.prec) || decide ((jls p.txt).getD 0 ≤ (jls c.txt).getD 0)) &&
    (!decide (p.prec < c.prec) || decide ((jls p.txt).getD 0 < (jls c.txt).getD 0))

def Consistent (ops : List Op) : Prop := consistentB ops = true

end AldorVerif.JPrint
