/-!
# C semantics prelude used by the generated files `AldorVerif/Gen/*.lean`  (C04)

Hand written, small, reviewed.  It fixes the reading of the C operators the translator
`translate/c04.py` emits calls to.  Assumptions (also in `translate/README.md`):

* LP64: `char` 8, `short` 16, `int` 32, `long`/pointers 64 bits, two's complement.
* signed `+ - * unary-` wrap (what gcc at -O0 or -O1 on x86-64 produces for these expressions);
  `<<` on a signed value is the two's complement shift; `>>` on a signed value is arithmetic.
* a C-undefined operation is not given a value:
  - `trap`  : integer division / remainder by zero and `LONG_MIN / -1`, `LONG_MIN % -1`
              (the hardware raises SIGFPE);
  - `undef` : shift count outside `[0, width)`, ctype argument outside `[-1, 255]`.
* `<ctype.h>` in the "C" locale, glibc encoding of the class bits (`_ISdigit = 0x0800`,
  `_ISalpha = 0x0400`): `isdigit`/`isalpha` return the *mask bit*, not 1.
-/
namespace AldorVerif.CSem

/-- result of evaluating a C expression -/
inductive CRes (α : Type) where
  | val (a : α)
  | undef
  | trap
  deriving Repr, DecidableEq

namespace CRes
@[inline] def bind {α β : Type} (m : CRes α) (f : α → CRes β) : CRes β :=
  match m with
  | val a => f a
  | undef => undef
  | trap => trap

@[inline] def map {α β : Type} (f : α → β) (m : CRes α) : CRes β := m.bind (fun a => val (f a))

def toOption {α : Type} : CRes α → Option α
  | val a => some a
  | _ => none

def isTrap {α : Type} : CRes α → Bool
  | trap => true
  | _ => false

@[simp] theorem bind_val {α β} (a : α) (f : α → CRes β) : (val a).bind f = f a := rfl
@[simp] theorem bind_undef {α β} (f : α → CRes β) : (undef : CRes α).bind f = undef := rfl
@[simp] theorem bind_trap {α β} (f : α → CRes β) : (trap : CRes α).bind f = trap := rfl
@[simp] theorem map_val {α β} (a : α) (f : α → β) : (val a).map f = val (f a) := rfl
@[simp] theorem map_undef {α β} (f : α → β) : (undef : CRes α).map f = undef := rfl
@[simp] theorem map_trap {α β} (f : α → β) : (trap : CRes α).map f = trap := rfl
@[simp] theorem toOption_val {α} (a : α) : (val a).toOption = some a := rfl
@[simp] theorem toOption_undef {α} : (undef : CRes α).toOption = none := rfl
@[simp] theorem toOption_trap {α} : (trap : CRes α).toOption = none := rfl
@[simp] theorem isTrap_val {α} (a : α) : (val a).isTrap = false := rfl
@[simp] theorem isTrap_undef {α} : (undef : CRes α).isTrap = false := rfl
@[simp] theorem isTrap_trap {α} : (trap : CRes α).isTrap = true := rfl
end CRes
open CRes

/-! ## integer conversions (the C type of source and target decide which one is emitted) -/
/-- widening of a signed source -/
abbrev sext {n : Nat} (m : Nat) (a : BitVec n) : BitVec m := a.signExtend m
/-- widening of an unsigned source -/
abbrev zext {n : Nat} (m : Nat) (a : BitVec n) : BitVec m := a.setWidth m
/-- narrowing (either signedness): keep the low bits -/
abbrev trunc {n : Nat} (m : Nat) (a : BitVec n) : BitVec m := a.setWidth m
/-- a C truth value (`0`/`1`) at an integer type of width n -/
def ofBool (n : Nat) (b : Bool) : BitVec n := if b then 1#n else 0#n
/-- integer used as a condition -/
abbrev truth {n : Nat} (a : BitVec n) : Bool := a != 0#n

/-! ## division, remainder -/
def sdiv {n : Nat} (a b : BitVec n) : CRes (BitVec n) :=
  if b = 0#n then trap else if a = BitVec.intMin n ∧ b = -1#n then trap else val (a.sdiv b)
def srem {n : Nat} (a b : BitVec n) : CRes (BitVec n) :=
  if b = 0#n then trap else if a = BitVec.intMin n ∧ b = -1#n then trap else val (a.srem b)
def udiv {n : Nat} (a b : BitVec n) : CRes (BitVec n) :=
  if b = 0#n then trap else val (a / b)
def urem {n : Nat} (a b : BitVec n) : CRes (BitVec n) :=
  if b = 0#n then trap else val (a % b)

/-! ## shifts: the count is given as the mathematical value of the (promoted) right operand -/
def shl {n : Nat} (a : BitVec n) (c : Int) : CRes (BitVec n) :=
  if 0 ≤ c ∧ c < n then val (a <<< c.toNat) else undef
/-- `>>` on a signed left operand -/
def sshr {n : Nat} (a : BitVec n) (c : Int) : CRes (BitVec n) :=
  if 0 ≤ c ∧ c < n then val (a.sshiftRight c.toNat) else undef
/-- `>>` on an unsigned left operand -/
def ushr {n : Nat} (a : BitVec n) (c : Int) : CRes (BitVec n) :=
  if 0 ≤ c ∧ c < n then val (a >>> c.toNat) else undef

/-! ## <ctype.h>, "C" locale, glibc class bits; argument is the mathematical value of the C argument -/
def isdigit (c : Int) : CRes (BitVec 32) :=
  if -1 ≤ c ∧ c ≤ 255 then val (if 48 ≤ c ∧ c ≤ 57 then 0x800#32 else 0#32) else undef
def isalpha (c : Int) : CRes (BitVec 32) :=
  if -1 ≤ c ∧ c ≤ 255 then
    val (if (65 ≤ c ∧ c ≤ 90) ∨ (97 ≤ c ∧ c ≤ 122) then 0x400#32 else 0#32)
  else undef
/-- also the compiler's own table `__lowercase[c+1]` (stdc.c) -/
def tolower (c : Int) : CRes (BitVec 32) :=
  if -1 ≤ c ∧ c ≤ 255 then val (BitVec.ofInt 32 (if 65 ≤ c ∧ c ≤ 90 then c + 32 else c)) else undef
/-- also the compiler's own table `__uppercase[c+1]` (stdc.c) -/
def toupper (c : Int) : CRes (BitVec 32) :=
  if -1 ≤ c ∧ c ≤ 255 then val (BitVec.ofInt 32 (if 97 ≤ c ∧ c ≤ 122 then c - 32 else c)) else undef

/-! ## sanity lemmas (the prelude says what the comment says) -/
theorem sdiv_val_toInt {n : Nat} (a b r : BitVec n) (h : sdiv a b = val r) :
    r.toInt = a.toInt.tdiv b.toInt := by
  unfold sdiv at h
  split at h
  · cases h
  · split at h
    · cases h
    · rename_i h1 h2
      cases h
      apply BitVec.toInt_sdiv_of_ne_or_ne
      by_cases ha : a = BitVec.intMin n
      · right; intro hb; exact h2 ⟨ha, hb⟩
      · left; exact ha

theorem srem_val_toInt {n : Nat} (a b r : BitVec n) (h : srem a b = val r) :
    r.toInt = a.toInt.tmod b.toInt := by
  unfold srem at h
  split at h
  · cases h
  · split at h
    · cases h
    · cases h; exact BitVec.toInt_srem a b

theorem sdiv_zero {n : Nat} (a : BitVec n) : sdiv a 0#n = trap := by simp [sdiv]
theorem srem_zero {n : Nat} (a : BitVec n) : srem a 0#n = trap := by simp [srem]
example : sdiv (BitVec.intMin 64) (-1#64) = trap := by decide
example : sdiv (-7#64) 2#64 = val (-3#64) := by decide
example : srem (-7#64) 2#64 = val (-1#64) := by decide
example : shl 1#64 64 = undef := by decide
example : shl 1#64 63 = val (BitVec.intMin 64) := by decide
example : sshr (-8#64) 1 = val (-4#64) := by decide
example : ushr (-8#64) 63 = val 1#64 := by decide
example : isdigit 53 = val 0x800#32 := by decide
example : isdigit 65 = val 0#32 := by decide
example : tolower 65 = val 97#32 := by decide
example : (sext 64 (-1#32) : BitVec 64) = -1#64 := by decide
example : (zext 64 (-1#32) : BitVec 64) = 0xffffffff#64 := by decide

@[simp] theorem ofBool_true (n : Nat) : ofBool n true = 1#n := rfl
@[simp] theorem ofBool_false (n : Nat) : ofBool n false = 0#n := rfl

end AldorVerif.CSem
