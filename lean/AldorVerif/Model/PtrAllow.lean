import AldorVerif.Gen.PtrTables

/-! # Reviewed list of address-hashed tables that ARE iterated  (hand-written, C08)

`Gen/PtrTables.lean` (regenerated from the C sources by translate/ptrtables.py) lists every
`tblNew` whose hash function is null or computes on the key's address, and for each one every
place that may iterate it.  A table whose hash values are addresses is walked in an order that
changes with the address-space layout, with the collector's decisions and with everything
allocated earlier in the same invocation; such a walk is harmless only if nothing order-
sensitive is done in the loop body.  That is a judgement about C code which Lean cannot make:
each entry below records the judgement, by whom the loop body was read and why the order cannot
reach an output file or the message stream.  An entry is bound to the exact set of iteration
places that were read (`reviewedIters`): a NEW walk over an already listed table is not covered.

THIS IS NOT A PROOF that the compiler is deterministic.  It turns "somebody added an
address-ordered walk" into a broken obligation (`Props/C08.lean: ptr_tables_not_iterated_partial`),
nothing more.  ASLR, collector timing and the environment are runtime facts; they are examined
by the search in checks/parts/determ.py. -/
namespace AldorVerif.PtrAllow
open AldorVerif.Gen.PtrTables

inductive Verdict
  | safe      -- address order cannot reach an output (reason given)
  | defect    -- address order DOES reach an output: recorded finding, see `finding`
  deriving DecidableEq, Repr

structure Entry where
  file : String
  func : String
  storedIn : String
  hash : String
  reviewedIters : List String
  verdict : Verdict
  finding : String := ""
  reason : String
  deriving Repr

def entries : List Entry := [
  { file := "gf_add.c", func := "gen0StringsInit", storedIn := "G:gen0StringTable", hash := "null",
    reviewedIters := ["gf_add.c:gen0StringsFini:tblITER"], verdict := .safe,
    reason := "keys are integers, not addresses: gen0StringsAdd stores `(TblKey)(long) hash` where hash is the " ++
              "strHash-derived code of a string literal; the walk order is a function of those integers only" },
  { file := "java/genjava.c", func := "gj0ExportClassCreateAll", storedIn := "L:gj0ExportClassCreateAll:tbl",
    hash := "addr:jcoHash", reviewedIters := ["java/genjava.c:gj0ExportClassCreateAll:tblITER"], verdict := .safe,
    reason := "keys are gj0ExportClassName(..) = jcImportedId(pkg, class) nodes; for import nodes jcoHash takes its first " ++
              "branch `strHash(id) + strHash(pkg)` (content); the address branch (symHash of a token's Symbol) is not reached" },
  { file := "java/genjava.c", func := "gj0ProgDeclarations", storedIn := "L:gj0ProgDeclarations:tbl",
    hash := "addr:jcoHash", reviewedIters := ["java/genjava.c:gj0ProgDeclarations:tblITER"], verdict := .defect,
    finding := "determ|java|aslr",
    reason := "keys are gj0Type(decl): for the primitive types these are keyword TOKENS, and jcoHash(token) = symHash(sym) = " ++
              "(Hash) ptrCanon(sym), the Symbol's address.  The walk emits one Java local declaration statement per type, " ++
              "so the order of `int t5, ...;` / `Word t0, ...;` lines in the generated .java changes from run to run under ASLR " ++
              "(observed: 8 runs of shapes.as gave 4 different files)" },
  { file := "java/javacode.c", func := "jcCollectImports", storedIn := "L:jcCollectImports:tbl",
    hash := "addr:jcoHash", reviewedIters := ["java/javacode.c:jcCollectImports:tblITER"], verdict := .safe,
    reason := "only import nodes are inserted (jc0CollectImports tests jcoIsImport, jc0ImportEq asserts it): jcoHash = strHash(id) + strHash(pkg)" },
  { file := "of_deada.c", func := "trInitTempSets", storedIn := "G:trKillTbl", hash := "null",
    reviewedIters := ["of_deada.c:trInitFreeVars:tblITER"], verdict := .safe,
    reason := "keys are local-variable indices `(TblKey) loc` (AInt), not addresses" },
  { file := "sefo.c", func := "sstMarkSyme", storedIn := "G:sstMarkTable", hash := "null",
    reviewedIters := ["axlobs.c:obPrint:tblPrint"], verdict := .safe,
    reason := "the table only escapes to sefo.c's private sstMarkStack (listCons(Table) is a call through a function pointer, " ++
              "hence `escaped`); sefo.c uses tblElt/tblSetElt/tblFree only.  obPrint is the generic debug printer for any OB_Table object" },
  { file := "sefo.c", func := "sstMarkTForm", storedIn := "G:sstMarkTable", hash := "null",
    reviewedIters := ["axlobs.c:obPrint:tblPrint"], verdict := .safe,
    reason := "same table as sstMarkSyme" },
  { file := "stab.c", func := "stabNewLevel", storedIn := "F:stabLevel.tbl", hash := "null",
    reviewedIters := ["bloop.c:bloopStabPretty:buckc", "bloop.c:bloopStabPretty:buckv",
                      "scobind.c:scoUndoStabLevel:tblRemoveIf", "stab.c:stabPrintTo:tblColumnPrint",
                      "stab.c:stabSeeOuterImports:tblITER"], verdict := .safe,
    reason := "keys are Symbol addresses, so the walk order DOES vary.  stabSeeOuterImports: the body works on one symbol at a " ++
              "time -- it looks the same symbol up in the outer levels and calls stabEntryAddSyme on that symbol's OWN entry " ++
              "(stent0); nothing is accumulated across symbols.  scoUndoStabLevel: tblRemoveIf tests and frees element by element " ++
              "(interactive undo).  bloopStabPretty / stabPrintTo: symbol-table listings of the interactive break loop and of " ++
              "debug output, not part of .ao/.fm/.c/.lsp/.java nor of the diagnostics of a batch compile.  Weakest entry of the " ++
              "list: it rests on reading stabEntryAddSyme/tfEqual as free of cross-symbol effects, and on the ASLR sweep of the search" },
  { file := "tinfer.c", func := "tiTfGetDeclareeTable", storedIn := "L:tiTfGetDeclareeTable:tbl", hash := "null",
    reviewedIters := ["tinfer.c:tiTfFreeDeclareeTable:tblFreeDeeply", "tinfer.c:tiTfGetDeclareeTable:tblPrint"],
    verdict := .safe,
    reason := "tblPrint only under DEBUG(titf) to dbOut; tblFreeDeeply only frees the element lists (order of frees changes " ++
              "addresses of later allocations, which are assumed arbitrary anyway)" },
  { file := "ttable.c", func := "ptrTSetCreate", storedIn := "F:Pointer_TSet.table", hash := "addr:ptrHashFn",
    reviewedIters := ["formatters.c:tsetFormatter:tsetIter", "ttable.c:ptrTSetIter:tblITER"], verdict := .safe,
    reason := "the only caller of tsetIter is the `%pTSet` formatter, which prints raw pointers and is used by no format string " ++
              "in the tree (debug aid); symeset.c and tform.c use tsetAdd/tsetMember only" }
]

def Entry.covers (a : Entry) (s : Site) : Bool :=
  a.file == s.file && a.func == s.func && a.storedIn == s.storedIn && a.hash == s.hash &&
  s.iterAt.all (fun i => a.reviewedIters.contains i)

/-- reviewed and judged harmless. -/
def allowed (s : Site) : Bool := entries.any (fun a => a.verdict == .safe && a.covers s)

/-- reviewed and found to reach an output: a recorded defect of the C code. -/
def recordedDefect (s : Site) : Bool := entries.any (fun a => a.verdict == .defect && a.covers s)

/-- status string used by the driver / the python part. -/
def status (s : Site) : String :=
  if !s.iterated then "not-iterated"
  else if allowed s then "allowed"
  else match entries.find? (fun a => a.verdict == .defect && a.covers s) with
    | some a => "defect:" ++ a.finding
    | none => "UNREVIEWED"

end AldorVerif.PtrAllow
