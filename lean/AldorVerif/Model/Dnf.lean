/-
Model of aldor/aldor/src/dnf.c (hand model, tied by correspondence: harness/dnf_drv.c).

A conjunction (`struct dnf_And`) is the list of its literals, a DNF (`struct dnf_Or`)
the list of its conjunctions.  `NULL` entries that `dnfOrMerge` works with are `none`.
Every function follows the C text statement by statement; loops over two cursors are
recursions over the two remaining suffixes.
-/
namespace AldorVerif.Dnf

abbrev Atom := Int
abbrev Conj := List Int
abbrev DNF  := List Conj

/-- `dnfAtomLT`: compare absolute values. -/
def atomLT (a b : Int) : Bool := decide (a.natAbs < b.natAbs)

/-- main loop of `dnfAndMerge`; `none` = a literal and its negation met (C returns NULL). -/
def mergeLoop : Conj → Conj → Option Conj
  | [], ys => some ys
  | xs, [] => some xs
  | x :: xs, y :: ys =>
    if atomLT x y then (mergeLoop xs (y :: ys)).map (x :: ·)
    else if atomLT y x then (mergeLoop (x :: xs) ys).map (y :: ·)
    else if x = y then mergeLoop xs (y :: ys)      -- only xxi advances
    else none
termination_by xs ys => xs.length + ys.length

/-- `dnfAndMerge`. -/
def andMerge (xx yy : Conj) : Option Conj :=
  if xx.isEmpty then some yy
  else if yy.isEmpty then some xx
  else mergeLoop xx yy

/-- loop of `dnfAndImplies`: returns `yyi == yy->argc` at loop exit. -/
def impliesLoop : Conj → Conj → Bool
  | _, [] => true
  | [], _ :: _ => false
  | x :: xs, y :: ys =>
    if atomLT x y then impliesLoop xs (y :: ys)
    else if x = y then impliesLoop xs ys
    else false

/-- `dnfAndImplies`. -/
def andImplies (xx yy : Conj) : Bool :=
  if xx.length < yy.length then false else impliesLoop xx yy

/-- loop of `dnfAndImpliesNegation`. -/
def impliesNegLoop : Conj → Conj → Bool
  | _, [] => true
  | [], _ :: _ => false
  | x :: xs, y :: ys =>
    if atomLT x y then impliesNegLoop xs (y :: ys)
    else if x = -y then impliesNegLoop xs ys
    else false

/-- `dnfAndImpliesNegation`. -/
def andImpliesNeg (xx yy : Conj) : Bool :=
  if xx.length < yy.length then false else impliesNegLoop xx yy

/-- `dnfAndCancelNegation` (after the fix: the `<` branch advances `xxi` only).
    Only ever called when `andImpliesNeg xx yy`; the `assert(false)` branch returns the
    rest unchanged here (unreachable under that precondition). -/
def cancelNeg : Conj → Conj → Conj
  | xs, [] => xs
  | [], _ :: _ => []
  | x :: xs, y :: ys =>
    if atomLT x y then x :: cancelNeg xs (y :: ys)
    else if x = -y then cancelNeg xs ys
    else x :: xs

/-- `dnfAndNot`. -/
def andNot (xx : Conj) : DNF := xx.map (fun a => [-a])

/-- working array of `dnfOrMerge`: `none` is a NULL slot. -/
abbrev Slots := List (Option Conj)

def slot (a : Slots) (i : Nat) : Option Conj := (a[i]?).join

/-- first `if` in the body of the double loop of `dnfOrMerge`. -/
def stepAbsorb (a : Slots) (i j : Nat) : Slots :=
  if i ≠ j then
    match slot a i, slot a j with
    | some xi, some xj => if andImplies xi xj then a.set i none else a
    | _, _ => a
  else a

/-- does the second `if` fire at (i,j), and is the cancelled disjunct multi-literal? -/
def cancelFires (a : Slots) (i j : Nat) : Bool :=
  i ≠ j && match slot a i, slot a j with
    | some xi, some xj => andImpliesNeg xi xj
    | _, _ => false

/-- second `if`. -/
def stepCancel (a : Slots) (i j : Nat) : Slots :=
  if i ≠ j then
    match slot a i, slot a j with
    | some xi, some xj =>
      if andImpliesNeg xi xj then a.set i (some (cancelNeg xi xj)) else a
    | _, _ => a
  else a

def step (a : Slots) (i j : Nat) : Slots := stepCancel (stepAbsorb a i j) i j

/-- the cancel rule fired at (i,j) against a disjunct with two or more literals:
    this is the (recorded) unsound case of the implementation. -/
def stepMulti (a : Slots) (i j : Nat) : Bool :=
  let a1 := stepAbsorb a i j
  cancelFires a1 i j && match slot a1 j with
    | some xj => decide (2 ≤ xj.length)
    | none => false

def innerLoop (n : Nat) (a : Slots) (i : Nat) : Slots :=
  (List.range n).foldl (fun a j => step a i j) a

def outerLoop (n : Nat) (a : Slots) : Slots :=
  (List.range n).foldl (fun a i => innerLoop n a i) a

/-- `dnfOrMerge` on the slot array, then squeeze out NULLs. -/
def orMerge (a : Slots) : DNF := (outerLoop a.length a).filterMap id

/-- did any multi-literal cancel fire during `dnfOrMerge a`? (instrumented run) -/
def innerMulti (n : Nat) (a : Slots) (i : Nat) : Slots × Bool :=
  (List.range n).foldl (fun (s : Slots × Bool) j => (step s.1 i j, s.2 || stepMulti s.1 i j)) (a, false)

def outerMulti (n : Nat) (a : Slots) : Slots × Bool :=
  (List.range n).foldl (fun (s : Slots × Bool) i =>
      let r := innerMulti n s.1 i; (r.1, s.2 || r.2)) (a, false)

def orMergeMulti (a : Slots) : Bool := (outerMulti a.length a).2

def isTrue (xx : DNF) : Bool := match xx with | [c] => c.isEmpty | _ => false
def isFalse (xx : DNF) : Bool := xx.isEmpty

def dnfTrue : DNF := [[]]
def dnfFalse : DNF := []
def dnfAtom (a : Int) : DNF := [[a]]

def orSlots (xx yy : DNF) : Slots := (xx ++ yy).map some

/-- `dnfOr`. -/
def dnfOr (xx yy : DNF) : DNF :=
  if isTrue xx || isTrue yy then dnfTrue
  else if isFalse xx then yy
  else if isFalse yy then xx
  else orMerge (orSlots xx yy)

def andSlots (xx yy : DNF) : Slots := xx.flatMap (fun xi => yy.map (fun yj => andMerge xi yj))

/-- `dnfAnd`. -/
def dnfAnd (xx yy : DNF) : DNF :=
  if isFalse xx || isFalse yy then dnfFalse
  else if isTrue xx then yy
  else if isTrue yy then xx
  else orMerge (andSlots xx yy)

/-- `dnfNot`. -/
def dnfNot (xx : DNF) : DNF :=
  if isFalse xx then dnfTrue
  else if isTrue xx then dnfFalse
  else xx.foldl (fun rr xi => dnfAnd rr (andNot xi)) dnfTrue

/-- `dnfImplies`. -/
def dnfImplies (xx yy : DNF) : Bool := xx.all (fun xi => yy.any (fun yj => andImplies xi yj))

/-- `dnfEqual` (pointer-equality shortcut is subsumed). -/
def dnfEqual (xx yy : DNF) : Bool := dnfImplies xx yy && dnfImplies yy xx

/-! ### multi-literal-cancel instrumentation lifted to the public operations -/

def dnfOrMulti (xx yy : DNF) : Bool :=
  if isTrue xx || isTrue yy then false
  else if isFalse xx then false
  else if isFalse yy then false
  else orMergeMulti (orSlots xx yy)

def dnfAndMulti (xx yy : DNF) : Bool :=
  if isFalse xx || isFalse yy then false
  else if isTrue xx then false
  else if isTrue yy then false
  else orMergeMulti (andSlots xx yy)

def dnfNotMulti (xx : DNF) : Bool :=
  if isFalse xx then false
  else if isTrue xx then false
  else (xx.foldl (fun (s : DNF × Bool) xi =>
      (dnfAnd s.1 (andNot xi), s.2 || dnfAndMulti s.1 (andNot xi))) (dnfTrue, false)).2

/-! ### semantics -/

def litSem (ρ : Nat → Bool) (l : Int) : Bool :=
  if 0 < l then ρ l.natAbs else !(ρ l.natAbs)

def conjSem (ρ : Nat → Bool) (c : Conj) : Bool := c.all (litSem ρ)
def sem (ρ : Nat → Bool) (d : DNF) : Bool := d.any (conjSem ρ)

/-- formulas, for the driver and for the "built from" reading of the property -/
inductive Form where
  | tt | ff
  | atom (a : Int)
  | not (f : Form)
  | and (f g : Form)
  | or (f g : Form)
  deriving Repr, Inhabited

def Form.sem (ρ : Nat → Bool) : Form → Bool
  | .tt => true
  | .ff => false
  | .atom a => litSem ρ a
  | .not f => !(f.sem ρ)
  | .and f g => f.sem ρ && g.sem ρ
  | .or f g => f.sem ρ || g.sem ρ

/-- build with the modelled operations -/
def Form.toDnf : Form → DNF
  | .tt => dnfTrue
  | .ff => dnfFalse
  | .atom a => dnfAtom a
  | .not f => dnfNot f.toDnf
  | .and f g => dnfAnd f.toDnf g.toDnf
  | .or f g => dnfOr f.toDnf g.toDnf

/-- did a multi-literal cancel fire anywhere while building? -/
def Form.multi : Form → Bool
  | .tt => false
  | .ff => false
  | .atom _ => false
  | .not f => f.multi || dnfNotMulti f.toDnf
  | .and f g => f.multi || g.multi || dnfAndMulti f.toDnf g.toDnf
  | .or f g => f.multi || g.multi || dnfOrMulti f.toDnf g.toDnf

end AldorVerif.Dnf
