/-! # Model of the conservative mark-and-sweep collector of `store.c` and of a mutator machine

Source read: `/repo/aldor/aldor/src/store.c`
(`stoGc`, `stoGcMarkAndSweep`, `stoGcMark`, `stoGcMarkRange`, `stoGcSweep`, `stoGcSweepFixed`,
`stoGcSweepMixed`, `stoRegister`/`stoObNoInternalPtrs`, `stoAlloc` incl. the `ALDOR_VERIF_GC` hook,
`fxmemCleanBody`/`mxmemCleanBody`).

Abstractions (each stated, none silent):

* addresses are counted in words (`sizeof(Pointer)`); the collector rounds every pointer down to the
  quantum that contains it, so byte-interior and word-interior pointers behave alike;
* a *block* is a piece: `base` = address of the piece (for a mixed piece that is the `MxMem` header),
  `hdr` = header words that belong to the piece but are not scanned (`MxMemHeadSize`, 0 for a fixed
  piece), `words` = the scanned body (`plo .. phi` in `stoGcMarkRange`), `kind` = the object code in
  the quantum tag, `busy` = `QmBusyFirst` vs `QmFreeFirst`;
* the page map / section / quantum arithmetic that finds the piece a word points into is the function
  `pointee` (first block whose extent contains the word; words below `heapBase` are rejected the
  way `isInHeap` rejects them);
* the roots (C stack, registers pushed by `setjmp`, static and foreign dynamic data) are one list of
  words;
* the allocator of the mutator machine never re-uses addresses (bump allocation).  What the
  allocator does with swept pieces is the subject of C10, not of C09. -/
namespace AldorVerif.Gc

/-- `STO_NEW_CHAR` pattern of a fresh piece (symbolic: any word below `heapBase`). -/
def newFill : Nat := 0xAA
/-- `STO_FREE_CHAR` pattern written by `fxmemCleanBody`/`mxmemCleanBody`. -/
def poison : Nat := 0xDD
/-- lowest heap address: words below are never pointers (`isInHeap`). -/
def heapBase : Nat := 0x1000
/-- `FixedSizeMax / sizeof(Pointer)` -/
def fixedMaxWords : Nat := 32
/-- `MxMemHeadSize / sizeof(Pointer)` -/
def mxHeadWords : Nat := 4

/-- object codes registered with `hasPtrs = 0` (`stoObNoInternalPtrs[code]`); the tag keeps five bits
of the code (`QmCodeMask = 0x1F`).  The harness registers the codes 16..31 as pointer-free. -/
def noPtr (kind : Nat) : Bool := 16 ≤ kind % 32

structure Block where
  base : Nat
  hdr : Nat
  words : List Nat
  kind : Nat
  busy : Bool
deriving Repr, DecidableEq, Inhabited

abbrev Heap := List Block
abbrev Marks := List Bool

def Block.extent (b : Block) : Nat := b.hdr + b.words.length
def Block.contains (b : Block) (a : Nat) : Bool := b.base ≤ a && a < b.base + b.extent
/-- what `pointee` looks at -/
def Block.shape (b : Block) : Nat × Nat × Nat × Nat := (b.base, b.hdr, b.words.length, b.kind)

/-- index of the first block of `h` that contains `a`, counting from `k` -/
def findFrom : Heap → Nat → Nat → Option Nat
  | [], _, _ => none
  | b :: h, k, a => if b.contains a then some k else findFrom h (k + 1) a

/-- the piece a word points into (`stoGcMarkRange`: `isInHeap`, page tag, section, `p >= sect->data`,
quantum number, walk back over `QmFollow`). Interior pointers and pointers into the header of a
mixed piece are recognised. -/
def pointee (h : Heap) (a : Nat) : Option Nat :=
  if a < heapBase then none else findFrom h 0 a

/-- one word of a range being scanned (body of the `for` loop of `stoGcMarkRange`):
`rec` marks the descendants (the recursive call / the `TailRecursion` jump). -/
def markWord (h : Heap) (rec : List Nat → Marks → Marks) (m : Marks) (w : Nat) : Marks :=
  match pointee h w with
  | none => m                                   -- not into the heap / not into a piece
  | some i =>
    if m.getD i false then m                    -- "Verify not already marked."
    else
      let m1 := m.set i true                    -- QmInfoSetMark
      match h[i]? with
      | none => m1
      | some b =>
        if !b.busy then m1                      -- QmFreeFirst: stoGcMarkedFree++, continue
        else if noPtr b.kind then m1            -- QmIsPtrFree: continue
        else rec b.words m1                     -- "Mark descendants."

/-- `stoGcMarkRange`; the first argument bounds the nesting depth (never exhausted when it is at
least the number of unmarked blocks, see `Lemmas/Gc.lean`). -/
def markRange (h : Heap) : Nat → List Nat → Marks → Marks
  | 0, ws, m => ws.foldl (markWord h (fun _ m => m)) m
  | f + 1, ws, m => ws.foldl (markWord h (markRange h f)) m

/-- `stoGcMark`: all marks clear, scan the roots -/
def mark (h : Heap) (roots : List Nat) : Marks :=
  markRange h h.length roots (List.replicate h.length false)

/-- `stoGcSweepFixed`/`stoGcSweepMixed` on one piece: unmarked busy → free and washed;
marked → mark cleared; free → stays free. -/
def sweepBlock (b : Block) (mk : Bool) : Block :=
  if b.busy && !mk then { b with busy := false, words := List.replicate b.words.length poison } else b

def sweep (h : Heap) (m : Marks) : Heap := List.zipWith sweepBlock h m

/-- `stoGc` -/
def collect (h : Heap) (roots : List Nat) : Heap := sweep h (mark h roots)

/-- Reachability as the collector understands it: a root word that points into a piece reaches it;
a busy piece of a kind that may hold pointers reaches whatever its words point into. -/
inductive Reach (h : Heap) (roots : List Nat) : Nat → Prop
  | root {w i} : w ∈ roots → pointee h w = some i → Reach h roots i
  | step {i j w b} : Reach h roots i → h[i]? = some b → b.busy = true → noPtr b.kind = false →
      w ∈ b.words → pointee h w = some j → Reach h roots j

/-! ## Mutator machine -/

inductive Status | running | halted | fault | freedAccess
deriving Repr, DecidableEq, Inhabited

inductive Instr
  | const (r n : Nat)        -- r := n            (forges a pointer when n ≥ heapBase: see `Instr.safe`)
  | move (r s : Nat)         -- r := s
  | alloc (r n kind : Nat)   -- r := stoAlloc(kind, n words); the forced-collection hook sits here
  | load (r s i : Nat)       -- r := s[i]
  | store (r i s : Nat)      -- r[i] := s
  | addp (r s k : Nat)       -- r := s + k   (interior pointer inside the same piece, or integer add)
  | arith (r s t : Nat)      -- r := (s + t) mod heapBase   (integer result, never a pointer)
  | eq (r s t : Nat)         -- r := (s = t)
  | drop (r : Nat)           -- r := 0
  | out (r : Nat)            -- output r
  | jz (r target : Nat)      -- if r = 0 then goto target
  | halt
deriving Repr, DecidableEq, Inhabited

/-- the only instruction that can make up a pointer the program does not hold -/
def Instr.safe : Instr → Bool
  | .const _ n => n < heapBase
  | _ => true

structure State where
  regs : List Nat
  heap : Heap
  next : Nat
  nalloc : Nat
  out : List Nat
  pc : Nat
  status : Status
deriving Repr, DecidableEq, Inhabited

def State.init (nregs : Nat) : State :=
  { regs := List.replicate nregs 0, heap := [], next := heapBase, nalloc := 0, out := [], pc := 0,
    status := .running }

abbrev State.reg (s : State) (r : Nat) : Nat := s.regs.getD r 0
def State.setReg (s : State) (r v : Nat) : State := { s with regs := s.regs.set r v }
def State.advance (s : State) : State := { s with pc := s.pc + 1 }
def State.stop (s : State) (st : Status) : State := { s with status := st }

def hdrFor (n : Nat) : Nat := if n ≤ fixedMaxWords then 0 else mxHeadWords

/-- result of resolving the address `a` (+ index `i`) to a word of a busy block -/
inductive Access
  | ok (bi off : Nat) (b : Block)
  | bad
  | freed

def access (h : Heap) (a i : Nat) : Access :=
  match pointee h a with
  | none => .bad
  | some bi =>
    match h[bi]? with
    | none => .bad
    | some b =>
      if !b.busy then .freed
      else if a < b.base + b.hdr then .bad
      else
        let off := a - (b.base + b.hdr) + i
        if off < b.words.length then .ok bi off b else .bad

def setWord (h : Heap) (bi off v : Nat) : Heap :=
  match h[bi]? with
  | none => h
  | some b => h.set bi { b with words := b.words.set off v }

/-- `stoAlloc` of the machine: forced collection first (hook at the entry of `stoAlloc`), then a fresh
piece at the frontier. `n = 0` returns NULL like `stoAlloc`. -/
def doAlloc (collectNow : Bool) (s : State) (r n kind : Nat) : State :=
  let h0 := if collectNow then collect s.heap s.regs else s.heap
  if n = 0 then { s with heap := h0, regs := s.regs.set r 0, nalloc := s.nalloc + 1 }
  else
    let hdr := hdrFor n
    let b : Block := { base := s.next, hdr := hdr, words := List.replicate n newFill, kind := kind, busy := true }
    { s with heap := h0 ++ [b], regs := s.regs.set r (s.next + hdr), next := s.next + hdr + n,
             nalloc := s.nalloc + 1 }

def exec (collectNow : Bool) (s : State) : Instr → State
  | .const r n => (s.setReg r n).advance
  | .move r t => (s.setReg r (s.reg t)).advance
  | .alloc r n kind => (doAlloc collectNow s r n kind).advance
  | .load r t i =>
    match access s.heap (s.reg t) i with
    | .ok _ off b => (s.setReg r (b.words.getD off 0)).advance
    | .bad => s.stop .fault
    | .freed => s.stop .freedAccess
  | .store r i t =>
    match access s.heap (s.reg r) i with
    | .ok bi off b =>
      -- a piece of a pointer-free kind holds data only
      if noPtr b.kind && heapBase ≤ s.reg t then s.stop .fault
      else { s with heap := setWord s.heap bi off (s.reg t) }.advance
    | .bad => s.stop .fault
    | .freed => s.stop .freedAccess
  | .addp r t k =>
    let a := s.reg t
    if a < heapBase then (s.setReg r ((a + k) % heapBase)).advance
    else match pointee s.heap a with
      | none => s.stop .fault
      | some bi => if pointee s.heap (a + k) = some bi then (s.setReg r (a + k)).advance else s.stop .fault
  | .arith r t u => (s.setReg r ((s.reg t + s.reg u) % heapBase)).advance
  | .eq r t u => (s.setReg r (if s.reg t = s.reg u then 1 else 0)).advance
  | .drop r => (s.setReg r 0).advance
  | .out r => { s with out := s.out ++ [s.reg r] }.advance
  | .jz r target => if s.reg r = 0 then { s with pc := target } else s.advance
  | .halt => s.stop .halted

/-- one step; `sched n` tells whether the collector is forced at allocation number `n` -/
def step (sched : Nat → Bool) (prog : List Instr) (s : State) : State :=
  match s.status with
  | .running =>
    match prog[s.pc]? with
    | none => s.stop .halted
    | some ins => exec (sched s.nalloc) s ins
  | _ => s

def runFrom (sched : Nat → Bool) (prog : List Instr) : Nat → State → State
  | 0, s => s
  | fuel + 1, s => runFrom sched prog fuel (step sched prog s)

def runWith (sched : Nat → Bool) (prog : List Instr) (nregs fuel : Nat) : State :=
  runFrom sched prog fuel (State.init nregs)

/-- what the outside sees: the output and how the run ended -/
def trace (s : State) : List Nat × Status := (s.out, s.status)

def never : Nat → Bool := fun _ => false

end AldorVerif.Gc
