/-! # Model of the string / character literal printer `ccode.c:ccoPrToken` (C16, part `mangle`)
and of the way a C compiler reads the printed literal back.

`escapeLit std s` is the text written between the quotes for the token text `s`
(`std` = `ccoUseStandardC(ccoPrMode)`).  `denote q body` is the character sequence a C compiler
denotes by the literal body `body` quoted with `q` (simple escapes, octal escapes of one to three
digits; trigraph replacement is not modelled: gcc does not do it in its default mode).

A byte is a `Char` with code 1 … 255.  The C loop reads `c = *s++` into an `int` through a
(signed) `char`, so bytes ≥ 0x80 are negative and `"\\%#o"` prints them as 32-bit two's complement. -/
namespace AldorVerif.CLit

/-- octal digits of `n`, most significant first (fuel-bounded so that it reduces in the kernel) -/
def octDigitsAux : Nat → Nat → List Char → List Char
  | 0, _, acc => acc
  | fuel + 1, n, acc =>
    if n = 0 then acc else octDigitsAux fuel (n / 8) (Char.ofNat (48 + n % 8) :: acc)

/-- `printf("%#o", v)` for `v > 0`: a leading `0`, then the octal digits -/
def sharpO (v : Nat) : List Char := '0' :: octDigitsAux 12 v []

/-- the `int` the loop variable holds for a byte, seen as the `unsigned` that `%o` prints -/
def asUnsigned (c : Char) : Nat := if c.toNat < 128 then c.toNat else 4294967296 - 256 + c.toNat

/-- `isprint` in the C locale -/
def isPrint (c : Char) : Bool := 32 ≤ c.toNat && c.toNat < 127

/-- what `ccoPrToken` writes for one character of a string or character literal -/
def escChar (std : Bool) (c : Char) : List Char :=
  if c = '\n' then ['\\', 'n']
  else if c = '\t' then ['\\', 't']
  else if c = Char.ofNat 11 then ['\\', 'v']
  else if c = Char.ofNat 8 then ['\\', 'b']
  else if c = '\r' then ['\\', 'r']
  else if c = Char.ofNat 12 then ['\\', 'f']
  else if c = '"' then ['\\', '"']
  else if c = '\'' then ['\\', '\'']
  else if c = '\\' then ['\\', '\\']
  else if c = '?' then (if std then ['\\', '?'] else ['?'])
  else if isPrint c then [c]
  else '\\' :: sharpO (asUnsigned c)

/-- the literal body -/
def escapeLit (std : Bool) (s : List Char) : List Char := s.flatMap (escChar std)

/-- the whole token as printed: quote, body, quote -/
def printLit (std : Bool) (q : Char) (s : List Char) : List Char := q :: (escapeLit std s ++ [q])

/-! ## how a C compiler reads a literal body -/

inductive St where
  | normal
  | esc                       -- after a backslash
  | oct (v : Nat) (n : Nat)   -- inside an octal escape: value so far, digits so far (1 or 2)
  deriving DecidableEq, Repr

def isOct (c : Char) : Bool := 48 ≤ c.toNat && c.toNat ≤ 55
def octVal (c : Char) : Nat := c.toNat - 48

def simpleEsc (c : Char) : Option Char :=
  if c = 'n' then some '\n' else if c = 't' then some '\t' else if c = 'v' then some (Char.ofNat 11)
  else if c = 'b' then some (Char.ofNat 8) else if c = 'r' then some '\r' else if c = 'f' then some (Char.ofNat 12)
  else if c = 'a' then some (Char.ofNat 7) else if c = '"' then some '"' else if c = '\'' then some '\''
  else if c = '\\' then some '\\' else if c = '?' then some '?' else none

/-- an ordinary source character inside a literal quoted with `q`: (new state, characters denoted);
the closing quote and a raw newline cannot occur -/
def plain (q : Char) (c : Char) (pre : List Char) : Option (St × List Char) :=
  if c = '\\' then some (.esc, pre)
  else if c = q ∨ c = '\n' then none
  else some (.normal, pre ++ [c])

/-- one character of the body -/
def step (q : Char) : St → Char → Option (St × List Char)
  | .normal, c => plain q c []
  | .esc, c =>
    if isOct c then some (.oct (octVal c) 1, [])
    else match simpleEsc c with
      | some x => some (.normal, [x])
      | none => none
  | .oct v n, c =>
    if isOct c then
      (if n ≥ 2 then some (.normal, [Char.ofNat (8 * v + octVal c)])
       else some (.oct (8 * v + octVal c) (n + 1), []))
    else plain q c [Char.ofNat v]

/-- end of the body -/
def finish : St → Option (List Char)
  | .normal => some []
  | .esc => none
  | .oct v _ => some [Char.ofNat v]

/-- the characters denoted by the rest of a body, read from state `st` -/
def runFrom (q : Char) : St → List Char → Option (List Char)
  | st, [] => finish st
  | st, c :: r =>
    match step q st c with
    | none => none
    | some (st', out) => (runFrom q st' r).map (out ++ ·)

/-- the characters a C compiler denotes by the literal body -/
def denote (q : Char) (body : List Char) : Option (List Char) := runFrom q .normal body

/-- state and output after reading a piece of a body -/
def trans (q : Char) : St → List Char → Option (St × List Char)
  | st, [] => some (st, [])
  | st, c :: r =>
    match step q st c with
    | none => none
    | some (st', out) =>
      match trans q st' r with
      | none => none
      | some (st'', out') => some (st'', out ++ out')

end AldorVerif.CLit
