/-! # Reference meaning of the integer / boolean FOAM builtins at a machine width `w`

Hand-written from what the operation means (integers read with `toInt`, result reduced to the
width with `BitVec.ofInt`), not from either back end's text.  `Spec32` is the meaning at Java's
`int` width, `Spec64` the meaning at the width of the C routes (`FiSInt` is C `long`, 64 bit, in
both the interpreter `fint.c` and generated C).  A division by zero has no value (`none`): the
interpreter faults, Java throws — both are the failure status.

FOAM `Byte` is an *unsigned* 8-bit quantity (`typedef unsigned char FiByte`), `HInt` a signed
16-bit one, `Char` is read unsigned.  -/
namespace AldorVerif.JSpec
namespace Spec
variable {w : Nat}

/-! ## booleans -/
def BoolFalse : Bool := false
def BoolTrue : Bool := true
def BoolNot (a : Bool) : Bool := !a
def BoolAnd (a b : Bool) : Bool := a && b
def BoolOr (a b : Bool) : Bool := a || b
def BoolEQ (a b : Bool) : Bool := decide (a = b)
def BoolNE (a b : Bool) : Bool := decide (a ≠ b)

/-! ## characters (unsigned code points) -/
def CharEQ (a b : BitVec w) : Bool := decide (a.toNat = b.toNat)
def CharNE (a b : BitVec w) : Bool := decide (a.toNat ≠ b.toNat)
def CharLT (a b : BitVec w) : Bool := decide (a.toNat < b.toNat)
def CharLE (a b : BitVec w) : Bool := decide (a.toNat ≤ b.toNat)
/-- `ord`: the code as a non-negative integer of width `v` -/
def CharOrd (v : Nat) (a : BitVec w) : BitVec v := BitVec.ofNat v a.toNat
/-- `char`: the character with the given code (modulo the character width `v`) -/
def CharNum (v : Nat) (a : BitVec w) : BitVec v := BitVec.ofNat v a.toNat

/-! ## single integers -/
def SInt0 : BitVec w := BitVec.ofInt w 0
def SInt1 : BitVec w := BitVec.ofInt w 1
def SIntMin : BitVec w := BitVec.ofInt w (-(2 ^ (w - 1)))
def SIntMax : BitVec w := BitVec.ofInt w (2 ^ (w - 1) - 1)
def SIntIsZero (a : BitVec w) : Bool := decide (a.toInt = 0)
def SIntIsNeg (a : BitVec w) : Bool := decide (a.toInt < 0)
def SIntIsPos (a : BitVec w) : Bool := decide (0 < a.toInt)
def SIntIsEven (a : BitVec w) : Bool := decide (a.toInt % 2 = 0)
def SIntIsOdd (a : BitVec w) : Bool := decide (a.toInt % 2 = 1)
def SIntEQ (a b : BitVec w) : Bool := decide (a.toInt = b.toInt)
def SIntNE (a b : BitVec w) : Bool := decide (a.toInt ≠ b.toInt)
def SIntLT (a b : BitVec w) : Bool := decide (a.toInt < b.toInt)
def SIntLE (a b : BitVec w) : Bool := decide (a.toInt ≤ b.toInt)
def SIntNegate (a : BitVec w) : BitVec w := BitVec.ofInt w (-a.toInt)
def SIntPrev (a : BitVec w) : BitVec w := BitVec.ofInt w (a.toInt - 1)
def SIntNext (a : BitVec w) : BitVec w := BitVec.ofInt w (a.toInt + 1)
def SIntPlus (a b : BitVec w) : BitVec w := BitVec.ofInt w (a.toInt + b.toInt)
def SIntMinus (a b : BitVec w) : BitVec w := BitVec.ofInt w (a.toInt - b.toInt)
def SIntTimes (a b : BitVec w) : BitVec w := BitVec.ofInt w (a.toInt * b.toInt)
def SIntTimesPlus (a b c : BitVec w) : BitVec w := BitVec.ofInt w (a.toInt * b.toInt + c.toInt)
/-- quotient truncated toward zero -/
def SIntQuo (a b : BitVec w) : Option (BitVec w) :=
  if b.toInt = 0 then none else some (BitVec.ofInt w (a.toInt.tdiv b.toInt))
/-- remainder with the sign of the dividend -/
def SIntRem (a b : BitVec w) : Option (BitVec w) :=
  if b.toInt = 0 then none else some (BitVec.ofInt w (a.toInt.tmod b.toInt))
/-- both reference routes compute `a % b` (C remainder) for `SIntMod`: `fint.c` case
`FOAM_BVal_SIntMod`, `genc.c` row `CCO_Mod` -/
def SIntMod (a b : BitVec w) : Option (BitVec w) := SIntRem a b
/-- `(a + b) % n`, `(a - b) % n`, `(a * b) % n` with the inner operation at machine width -/
def SIntPlusMod (a b n : BitVec w) : Option (BitVec w) := SIntRem (SIntPlus a b) n
def SIntMinusMod (a b n : BitVec w) : Option (BitVec w) := SIntRem (SIntMinus a b) n
def SIntTimesMod (a b n : BitVec w) : Option (BitVec w) := SIntRem (SIntTimes a b) n
/-- `a · 2^n` for a shift count `0 ≤ n`; the count is read as a natural number -/
def SIntShiftUp (a n : BitVec w) : BitVec w := BitVec.ofInt w (a.toInt * 2 ^ n.toNat)
/-- `⌊a / 2^n⌋` -/
def SIntShiftDn (a n : BitVec w) : BitVec w := BitVec.ofInt w (a.toInt / 2 ^ n.toNat)
/-- bit `i` of the two's-complement representation: `⌊a / 2^i⌋` is odd -/
def SIntBit (a i : BitVec w) : Bool := decide ((a.toInt / 2 ^ i.toNat) % 2 = 1)
/-- one's complement: `-a - 1` -/
def SIntNot (a : BitVec w) : BitVec w := BitVec.ofInt w (-a.toInt - 1)
def SIntAnd (a b : BitVec w) : BitVec w := a &&& b
def SIntOr (a b : BitVec w) : BitVec w := a ||| b
def SIntXOr (a b : BitVec w) : BitVec w := a ^^^ b

/-! ## bytes (unsigned 8 bit) and half integers (signed 16 bit) -/
def Byte0 : BitVec 8 := 0#8
def Byte1 : BitVec 8 := 1#8
def ByteMin : BitVec 8 := 0#8
def ByteMax : BitVec 8 := 255#8
def HInt0 : BitVec 16 := 0#16
def HInt1 : BitVec 16 := 1#16
def HIntMin : BitVec 16 := BitVec.ofInt 16 (-32768)
def HIntMax : BitVec 16 := BitVec.ofInt 16 32767
def ByteToSInt (a : BitVec 8) : BitVec w := BitVec.ofNat w a.toNat
def SIntToByte (a : BitVec w) : BitVec 8 := BitVec.ofInt 8 a.toInt
def HIntToSInt (a : BitVec 16) : BitVec w := BitVec.ofInt w a.toInt
def SIntToHInt (a : BitVec w) : BitVec 16 := BitVec.ofInt 16 a.toInt

end Spec

/-- signed range of Java `int` -/
def InI32 (x : Int) : Prop := -2147483648 ≤ x ∧ x ≤ 2147483647

instance (x : Int) : Decidable (InI32 x) := by unfold InI32; exact inferInstance

end AldorVerif.JSpec
