import AldorVerif.Model.SrcPos
/-
Model of the end-of-compilation report of aldor/aldor/src/comsg.c: comsgFini → comsgReportFile
(reverse the collected list, stable insertion sort `lisort` with `comsgCmpPtr = sposCmp` on the
positions, runs of messages with the same GLOBAL line number) → comsgReportLine (one header
with the source line for the run, then every message whose text differs from the text of the
message before it in the run).  Hand model, tied by correspondence: the `R` request of
harness/srcpos_drv.c issues `comsgError`s at positions made by the real includer and lets the
real `comsgFini` print; plus the end-to-end sub-check.
-/
namespace AldorVerif.ComsgReport
open AldorVerif.SrcPos

/-- the fields of `struct CoMsg` the report looks at -/
structure CoMsg where
  pos    : SrcPos
  serial : Nat
  text   : String
deriving DecidableEq, Repr

/-- inner loop of `lisort` (util.c) for one new element `x`; the argument is the already sorted
prefix in reverse order: `x` moves left past every element that compares greater. -/
def sink (x : CoMsg) : List CoMsg → List CoMsg
  | [] => [x]
  | y :: r => if sposCmp y.pos x.pos > 0 then y :: sink x r else x :: y :: r

/-- `lisort(comsgv, comsgc, …, comsgCmpPtr)`: stable insertion sort. -/
def lisort (l : List CoMsg) : List CoMsg := (l.foldl (fun acc x => sink x acc) []).reverse

/-- the run loop of `comsgReportFile`: maximal runs of neighbours with the same
`sposGlobalLine` (the C loop compares with the first of the run; equality is transitive). -/
def runs : List CoMsg → List (List CoMsg)
  | [] => []
  | m :: r =>
    match runs r with
    | (h :: t) :: gs =>
      if sposGlobalLine m.pos == sposGlobalLine h.pos then (m :: h :: t) :: gs else [m] :: (h :: t) :: gs
    | _ => [[m]]

/-- the message loop of `comsgReportLine`: `lastText` starts as "", a message is printed when
`strcmp(lastText, co->text)` is non-zero, and `lastText` always advances. -/
def shownFrom (last : String) : List CoMsg → List CoMsg
  | [] => []
  | m :: r => if last != m.text then m :: shownFrom m.text r else shownFrom m.text r

/-- one printed block: the position whose source line is shown as header (`comsgv[0]->pos`),
the run (all of it gets a `^` in the indicator line), and the messages printed under it. -/
structure Group where
  first : SrcPos
  all   : List CoMsg
  shown : List CoMsg
deriving Repr

def mkGroup : List CoMsg → Option Group
  | [] => none
  | m :: r => some ⟨m.pos, m :: r, shownFrom "" (m :: r)⟩

/-- `comsgReportFile`; `msgs` is the list `messages` (newest first, as `comsgVDo` conses it). -/
def reportFile (sort : Bool) (msgs : List CoMsg) : List Group :=
  let v := msgs.reverse
  let v := if sort then lisort v else v
  (runs v).filterMap mkGroup

end AldorVerif.ComsgReport
