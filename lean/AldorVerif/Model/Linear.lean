/-
Model of aldor/aldor/src/linear.c, the lineariser ("bracketing of piles"): the pass between the
scanner and the parser that removes comments and newlines, and -- inside `#pile` regions -- turns
indentation into the block tokens `KW_SetTab` / `KW_BackSet` / `KW_BackTab`, then inserts `;`
after `}` and deletes `;` before tokens that cannot start a statement.

Hand model, tied by correspondence: harness/linear_drv.c (links the repository's own linear.c)
against Driver/Linear.lean on scanned sources and on random token lists.

What `linearize` looks at in a token is its tag and its column (`sposChar`); line numbers and the
token's text are only carried along.  Tokens the lineariser makes itself (`linKeyword`) copy the
position of an existing token; `text` stands for everything that is copied with the position.

The passes follow the C text one by one: `linXComments`, `linXBlankLines`, (`FINT_LOOP`: push a
`#pile`), `linCheckBalance`, `lntFrTokenList`, `lin2DRules`, `lntToTokenList`, `linXNewLines`,
`linISepAfterDontPiles`, `linXSep`.
-/
namespace AldorVerif.Linear

/-! ## tokens -/

/-- `enum tokenTag` of token.h, by its numeric value (the driver checks the table against token.c). -/
abbrev Tag := Nat

def tkPreDoc    : Tag := 6
def tkPostDoc   : Tag := 7
def tkComment   : Tag := 8
def kwAdd       : Tag := 11
def kwAlways    : Tag := 13
def kwBut       : Tag := 16
def kwCatch     : Tag := 19
def kwElse      : Tag := 24
def kwFinally   : Tag := 29
def kwThen      : Tag := 61
def kwTry       : Tag := 64
def kwWith      : Tag := 67
def kwComma     : Tag := 72
def kwSemicolon : Tag := 73
def kwAt        : Tag := 76
def kwOCurly    : Tag := 113
def kwCCurly    : Tag := 118
def kwNewLine   : Tag := 125
def kwStartPile : Tag := 126
def kwEndPile   : Tag := 127
def kwSetTab    : Tag := 128
def kwBackSet   : Tag := 129
def kwBackTab   : Tag := 130
/-- `TK_START`, `TK_LIMIT` -/
def tkStart : Tag := 1
def tkLimit : Tag := 132

/-- column [F] of `tokInfoTable`: `[ [| { {| ( (|` -/
def isOpener (k : Tag) : Bool := [111, 112, 113, 114, 115, 116].contains k
/-- column [G]: `] } ) |] |} |)` -/
def isCloser (k : Tag) : Bool := [117, 118, 119, 121, 122, 123].contains k
/-- column [H]: and always but catch else finally from in of or pretend then to where
`,` `$` `:=` `:` `:*` `::` `.` `==` `==>` `+->` `+->*` -/
def isFollower (k : Tag) : Bool :=
  [12, 13, 16, 19, 24, 29, 34, 40, 51, 52, 53, 61, 63, 65, 72, 74, 77, 78, 79, 80, 83, 86, 87,
   102, 103].contains k
/-- `tokIsNonStarter` -/
def isNonStarter (k : Tag) : Bool := isFollower k || isCloser k

structure Tok where
  tag  : Tag
  text : String
  line : Nat
  col  : Nat
deriving DecidableEq, Repr, Inhabited

/-- `linKeyword(org, key)`: a keyword token at the position of `org` (`sposNone` if there is none). -/
def Tok.kw (org : Option Tok) (key : Tag) : Tok :=
  match org with
  | some o => { o with tag := key }
  | none   => { tag := key, text := "", line := 0, col := 0 }

/-! ## list passes before the tree -/

/-- `linXTokens(tl, tag)`: delete the tokens with that tag. -/
def xTokens (k : Tag) (tl : List Tok) : List Tok := tl.filter (fun t => t.tag != k)

/-- `linXBlankLines0`: drop leading newlines. -/
def xBlankLines0 : List Tok → List Tok
  | [] => []
  | t :: r => if t.tag == kwNewLine then xBlankLines0 r else t :: r

/-- the loop of `linXBlankLines`; `skip` = the previous kept token was a newline or `#pile`
(or we are at the start of the list), so newlines here are dropped. -/
def xBlankLinesGo : Bool → List Tok → List Tok
  | _, [] => []
  | skip, t :: r =>
    if t.tag == kwNewLine then
      if skip then xBlankLinesGo true r else t :: xBlankLinesGo true r
    else t :: xBlankLinesGo (t.tag == kwStartPile) r

/-- `linXBlankLines`: free leading newlines and all but the first of consecutive newlines, and
the newlines after a `#pile`. -/
def xBlankLines (tl : List Tok) : List Tok := xBlankLinesGo true tl

/-! ## balance check (diagnostics only: `tok->extra` is read nowhere else) -/

/-- `linCheckBalance0` with the recursion turned into an explicit stack of the open `{` / `#pile`
tags (innermost first; the `TK_Blank` sentinel of `linCheckBalance` is the empty stack).
Returns the number of `ALDOR_E_LinUnbalanced` *errors*.  At the end of the input every opener
still on the stack is visited: `{` gives an error; (openers deeper than 1 also give a warning,
not counted). -/
def balanceGo : List Tag → List Tok → Nat
  | stack, [] => (stack.filter (· != kwStartPile)).length
  | stack, t :: r =>
    if t.tag == kwStartPile || t.tag == kwOCurly then balanceGo (t.tag :: stack) r
    else if t.tag == kwEndPile then
      match stack with
      | o :: s => if o == kwStartPile then balanceGo s r else 1 + balanceGo stack r
      | [] => 1 + balanceGo stack r
    else if t.tag == kwCCurly then
      match stack with
      | o :: s => if o == kwOCurly then balanceGo s r else 1 + balanceGo stack r
      | [] => 1 + balanceGo stack r
    else balanceGo stack r

def checkBalance (tl : List Tok) : Nat := balanceGo [] tl

/-! ## the line tree -/

/-- `HAS_NonCom`, `HAS_NonBlank` -/
structure Has where
  nonCom   : Bool
  nonBlank : Bool
deriving DecidableEq, Repr, Inhabited

def Has.none : Has := ⟨false, false⟩
def Has.or (a b : Has) : Has := ⟨a.nonCom || b.nonCom, a.nonBlank || b.nonBlank⟩

/-- `lntTokHas` -/
def tokHas (k : Tag) : Has :=
  if k == kwNewLine || k == tkComment then ⟨false, false⟩
  else if k == tkPostDoc || k == tkPreDoc then ⟨false, true⟩
  else ⟨true, true⟩

/-- `struct lnode`: `LN_1Tok`, `LN_NTok`, `LN_NNodes`, `LN_DoPile` with `has`, `indent`, `argv`.
(`indent` is a `Length` assigned to `int`s: `-1` is `MootIndentation`.) -/
inductive LNode where
  | tok1  (t : Tok)
  | ntok  (has : Has) (indent : Int) (ts : List Tok)
  | nodes (has : Has) (indent : Int) (cs : List LNode)
  | pile  (has : Has) (indent : Int) (cs : List LNode)
deriving Repr, Inhabited

def mootIndentation : Int := -1

def LNode.has : LNode → Has
  | .tok1 t => tokHas t.tag
  | .ntok h _ _ => h
  | .nodes h _ _ => h
  | .pile h _ _ => h

def LNode.indent : LNode → Int
  | .tok1 t => (t.col : Int)
  | .ntok _ i _ => i
  | .nodes _ i _ => i
  | .pile _ i _ => i

/-- `linIsBlank` -/
def LNode.isBlank (n : LNode) : Bool := !n.has.nonBlank
/-- `linIsCom` -/
def LNode.isCom (n : LNode) : Bool := !n.has.nonCom

def LNode.isTok1 : LNode → Bool
  | .tok1 _ => true
  | _ => false

def LNode.tok1? : LNode → Option Tok
  | .tok1 t => some t
  | _ => none

/-- `linIsArgKW(lnt, n, k)` for an argument that exists -/
def LNode.isKW (n : LNode) (k : Tag) : Bool :=
  match n with
  | .tok1 t => t.tag == k
  | _ => false

def hasOfList (cs : List LNode) : Has := cs.foldl (fun h c => h.or c.has) Has.none

mutual
/-- `lntFirstTok`: follows the first argument down; an empty node on the way gives 0. -/
def firstTok : LNode → Option Tok
  | .tok1 t => some t
  | .ntok _ _ ts => ts.head?
  | .nodes _ _ cs => firstTokL cs
  | .pile _ _ cs => firstTokL cs
def firstTokL : List LNode → Option Tok
  | [] => none
  | c :: _ => firstTok c
end

mutual
/-- `lntLastTok`: follows the last argument down. -/
def lastTok : LNode → Option Tok
  | .tok1 t => some t
  | .ntok _ _ ts => ts.getLast?
  | .nodes _ _ cs => lastTokL cs
  | .pile _ _ cs => lastTokL cs
def lastTokL : List LNode → Option Tok
  | [] => none
  | [c] => lastTok c
  | _ :: c :: cs => lastTokL (c :: cs)
end

/-- last token that is not a newline, of a token array (the `LN_1Tok`/`LN_NTok` case) -/
def lastNonNL : List Tok → Option Tok
  | [] => none
  | t :: r => match lastNonNL r with
    | some u => some u
    | none => if t.tag == kwNewLine then none else some t

mutual
/-- `lntLastTokLessNL`: the last token that is not a newline, searching the arguments from the
last to the first. -/
def lastTokLessNL : LNode → Option Tok
  | .tok1 t => if t.tag == kwNewLine then none else some t
  | .ntok _ _ ts => lastNonNL ts
  | .nodes _ _ cs => lastTokLessNLL cs
  | .pile _ _ cs => lastTokLessNLL cs
def lastTokLessNLL : List LNode → Option Tok
  | [] => none
  | c :: cs => match lastTokLessNLL cs with
    | some u => some u
    | none => lastTokLessNL c
end

/-- `lntConcat(lnt, rnt)` (the right argument is never NULL where it is called) -/
def lntConcat (l : Option LNode) (r : LNode) : LNode :=
  match l with
  | none => r
  | some l => .nodes (l.has.or r.has) l.indent [l, r]

/-- `lntSeparate(lnt, sep, rnt)` -/
def lntSeparate (l : LNode) (sep : Tag) (r : LNode) : LNode :=
  .nodes ((l.has.or (tokHas sep)).or r.has) l.indent [l, .tok1 (Tok.kw (lastTok l) sep), r]

/-- `lntWrap(open, lnt, close)` -/
def lntWrap (op : Tag) (l : LNode) (cl : Tag) : LNode :=
  .nodes (((tokHas op).or l.has).or (tokHas cl)) l.indent
    [.tok1 (Tok.kw (firstTok l) op), l, .tok1 (Tok.kw (lastTok l) cl)]

/-! ### token list → tree (`lntFrTokenList`) -/

/-- `linIndentation`: the column of the first token, skipping a label `@ id`; moot if the line
starts with a newline (or is empty). -/
def linIndentation (tl : List Tok) : Int :=
  let tl := match tl with
    | t :: r => if t.tag == kwAt then r.drop 1 else t :: r
    | [] => []
  match tl with
  | t :: _ => if t.tag == kwNewLine then mootIndentation else (t.col : Int)
  | [] => mootIndentation

/-- `lntFrTL_MakeLine(ll, in0, n, ntoks)`; `cs` is the list in source order, `n = cs.length`,
`ntoks` = the number of `LN_1Tok` entries (only those are counted by the callers). -/
def makeLine (cs : List LNode) (in0 : Int) : LNode :=
  match cs with
  | [c] => c
  | _ =>
    if cs.all LNode.isTok1 then .ntok (hasOfList cs) in0 (cs.filterMap LNode.tok1?)
    else .nodes (hasOfList cs) in0 cs

/-- what the model answers when the recursion budget is used up (it never is: see `frFuel`) -/
def fuelTok : Tok := { tag := 0, text := "FUEL", line := 0, col := 0 }

/-- an `LN_DoPile` node over `cs` (`has` = the union over the arguments) -/
def mkPile (cs : List LNode) (in0 : Int) : LNode := .pile (hasOfList cs) in0 cs
/-- an `LN_NNodes` node over `cs` -/
def mkNodes (cs : List LNode) (in0 : Int) : LNode := .nodes (hasOfList cs) in0 cs

/-- end of `lntFrTL_DoPile`: take the closing `#endpile`, or make one up at `sposNone` when the
input ended (the loop before stops only at `#endpile` or at the end). `ll` reversed. -/
def closePile (ll : List LNode) (r : List Tok) : List LNode × List Tok :=
  match r with
  | e :: r' => (.tok1 e :: ll, r')
  | [] => (.tok1 (Tok.kw none kwEndPile) :: ll, [])

/-- end of `lntFrTL_DontPile`: take the closing `}` if it is there. -/
def closeDont (o : Tok) (body : LNode) (r : List Tok) : List LNode × List Tok :=
  match r with
  | c :: r' => if c.tag == kwCCurly then ([.tok1 o, body, .tok1 c], r') else ([.tok1 o, body], r)
  | [] => ([.tok1 o, body], [])

/- The recursive-descent functions `lntFrTL_*` return the node and the remaining tokens (`*ptl`).
The global counters `depthDoPileNo`, `depthDontPileNo` are incremented on entry to `DoPile` /
`DontPile` and decremented on exit, so they are passed down as arguments `dDo`, `dDont`.
The first argument is a recursion budget. -/
mutual
/-- `lntFrTL_DoPile`: the list starts with `#pile`. -/
def frDoPile : Nat → Nat → Nat → List Tok → LNode × List Tok
  | 0, _, _, _ => (.tok1 fuelTok, [])
  | fuel+1, dDo, dDont, tl0 =>
    match tl0 with
    | [] => (.tok1 fuelTok, [])            -- assert(tl0)
    | p :: r =>
      let in0 := linIndentation tl0
      let lp := frDoPileLoop fuel (dDo+1) dDont [.tok1 p] r
      let cl := closePile lp.1 lp.2
      (mkPile cl.1.reverse in0, cl.2)
/-- the `while (tl0 && tokTag(car(tl0)) != DoPileEnd)` loop of `lntFrTL_DoPile`; `ll` reversed -/
def frDoPileLoop : Nat → Nat → Nat → List LNode → List Tok → List LNode × List Tok
  | 0, _, _, ll, _ => (.tok1 fuelTok :: ll, [])
  | fuel+1, dDo, dDont, ll, tl0 =>
    match tl0 with
    | [] => (ll, [])
    | t :: _ =>
      if t.tag == kwEndPile then (ll, tl0)
      else
        let ln := frDoLine fuel dDo dDont tl0
        frDoPileLoop fuel dDo dDont (ln.1 :: ll) ln.2
/-- `lntFrTL_DoLine` -/
def frDoLine : Nat → Nat → Nat → List Tok → LNode × List Tok
  | 0, _, _, _ => (.tok1 fuelTok, [])
  | fuel+1, dDo, dDont, tl0 =>
    match tl0 with
    | [] => (.ntok Has.none 0 [], [])
    | _ :: _ =>
      let in0 := linIndentation tl0
      let lp := frDoLineLoop fuel dDo dDont [] tl0
      (makeLine lp.1.reverse in0, lp.2)
/-- the `do … while` loop of `lntFrTL_DoLine` (entered with a non-empty list) -/
def frDoLineLoop : Nat → Nat → Nat → List LNode → List Tok → List LNode × List Tok
  | 0, _, _, ll, _ => (.tok1 fuelTok :: ll, [])
  | fuel+1, dDo, dDont, ll, tl0 =>
    match tl0 with
    | [] => (ll, [])
    | t :: r =>
      if t.tag == kwStartPile then
        let p := frDoPile fuel dDo dDont tl0
        frDoLineLoop fuel dDo dDont (p.1 :: ll) p.2      -- (stops when nothing is left)
      else if t.tag == kwOCurly then
        let p := frDontPile fuel dDo dDont tl0
        frDoLineLoop fuel dDo dDont (p.1 :: ll) p.2
      else if t.tag == kwEndPile then
        -- `break` out of the switch without consuming; the loop condition then ends the loop
        -- (`depthDoPileNo` is at least 1 wherever `DoLine` is called; with 0 the C loop would
        -- not terminate)
        (ll, tl0)
      else if t.tag == kwNewLine then (.tok1 t :: ll, r)
      else if t.tag == kwCCurly && dDont != 0 then (.tok1 t :: ll, r)
      else frDoLineLoop fuel dDo dDont (.tok1 t :: ll) r
/-- `lntFrTL_DontPile`: the list starts with `{`. -/
def frDontPile : Nat → Nat → Nat → List Tok → LNode × List Tok
  | 0, _, _, _ => (.tok1 fuelTok, [])
  | fuel+1, dDo, dDont, tl0 =>
    match tl0 with
    | [] => (.tok1 fuelTok, [])            -- assert(tl0)
    | o :: r =>
      let in0 := linIndentation tl0
      let body := frDontLine fuel dDo (dDont+1) true r
      let cl := closeDont o body.1 body.2
      (mkNodes cl.1 in0, cl.2)
/-- `lntFrTL_DontLine` -/
def frDontLine : Nat → Nat → Nat → Bool → List Tok → LNode × List Tok
  | 0, _, _, _, _ => (.tok1 fuelTok, [])
  | fuel+1, dDo, dDont, isStacking, tl0 =>
    match tl0 with
    | [] => (.ntok Has.none 0 [], [])
    | _ :: _ =>
      let in0 := linIndentation tl0
      let lp := frDontLineLoop fuel dDo dDont isStacking 0 [] tl0
      (makeLine lp.1.reverse in0, lp.2)
/-- the `while (tl0)` loop of `lntFrTL_DontLine`; `depth` counts the `{` seen here -/
def frDontLineLoop : Nat → Nat → Nat → Bool → Nat → List LNode → List Tok → List LNode × List Tok
  | 0, _, _, _, _, ll, _ => (.tok1 fuelTok :: ll, [])
  | fuel+1, dDo, dDont, isStacking, depth, ll, tl0 =>
    match tl0 with
    | [] => (ll, [])
    | t :: r =>
      if t.tag == kwStartPile then
        let p := frDoPile fuel dDo dDont tl0
        frDontLineLoop fuel dDo dDont isStacking depth (p.1 :: ll) p.2
      else if isStacking && t.tag == kwOCurly then
        frDontLineLoop fuel dDo dDont isStacking (depth+1) (.tok1 t :: ll) r
      else if isStacking && t.tag == kwCCurly then
        if depth == 0 then (ll, tl0)       -- depth < 0: break
        else frDontLineLoop fuel dDo dDont isStacking (depth-1) (.tok1 t :: ll) r
      else frDontLineLoop fuel dDo dDont isStacking depth (.tok1 t :: ll) r
end

/-- budget for `lntFrTokenList`: every call and every loop iteration of the descent consumes a
token or directly follows the consumption of one -/
def frFuel (tl : List Tok) : Nat := 6 * tl.length + 16

/-- `lntFrTokenList` -/
def frTokenList (tl : List Tok) : LNode := (frDontLine (frFuel tl) 0 0 false tl).1

/-! ### the 2-D rules -/

/-- `isPileRequired(context, lnt)`: the token before the pile is one of the alphabetic keywords
after which a single line forms a pile. -/
def isPileRequired (context : Option LNode) : Bool :=
  match context.bind lastTokLessNL with
  | none => false
  | some tok =>
    tok.tag == kwThen || tok.tag == kwElse || tok.tag == kwWith || tok.tag == kwAdd ||
    tok.tag == kwTry || tok.tag == kwBut || tok.tag == kwCatch || tok.tag == kwFinally ||
    tok.tag == kwAlways

/-- which exit of `isBackSetRequired` is taken: 1 = rule 1 (`lnt1` only `++` comments / a blank
line), 5 = a missing token (BackSet), 2 = rule 2 (`,` or opener before), 3 = rule 3 (follower or
closer after), 0 = the normal case (BackSet). -/
def backSetRule (l1 l2 : LNode) : Nat :=
  if l1.isCom || l1.isBlank || l2.isBlank then 1
  else match lastTokLessNL l1, firstTok l2 with
    | some t1, some t2 =>
      if t1.tag == kwComma || isOpener t1.tag then 2
      else if isFollower t2.tag || isCloser t2.tag then 3
      else 0
    | _, _ => 5

/-- `isBackSetRequired(context, lnt1, lnt2)` (the context is not used) -/
def isBackSetRequired (l1 l2 : LNode) : Bool :=
  let r := backSetRule l1 l2
  r == 0 || r == 5

/-- the loop of `joinUp`: `lnt` so far, `hadBackSet`, the previous line `t0`, the lines left -/
def joinLoop : LNode → Bool → LNode → List LNode → LNode × Bool
  | lnt, had, _, [] => (lnt, had)
  | lnt, had, t0, t1 :: rest =>
    if isBackSetRequired t0 t1 then joinLoop (lntSeparate lnt kwBackSet t1) true t1 rest
    else joinLoop (lntConcat (some lnt) t1) had t1 rest

/-- `joinUp(context, tll)`: insert `SetTab .. BackSet .. BackSet .. BackTab`. -/
def joinUp (context : Option LNode) (tll : List LNode) : LNode :=
  match tll with
  | [] => .nodes Has.none mootIndentation []     -- assert(tll != 0)
  | first :: rest =>
    let j := joinLoop first false first rest
    if j.2 || isPileRequired context then lntWrap kwSetTab j.1 kwBackTab else j.1

mutual
/-- `lin2DRulesPile0(context, lnt, &iS, &iE)`: `lst` is `argv[iS..iE]`; returns the piled node and
`argv[iS'..iE]`. -/
def pile0 : Nat → Option LNode → List LNode → LNode × List LNode
  | 0, _, _ => (.tok1 fuelTok, [])
  | fuel+1, context, lst =>
    match lst with
    | [] => (.nodes Has.none mootIndentation [], [])      -- `lntNewEmpty(LN_NNodes, 0)`
    | first :: _ =>
      let lp := pile0Loop fuel first.indent [] lst
      (lntConcat context (joinUp context lp.1.reverse), lp.2)
/-- the `while (iS <= iE)` loop of `lin2DRulesPile0`; `sofar` reversed as in C -/
def pile0Loop : Nat → Int → List LNode → List LNode → List LNode × List LNode
  | 0, _, sofar, _ => (.tok1 fuelTok :: sofar, [])
  | fuel+1, indentS, sofar, lst =>
    match lst with
    | [] => (sofar, [])
    | lnt0 :: rest =>
      if lnt0.isBlank || lnt0.indent == mootIndentation then
        pile0Loop fuel indentS (lnt0 :: sofar) rest
      else if lnt0.indent < indentS then (sofar, lst)
      else if lnt0.indent == indentS then pile0Loop fuel indentS (lnt0 :: sofar) rest
      else
        match sofar with
        | [] => (sofar, [])       -- `setcar(NULL, …)`: cannot happen, the first line is always kept
        | s :: ss =>
          let p := pile0 fuel (some s) lst
          pile0Loop fuel indentS (p.1 :: ss) p.2
end

/-- the `while (iS <= iE)` loop of `lin2DRulesPile`: the outdented piles that follow -/
def pileOutdents : Nat → LNode → List LNode → LNode
  | 0, rnt, _ => rnt
  | fuel+1, rnt, lst =>
    match lst with
    | [] => rnt
    | _ :: _ =>
      let r := pile0 (3 * lst.length + 4) (some rnt) lst
      pileOutdents fuel r.1 r.2

/-- `argv[iS..iE]` of `lin2DRulesPile`: the arguments without the `#pile` token in front
(`hasStarter`) and -- when both are there -- the `#endpile` token at the end (`hasEnder`). -/
def pileMid (cs : List LNode) : List LNode :=
  let hasStarter := cs.head?.any (·.isKW kwStartPile)
  let hasEnder := cs.getLast?.any (·.isKW kwEndPile)
  let iS := if hasStarter then 1 else 0
  -- `iE + 1`
  let iE1 := if hasStarter && hasEnder then cs.length - 1 else cs.length
  (cs.take iE1).drop iS

/-- the two loops of `lin2DRulesPile` over `argv[iS..iE]` -/
def rulesPileMid (mid : List LNode) : LNode :=
  let r := pile0 (3 * mid.length + 4) none mid
  pileOutdents (mid.length + 1) r.1 r.2

/-- `lin2DRulesPile(lnt)` for an `LN_DoPile` node whose arguments are `cs`. -/
def rulesPile (cs : List LNode) : LNode := rulesPileMid (pileMid cs)

mutual
/-- `lin2DRules` -/
def rules : LNode → LNode
  | .tok1 t => .tok1 t
  | .ntok h i ts => .ntok h i ts
  | .nodes h i cs => .nodes h i (rulesL cs)
  | .pile _ _ cs => rulesPile (rulesL cs)
def rulesL : List LNode → List LNode
  | [] => []
  | c :: cs => rules c :: rulesL cs
end

/-! ### tree → token list -/

/-- `lntConsNL` -/
def consNL (rsofar : List Tok) : List Tok := Tok.kw rsofar.head? kwNewLine :: rsofar

mutual
/-- `lntToTokenList0(lnt, rsofar)`: conses the tokens onto the reversed list.
(`LN_DoPile`: a newline between each pair of arguments.  No such node is left after `lin2DRules`;
for the two or more arguments such a node always has this is what the C loop does.) -/
def toTokenList0 : LNode → List Tok → List Tok
  | .tok1 t, rsofar => t :: rsofar
  | .ntok _ _ ts, rsofar => ts.reverse ++ rsofar
  | .nodes _ _ cs, rsofar => toTokenListL cs rsofar
  | .pile _ _ cs, rsofar => toTokenListP cs rsofar
def toTokenListL : List LNode → List Tok → List Tok
  | [], rsofar => rsofar
  | c :: cs, rsofar => toTokenListL cs (toTokenList0 c rsofar)
def toTokenListP : List LNode → List Tok → List Tok
  | [], rsofar => rsofar
  | [c], rsofar => toTokenList0 c rsofar
  | c :: c' :: cs, rsofar => toTokenListP (c' :: cs) (consNL (toTokenList0 c rsofar))
end

/-- `lntToTokenList` -/
def toTokenList (lnt : LNode) : List Tok := (toTokenList0 lnt []).reverse

/-! ## `;` handling -/

/-- `linISepAfterDontPiles`: insert `;` after every `}` that is followed by something other
than `;`. -/
def iSepAfterDontPiles : List Tok → List Tok
  | [] => []
  | t :: rest =>
    if t.tag == kwCCurly then
      match rest with
      | [] => [t]
      | u :: _ =>
        if u.tag == kwSemicolon then t :: iSepAfterDontPiles rest
        else t :: Tok.kw (some t) kwSemicolon :: iSepAfterDontPiles rest
    else t :: iSepAfterDontPiles rest

/-- first loop of `linXSep`: delete the leading `;`. -/
def xSepLeading : List Tok → List Tok
  | [] => []
  | t :: r => if t.tag == kwSemicolon then xSepLeading r else t :: r

/-- second loop of `linXSep`: delete a `;` that is the last token or stands before a follower or
closer; after a deletion the cursor moves on to the token behind the deleted one. -/
def xSepGo : List Tok → List Tok
  | [] => []
  | [t] => [t]
  | t :: s :: rest =>
    if s.tag != kwSemicolon then t :: xSepGo (s :: rest)
    else match rest with
      | [] => [t]
      | u :: _ => if isNonStarter u.tag then t :: xSepGo rest else t :: xSepGo (s :: rest)

/-- `linXSep` -/
def xSep (tl : List Tok) : List Tok := xSepGo (xSepLeading tl)

/-- `linUseNeededSep` -/
def useNeededSep (tl : List Tok) : List Tok := xSep (iSepAfterDontPiles tl)

/-! ## `linearize` -/

/-- the token list `linCheckBalance` and `lntFrTokenList` get -/
def prepare (loopMode : Bool) (tl : List Tok) : List Tok :=
  let tl := xBlankLines (xTokens tkComment tl)
  if loopMode then Tok.kw none kwStartPile :: tl else tl

/-- `linearize`, with `fintMode == FINT_LOOP` as a parameter -/
def linearizeMode (loopMode : Bool) (tl : List Tok) : List Tok :=
  let tl := prepare loopMode tl
  let lnt := frTokenList tl
  let lnt := rules lnt
  let tl := toTokenList lnt
  let tl := xTokens kwNewLine tl
  useNeededSep tl

/-- `linearize` in a batch compile (`fintMode != FINT_LOOP`) -/
def linearize (tl : List Tok) : List Tok := linearizeMode false tl

/-- number of `ALDOR_E_LinUnbalanced` errors `linearize` reports -/
def linearizeErrors (loopMode : Bool) (tl : List Tok) : Nat := checkBalance (prepare loopMode tl)

end AldorVerif.Linear
