/-! # The compiler's exit status (main.c, axlcomp.c) — hand model

```
main:           status = compCmd(argc, argv);
                return (status < 0 || status > 255) ? 255 : status;      (since 20d6e38)
compCmd:        return compFilesLoop(argc, argv);
compFilesLoop:  totErrors = 0; for each file { nErrors = compSourceFile(..); totErrors += nErrors; }
                ... return totErrors;
compSourceFile: msgCount = comsgErrorCount(); ... return msgCount;
```
The value returned by `main` is handed to `exit`; the parent sees its low 8 bits
(`WEXITSTATUS`).  `main` saturates the count at 255; before 20d6e38 it returned it unchanged
(`mainClampOld`), so 256 errors looked like success.
(Fatal errors and the fault handler leave through `exitFailure()` = `exit(EXIT_FAILURE)`;
that path is not the subject of this model.) -/
namespace AldorVerif.Exit

/-- `compFilesLoop`: the sum of the per-file error counts -/
def compFilesLoop (fileErrors : List Nat) : Nat := fileErrors.foldl (· + ·) 0

/-- what `main` does to the total before returning it: `(status < 0 || status > 255) ? 255 : status`
    (the count is never negative) -/
def mainClamp (n : Nat) : Nat := min n 255

/-- the text before 20d6e38: `return compCmd(argc, argv);` -/
def mainClampOld (n : Nat) : Nat := n

/-- the status the parent process observes for `exit(r)` -/
def osStatus (r : Nat) : Nat := r % 256

/-- exit status of a run that reported `errors` errors in total -/
def exitStatus (errors : Nat) : Nat := osStatus (mainClamp errors)

def exitStatusFiles (fileErrors : List Nat) : Nat := exitStatus (compFilesLoop fileErrors)

end AldorVerif.Exit
