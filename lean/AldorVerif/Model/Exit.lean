/-! # The compiler's exit status (main.c, axlcomp.c) — hand model

```
main:           return compCmd(argc, argv);
compCmd:        return compFilesLoop(argc, argv);
compFilesLoop:  totErrors = 0; for each file { nErrors = compSourceFile(..); totErrors += nErrors; }
                ... return totErrors;
compSourceFile: msgCount = comsgErrorCount(); ... return msgCount;
```
The value returned by `main` is handed to `exit`; the parent sees its low 8 bits
(`WEXITSTATUS`).  There is no clamping anywhere on this path.
(Fatal errors and the fault handler leave through `exitFailure()` = `exit(EXIT_FAILURE)`;
that path is not the subject of this model.) -/
namespace AldorVerif.Exit

/-- `compFilesLoop`: the sum of the per-file error counts -/
def compFilesLoop (fileErrors : List Nat) : Nat := fileErrors.foldl (· + ·) 0

/-- what `main` does to the total before returning it.  Today: nothing.
    SWITCH: after a repair such as `return n > 255 ? 255 : n;` (or `n ? EXIT_FAILURE : 0`)
    change this definition accordingly (`min n 255`, resp. `if n = 0 then 0 else 1`). -/
def mainClamp (n : Nat) : Nat := n

/-- the status the parent process observes for `exit(r)` -/
def osStatus (r : Nat) : Nat := r % 256

/-- exit status of a run that reported `errors` errors in total -/
def exitStatus (errors : Nat) : Nat := osStatus (mainClamp errors)

def exitStatusFiles (fileErrors : List Nat) : Nat := exitStatus (compFilesLoop fileErrors)

end AldorVerif.Exit
