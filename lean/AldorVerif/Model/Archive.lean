/-! # Model of the member walk of `archive.c` for the common `!<arch>` format

`arRdFormat` (magic), `arFirst/arNext/arEndp/arSeek`, `arRdItemArch0` (the 60-byte member
header: name 16, date 12, uid 6, gid 6, mode 8, size 10, fmag 2), `arReadNumber` (`strtol` on
a field, value 0 + diagnostic when malformed).  Not modelled: the `//` name table and `/123`
indirect names (`arRdItemArch`, `arReadNameTable`): a header whose terminated name is empty (the field
begins with `/`, blank or NUL) ends the modelled walk with outcome `special`; a header that crosses the end of the file ends
it with outcome `shortHeader` (the C code then runs `arRdItemArch` on an empty name, see
Props/C17). Offsets are C `unsigned long`: arithmetic modulo 2^64. -/
namespace AldorVerif.Archive

def magicArch : List Nat := [33, 60, 97, 114, 99, 104, 62, 10]   -- "!<arch>\n"
def firstPos : Nat := 8
def memberHdrSize : Nat := 60
def align : Nat := 2
def two64 : Nat := 18446744073709551616

def isSpace (c : Nat) : Bool := c = 32 || (9 ≤ c && c ≤ 13)
def isDigit (base c : Nat) : Bool := 48 ≤ c && c < 48 + base

/-- the C string in a field: up to the first NUL -/
def cstr : List Nat → List Nat
  | [] => []
  | c :: cs => if c = 0 then [] else c :: cstr cs

def skipSpaces : List Nat → List Nat
  | [] => []
  | c :: cs => if isSpace c then skipSpaces cs else c :: cs

/-- digits → (value, rest, number of digits) -/
def digits (base : Nat) : List Nat → Nat → Nat → Nat × List Nat × Nat
  | [], acc, k => (acc, [], k)
  | c :: cs, acc, k => if isDigit base c then digits base cs (acc * base + (c - 48)) (k + 1) else (acc, c :: cs, k)

structure Num where
  value : Nat
  bad : Bool        -- ALDOR_E_ArBadNumber was reported (value forced to 0)
deriving Repr, DecidableEq

/-- `arReadNumber` on the `len` bytes of a field that was read completely -/
def parseNum (base : Nat) (field : List Nat) : Num :=
  let s := cstr field
  match s with
  | [] => ⟨0, true⟩                                   -- "Must have something in the buffer"
  | c0 :: _ =>
    let t := skipSpaces s
    let (neg, t1) := match t with
      | 45 :: r => (true, r)
      | 43 :: r => (false, r)
      | _ => (false, t)
    let (v, rest, k) := digits base t1 0 0
    if k = 0 then
      -- no conversion: endp = start of the buffer
      if c0 = 32 then ⟨0, false⟩ else ⟨0, true⟩
    else
      let endOk := match rest with
        | [] => true
        | c :: _ => c = 32
      if endOk then ⟨if neg then (two64 - v % two64) % two64 else v % two64, false⟩ else ⟨0, true⟩

def roundUp (v : Nat) : Nat := if v % align ≠ 0 then (v + (align - v % align)) % two64 else v

/-- the name as `arRdItemArch0` terminates it: up to NUL, blank or `/` -/
def termName : List Nat → List Nat
  | [] => []
  | c :: cs => if c = 0 || c = 32 || c = 47 then [] else c :: termName cs

inductive Step
  | stop                                                    -- `arNext`: next = 0 or ≥ size
  | shortHeader                                             -- header crosses the end of file
  | special                                                 -- terminated name is empty
  | dropped (next : Nat) (nbad : Nat)                       -- data position ≥ size: walk ends
  | member (name : List Nat) (dataPos next nbad : Nat)
deriving Repr, DecidableEq

def slice (file : List Nat) (p n : Nat) : List Nat := (file.drop p).take n

def step (file : List Nat) (p : Nat) : Step :=
  let size := file.length
  if p = 0 ∨ p ≥ size then .stop
  else if p + memberHdrSize > size then .shortHeader
  else
    let nameF := slice file p 16
    let date := parseNum 10 (slice file (p + 16) 12)
    let uid := parseNum 10 (slice file (p + 28) 6)
    let gid := parseNum 10 (slice file (p + 34) 6)
    let mode := parseNum 8 (slice file (p + 40) 8)
    let sz := parseNum 10 (slice file (p + 48) 10)
    let nbad := [date, uid, gid, mode, sz].countP (·.bad)
    if (termName nameF).isEmpty then .special        -- name[0] == '\0' after termination
    else
      let dataPos := p + memberHdrSize
      if dataPos ≥ size then .dropped (roundUp sz.value) nbad     -- arPosition = 0, next = 0 + size
      else .member (termName nameF) dataPos ((dataPos + roundUp sz.value) % two64) nbad

inductive Outcome
  | finished | shortHeader | special | outOfFuel
deriving Repr, DecidableEq

structure Member where
  name : List Nat
  dataPos : Nat
deriving Repr, DecidableEq

/-- `arRdTable` without the `.ao` filter: every member met, in order -/
def walk : Nat → List Nat → Nat → List Member × Outcome × Nat
  | 0, _, _ => ([], .outOfFuel, 0)
  | fuel + 1, file, p =>
    match step file p with
    | .stop => ([], .finished, 0)
    | .shortHeader => ([], .shortHeader, 0)
    | .special => ([], .special, 0)
    | .dropped _ nb => ([], .finished, nb)
    | .member name d next nb =>
      let (ms, o, b) := walk fuel file next
      (⟨name, d⟩ :: ms, o, b + nb)

def isArch (file : List Nat) : Bool := file.take 8 == magicArch

/-- positions strictly increase from header to header (no `-` sign in a size field) -/
def Forward (file : List Nat) (p : Nat) : Prop :=
  match step file p with
  | .member _ _ next _ => p < next
  | _ => True

end AldorVerif.Archive
