/-
Model of the parts of aldor/aldor/src that decide in which ORDER things come out of the
compiler's containers (C08).  Hand model, tied by correspondence (harness/determ_drv.c):

* table.c  (chained hashing with move-to-front):  tblNew, tblElt, tblSetElt, tblDrop,
  tblEnlarge, BUCKET_SEARCH, and the iteration order shared by tblITER/_tblSTEP, tblNMap,
  tblPrint, tblColumnPrint, tblRemoveIf, tblFreeDeeply, tblCopy (all walk bucket 0..buckc-1,
  each chain from its head);  util.c: binPrime, cielLg.
* strops.c: strHash  (the content hash used by symbol.c, lib.c, gf_imps.c, absyn.c, tform.c).
* util.c: lisort  and  lib.c: libCmpCode  (what libCodeSort does to lib->codev).

The order in which a table is iterated is a function of: the bucket count, the hash value of
every key, which keys the table's equality test identifies, and the history of
insert / lookup / drop operations (lookups move the found slot to the front of its chain).
Nothing else enters -- in particular no address, unless the hash value IS the address
(`tblNew(0, 0)`: `h = (Hash) ptrCanon(k)`).

Assumptions of the model (not checked by Lean): `buckc < 2^31` (C stores `h % buckc` in an
`int`); allocation never fails; `binPrime` is never indexed past its 33 entries.
-/
namespace AldorVerif.TableOrder

/-! ## util.c -/

/-- `binPrimeArray`. -/
def binPrimeArray : List Nat :=
  [1, 2, 3, 7, 13, 31, 61, 127, 251, 509, 1021, 2039, 4093, 8191, 16381,
   32749, 65521, 131071, 262139, 524287, 1048573, 2097143, 4194301,
   8388593, 16777213, 33554393, 67108859, 134217689, 268435399,
   536870909, 1073741789, 2147483647, 4294967291]

/-- `binPrime(nbits)`; out-of-range index (undefined behaviour in C) is `0` here. -/
def binPrime (nbits : Nat) : Nat := binPrimeArray.getD nbits 0

/-- `cielLg(n)`: least `i` with `n <= 2^i`  (`for (i = 0, p = 1; ; i++, p <<= 1) if (n <= p) return i;`).
`fuel` bounds the loop (65 suffices for 64-bit `n`). -/
def cielLgLoop (n : Nat) : Nat → Nat → Nat → Nat
  | 0, i, _ => i
  | fuel + 1, i, p => if n ≤ p then i else cielLgLoop n fuel (i + 1) (p * 2)

def cielLg (n : Nat) : Nat := cielLgLoop n 65 0 1

/-! ## table.c -/

def TBL_InitBuckC : Nat := 7
def TBL_MaxLoad : Nat := 5

/-- `struct TblSlot` without its `next` pointer: a chain is a `List Slot`, head first. -/
structure Slot (κ : Type) where
  key : κ
  elt : Nat
  hash : Nat
  deriving Repr, DecidableEq

/-- `struct table`: `buckv` has `buckc` chains. -/
structure Table (κ : Type) where
  buckc : Nat
  buckv : List (List (Slot κ))
  count : Nat
  deriving Repr

/-- The two function pointers of a table.  `eq k stored` is `!efun || efun(k, b->key)`:
for `eqFun == 0` instantiate `eq := fun _ _ => true` (the test `b->hash == h` is made first,
so a pointer table compares addresses). `hash` is `hfun ? hfun(k) : (Hash) ptrCanon(k)`. -/
structure Params (κ : Type) where
  hash : κ → Nat
  eq : κ → κ → Bool

/-- `tblNew0(hash, eq, buckc)`. -/
def tblNew0 {κ} (buckc : Nat) : Table κ :=
  { buckc := buckc, buckv := List.replicate buckc [], count := 0 }

/-- `tblNew`. -/
def tblNew {κ} : Table κ := tblNew0 TBL_InitBuckC

/-- `BUCKET_SEARCH`: walk the chain; the first slot with `b->hash == h` and a positive
equality test splits the chain into (slots before it, the slot, slots after it). -/
def findSplit {κ} (P : Params κ) (h : Nat) (k : κ) :
    List (Slot κ) → Option (List (Slot κ) × Slot κ × List (Slot κ))
  | [] => none
  | b :: rest =>
    if b.hash == h && P.eq k b.key then some ([], b, rest)
    else match findSplit P h k rest with
      | none => none
      | some (pre, f, post) => some (b :: pre, f, post)

/-- chain `x` of the table. -/
def bucket {κ} (t : Table κ) (x : Nat) : List (Slot κ) := t.buckv.getD x []

/-- what kind of step a request took (branch tag of the driver). -/
inductive Branch | miss | hitFront | hitMoved | insert | insertEnlarge | dropFront | dropMoved
  deriving Repr, DecidableEq

/-- `tblElt(t, k, notFound)`: the found slot is moved to the front of its chain. -/
def tblElt {κ} (P : Params κ) (t : Table κ) (k : κ) : Table κ × Option Nat × Branch :=
  let h := P.hash k
  let x := h % t.buckc
  match findSplit P h k (bucket t x) with
  | none => (t, none, .miss)
  | some (pre, f, post) =>
    ({ t with buckv := t.buckv.set x (f :: (pre ++ post)) }, some f.elt,
     if pre.isEmpty then .hitFront else .hitMoved)

/-- `tblEnlarge`: every slot, bucket by bucket and chain by chain from the head, is pushed on
the FRONT of its new chain. -/
def tblEnlarge {κ} (t : Table κ) : Table κ :=
  let nbuckc := binPrime (cielLg t.buckc + 1)
  let nbuckv := t.buckv.flatten.foldl
    (fun (nb : List (List (Slot κ))) (hd : Slot κ) =>
      let x := hd.hash % nbuckc
      nb.set x (hd :: nb.getD x []))
    (List.replicate nbuckc [])
  { t with buckc := nbuckc, buckv := nbuckv }

/-- `tblSetElt(t, k, e)`. -/
def tblSetElt {κ} (P : Params κ) (t : Table κ) (k : κ) (e : Nat) : Table κ × Branch :=
  let h := P.hash k
  let x := h % t.buckc
  match findSplit P h k (bucket t x) with
  | some (pre, f, post) =>
    ({ t with buckv := t.buckv.set x ({ f with elt := e } :: (pre ++ post)) },
     if pre.isEmpty then .hitFront else .hitMoved)
  | none =>
    let t1 : Table κ := { t with buckv := t.buckv.set x ({ key := k, elt := e, hash := h } :: bucket t x),
                                 count := t.count + 1 }
    if t1.count > TBL_MaxLoad * t1.buckc then (tblEnlarge t1, .insertEnlarge) else (t1, .insert)

/-- `tblDrop(t, k)`: the macro first moves the found slot to the front, the action then
unlinks the front slot. -/
def tblDrop {κ} (P : Params κ) (t : Table κ) (k : κ) : Table κ × Branch :=
  let h := P.hash k
  let x := h % t.buckc
  match findSplit P h k (bucket t x) with
  | none => (t, .miss)
  | some (pre, _, post) =>
    ({ t with buckv := t.buckv.set x (pre ++ post), count := t.count - 1 },
     if pre.isEmpty then .dropFront else .dropMoved)

/-- `for (tblITER(it, t); tblMORE(it); tblSTEP(it))`, `tblNMap`, `tblPrint`, ...: buckets in
index order, each chain from its head. -/
def iterSlots {κ} (t : Table κ) : List (Slot κ) := t.buckv.flatten

def iterOrder {κ} (t : Table κ) : List κ := (iterSlots t).map (·.key)

/-! ### histories -/

inductive OpKind | set | get | drop
  deriving Repr, DecidableEq

/-- one request on a table; `elt` is used by `set` only. -/
structure Op (κ : Type) where
  kind : OpKind
  key : κ
  elt : Nat
  deriving Repr

def Op.map {κ₁ κ₂} (f : κ₁ → κ₂) (o : Op κ₁) : Op κ₂ := { kind := o.kind, key := f o.key, elt := o.elt }

/-- state of a run: the table and the answers of the `get` requests so far (newest first). -/
structure Run (κ : Type) where
  tbl : Table κ
  gets : List (Option Nat)
  tags : List Branch

def step {κ} (P : Params κ) (r : Run κ) (o : Op κ) : Run κ :=
  match o.kind with
  | .set => let (t, b) := tblSetElt P r.tbl o.key o.elt; { r with tbl := t, tags := b :: r.tags }
  | .get => let (t, v, b) := tblElt P r.tbl o.key; { tbl := t, gets := v :: r.gets, tags := b :: r.tags }
  | .drop => let (t, b) := tblDrop P r.tbl o.key; { r with tbl := t, tags := b :: r.tags }

def run {κ} (P : Params κ) (ops : List (Op κ)) : Run κ :=
  ops.foldl (step P) { tbl := tblNew, gets := [], tags := [] }

/-! ## strops.c: strHash -/

/-- one round of the loop body for the character value `c` (`int c = *s++`, `char` is signed on
the targets the suite runs on: bytes `>= 0x80` are negative):
`h ^= (h << 8); h += (c + 200041); h &= 0x3FFFFFFF;`.  `h < 2^30` on entry, so nothing wraps in
the 64-bit `Hash`. -/
def strHashStep (h : Nat) (b : UInt8) : Nat :=
  let c : Nat := if b.toNat < 128 then b.toNat + 200041 else b.toNat + 200041 - 256
  ((h ^^^ (h <<< 8)) + c) &&& 0x3FFFFFFF

/-- `strHash` of the bytes before the terminating NUL. -/
def strHash (bytes : List UInt8) : Nat := bytes.foldl strHashStep 0

/-- the C loop `while ((c = *s++) != 0) {...}` reading memory `mem` from address `a`;
`fuel` bounds the walk (strings are finite). -/
def strHashAt (mem : Nat → UInt8) : Nat → Nat → Nat → Nat
  | 0, _, h => h
  | fuel + 1, a, h => if mem a = 0 then h else strHashAt mem fuel (a + 1) (strHashStep h (mem a))

/-- the bytes of the C string at address `a` (up to, excluding, the first NUL). -/
def cstr (mem : Nat → UInt8) : Nat → Nat → List UInt8
  | 0, _ => []
  | fuel + 1, a => if mem a = 0 then [] else mem a :: cstr mem fuel (a + 1)

/-! ## lib.c: libCmpCode, util.c: lisort -/

/-- `int libCmpCode(UShort *i, UShort *j) { return symeHash(..*i) - symeHash(..*j); }`:
the subtraction is done in the 64-bit unsigned `Hash`, the result converted to `int`
(implementation-defined, two's complement truncation with gcc/clang). -/
def cmpCode (hi hj : Nat) : Int :=
  let d : Nat := (hi % 2 ^ 64 + 2 ^ 64 - hj % 2 ^ 64) % 2 ^ 64
  let lo : Nat := d % 2 ^ 32
  if lo < 2 ^ 31 then (lo : Int) else (lo : Int) - 2 ^ 32

/-- inner loop of `lisort` for the element `x = a[i]`, the already processed prefix given
REVERSED (nearest neighbour first):
`for (j = i; j > 0 && cmpfn(a[j-1], a[j]) > 0; j -= 1) memswap(a[j-1], a[j])`. -/
def sink {α} (cmp : α → α → Int) (x : α) : List α → List α
  | [] => [x]
  | p :: ps => if cmp p x > 0 then p :: sink cmp x ps else x :: p :: ps

/-- `lisort(a, n, sz, cmpfn)`. -/
def lisort {α} (cmp : α → α → Int) (a : List α) : List α :=
  (a.foldl (fun acc x => sink cmp x acc) []).reverse

/-- `libCodeSort`: `codev` (indices into `symev`) sorted by the symes' hash codes;
`hashOf i` is `symeHash(lib->symev[i])`. -/
def codeSort (hashOf : Nat → Nat) (codev : List Nat) : List Nat :=
  lisort (fun i j => cmpCode (hashOf i) (hashOf j)) codev

end AldorVerif.TableOrder
