/-
Model of aldor/aldor/src/srcpos.c (packed source positions and the global line table) and of
the line bookkeeping of aldor/aldor/src/include.c (hand model, tied by correspondence:
harness/srcpos_drv.c, which #includes srcpos.c and runs the real `includeFile`).

`SrcPos` is `ULong` (64 bit here): bit 0 = macro-expanded flag, bits 1..14 = character
number, bits 15..62 = global (serial) line number, bit 63 is kept free for `spstack`.
`Length` is `size_t`: `BitVec 64`.  A `FileName` is modelled by its unparsed string
(`fnameEqual` = string equality; the drivers only use names without directory part).
-/
namespace AldorVerif.SrcPos

abbrev SrcPos := BitVec 64
abbrev Length := BitVec 64

/-! ## field widths (`SPOS_*` macros of srcpos.c; the C driver prints them on `consts`) -/
abbrev ULONG_BITS     : Nat := 64
abbrev SPOS_STK_NBITS : Nat := 1
abbrev SPOS_MAC_NBITS : Nat := 1
abbrev SPOS_CNO_NBITS : Nat := 14
abbrev SPOS_LNO_NBITS : Nat := ULONG_BITS - SPOS_CNO_NBITS - SPOS_MAC_NBITS - SPOS_STK_NBITS
abbrev SPOS_MAC_SHIFT : Nat := 0
abbrev SPOS_CNO_SHIFT : Nat := SPOS_MAC_SHIFT + SPOS_MAC_NBITS
abbrev SPOS_LNO_SHIFT : Nat := SPOS_CNO_SHIFT + SPOS_CNO_NBITS
abbrev SPOS_MAC_MASK : BitVec 64 := ((1#64 <<< SPOS_MAC_NBITS) - 1#64) <<< SPOS_MAC_SHIFT
abbrev SPOS_CNO_MASK : BitVec 64 := ((1#64 <<< SPOS_CNO_NBITS) - 1#64) <<< SPOS_CNO_SHIFT
abbrev SPOS_LNO_MASK : BitVec 64 := ((1#64 <<< SPOS_LNO_NBITS) - 1#64) <<< SPOS_LNO_SHIFT

/-- `#define sposSet(l, c) (((l) << SPOS_LNO_SHIFT) | ((c) << SPOS_CNO_SHIFT))` — neither
argument is masked. -/
def sposSet (l c : BitVec 64) : SrcPos := (l <<< SPOS_LNO_SHIFT) ||| (c <<< SPOS_CNO_SHIFT)

def sposNone : SrcPos := sposSet 0 0
abbrev TOP_LINE_NO : BitVec 64 := 0
abbrev END_LINE_NO : BitVec 64 := (1#64 <<< SPOS_LNO_NBITS) - 1#64
def sposTop : SrcPos := sposSet TOP_LINE_NO 0
def sposEnd : SrcPos := sposSet END_LINE_NO 0

/-- `sposGet(glno, cno)`. -/
def sposGet (glno cno : Length) : SrcPos := sposSet glno cno

/-- `sposOffset(p, c)`: `(((p >> CNO_SHIFT)+c) << CNO_SHIFT) | (p & MAC_MASK)`; `int c` is
converted to `unsigned long` (sign extension = `BitVec.ofInt 64` for `c` in `int` range). -/
def sposOffset (p : SrcPos) (c : Int) : SrcPos :=
  (((p >>> SPOS_CNO_SHIFT) + BitVec.ofInt 64 c) <<< SPOS_CNO_SHIFT) ||| (p &&& SPOS_MAC_MASK)

def sposEqual (p q : SrcPos) : Bool := (p >>> SPOS_CNO_SHIFT) == (q >>> SPOS_CNO_SHIFT)

def sposMin (p q : SrcPos) : SrcPos :=
  if (p >>> SPOS_CNO_SHIFT) < (q >>> SPOS_CNO_SHIFT) then p else q

def sposMax (p q : SrcPos) : SrcPos :=
  if (p >>> SPOS_CNO_SHIFT) > (q >>> SPOS_CNO_SHIFT) then p else q

def sposIsMacroExpanded (p : SrcPos) : BitVec 64 := (p &&& SPOS_MAC_MASK) >>> SPOS_MAC_SHIFT

def sposMacroExpanded (p : SrcPos) : SrcPos := p ||| (1#64 <<< SPOS_MAC_SHIFT)

/-- `sposCmp`: compares the words shifted right by `SPOS_CNO_SHIFT` (unsigned). -/
def sposCmp (p q : SrcPos) : Int :=
  if (p >>> SPOS_CNO_SHIFT) < (q >>> SPOS_CNO_SHIFT) then -1
  else if (p >>> SPOS_CNO_SHIFT) > (q >>> SPOS_CNO_SHIFT) then 1
  else 0

def sposGlobalLine (p : SrcPos) : Length := (p &&& SPOS_LNO_MASK) >>> SPOS_LNO_SHIFT

def sposChar (p : SrcPos) : Length := (p &&& SPOS_CNO_MASK) >>> SPOS_CNO_SHIFT

def sposIsSpecial (p : SrcPos) : Bool :=
  sposGlobalLine p == TOP_LINE_NO || sposGlobalLine p == END_LINE_NO

/-! ## the global line table -/

/-- `GLine`: lines from serial number `glno` on belong to file `fn`, the line with serial number
`glno` being that file's line `flno`. -/
structure GLine where
  glno : Length
  fn   : String
  flno : Length
deriving DecidableEq, Repr

/-- `gloLineTbl[0 .. gloPos-1]`.  `[]` is the state after `sposInit` (`gloPos = 0`, one dummy
entry `{0, NULL, 0}`); as long as only `sposInit`/`sposNew`/`sposGrowGloLineTbl` are used
`gloArgc = max 1 gloPos`. -/
abbrev Table := List GLine

/-- `sposGrowGloLineTbl`. -/
def sposGrow (t : Table) (fname : String) (flno glno : Length) : Table :=
  t ++ [⟨glno, fname, flno⟩]

/-- `int prevGlno = gloLineTbl[..].glno;` and the later comparison with a `Length`: truncation
to 32 bits, then sign extension back to 64. -/
def intOfLength (x : Length) : Length := (x.setWidth 32).signExtend 64

/-- the condition of `sposNew` under which a table entry is added. -/
def sposNewGrows (t : Table) (f : String) (glno : Length) : Bool :=
  match t.getLast? with
  | none => true                                   -- prevName == 0
  | some e => glno ≤ intOfLength e.glno || f != e.fn

/-- `sposNew(fname, flno, glno, cno)`; `fname = none` is the NULL file name. -/
def sposNew (t : Table) (fname : Option String) (flno glno cno : Length) : Table × SrcPos :=
  match fname with
  | none => (t, sposNone)
  | some f => (if sposNewGrows t f glno then sposGrow t f flno glno else t, sposSet glno cno)

/-- the search loop of `sposFile`/`sposLine`: first `i` with
`tbl[i].glno <= g < tbl[i+1].glno`, else the last entry. -/
def findEntry : List GLine → Length → Option GLine
  | [], _ => none
  | [e], _ => some e
  | e :: e' :: r, g =>
    if e.glno ≤ g && g < e'.glno then some e else findEntry (e' :: r) g

/-- `sposFile` (`none` = NULL, the dummy entry's name). -/
def sposFile (t : Table) (p : SrcPos) : Option String :=
  if sposIsSpecial p then t.head?.map (·.fn)
  else
    let g := sposGlobalLine p
    if !t.isEmpty && g != 0 then (findEntry t g).map (·.fn) else t.head?.map (·.fn)

/-- `sposLine`. -/
def sposLine (t : Table) (p : SrcPos) : Length :=
  if sposIsSpecial p then 0
  else
    let g := sposGlobalLine p
    if !t.isEmpty && g != 0 then
      match findEntry t g with
      | some e => (g - e.glno) + e.flno
      | none => 0
    else
      match t.head? with
      | some e => e.glno + e.flno
      | none => 0

/-- instrumentation (not in the C code): `sposNew` adds no entry although the last entry does
not map serial line `glno` to file line `flno` — the position will decode to a wrong line. -/
def sposNewStale (t : Table) (f : String) (flno glno : Length) : Bool :=
  match t.getLast? with
  | none => false
  | some e => !(glno ≤ intOfLength e.glno || f != e.fn) && ((glno - e.glno) + e.flno != flno)

/-! ## the includer's line bookkeeping (include.c: inclLine, inclFile, inclHandleLine)

One event per physical line read by `inclGetLine`, plus `close` for the end of an included file. -/
inductive Ev where
  /-- a line that gets a source position while `INCLUDING(ifState)`: ordinary text, blank and
  comment lines, and the directives for which `SysCmdLine` is built (`#if`, `#endif`, `#assert`,
  unknown `#…`, an `#include` of an already included file …) -/
  | line
  /-- a line inside an inactive `#if` section: only the two counters advance -/
  | skip
  /-- `#line n` / `#line n "f"` (`inclHandleLine`) -/
  | hashLine (n : Int) (f : Option String)
  /-- `#include "f"` of a file that is opened: `SysCmdLine`, then `inclFile` saves `fileState` -/
  | incl (f : String)
  /-- end of the included file: `fileState = o_fileState` -/
  | close
deriving DecidableEq, Repr

/-- the two fields of `FileState` that matter for positions. -/
structure FState where
  curFname   : String
  lineNumber : Int
deriving DecidableEq, Repr

/-- a source line's position together with what the includer knew when it made it. -/
structure Mark where
  pos  : SrcPos
  file : String
  line : Int
deriving DecidableEq, Repr

structure Incl where
  /-- head = `fileState`, tail = the `o_fileState`s saved by the active `inclFile` calls -/
  stack  : List FState
  /-- `inclSerialLineNo` -/
  serial : Int
  table  : Table
  /-- the `SrcLine`s, newest first (the C code conses them reversed as well) -/
  marks  : List Mark
  /-- instrumentation: some `sposNew` call was stale (see `sposNewStale`) -/
  stale  : Bool
deriving Repr

/-- `includeFile(f)`: `inclSerialLineNo = 0`, `inclFile` sets `lineNumber = 0`. -/
def start (f : String) : Incl :=
  { stack := [⟨f, 0⟩], serial := 0, table := [], marks := [], stale := false }

/-- `sposNew(fileState.curFname, fileState.lineNumber, inclSerialLineNo, 1)` + `slineNew`. -/
def mkLine (s : Incl) (cur : FState) (rest : List FState) : Incl :=
  let ln := cur.lineNumber + 1
  let sn := s.serial + 1
  let r := sposNew s.table (some cur.curFname) (BitVec.ofInt 64 ln) (BitVec.ofInt 64 sn) 1
  { stack := ⟨cur.curFname, ln⟩ :: rest, serial := sn, table := r.1,
    marks := ⟨r.2, cur.curFname, ln⟩ :: s.marks,
    stale := s.stale || sposNewStale s.table cur.curFname (BitVec.ofInt 64 ln) (BitVec.ofInt 64 sn) }

def step (s : Incl) (e : Ev) : Incl :=
  match s.stack with
  | [] => s
  | cur :: rest =>
    match e with
    | .line => mkLine s cur rest
    | .skip => { s with stack := ⟨cur.curFname, cur.lineNumber + 1⟩ :: rest, serial := s.serial + 1 }
    | .hashLine n f =>
      -- lineNumber++, serial++ (inclLine), then lineNumber = lno - 1, curFname = fnameParse(fname),
      -- sposGrowGloLineTbl(curFname, lineNumber, inclSerialLineNo)
      let fn := match f with | some g => g | none => cur.curFname
      let sn := s.serial + 1
      { s with stack := ⟨fn, n - 1⟩ :: rest, serial := sn,
               table := sposGrow s.table fn (BitVec.ofInt 64 (n - 1)) (BitVec.ofInt 64 sn) }
    | .incl f =>
      let s' := mkLine s cur rest
      { s' with stack := ⟨f, 0⟩ :: s'.stack }
    | .close => { s with stack := rest }

def run (s : Incl) (evs : List Ev) : Incl := evs.foldl step s

/-- what the scanner does for a token that starts `d` characters into the line text (after
tab expansion): `scTokPos() = sposOffset(scLinePos, scLineChar)`. -/
def tokPos (linePos : SrcPos) (d : Nat) : SrcPos := sposOffset linePos d

end AldorVerif.SrcPos
