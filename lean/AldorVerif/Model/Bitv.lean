/-
Model of aldor/aldor/src/bitv.c (hand model, tied by correspondence: harness/bitv_drv.c).

`BitvWord` is `ULong` = 64-bit; a `Bitv` is the list of its `class->nwords` words; the class
(`struct _BitvClass`) is passed to every operation as in C.  Word loops
(`for (i = 0; i < class->nwords; i++) *r++ = …`) are `replicate`/`map`/`zipWith` over the words
and return the new content of `r` (every vector of a class holds exactly `nwords` words, `r` may
alias an operand as in C since only equal indices meet); bit loops are folds over the bit index.
Padding bits (positions ≥ nbits in the last word) are part of the state, exactly as in C:
`bitvSetAll`/`bitvNot` set them, `bitvEqual` masks them out.
-/
namespace AldorVerif.Bitv

abbrev Word := BitVec 64

/-- `BpW = bitsizeof(BitvWord)` -/
def BpW : Nat := 64

/-- `struct _BitvClass` -/
structure BClass where
  nbits  : Nat
  nwords : Nat
  deriving Repr, DecidableEq, Inhabited

abbrev Bitv := List Word

/-- util.h `QUO_ROUND_UP(n,d) = ((n) % (d) ? (n)/(d) + 1 : (n)/(d))` -/
def quoRoundUp (n d : Nat) : Nat := if n % d ≠ 0 then n / d + 1 else n / d

/-- `bitvClassCreate` (for `nbits ≥ 0`) -/
def classCreate (nbits : Nat) : BClass := { nbits := nbits, nwords := quoRoundUp nbits BpW }

/-- the word `r[i]` -/
def word (r : Bitv) (i : Nat) : Word := r.getD i 0

/-- `1L << (ix % BpW)` -/
def bit (ix : Nat) : Word := (1 : Word) <<< (ix % BpW)

/-- `bitvSetAll`: `for (i = 0; i < nwords; i++) *r++ = ~0L` -/
def setAll (c : BClass) : Bitv := List.replicate c.nwords (~~~(0 : Word))

/-- `bitvClearAll` -/
def clearAll (c : BClass) : Bitv := List.replicate c.nwords (0 : Word)

/-- `bitvTest` (`ix < nbits` is asserted in C) -/
def test (_c : BClass) (r : Bitv) (ix : Nat) : Bool := (word r (ix / BpW) &&& bit ix) != 0

/-- `bitvSet` -/
def set (_c : BClass) (r : Bitv) (ix : Nat) : Bitv := r.set (ix / BpW) (word r (ix / BpW) ||| bit ix)

/-- `bitvClear` -/
def clear (_c : BClass) (r : Bitv) (ix : Nat) : Bitv := r.set (ix / BpW) (word r (ix / BpW) &&& ~~~(bit ix))

/-- `bitvCopy`: `*r++ = *a++` (the new content of `r`) -/
def copy (_c : BClass) (a : Bitv) : Bitv := a

/-- `bitvNot`: `*r++ = ~*a++` -/
def not (_c : BClass) (a : Bitv) : Bitv := a.map (fun x => ~~~x)

/-- `bitvAnd`: `*r++ = *a++ & *b++` -/
def and (_c : BClass) (a b : Bitv) : Bitv := List.zipWith (fun x y => x &&& y) a b

/-- `bitvOr` -/
def or (_c : BClass) (a b : Bitv) : Bitv := List.zipWith (fun x y => x ||| y) a b

/-- `bitvMinus`: `*r++ = *a++ & ~*b++` -/
def minus (_c : BClass) (a b : Bitv) : Bitv := List.zipWith (fun x y => x &&& ~~~y) a b

/-- the loop `for (i = 0; i < nwords-1; i++) if (*a++ != *b++) return false;` of `bitvEqual`:
    `none` = returned false, `some (a, b)` = the cursors after the loop -/
def eqLoop : Nat → Bitv → Bitv → Option (Bitv × Bitv)
  | 0, a, b => some (a, b)
  | n + 1, x :: a, y :: b => if x ≠ y then none else eqLoop n a b
  | _ + 1, _, _ => none

/-- `mask = ~((~0UL) << (nbits % BpW))` -/
def lastMask (c : BClass) : Word := ~~~((~~~(0 : Word)) <<< (c.nbits % BpW))

/-- `bitvEqual` -/
def equal (c : BClass) (a b : Bitv) : Bool :=
  if c.nwords = 0 then true
  else match eqLoop (c.nwords - 1) a b with
    | none => false
    | some (a', b') =>
      if c.nbits % BpW = 0 then word a' 0 == word b' 0
      else (word a' 0 &&& lastMask c) == (word b' 0 &&& lastMask c)

/-- loop of `bitvMax`: `for (i = nbits-1; i >= 0; i--) if (bitvTest(i)) return i; return i;`
    the argument is `i+1` -/
def maxLoop (c : BClass) (bv : Bitv) : Nat → Int
  | 0 => -1
  | i + 1 => if test c bv i then (i : Int) else maxLoop c bv i

/-- `bitvMax` -/
def max (c : BClass) (bv : Bitv) : Int := maxLoop c bv c.nbits

/-- `bitvCountTo`: number of set bits at positions `< n` -/
def countTo (c : BClass) (bv : Bitv) (n : Nat) : Nat :=
  (List.range n).foldl (fun total i => if test c bv i then total + 1 else total) 0

/-- `bitvCount` -/
def count (c : BClass) (bv : Bitv) : Nat := countTo c bv c.nbits

/-- loop of `bitvUnique1IndexInRange`, state `(n1s, last1)`; `none` = early `return -1` -/
def uniqueLoop (c : BClass) (bv : Bitv) : List Nat → Nat → Int → Option (Nat × Int)
  | [], n1s, last1 => some (n1s, last1)
  | i :: is, n1s, last1 =>
    if test c bv i then
      if n1s + 1 > 1 then none else uniqueLoop c bv is (n1s + 1) (i : Int)
    else uniqueLoop c bv is n1s last1

/-- `bitvUnique1IndexInRange(class, bv, org, lim)` -/
def unique1IndexInRange (c : BClass) (bv : Bitv) (org lim : Nat) : Int :=
  match uniqueLoop c bv ((List.range (lim - org)).map (· + org)) 0 (-1) with
  | none => -1
  | some (n1s, last1) => if n1s ≠ 1 then -1 else last1

/-- `bitvFromInt` for `0 ≤ n`; `fresh` is the content of the words `bitvNew` returned
    (C leaves it undefined; only the bits `< nbits` are written). -/
def fromInt (c : BClass) (n : Nat) (fresh : Bitv) : Bitv :=
  (List.range c.nbits).foldl (fun bv i => if n.testBit i then set c bv i else clear c bv i) fresh

/-- `bitvToInt` (`nbits < 32` asserted) -/
def toInt (c : BClass) (bv : Bitv) : Nat :=
  (List.range c.nbits).foldl (fun r i => if test c bv i then r ||| (1 <<< i) else r) 0

/-- `bitvResize(newc, oldc, b)`: the same vector when it already has enough words, else a new
    vector: the old `oldc.nwords` words followed by the (undefined) remaining words `fresh` of the
    new allocation; the old vector is freed (the model has no deallocation). -/
def resize (newc oldc : BClass) (b : Bitv) (fresh : Bitv) : Bitv :=
  if oldc.nwords ≥ newc.nwords then b
  else b.take oldc.nwords ++ fresh.drop oldc.nwords

/-- `bitvToString`: `[` bits, a blank after every fifth, `]` -/
def toString (c : BClass) (a : Bitv) : String :=
  (List.range c.nbits).foldl (fun s i =>
    let s := s ++ (if test c a i then "1" else "0")
    if i % 5 = 4 then s ++ " " else s) "[" ++ "]"

end AldorVerif.Bitv
