import AldorVerif.Gen.OptControl
/-
Model of the level logic of aldor/aldor/src/optfoam.c over the regenerated table
`AldorVerif.Gen.OptControl.rows` (= `optControl[]`): `optSetLevel`, and the flag part of
`optSetOptimization` (which names `-Q<name>` / `-Qno-<name>` accept).
-/
namespace AldorVerif.OptControl
open AldorVerif.Gen.OptControl

/-- a setting of all control variables: (switch name, value) in table order -/
abbrev Config := List (String × Int)

/-- `optSetLevel(lev)`: `index = lev > OPT_MaxLevel ? OPT_MaxLevel : lev`, every variable gets
`value[index]`, and above OPT_MaxLevel `optInlineLimit` is taken from `optQInlineLimit`. -/
def setLevel (lev : Nat) : Config :=
  let index := if lev > maxLevel then maxLevel else lev
  rows.map fun r =>
    if lev > maxLevel ∧ r.var = "optInlineLimit" then (r.name, qInlineLimit.getD (lev - maxLevel - 1) 0)
    else (r.name, r.values.getD index 0)

def flagNames : List String := (rows.filter fun r => r.kind = .flag).map (·.name)
def limitNames : List String := (rows.filter fun r => r.kind = .limit).map (·.name)

def Config.get (c : Config) (n : String) : Int := (c.lookup n).getD 0

/-- the flags that are on -/
def Config.enabled (c : Config) : List String := flagNames.filter fun n => c.get n != 0

/-- limits: −1 means "no limit" -/
def limitLE (a b : Int) : Bool := b == -1 || (a != -1 && a ≤ b)

/-- level `lev+1` switches on at least what `lev` switches on and has limits at least as large -/
def monotoneStep (lev : Nat) : Bool :=
  ((setLevel lev).enabled.all fun n => (setLevel (lev + 1)).enabled.contains n) &&
  (limitNames.all fun n => limitLE ((setLevel lev).get n) ((setLevel (lev + 1)).get n))

/-- the flag loop of `optSetOptimization` after stripping `no-` prefixes: "all", then
"inline-all" (which is also a table row), then the OPT_FLAG rows -/
def acceptsFlag (name : String) : Bool :=
  name == allName || name == inlineAllName || flagNames.contains name

end AldorVerif.OptControl
