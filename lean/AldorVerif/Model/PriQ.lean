import AldorVerif.Model.Table
/-
Model of aldor/aldor/src/priq.c (hand model, tied by correspondence: harness/priq_drv.c).

`struct priq` is `size` (slots allocated) and the used part `argv[0..argc)` of the slot array
(`argc` is the array's size; the stale slots between `argc` and `size` are never read before
being overwritten and are not modelled).  A slot (`struct priqPart`) is `(key, entry)`.
`PriQKey` is `double` in C; the harness uses integer-valued keys, the model uses `Int`.
`cielLg` is the model of util.c's function in Model/Table.lean.
-/
namespace AldorVerif.PriQ

/-- `struct priqPart` -/
abbrev Part := Int × Nat

abbrev Heap := Array Part

/-- `h[i].key` -/
def key (h : Heap) (i : Nat) : Int := (h.getD i (0, 0)).1

/-- `heapParent(i) = ((i)-1)/2` (only used with `i ≥ 1`) -/
def heapParent (i : Nat) : Nat := (i - 1) / 2
/-- `heapLeft(i) = 2*(i)+1` -/
def heapLeft (i : Nat) : Nat := 2 * i + 1
/-- `heapRight(i) = 2*(i)+2` -/
def heapRight (i : Nat) : Nat := 2 * i + 2

/-- `heapExchange(h,i,j)` -/
def heapExchange (h : Heap) (i j : Nat) : Heap := h.swapIfInBounds i j

/-- the two `if`s in the body of `heapSiftOutward`'s loop: the new `imax` -/
def siftChoice (h : Heap) (n i : Nat) : Nat :=
  let imax := i
  let ic := heapLeft i
  let imax := if ic < n ∧ key h ic ≤ key h imax then ic else imax
  let ic := heapRight i
  let imax := if ic < n ∧ key h ic ≤ key h imax then ic else imax
  imax

theorem siftChoice_cases (h : Heap) (n i : Nat) :
    siftChoice h n i = i ∨ (i < siftChoice h n i ∧ siftChoice h n i < n) := by
  unfold siftChoice heapLeft heapRight
  simp only
  split <;> split <;> first | (left; rfl) | (right; omega)

/-- `heapSiftOutward(h, n, i)`: `for (; ; i = imax) { …; if (imax == i) break; heapExchange(h, i, imax); }` -/
def heapSiftOutward (h : Heap) (n i : Nat) : Heap :=
  if siftChoice h n i = i then h
  else heapSiftOutward (heapExchange h i (siftChoice h n i)) n (siftChoice h n i)
termination_by n - i
decreasing_by
  have := siftChoice_cases h n i
  omega

/-- `heapSiftInward(h, r, i)`: `for (; i > r; i = ip) { ip = heapParent(i);
    if (h[ip].key < h[i].key) break; heapExchange(h, i, ip); }` -/
def heapSiftInward (h : Heap) (r i : Nat) : Heap :=
  if i > r then
    if key h (heapParent i) < key h i then h
    else heapSiftInward (heapExchange h i (heapParent i)) r (heapParent i)
  else h
termination_by i
decreasing_by unfold heapParent; omega

/-- `heapInsert(h, n, key, entry)` with `n` = number of used slots -/
def heapInsert (h : Heap) (k : Int) (e : Nat) : Heap :=
  let n := h.size
  heapSiftInward (h.push (k, e)) 0 n

/-- `heapExtractMin(h, n, pkey)` for `n ≥ 1`: the returned `(key, entry)` (kept in slot `n-1` in
    C) and the heap of the remaining `n-1` slots -/
def heapExtractMin (h : Heap) : Part × Heap :=
  let n := h.size
  let h1 := heapExchange h 0 (n - 1)
  let h2 := heapSiftOutward h1 (n - 1) 0
  (h2.getD (n - 1) (0, 0), h2.pop)

/-- `heapCheck`: `bug("Heap out of order.")` as soon as `h[parent].key > h[i].key`;
    `false` stands for the call of `bug`. -/
def heapCheck (h : Heap) : Bool :=
  (List.range (h.size - 1)).all (fun j => !(key h (heapParent (j + 1)) > key h (j + 1)))

/-- `heapMap0`: pre-order walk -/
def heapMap0 (h : Heap) (n ix : Nat) : List Part :=
  if ix < n then
    h.getD ix (0, 0) :: (heapMap0 h n (heapLeft ix) ++ heapMap0 h n (heapRight ix))
  else []
termination_by n - ix
decreasing_by all_goals (simp only [heapLeft, heapRight]; omega)

/-- `struct priq` -/
structure PriQ where
  size : Nat
  argv : Heap
  deriving Repr, Inhabited

/-- `priqCount` -/
def PriQ.argc (pq : PriQ) : Nat := pq.argv.size

/-- `priqNew(argcGuess)`: `size = 1 << cielLg(argcGuess)` -/
def priqNew (argcGuess : Nat) : PriQ := { size := 1 <<< AldorVerif.Table.cielLg argcGuess, argv := #[] }

/-- `priqInsert`: doubles `size` when full -/
def priqInsert (pq : PriQ) (k : Int) (e : Nat) : PriQ :=
  match pq with
  | { size := size, argv := argv } =>
    let size := if size = argv.size then 2 * size else size
    { size := size, argv := heapInsert argv k e }

/-- `priqPeekMin`; `none` for the empty queue (C: `bug("Cannot take min of empty priority queue.")`) -/
def priqPeekMin (pq : PriQ) : Option Part :=
  if pq.argc = 0 then none else some (pq.argv.getD 0 (0, 0))

/-- `priqExtractMin`; `none` for the empty queue (C: `bug("Cannot take min of empty priority queue.")`) -/
def priqExtractMin (pq : PriQ) : Option (Part × PriQ) :=
  match pq with
  | { size := size, argv := argv } =>
    if argv.size = 0 then none
    else
      let r := heapExtractMin argv
      some (r.1, { size := size, argv := r.2 })

/-- `priqCheck` -/
def priqCheck (pq : PriQ) : Bool := heapCheck pq.argv

/-- `priqMap`: the sequence of calls of the mapped function -/
def priqMap (pq : PriQ) : List Part := heapMap0 pq.argv pq.argc 0

end AldorVerif.PriQ
