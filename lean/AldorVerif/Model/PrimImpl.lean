/-!
# Executable meanings of primitives (C04 correspondence driver only)

`Gen.execPrims` (generated) takes a primitive's meaning from here when a definition of the same
name exists; a primitive without an entry is reported `noexec` by the driver and skipped by the
comparison.  Carriers: F32 = Float32, F64 = Float, BInt = Int, Arr = String, Ptr = UInt64.
These are *not* used by any theorem (the theorems quantify over every `Prims`).
-/
namespace AldorVerif.PrimImpl

def b32 (b : Bool) : BitVec 32 := if b then 1#32 else 0#32

/-- decimal / scientific literal as clang prints it ("0", "1", "1.17549435E-38"):
digits with an optional '.', optional exponent -/
def parseLit (s : String) : Float :=
  let cs := s.toList
  let (neg, cs) := match cs with
    | '-' :: r => (true, r)
    | r => (false, r)
  -- mantissa digits, number of digits after the point, exponent
  let rec go (cs : List Char) (m : Nat) (frac : Nat) (inFrac : Bool) : Nat × Nat × List Char :=
    match cs with
    | [] => (m, frac, [])
    | c :: r =>
      if c.isDigit then go r (m * 10 + (c.toNat - '0'.toNat)) (if inFrac then frac + 1 else frac) inFrac
      else if c == '.' then go r m frac true
      else (m, frac, c :: r)
  let (m, frac, rest) := go cs 0 0 false
  let ex : Int := match rest with
    | c :: r =>
      if c == 'e' || c == 'E' then
        let (eneg, r) := match r with
          | '-' :: t => (true, t)
          | '+' :: t => (false, t)
          | t => (false, t)
        let v := r.foldl (fun acc d => if d.isDigit then acc * 10 + (d.toNat - '0'.toNat) else acc) 0
        if eneg then -(v : Int) else (v : Int)
      else 0
    | [] => 0
  let e10 : Int := ex - frac
  let v : Float := if e10 ≥ 0 then Float.ofScientific (m * 10 ^ e10.toNat) false 0
                   else Float.ofScientific m true e10.natAbs
  if neg then -v else v

def f64lit (s : String) : Float := parseLit s
def f32lit (s : String) : Float32 := (parseLit s).toFloat32
def f32tof64 (x : Float32) : Float := x.toFloat
def f64tof32 (x : Float) : Float32 := x.toFloat32
def i32tof32 (x : BitVec 32) : Float32 := Float32.ofInt x.toInt
def i32tof64 (x : BitVec 32) : Float := Float.ofInt x.toInt
def i64tof32 (x : BitVec 64) : Float32 := Float32.ofInt x.toInt
def i64tof64 (x : BitVec 64) : Float := Float.ofInt x.toInt
def f32add (a b : Float32) : Float32 := a + b
def f32sub (a b : Float32) : Float32 := a - b
def f32mul (a b : Float32) : Float32 := a * b
def f32div (a b : Float32) : Float32 := a / b
def f32neg (a : Float32) : Float32 := -a
def f32lt (a b : Float32) : Bool := a < b
def f32le (a b : Float32) : Bool := a ≤ b
def f32gt (a b : Float32) : Bool := b < a
def f32ge (a b : Float32) : Bool := b ≤ a
def f32eq (a b : Float32) : Bool := a == b
def f32ne (a b : Float32) : Bool := a != b
def f64add (a b : Float) : Float := a + b
def f64sub (a b : Float) : Float := a - b
def f64mul (a b : Float) : Float := a * b
def f64div (a b : Float) : Float := a / b
def f64neg (a : Float) : Float := -a
def f64lt (a b : Float) : Bool := a < b
def f64le (a b : Float) : Bool := a ≤ b
def f64gt (a b : Float) : Bool := b < a
def f64ge (a b : Float) : Bool := b ≤ a
def f64eq (a b : Float) : Bool := a == b
def f64ne (a b : Float) : Bool := a != b

def bint0 : Int := 0
def bint1 : Int := 1
def bintNew (x : BitVec 64) : Int := x.toInt
def bintPlus (a b : Int) : Int := a + b
def bintMinus (a b : Int) : Int := a - b
def bintTimes (a b : Int) : Int := a * b
def bintNegate (a : Int) : Int := -a
def bintIsZero (a : Int) : BitVec 32 := b32 (a == 0)
def bintIsNeg (a : Int) : BitVec 32 := b32 (a < 0)
def bintIsPos (a : Int) : BitVec 32 := b32 (0 < a)
def bintEQ (a b : Int) : BitVec 32 := b32 (a == b)
def bintLT (a b : Int) : BitVec 32 := b32 (a < b)
def bintGT (a b : Int) : BitVec 32 := b32 (b < a)

def nullPtr : UInt64 := 0
def nullBInt : Int := 0
def eqPtr (a b : UInt64) : Bool := a == b
def Ptrtoi64 (p : UInt64) : BitVec 64 := BitVec.ofNat 64 p.toNat
def i64toPtr (x : BitVec 64) : UInt64 := UInt64.ofNat x.toNat

end AldorVerif.PrimImpl
