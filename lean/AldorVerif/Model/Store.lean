/-
Model of aldor/aldor/src/store.c (the B-tree based allocator, `STO_USE_BTREE`): a deterministic
BOOKKEEPING model (hand model, tied by correspondence: harness/store_drv.c).

What is modelled
* sections (`struct Section`): base, page count, kind (fixed of class i / mixed) and, in address
  order, the pieces they consist of.  A piece carries its size and its state; its address is
  implicit (the running sum from `Section.data`, as in the C code where a piece is found through
  `nbytesThis/nbytesPrev` resp. `data + qmno*qmSize`).  The quantum tags `info[]` are the piece
  states (QmBusyFirst+code = `busy code`, QmFreeFirst+isFree = `free`, QmFreeFirst+!isFree =
  `front`, the piece `mixedFrontier` points to).
* `fixedPieces[i]`: LIFO lists of addresses.
* `mixedPieces`: the B-tree is abstracted as the key-ordered association list
  size ↦ doubly linked list of same-size pieces (head = `dll->pieces`, then along `linkA`).
* `mixedFrontier`.
* stoAlloc, stoFree, stoResize, stoRecode, piecesGetFixed, pieceGetMixed, piecePutMixed,
  mxmemSplit/Merge/Link/Unlink, sectPrepare, sectQmCount, stoGcSweep/SweepFixed/SweepMixed.

What is an INPUT (not modelled)
* the page layer (`pagesGet`, `pgMap`, `osAlloc`): when the model needs pages it is told the
  base address the real run obtained (`grant`); it only checks that the address is page aligned
  and that the pages do not overlap a section it already has.  `sectFor` (a walk over the page
  map) is the lookup of the section whose page range contains the address.
* the marker (`stoGcMark`): `sweep` is told which busy blocks carry a mark.
* byte contents (`newFill`, `freeFill`, the `memcpy` of `stoResize`), the statistics counters.

Where the model departs from the letter of the C text
* the tag `QmBusyFirst+code` is written where the C code clears `isFree` (inside
  `pieceGetMixed`), not afterwards in `stoAlloc`: nothing reads the tag in between.
* after `mxmemSplit` the remainder is in the state `front` (isFree = false inherited from the
  piece being carved, tag QmFreeFirst) exactly as in C; the C code's `mt->isFree = true` before
  `piecePutMixed(mt)` is a dead store (piecePutMixed never reads the flag of the piece it is given
  and sets it at its end) and is not modelled; in the "reuse btree entry" branch it is.
* `stoGcSweepMixed` re-reads `nbytesThis` after a merge ("Handle if next piece was merged"); the
  model walks the pieces the section had when the sweep reached it, which visits the same busy
  pieces in the same order.
* requests the C code answers with `stoError`/NULL or leaves undefined (free/resize/recode of a
  pointer that is not a live block, size 0) make the model return `none`.

Addresses are offsets from `heapStart` at initialisation.
-/
namespace AldorVerif.Store

/-! ## constants (the C driver answers `consts` with the values compiled into store.c) -/
def ptrSize : Nat := 8
def fixedSizes : List Nat := [8, 16, 24, 32, 48, 64, 80, 96, 128, 160, 192, 256]
def fixedSizeMax : Nat := 256
def mixedQuantum : Nat := 256
def pgSize : Nat := 4096
def sectHead : Nat := 46
def mxHead : Nat := 32
def qmInfoSize : Nat := 1
def fixedPgGroup : Nat := 1
def mixedPgGroup : Nat := 2
def codeMask : Nat := 31

/-- `ROUND_UP(n,d)` -/
def roundUp (n d : Nat) : Nat := if n % d = 0 then n else n + d - n % d
/-- `QUO_ROUND_UP(n,d)` -/
def quoRoundUp (n d : Nat) : Nat := if n % d = 0 then n / d else n / d + 1

/-- `fixedSizeIndexFor[n]` as set up by `stoInit` -/
def classIdx (n : Nat) : Nat := fixedSizes.findIdx (fun sz => decide (n ≤ sz))
/-- `fixedSize[i]` -/
def classSize (i : Nat) : Nat := fixedSizes.getD i 0

/-! ## sections and pieces -/

inductive PSt where
  | free
  | busy (code : Nat)
  | front
deriving DecidableEq, Repr

structure Piece where
  n : Nat
  st : PSt
deriving DecidableEq, Repr

structure Sect where
  base : Nat
  pages : Nat
  /-- `some i`: fixed pieces of class `i`; `none`: mixed pieces -/
  cls : Option Nat
  pieces : List Piece
deriving Repr

/-- `sectQmCount` -/
def sectQmCount (pages qm : Nat) : Nat := (pages * pgSize - sectHead) / (qm + qmInfoSize)

def Sect.qm (sc : Sect) : Nat :=
  match sc.cls with
  | some i => classSize i
  | none => mixedQuantum
def Sect.qmCount (sc : Sect) : Nat := sectQmCount sc.pages sc.qm
def Sect.lim (sc : Sect) : Nat := sc.base + sc.pages * pgSize
/-- `x->data = p + (npages*PgSize - nq*sz)` (sectPrepare) -/
def Sect.data (sc : Sect) : Nat := sc.base + (sc.pages * pgSize - sc.qmCount * sc.qm)
/-- distance from the piece to the pointer handed out (`MxMemHeadSize` for mixed pieces) -/
def Sect.hdr (sc : Sect) : Nat :=
  match sc.cls with
  | some _ => 0
  | none => mxHead
def Sect.has (sc : Sect) (a : Nat) : Bool := decide (sc.base ≤ a) && decide (a < sc.lim)

def sizes (l : List Piece) : Nat := (l.map (·.n)).sum

/-! ### walking the pieces of one section; `cur` is the address of the head of the list -/

/-- the piece that starts at `a` -/
def pcsAt (a : Nat) : Nat → List Piece → Option Piece
  | _, [] => none
  | cur, p :: r => if cur = a then some p else pcsAt a (cur + p.n) r

/-- `mxmemNext` of the piece that starts at `a` -/
def pcsNext (a : Nat) : Nat → List Piece → Option Piece
  | _, [] => none
  | cur, p :: r => if cur = a then r.head? else pcsNext a (cur + p.n) r

/-- `mxmemPrev`: the piece that ends at `a` -/
def pcsPrev (a : Nat) : Nat → List Piece → Option Piece
  | _, [] => none
  | cur, p :: r => if cur + p.n = a then some p else pcsPrev a (cur + p.n) r

/-- set the state of the piece at `a` (tag write / `isFree`) -/
def pcsSetSt (a : Nat) (st : PSt) : Nat → List Piece → List Piece
  | _, [] => []
  | cur, p :: r => if cur = a then { p with st := st } :: r else p :: pcsSetSt a st (cur + p.n) r

/-- `mxmemSplit(curr, k)`: the piece at `a` keeps `k` bytes, the remainder becomes a piece in
state `st2` -/
def pcsSplit (a k : Nat) (st2 : PSt) : Nat → List Piece → List Piece
  | _, [] => []
  | cur, p :: r =>
    if cur = a then ⟨k, p.st⟩ :: ⟨p.n - k, st2⟩ :: r else p :: pcsSplit a k st2 (cur + p.n) r

/-- `mxmemMerge(curr, next)` with `curr` the piece at `a` -/
def pcsMergeNext (a : Nat) : Nat → List Piece → List Piece
  | cur, p :: q :: r =>
    if cur = a then ⟨p.n + q.n, p.st⟩ :: r else p :: pcsMergeNext a (cur + p.n) (q :: r)
  | _, l => l

def Sect.upd (f : Nat → List Piece → List Piece) (sc : Sect) : Sect :=
  { sc with pieces := f sc.data sc.pieces }

/-- apply `f` to the section that contains address `a` (`sectFor`) -/
def updAt (a : Nat) (f : Nat → List Piece → List Piece) (sects : List Sect) : List Sect :=
  sects.map (fun sc => if sc.has a then sc.upd f else sc)

/-- `sectFor(p)` (the page map walk is abstracted: the section whose pages contain `a`) -/
def findSect (a : Nat) (sects : List Sect) : Option Sect := sects.find? (·.has a)

/-- insert a newly prepared section; `none` when its pages overlap a section we have
(sections are kept in address order, the order in which the sweeper visits the page map) -/
def insertSect (n : Sect) : List Sect → Option (List Sect)
  | [] => some [n]
  | s :: r =>
    if n.lim ≤ s.base then some (n :: s :: r)
    else if s.lim ≤ n.base then (insertSect n r).map (s :: ·)
    else none

/-! ## the free-piece index (`mixedPieces`) -/

abbrev Tree := List (Nat × List Nat)

/-- `btreeSearchGE` -/
def tFindGE (t : Tree) (n : Nat) : Option (Nat × List Nat) := t.find? (fun e => decide (n ≤ e.1))
/-- `btreeSearchEQ` -/
def tFindEQ (t : Tree) (k : Nat) : Option (Nat × List Nat) := t.find? (fun e => e.1 == k)
/-- `mxmemUnlink` of piece `a` from the list of key `k` (the entry stays, possibly empty) -/
def tUnlink (t : Tree) (k a : Nat) : Tree :=
  t.map (fun e => if e.1 = k then (e.1, e.2.erase a) else e)
/-- `btreeDeleteX` + `mxmemFreeDLL` -/
def tDelete (t : Tree) (k : Nat) : Tree := t.filter (fun e => e.1 != k)
/-- `btreeInsertX` -/
def tInsert (k : Nat) (l : List Nat) : Tree → Tree
  | [] => [(k, l)]
  | e :: r => if k < e.1 then (k, l) :: e :: r else e :: tInsert k l r
/-- the `WHILE (mi > u && v)` walk of `mxmemLink` followed by the insertion after `u` -/
def dllInsert (mi : Nat) : List Nat → List Nat
  | [] => [mi]
  | u :: r => if mi > u && !r.isEmpty then u :: dllInsert mi r else u :: mi :: r
/-- `mxmemLink` -/
def tLink (t : Tree) (k a : Nat) : Tree :=
  match tFindEQ t k with
  | some _ => t.map (fun e => if e.1 = k then (e.1, dllInsert a e.2) else e)
  | none => tInsert k [a] t
/-- is the list of key `k` empty (`!dll->pieces`) -/
def tEmptyAt (t : Tree) (k : Nat) : Bool :=
  match tFindEQ t k with
  | some (_, []) => true
  | _ => false
/-- `mxmemUnlinkFromBTree` -/
def tUnlinkDel (t : Tree) (k a : Nat) : Tree :=
  let t1 := tUnlink t k a
  if tEmptyAt t1 k then tDelete t1 k else t1
/-- "Reuse btree entry": the (emptied) entry of key `k` becomes the entry `r ↦ [mt]` -/
def tRekey (t : Tree) (k r mt : Nat) : Tree :=
  t.map (fun e => if e.1 = k then (r, [mt]) else e)

/-! ## allocator state -/

structure State where
  /-- in address order -/
  sects : List Sect
  /-- `fixedPieces[i]` -/
  fl : List (List Nat)
  /-- `mixedPieces` -/
  tree : Tree
  /-- `mixedFrontier` -/
  frontier : Option Nat
  /-- branch tags for the evidence (not part of the bookkeeping) -/
  log : List String
deriving Repr

def init : State := ⟨[], List.replicate fixedSizes.length [], [], none, []⟩

def State.tag (s : State) (t : String) : State := { s with log := t :: s.log }

/-- the section containing `a` and the piece that starts at `a` -/
def State.pieceAt (s : State) (a : Nat) : Option (Sect × Piece) :=
  match findSect a s.sects with
  | some sc => (pcsAt a sc.data sc.pieces).map (fun p => (sc, p))
  | none => none

/-- the live block whose pointer is `p`: its section, its piece, its code -/
def State.blockAt (s : State) (p : Nat) : Option (Sect × Piece × Nat) :=
  match findSect p s.sects with
  | some sc =>
    if sc.hdr ≤ p then
      match pcsAt (p - sc.hdr) sc.data sc.pieces with
      | some ⟨n, .busy c⟩ => some (sc, ⟨n, .busy c⟩, c)
      | _ => none
    else none
  | none => none

/-- `stoSize` -/
def State.usable (s : State) (p : Nat) : Option Nat :=
  (s.blockAt p).map (fun (sc, x, _) => x.n - sc.hdr)

/-! ## fixed pieces -/

/-- `piecesGetFixed`: a one-page section of class `i` at the granted address; all its pieces
are chained in front of `fixedPieces[i]` -/
def piecesGetFixed (s : State) (i grant : Nat) : Option State :=
  let sz := classSize i
  let nq := sectQmCount fixedPgGroup sz
  let sc : Sect := ⟨grant, fixedPgGroup, some i, List.replicate nq ⟨sz, .free⟩⟩
  match (if grant % pgSize = 0 then insertSect sc s.sects else none) with
  | none => none
  | some sects' =>
    let pcs := (List.range nq).map (fun q => sc.data + q * sz)
    some ({ s with sects := sects', fl := s.fl.set i (pcs ++ s.fl.getD i []) }.tag "fx-newsect")

/-- the `nbytes <= FixedSizeMax` branch of `stoAlloc` -/
def allocFixed (s : State) (code n grant : Nat) : Option (State × Nat) :=
  let i := classIdx n
  let s1? := match s.fl.getD i [] with
    | [] => piecesGetFixed s i grant
    | _ :: _ => some (s.tag "fx-pop")
  match s1? with
  | none => none
  | some s1 =>
    match s1.fl.getD i [] with
    | [] => none
    | a :: rest =>
      some ({ s1 with fl := s1.fl.set i rest,
                      sects := updAt a (pcsSetSt a (.busy code)) s1.sects }, a)

/-! ## mixed pieces -/

/-- `IF (prev && !prev->isFree) prev = 0;` -/
def freeOnly : Option Piece → Option Piece
  | some q => if q.st = PSt.free then some q else none
  | none => none

/-- `piecePutMixed(mi)` with `mi` the piece at `a` -/
def putMixed (s : State) (a : Nat) : Option State :=
  match s.pieceAt a with
  | none => none
  | some (sc, x) =>
    -- 1. which adjacent pieces will be merged
    let next := freeOnly (pcsNext a sc.data sc.pieces)
    let prev := freeOnly (pcsPrev a sc.data sc.pieces)
    -- 2. remove those pieces from the tree and merge
    let (s1, n1) := match next with
      | some q => ({ s with tree := tUnlinkDel s.tree q.n (a + x.n),
                            sects := updAt a (pcsMergeNext a) s.sects }, x.n + q.n)
      | none => (s, x.n)
    let (s2, mi, n2) := match prev with
      | some q => ({ s1 with tree := tUnlinkDel s1.tree q.n (a - q.n),
                             sects := updAt (a - q.n) (pcsMergeNext (a - q.n)) s1.sects },
                   a - q.n, q.n + n1)
      | none => (s1, a, n1)
    -- 3. add piece to the tree; 4. it is free
    let t := match next, prev with
      | none, none => "put-plain"
      | some _, none => "put-merge-next"
      | none, some _ => "put-merge-prev"
      | some _, some _ => "put-merge-both"
    let t2 := if (tFindEQ s2.tree n2).isSome then "link-dll" else "link-new"
    some (({ s2 with tree := tLink s2.tree n2 mi,
                     sects := updAt mi (pcsSetSt mi .free) s2.sects }.tag t).tag t2)

/-- new frontier section of `pieceGetMixed` -/
def newMixedSect (s : State) (nb grant : Nat) : Option State :=
  let nq := quoRoundUp nb mixedQuantum
  let bytes := sectHead + nq * (qmInfoSize + mixedQuantum)
  let np := quoRoundUp bytes pgSize
  let npages := if np < mixedPgGroup then mixedPgGroup else np
  let sc0 : Sect := ⟨grant, npages, none, []⟩
  let sc : Sect := { sc0 with pieces := [⟨sc0.qmCount * mixedQuantum, .front⟩] }
  match (if grant % pgSize = 0 then insertSect sc s.sects else none) with
  | none => none
  | some sects' => some ({ s with sects := sects', frontier := some sc.data }.tag "mx-newsect")

/-- `IF (mixedFrontier && mixedFrontier->nbytesThis < nbytes)`: the frontier piece is too small,
throw it away (into the tree) -/
def frontDiscard (s : State) (nb : Nat) : Option State :=
  match s.frontier with
  | some f =>
    match s.pieceAt f with
    | some (_, fp) =>
      if fp.n < nb then putMixed ({ s with frontier := none }.tag "mx-front-discard") f
      else some s
    | none => none
  | none => some s

/-- `IF (!mixedFrontier)`: need a new frontier piece to satisfy the request -/
def frontEnsure (s : State) (nb grant : Nat) : Option State :=
  match s.frontier with
  | some _ => some (s.tag "mx-front-use")
  | none => newMixedSect s nb grant

/-- `mi = mixedFrontier; ... shdSplit2`: carve the request from the frontier piece -/
def frontTake (s : State) (code nb : Nat) : Option (State × Nat) :=
  match s.frontier with
  | none => none
  | some mi =>
    match s.pieceAt mi with
    | none => none
    | some (_, x) =>
      let s2 := { s with sects := updAt mi (pcsSetSt mi (.busy code)) s.sects }
      if x.n > nb + mixedQuantum then
        some ({ s2 with sects := updAt mi (pcsSplit mi nb .front) s2.sects,
                        frontier := some (mi + nb) }.tag "front-split", mi)
      else some ({ s2 with frontier := none }.tag "front-whole", mi)

/-- `pieceGetMixed(nbytes)`; the piece is marked busy (with the caller's code) at the point
where the C code clears `isFree` -/
def pieceGetMixed (s : State) (code nb grant : Nat) : Option (State × Nat) :=
  match tFindGE s.tree nb with
  | some (k, a :: _) =>
    match s.pieceAt a with
    | none => none
    | some (_, x) =>
      let t1 := tUnlink s.tree k a
      let is1 := tEmptyAt t1 k
      let s1 := { s with tree := t1, sects := updAt a (pcsSetSt a (.busy code)) s.sects }
      let mn := x.n
      if mn > nb + mixedQuantum then
        let r := mn - nb
        let mt := a + nb
        -- mxmemSplit: the remainder inherits isFree (= false) and gets the tag QmFreeFirst
        let s2 := { s1 with sects := updAt a (pcsSplit a nb .front) s1.sects }
        if !is1 then (putMixed (s2.tag "mx-tree-split-more") mt).map (·, a)
        else if (tFindGE t1 r).map (·.1) != some k then
          (putMixed ({ s2 with tree := tDelete t1 k }.tag "mx-tree-split-delput") mt).map (·, a)
        else some ({ s2 with tree := tRekey t1 k r mt,
                             sects := updAt mt (pcsSetSt mt .free) s2.sects }.tag "mx-tree-split-reuse", a)
      else if is1 then some ({ s1 with tree := tDelete t1 k }.tag "mx-tree-whole-last", a)
      else some (s1.tag "mx-tree-whole-more", a)
  | some (_, []) => none
  | none =>
    -- no piece in the tree is big enough
    match frontDiscard s nb with
    | none => none
    | some s0 =>
      match frontEnsure s0 nb grant with
      | none => none
      | some s1 => frontTake s1 code nb

/-- the `nbytes > FixedSizeMax` branch of `stoAlloc` -/
def allocMixed (s : State) (code n grant : Nat) : Option (State × Nat) :=
  let nb := roundUp (n + mxHead) mixedQuantum
  match pieceGetMixed s code nb grant with
  | none => none
  | some (s1, a) => some (s1, a + mxHead)

/-! ## the externally visible operations -/

/-- `stoAlloc(code, n)`; `grant` is the base of the pages `pagesGet` returned in the real run
(consulted only if a new section is needed); the result is the pointer handed out -/
def alloc (s : State) (code n grant : Nat) : Option (State × Nat) :=
  if n = 0 then none
  else if n ≤ fixedSizeMax then allocFixed s (code % (codeMask + 1)) n grant
  else allocMixed s (code % (codeMask + 1)) n grant

/-- `stoFree(p)`; `none` where the C code calls `stoError(StoErr_FreeBad)` -/
def free (s : State) (p : Nat) : Option State :=
  match s.blockAt p with
  | none => none
  | some (sc, _, _) =>
    match sc.cls with
    | some i =>
      some ({ s with sects := updAt p (pcsSetSt p .free) s.sects,
                     fl := s.fl.set i (p :: s.fl.getD i []) }.tag "fx-free")
    | none => putMixed (s.tag "mx-free") (p - mxHead)

/-- true size of a piece that would be allocated for `n` bytes (`nsz` of `stoResize`) -/
def trueSize (n : Nat) : Nat :=
  if n ≤ fixedSizeMax then classSize (classIdx n)
  else roundUp (n + mxHead) mixedQuantum - mxHead

/-- `stoResize(p, n)`: result pointer; allocation (with the old code), copy, free -/
def resize (s : State) (p n grant : Nat) : Option (State × Nat) :=
  match s.blockAt p with
  | none => none
  | some (sc, x, oc) =>
    let osz := x.n - sc.hdr
    if osz = trueSize n then some (s.tag "rs-same", p)
    else
      match alloc (s.tag "rs-move") oc n grant with
      | none => none
      | some (s1, np) => (free s1 p).map (·, np)

/-- `stoRecode(p, code)` -/
def recode (s : State) (p code : Nat) : Option State :=
  match s.blockAt p with
  | none => none
  | some (sc, _, _) =>
    some { s with sects := updAt p (pcsSetSt (p - sc.hdr) (.busy (code % (codeMask + 1)))) s.sects }

/-- `stoCode(p)` -/
def State.code (s : State) (p : Nat) : Option Nat := (s.blockAt p).map (·.2.2)

/-! ## sweep (`stoGcSweep`); `surv` = pointers of the blocks that carry a mark -/

/-- addresses (pointers) of the busy pieces of a section, in address order -/
def busyPtrs (hdr : Nat) : Nat → List Piece → List Nat
  | _, [] => []
  | cur, p :: r =>
    match p.st with
    | .busy _ => (cur + hdr) :: busyPtrs hdr (cur + p.n) r
    | _ => busyPtrs hdr (cur + p.n) r

/-- addresses of the free pieces of a section, in address order -/
def freeAddrs : Nat → List Piece → List Nat
  | _, [] => []
  | cur, p :: r =>
    match p.st with
    | .free => cur :: freeAddrs (cur + p.n) r
    | _ => freeAddrs (cur + p.n) r

/-- tag pass of `stoGcSweepFixed`: unmarked busy quanta become free -/
def sweepTags (surv : List Nat) : Nat → List Piece → List Piece
  | _, [] => []
  | cur, p :: r =>
    (match p.st with
     | .busy _ => if surv.contains cur then p else { p with st := .free }
     | _ => p) :: sweepTags surv (cur + p.n) r

def isBusy (p : Piece) : Bool :=
  match p.st with
  | .busy _ => true
  | _ => false

/-- one section of the sweep.  `acc` are the fixed free lists under reconstruction
(`fixedTail[]`): a fixed section with no busy quantum left is returned to the page pool and
contributes nothing. -/
def sweepSect (surv : List Nat) (st : Option (State × List (List Nat))) (sc0 : Sect) :
    Option (State × List (List Nat)) :=
  match st with
  | none => none
  | some (s, acc) =>
    match sc0.cls with
    | some i =>
      let pcs := sweepTags surv sc0.data sc0.pieces
      if pcs.any isBusy then
        some ({ s with sects := s.sects.map (fun (sc : Sect) => if sc.base = sc0.base then { sc with pieces := pcs } else sc) }.tag "sw-fx-keep",
              acc.set i (acc.getD i [] ++ freeAddrs sc0.data pcs))
      else
        some ({ s with sects := s.sects.filter (fun (sc : Sect) => sc.base != sc0.base) }.tag "sw-fx-release", acc)
    | none =>
      -- every unmarked busy piece is freed (tag, piecePutMixed), in address order
      let victims := (busyPtrs mxHead sc0.data sc0.pieces).filter (fun p => !surv.contains p)
      let s1? := victims.foldl (fun (o : Option State) p => o.bind (fun s => putMixed (s.tag "sw-mx-free") (p - mxHead))) (some s)
      match s1? with
      | none => none
      | some s1 =>
        -- return pages if no busy pieces & sect does not contain frontier
        match findSect sc0.base s1.sects with
        | none => none
        | some sc =>
          let hasFront := match s1.frontier with
            | some f => sc.has f
            | none => false
          if !(sc.pieces.any isBusy) && !hasFront then
            match sc.pieces with
            | x :: _ =>
              some ({ s1 with tree := tUnlinkDel s1.tree x.n sc.data,
                              sects := s1.sects.filter (fun (t : Sect) => t.base != sc0.base) }.tag "sw-mx-release", acc)
            | [] => none
          else some (s1.tag "sw-mx-keep", acc)

/-- `stoGcSweep` -/
def sweep (s : State) (surv : List Nat) : Option State :=
  match s.sects.foldl (sweepSect surv) (some (s, List.replicate fixedSizes.length [])) with
  | none => none
  | some (s1, acc) => some { s1 with fl := acc }

/-! ## histories -/

inductive Op where
  | alloc (code n grant : Nat)
  | free (p : Nat)
  | resize (p n grant : Nat)
  | recode (p code : Nat)
  | sweep (surv : List Nat)
deriving Repr

def step (s : State) : Op → Option State
  | .alloc c n g => (alloc s c n g).map (·.1)
  | .free p => free s p
  | .resize p n g => (resize s p n g).map (·.1)
  | .recode p c => recode s p c
  | .sweep sv => sweep s sv

def run (s : State) : List Op → Option State
  | [] => some s
  | o :: r => (step s o).bind (fun s' => run s' r)

end AldorVerif.Store
