/-! # Model of the library (`.ao`) file header code of `lib.c`

Modelled, statement by statement: `libNewHeader`, `libAddSection`+`libPutSection` (the writer's
bookkeeping), `libPutHeader` (byte layout), `libGetHeader` (decoder and index set-up),
`libChkHeader` (verdict, in the order of the C tests), `libHasSection`, `libGetSection`
(with an explicit file content, so that a short `fread` is visible).

Bytes are `Nat`s below 256.  `HInt` = 2 bytes, `SInt` = 4 bytes, both little endian
(`cport.h`: `UNBYTE2/UNBYTE4`), `Byte` = 1 byte.  The reader is the one of the repaired tree
(commit "library reader ignored short reads, its own header check and section bounds"): the
`fread` counts are tested, `Index[]` is set up from the `numSect` entries in use, the verdict of
`libChkHeader` is honoured and the end of the last section must not lie beyond the end of the
file; any failure is a diagnostic followed by a fatal error (`libBadFile`).  The bytes a short
`fread` leaves untouched in its destination are the explicit parameter `junk`; they no longer
reach any decoder. -/
namespace AldorVerif.LibHdr

/-! ## constants (printed by the C driver on `consts` and compared on every run) -/
def hdrMagic : Nat := 272          -- 0420
def majorVersion : Nat := 28
def minorVersion : Nat := 0
def nameLimit : Nat := 17          -- LIB_NAME_LIMIT = LIB_INDEX_LIMIT
def hdrLimit : Nat := 20           -- LIB_HDR_LIMIT
def fixedSize : Nat := 12          -- 2*HINT_BYTES + 2*SINT_BYTES
def sectSize : Nat := 9            -- BYTE_BYTES + 2*SINT_BYTES
def hdrSize : Nat := fixedSize + nameLimit * sectSize     -- 165

structure Sect where
  name : Nat
  offset : Nat
  length : Nat
deriving Repr, DecidableEq, Inhabited

/-- the value `libNewHeader` gives to every slot of `Section[]` -/
def Sect.none : Sect := ⟨nameLimit, 0, 0⟩

/-- `struct libHdr`.  `sects` holds `Section[0 .. LIB_INDEX_LIMIT-1]`; the slots
`LIB_INDEX_LIMIT .. LIB_HDR_LIMIT-1` are written by `libNewHeader` only and are always
`Sect.none` (`sectAt` returns that).  `index` is `Index[]` (name → index). -/
structure Hdr where
  magic : Nat
  verMajor : Nat
  verMinor : Nat
  numSect : Nat
  sects : List Sect
  index : Nat → Nat

def Hdr.sectAt (h : Hdr) (i : Nat) : Sect := h.sects.getD i Sect.none

def setIndex (f : Nat → Nat) (n i : Nat) : Nat → Nat := fun k => if k = n then i else f k

/-- `libNewHeader` -/
def newHeader : Hdr :=
  { magic := hdrMagic, verMajor := majorVersion, verMinor := minorVersion, numSect := 0,
    sects := List.replicate nameLimit Sect.none, index := fun _ => nameLimit }

/-! ## integers as byte sequences -/
def putHInt (v : Nat) : List Nat := [v % 256, v / 256 % 256]
def putSInt (v : Nat) : List Nat := [v % 256, v / 256 % 256, v / 65536 % 256, v / 16777216 % 256]
def getHInt (b0 b1 : Nat) : Nat := b0 % 256 + 256 * (b1 % 256)
def getSInt (b0 b1 b2 b3 : Nat) : Nat :=
  b0 % 256 + 256 * (b1 % 256) + 65536 * (b2 % 256) + 16777216 * (b3 % 256)

/-! ## `libPutHeader`: the bytes written at offset 0 -/
def putSect (s : Sect) : List Nat := (s.name % 256) :: (putSInt s.offset ++ putSInt s.length)

def putSects : List Sect → List Nat
  | [] => []
  | s :: ss => putSect s ++ putSects ss

def putHeader (h : Hdr) : List Nat :=
  putHInt h.magic ++ putSInt h.verMajor ++ putSInt h.verMinor ++ putHInt h.numSect ++ putSects h.sects

/-! ## `libGetHeader` -/

/-- the `LIB_INDEX_LIMIT` table entries; a buffer that ends early yields `Sect.none` entries
(cannot happen: the buffer always has `hdrSize` bytes, see `readBuf`). -/
def getSects : Nat → List Nat → List Sect
  | 0, _ => []
  | k + 1, n :: o0 :: o1 :: o2 :: o3 :: l0 :: l1 :: l2 :: l3 :: rest =>
      ⟨n % 256, getSInt o0 o1 o2 o3, getSInt l0 l1 l2 l3⟩ :: getSects k rest
  | k + 1, _ => Sect.none :: getSects k []

/-- "Set up the section indices (only of the sections in use)": for i = 0 .. min(LIB_INDEX_LIMIT,
numSect)-1: `if (n < LIB_NAME_LIMIT) Index[n] = i` (the caller passes the first `numSect` entries). -/
def setupIndex : List Sect → Nat → (Nat → Nat) → (Nat → Nat)
  | [], _, f => f
  | s :: ss, i, f => setupIndex ss (i + 1) (if s.name < nameLimit then setIndex f s.name i else f)

/-- decode a buffer of `hdrSize` bytes -/
def decode (buf : List Nat) : Hdr :=
  match buf with
  | m0 :: m1 :: a0 :: a1 :: a2 :: a3 :: b0 :: b1 :: b2 :: b3 :: n0 :: n1 :: rest =>
    let ss := getSects nameLimit rest
    { magic := getHInt m0 m1, verMajor := getSInt a0 a1 a2 a3, verMinor := getSInt b0 b1 b2 b3,
      numSect := getHInt n0 n1, sects := ss,
      index := setupIndex (ss.take (getHInt n0 n1)) 0 (fun _ => nameLimit) }
  | _ => newHeader

/-- what `fread(s, 1, cc, file)` leaves in a `cc`-byte destination whose previous content is
`junk`, reading from position `pos`: the bytes the file has, then the old content. -/
def readBuf (file : List Nat) (pos cc : Nat) (junk : List Nat) : List Nat :=
  let got := (file.drop pos).take cc
  got ++ (List.range (cc - got.length)).map (fun j => junk.getD (got.length + j) 0)

/-- number of bytes `fread` really delivered (the count the C code throws away) -/
def readCount (file : List Nat) (pos cc : Nat) : Nat := ((file.drop pos).take cc).length

/-- the header as parsed by `libGetHeader` before any test -/
def readHeader (file junk : List Nat) : Hdr := decode (readBuf file 0 hdrSize junk)

/-! ## `libChkHeader` -/
inductive Verdict
  | ok
  | badMagic          -- ALDOR_E_LibBadMagic, return false
  | badVersion        -- ALDOR_F_LibBadVersion, fatal
  | badNumSect        -- ALDOR_E_LibBadNumSect
  | badSectName       -- ALDOR_E_LibBadSectName
  | dupSect           -- ALDOR_E_LibSectDup (Index[Name[i]] != i)
  | badSectHdr        -- ALDOR_E_LibBadSectHdr
deriving Repr, DecidableEq

/-- "Check the section names", for the indices in the list -/
def chkNames (h : Hdr) : List Nat → Verdict
  | [] => .ok
  | i :: is =>
    if (h.sectAt i).name ≥ nameLimit then .badSectName
    else if h.index (h.sectAt i).name ≠ i then .dupSect
    else chkNames h is

/-- "Check remaining section headers", for the indices in the list (each ≥ 1) -/
def chkContig (h : Hdr) : List Nat → Verdict
  | [] => .ok
  | i :: is =>
    if (h.sectAt i).offset ≠ (h.sectAt (i - 1)).offset + (h.sectAt (i - 1)).length then .badSectHdr
    else chkContig h is

def chk (h : Hdr) : Verdict :=
  if h.magic ≠ hdrMagic then .badMagic
  else if h.verMajor < majorVersion ∨ (h.verMajor = majorVersion ∧ h.verMinor < minorVersion) then .badVersion
  else if ¬ h.numSect ≤ nameLimit then .badNumSect
  else match chkNames h (List.range h.numSect) with
    | .ok =>
      if (h.sectAt 0).offset ≠ hdrSize then .badSectHdr
      else chkContig h (List.range' 1 (h.numSect - 1))
    | v => v

/-! ## the writer: `libAddSection` followed by `libPutSection` -/

/-- `libAddSection lib name` then `libPutSection` with a buffer of `len` bytes.
`none`: one of the two refusals of `libAddSection` (table full, duplicate name). -/
def addSection (h : Hdr) (name len : Nat) : Option Hdr :=
  if h.numSect = nameLimit then none
  else if h.index name ≠ nameLimit then none
  else
    let i := h.numSect
    let off := if i = 0 then hdrSize else (h.sectAt (i - 1)).offset + (h.sectAt (i - 1)).length
    some { h with numSect := i + 1, index := setIndex h.index name i,
                  sects := h.sects.set i ⟨name, off, len⟩ }

/-- a whole library: the sections in the order written, each with its length -/
def build : Hdr → List (Nat × Nat) → Option Hdr
  | h, [] => some h
  | h, (n, l) :: r => match addSection h n l with
    | some h' => build h' r
    | none => none

/-! ## `libGetHeader` (library at offset 0 of a stand-alone file) -/

/-- end of the last section in use (`libHdrSize` when there is none) -/
def endOf (h : Hdr) : Nat :=
  if h.numSect = 0 then hdrSize
  else (h.sectAt (h.numSect - 1)).offset + (h.sectAt (h.numSect - 1)).length

/-- why `libBadFile` stopped the compilation -/
inductive Refusal
  | shortRead                 -- fread delivered fewer than libHdrSize bytes (ALDOR_E_LibBadSectHdr)
  | verdict (v : Verdict)     -- libChkHeader said no (its own diagnostic)
  | outOfBounds               -- end of last section > file size (ALDOR_E_LibSectOffset)
deriving Repr, DecidableEq

def getHeaderE (file junk : List Nat) : Except Refusal Hdr :=
  if readCount file 0 hdrSize = hdrSize then
    let h := readHeader file junk
    if chk h = .ok then
      if endOf h ≤ file.length then .ok h else .error .outOfBounds
    else .error (.verdict (chk h))
  else .error .shortRead

/-- `libGetHeader`: `none` = diagnostic + fatal error, nothing of the file is used -/
def getHeader (file junk : List Nat) : Option Hdr :=
  match getHeaderE file junk with
  | .ok h => some h
  | .error _ => none

def refusal (file junk : List Nat) : Option Refusal :=
  match getHeaderE file junk with
  | .ok _ => none
  | .error r => some r

/-! ## `libHasSection`, `libGetSection` -/
def sectOffset (h : Hdr) (name : Nat) : Nat := (h.sectAt (h.index name)).offset
def sectLength (h : Hdr) (name : Nat) : Nat := (h.sectAt (h.index name)).length
def hasSection (h : Hdr) (name : Nat) : Bool := sectOffset h name != 0

structure SectRead where
  data : List Nat      -- the buffer handed to the decoders (`want` bytes)
  want : Nat           -- the length the header announced
  got  : Nat           -- the bytes the file supplied
deriving Repr, DecidableEq

/-- the raw read: seek, allocate `cc`, `fread` -/
def readSection (file : List Nat) (h : Hdr) (name : Nat) (junk : List Nat) : SectRead :=
  let cc := sectLength h name
  ⟨readBuf file (sectOffset h name) cc junk, cc, readCount file (sectOffset h name) cc⟩

/-- `libGetSection(lib, name, stat)`: `some none` = no such section (returns 0),
`none` = short read: diagnostic + fatal error, `some (some r)` = the section. -/
def getSection (file : List Nat) (h : Hdr) (name : Nat) (junk : List Nat) : Option (Option SectRead) :=
  if hasSection h name then
    if readCount file (sectOffset h name) (sectLength h name) = sectLength h name then
      some (some (readSection file h name junk))
    else none
  else some none

/-! ## truncation classes -/
inductive TruncClass
  | header            -- inside magic / versions / section count
  | table             -- inside the section table
  | section (i : Nat) -- inside the body of the section with index i
  | beyond            -- not before the end of the last section
deriving Repr, DecidableEq

def findSect (h : Hdr) (n : Nat) : List Nat → TruncClass
  | [] => .beyond
  | i :: is => if (h.sectAt i).offset ≤ n ∧ n < (h.sectAt i).offset + (h.sectAt i).length then .section i
               else findSect h n is

/-- where the first missing byte `n` of a file cut to length `n` lies -/
def truncClass (h : Hdr) (n : Nat) : TruncClass :=
  if n < fixedSize then .header
  else if n < hdrSize then .table
  else findSect h n (List.range h.numSect)

end AldorVerif.LibHdr
