import AldorVerif.Model.Mangle

/-! # Model of the file-splitting loop of `genc.c:gc0ExternDecls` (l. 686–722) and of the
file naming in `emit.c:emitTheC` (property C16, part `mangle`)

`gcvDefs` holds `nDefs` program definitions (constants 0 … nDefs-1) followed by `nGlo`
non-program definitions.  Definition 0 (the file's top-level program) always goes to the last
part; the loop distributes definitions 1 … nDefs-1.  `bodies` lists `foamArgc(body)` for the
definitions 0 … nDefs-1. -/
namespace AldorVerif.CSplit

/-- `genCSetSMax`: negative → 1 -/
def setSMax (n : Int) : Nat := if n < 0 then 1 else n.toNat

/-- "Guess num stmts here": body sizes of all programs plus one per non-program definition -/
def guessStmts (bodies : List Nat) (nGlo : Nat) : Nat := bodies.sum + nGlo

/-- what the loop adds to `stmtCounter` for a program definition: `foamArgc(body) + 1` -/
def weights (bodies : List Nat) : List Nat := (bodies.drop 1).map (· + 1)

/-- the inner `for (i = n; i < nDefs - 1 && stmtCounter < gcvSMax; i++)` loop on the remaining
definitions (their weights): the definitions taken for this part and those left over. -/
def takePart (smax : Nat) : Nat → List Nat → List Nat × List Nat
  | _, [] => ([], [])
  | counter, w :: ws =>
    if counter < smax then
      let r := takePart smax (counter + w) ws
      (w :: r.1, r.2)
    else ([], w :: ws)

/-- the outer `while (nStmts > gcvSMax && gcvSMax > 0)` loop: the parts written before the
last one, and the definitions left for the last part. -/
def splitLoop (smax : Nat) (nStmts : Nat) (rest : List Nat) : List (List Nat) × List Nat :=
  if _h : nStmts > smax ∧ smax > 0 then
    let p := takePart smax 0 rest
    let r := splitLoop smax (nStmts - smax) p.2
    (p.1 :: r.1, r.2)
  else ([], rest)
termination_by nStmts
decreasing_by omega

/-- whole computation from the unit's shape -/
def split (smax : Nat) (bodies : List Nat) (nGlo : Nat) : List (List Nat) × List Nat :=
  splitLoop smax (guessStmts bodies nGlo) (weights bodies)

/-- `gc0OverSMax()` -/
def overSMax (smax nStmts : Nat) : Bool := decide (smax > 0 ∧ nStmts > smax)

/-! ## file names (`emitTheC`) -/

/-- `%d` for a non-negative number (same digit loop as `bufPuti`) -/
def dec (n : Nat) : List Char := Mangle.putI n

/-- `sprintf("%.*d", 3, nf)`: at least three digits, zero padded -/
def pad3 (n : Nat) : List Char :=
  let d := dec n
  List.replicate (3 - d.length) '0' ++ d

/-- `FN_PREF_LEN` -/
def prefLen : Nat := 5

/-- base name (without directory and `.c`) of the file that receives list element `i` (≥ 1)
when the code list has more than one element: element 1 gets the unit's own name, element
`i ≥ 2` gets the first five characters of the name followed by `i-1` in three digits. -/
def partFile (base : List Char) (i : Nat) : List Char :=
  if i ≤ 1 then base else base.take prefLen ++ pad3 (i - 1)

/-- all `.c` base names for a code list `[header, part₁, …, part_k]` (`k = nparts ≥ 1`) -/
def partFiles (base : List Char) (nparts : Nat) : List (List Char) :=
  (List.range nparts).map (fun j => partFile base (j + 1))

/-- the code list returned by `gc0ExternDecls`, as lists of constant indices: when the limit is
exceeded the header unit (no definitions) comes first, then the parts of the loop, then the
last part, which starts with constant 0. -/
def codeList (smax : Nat) (bodies : List Nat) (nGlo : Nat) : List (List Nat) :=
  let r := split smax bodies nGlo
  -- number the definitions 1, 2, … in order
  let rec number (start : Nat) : List (List Nat) → List (List Nat) × Nat
    | [] => ([], start)
    | p :: ps =>
      let q := number (start + p.length) ps
      ((List.range p.length).map (· + start) :: q.1, q.2)
  let np := number 1 r.1
  let final := 0 :: (List.range r.2.length).map (· + np.2)
  let hdr : List (List Nat) := if overSMax smax (guessStmts bodies nGlo) then [[]] else []
  hdr ++ np.1 ++ [final]

/-- number `k` of the module initialiser `INIT__k_<unit>` defined by element `i` of a code list
of `l` elements: the loop calls `gc0GenModuleInitFun(name, false, nBrothers)` with
`nBrothers = 1, 2, …` for the parts it closes, the last unit gets
`gc0GenModuleInitFun(name, true, nBrothers)` = `INIT__0`, the header unit none. -/
def initIndex (over : Bool) (l i : Nat) : Option Nat :=
  if over then (if i = 0 then none else if i + 1 = l then some 0 else some i) else some 0

/-- `emitTheC`: (file name with extension, index of the code-list element written to it), in
the order the files are opened.  A later entry with the same name overwrites the earlier file. -/
def fileWrites (base : List Char) (l : Nat) : List (List Char × Nat) :=
  if l ≤ 1 then [(base ++ ['.', 'c'], 0)]
  else (base ++ ['.', 'h'], 0) ::
    (List.range (l - 1)).map (fun j => (partFile base (j + 1) ++ ['.', 'c'], j + 1))

end AldorVerif.CSplit
