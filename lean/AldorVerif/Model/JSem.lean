/-! # Java primitive arithmetic (the fragment the Java back end's builtin table uses)

Hand-written from the Java Language Specification (§4.2, §5.1, §5.6, §15.15–15.25):
`int`/`long`/`short`/`byte` are two's-complement 32/64/16/8-bit, `char` is unsigned 16-bit.
Arithmetic on `int` and `long` wraps; `/` and `%` truncate toward zero and throw
`ArithmeticException` on a zero divisor (modelled as `none`); `MIN / -1` wraps to `MIN`;
the shift count is masked with 31 (`int` left operand) or 63 (`long` left operand).
Operands narrower than `int` are promoted (byte/short sign-extended, char zero-extended).

`translate/jmap.py` emits calls of these functions for the Java expressions it reads from
`genjava.c`'s table and from `foamj/Math.java`; `checks/parts/jmap.py` compares them with what a
real JVM computes for the same expression text. -/
namespace AldorVerif.JSem

abbrev JByte := BitVec 8
abbrev JShort := BitVec 16
abbrev JChar := BitVec 16
abbrev JInt := BitVec 32
abbrev JLong := BitVec 64

/-! ## arithmetic (same definition at width 32 and 64) -/
def add {w : Nat} (a b : BitVec w) : BitVec w := a + b
def sub {w : Nat} (a b : BitVec w) : BitVec w := a - b
def mul {w : Nat} (a b : BitVec w) : BitVec w := a * b
def neg {w : Nat} (a : BitVec w) : BitVec w := -a
/-- `a / b`: truncating division, `ArithmeticException` on zero -/
def div {w : Nat} (a b : BitVec w) : Option (BitVec w) :=
  if b = 0#w then none else some (a.sdiv b)
/-- `a % b`: remainder with the sign of the dividend, `ArithmeticException` on zero -/
def rem {w : Nat} (a b : BitVec w) : Option (BitVec w) :=
  if b = 0#w then none else some (a.srem b)

/-! ## bitwise -/
def band {w : Nat} (a b : BitVec w) : BitVec w := a &&& b
def bor {w : Nat} (a b : BitVec w) : BitVec w := a ||| b
def bxor {w : Nat} (a b : BitVec w) : BitVec w := a ^^^ b
def bnot {w : Nat} (a : BitVec w) : BitVec w := ~~~a
/-- `a << n`: only the low 5 (resp. 6) bits of the count are used, i.e. `n mod w` of the
count's unsigned reading for `w ∈ {32, 64}` -/
def shl {w v : Nat} (a : BitVec w) (n : BitVec v) : BitVec w := a <<< (n.toNat % w)
/-- `a >> n` (arithmetic) -/
def shr {w v : Nat} (a : BitVec w) (n : BitVec v) : BitVec w := a.sshiftRight (n.toNat % w)
/-- `a >>> n` (logical) -/
def ushr {w v : Nat} (a : BitVec w) (n : BitVec v) : BitVec w := a >>> (n.toNat % w)

/-! ## comparisons (signed, after promotion) -/
def eq {w : Nat} (a b : BitVec w) : Bool := a == b
def ne {w : Nat} (a b : BitVec w) : Bool := a != b
def lt {w : Nat} (a b : BitVec w) : Bool := a.slt b
def le {w : Nat} (a b : BitVec w) : Bool := a.sle b
def gt {w : Nat} (a b : BitVec w) : Bool := b.slt a
def ge {w : Nat} (a b : BitVec w) : Bool := b.sle a

/-! ## boolean operators -/
def lnot (a : Bool) : Bool := !a
def land (a b : Bool) : Bool := a && b
def lor (a b : Bool) : Bool := a || b
def lxor (a b : Bool) : Bool := a != b
def beq (a b : Bool) : Bool := a == b
def bne (a b : Bool) : Bool := a != b

/-! ## conversions (§5.1.2 widening, §5.1.3 narrowing) -/
def b2i (a : JByte) : JInt := a.signExtend 32
def s2i (a : JShort) : JInt := a.signExtend 32
def c2i (a : JChar) : JInt := a.setWidth 32
def i2l (a : JInt) : JLong := a.signExtend 64
def l2i (a : JLong) : JInt := a.setWidth 32
def i2b (a : JInt) : JByte := a.setWidth 8
def i2s (a : JInt) : JShort := a.setWidth 16
def i2c (a : JInt) : JChar := a.setWidth 16

/-! ## what the compiler's own C code computes when it prints a big-integer constant -/
/-- `bigint.c:bintLength`: number of bits of the magnitude (`intLength` / place count) -/
def bintLength (v : Int) : Nat := if v = 0 then 0 else v.natAbs.log2 + 1
/-- `strPrintf("%d", x)` with a `long` argument: `%d` reads an `int`, i.e. the low 32 bits, signed -/
def fmtD (v : Int) : Int := (BitVec.ofInt 32 v).toInt
/-- `strPrintf("%ld", x)`: the `long` itself -/
def fmtLD (v : Int) : Int := (BitVec.ofInt 64 v).toInt

end AldorVerif.JSem
