import AldorVerif.Gen.HaltCodes

/-! # How a run of a FOAM program ends on the two routes (C03, exit model)

Hand model (H) over a regenerated table (T, `Gen/HaltCodes.lean`).

*Interpreter route* (`aldor -Ginterp x.as|x.ao`): `emit.c:emitInterp` calls `fint.c:fintFile` →
`fintExecMainUnit`, which runs the top-level program inside `fintBlock(ok, …)`; when an exception
reaches the top (`!ok`) it calls the Aldor function `aldorUnhandledException` (libaldor
`util/rtexns.as`: prints `Unhandled Exception: <name>` and, for a `RuntimeError`, its message, on
stderr) and returns `ok`; `emitInterp` then calls `exitFailure()` = `exit(EXIT_FAILURE)`.
`(BCall Halt c)` in `fintEvalBCall`: `fintWhere(0)` prints the whole interpreter stack on the stream
the table names (stderr, by swapping `dbOut` around the call; it used to be `dbOut` = stdout, which
put address-dependent lines into the program's standard output on this route only — see
`trace_on_stdout_breaks_agreement`), then the message for `(int)c` is handed to `fiRaiseException`
→ `fintRaiseException` → Aldor `aldorRuntimeException` → `throw RuntimeError(msg)`.  Fault signals (SIGFPE, SIGSEGV …) are
handled by the compiler process (`axlcomp.c:compSignalHandler`): message on stdout twice, then
`exitFailure()`.

*C route* (`-Fx`, executable linked with libfoam): generated `main` runs the program in
`fiBlock(flag, …)`; `if (!flag) fiUnhandledException(exn)` (same Aldor handler, then `exit(2)`);
`return 0`.  `(BCall Halt c)` is `fiHalt(c)` (`foam_c.c`): `switch ((int)c)` — each arm hands its
message to `fiRaiseException` (→ same Aldor `throw`).  An arm `case N: break;` (the table's
`cHaltSilent`; the sources used to have `case -1: break;`) would make `fiHalt` return 0 to its
caller, i.e. the compiled program would go on — see `silent_arm_breaks_agreement`.  No signal handler is installed: a fault kills the process, and
whatever the program had written to its (fully buffered, when not a terminal) stdout is lost.

Not modelled: everything else the two routes do (the evaluator loop `fintStmt`/`fintEval_` and the
C emitter) — this file is only the classification of endings. The no-`rtexns` configuration
(programs not linked with libaldor) is recorded in the table (`cRaiseNoHandlerExit` …) but the
routes below assume the handlers exist, as they do for every program using `-laldor`. -/
namespace AldorVerif.ExitClass
open AldorVerif.Gen.HaltCodes (Stream)

/-- the regenerated facts the routes depend on -/
structure Table where
  haltEnum : List (String × Int)
  cHaltCases : List (Int × String)
  cHaltDefault : String
  cHaltSilent : List Int
  fintHaltCases : List (String × String)
  fintHaltDefault : String
  fintHaltTrace : Bool
  fintTraceStream : Stream
  cUnhandledExit : Nat
  interpFailExit : Nat
  mainReturn : Nat
  interpInstallsFaultHandler : Bool
  cInstallsFaultHandler : Bool
  msgSigFpe : String
  msgSigSegv : String
  unhandledStream : Stream
  runtimeErrorThrows : Bool

/-- the table of the current sources -/
def gen : Table where
  haltEnum := Gen.HaltCodes.haltEnum
  cHaltCases := Gen.HaltCodes.cHaltCases
  cHaltDefault := Gen.HaltCodes.cHaltDefault
  cHaltSilent := Gen.HaltCodes.cHaltSilent
  fintHaltCases := Gen.HaltCodes.fintHaltCases
  fintHaltDefault := Gen.HaltCodes.fintHaltDefault
  fintHaltTrace := Gen.HaltCodes.fintHaltTrace
  fintTraceStream := Gen.HaltCodes.fintHaltTraceStream
  cUnhandledExit := Gen.HaltCodes.cUnhandledExit
  interpFailExit := Gen.HaltCodes.interpFailExit
  mainReturn := Gen.HaltCodes.mainReturn
  interpInstallsFaultHandler := Gen.HaltCodes.interpInstallsFaultHandler
  cInstallsFaultHandler := Gen.HaltCodes.cInstallsFaultHandler
  msgSigFpe := Gen.HaltCodes.msgSigFpe
  msgSigSegv := Gen.HaltCodes.msgSigSegv
  unhandledStream := Gen.HaltCodes.unhandledStream
  runtimeErrorThrows := Gen.HaltCodes.runtimeErrorThrows

/-- how the top-level program stops -/
inductive TerminationKind
  /-- the top-level program runs to its end -/
  | normal
  /-- `(BCall Halt c)` is evaluated (`never`, failed `assert`, bad union selector, `halt n`,
      `error "…"` = `halt 0`, …) with the 64-bit `SInt` operand `c`, and nothing catches the
      resulting `RuntimeError` -/
  | halt (code : BitVec 64)
  /-- a user exception (`throw E`) reaches the top -/
  | uncaught
  /-- integer division by zero (hardware trap, SIGFPE) -/
  | divZero
  /-- access through an invalid pointer (SIGSEGV) -/
  | storageFault
  deriving DecidableEq, Repr

/-- text the ROUTE itself adds to one of the program's output streams -/
inductive StdoutExtra
  | none
  /-- `fintWhere(0)`: `#0 <addr> in <prog> at unit [u]` … lines -/
  | backtrace
  /-- `osDisplayMessage(msg)` + `comsgError`: the message twice -/
  | faultMessage (msg : String)
  deriving DecidableEq, Repr

inductive StderrClass
  | none
  /-- `Unhandled Exception: RuntimeError()` + the message line -/
  | runtimeError (msg : String)
  /-- `Unhandled Exception: <exception name>` -/
  | userException
  deriving DecidableEq, Repr

inductive Status
  | exit (n : Nat)
  /-- killed by a fault signal.  Which one is not modelled: SIGFPE for a division executed by the
      hardware, SIGILL where the C compiler has folded `x / 0` into a trap instruction, SIGSEGV … -/
  | killed
  /-- the event does not end the run: control returns to the caller of `fiHalt` -/
  | continues
  deriving DecidableEq, Repr

structure Outcome where
  stdoutExtra : StdoutExtra
  /-- what the route itself adds to stderr (not covered by the property; kept for the correspondence) -/
  stderrExtra : StdoutExtra
  /-- what the program had already written to stdout is flushed (`exit` runs) -/
  flushed : Bool
  stderr : StderrClass
  status : Status
  deriving DecidableEq, Repr

/-- `(int)i` of a 64-bit `FiSInt` -/
def int32 (c : BitVec 64) : Int := (c.truncate 32).toInt

def lookup {α β} [DecidableEq α] (k : α) : List (α × β) → Option β
  | [] => none
  | (a, b) :: r => if a = k then some b else lookup k r

/-- name of the enumerator with value `v` -/
def enumName (t : Table) (v : Int) : Option String :=
  lookup v (t.haltEnum.map fun p => (p.2, p.1))

/-- fint.c: `switch ((int)expr1.fiSInt) { case FOAM_Halt_X: … default: … }` -/
def fintHaltMsg (t : Table) (c : BitVec 64) : String :=
  match enumName t (int32 c) with
  | some n => (lookup n t.fintHaltCases).getD t.fintHaltDefault
  | none => t.fintHaltDefault

/-- foam_c.c fiHalt: `none` = the arm is `break` (no exception raised) -/
def cHaltMsg (t : Table) (c : BitVec 64) : Option String :=
  if t.cHaltSilent.contains (int32 c) then none
  else some ((lookup (int32 c) t.cHaltCases).getD t.cHaltDefault)

def traceExtra (t : Table) : StdoutExtra :=
  if t.fintHaltTrace && t.fintTraceStream == Stream.stdout then .backtrace else .none

def traceErrExtra (t : Table) : StdoutExtra :=
  if t.fintHaltTrace && t.fintTraceStream == Stream.stderr then .backtrace else .none

/-- the interpreter route -/
def interpRoute (t : Table) : TerminationKind → Outcome
  | .normal => ⟨.none, .none, true, .none, .exit 0⟩
  | .halt c => ⟨traceExtra t, traceErrExtra t, true, .runtimeError (fintHaltMsg t c), .exit t.interpFailExit⟩
  | .uncaught => ⟨.none, .none, true, .userException, .exit t.interpFailExit⟩
  | .divZero =>
    if t.interpInstallsFaultHandler then ⟨.faultMessage t.msgSigFpe, .none, true, .none, .exit t.interpFailExit⟩
    else ⟨.none, .none, false, .none, .killed⟩
  | .storageFault =>
    if t.interpInstallsFaultHandler then ⟨.faultMessage t.msgSigSegv, .none, true, .none, .exit t.interpFailExit⟩
    else ⟨.none, .none, false, .none, .killed⟩

/-- the compiled route -/
def cRoute (t : Table) : TerminationKind → Outcome
  | .normal => ⟨.none, .none, true, .none, .exit t.mainReturn⟩
  | .halt c =>
    match cHaltMsg t c with
    | some m => ⟨.none, .none, true, .runtimeError m, .exit t.cUnhandledExit⟩
    | none => ⟨.none, .none, true, .none, .continues⟩
  | .uncaught => ⟨.none, .none, true, .userException, .exit t.cUnhandledExit⟩
  | .divZero =>
    if t.cInstallsFaultHandler then ⟨.none, .none, true, .none, .exit 1⟩ else ⟨.none, .none, false, .none, .killed⟩
  | .storageFault =>
    if t.cInstallsFaultHandler then ⟨.none, .none, true, .none, .exit 1⟩ else ⟨.none, .none, false, .none, .killed⟩

/-- success / failure as a caller of the process sees it; `none`: the event did not end the run -/
def successClass (o : Outcome) : Option Bool :=
  match o.status with
  | .exit 0 => some true
  | .exit _ => some false
  | .killed => some false
  | .continues => none

/-- does the standard output of the run equal what the PROGRAM wrote? -/
def stdoutFaithful (o : Outcome) : Bool := o.stdoutExtra == .none && o.flushed

end AldorVerif.ExitClass
