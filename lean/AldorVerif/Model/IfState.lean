/-! # Hand model of the includer's conditional-inclusion state machine (include.c)

Modelled: `IfState`, `INCLUDING`, `inclLine`'s end-of-file test, `inclFileContents`,
`inclHandleIf` (the `fluid(ifState)` binding and the recursive `inclFileContents()`),
`inclHandleElseif`, `inclHandleElse`, `inclHandleEndif`, `inclHandleAssert/Unassert`
(`INCL_Assert` = cons, `INCL_Unassert` = `listNRemove` = remove the first occurrence,
`INCL_IsAssert` = member) for the lines of ONE file.  Not modelled: `#include`/`#reinclude`
(a nested `inclFile` starts again in `NoIf`), `#line`, other system commands (they are
ordinary lines here), continuation lines of the interactive loop. -/
namespace AldorVerif.IfState

inductive IfState where
  | noIf | activeIf | inactiveIf | formerlyActiveIf
  deriving DecidableEq, Repr

/-- `# define INCLUDING(state) ((state)==NoIf || (state)==ActiveIf)` -/
def including : IfState → Bool
  | .noIf | .activeIf => true
  | _ => false

/-- the lines of a file as the includer sees them; properties are numbers -/
inductive Line where
  | text (id : Nat)          -- not a directive: becomes a source line when INCLUDING
  | ifD (p : Nat)
  | elseifD (p : Nat)
  | elseD
  | endifD
  | assertD (p : Nat)
  | unassertD (p : Nat)
  deriving DecidableEq, Repr

inductive Ev where
  | line (id : Nat)          -- the text line is handed to the scanner
  | ifEof                    -- ALDOR_E_InclIfEof     "End of file encountered in `#if'"
  | unbalElse                -- ALDOR_E_InclUnbalElse
  | unbalElseif              -- ALDOR_E_InclUnbalElseif
  | unbalEndif               -- ALDOR_E_InclUnbalEndif
  deriving DecidableEq, Repr

/-- `inclHandleElseif` on the state -/
def elseifState (st : IfState) (asserted : Bool) : IfState :=
  match st with
  | .noIf => .noIf
  | .inactiveIf => if asserted then .activeIf else .inactiveIf
  | _ => .formerlyActiveIf

/-- `inclHandleElse` on the state -/
def elseState : IfState → IfState
  | .activeIf => .inactiveIf
  | .inactiveIf => .activeIf
  | st => st

/-- `inclFileContents()` = `while (inclLine(&sll, NULL));` in state `st` with assert list `as` on
    the lines that are left: the events, the lines left when the loop ends (at the end of the file,
    or after the `#endif` that ends this level) and the assert list then.
    `inclLine` returns false (a) at the end of the file, after `InclIfEof` when `ifState != NoIf`;
    (b) when the directive's result is an endif line: in `NoIf` that is the unbalanced `#endif`
    itself (the rest of the file is never read).  `#if` binds `ifState` for the recursive
    `inclFileContents()` and restores it (`fluid`); the loop of this level then goes on. -/
def contents : Nat → IfState → List Nat → List Line → List Ev × List Line × List Nat
  | 0, _, as, ls => ([], ls, as)
  | _ + 1, st, as, [] => (if st ≠ .noIf then [.ifEof] else [], [], as)
  | n + 1, st, as, l :: ls =>
    match l with
    | .text i =>
      let r := contents n st as ls
      (if including st then .line i :: r.1 else r.1, r.2.1, r.2.2)
    | .assertD p => contents n st (if including st then p :: as else as) ls
    | .unassertD p => contents n st (if including st then as.erase p else as) ls
    | .ifD p =>
      let inner := if including st then (if p ∈ as then .activeIf else .inactiveIf) else .formerlyActiveIf
      let r1 := contents n inner as ls
      let r2 := contents n st r1.2.2 r1.2.1
      (r1.1 ++ r2.1, r2.2.1, r2.2.2)
    | .elseifD p =>
      let r := contents n (elseifState st (decide (p ∈ as))) as ls
      (if st = .noIf then .unbalElseif :: r.1 else r.1, r.2.1, r.2.2)
    | .elseD =>
      let r := contents n (elseState st) as ls
      (if st = .noIf then .unbalElse :: r.1 else r.1, r.2.1, r.2.2)
    | .endifD =>
      if st = .noIf then ([.unbalEndif], [], as) else ([], ls, as)

/-- one file from its first line, nothing asserted beforehand but `asserted` -/
def runFile (asserted : List Nat) (ls : List Line) : List Ev :=
  (contents (ls.length + 1) .noIf asserted ls).1

/-! ## the specification side: how many `#if` are open at the end of the file -/

/-- depth of open `#if`s when the end of the file is reached; `none`: an `#endif` without `#if`
    ends the reading of the file before its end -/
def depthAtEof : Nat → List Line → Option Nat
  | d, [] => some d
  | d, .ifD _ :: r => depthAtEof (d + 1) r
  | 0, .endifD :: _ => none
  | d + 1, .endifD :: r => depthAtEof d r
  | d, _ :: r => depthAtEof d r

def eofCount (evs : List Ev) : Nat := evs.count .ifEof

end AldorVerif.IfState
