import AldorVerif.Gen.SpecChar

/-! # Model of C identifier generation in `genc.c` (property C16, part `mangle`)

Modelled, statement by statement:
* `strops.c:strHash`
* `genc.c:genCSetIdLen`, `gc0InitSpecialChars` (the two per-character arrays `gcvIdChars`,
  `gcvIdCharc`, built from the regenerated `ccSpecCharIdTable` = `Gen.SpecChar.table`),
  `gc0UnderIdLen`, `gc0ValidIdInBuf`, `gc0IdHashInBuf`, `gc0VarId`, `gc0MultVarId`
* `buffer.c:bufPuti` (for non-negative arguments)

A C string is a `List Char` without NUL.  The C code indexes its 127-entry arrays with
`(int)*s`; for bytes ≥ 127 that is an out-of-bounds access (undefined), so the model is a model
of the code only for characters with code 1 … 126 (`InDomain`).  For other characters the model
treats the character as "not printable" (dropped). -/
namespace AldorVerif.Mangle

abbrev Name := List Char

/-! ## strHash -/

/-- one round of `strHash`: `h ^= (h << 8); h += (c + 200041); h &= 0x3FFFFFFF;`
(`Hash` is an unsigned type of at least 32 bits; the final mask makes the width irrelevant). -/
def strHashStep (h : Nat) (c : Char) : Nat :=
  ((h ^^^ (h <<< 8)) + (c.toNat + 200041)) &&& 0x3FFFFFFF

def strHash (s : Name) : Nat := s.foldl strHashStep 0

/-- `VAR_HASH`, "prevPrime(36**VAR_HASH_MAX)" -/
def VAR_HASH : Nat := 0x39AA3F9

/-! ## option setters -/

/-- `genCSetIdLen`: negative → 1 -/
def setIdLen (n : Int) : Nat := if n < 0 then 1 else n.toNat

/-- the default of `gcvIdLen` -/
def defaultIdLen : Nat := 30

/-! ## the per-character tables (`gc0InitSpecialChars`) -/

/-- `gcvIdChars[c]` after the second loop of `gc0InitSpecialChars`: the *last* table entry for
`c` wins (each entry overwrites the array slot). -/
def specLookup (t : List (Char × List Char)) (c : Char) : Option (List Char) :=
  t.foldl (fun acc e => if e.1 = c then some e.2 else acc) none

/-- what `gc0ValidIdInBuf` writes for one character: the table text for a special character,
the character itself when `isalnum`, nothing otherwise (`NOT_PRINTABLE`). -/
def emit (c : Char) : List Char :=
  match specLookup Gen.SpecChar.table c with
  | some s => s
  | none => if c.isAlphanum then [c] else []

/-- `gcvIdCharc[c]`: 1 for alphanumerics, `strLength` of the table text for specials, else 0 -/
def charc (c : Char) : Nat := (emit c).length

/-- characters for which the C code's array accesses are in bounds -/
def InDomain (c : Char) : Prop := 0 < c.toNat ∧ c.toNat < 127

instance (c : Char) : Decidable (InDomain c) := by unfold InDomain; infer_instance

/-- `gc0UnderIdLen(buf, c)` with `pos = bufPosition(buf)` -/
def underIdLen (idlen pos : Nat) (c : Char) : Bool :=
  idlen == 0 || pos + charc c ≤ idlen

/-- `gc0ValidIdInBuf`: the characters appended to a buffer whose position is `pos`.
The loop *stops* at the first character whose text does not fit any more. -/
def validIdFrom (idlen : Nat) : Nat → Name → List Char
  | _, [] => []
  | pos, c :: s =>
    if underIdLen idlen pos c then emit c ++ validIdFrom idlen (pos + charc c) s
    else []

/-- branch tag for the driver: did the loop stop early -/
def validIdCut (idlen : Nat) : Nat → Name → Bool
  | _, [] => false
  | pos, c :: s => if underIdLen idlen pos c then validIdCut idlen (pos + charc c) s else true

/-! ## digit strings -/

/-- the digit loops of `gc0IdHashInBuf` (`b = 36`, array `alphnum`) and `bufPuti` (`b = 10`,
array `digits`): `for (ndig = 0; n; n /= b, ndig++) a[ndig] = n % b;` — digits of `n`, least
significant first; empty for 0. -/
def digitsRev (b : Nat) (n : Nat) : List Nat :=
  if _h : n = 0 ∨ b < 2 then [] else (n % b) :: digitsRev b (n / b)
termination_by n
decreasing_by exact Nat.div_lt_self (by omega) (by omega)

def digits36Rev (n : Nat) : List Nat := digitsRev 36 n

def digitChar36 (d : Nat) : Char :=
  if d < 10 then Char.ofNat (48 + d) else Char.ofNat (65 + (d - 10))

/-- `gc0IdHashInBuf`: base-36 spelling (0-9A-Z, most significant first, nothing at all for 0)
of `strHash s % VAR_HASH` -/
def hash36 (n : Nat) : List Char := (digits36Rev n).reverse.map digitChar36

def idHash (s : Name) : List Char := hash36 (strHash s % VAR_HASH)

/-- decimal digits, least significant first; empty for 0 -/
def digits10Rev (n : Nat) : List Nat := digitsRev 10 n

def digitChar10 (d : Nat) : Char := Char.ofNat (48 + d)

/-- `bufPuti` for `i ≥ 0` -/
def putI (i : Nat) : List Char :=
  if i = 0 then ['0'] else (digits10Rev i).reverse.map digitChar10

/-! ## gc0VarId / gc0MultVarId -/

/-- `gc0VarId(str, id)`: the valid form of `str` (cut at `idlen`), then the index, which is
appended without any length check. -/
def varId (idlen : Nat) (str : Name) (id : Nat) : List Char :=
  validIdFrom idlen 0 str ++ putI id

/-- is `strA` the one-letter kind `"G"` or `"pG"` (global branch of `gc0MultVarId`) -/
def isGlobalKind (a : Name) : Bool := a == ['G'] || a == ['p', 'G']

/-- global branch of `gc0MultVarId`: `strA _ [hash _] valid(strB)`; the `idlen` limit applies
to the whole buffer, so hash and kind use up part of it. -/
def globalId (idlen : Nat) (idhash : Bool) (a b : Name) : List Char :=
  let p := a ++ ['_']
  let p := if idhash then p ++ idHash b ++ ['_'] else p
  p ++ validIdFrom idlen p.length b

/-- `if (isdigit(strA[0])) bufAdd1(buf, '_'); gc0ValidIdInBuf(buf, strA);` -/
def kindGeneric (idlen : Nat) (a : Name) : List Char :=
  let u := match a with
    | c :: _ => if c.isDigit then ['_'] else []
    | [] => []
  u ++ validIdFrom idlen u.length a

/-- the kind prefix written by the non-global branch: a one-letter kind is copied as it is -/
def kindPrefix (idlen : Nat) (a : Name) : List Char :=
  match a with
  | [c] => if c.isAlpha then [c] else kindGeneric idlen a
  | _ => kindGeneric idlen a

/-- non-global branch of `gc0MultVarId`: `kind index [_ valid(strB)]` -/
def indexedId (idlen : Nat) (a : Name) (id : Nat) (b : Name) : List Char :=
  let p := kindPrefix idlen a ++ putI id
  if b = [] then p else p ++ ['_'] ++ validIdFrom idlen (p.length + 1) b

/-- `gc0MultVarId(strA, id, strB)` -/
def multVarId (idlen : Nat) (idhash : Bool) (a : Name) (id : Nat) (b : Name) : List Char :=
  if isGlobalKind a then globalId idlen idhash a b else indexedId idlen a id b

/-! ## module initialiser names `INIT__<n>_<module>`

Every place of genc.c that needs the name of a unit's initialisation function builds it with
`gc0MultVarId(gcFiInitModulePrefix, n, module)`; the definitions below follow the call sites one
by one (the module string is the file id passed to `genC`, or, for an imported unit, the id of
its `Init`-protocol global = `gen0InitialiserName(lib)` = the library name itself). -/

/-- `gcFiInitModulePrefix` -/
def initPrefix : Name := ['I', 'N', 'I', 'T', '_']

/-- `gc0ModuleInitFun(modName, n)` -/
def moduleInitFun (idlen : Nat) (mod : Name) (n : Nat) : List Char :=
  multVarId idlen true initPrefix n mod

/-- `gc0GenModuleInitFun(name, main, n)`: the function it defines (`modNum = main ? 0 : n`) -/
def siteDefinition (idlen : Nat) (name : Name) (main : Bool) (n : Nat) : List Char :=
  moduleInitFun idlen name (if main then 0 else n)

/-- same function, non-main branch: the call queued for the main unit (`gcvInitFunCalls1CC`) -/
def siteBrotherCall (idlen : Nat) (name : Name) (n : Nat) : List Char :=
  moduleInitFun idlen name n

/-- `gc0DeclModuleInitFun(name, i)`: `extern int INIT__i_name();` in the main unit -/
def siteBrotherDecl (idlen : Nat) (name : Name) (i : Nat) : List Char :=
  moduleInitFun idlen name i

/-- `genAXLmainC(name)`: `extern int INIT__0_name();` in the generated `main` file -/
def siteMainDecl (idlen : Nat) (name : Name) : List Char :=
  multVarId idlen true initPrefix 0 name

/-- `gc0MainDef(name)`: the call in `main` -/
def siteMainCall (idlen : Nat) (name : Name) : List Char :=
  multVarId idlen true initPrefix 0 name

/-- `gc0GloIdDecl`, imported `Init`-protocol global `str`: declaration and call -/
def siteImport (idlen : Nat) (str : Name) : List Char :=
  multVarId idlen true initPrefix 0 str

/-- `gc0ExportInit(name, …)`: the call placed in front of an exported function's body -/
def siteExportInit (idlen : Nat) (name : Name) : List Char :=
  multVarId idlen true initPrefix 0 name

end AldorVerif.Mangle
