import AldorVerif.Gen.CharIndex

/-! # Hand model of the scanner's dispatch (scan.c) and of the keyword lookup (token.c)

Modelled statement by statement: `keyInit`, `keyTag`, `keyLongest` (token.c) over the generated
`tokInfoTable`; `scAdvance0/scAdvance/scAdvance1`, `scSkipSpace`, `scanTokenCases`, `scanWord`,
`scanString`, `scanComment`, `scanDoc`, `scanError`, `scanSpecial`, `scanNewLine`, `scanToken`
(the float state), `scan` (scan.c).  `scanNumber` is *not* modelled: the model stops with the
token `number` when `scanTokenCases` dispatches to it.

The text is the concatenation of the source lines as the includer hands them to the scanner.
Scope (the guard `SrcOK` of the theorems and of the correspondence generator): no NUL byte (the
includer cuts a line at a NUL), no system-command line (`#…`), bytes < 256.  `char` is signed
on the build target, `unsigned char c` in `scanTokenCases` is not; the ctype predicates are
those of the C locale (the compiler never calls `setlocale`). -/
namespace AldorVerif.Scan
open AldorVerif.Gen.CharIndex

/-! ## characters -/

/-- the value of a `char` holding byte `b` (plain `char` is signed on x86-64 Linux) -/
def toSChar (b : Nat) : Int := if b < 128 then (b : Int) else (b : Int) - 256

def ESC : Nat := 95       -- '_'
def isAlpha (b : Nat) : Bool := (65 ≤ b && b ≤ 90) || (97 ≤ b && b ≤ 122)
def isUpper (b : Nat) : Bool := 65 ≤ b && b ≤ 90
def isDigit (b : Nat) : Bool := 48 ≤ b && b ≤ 57
def isAlnum (b : Nat) : Bool := isAlpha b || isDigit b
def isSpace (b : Nat) : Bool := b == 32 || (9 ≤ b && b ≤ 13)
def isPrint (b : Nat) : Bool := 32 ≤ b && b ≤ 126

/-- a C string ends at the first NUL -/
def cstr (w : List Nat) : List Nat := w.takeWhile (· ≠ 0)

/-! ## token.c -/

def KeyNope : Int := -1

/-- `tokInfo(i).str` -/
def tokStr (i : Nat) : Option (List Nat) := (tokTable[i - tkStart]?).map (·.1)
def tokIsCloser (i : Nat) : Bool := ((tokTable[i - tkStart]?).map (·.2)).getD false

/-- one of keyInit's two loops: `lastch = 0; for (i = lo; i < hi; i++) { ch = tokInfo(i).str[0];
    if (ch != lastch) { keyIx[ch] = i; lastch = ch; } }`; the Bool records an out-of-range store -/
def keyInitLoop (lo n : Nat) (ix : List Int) : List Int × Bool :=
  let r := (List.range' lo n).foldl (fun (acc : List Int × Int × Bool) i =>
      let (ix, lastch, bad) := acc
      let ch := toSChar (((tokStr i).getD []).headD 0)
      if ch ≠ lastch then
        if 0 ≤ ch ∧ ch < ix.length then (ix.set ch.toNat (i : Int), ch, bad) else (ix, ch, true)
      else (ix, lastch, bad)) (ix, 0, false)
  (r.1, r.2.2)

/-- `keyIx` after `keyInit` -/
def keyIxInit : List Int × Bool :=
  let ix0 := List.replicate keyIxLen KeyNope
  let (ix1, b1) := keyInitLoop kwAlphaStart (kwAlphaLimit - kwAlphaStart) ix0
  let (ix2, b2) := keyInitLoop kwSymbolStart (kwSymbolLimit - kwSymbolStart) ix1
  (ix2, b1 || b2)

def keyIx : List Int := keyIxInit.1

/-- the subscript `ch` that `keyTag`/`keyLongest` apply to `keyIx` for a string whose first byte
    is `b`; `none`: the function returns before the subscript is evaluated.
    `if (!str || (ch = str[0]) <= 0 || keyIx[ch] == KeyNope) return TK_LIMIT;`
    (`ch` is an int holding a signed `char`; before the repair f6aff20 the test was `== 0`, see
    `keyLookupIdxOld`.) -/
def keyLookupIdx (b : Nat) : Option Int :=
  if toSChar b ≤ 0 then none else some (toSChar b)

/-- the text before f6aff20: `(ch = str[0]) == 0` -/
def keyLookupIdxOld (b : Nat) : Option Int :=
  if toSChar b = 0 then none else some (toSChar b)

def IdxOK (i : Int) : Prop := 0 ≤ i ∧ i < (keyIxLen : Int)
instance (i : Int) : Decidable (IdxOK i) := by unfold IdxOK; infer_instance

inductive KeyRes where
  | tag (t : Nat)          -- `TK_LIMIT` when there is no such keyword
  | oob (idx : Int)        -- `keyIx` subscripted outside its bounds: undefined behaviour
  deriving DecidableEq, Repr

/-- `keyTag`'s search loop over the rows from tag `i` on -/
def keyTagLoop (ch : Nat) (str : List Nat) : Nat → List (List Nat × Bool) → Nat
  | _, [] => tkLimit
  | i, (tokstr, _) :: rest =>
    if tokstr.headD 0 ≠ ch then tkLimit
    else if tokstr = str then i      -- isDisabled is 0 in the whole table
    else keyTagLoop ch str (i + 1) rest

def keyTag (w : List Nat) : KeyRes :=
  let str := cstr w
  match keyLookupIdx (str.headD 0) with
  | none => .tag tkLimit
  | some ch =>
    if ¬ IdxOK ch then .oob ch
    else
      let i := keyIx.getD ch.toNat KeyNope
      if i = KeyNope then .tag tkLimit
      else .tag (keyTagLoop ch.toNat str i.toNat (tokTable.drop (i.toNat - tkStart)))

/-- `strMatch`: length of the common prefix -/
def strMatch : List Nat → List Nat → Nat
  | a :: s1, b :: s2 => if a = b then strMatch s1 s2 + 1 else 0
  | _, _ => 0

def keyLongestLoop (ch : Nat) (str : List Nat) : Nat → List (List Nat × Bool) → Nat → Nat → Nat
  | _, [], _, matchno => matchno
  | i, (tokstr, _) :: rest, maxlen, matchno =>
    if tokstr.headD 0 ≠ ch then matchno
    else
      let matchlen := strMatch tokstr str
      if matchlen = tokstr.length ∧ matchlen > maxlen then keyLongestLoop ch str (i + 1) rest matchlen i
      else keyLongestLoop ch str (i + 1) rest maxlen matchno

def keyLongest (s : List Nat) : KeyRes :=
  let str := cstr s
  match keyLookupIdx (str.headD 0) with
  | none => .tag tkLimit
  | some ch =>
    if ¬ IdxOK ch then .oob ch
    else
      let i := keyIx.getD ch.toNat KeyNope
      if i = KeyNope then .tag tkLimit
      else .tag (keyLongestLoop ch.toNat str i.toNat (tokTable.drop (i.toNat - tkStart)) 0 tkLimit)

/-! ## scan.c: state and movement -/

inductive FloatState where
  | anyFloat | noPreDotFloat | noDotFloat
  deriving DecidableEq, Repr

/-- `rest`: the text from `scLine[scLineIndex]` on (`[]`: `scLine == 0`); `esc`: `scIsEscaped` -/
structure St where
  rest : List Nat
  esc  : Bool
  deriving DecidableEq, Repr

def St.peek (s : St) : Nat := s.rest.headD 0             -- scPeekChar
def St.next (s : St) : Nat := (s.rest.drop 1).headD 0    -- scNextChar

/-- `scAdvance1` on the text that is left.  mode 0: at `restart`; mode 1: the escape character
    has just been passed; mode 2: inside `while (isspace(scPeekChar())) scAdvance0();` -/
def adv1 : Nat → List Nat → List Nat × Bool
  | 0, [] => ([], false)
  | 0, c :: r => if c = ESC then adv1 1 r else (c :: r, false)
  | 1, [] => ([], true)
  | 1, c :: r => if isSpace c then adv1 2 r else (c :: r, true)
  | _, [] => ([], false)
  | _, c :: r => if isSpace c then adv1 2 r else if c = ESC then adv1 1 r else (c :: r, false)

/-- `scAdvance()` -/
def St.adv (s : St) (inComment : Bool := false) : St :=
  if inComment then ⟨s.rest.tail, false⟩
  else let p := adv1 0 s.rest.tail; ⟨p.1, p.2⟩

/-- `scSkipSpace()` -/
def skipSpace : Nat → St → St
  | 0, s => s
  | n + 1, s =>
    match s.rest with
    | [] => s
    | c :: _ => if c = 32 ∨ c = 9 then skipSpace n s.adv else s

/-! ## tokens -/

inductive Tok where
  | id (w : List Nat)                  -- TK_Id, `w` is what scanWord collected
  | blank (w : List Nat)               -- TK_Blank
  | kw (tag : Nat) (w : List Nat)      -- a keyword found by scanWord
  | fault (w : List Nat) (idx : Int)   -- keyTag subscripts keyIx out of range
  | faultL (c : Nat) (idx : Int)       -- keyLongest subscripts keyIx out of range
  | special (tag : Nat) (c : Nat)      -- a keyword found by scanSpecial, `c` its first byte
  | badChar (viaSpecial : Bool) (c : Nat)
  | str (s : List Nat)
  | openString (s : List Nat)
  | comment (s : List Nat)
  | preDoc (s : List Nat)
  | postDoc (s : List Nat)
  | newline
  | number                             -- scanNumber takes over: not modelled
  deriving DecidableEq, Repr

inductive Class where
  | eof | newline | word | number | string | comment | doc | special | error
  deriving DecidableEq, Repr

/-- the dispatch of `scanTokenCases` (after `scSkipSpace`) on `c = scPeekChar()` (an unsigned
    char), `cn = scNextChar()`, `scIsEscaped` and `scFloatState` -/
def dispatch (c cn : Nat) (esc : Bool) (fs : FloatState) : Class :=
  if c = 0 then .eof
  else if c = 10 then .newline
  else if isAlpha c || c == 37 || c == 63 || esc then .word
  else if isDigit c then .number
  else if c = 34 then .string
  else if c = 46 ∧ isDigit cn ∧ fs = .anyFloat then .number
  else if c = 45 ∧ cn = 45 then .comment
  else if c = 43 ∧ cn = 43 then .doc
  else if isPrint c then .special
  else .error

/-- `normal = isalnum(c) || c == '%' || c == '!' || c == '?'` (c is an int holding a `char`:
    negative for bytes ≥ 0x80, where isalnum is false) -/
def isNormal (b : Nat) : Bool := isAlnum b || b == 37 || b == 33 || b == 63

/-- the loop of `scanWord` -/
def wordLoop : Nat → St → List Nat → List Nat × St
  | 0, s, acc => (acc.reverse, s)
  | n + 1, s, acc =>
    let c := s.peek
    if !isNormal c && !s.esc then (acc.reverse, s)
    else wordLoop n s.adv (c :: acc)

def scanWord (s : St) : Tok × St :=
  let escaped := s.esc
  let c0 := s.peek
  let (w, s') := wordLoop (s.rest.length + 2) s []
  match keyTag w with
  | .oob idx => (.fault w idx, s')
  | .tag kno =>
    if !escaped && c0 == 63 then (.blank w, s')
    else if !escaped && kno ≠ tkLimit then (.kw kno w, s')
    else (.id w, s')

def stringLoop : Nat → St → List Nat → Tok × St
  | 0, s, acc => (.openString acc.reverse, s)
  | n + 1, s, acc =>
    let c := s.peek
    if !s.esc && c == 34 then (.str acc.reverse, s.adv)
    else if !s.esc && (c == 10 || c == 0) then (.openString acc.reverse, s)
    else stringLoop n s.adv (c :: acc)

def scanString (s : St) : Tok × St := stringLoop (s.rest.length + 2) s.adv []

/-- `while ((c = scPeekChar()) != '\n' && c != scEndChar) { scAddChar(c); scAdvance(); }` inside a comment -/
def commentLoop : List Nat → List Nat → List Nat × List Nat
  | [], acc => (acc.reverse, [])
  | c :: r, acc => if c = 10 ∨ c = 0 then (acc.reverse, c :: r) else commentLoop r (c :: acc)

def scanComment (s : St) : Tok × St :=
  let s2 := (s.adv true).adv true
  let (t, r) := commentLoop s2.rest []
  (.comment t, ⟨r, false⟩)

def scanDoc (s : St) : Tok × St :=
  let s2 := (s.adv true).adv true
  let isPre := s2.peek == 43
  let s3 := if isPre then s2.adv true else s2
  let (t, r) := commentLoop s3.rest []
  (if isPre then .preDoc t else .postDoc t, ⟨r, false⟩)

def scanError (viaSpecial : Bool) (s : St) : Tok × St := (.badChar viaSpecial s.peek, s.adv)

def advN : Nat → St → St
  | 0, s => s
  | n + 1, s => advN n s.adv

def scanSpecial (s : St) : Tok × St :=
  match keyLongest s.rest with
  | .oob idx => (.faultL s.peek idx, s)
  | .tag kno =>
    if kno = tkLimit then scanError true s
    else (.special kno s.peek, advN ((tokStr kno).getD []).length s)

/-- did the movement from `s0` to `s` (a suffix of it) step over the end of a line?  `scStartLine`
    then reset `scFloatState = AnyFloat` -/
def crossedLine (s0 s : St) : Bool := (s0.rest.take (s0.rest.length - s.rest.length)).contains 10

/-- `scanTokenCases`: `none` at the end of the text -/
def scanTokenCases (fs0 : FloatState) (s0 : St) : Option Tok × St :=
  let s := skipSpace (s0.rest.length + 1) s0
  let fs := if crossedLine s0 s then .anyFloat else fs0
  match dispatch s.peek s.next s.esc fs with
  | .eof => (none, s)
  | .newline => (some .newline, s.adv)
  | .word => let r := scanWord s; (some r.1, r.2)
  | .number => (some .number, s)
  | .string => let r := scanString s; (some r.1, r.2)
  | .comment => let r := scanComment s; (some r.1, r.2)
  | .doc => let r := scanDoc s; (some r.1, r.2)
  | .special => let r := scanSpecial s; (some r.1, r.2)
  | .error => let r := scanError false s; (some r.1, r.2)

/-- `floatCanFollow` -/
def floatCanFollow : Tok → FloatState
  | .id _ | .str _ => .noPreDotFloat
  | .kw t _ | .special t _ => if t = kwDot then .noDotFloat else if tokIsCloser t then .noPreDotFloat else .anyFloat
  | .newline => if tokIsCloser kwNewLine then .noPreDotFloat else .anyFloat
  | _ => .anyFloat

/-- `scan`'s loop; stops at the first token the model does not follow (`number`, `fault`) -/
def scanLoop : Nat → FloatState → St → List Tok
  | 0, _, _ => []
  | n + 1, fs, s =>
    match scanTokenCases fs s with
    | (none, _) => []
    | (some t, s') =>
      match t with
      | .number => [t]
      | .fault _ _ => [t]
      | .faultL _ _ => [t]
      | _ => t :: scanLoop n (floatCanFollow t) s'

/-- the includer strips the indentation of a line (`inclCalcIndentLevel`); `scStartLine` does not
    look for the escape character, so only the very first character of the text is exempt -/
def dropIndent : List Nat → List Nat
  | c :: r => if c = 32 ∨ c = 9 then dropIndent r else c :: r
  | [] => []

def scan (src : List Nat) : List Tok :=
  let t := dropIndent src
  scanLoop (t.length + 1) .anyFloat ⟨t, false⟩

/-- the guard under which the text model is the scanner's input -/
def SrcOK (src : List Nat) : Prop := ∀ b ∈ src, b ≠ 0 ∧ b < 256
instance (src : List Nat) : Decidable (SrcOK src) := by unfold SrcOK; infer_instance

/-- the strings handed to `keyTag` during a scan -/
def Tok.word? : Tok → Option (List Nat)
  | .id w | .blank w | .kw _ w => some w
  | .fault w _ => some w
  | _ => none

end AldorVerif.Scan
