/-
MiniTy: a small first-order typed core of Aldor, used by property C06
("ill-typed programs are rejected, well-typed ones accepted").

The real type checker (tinfer.c, ti_bup.c, ti_tdn.c, tfsat.c, scobind.c, abcheck.c) is not
modelled.  What is modelled is the *language fragment* the C06 templates are written in, with

* a declarative typing judgement (`CanTy`, `WT`, `StmtWT`, `FunWT`, `DeclWT`, `ProgWT`),
* an executable checker `typecheck : Prog → Except TypeErr Unit` that reports the kind of the
  first error and its SITE (a path into the syntax tree),
* a mutation catalogue `mutate : Kind → Site → Prog → Option Prog`,
* a renderer to Aldor concrete syntax that knows the (line, column) span of every site.

Scoping follows what the compiler does on the rendered text (observed, see checks/parts/typing.py):
file-level definitions, imports and functions are visible in the whole file regardless of
order; a definition in an `add` body hides an outer meaning of the same name and signature;
an assignment inside a function only reaches the function's own parameters and locals.
Overloading is resolved as tiBottomUp/tiTopDown do: bottom-up every node gets its set of possible
types (`canTy`), top-down the expected type must select exactly one meaning (`checkTD`).
-/
namespace AldorVerif.MiniTy

/-! ## Types -/

/-- value types of the core -/
inductive BTy where
  | mint   -- MachineInteger
  | int    -- Integer
  | bool   -- Boolean
  | str    -- String
deriving DecidableEq, Repr, Inhabited

def BTy.all : List BTy := [.mint, .int, .bool, .str]

theorem BTy.mem_all (t : BTy) : t ∈ BTy.all := by cases t <;> simp [BTy.all]

/-- a parameter `name: ty` or `name: ty == (dflt@ty)` (a default value is a literal) -/
structure Param where
  name : String
  ty   : BTy
  dflt : Option Nat := none
deriving DecidableEq, Repr, Inhabited

/-- a signature `name: (params) -> res` (the function types of the core are first order).
`anon`: written without parameter names, `name: (T1, T2) -> R` (category signatures only;
keyword arguments cannot refer to its parameters). -/
structure Sig where
  name   : String
  params : List Param
  res    : BTy
  anon   : Bool := false
deriving DecidableEq, Repr, Inhabited

def Sig.args (s : Sig) : List BTy := s.params.map (·.ty)

def nodupB {α : Type} [BEq α] : List α → Bool
  | [] => true
  | x :: xs => !xs.contains x && nodupB xs

/-- how a call with `n` arguments, the last `keys.length` of them keyword arguments named `keys`,
meets a signature: the expected type of every argument, or why the call cannot be matched
(reasons in this order of precedence). -/
inductive Shape where
  | ok (ts : List BTy)
  /-- a keyword that is not the name of a parameter -/
  | unknownKw
  /-- a keyword naming a parameter already given positionally, or given twice -/
  | dupArg
  /-- too many positional arguments, or a parameter without default left out -/
  | count
deriving DecidableEq, Repr

def Shape.isOk : Shape → Bool
  | .ok _ => true
  | _ => false

def Sig.shape (σ : Sig) (n : Nat) (keys : List String) : Shape :=
  let np := n - keys.length
  if n < keys.length then .count
  else if (σ.anon && !keys.isEmpty) || keys.any (fun k => !(σ.params.map (·.name)).contains k) then .unknownKw
  else if keys.any (fun k => ((σ.params.take np).map (·.name)).contains k) || !nodupB keys then .dupArg
  else if σ.params.length < np ||
          (σ.params.drop np).any (fun p => p.dflt.isNone && !keys.contains p.name) then .count
  else .ok ((σ.params.take np).map (·.ty) ++
            keys.map (fun k => match σ.params.find? (·.name == k) with
                               | some p => p.ty
                               | none => .mint))

/-- the types of the core: value types, function types, a domain type (its list of exports)
and a category (its list of required signatures). -/
inductive Ty where
  | base (b : BTy)
  | fn (args : List BTy) (res : BTy)
  | dom (exports : List Sig)
  | cat (sigs : List Sig)
deriving DecidableEq, Repr

def Sig.ty (s : Sig) : Ty := .fn s.args s.res

/-- same operator type (parameter names and defaults aside) -/
def Sig.sameType (a b : Sig) : Bool := a.name == b.name && a.args == b.args && a.res == b.res

/-! ## Syntax -/

inductive Expr where
  /-- literal with its explicit type annotation, rendered `(n@T)` -/
  | lit (t : BTy) (n : Nat)
  | var (x : String)
  /-- `f(args)` or `f(args)$q`.  The last `keys.length` arguments are keyword arguments
  `k == e` with the names `keys`; the others are positional. -/
  | app (f : String) (q : Option String) (args : List Expr) (keys : List String)
deriving Repr, Inhabited

inductive Stmt where
  | defConst (x : String) (t : BTy) (e : Expr)   -- `x: T == e`
  | defVar   (x : String) (t : BTy) (e : Expr)   -- `x: T := e` (`local x: T := e` in a function)
  | assign   (x : String) (e : Expr)             -- `x := e`
  | ret      (e : Expr)                          -- `return e`
  | value    (e : Expr)                          -- `e` as the last expression of a `{…}` body
  | exit     (c : String) (e : Expr)             -- `c => e` (c a Boolean value in scope)
deriving Repr, Inhabited

structure FunDef where
  name   : String
  params : List Param
  res    : BTy
  body   : List Stmt
  /-- `f(…): R == e` without braces (the body is then a single `.value e`) -/
  bare   : Bool := false
deriving Repr, Inhabited

def FunDef.sig (d : FunDef) : Sig := { name := d.name, params := d.params, res := d.res }

inductive Decl where
  | cat (name : String) (sigs : List Sig)                       -- `C: Category == with {…}`
  | dom (name : String) (cat : String) (defs : List FunDef)     -- `D: C == add {…}`
  | functor (name : String) (param : String) (pcat : String) (cat : String)
            (defs : List FunDef)                                -- `F(T: PC): C == add {…}`
  | func (d : FunDef)                                           -- file-level function
  | imp (dom : String)                                          -- `import from D`
  | stmt (s : Stmt)                                             -- file-level statement
deriving Repr, Inhabited

abbrev Prog := List Decl

/-! ## Environments -/

structure Val where
  name  : String
  ty    : BTy
  const : Bool
deriving Repr, DecidableEq, Inhabited

/-- file-level environment, collected from the whole program (order independent) -/
structure GEnv where
  cats    : List (String × List Sig) := []
  doms    : List (String × String) := []     -- domain name ↦ category name
  imports : List String := []
  funcs   : List Sig := []
  vals    : List Val := []
deriving Repr, Inhabited

def Stmt.binding : Stmt → Option Val
  | .defConst x t _ => some ⟨x, t, true⟩
  | .defVar x t _ => some ⟨x, t, false⟩
  | _ => none

def GEnv.addDecl (g : GEnv) : Decl → GEnv
  | .cat n sigs => { g with cats := g.cats ++ [(n, sigs)] }
  | .dom n c _ => { g with doms := g.doms ++ [(n, c)] }
  | .functor .. => g
  | .func d => { g with funcs := g.funcs ++ [d.sig] }
  | .imp d => { g with imports := g.imports ++ [d] }
  | .stmt s => match s.binding with
    | some v => { g with vals := g.vals ++ [v] }
    | none => g

def globalEnv (p : Prog) : GEnv := p.foldl GEnv.addDecl {}

def GEnv.catSigs (g : GEnv) (c : String) : List Sig :=
  match g.cats.find? (·.1 == c) with
  | some p => p.2
  | none => []

def GEnv.catDefined (g : GEnv) (c : String) : Bool := g.cats.any (·.1 == c)
def GEnv.domDefined (g : GEnv) (d : String) : Bool := g.doms.any (·.1 == d)

def GEnv.domSigs (g : GEnv) (d : String) : List Sig :=
  match g.doms.find? (·.1 == d) with
  | some p => g.catSigs p.2
  | none => []

/-- the type of a domain: its exports -/
def GEnv.domTy (g : GEnv) (d : String) : Option Ty :=
  if g.domDefined d then some (.dom (g.domSigs d)) else none

/-- environment of a statement -/
structure Env where
  g      : GEnv
  /-- parameters and locals of the enclosing function (`[]` at file level) -/
  locals : List Val := []
  /-- inside a function? (decides which scope `:=` may assign in) -/
  inFun  : Bool := false
  /-- functor parameter `(T, category)` in scope -/
  param  : Option (String × String) := none
  /-- signatures of the definitions of the enclosing `add` body -/
  sibs   : List Sig := []
deriving Repr, Inhabited

def Env.lookupVal (Γ : Env) (x : String) : Option Val :=
  match Γ.locals.find? (·.name == x) with
  | some v => some v
  | none => Γ.g.vals.find? (·.name == x)

/-- the scope an assignment may write to -/
def Env.scopeVals (Γ : Env) : List Val := if Γ.inFun then Γ.locals else Γ.g.vals

inductive Origin where
  | top | sib | dom (d : String) | par (t : String)
deriving DecidableEq, Repr

structure Meaning where
  origin : Origin
  sig    : Sig
deriving DecidableEq, Repr

def named (f : String) (l : List Sig) : List Sig := l.filter (·.name == f)

def Env.isParam (Γ : Env) (q : Option String) : Bool :=
  match q, Γ.param with
  | some Q, some (T, _) => T == Q
  | _, _ => false

/-- all meanings of the operator name `f` (qualified by `q`) visible in `Γ` -/
def meanings (Γ : Env) (f : String) : Option String → List Meaning
  | none =>
    let sibs := (named f Γ.sibs).map (Meaning.mk .sib)
    let outer := (named f Γ.g.funcs).map (Meaning.mk .top) ++
      Γ.g.imports.flatMap (fun d => (named f (Γ.g.domSigs d)).map (Meaning.mk (.dom d)))
    -- a definition of the enclosing `add` hides outer meanings with the same type
    sibs ++ outer.filter (fun m => !(named f Γ.sibs).any (·.sameType m.sig))
  | some Q =>
    if Γ.isParam (some Q) then
      match Γ.param with
      | some (T, c) => (named f (Γ.g.catSigs c)).map (Meaning.mk (.par T))
      | none => []
    else (named f (Γ.g.domSigs Q)).map (Meaning.mk (.dom Q))

/-! ## Bottom-up: the possible types of an expression (executable) -/

/-- a keyword argument `k == e` is scoped like a definition of `k` where the call stands: the
compiler rejects it when `k` is a parameter or variable there ("a local constant may not have
the same name as an outer variable or parameter") -/
def keysFree (Γ : Env) (keys : List String) : Bool := keys.all (fun k => (Γ.lookupVal k).isNone)

mutual
/-- `canTy Γ e t`: some choice of meanings gives `e` the type `t` -/
def canTy (Γ : Env) : Expr → BTy → Bool
  | .lit t0 _, t => t0 == t
  | .var x, t => match Γ.lookupVal x with
    | some v => v.ty == t
    | none => false
  | .app f q args keys, t =>
    keysFree Γ keys &&
    (meanings Γ f q).any (fun m => m.sig.res == t &&
      match m.sig.shape args.length keys with
      | .ok ts => canTyArgs Γ args ts
      | _ => false)
def canTyArgs (Γ : Env) : List Expr → List BTy → Bool
  | [], [] => true
  | a :: as, t :: ts => canTy Γ a t && canTyArgs Γ as ts
  | _, _ => false
end

def typeable (Γ : Env) (e : Expr) : Bool := BTy.all.any (canTy Γ e)

/-- the arguments of a call meet the signature -/
def fits (Γ : Env) (args : List Expr) (keys : List String) (σ : Sig) : Bool :=
  match σ.shape args.length keys with
  | .ok ts => canTyArgs Γ args ts
  | _ => false

/-! ## Errors -/

inductive ErrKind where
  | wrongArgType | wrongArgCount | undefinedName | ambiguous | assignConst | wrongReturnType
  | missingExport | paramLacksOp | unknownKeyword | duplicateArg
  -- not produced by the catalogue:
  | typeMismatch | notAssignable | misplacedReturn | missingReturn | keywordClash | internal
deriving DecidableEq, Repr, Inhabited

abbrev Site := List Nat

structure TypeErr where
  kind : ErrKind
  site : Site
deriving DecidableEq, Repr, Inhabited

/-! ## Bottom-up diagnosis: the first node (post-order) without any possible type -/

def shapeErr : Shape → ErrKind
  | .unknownKw => .unknownKeyword
  | .dupArg => .duplicateArg
  | .count => .wrongArgCount
  | .ok _ => .internal

mutual
/-- for an expression that is not `typeable`: kind and site of the innermost-leftmost cause -/
def explain (Γ : Env) (site : Site) : Expr → TypeErr
  | .lit _ _ => ⟨.internal, site⟩
  | .var _ => ⟨.undefinedName, site⟩
  | .app f q args keys =>
    match explainArgs Γ site 0 args with
    | some e => e
    | none =>
      if !keysFree Γ keys then ⟨.keywordClash, site⟩
      else match meanings Γ f q with
        | [] => ⟨if Γ.isParam q then .paramLacksOp else .undefinedName, site⟩
        | m :: ms =>
          -- no meaning can even be matched against the call: the reason of the first one
          if (m :: ms).all (fun x => !(x.sig.shape args.length keys).isOk) then
            ⟨shapeErr (m.sig.shape args.length keys), site⟩
          else ⟨.wrongArgType, site⟩
def explainArgs (Γ : Env) (site : Site) (i : Nat) : List Expr → Option TypeErr
  | [] => none
  | a :: as =>
    if typeable Γ a then explainArgs Γ site (i + 1) as
    else some (explain Γ (site ++ [i]) a)
end

/-! ## Top-down: the expected type must select exactly one meaning at every application -/

/-- the meanings of `f` that can produce `t` from these arguments -/
def candidates (Γ : Env) (f : String) (q : Option String) (args : List Expr) (keys : List String)
    (t : BTy) : List Meaning :=
  (meanings Γ f q).filter (fun m => m.sig.res == t && fits Γ args keys m.sig)

mutual
def checkTD (Γ : Env) (site : Site) : Expr → BTy → Except TypeErr Unit
  | .lit t0 _, t => if t0 == t then .ok () else .error ⟨.typeMismatch, site⟩
  | .var x, t => match Γ.lookupVal x with
    | some v => if v.ty == t then .ok () else .error ⟨.typeMismatch, site⟩
    | none => .error ⟨.undefinedName, site⟩
  | .app f q args keys, t =>
    if !keysFree Γ keys then .error ⟨.keywordClash, site⟩
    else match candidates Γ f q args keys t with
    | [] => .error ⟨.typeMismatch, site⟩
    | [m] =>
      match m.sig.shape args.length keys with
      | .ok ts => checkTDArgs Γ site 0 args ts
      | _ => .error ⟨.internal, site⟩
    | _ :: _ :: _ => .error ⟨.ambiguous, site⟩
def checkTDArgs (Γ : Env) (site : Site) (i : Nat) : List Expr → List BTy → Except TypeErr Unit
  | [], [] => .ok ()
  | a :: as, t :: ts =>
    match checkTD Γ (site ++ [i]) a t with
    | .ok () => checkTDArgs Γ site (i + 1) as ts
    | .error e => .error e
  | _, _ => .error ⟨.internal, site⟩
end

/-- an expression in a context that requires type `t`.  `stSite` is the site of the enclosing
statement (the expression itself is child 0 of it); a root mismatch is an error *of the
statement*, of kind `mk`. -/
def checkExpr (Γ : Env) (stSite : Site) (mk : ErrKind) (e : Expr) (t : BTy) : Except TypeErr Unit :=
  if !typeable Γ e then .error (explain Γ (stSite ++ [0]) e)
  else if !canTy Γ e t then .error ⟨mk, stSite⟩
  else checkTD Γ (stSite ++ [0]) e t

/-! ## Statements, functions, declarations, programs -/

def checkStmt (Γ : Env) (ret : Option BTy) (site : Site) : Stmt → Except TypeErr Unit
  | .defConst _ t e => checkExpr Γ site .typeMismatch e t
  | .defVar _ t e => checkExpr Γ site .typeMismatch e t
  | .assign x e =>
    match Γ.scopeVals.find? (·.name == x) with
    | some v => if v.const then .error ⟨.assignConst, site⟩ else checkExpr Γ site .typeMismatch e v.ty
    | none => .error ⟨.notAssignable, site⟩
  | .ret e =>
    match ret with
    | some r => checkExpr Γ site .wrongReturnType e r
    | none => .error ⟨.misplacedReturn, site⟩
  | .value e =>
    match ret with
    | some r => checkExpr Γ site .wrongReturnType e r
    | none => .error ⟨.misplacedReturn, site⟩
  | .exit c e =>
    match ret with
    | some r =>
      match Γ.lookupVal c with
      | some v => if v.ty == .bool then checkExpr Γ site .wrongReturnType e r
                  else .error ⟨.typeMismatch, site⟩
      | none => .error ⟨.undefinedName, site⟩
    | none => .error ⟨.misplacedReturn, site⟩

/-- run `f i x` over the list, indices counted from `i`; the first error wins -/
def checkList {α : Type} (f : Nat → α → Except TypeErr Unit) (i : Nat) : List α → Except TypeErr Unit
  | [] => .ok ()
  | x :: xs =>
    match f i x with
    | .ok () => checkList f (i + 1) xs
    | .error e => .error e

def FunDef.locals (d : FunDef) : List Val :=
  d.params.map (fun p => ⟨p.name, p.ty, false⟩) ++ d.body.filterMap Stmt.binding

/-- a statement that gives the body its value -/
def Stmt.isRet : Stmt → Bool
  | .ret _ => true
  | .value _ => true
  | _ => false

def endsWithRet (body : List Stmt) : Bool :=
  match body.getLast? with
  | some s => s.isRet
  | none => false

/-- environment of the body of `d`, defined in a scope with environment `Γ` -/
def Env.enter (Γ : Env) (d : FunDef) : Env := { Γ with locals := d.locals, inFun := true }

def checkFun (Γ : Env) (site : Site) (d : FunDef) : Except TypeErr Unit :=
  match checkList (fun j s => checkStmt (Γ.enter d) (some d.res) (site ++ [j]) s) 0 d.body with
  | .ok () => if endsWithRet d.body then .ok () else .error ⟨.missingReturn, site⟩
  | .error e => .error e

/-- a definition with signature `d` provides the required `σ`: same operator type, and the same
parameters carry defaults (the parameter names of a definition are its own) -/
def implements (d σ : Sig) : Bool :=
  d.sameType σ && d.params.map (·.dflt.isSome) == σ.params.map (·.dflt.isSome)

/-- does the `add` body define every signature the category requires? -/
def covers (defs : List FunDef) (sigs : List Sig) : Bool :=
  sigs.all (fun σ => defs.any (fun d => implements d.sig σ))

def checkAdd (g : GEnv) (site : Site) (param : Option (String × String)) (c : String)
    (defs : List FunDef) : Except TypeErr Unit :=
  if !g.catDefined c then .error ⟨.undefinedName, site⟩
  else if !covers defs (g.catSigs c) then .error ⟨.missingExport, site⟩
  else checkList (fun j d => checkFun { g := g, param := param, sibs := defs.map FunDef.sig }
                    (site ++ [j]) d) 0 defs

def checkDecl (g : GEnv) (i : Nat) : Decl → Except TypeErr Unit
  | .cat _ _ => .ok ()
  | .dom _ c defs => checkAdd g [i] none c defs
  | .functor _ T pc c defs =>
    if !g.catDefined pc then .error ⟨.undefinedName, [i]⟩ else checkAdd g [i] (some (T, pc)) c defs
  | .func d => checkFun { g := g } [i] d
  | .imp d => if g.domDefined d then .ok () else .error ⟨.undefinedName, [i]⟩
  | .stmt s => checkStmt { g := g } none [i] s

def typecheck (p : Prog) : Except TypeErr Unit :=
  checkList (checkDecl (globalEnv p)) 0 p

/-! ## The declarative judgement

Syntax directed, so written as equations over the syntax; existence and uniqueness of the
selected meaning are stated, not computed. -/

mutual
/-- `e` can be given type `t` (some resolution of the overloaded names exists) -/
def CanTy (Γ : Env) : Expr → BTy → Prop
  | .lit t0 _, t => t0 = t
  | .var x, t => ∃ v, Γ.lookupVal x = some v ∧ v.ty = t
  | .app f q args keys, t =>
    keysFree Γ keys = true ∧
    ∃ m, m ∈ meanings Γ f q ∧ m.sig.res = t ∧
      ∃ ts, m.sig.shape args.length keys = .ok ts ∧ CanTyArgs Γ args ts
def CanTyArgs (Γ : Env) : List Expr → List BTy → Prop
  | [], [] => True
  | a :: as, t :: ts => CanTy Γ a t ∧ CanTyArgs Γ as ts
  | _, _ => False
end

/-- `m` is the only entry of `l` satisfying `P` (entries count with multiplicity: two imports
providing the same signature are two meanings) -/
def OnlyOne {α : Type} (P : α → Prop) (l : List α) (m : α) : Prop :=
  ∃ l₁ l₂, l = l₁ ++ m :: l₂ ∧ P m ∧ (∀ x ∈ l₁, ¬ P x) ∧ (∀ x ∈ l₂, ¬ P x)

mutual
/-- `e` is well typed at `t`: at every application exactly one meaning fits the expected type -/
def WT (Γ : Env) : Expr → BTy → Prop
  | .lit t0 _, t => t0 = t
  | .var x, t => ∃ v, Γ.lookupVal x = some v ∧ v.ty = t
  | .app f q args keys, t =>
    keysFree Γ keys = true ∧
    ∃ m, OnlyOne (fun m => m.sig.res = t ∧
                    ∃ ts, m.sig.shape args.length keys = .ok ts ∧ CanTyArgs Γ args ts)
           (meanings Γ f q) m ∧
         ∃ ts, m.sig.shape args.length keys = .ok ts ∧ WTArgs Γ args ts
def WTArgs (Γ : Env) : List Expr → List BTy → Prop
  | [], [] => True
  | a :: as, t :: ts => WT Γ a t ∧ WTArgs Γ as ts
  | _, _ => False
end

def StmtWT (Γ : Env) (ret : Option BTy) : Stmt → Prop
  | .defConst _ t e => WT Γ e t
  | .defVar _ t e => WT Γ e t
  | .assign x e => ∃ v, Γ.scopeVals.find? (·.name == x) = some v ∧ v.const = false ∧ WT Γ e v.ty
  | .ret e => ∃ r, ret = some r ∧ WT Γ e r
  | .value e => ∃ r, ret = some r ∧ WT Γ e r
  | .exit c e => ∃ r v, ret = some r ∧ Γ.lookupVal c = some v ∧ v.ty = .bool ∧ WT Γ e r

def FunWT (Γ : Env) (d : FunDef) : Prop :=
  (∀ s ∈ d.body, StmtWT (Γ.enter d) (some d.res) s) ∧ endsWithRet d.body = true

def AddWT (g : GEnv) (param : Option (String × String)) (c : String) (defs : List FunDef) : Prop :=
  g.catDefined c = true ∧
  (∀ σ ∈ g.catSigs c, ∃ d ∈ defs, implements d.sig σ = true) ∧
  ∀ d ∈ defs, FunWT { g := g, param := param, sibs := defs.map FunDef.sig } d

def DeclWT (g : GEnv) : Decl → Prop
  | .cat _ _ => True
  | .dom _ c defs => AddWT g none c defs
  | .functor _ T pc c defs => g.catDefined pc = true ∧ AddWT g (some (T, pc)) c defs
  | .func d => FunWT { g := g } d
  | .imp d => g.domDefined d = true
  | .stmt s => StmtWT { g := g } none s

/-- the program is well typed -/
def ProgWT (p : Prog) : Prop := ∀ d ∈ p, DeclWT (globalEnv p) d

/-! ## The mutation catalogue -/

inductive Kind where
  /-- replace argument `a` of the application at the site by a literal of type `t` -/
  | wrongArgType (a : Nat) (t : BTy)
  /-- add a literal positional argument (`more`) or drop the last positional argument -/
  | wrongArgCount (more : Bool)
  /-- rename the variable / the operator at the site to a name that has no meaning -/
  | undefinedName (fresh : String)
  /-- drop the `$Q` of the application at the site, where two meanings then apply -/
  | ambiguous
  /-- make the assignment at the site assign to the constant `c` of the same scope -/
  | assignConst (c : String)
  /-- replace the expression in a value position of a function body (operand of `return`, last
      expression of the `{…}` body, value of `c => v`, bare-expression body) by the explicitly
      restricted literal `(0@t)`, `t` not the declared result type -/
  | wrongReturnType (t : BTy)
  /-- remove definition `d` from the `add` body at the site, leaving a required export undefined -/
  | missingExport (d : Nat)
  /-- replace the operator of an application `f(…)$T` (T the functor's parameter) by `g`, which
      T's category does not export -/
  | paramLacksOp (g : String)
  /-- give the last argument of the call the keyword `y`, which is not a parameter of the callee
      (rename the last keyword, or make the last positional argument a keyword argument) -/
  | unknownKeyword (y : String)
  /-- positional arguments up to one more than the callee has parameters, for a callee with
      default-valued parameters -/
  | tooManyPositional
  /-- add a keyword argument naming the callee's first parameter, which is given positionally -/
  | keywordDupPositional
  /-- drop the positional arguments from the last parameter without default on, for a callee
      whose later parameters have defaults -/
  | omitRequired
deriving DecidableEq, Repr

def expectedKind : Kind → ErrKind
  | .wrongArgType .. => .wrongArgType
  | .wrongArgCount _ => .wrongArgCount
  | .undefinedName _ => .undefinedName
  | .ambiguous => .ambiguous
  | .assignConst _ => .assignConst
  | .wrongReturnType _ => .wrongReturnType
  | .missingExport _ => .missingExport
  | .paramLacksOp _ => .paramLacksOp
  | .unknownKeyword _ => .unknownKeyword
  | .tooManyPositional => .wrongArgCount
  | .keywordDupPositional => .duplicateArg
  | .omitRequired => .wrongArgCount

/-- every visible meaning rejects a call of this form for reason `r` -/
def allShape (Γ : Env) (f : String) (q : Option String) (n : Nat) (keys : List String) (r : Shape) : Bool :=
  (meanings Γ f q).all (fun m => m.sig.shape n keys == r)

/-- index of the last parameter without default among the first `np` -/
def lastRequired (ps : List Param) (np : Nat) : Option Nat :=
  ((List.range np).filter (fun i => match ps[i]? with
                                    | some p => p.dflt.isNone
                                    | none => false)).getLast?

/-- the local rewrite of an expression node (with its eligibility test) -/
def mutExpr (k : Kind) (Γ : Env) : Expr → Option Expr
  | .lit _ _ => none
  | .var _ =>
    match k with
    | .undefinedName y => if (Γ.lookupVal y).isNone then some (.var y) else none
    | _ => none
  | .app f q args keys =>
    let np := args.length - keys.length
    match k with
    | .wrongArgType a t =>
      if a < args.length ∧
         (meanings Γ f q).all (fun m => match m.sig.shape args.length keys with
                                        | .ok ts => ts[a]? != some t
                                        | _ => true)
      then some (.app f q (args.set a (.lit t 0)) keys) else none
    | .wrongArgCount more =>
      let args' := if more then args.take np ++ [.lit .mint 0] ++ args.drop np else args.eraseIdx (np - 1)
      -- (dropping needs a positional argument: the keyword arguments stay)
      if (more ∨ 0 < np) ∧ args'.length ≠ args.length ∧ allShape Γ f q args'.length keys .count
      then some (.app f q args' keys) else none
    | .undefinedName y =>
      if !Γ.isParam q ∧ (meanings Γ y q).isEmpty then some (.app y q args keys) else none
    | .paramLacksOp y =>
      if Γ.isParam q ∧ (meanings Γ y q).isEmpty then some (.app y q args keys) else none
    | .ambiguous =>
      match q, meanings Γ f q with
      | some _, m0 :: mq =>
        if 2 ≤ (meanings Γ f none).length ∧ mq.all (·.sig == m0.sig) ∧
           (meanings Γ f none).all (·.sig == m0.sig)
        then some (.app f none args keys) else none
      | _, _ => none
    | .unknownKeyword y =>
      let keys' := if keys.isEmpty then [y] else keys.dropLast ++ [y]
      if 0 < args.length ∧ (Γ.lookupVal y).isNone ∧ allShape Γ f q args.length keys' .unknownKw
      then some (.app f q args keys') else none
    | .tooManyPositional =>
      match meanings Γ f q with
      | m0 :: _ =>
        let args' := args.take np ++ List.replicate (m0.sig.params.length + 1 - np) (.lit .mint 0) ++ args.drop np
        if m0.sig.params.any (·.dflt.isSome) ∧ allShape Γ f q args'.length keys .count
        then some (.app f q args' keys) else none
      | [] => none
    | .keywordDupPositional =>
      match meanings Γ f q with
      | m0 :: _ =>
        match m0.sig.params with
        | p0 :: _ =>
          if 0 < np ∧ (Γ.lookupVal p0.name).isNone ∧
             allShape Γ f q (args.length + 1) (keys ++ [p0.name]) .dupArg
          then some (.app f q (args ++ [.lit p0.ty 0]) (keys ++ [p0.name])) else none
        | [] => none
      | [] => none
    | .omitRequired =>
      match meanings Γ f q with
      | m0 :: _ =>
        match lastRequired m0.sig.params np with
        | some r =>
          let args' := args.take r ++ args.drop np
          if (m0.sig.params.drop (r + 1)).any (·.dflt.isSome) ∧ allShape Γ f q args'.length keys .count
          then some (.app f q args' keys) else none
        | none => none
      | [] => none
    | _ => none

mutual
/-- apply `F` to the node at path `π` -/
def Expr.modAt (F : Expr → Option Expr) : Site → Expr → Option Expr
  | [], e => F e
  | a :: π, .app f q args keys => (modArgs F a π args).map (fun as => .app f q as keys)
  | _ :: _, _ => none
def modArgs (F : Expr → Option Expr) : Nat → Site → List Expr → Option (List Expr)
  | _, _, [] => none
  | 0, π, e :: es => (Expr.modAt F π e).map (· :: es)
  | a + 1, π, e :: es => (modArgs F a π es).map (e :: ·)
end

def Stmt.expr : Stmt → Expr
  | .defConst _ _ e => e
  | .defVar _ _ e => e
  | .assign _ e => e
  | .ret e => e
  | .value e => e
  | .exit _ e => e

def Stmt.setExpr : Stmt → Expr → Stmt
  | .defConst x t _, e => .defConst x t e
  | .defVar x t _, e => .defVar x t e
  | .assign x _, e => .assign x e
  | .ret _, e => .ret e
  | .value _, e => .value e
  | .exit c _, e => .exit c e

/-- the statement's expression stands in a value position of the function body -/
def Stmt.isValuePos : Stmt → Bool
  | .ret _ => true
  | .value _ => true
  | .exit _ _ => true
  | _ => false

/-- the rewrite of a statement: `r` is the rest of the site below the statement -/
def mutStmt (k : Kind) (Γ : Env) (ret : Option BTy) (r : Site) (s : Stmt) : Option Stmt :=
  match r with
  | [] =>
    match k, s with
    | .assignConst c, .assign _ e =>
      match Γ.scopeVals.find? (·.name == c) with
      | some v => if v.const then some (.assign c e) else none
      | none => none
    | .wrongReturnType t, s =>
      match ret with
      | some r => if s.isValuePos ∧ t ≠ r then some (s.setExpr (.lit t 0)) else none
      | none => none
    | _, _ => none
  | 0 :: π =>
    match k with
    | .assignConst _ | .wrongReturnType _ | .missingExport _ => none
    | _ => (Expr.modAt (mutExpr k Γ) π s.expr).map s.setExpr
  | _ => none

def modNth {α : Type} (l : List α) (i : Nat) (F : α → Option α) : Option (List α) :=
  match l[i]? with
  | some x => (F x).map (l.set i)
  | none => none

def FunDef.modStmt (F : Env → Option BTy → Site → Stmt → Option Stmt) (Γ : Env) (d : FunDef) :
    Site → Option FunDef
  | j :: r => (modNth d.body j (F (Γ.enter d) (some d.res) r)).map (fun b => { d with body := b })
  | [] => none

def Decl.modStmt (F : Env → Option BTy → Site → Stmt → Option Stmt) (g : GEnv) :
    Decl → Site → Option Decl
  | .stmt s, r => (F { g := g } none r s).map .stmt
  | .func d, r => (d.modStmt F { g := g } r).map .func
  | .dom n c defs, di :: r =>
    (modNth defs di (fun d => d.modStmt F { g := g, param := none, sibs := defs.map FunDef.sig } r)).map
      (.dom n c)
  | .functor n T pc c defs, di :: r =>
    (modNth defs di (fun d => d.modStmt F { g := g, param := some (T, pc), sibs := defs.map FunDef.sig } r)).map
      (.functor n T pc c)
  | _, _ => none

/-- remove definition `d` of an `add` body if that leaves a required export undefined -/
def Decl.dropDef (g : GEnv) (di : Nat) : Decl → Option Decl
  | .dom n c defs =>
    if di < defs.length ∧ !covers (defs.eraseIdx di) (g.catSigs c) then some (.dom n c (defs.eraseIdx di))
    else none
  | .functor n T pc c defs =>
    if di < defs.length ∧ !covers (defs.eraseIdx di) (g.catSigs c)
    then some (.functor n T pc c (defs.eraseIdx di)) else none
  | _ => none

/-- **the catalogue**: `mutate k s p` plants fault `k` at site `s`, if `s` is eligible for it -/
def mutate (k : Kind) (s : Site) (p : Prog) : Option Prog :=
  match k, s with
  | .missingExport di, [i] => modNth p i (Decl.dropDef (globalEnv p) di)
  | .missingExport _, _ => none
  | _, i :: r => modNth p i (fun d => d.modStmt (mutStmt k) (globalEnv p) r)
  | _, [] => none

/-! ## Sites of a program (for enumeration) -/

mutual
def Expr.sites (site : Site) : Expr → List Site
  | .app _ _ args _ => site :: argSites site 0 args
  | _ => [site]
def argSites (site : Site) (i : Nat) : List Expr → List Site
  | [] => []
  | a :: as => Expr.sites (site ++ [i]) a ++ argSites site (i + 1) as
end

def Stmt.sites (site : Site) (s : Stmt) : List Site := site :: s.expr.sites (site ++ [0])

def enumFrom {α : Type} (i : Nat) : List α → List (Nat × α)
  | [] => []
  | x :: xs => (i, x) :: enumFrom (i + 1) xs

def FunDef.sites (site : Site) (d : FunDef) : List Site :=
  (enumFrom 0 d.body).flatMap (fun js => js.2.sites (site ++ [js.1]))

def Decl.sites (i : Nat) : Decl → List Site
  | .stmt s => s.sites [i]
  | .func d => d.sites [i]
  | .dom _ _ defs => [i] :: (enumFrom 0 defs).flatMap (fun jd => jd.2.sites [i, jd.1])
  | .functor _ _ _ _ defs => [i] :: (enumFrom 0 defs).flatMap (fun jd => jd.2.sites [i, jd.1])
  | _ => []

def Prog.sites (p : Prog) : List Site := (enumFrom 0 p).flatMap (fun id => id.2.sites id.1)

/-! ## Rendering to Aldor text, with the span of every site -/

def BTy.render : BTy → String
  | .mint => "MachineInteger"
  | .int => "Integer"
  | .bool => "Boolean"
  | .str => "String"

def commaSep (l : List String) : String := ", ".intercalate l

def BTy.lit (t : BTy) (n : Nat) : String :=
  match t with
  | .bool => "(" ++ (if n % 2 == 0 then "true" else "false") ++ "@Boolean)"
  | .str => "(\"s" ++ toString n ++ "\"@String)"
  | t => "(" ++ toString n ++ "@" ++ t.render ++ ")"

/-- the text in front of argument `i` of `n`: `k == ` for the keyword arguments -/
def keyPrefix (n : Nat) (keys : List String) (i : Nat) : String :=
  if n - keys.length ≤ i then
    match keys[i - (n - keys.length)]? with
    | some k => k ++ " == "
    | none => ""
  else ""

mutual
def Expr.render : Expr → String
  | .lit t n => t.lit n
  | .var x => x
  | .app f q args keys =>
    f ++ "(" ++ commaSep (renderArgs args.length keys 0 args) ++ ")" ++
      (match q with | some Q => "$" ++ Q | none => "")
def renderArgs (n : Nat) (keys : List String) (i : Nat) : List Expr → List String
  | [] => []
  | a :: as => (keyPrefix n keys i ++ a.render) :: renderArgs n keys (i + 1) as
end

/-- (offset, length) of the node at path `π` inside the rendering of the expression; for a
keyword argument the span of its value -/
def Expr.span : Site → Expr → Option (Nat × Nat)
  | [], e => some (0, e.render.length)
  | a :: π, .app f _ args keys =>
    match args[a]? with
    | some arg =>
      let before := ((renderArgs args.length keys 0 args).take a).foldl (fun n s => n + s.length + 2) (f.length + 1)
      (Expr.span π arg).map (fun ol => (before + (keyPrefix args.length keys a).length + ol.1, ol.2))
    | none => none
  | _ :: _, _ => none

/-- text of a statement before its expression, and after it -/
def Stmt.prefix (inFun : Bool) : Stmt → String
  | .defConst x t _ => x ++ ": " ++ t.render ++ " == "
  | .defVar x t _ => (if inFun then "local " else "") ++ x ++ ": " ++ t.render ++ " := "
  | .assign x _ => x ++ " := "
  | .ret _ => "return "
  | .value _ => ""
  | .exit c _ => c ++ " => "

/-- the last expression of a body carries no `;` -/
def Stmt.suffix : Stmt → String
  | .value _ => ""
  | _ => ";"

def Stmt.render (inFun : Bool) (s : Stmt) : String := s.prefix inFun ++ s.expr.render ++ s.suffix

def Param.render (p : Param) : String :=
  p.name ++ ": " ++ p.ty.render ++ (match p.dflt with | some n => " == " ++ p.ty.lit n | none => "")

def Sig.render (s : Sig) : String :=
  s.name ++ ": (" ++ commaSep (if s.anon then s.args.map BTy.render else s.params.map Param.render) ++
    ") -> " ++ s.res.render ++ ";"

def indent (n : Nat) (s : String) : String := "".pushn ' ' n ++ s

/-- `name(params): R == ` -/
def FunDef.head (d : FunDef) : String :=
  d.name ++ "(" ++ commaSep (d.params.map Param.render) ++ "): " ++ d.res.render ++ " == "

def FunDef.render (ind : Nat) (d : FunDef) : List String :=
  if d.bare then
    [indent ind (d.head ++ commaSep (d.body.map (fun s => s.expr.render)) ++ ";")]
  else
    [indent ind (d.head ++ "{")] ++
    d.body.map (fun s => indent (ind + 4) (s.render true)) ++ [indent ind "}"]

def Decl.render : Decl → List String
  | .cat n sigs => [n ++ ": Category == with {"] ++ sigs.map (fun s => indent 4 s.render) ++ ["}"]
  | .dom n c defs => [n ++ ": " ++ c ++ " == add {"] ++ defs.flatMap (FunDef.render 4) ++ ["}"]
  | .functor n T pc c defs =>
    [n ++ "(" ++ T ++ ": " ++ pc ++ "): " ++ c ++ " == add {"] ++ defs.flatMap (FunDef.render 4) ++ ["}"]
  | .func d => d.render 0
  | .imp d => ["import from " ++ d ++ ";"]
  | .stmt s => [s.render false]

/-- literals need `integer: Literal -> %` etc. of their type in scope -/
def header : List String :=
  ["#include \"aldor\"", "#include \"aldorio\"", "import from MachineInteger, Integer, Boolean, String;", ""]

def Prog.render (p : Prog) : List String := header ++ p.flatMap Decl.render

/-- a span in the rendered text: first line/column and last line/column (1-based, inclusive) -/
structure Span where
  l1 : Nat
  c1 : Nat
  l2 : Nat
  c2 : Nat
deriving Repr, DecidableEq

/-- span of the statement `s` printed on line `line` with indentation `ind`, or of the
expression node below it -/
def Stmt.spanAt (inFun : Bool) (line ind : Nat) (s : Stmt) : Site → Option Span
  | [] => some ⟨line, ind + 1, line, ind + (s.render inFun).length⟩
  | 0 :: π =>
    (Expr.span π s.expr).map (fun ol =>
      let c := ind + (s.prefix inFun).length + ol.1
      ⟨line, c + 1, line, c + ol.2⟩)
  | _ => none

def blockSpan (line : Nat) (ls : List String) : Span :=
  ⟨line, 1, line + ls.length - 1, (ls.getLast?.getD "").length⟩

def FunDef.spanAt (line ind : Nat) (d : FunDef) : Site → Option Span
  | j :: r => match d.body[j]? with
    | some s =>
      if d.bare then s.spanAt true line (ind + d.head.length) r
      else s.spanAt true (line + 1 + j) (ind + 4) r
    | none => none
  | [] => some (blockSpan line (d.render ind))     -- the whole definition

def Decl.spanAt (line : Nat) (d : Decl) (r : Site) : Option Span :=
  match d, r with
  | .stmt s, r => s.spanAt false line 0 r
  | .func d, r => d.spanAt line 0 r
  | .dom .., [] => some (blockSpan line d.render)
  | .functor .., [] => some (blockSpan line d.render)
  | .dom _ _ defs, di :: r =>
    match defs[di]? with
    | some fd => fd.spanAt (line + 1 + ((defs.take di).flatMap (FunDef.render 4)).length) 4 r
    | none => none
  | .functor _ _ _ _ defs, di :: r =>
    match defs[di]? with
    | some fd => fd.spanAt (line + 1 + ((defs.take di).flatMap (FunDef.render 4)).length) 4 r
    | none => none
  | _, _ => none

/-- span of the construct at `site` in `p.render` -/
def Prog.spanAt (p : Prog) : Site → Option Span
  | i :: r => match p[i]? with
    | some d => d.spanAt (header.length + 1 + ((p.take i).flatMap Decl.render).length) r
    | none => none
  | [] => none

/-- the site of the statement (or `add` body) enclosing `site`: the "loose" position rule -/
def Prog.stmtSite (p : Prog) : Site → Site
  | i :: r => match p[i]?, r with
    | some (.stmt _), _ => [i]
    | some (.func _), j :: _ => [i, j]
    | some (.dom ..), di :: j :: _ => [i, di, j]
    | some (.functor ..), di :: j :: _ => [i, di, j]
    | _, _ => [i]
  | [] => []

/-- the site of the function definition enclosing `site` (the statement itself at file level):
a `{…}` body with a single statement has no node of its own, and the compiler then reports some
faults of that statement at the `{` -/
def Prog.defSite (p : Prog) : Site → Site
  | i :: r => match p[i]?, r with
    | some (.dom ..), di :: _ => [i, di]
    | some (.functor ..), di :: _ => [i, di]
    | _, _ => [i]
  | [] => []

mutual
/-- every call has at most as many keywords as arguments -/
def Expr.wfKeys : Expr → Bool
  | .app _ _ args keys => keys.length ≤ args.length && wfKeysArgs args
  | _ => true
def wfKeysArgs : List Expr → Bool
  | [] => true
  | a :: as => a.wfKeys && wfKeysArgs as
end

def Prog.stmts (p : Prog) : List Stmt :=
  p.flatMap (fun | .func d => d.body | .dom _ _ ds => ds.flatMap (·.body)
                 | .functor _ _ _ _ ds => ds.flatMap (·.body) | .stmt s => [s] | _ => [])

def Prog.funDefs (p : Prog) : List FunDef :=
  p.flatMap (fun | .func d => [d] | .dom _ _ ds => ds | .functor _ _ _ _ ds => ds | _ => [])

def stmtsLast : Prog → Bool
  | [] => true
  | .stmt _ :: r => r.all (fun | .dom .. => false | .functor .. => false | _ => true) && stmtsLast r
  | .imp _ :: r => r.all (fun | .dom .. => false | .functor .. => false | _ => true) && stmtsLast r
  | _ :: r => stmtsLast r

/-- constraints of the generated family that are not typing rules, checked by the driver as a
precondition of the correspondence (not part of the judgement):
* names are pairwise distinct where the model does not look at clashes (values in one scope,
  values against file-level values, functions by signature, domains, categories, signatures in
  a category, definitions in an `add`);
* file-level statements and imports follow every domain and functor definition (the compiler has an
  "implementation restriction": a non-lazy constant, such as a domain, cannot be used outside
  an `add` before its definition);
* every call has at most as many keywords as arguments; parameter names of one signature are distinct; only category signatures are anonymous, and those
  have no defaults; a bare-expression body is a single value; `.value` is the last statement. -/
def Prog.familyOk (p : Prog) : Bool :=
  stmtsLast p &&
  let g := globalEnv p
  let valNames := g.vals.map (·.name)
  let typeNames := g.cats.map (·.1) ++ g.doms.map (·.1) ++
    p.flatMap (fun | .functor n T _ _ _ => [n, T] | _ => [])
  nodupB (valNames ++ typeNames ++ (g.funcs.map (·.name)).eraseDups) && nodupB g.funcs &&
  g.cats.all (fun c => nodupB c.2) &&
  p.all (fun | .dom _ _ ds => nodupB (ds.map FunDef.sig) | .functor _ _ _ _ ds => nodupB (ds.map FunDef.sig) | _ => true) &&
  p.funDefs.all (fun d => nodupB (d.locals.map (·.name)) && d.locals.all (fun v => !(valNames ++ typeNames).contains v.name)) &&
  p.funDefs.all (fun d => (!d.bare || (d.body.length == 1 && d.body.all (fun | .value _ => true | _ => false))) &&
    d.body.dropLast.all (fun | .value _ => false | _ => true) &&
    (match d.body.getLast? with | some (.exit ..) => false | _ => true)) &&
  g.cats.all (fun c => c.2.all (fun σ => nodupB (σ.params.map (·.name)) && (!σ.anon || σ.params.all (·.dflt.isNone)))) &&
  p.funDefs.all (fun d => !d.sig.anon) && p.stmts.all (fun s => s.expr.wfKeys)

end AldorVerif.MiniTy
