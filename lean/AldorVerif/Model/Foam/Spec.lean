/-!
# Reference meaning of the machine-level builtins (C04)

Hand written from what the operations mean -- the `Machine` package
(`lib/libfoamlib/al/machine.as`), the user guide (`aldorug/langmach.tex`: "arithmetic
operations", "operations related to integer division", "arithmetic modulo their third
arguments", "bit-wise logical operations", "access to the bits in the base-2 representation",
"`ord` and `char` are inverse operations", "`upper`/`lower` change the case of letters and leave
characters which are not letters unchanged", "`min`/`max` are the smallest and largest values")
and the libraries' stated preconditions (`sinteger.as`: "All the mod operations are assuming
n > 0 and also that 0 <= i,j < n"; `machine.as`: "-- except OFLOW" on the narrowing
conversions) -- and NOT from of_cfold.c / fint.c / genc.c.

Carriers: `Bool`; `Char`, `Byte` = `BitVec 8` (codes 0..255, unsigned order); `HInt` = `BitVec 16`
and `SInt` = `BitVec 64` (two's complement, fixed-size arithmetic wraps); `Word` = `BitVec 64`.
`Spec.X args = none` means: the tuple is outside the operation's domain (nothing is required of
an implementation there).  `Lemmas/C04Math.lean` relates every definition to the mathematical
one over `Int`.

Only boolean, character, machine-integer and integer-conversion builtins have an entry; for the
float and big-integer builtins the obligation is agreement of the three evaluators as
functions of the primitives (Props/C04Gen.lean, `agree_*`).
-/
namespace AldorVerif.Spec

/-! ## Bool -/
def BoolFalse : Option Bool := some false
def BoolTrue : Option Bool := some true
def BoolNot (a : Bool) : Option Bool := some (!a)
def BoolAnd (a b : Bool) : Option Bool := some (a && b)
def BoolOr (a b : Bool) : Option Bool := some (a || b)
def BoolEQ (a b : Bool) : Option Bool := some (a == b)
def BoolNE (a b : Bool) : Option Bool := some (a != b)

/-! ## Char (ASCII; order and `min`/`max` are those of the codes 0..255) -/
def CharSpace : Option (BitVec 8) := some 32#8
def CharNewline : Option (BitVec 8) := some 10#8
def CharTab : Option (BitVec 8) := some 9#8
def CharMin : Option (BitVec 8) := some 0#8
def CharMax : Option (BitVec 8) := some 255#8
def isUpperCode (n : Nat) : Bool := decide (65 ≤ n ∧ n ≤ 90)
def isLowerCode (n : Nat) : Bool := decide (97 ≤ n ∧ n ≤ 122)
def CharIsDigit (c : BitVec 8) : Option Bool := some (decide (48 ≤ c.toNat ∧ c.toNat ≤ 57))
def CharIsLetter (c : BitVec 8) : Option Bool := some (isUpperCode c.toNat || isLowerCode c.toNat)
def CharEQ (a b : BitVec 8) : Option Bool := some (a == b)
def CharNE (a b : BitVec 8) : Option Bool := some (a != b)
def CharLT (a b : BitVec 8) : Option Bool := some (decide (a.toNat < b.toNat))
def CharLE (a b : BitVec 8) : Option Bool := some (decide (a.toNat ≤ b.toNat))
def CharLower (c : BitVec 8) : Option (BitVec 8) :=
  some (if isUpperCode c.toNat then BitVec.ofNat 8 (c.toNat + 32) else c)
def CharUpper (c : BitVec 8) : Option (BitVec 8) :=
  some (if isLowerCode c.toNat then BitVec.ofNat 8 (c.toNat - 32) else c)
def CharOrd (c : BitVec 8) : Option (BitVec 64) := some (BitVec.ofNat 64 c.toNat)
/-- inverse of `ord`: defined on the codes -/
def CharNum (n : BitVec 64) : Option (BitVec 8) :=
  if 0 ≤ n.toInt ∧ n.toInt ≤ 255 then some (BitVec.ofInt 8 n.toInt) else none

/-! ## Byte, HInt -/
def Byte0 : Option (BitVec 8) := some 0#8
def Byte1 : Option (BitVec 8) := some 1#8
def ByteMin : Option (BitVec 8) := some 0#8
def ByteMax : Option (BitVec 8) := some 255#8
def HInt0 : Option (BitVec 16) := some 0#16
def HInt1 : Option (BitVec 16) := some 1#16
def HIntMin : Option (BitVec 16) := some (BitVec.intMin 16)
def HIntMax : Option (BitVec 16) := some (BitVec.intMax 16)

/-! ## SInt -/
def SInt0 : Option (BitVec 64) := some 0#64
def SInt1 : Option (BitVec 64) := some 1#64
def SIntMin : Option (BitVec 64) := some (BitVec.intMin 64)
def SIntMax : Option (BitVec 64) := some (BitVec.intMax 64)
def SIntIsZero (a : BitVec 64) : Option Bool := some (a == 0#64)
def SIntIsNeg (a : BitVec 64) : Option Bool := some (decide (a.toInt < 0))
def SIntIsPos (a : BitVec 64) : Option Bool := some (decide (0 < a.toInt))
def SIntIsEven (a : BitVec 64) : Option Bool := some (decide (a.toInt % 2 = 0))
def SIntIsOdd (a : BitVec 64) : Option Bool := some (decide (a.toInt % 2 ≠ 0))
def SIntEQ (a b : BitVec 64) : Option Bool := some (a == b)
def SIntNE (a b : BitVec 64) : Option Bool := some (a != b)
def SIntLT (a b : BitVec 64) : Option Bool := some (decide (a.toInt < b.toInt))
def SIntLE (a b : BitVec 64) : Option Bool := some (decide (a.toInt ≤ b.toInt))
/-- fixed-size arithmetic: results are reduced modulo 2^64 into the signed range -/
def SIntNegate (a : BitVec 64) : Option (BitVec 64) := some (-a)
def SIntPrev (a : BitVec 64) : Option (BitVec 64) := some (a - 1#64)
def SIntNext (a : BitVec 64) : Option (BitVec 64) := some (a + 1#64)
def SIntPlus (a b : BitVec 64) : Option (BitVec 64) := some (a + b)
def SIntMinus (a b : BitVec 64) : Option (BitVec 64) := some (a - b)
def SIntTimes (a b : BitVec 64) : Option (BitVec 64) := some (a * b)
def SIntTimesPlus (a b c : BitVec 64) : Option (BitVec 64) := some (a * b + c)

/-- the quotient is not defined for a zero divisor, nor when it is not representable -/
def divDom (a b : BitVec 64) : Bool := b != 0#64 && !(a == BitVec.intMin 64 && b == -1#64)
/-- quotient rounded toward zero -/
def SIntQuo (a b : BitVec 64) : Option (BitVec 64) :=
  if divDom a b then some (BitVec.ofInt 64 (a.toInt.tdiv b.toInt)) else none
/-- remainder of that division: `a = quo * b + rem`, sign of the dividend -/
def SIntRem (a b : BitVec 64) : Option (BitVec 64) :=
  if divDom a b then some (BitVec.ofInt 64 (a.toInt.tmod b.toInt)) else none
/-- `mod`: on the domain the libraries rely on (`0 ≤ a`, `0 < n`) the residue in `[0, n)` -/
def SIntMod (a n : BitVec 64) : Option (BitVec 64) :=
  if 0 ≤ a.toInt ∧ 0 < n.toInt then some (BitVec.ofInt 64 (a.toInt % n.toInt)) else none
/-- modular arithmetic "modulo the third argument": for `0 < n`, `0 ≤ a, b < n` the residue
in `[0, n)` of the exact integer result -/
def modDom (a b n : BitVec 64) : Bool :=
  decide (0 < n.toInt ∧ 0 ≤ a.toInt ∧ a.toInt < n.toInt ∧ 0 ≤ b.toInt ∧ b.toInt < n.toInt)
def SIntPlusMod (a b n : BitVec 64) : Option (BitVec 64) :=
  if modDom a b n then some (BitVec.ofInt 64 ((a.toInt + b.toInt) % n.toInt)) else none
def SIntMinusMod (a b n : BitVec 64) : Option (BitVec 64) :=
  if modDom a b n then some (BitVec.ofInt 64 ((a.toInt - b.toInt) % n.toInt)) else none
def SIntTimesMod (a b n : BitVec 64) : Option (BitVec 64) :=
  if modDom a b n then some (BitVec.ofInt 64 ((a.toInt * b.toInt) % n.toInt)) else none

/-- shifts are defined for counts `0 ≤ k < 64` -/
def shiftDom (k : BitVec 64) : Bool := decide (0 ≤ k.toInt ∧ k.toInt < 64)
def SIntShiftUp (a k : BitVec 64) : Option (BitVec 64) :=
  if shiftDom k then some (BitVec.ofInt 64 (a.toInt * 2 ^ k.toInt.toNat)) else none
/-- floor division by 2^k -/
def SIntShiftDn (a k : BitVec 64) : Option (BitVec 64) :=
  if shiftDom k then some (BitVec.ofInt 64 (a.toInt / 2 ^ k.toInt.toNat)) else none
/-- bit k of the two's complement representation -/
def SIntBit (a k : BitVec 64) : Option Bool :=
  if shiftDom k then some (a.getLsbD k.toInt.toNat) else none
def SIntNot (a : BitVec 64) : Option (BitVec 64) := some (~~~a)
def SIntAnd (a b : BitVec 64) : Option (BitVec 64) := some (a &&& b)
def SIntOr (a b : BitVec 64) : Option (BitVec 64) := some (a ||| b)
def SIntXOr (a b : BitVec 64) : Option (BitVec 64) := some (a ^^^ b)

/-! ## conversions between the integer types -/
def ByteToSInt (b : BitVec 8) : Option (BitVec 64) := some (BitVec.ofNat 64 b.toNat)
def SIntToByte (n : BitVec 64) : Option (BitVec 8) :=
  if 0 ≤ n.toInt ∧ n.toInt ≤ 255 then some (BitVec.ofInt 8 n.toInt) else none
def HIntToSInt (h : BitVec 16) : Option (BitVec 64) := some (BitVec.ofInt 64 h.toInt)
def SIntToHInt (n : BitVec 64) : Option (BitVec 16) :=
  if -32768 ≤ n.toInt ∧ n.toInt ≤ 32767 then some (BitVec.ofInt 16 n.toInt) else none

end AldorVerif.Spec
