import AldorVerif.Model.Foam.Table
/-
Model of the FOAM byte codec of aldor/aldor/src/foam.c (hand model, tied by correspondence:
harness/foamcodec_drv.c, and parameterised by the *generated* instruction table):

  foamToBuffer  ↦ `encF`/`encArgs`     foamFrBuffer ↦ `decF`/`decArgs`
  foamTagFormat ↦ `tagFormat`          FOAM_FORMAT_GET/PUT/REMOVE/FOR, FOAM_PUT_INT/GET_INT
  foamSIntReduce ↦ `sintReduce` (+ `Red.toFoam`, `Red.eval`)
  buffer.c: bufPutByte/HInt/SInt ↦ `putByte/putHInt/putSInt`, bufGetByte/HInt/SInt ↦ `get…`,
            bufWrChars/bufRdChars (inside the `s` case), bufWr/RdSFloat/DFloat ↦ parameters `XF`.

A FOAM node is a tag and its argument vector; which union member of `foamArgv[i]` is live is
given by the table's format letter, here by the `Arg` constructor.
Integers are C `long`s (`AInt`) carried as `Int`; every narrowing the C text performs
(`int n = …`, `(char) n`, `UByte`/`UShort` parameters, `ULong`→`int`) is written out so that the
model follows the code also where values do not fit (that is where `wf` draws its line).
-/
namespace AldorVerif.Foam

mutual
inductive Foam where
  | node (tag : Nat) (args : List Arg)
inductive Arg where
  | int (v : Int)                 -- AInt data            (t o p D b h w X F L i)
  | str (bs : List UInt8)         -- NUL-terminated String (s); the bytes before the NUL
  | sflo (bits : BitVec 32)       -- SFloat, as its IEEE bit pattern (f)
  | dflo (bits : BitVec 64)       -- DFloat (d)
  | bint (v : Int)                -- BInt, by value (n)
  | sub (f : Foam)                -- Foam code (C)
end

instance : Inhabited Foam := ⟨.node 0 []⟩
instance : Inhabited Arg := ⟨.int 0⟩

/-- external float format of xfloat.c (bufWrSFloat/bufRdSFloat, bufWrDFloat/bufRdDFloat): taken
as parameters; `XF.OK` is the round trip that part `xfloat` is about. -/
structure XF where
  encSF : BitVec 32 → List UInt8
  decSF : List UInt8 → Option (BitVec 32 × List UInt8)
  encDF : BitVec 64 → List UInt8
  decDF : List UInt8 → Option (BitVec 64 × List UInt8)

structure XF.OK (X : XF) : Prop where
  sf : ∀ b rest, X.decSF (X.encSF b ++ rest) = some (b, rest)
  df : ∀ b rest, X.decDF (X.encDF b ++ rest) = some (b, rest)

/-! ## constants of the codec (compared with the C driver's `consts` answer) -/
def STD_FORMS : Int := 2
def IMMED_FORMS : Int := 3
def MAX_BYTE : Int := 255
def MAX_HINT : Int := 65535
def SINT_BYTES : Nat := 4
def HINT_BYTES : Nat := 2

/-! ## integer narrowing -/
/-- `(int) x` for a `long`/`ULong` x -/
def wrap32 (v : Int) : Int := (v + 2147483648) % 4294967296 - 2147483648
/-- `(char) x` (plain `char` is signed on the platform; checked by `consts`) -/
def wrap8 (v : Int) : Int := (v + 128) % 256 - 128
/-- `longIsInt32` / `bufIsSInt` -/
def isInt32 (v : Int) : Bool := decide (-2147483648 ≤ v) && decide (v < 2147483648)

/-! ## buffer.c primitives (a buffer being written is the list of its bytes) -/
def byteOf (n : Nat) : UInt8 := UInt8.ofNat n

/-- `bufPutByte(buf, (UByte) v)` -/
def putByte (v : Int) : List UInt8 := [byteOf (v % 256).toNat]
/-- `bufPutHInt(buf, (UShort) v)`: low byte first -/
def putHInt (v : Int) : List UInt8 :=
  let n := (v % 65536).toNat
  [byteOf (n % 256), byteOf (n / 256)]
/-- `bufPutSInt(buf, (ULong) v)`: BYTE0..BYTE3 only, low byte first -/
def putSInt (v : Int) : List UInt8 :=
  let n := (v % 4294967296).toNat
  [byteOf (n % 256), byteOf (n / 256 % 256), byteOf (n / 65536 % 256), byteOf (n / 16777216)]

/-- `bufGetByte`; `none` = reading past the end (`assert` in bufGet1/bufGetn) -/
def getByte : List UInt8 → Option (Nat × List UInt8)
  | b :: r => some (b.toNat, r)
  | [] => none
/-- `bufGetHInt` -/
def getHInt : List UInt8 → Option (Nat × List UInt8)
  | b0 :: b1 :: r => some (b0.toNat + 256 * b1.toNat, r)
  | _ => none
/-- `bufGetSInt`, as the `ULong` it returns -/
def getSIntU : List UInt8 → Option (Nat × List UInt8)
  | b0 :: b1 :: b2 :: b3 :: r =>
    some (b0.toNat + 256 * b1.toNat + 65536 * b2.toNat + 16777216 * b3.toNat, r)
  | _ => none
/-- `int n = bufGetSInt(buf)` -/
def getSInt (bs : List UInt8) : Option (Int × List UInt8) :=
  match getSIntU bs with
  | some (n, r) => some (wrap32 n, r)
  | none => none

/-- `FOAM_FORMAT_FOR(n)` = `(long)(n) <= MAX_BYTE ? 1 : 0` -/
def fmtFor (n : Int) : Int := if n ≤ MAX_BYTE then 1 else 0

/-- `FOAM_PUT_INT(format, buf, i)` -/
def putInt (fmt : Int) (v : Int) : List UInt8 :=
  if fmt = 0 then putSInt v else if fmt = 1 then putByte v else []

/-- `FOAM_GET_INT(format, buf, i)` with `i` an `int` -/
def getInt (fmt : Int) (bs : List UInt8) : Option (Int × List UInt8) :=
  if fmt = 0 then getSInt bs
  else if fmt = 1 then
    match getByte bs with
    | some (n, r) => some ((n : Int), r)
    | none => none
  else some (fmt - STD_FORMS, bs)

/-! ## big integers: sign and 16-bit places (bintToPlacevS / bintFrPlacevS) -/
/-- little-endian digits of `n` in radix `2^16`, at least one -/
def digits16 : Nat → Nat → List Nat
  | 0, _ => []
  | fuel + 1, n => if n < 65536 then [n] else (n % 65536) :: digits16 fuel (n / 65536)
def bintDigits (n : Nat) : List Nat := digits16 (n + 1) n
def fromDigits16 : List Nat → Nat
  | [] => 0
  | d :: ds => d + 65536 * fromDigits16 ds

/-! ## argument access -/
/-- `foamArgv(foam)[i].data`; where the live member is a pointer the value is an address: the
model takes a number above MAX_BYTE (only `tagFormat`'s Rec branch ever looks, see report). -/
def Arg.data : Arg → Int
  | .int v => v
  | _ => 256
/-- `strlen(foamArgv(foam)[i].str)` -/
def Arg.strLen : Arg → Int
  | .str bs => bs.length
  | _ => 0
/-- the count `bintToPlacevS` reports: 16-bit places of the stored form -/
def Arg.placec : Arg → Int
  | .bint v => (bintDigits v.natAbs).length
  | _ => 0
def argN (args : List Arg) (k : Nat) : Arg := args.getD k (.int 0)

/-! ## foamTagFormat -/
/-- loop of the Rec/DEnv/DFluid branch -/
def recFormat : Int → List Arg → Int
  | fmt, [] => fmt
  | fmt, a :: as =>
    let fi := fmtFor (wrap32 a.data)
    let fmt := if fi < fmt then fi else fmt
    if fmt = 0 then 0 else recFormat fmt as

/-- the `switch` of the last branch: `(x1, x2)`; `none` = `bugBadCase(tag)` -/
def multIdx (T : Table) (tag : Nat) : Option (Nat × Option Nat) :=
  if tag = T.tLex then some (1, none)
  else if tag = T.tRElt then some (2, none)
  else if tag = T.tRRElt then some (0, none)
  else if tag = T.tEElt then some (2, some 3)
  else if tag = T.tIRElt then some (2, none)
  else if tag = T.tTRElt then some (3, none)
  else none

/-- `foamTagFormat`: the format and whether the C code calls `bug()` on the way. -/
def tagFormat (T : Table) (tag : Nat) (args : List Arg) : Int × Bool :=
  let isNary := (T.info tag).argc.isNone
  let argc : Int := args.length
  if tag < T.indexStart then
    if tag < T.ffoOrigin then (0, false)
    else if tag = T.tUnimp then (fmtFor (argN args 0).strLen, false)
    else if tag = T.tDecl ∨ tag = T.tGDecl then
      let si := (argN args 1).strLen
      let di := wrap32 (argN args 3).data
      (fmtFor (if di > si then di else si), false)
    else if tag = T.tBInt then (fmtFor (argN args 0).placec, false)
    else (fmtFor 0, true)
  else if tag = T.tRec ∨ tag = T.tDEnv ∨ tag = T.tDFluid then
    (recFormat (fmtFor argc) args, false)
  else if tag < T.indexLimit ∨ isNary then
    let si0 := if isNary then argc else wrap32 (argN args 0).data
    -- a Prog stores the format of its return values next to its argument count
    let di := wrap32 (argN args 3).data
    let si := if tag = T.tProg ∧ argc > 3 ∧ di > si0 then di else si0
    if tag = T.tEInfo then (0, true)
    else if si < IMMED_FORMS then (STD_FORMS + si, false)
    else (fmtFor si, false)
  else
    match multIdx T tag with
    | none => (1, true)
    | some (x1, x2) =>
      let i0 := wrap32 (argN args 0).data
      let i1 := wrap32 (argN args x1).data
      let i2 := match x2 with
        | none => 0
        | some k => wrap32 (argN args k).data
      if i0 > MAX_BYTE ∨ i1 > MAX_BYTE ∨ i2 > MAX_BYTE then (0, false) else (1, false)

/-! ## foamSIntReduce -/
/-- the expression `foamSIntReduce` builds: `lit p` = `(SInt p)`,
`shiftOr e p` = `(BCall SIntOr (BCall SIntShiftUp e (SInt 31)) (SInt p))`, `neg e` = `(BCall SIntNegate e)` -/
inductive Red where
  | lit (v : BitVec 64)
  | shiftOr (hi : Red) (lo : BitVec 64)
  | neg (e : Red)
  deriving DecidableEq, Repr

/-- run-time meaning on the 64-bit machine (`fiSIntShiftUp` is `<<`, …) -/
def Red.eval : Red → BitVec 64
  | .lit v => v
  | .shiftOr hi lo => (hi.eval <<< 31) ||| lo
  | .neg e => - e.eval
abbrev evalReduced := Red.eval

/-- `parts[k] = number & 0x7fffffff, number >>= 31` (`>>` of a signed long) -/
def part (number : BitVec 64) (k : Nat) : BitVec 64 := (number.sshiftRight (31 * k)) &&& 0x7fffffff#64

/-- `foamSIntReduce` for `sizeof(long) == 8`; `x` is `foam->foamSInt.SIntData`. -/
def sintReduce (x : BitVec 64) : Red :=
  let negative := x.slt 0
  let bignum := !(decide (-2147483648 ≤ x.toInt) && decide (x.toInt < 2147483648))
  if !bignum then .lit x
  else
    let number := if negative then -x else x
    let p0 := part number 0
    let p1 := part number 1
    let p2 := part number 2
    -- `for (i = hunks - 1; i >= 0 && !parts[i]; i--)`, then the reconstruction loop
    let e := if p2 ≠ 0 then Red.shiftOr (.shiftOr (.lit p2) p1) p0
             else if p1 ≠ 0 then Red.shiftOr (.lit p1) p0
             else .lit p0
    if negative then .neg e else e

def sintLeaf (T : Table) (v : Int) : Foam := .node T.tSInt [.int v]

def Red.toFoam (T : Table) : Red → Foam
  | .lit v => sintLeaf T v.toInt
  | .shiftOr hi lo =>
    .node T.tBCall [.int T.bvOr,
      .sub (.node T.tBCall [.int T.bvShiftUp, .sub (hi.toFoam T), .sub (sintLeaf T 31)]),
      .sub (sintLeaf T lo.toInt)]
  | .neg e => .node T.tBCall [.int T.bvNegate, .sub (e.toFoam T)]

/-- `if (foamTag(foam) == FOAM_SInt) foam = foamSIntReduce(foam);` at the head of foamToBuffer,
applied here as a pass over the tree before encoding (see report: modelled as a pre-pass; an
`SInt` whose value fits 32 bits is left alone by the C function, so the passes commute). -/
def reduceNode (T : Table) (tag : Nat) (args : List Arg) : Option Foam :=
  if tag = T.tSInt then
    match args with
    | .int v :: _ => if isInt32 v then none else some ((sintReduce (BitVec.ofInt 64 v)).toFoam T)
    | _ => none
  else none

mutual
def preReduce (T : Table) : Foam → Foam
  | .node tag args =>
    match reduceNode T tag args with
    | some g => g
    | none => .node tag (preReduceArgs T args)
def preReduceArgs (T : Table) : List Arg → List Arg
  | [] => []
  | .sub f :: as => .sub (preReduce T f) :: preReduceArgs T as
  | a :: as => a :: preReduceArgs T as
end

/-! ## the walk over `argf` shared by every loop:
`af = argf[fi]; if (af == '*') af = argf[--fi]; … fi++` -/
def nextFmt (argf : List Fmt) (prev : Fmt) : Fmt × List Fmt :=
  match argf with
  | .star :: _ => (prev, argf)
  | c :: r => (c, r)
  | [] => (.bad, [])

/-! ## foamToBuffer -/
/-- overwrite `v` at index `k` (`bufSetPosition(buf, offPos); FOAM_PUT_INT(…); bufSetPosition(buf, tmpPos)`);
bytes that would land past the end are dropped again by the second bufSetPosition. -/
def patchAt : List UInt8 → Nat → List UInt8 → List UInt8
  | out, _, [] => out
  | [], _, _ => []
  | _ :: out, 0, v :: vs => v :: patchAt out 0 vs
  | b :: out, k + 1, vs => b :: patchAt out k vs

def encBInt (fmt : Int) (v : Int) : List UInt8 :=
  let ds := bintDigits v.natAbs
  putByte (if v < 0 then 1 else 0) ++ putInt fmt ds.length ++ ds.flatMap (fun (d : Nat) => putHInt (d : Int))

/-- the format letters whose argument is written/read without recursion and without touching
`labelFmt`/`offPos`: one `case` of the `switch` each. -/
def leafBytes (T : Table) (fmt lf : Int) : Fmt → Arg → Option (List UInt8 × Bool)
  | .t, a => some (putByte (a.data - T.start), false)
  | .o, a => some (putHInt (a.data - T.bvalStart), false)
  | .p, a => some (putByte (a.data - T.protoStart), false)
  | .D, a => some (putByte a.data, false)
  | .b, a => some (putByte a.data, false)
  | .h, a => some (putHInt a.data, false)
  | .w, a => some (putSInt a.data, !isInt32 a.data)        -- `assert(bufIsSInt(…))`
  | .L, a => some (putInt lf a.data, false)
  | .i, a => some (putInt fmt a.data, false)
  | .s, .str bs => some (putInt fmt bs.length ++ bs, false)
  | .n, .bint v => some (encBInt fmt v, false)
  | _, _ => none

/-- prepend the bytes of one argument to the result of the rest of the loop -/
def consE (b : List UInt8) (ab : Bool) (r : List UInt8 × Int × Nat × Bool) : List UInt8 × Int × Nat × Bool :=
  (b ++ r.1, r.2.1, r.2.2.1, ab || r.2.2.2)

/-- tag byte and, for n-ary tags, the argument count -/
def encHead (T : Table) (tag : Nat) (fmt : Int) (n : Nat) : List UInt8 :=
  putByte ((tag : Int) + fmt * T.span) ++ (if (T.info tag).argc.isNone then putInt fmt n else [])

/-- end of foamToBuffer: the back-patch of a `Prog`'s size field -/
def finishNode (T : Table) (tag pos : Nat) (hd : List UInt8) (ab : Bool)
    (r : List UInt8 × Int × Nat × Bool) : List UInt8 × Int × Bool :=
  if tag = T.tProg then
    if r.2.2.1 < pos then (hd ++ r.1, r.2.1, true)
    else (patchAt (hd ++ r.1) (r.2.2.1 - pos)
            (putSInt (((pos + (hd ++ r.1).length : Nat) : Int) - r.2.2.1)), r.2.1, ab || r.2.2.2)
  else (hd ++ r.1, r.2.1, ab || r.2.2.2)

mutual
/-- `foamToBuffer(buf, foam)` with `bufPosition(buf) = pos` and `labelFmt = lf` on entry, on a tree
that went through `preReduce`. Result: bytes appended, `labelFmt` on exit, and whether the C code
stops in `bug()`/`assert` (or, for a `Prog` without an `X` field, patches bytes it did not write). -/
def encF (T : Table) (X : XF) (pos : Nat) (lf : Int) : Foam → List UInt8 × Int × Bool
  | .node tag args =>
    finishNode T tag pos (encHead T tag (tagFormat T tag args).1 args.length) (tagFormat T tag args).2
      (encArgs T X (tagFormat T tag args).1
        (pos + (encHead T tag (tagFormat T tag args).1 args.length).length) lf 0 (T.info tag).argf .bad args)
/-- the argument loop; `off` is `offPos`. Result: bytes, labelFmt, offPos, abort. -/
def encArgs (T : Table) (X : XF) (fmt : Int) (pos : Nat) (lf : Int) (off : Nat) :
    List Fmt → Fmt → List Arg → List UInt8 × Int × Nat × Bool
  | _, _, [] => ([], lf, off, false)
  | argf, prev, a :: as =>
    match (nextFmt argf prev).1 with
    | .X => consE (putSInt pos) false
              (encArgs T X fmt (pos + 4) lf pos (nextFmt argf prev).2 (nextFmt argf prev).1 as)
    | .F => consE (putSInt (wrap32 a.data)) false
              (encArgs T X fmt (pos + 4) (fmtFor (wrap32 a.data)) off (nextFmt argf prev).2 (nextFmt argf prev).1 as)
    | .f =>
      match a with
      | .sflo b => (X.encSF b, lf, off, false)
      | _ => ([], lf, off, true)
    | .d =>
      match a with
      | .dflo b => (X.encDF b, lf, off, false)
      | _ => ([], lf, off, true)
    | .C =>
      match a with
      | .sub f =>
        consE (encF T X pos lf f).1 (encF T X pos lf f).2.2
          (encArgs T X fmt (pos + (encF T X pos lf f).1.length) (encF T X pos lf f).2.1 off
            (nextFmt argf prev).2 (nextFmt argf prev).1 as)
      | _ => ([], lf, off, true)
    | .star => ([], lf, off, true)
    | .bad => ([], lf, off, true)
    | af =>
      match leafBytes T fmt lf af a with
      | some (b, ab) => consE b ab (encArgs T X fmt (pos + b.length) lf off (nextFmt argf prev).2 af as)
      | none => ([], lf, off, true)
end

/-- `foamToBuffer` on a fresh buffer with `labelFmt = lf`. -/
def encode (T : Table) (X : XF) (lf : Int) (f : Foam) : List UInt8 × Int × Bool :=
  encF T X 0 lf (preReduce T f)

/-! ## foamFrBuffer -/
def toDigits16 : Nat → List UInt8 → Option (List Nat × List UInt8)
  | 0, bs => some ([], bs)
  | n + 1, bs =>
    match getHInt bs with
    | none => none
    | some (d, bs) =>
      match toDigits16 n bs with
      | none => none
      | some (ds, bs) => some (d :: ds, bs)

/-- reading side of `leafBytes` -/
def leafRead (T : Table) (fmt lf : Int) : Fmt → List UInt8 → Option (Arg × List UInt8)
  | .t, bs => match getByte bs with
    | some (v, bs) => some (.int (T.start + v), bs)
    | none => none
  | .o, bs => match getHInt bs with
    | some (v, bs) => some (.int (T.bvalStart + v), bs)
    | none => none
  | .p, bs => match getByte bs with
    | some (v, bs) => some (.int (T.protoStart + v), bs)
    | none => none
  | .D, bs => match getByte bs with
    | some (v, bs) => some (.int v, bs)
    | none => none
  | .b, bs => match getByte bs with
    | some (v, bs) => some (.int (wrap8 v), bs)
    | none => none
  | .h, bs => match getHInt bs with
    | some (v, bs) => some (.int v, bs)
    | none => none
  | .w, bs => match getSInt bs with
    | some (v, bs) => some (.int v, bs)
    | none => none
  | .L, bs => match getInt lf bs with
    | some (v, bs) => some (.int v, bs)
    | none => none
  | .i, bs => match getInt fmt bs with
    | some (v, bs) => some (.int v, bs)
    | none => none
  | .s, bs => match getInt fmt bs with
    | some (v, bs) =>
      if v < 0 ∨ bs.length < v.toNat then none
      else some (.str (bs.take v.toNat), bs.drop v.toNat)
    | none => none
  | .n, bs => match getByte bs with
    | some (neg, bs) =>
      match getInt fmt bs with
      | some (v, bs) =>
        if v < 0 then none
        else match toDigits16 v.toNat bs with
          | some (ds, bs) => some (.bint (if neg ≠ 0 then -(fromDigits16 ds : Int) else (fromDigits16 ds : Int)), bs)
          | none => none
      | none => none
    | none => none
  | _, _ => none

def consD (a : Arg) : Option (List Arg × List UInt8 × Int) → Option (List Arg × List UInt8 × Int)
  | some (as, bs, lf) => some (a :: as, bs, lf)
  | none => none

/-- the argument loop of foamFrBuffer; `sub` is the recursive call `foamFrBuffer(buf)`. -/
def decArgs (T : Table) (X : XF) (sub : Int → List UInt8 → Option (Foam × List UInt8 × Int)) (fmt : Int) :
    Nat → List Fmt → Fmt → Int → List UInt8 → Option (List Arg × List UInt8 × Int)
  | 0, _, _, lf, bs => some ([], bs, lf)
  | n + 1, argf, prev, lf, bs =>
    match (nextFmt argf prev).1 with
    | .X => match getSInt bs with
      | some (_, bs) => consD (.int 0) (decArgs T X sub fmt n (nextFmt argf prev).2 (nextFmt argf prev).1 lf bs)
      | none => none
    | .F => match getSInt bs with
      | some (v, bs) => consD (.int v) (decArgs T X sub fmt n (nextFmt argf prev).2 (nextFmt argf prev).1 (fmtFor v) bs)
      | none => none
    | .f => match X.decSF bs with
      | some (b, bs) => some ([.sflo b], bs, lf)
      | none => none
    | .d => match X.decDF bs with
      | some (b, bs) => some ([.dflo b], bs, lf)
      | none => none
    | .C => match sub lf bs with
      | some (f, bs, lf) => consD (.sub f) (decArgs T X sub fmt n (nextFmt argf prev).2 (nextFmt argf prev).1 lf bs)
      | none => none
    | .star => none
    | .bad => none
    | af => match leafRead T fmt lf af bs with
      | some (a, bs) => consD a (decArgs T X sub fmt n (nextFmt argf prev).2 af lf bs)
      | none => none

/-- `FOAM_FORMAT_GET(tag)` / `FOAM_FORMAT_REMOVE(tag, format)` on the tag byte -/
def tagFmtOf (T : Table) (b : Nat) : Nat := if b < T.ffoOrigin then 0 else (b - T.ffoOrigin) / T.span
def tagOf (T : Table) (b : Nat) : Nat := b - tagFmtOf T b * T.span

/-- `argc`: from the table, or read in the tag's format -/
def decArgc (T : Table) (tag : Nat) (fmt : Int) (bs : List UInt8) : Option (Nat × List UInt8) :=
  match (T.info tag).argc with
  | some k => some (k, bs)
  | none =>
    match getInt fmt bs with
    | some (v, bs) => if v < 0 then none else some (v.toNat, bs)
    | none => none

def mkNode (tag : Nat) : Option (List Arg × List UInt8 × Int) → Option (Foam × List UInt8 × Int)
  | some (args, bs, lf) => some (.node tag args, bs, lf)
  | none => none

/-- `foamFrBuffer(buf)` with `labelFmt = lf`; `fuel` bounds the nesting depth. -/
def decF (T : Table) (X : XF) : Nat → Int → List UInt8 → Option (Foam × List UInt8 × Int)
  | 0, _, _ => none
  | fuel + 1, lf, bs =>
    match getByte bs with
    | none => none
    | some (b, bs) =>
      match decArgc T (tagOf T b) (tagFmtOf T b) bs with
      | none => none
      | some (argc, bs) =>
        mkNode (tagOf T b)
          (decArgs T X (decF T X fuel) (tagFmtOf T b) argc (T.info (tagOf T b)).argf .bad lf bs)

def decode (T : Table) (X : XF) (lf : Int) (bs : List UInt8) : Option (Foam × List UInt8 × Int) :=
  decF T X (bs.length + 1) lf bs

/-! ## what a reader gets back: `norm`
exactly the two differences the property allows: wide integers re-expressed (`preReduce`) and the
back-patched size field dropped (`zeroX`: foamFrBuffer stores 0 in every `X` field). -/
mutual
def zeroX (T : Table) : Foam → Foam
  | .node tag args => .node tag (zeroXArgs T (T.info tag).argf .bad args)
def zeroXArgs (T : Table) : List Fmt → Fmt → List Arg → List Arg
  | _, _, [] => []
  | argf, prev, a :: as =>
    match (nextFmt argf prev).1, a with
    | .X, _ => .int 0 :: zeroXArgs T (nextFmt argf prev).2 (nextFmt argf prev).1 as
    | _, .sub f => .sub (zeroX T f) :: zeroXArgs T (nextFmt argf prev).2 (nextFmt argf prev).1 as
    | _, a => a :: zeroXArgs T (nextFmt argf prev).2 (nextFmt argf prev).1 as
end

def norm (T : Table) (f : Foam) : Foam := zeroX T (preReduce T f)

/-! ## well-formedness: what the two C functions silently assume -/
/-- a value that `FOAM_PUT_INT(fmt)`/`FOAM_GET_INT(fmt)` carries unchanged -/
def fits (fmt : Int) (v : Int) : Bool :=
  if fmt = 0 then isInt32 v
  else if fmt = 1 then decide (0 ≤ v) && decide (v ≤ 255)
  else decide (v = fmt - 2)

def inRange (lo hi v : Int) : Bool := decide (lo ≤ v) && decide (v ≤ hi)

/-- the argument survives `leafBytes`/`leafRead` -/
def wfLeaf (T : Table) (fmt lf : Int) : Fmt → Arg → Bool
  | .t, .int v => inRange 0 255 (v - T.start)
  | .o, .int v => inRange 0 65535 (v - T.bvalStart)
  | .p, .int v => inRange 0 255 (v - T.protoStart)
  | .D, .int v => inRange 0 255 v
  | .b, .int v => inRange (-128) 127 v
  | .h, .int v => inRange 0 65535 v
  | .w, .int v => isInt32 v
  | .L, .int v => fits lf v
  | .i, .int v => fits fmt v
  | .s, .str bs => fits fmt bs.length && bs.all (· ≠ 0)
  | .n, .bint v => fits fmt (bintDigits v.natAbs).length
  | _, _ => false

/-- the conditions on the node itself: no `bug()` in foamTagFormat, tag and format representable in
the tag byte, argument count as the reader will assume it -/
def wfHead (T : Table) (tag : Nat) (args : List Arg) : Bool :=
  let fa := tagFormat T tag args
  !fa.2 && decide (tag < T.limit) && decide (0 ≤ fa.1) && decide (fa.1 ≤ 4)
    && (decide (fa.1 = 0) || decide (T.ffoOrigin ≤ tag))
    && (match (T.info tag).argc with
        | some k => decide (args.length = k)
        | none => fits fa.1 args.length)

mutual
/-- `some lf'`: the node is well formed when met with `labelFmt = lf`, and leaves `labelFmt = lf'`. -/
def wfF (T : Table) (lf : Int) : Foam → Option Int
  | .node tag args =>
    if wfHead T tag args then
      if tag = T.tProg then
        match (T.info tag).argf, args with
        | .X :: r, .int _ :: as => wfArgs T (tagFormat T tag args).1 lf r .X as
        | _, _ => none
      else wfArgs T (tagFormat T tag args).1 lf (T.info tag).argf .bad args
    else none
def wfArgs (T : Table) (fmt : Int) (lf : Int) : List Fmt → Fmt → List Arg → Option Int
  | _, _, [] => some lf
  | argf, prev, a :: as =>
    match (nextFmt argf prev).1 with
    | .X => none
    | .F =>
      match a with
      | .int v => if isInt32 v then wfArgs T fmt (fmtFor v) (nextFmt argf prev).2 (nextFmt argf prev).1 as else none
      | _ => none
    | .f =>
      match a with
      | .sflo _ => if as.isEmpty then some lf else none
      | _ => none
    | .d =>
      match a with
      | .dflo _ => if as.isEmpty then some lf else none
      | _ => none
    | .C =>
      match a with
      | .sub f =>
        match wfF T lf f with
        | some lf' => wfArgs T fmt lf' (nextFmt argf prev).2 (nextFmt argf prev).1 as
        | none => none
      | _ => none
    | .star => none
    | .bad => none
    | af => if wfLeaf T fmt lf af a then wfArgs T fmt lf (nextFmt argf prev).2 af as else none
end

/-- well formed as `foamToBuffer` meets it: after `preReduce`. -/
def WF (T : Table) (lf : Int) (f : Foam) : Prop := (wfF T lf (preReduce T f)).isSome

/-! ## nesting depth (fuel of `decF`) -/
mutual
def depth : Foam → Nat
  | .node _ args => depthArgs args + 1
def depthArgs : List Arg → Nat
  | [] => 0
  | .sub f :: as => max (depth f) (depthArgs as)
  | _ :: as => depthArgs as
end

end AldorVerif.Foam
