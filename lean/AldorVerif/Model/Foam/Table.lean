/-
Shape of the FOAM instruction table (`struct foam_info foamInfoTable[]` of foam.c) as the
codec model sees it.  The table itself is *generated* (Gen/FoamInfo.lean, by
translate/foaminfo.py from the current foam.c / foam.h); this file only fixes the types.
-/
namespace AldorVerif.Foam

/-- one byte of an `argf` format string (comment above `foamInfoTable` in foam.c).
Characters the codec's `switch` does not know (e.g. `'!'` of `FOAM_Arb`) become `bad`. -/
inductive Fmt
  | t | o | p | D | b | h | w | X | F | L | i | s | f | d | n | C | star | bad
  deriving DecidableEq, Repr, Inhabited

def Fmt.toChar : Fmt → Char
  | .t => 't' | .o => 'o' | .p => 'p' | .D => 'D' | .b => 'b' | .h => 'h' | .w => 'w'
  | .X => 'X' | .F => 'F' | .L => 'L' | .i => 'i' | .s => 's' | .f => 'f' | .d => 'd'
  | .n => 'n' | .C => 'C' | .star => '*' | .bad => '!'

/-- one row: `str`, `argc` (`none` = `FOAM_NARY`), `argf`. -/
structure Info where
  name : String
  argc : Option Nat
  argf : List Fmt
  deriving Repr, Inhabited

/-- the table plus the enum values of foam.h the codec functions mention by name. -/
structure Table where
  infos : List Info
  /-- `FOAM_START`, `FOAM_BVAL_START`, `FOAM_PROTO_START` -/
  start : Nat
  bvalStart : Nat
  protoStart : Nat
  /-- `FFO_ORIGIN = FOAM_VECTOR_START`, `FOAM_INDEX_START`, `FOAM_INDEX_LIMIT`, `FOAM_LIMIT` -/
  ffoOrigin : Nat
  indexStart : Nat
  indexLimit : Nat
  limit : Nat
  tSInt : Nat
  tDFlo : Nat
  tEInfo : Nat
  tUnimp : Nat
  tGDecl : Nat
  tDecl : Nat
  tBInt : Nat
  tRRElt : Nat
  tLex : Nat
  tRElt : Nat
  tIRElt : Nat
  tTRElt : Nat
  tEElt : Nat
  tDFluid : Nat
  tDEnv : Nat
  tRec : Nat
  tBCall : Nat
  tProg : Nat
  /-- `FOAM_BVal_SIntNegate`, `FOAM_BVal_SIntShiftUp`, `FOAM_BVal_SIntOr` -/
  bvNegate : Nat
  bvShiftUp : Nat
  bvOr : Nat
  deriving Repr, Inhabited

def Table.info (T : Table) (tag : Nat) : Info :=
  T.infos.getD (tag - T.start) ⟨"?", some 0, []⟩

/-- `FFO_SPAN` -/
def Table.span (T : Table) : Nat := T.limit - T.ffoOrigin

end AldorVerif.Foam
