/-
Model of aldor/aldor/src/btree.c (hand model, tied by correspondence: harness/btree_drv.c).

A node (`struct btree`) is its array of key/entry pairs (`part[i].key`, `part[i].entry`,
`i < nKeys`) and, for interior nodes, its array of `nKeys+1` branches (`part[i].branch`).
`isLeaf` is the constructor.  The minimum degree `t` (field `t`, equal in every node of a
tree) is a parameter of the functions.  Keys and entries are `Nat` (C: `ULong`, `Pointer`).

The C loops that walk down the tree are recursions on a fuel argument that is the height of
the tree (kept beside the root in `BTree`); in-place updates return the new node.
Reading a slot that the C code would read outside the live part of an array (only possible
when the B-tree invariant is already broken, or for the documented undefined cases:
`btreeDelete` of an absent key, `btreeSearchMin/Max` of an empty tree) yields a default here.
-/
namespace AldorVerif.BTree

abbrev Key := Nat
abbrev Ent := Nat
abbrev KV  := Key × Ent

inductive Node where
  | leaf (kvs : List KV)
  | node (kvs : List KV) (kids : List Node)
  deriving Inhabited

namespace Node
def kvs : Node → List KV
  | .leaf k => k
  | .node k _ => k
def kids : Node → List Node
  | .leaf _ => []
  | .node _ c => c
def isLeaf : Node → Bool
  | .leaf _ => true
  | .node _ _ => false
/-- `x->nKeys` -/
def nKeys (x : Node) : Nat := x.kvs.length
/-- a node with the `isLeaf` flag of `x` (C: `z->isLeaf = y->isLeaf`; branches of a leaf are not copied) -/
def like (x : Node) (kvs : List KV) (kids : List Node) : Node :=
  match x with
  | .leaf _ => .leaf kvs
  | .node _ _ => .node kvs kids
end Node

/-- `x->part[i].branch` -/
def kid (kids : List Node) (i : Nat) : Node := kids.getD i (.leaf [])
/-- `x->part[i].key, x->part[i].entry` -/
def kvAt (kvs : List KV) (i : Nat) : KV := kvs.getD i (0, 0)
/-- `a[i] = v` -/
def setAt {α} (l : List α) (i : Nat) (a : α) : List α := l.take i ++ a :: l.drop (i + 1)
/-- open a gap at `i` (slide up) and store -/
def insAt {α} (l : List α) (i : Nat) (a : α) : List α := l.take i ++ a :: l.drop i
/-- close the gap at `i` (slide down) -/
def delAt {α} (l : List α) (i : Nat) : List α := l.take i ++ l.drop (i + 1)

/-- `for (i = 0; i < xn && k > x->part[i].key; i++) ;` -/
def scanL (kvs : List KV) (k : Key) : Nat := (kvs.takeWhile (fun kv => kv.1 < k)).length
/-- `for (i = xn-1; i >= 0 && k < x->part[i].key; i--) ; i++;` -/
def scanR (kvs : List KV) (k : Key) : Nat := (kvs.reverse.dropWhile (fun kv => k < kv.1)).length
/-- `i < xn && k == x->part[i].key` -/
def hitAt (kvs : List KV) (i : Nat) (k : Key) : Bool :=
  match kvs[i]? with
  | some kv => k == kv.1
  | none => false

/-- `btreeSearchEQ`: the key/entry in the slot `(node, *pindex)` returned, `none` for 0. -/
def searchEQ : Nat → Node → Key → Option KV
  | _, .leaf kvs, k =>
    let i := scanL kvs k
    if hitAt kvs i k then kvs[i]? else none
  | 0, .node _ _, _ => none
  | f + 1, .node kvs kids, k =>
    let i := scanL kvs k
    if hitAt kvs i k then kvs[i]? else searchEQ f (kid kids i) k

/-- `btreeSearchGE`; `last` is `(lastx, lasti)`. -/
def searchGE : Nat → Node → Key → Option KV → Option KV
  | _, .leaf kvs, k, last =>
    let i := scanL kvs k
    if hitAt kvs i k then kvs[i]?
    else match kvs[i]? with
      | some kv => if k ≤ kv.1 then some kv else last
      | none => last
  | 0, .node _ _, _, _ => none
  | f + 1, .node kvs kids, k, last =>
    let i := scanL kvs k
    if hitAt kvs i k then kvs[i]?
    else
      let last' := match kvs[i]? with
        | some kv => some kv
        | none => last
      searchGE f (kid kids i) k last'

/-- `btreeSearchMin` (`none`: the slot 0 of an empty leaf, garbage in C). -/
def searchMin : Nat → Node → Option KV
  | _, .leaf kvs => kvs[0]?
  | 0, .node _ _ => none
  | f + 1, .node _ kids => searchMin f (kid kids 0)

/-- `btreeSearchMax` (`none`: the slot -1 of an empty leaf, garbage in C). -/
def searchMax : Nat → Node → Option KV
  | _, .leaf kvs => if kvs.length = 0 then none else kvs[kvs.length - 1]?
  | 0, .node _ _ => none
  | f + 1, .node kvs kids => searchMax f (kid kids kvs.length)

/-- the loop `for (xp = x0+1; xp < xN; xp++) if ((xp-1)->key > xp->key) return -5;` passes. -/
def ascending : List KV → Bool
  | a :: b :: r => decide (a.1 ≤ b.1) && ascending (b :: r)
  | _ => true

/-- `pLoBd && *pLoBd > x0->key` -/
def loBad (lo : Option Key) (kvs : List KV) : Bool :=
  match lo, kvs.head? with
  | some l, some kv => decide (kv.1 < l)
  | _, _ => false

/-- `pHiBd && (xN-1)->key > *pHiBd` -/
def hiBad (hi : Option Key) (kvs : List KV) : Bool :=
  match hi, kvs.getLast? with
  | some h, some kv => decide (h < kv.1)
  | _, _ => false

/-- the three subtree checks of `btreeCheck0` (-7 first branch, -8 middle, -9 last);
    -10: the branch array does not have `nKeys+1` members (not a C result). -/
def checkKids (chk : Node → Option Key → Option Key → Int) :
    List Node → List KV → Option Key → Option Key → Int → Int
  | [c], [], lo, hi, _ => if chk c lo hi ≠ 0 then -9 else 0
  | c :: cs, kv :: kvs, lo, hi, code =>
    if chk c lo (some kv.1) ≠ 0 then code else checkKids chk cs kvs (some kv.1) hi (-8)
  | _, _, _, _, _ => -10

/-- `btreeCheck0` (the test `x->t != t` → -1 has no counterpart: `t` is not stored per node). -/
def check0 (t : Nat) : Nat → Node → Option Key → Option Key → Int
  | fuel, x, lo, hi =>
    let n := x.nKeys
    if (lo.isNone && hi.isNone) && decide (2 * t - 1 < n) then -2
    else if !(lo.isNone && hi.isNone) && (decide (n < t - 1) || decide (2 * t - 1 < n)) then -3
    else if loBad lo x.kvs then -4
    else if !ascending x.kvs then -5
    else if hiBad hi x.kvs then -6
    else match x, fuel with
      | .leaf _, _ => 0
      | .node _ _, 0 => -10
      | .node kvs kids, f + 1 => checkKids (check0 t f) kids kvs lo hi (-7)

/-- `btreeSplitChild(x, i)`: `y = x->part[i].branch` is full. -/
def splitChild (t : Nat) (x : Node) (i : Nat) : Node :=
  let y := kid x.kids i
  let z := y.like ((y.kvs.drop t).take (t - 1)) ((y.kids.drop t).take t)
  let y' := y.like (y.kvs.take (t - 1)) (y.kids.take t)
  x.like (insAt x.kvs i (kvAt y.kvs (t - 1))) (x.kids.take i ++ y' :: z :: x.kids.drop (i + 1))

/-- `btreeUnsplitChild(x, i)`: merge branch `i`, key `i`, branch `i+1` (both branches have
    `t-1` keys; the C text copies `y->nKeys` pairs of `z`, which is then all of them). -/
def unsplitChild (x : Node) (i : Nat) : Node :=
  let y := kid x.kids i
  let z := kid x.kids (i + 1)
  let y' := y.like (y.kvs ++ kvAt x.kvs i :: z.kvs) (y.kids ++ z.kids)
  x.like (delAt x.kvs i) (x.kids.take i ++ y' :: x.kids.drop (i + 2))

/-- `btreeRotateDown(x, i)`: first key of branch `i+1` up, key `i` down to the end of branch `i`. -/
def rotateDown (x : Node) (i : Nat) : Node :=
  let y := kid x.kids i
  let z := kid x.kids (i + 1)
  let y' := y.like (y.kvs ++ [kvAt x.kvs i]) (y.kids ++ z.kids.take 1)
  let z' := z.like (z.kvs.drop 1) (z.kids.drop 1)
  x.like (setAt x.kvs i (kvAt z.kvs 0)) (x.kids.take i ++ y' :: z' :: x.kids.drop (i + 2))

/-- `btreeRotateUp(x, ii)`: last key of branch `ii` up, key `ii` down to the front of branch `ii+1`. -/
def rotateUp (x : Node) (ii : Nat) : Node :=
  let z := kid x.kids ii
  let y := kid x.kids (ii + 1)
  let zn := z.nKeys
  let y' := y.like (kvAt x.kvs ii :: y.kvs) ((z.kids.drop zn).take 1 ++ y.kids)
  let z' := z.like (z.kvs.take (zn - 1)) (z.kids.take zn)
  x.like (setAt x.kvs ii (kvAt z.kvs (zn - 1))) (x.kids.take ii ++ z' :: y' :: x.kids.drop (ii + 2))

/-- the `while (!x->isLeaf)` loop and the final leaf insertion of `btreeInsertX`; `x` is not full. -/
def insertNonFull (t : Nat) : Nat → Node → Key → Ent → Node
  | _, .leaf kvs, k, e => .leaf (insAt kvs (scanR kvs k) (k, e))
  | 0, .node kvs kids, _, _ => .node kvs kids
  | f + 1, .node kvs kids, k, e =>
    let i := scanR kvs k
    if (kid kids i).nKeys = 2 * t - 1 then
      let x' := splitChild t (.node kvs kids) i
      let i' := if (kvAt x'.kvs i).1 < k then i + 1 else i
      .node x'.kvs (setAt x'.kids i' (insertNonFull t f (kid x'.kids i') k e))
    else
      .node kvs (setAt kids i (insertNonFull t f (kid kids i) k e))

/-- a tree: `t`, the root, and its height (fuel for the descents; not stored in C). -/
structure BTree where
  t : Nat
  h : Nat
  root : Node

/-- `btreeNewX(t, alloc)` -/
def BTree.new (t : Nat) : BTree := ⟨t, 0, .leaf []⟩

/-- `btreeInsertX`. -/
def BTree.insert (b : BTree) (k : Key) (e : Ent) : BTree :=
  if b.root.nKeys = 2 * b.t - 1 then
    let s := splitChild b.t (.node [] [b.root]) 0
    { b with h := b.h + 1, root := insertNonFull b.t (b.h + 1) s k e }
  else
    { b with root := insertNonFull b.t b.h b.root k e }

/-- the part of `btreeDelete0` that makes branch `i` have at least `t` keys before the descent:
    the node after rotation/merge and the branch index to follow. -/
def fixChild (t : Nat) (x : Node) (i : Nat) : Node × Nat :=
  if (kid x.kids i).nKeys = t - 1 then
    if i < x.nKeys ∧ t - 1 < (kid x.kids (i + 1)).nKeys then (rotateDown x i, i)
    else if 0 < i ∧ t - 1 < (kid x.kids (i - 1)).nKeys then (rotateUp x (i - 1), i)
    else
      let j := if i = x.nKeys then i - 1 else i
      (unsplitChild x j, j)
  else (x, i)

/-- `btreeDelete0`: the node after deletion and `*pe`.
    A leaf without the key: undefined in C (it reads a branch of the leaf); unchanged here. -/
def delete0 (t : Nat) : Nat → Node → Key → Node × Option Ent
  | _, .leaf kvs, k =>
    let i := scanL kvs k
    if hitAt kvs i k then (.leaf (delAt kvs i), some (kvAt kvs i).2) else (.leaf kvs, none)
  | 0, .node kvs kids, _ => (.node kvs kids, none)
  | f + 1, .node kvs kids, k =>
    let i := scanL kvs k
    if hitAt kvs i k then
      let pe := some (kvAt kvs i).2
      if t - 1 < (kid kids i).nKeys then
        let ok := ((searchMax f (kid kids i)).getD (0, 0)).1
        let r := delete0 t f (kid kids i) ok
        (.node (setAt kvs i (ok, r.2.getD 0)) (setAt kids i r.1), pe)
      else if t - 1 < (kid kids (i + 1)).nKeys then
        let ok := ((searchMin f (kid kids (i + 1))).getD (0, 0)).1
        let r := delete0 t f (kid kids (i + 1)) ok
        (.node (setAt kvs i (ok, r.2.getD 0)) (setAt kids (i + 1) r.1), pe)
      else
        let x' := unsplitChild (.node kvs kids) i
        let r := delete0 t f (kid x'.kids i) k
        (.node x'.kvs (setAt x'.kids i r.1), r.2.orElse (fun _ => pe))
    else
      let p := fixChild t (.node kvs kids) i
      let r := delete0 t f (kid p.1.kids p.2) k
      (.node p.1.kvs (setAt p.1.kids p.2 r.1), r.2)

/-- `btreeDeleteX`. -/
def BTree.delete (b : BTree) (k : Key) : BTree × Option Ent :=
  let r := delete0 b.t b.h b.root k
  match r.1 with
  | .node [] kids => ({ b with h := b.h - 1, root := kid kids 0 }, r.2)
  | x => ({ b with root := x }, r.2)

def BTree.searchEQ (b : BTree) (k : Key) : Option KV := AldorVerif.BTree.searchEQ b.h b.root k
def BTree.searchGE (b : BTree) (k : Key) : Option KV := AldorVerif.BTree.searchGE b.h b.root k none
def BTree.searchMin (b : BTree) : Option KV := AldorVerif.BTree.searchMin b.h b.root
def BTree.searchMax (b : BTree) : Option KV := AldorVerif.BTree.searchMax b.h b.root
/-- `btreeCheck` -/
def BTree.check (b : BTree) : Int := check0 b.t b.h b.root none none

end AldorVerif.BTree
