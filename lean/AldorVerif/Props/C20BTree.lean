import AldorVerif.Lemmas.BTree

/-! # C20 (B-tree part): property theorems about the model of `btree.c`

The abstraction of a tree is `BTree.contents`: its key/entry pairs in order (a sorted list, i.e.
an ordered multimap; keys may repeat).  `Inv` is the B-tree invariant: minimum degree `t ≥ 2`,
every node has at most `2t-1` keys, every node but the root at least `t-1`, an interior node with
`n` keys has `n+1` branches, all leaves at the same depth (`Shape t h`), an interior root has a
key, and the keys ascend in order within nodes and across subtrees (`Sorted contents`).

Histories: `BTree.run t ops` replays a list of insertions and deletions from `btreeNewX(t)`.
A deletion is issued only for a key that `btreeSearchEQ` finds — that is what store.c and the
driver do; `btreeDelete` of an absent key is undefined in C (it follows a branch of a leaf). -/
namespace AldorVerif.BTree

inductive Op where
  | ins (k : Key) (e : Ent)
  | del (k : Key)

def BTree.step (b : BTree) : Op → BTree
  | .ins k e => b.insert k e
  | .del k => if (b.searchEQ k).isSome then (b.delete k).1 else b

def BTree.run (t : Nat) (ops : List Op) : BTree := ops.foldl BTree.step (BTree.new t)

theorem searchEQ_present (b : BTree) (hb : Inv b) (k : Key) (h : (b.searchEQ k).isSome) :
    ∃ e, (k, e) ∈ b.contents := by
  obtain ⟨_, hs, _, hso⟩ := hb
  cases hq : b.searchEQ k with
  | none => rw [hq] at h; simp at h
  | some kv =>
    have := (searchEQ_spec b.t k b.h b.root hs hso).1 kv hq
    exact ⟨kv.2, by rw [← this.1]; exact this.2⟩

theorem inv_step (b : BTree) (hb : Inv b) (op : Op) : Inv (b.step op) := by
  cases op with
  | ins k e => exact (insert_spec b hb k e).1
  | del k =>
    simp only [BTree.step]
    split
    · next h => exact (delete_spec b hb k (searchEQ_present b hb k h)).1
    · exact hb

theorem inv_foldl (ops : List Op) : ∀ b, Inv b → Inv (ops.foldl BTree.step b) := by
  induction ops with
  | nil => intro b hb; exact hb
  | cons op ops ih => intro b hb; exact ih _ (inv_step b hb op)

theorem inv_run (t : Nat) (ht : 2 ≤ t) (ops : List Op) : Inv (BTree.run t ops) :=
  inv_foldl ops _ (inv_new t ht)

/-- **C20 / B-tree invariant.**  Starting from the empty tree, after every history of insertions
and deletions the B-tree invariant holds (keys sorted within nodes and across subtrees, node
sizes within `[t-1, 2t-1]` except the root, uniform leaf depth), and the invariant implies the
code's own verdict: the modelled `btreeCheck` returns 0. -/
theorem btree_check_holds (t : Nat) (ht : 2 ≤ t) (ops : List Op) :
    Inv (BTree.run t ops) ∧ (BTree.run t ops).check = 0 :=
  ⟨inv_run t ht ops, check_ok _ (inv_run t ht ops)⟩

/-- the invariant alone implies `btreeCheck = 0` (any state, not only reachable ones) -/
theorem inv_implies_check (b : BTree) (hb : Inv b) : b.check = 0 := check_ok b hb

/-- **C20 / B-tree as ordered multimap.**  In every state reachable by a history: the contents are
sorted by key; an insertion adds exactly the one pair; deleting a present key removes exactly one
pair with that key and hands back its entry; `btreeSearchEQ` finds a pair with the key iff one
exists. -/
theorem btree_refines_sorted_multimap (t : Nat) (ht : 2 ≤ t) (ops : List Op) :
    let b := BTree.run t ops
    Sorted b.contents ∧
    (∀ k e, ((b.insert k e).contents).Perm ((k, e) :: b.contents) ∧ Sorted (b.insert k e).contents) ∧
    (∀ k, (∃ e, (k, e) ∈ b.contents) →
      ∃ e, (b.delete k).2 = some e ∧ (k, e) ∈ b.contents ∧
        ((k, e) :: (b.delete k).1.contents).Perm b.contents ∧ Sorted (b.delete k).1.contents) ∧
    (∀ k, (∀ kv, b.searchEQ k = some kv → kv.1 = k ∧ kv ∈ b.contents) ∧
      (b.searchEQ k = none ↔ ∀ kv ∈ b.contents, kv.1 ≠ k)) := by
  intro b
  have hb : Inv b := inv_run t ht ops
  refine ⟨hb.2.2.2, fun k e => ?_, fun k hk => ?_, fun k => ?_⟩
  · have := insert_spec b hb k e
    exact ⟨this.2.perm, this.1.2.2.2⟩
  · obtain ⟨h1, e, h2, h3⟩ := delete_spec b hb k hk
    exact ⟨e, h2, h3.mem_iff.mp (by simp), h3, h1.2.2.2⟩
  · have := searchEQ_spec b.t k b.h b.root hb.2.1 hb.2.2.2
    refine ⟨this.1, this.2, fun hnone => ?_⟩
    cases hq : b.searchEQ k with
    | none => rfl
    | some kv => exact absurd (this.1 kv hq).1 (hnone kv (this.1 kv hq).2)

/-- **C20 / `btreeSearchGE`.**  In every reachable state `btreeSearchGE k` returns a pair of the
tree whose key is the least key `≥ k`, and returns 0 exactly when every key is smaller. -/
theorem searchGE_least (t : Nat) (ht : 2 ≤ t) (ops : List Op) (k : Key) :
    let b := BTree.run t ops
    (∀ kv, b.searchGE k = some kv →
        kv ∈ b.contents ∧ k ≤ kv.1 ∧ ∀ a ∈ b.contents, k ≤ a.1 → kv.1 ≤ a.1) ∧
    (b.searchGE k = none ↔ ∀ a ∈ b.contents, a.1 < k) := by
  intro b
  have hb : Inv b := inv_run t ht ops
  rcases searchGE_spec b.t k b.h b.root none hb.2.1 hb.2.2.2 with ⟨kv, h1, h2, h3, h4⟩ | ⟨h1, h2⟩
  · refine ⟨fun kv' hkv' => ?_, fun hnone => ?_, fun hall => ?_⟩
    · have : kv = kv' := by
        have := h1.symm.trans hkv'
        simpa using this
      subst this; exact ⟨h2, h3, h4⟩
    · have := h1.symm.trans hnone; simp at this
    · exact absurd (hall kv h2) (Nat.not_lt.mpr h3)
  · refine ⟨fun kv' hkv' => ?_, fun _ => h2, fun _ => h1⟩
    have := h1.symm.trans hkv'; simp at this

/-- `btreeSearchMin` / `btreeSearchMax` return the first / last pair in order (nothing for the
empty tree, where the C functions return a slot outside the live part of the root). -/
theorem search_min_max (t : Nat) (ht : 2 ≤ t) (ops : List Op) :
    let b := BTree.run t ops
    b.searchMin = b.contents.head? ∧ b.searchMax = b.contents.getLast? := by
  intro b
  have hb : Inv b := inv_run t ht ops
  exact ⟨searchMin_spec b.t hb.1 b.h b.root hb.2.1, searchMax_spec b.t hb.1 b.h b.root hb.2.1⟩

/-! ## non-vacuity: concrete histories (root split, rotations, merges, root collapse) -/

def sampleIns : List Op :=
  [.ins 1 10, .ins 2 20, .ins 3 30, .ins 4 40, .ins 5 50, .ins 6 60, .ins 7 70, .ins 8 80, .ins 9 90,
   .ins 10 100, .ins 5 51]
def sampleOps : List Op := sampleIns ++ [.del 4, .del 1, .del 9, .del 5]

-- two root splits: height 2; then a rotation, merges and a root collapse: height 1
example : (BTree.run 2 sampleIns).h = 2 := by decide +kernel
example : (BTree.run 2 sampleOps).h = 1 := by decide +kernel
example : (BTree.run 2 sampleOps).contents =
    [(2, 20), (3, 30), (5, 51), (6, 60), (7, 70), (8, 80), (10, 100)] := by decide +kernel
example : Inv (BTree.run 2 sampleOps) := inv_run 2 (by decide) sampleOps
example : ∃ e, (7, e) ∈ (BTree.run 2 sampleOps).contents := ⟨70, by decide +kernel⟩
example : (BTree.run 2 sampleOps).searchGE 4 = some (5, 51) := by decide +kernel
example : (BTree.run 2 sampleOps).searchEQ 9 = none := by decide +kernel
example : (BTree.run 2 sampleOps).check = 0 := by decide +kernel
-- `btreeCheck` does reject a tree that is out of order
example : (BTree.mk 2 0 (.leaf [(2, 0), (1, 0)])).check = -5 := by decide +kernel

end AldorVerif.BTree
