import AldorVerif.Lemmas.ComsgReport
import AldorVerif.Props.C15

/-! # C15 (report part): every diagnostic is printed under the header of its own file and line

`reportFile sort msgs` is the model of comsg.c's end-of-compilation report: the collected
messages in generation order, stably sorted by position, cut into runs with one GLOBAL line
number; each run is printed under one header — the file and line decoded from the run's first
position — followed by the messages of the run, except those whose text repeats the text of the
message just before them in the run. -/
namespace AldorVerif.ComsgReport
open AldorVerif.SrcPos

theorem mem_vector (sort : Bool) (msgs : List CoMsg) (m : CoMsg) :
    m ∈ (if sort then lisort msgs.reverse else msgs.reverse) ↔ m ∈ msgs := by
  cases sort <;> simp [mem_lisort]

/-- the run of a message: a printed block that contains it, whose members all have its global line -/
theorem group_of (sort : Bool) (msgs : List CoMsg) (m : CoMsg) (hm : m ∈ msgs) :
    ∃ g ∈ reportFile sort msgs, m ∈ g.all ∧ g.shown = shownFrom "" g.all ∧
      (∃ x r, g.all = x :: r ∧ g.first = x.pos) ∧
      ∀ a ∈ g.all, sposGlobalLine a.pos = sposGlobalLine m.pos := by
  have hv := (mem_vector sort msgs m).mpr hm
  rw [← runs_flatten (if sort then lisort msgs.reverse else msgs.reverse)] at hv
  obtain ⟨g0, hg0, hmg⟩ := List.mem_flatten.mp hv
  obtain ⟨hne, hsame⟩ := runs_same_line _ g0 hg0
  cases g0 with
  | nil => exact absurd rfl hne
  | cons x r =>
    refine ⟨⟨x.pos, x :: r, shownFrom "" (x :: r)⟩, ?_, hmg, rfl, ⟨x, r, rfl, rfl⟩, fun a ha => hsame a ha m hmg⟩
    unfold reportFile
    exact List.mem_filterMap.mpr ⟨x :: r, hg0, rfl⟩

/-- **report_shows_every_distinct_message_under_its_own_file.**  For every collected message
(with non-empty text) there is a printed block that (1) contains the message in its indicator
line, (2) has as header the file and line the message's own position decodes to, (3) prints
only messages that decode to that same file and line, and (4) prints a message with this text. -/
theorem report_shows_every_distinct_message_under_its_own_file
    (t : Table) (sort : Bool) (msgs : List CoMsg) (m : CoMsg) (hm : m ∈ msgs) (ht : m.text ≠ "") :
    ∃ g ∈ reportFile sort msgs,
      m ∈ g.all ∧
      sposFile t g.first = sposFile t m.pos ∧ sposLine t g.first = sposLine t m.pos ∧
      (∀ e ∈ g.shown, sposFile t e.pos = sposFile t m.pos ∧ sposLine t e.pos = sposLine t m.pos) ∧
      ∃ e ∈ g.shown, e.text = m.text := by
  obtain ⟨g, hg, hmem, hshown, ⟨x, r, hall, hfirst⟩, hsame⟩ := group_of sort msgs m hm
  have hx : sposGlobalLine g.first = sposGlobalLine m.pos := by
    rw [hfirst]; exact hsame x (by rw [hall]; simp)
  obtain ⟨f1, f2⟩ := file_line_of_gline t _ _ hx
  refine ⟨g, hg, hmem, f1, f2, ?_, ?_⟩
  · intro e he
    rw [hshown] at he
    exact file_line_of_gline t _ _ (hsame e (shownFrom_subset _ _ e he))
  · rw [hshown]
    rcases shownFrom_text g.all "" m hmem with h | h
    · exact h
    · exact absurd h ht

/-- a message that is the only one with its text on its global line is printed itself (with
its own `[L C]` and serial number), in the block headed by its own file and line. -/
theorem report_shows_distinct_message_itself
    (t : Table) (sort : Bool) (msgs : List CoMsg) (m : CoMsg) (hm : m ∈ msgs) (ht : m.text ≠ "")
    (hd : ∀ a ∈ msgs, sposGlobalLine a.pos = sposGlobalLine m.pos → a.text = m.text → a = m) :
    ∃ g ∈ reportFile sort msgs, m ∈ g.shown ∧
      sposFile t g.first = sposFile t m.pos ∧ sposLine t g.first = sposLine t m.pos := by
  obtain ⟨g, hg, hmem, hshown, ⟨x, r, hall, hfirst⟩, hsame⟩ := group_of sort msgs m hm
  have hx : sposGlobalLine g.first = sposGlobalLine m.pos := by
    rw [hfirst]; exact hsame x (by rw [hall]; simp)
  obtain ⟨f1, f2⟩ := file_line_of_gline t _ _ hx
  refine ⟨g, hg, ?_, f1, f2⟩
  obtain ⟨pre, post, hsplit, hnot⟩ := List.eq_append_cons_of_mem hmem
  rw [hshown]
  apply shownFrom_self g.all "" m pre post hsplit ht
  intro a ha htext
  have hag : a ∈ g.all := by rw [hsplit]; simp [ha]
  -- a is a collected message on the same global line with the same text: it is m
  have hamsgs : a ∈ msgs := by
    have : a ∈ (runs (if sort then lisort msgs.reverse else msgs.reverse)).flatten := by
      unfold reportFile at hg
      obtain ⟨g0, hg0, hmk⟩ := List.mem_filterMap.mp hg
      cases g0 with
      | nil => simp [mkGroup] at hmk
      | cons y s =>
        simp only [mkGroup, Option.some.injEq] at hmk
        subst hmk
        exact List.mem_flatten.mpr ⟨y :: s, hg0, hag⟩
    rw [runs_flatten] at this
    exact (mem_vector sort msgs a).mp this
  have := hd a hamsgs (hsame a hag) htext
  exact hnot (this ▸ ha)

/-! non-vacuity and the situation of the missed mutant: two messages with one text at local
line 2 of two different files (global lines 2 and 4): two blocks, each under its own header. -/
example :
    let t : Table := [⟨1, "a.as", 1⟩, ⟨3, "inc.as", 1⟩, ⟨5, "a.as", 3⟩]
    let m1 : CoMsg := ⟨sposOffset (sposSet 4 1) 5, 1, "No meaning for identifier `x'."⟩
    let m2 : CoMsg := ⟨sposOffset (sposSet 2 1) 5, 2, "No meaning for identifier `x'."⟩
    (reportFile true [m2, m1]).map (fun g => (sposFile t g.first, sposLine t g.first, g.shown.map (·.serial)))
      = [(some "a.as", 2, [2]), (some "inc.as", 2, [1])] := by decide +kernel

end AldorVerif.ComsgReport
