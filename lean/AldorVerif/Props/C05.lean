import AldorVerif.Lemmas.Foam.Codec
import AldorVerif.Lemmas.Foam.Resave
import AldorVerif.Gen.FoamInfo

/-! # C05 (byte-codec part): property theorems about the model of foamToBuffer / foamFrBuffer

"A compilation unit written to a machine-independent object and read back is the same program …
apart from … the portable re-expression of machine integers wider than 31 bits, which must denote
the same value".  The FOAM section of an `.ao`/`.al` member is `foamToBuffer` of the unit; it is
read back with `foamFrBuffer`.  `encode`/`decode` model the two (Model/Foam/Codec.lean), over the
instruction table *generated* from the tree being checked (Gen/FoamInfo.lean). -/
namespace AldorVerif.Foam

/-! ## the decidable side condition on the table -/
def rowHasNoX (i : Info) : Bool := !i.argf.contains .X
def rowStarOK (i : Info) : Bool :=
  match i.argf with
  | .star :: _ => false
  | _ => true

/-- what the proofs need of a table (and a few sanity conditions on top):
* every tag byte `tag + format * FFO_SPAN` with `format < NUM_FORMS = 5` fits one byte;
* `foamInfo(tag)` indexes a row for every tag below `FOAM_LIMIT`; the tag ranges are nested;
* the size field `X` occurs only as the first field of `Prog` (not repeated by a `*`), and `Prog`
  is an n-ary tag whose format `foamTagFormat` derives from the argument count and its `format`
  field alone;
* no `argf` starts with `*`;
* the rows `foamSIntReduce` relies on: `SInt` is `"w"`, `BCall` is n-ary `"oC*"`, and the three
  builtins are distinct half-ints. -/
def okBytes (T : Table) : Bool :=
  decide (T.ffoOrigin < T.limit) && decide (T.ffoOrigin + 5 * T.span ≤ 256)

def okShape (T : Table) : Bool :=
  decide (T.start = 0) && decide (T.infos.length = T.limit - T.start)
  && decide (T.ffoOrigin ≤ T.indexStart) && decide (T.indexStart ≤ T.indexLimit) && decide (T.indexLimit ≤ T.limit)
  && T.infos.all rowStarOK

def okX (T : Table) : Bool :=
  ((List.range T.infos.length).all fun k => decide (k + T.start = T.tProg) || rowHasNoX (T.infos.getD k default))
  && (match (T.info T.tProg).argf with
      | .X :: .star :: _ => false
      | .X :: r => !r.contains .X
      | _ => false)
  && (T.info T.tProg).argc.isNone
  && decide (T.indexLimit ≤ T.tProg) && decide (T.tProg < T.limit)
  && decide (T.tProg ≠ T.tRec) && decide (T.tProg ≠ T.tDEnv) && decide (T.tProg ≠ T.tDFluid) && decide (T.tProg ≠ T.tEInfo)

def okReduce (T : Table) : Bool :=
  decide ((T.info T.tSInt).argc = some 1) && decide ((T.info T.tSInt).argf = [.w]) && decide (T.tSInt < T.ffoOrigin)
  && (T.info T.tBCall).argc.isNone && decide ((T.info T.tBCall).argf = [.o, .C, .star])
  && decide (T.indexLimit ≤ T.tBCall) && decide (T.tBCall < T.limit)
  && decide (T.tBCall ≠ T.tRec) && decide (T.tBCall ≠ T.tDEnv) && decide (T.tBCall ≠ T.tDFluid)
  && decide (T.tBCall ≠ T.tEInfo) && decide (T.tBCall ≠ T.tProg) && decide (T.tBCall ≠ T.tSInt)
  && decide (T.bvNegate ≠ T.bvShiftUp) && decide (T.bvNegate ≠ T.bvOr) && decide (T.bvShiftUp ≠ T.bvOr)
  && decide (T.bvNegate ≤ 65535) && decide (T.bvShiftUp ≤ 65535) && decide (T.bvOr ≤ 65535)

def FoamInfoOK (T : Table) : Bool := okBytes T && okShape T && okX T && okReduce T

/-- the table generated from the current foam.c / foam.h passes (re-checked whenever it changes). -/
theorem foamInfoOK_gen : FoamInfoOK AldorVerif.Gen.FoamInfo.table = true := by decide

theorem FoamInfoOK.tok {T : Table} (h : FoamInfoOK T = true) : TOK T := by
  simp only [FoamInfoOK, okBytes, Bool.and_eq_true, decide_eq_true_eq] at h
  exact ⟨h.1.1.1.1, h.1.1.1.2⟩


/-! ## the round trip -/

/-- **decode ∘ encode = norm.**  For every table passing `FoamInfoOK`, every external float format
that round-trips (`XF.OK`, the subject of part `xfloat`), every initial `labelFmt` and every tree
that is well formed in the sense of `wfF` (after the SInt reduction foamToBuffer applies), reading
back the bytes written — followed by anything — yields exactly `norm f`, the rest of the bytes and
the writer's final `labelFmt`.  `norm` differs from `f` only by the two permitted differences:
wide `SInt`s re-expressed by `sintReduce` and the `Prog` size field zeroed. -/
theorem decode_encode (T : Table) (X : XF) (hT : FoamInfoOK T = true) (hX : X.OK)
    (lf : Int) (f : Foam) (rest : List UInt8) (h : WF T lf f) :
    decode T X lf ((encode T X lf f).1 ++ rest) = some (norm T f, rest, (encode T X lf f).2.1) := by
  rw [WF, Option.isSome_iff_exists] at h
  obtain ⟨lf', hlf⟩ := h
  rw [decode, encode, norm]
  have hd : depth (preReduce T f) ≤ ((encF T X 0 lf (preReduce T f)).1 ++ rest).length + 1 := by
    have := (PF_all T X (FoamInfoOK.tok hT) hX (preReduce T f) 0 lf lf' (depth (preReduce T f)) rest hlf (Nat.le_refl _)).2.2.2
    rw [List.length_append]; omega
  obtain ⟨p1, _, p3, _⟩ := PF_all T X (FoamInfoOK.tok hT) hX (preReduce T f) 0 lf lf' _ rest hlf hd
  rw [p3, p1]

theorem getD_ge {α} (l : List α) (d : α) (k : Nat) (h : l.length ≤ k) : l.getD k d = d := by
  simp [List.getD, List.getElem?_eq_none h]
theorem getD_lt2 {α} (l : List α) (d e : α) (k : Nat) (h : k < l.length) : l.getD k d = l.getD k e := by
  rw [← List.getElem_eq_getD (h := h), ← List.getElem_eq_getD (h := h)]

theorem FoamInfoOK.xok {T : Table} (h : FoamInfoOK T = true) : XOK T := by
  simp only [FoamInfoOK, okShape, okX, Bool.and_eq_true, decide_eq_true_eq, Bool.or_eq_true,
    List.all_eq_true, List.mem_range] at h
  obtain ⟨⟨⟨_, hs⟩, hx⟩, _⟩ := h
  obtain ⟨⟨⟨⟨⟨⟨⟨⟨hall, hargf⟩, hnary⟩, hil⟩, _⟩, hr⟩, hd⟩, hf⟩, he⟩ := hx
  obtain ⟨⟨⟨⟨⟨hstart, _⟩, _⟩, h12⟩, h23⟩, _⟩ := hs
  refine ⟨?_, ?_, ?_⟩
  · intro tag hne
    rw [Table.info, hstart, Nat.sub_zero]
    by_cases hlt : tag < T.infos.length
    · have := hall tag hlt
      rw [hstart, Nat.add_zero] at this
      rcases this with e | e
      · exact absurd e hne
      · rw [rowHasNoX, getD_lt2 _ _ ⟨"?", some 0, []⟩ _ hlt] at e
        simpa using e
    · rw [getD_ge _ _ _ (by omega)]
      simp
  · intro a b hab hd3
    have h1 : ¬ T.tProg < T.indexStart := by omega
    have h2 : ¬ (T.tProg = T.tRec ∨ T.tProg = T.tDEnv ∨ T.tProg = T.tDFluid) := by
      intro h; rcases h with h | h | h <;> contradiction
    simp only [tagFormat, if_neg h1, if_neg h2, hnary, or_true, if_true, if_neg he, hab, hd3]
  · cases hf' : (T.info T.tProg).argf with
    | nil => rw [hf'] at hargf; cases hargf
    | cons c r =>
      rw [hf'] at hargf
      cases c <;> try (cases hargf)
      cases r with
      | nil => exact ⟨[], rfl, by simp, fun _ t ht => by cases ht⟩
      | cons d r' =>
        cases d <;> first
          | (cases hargf; done)
          | exact ⟨_, rfl, by simpa using hargf, fun _ t ht => by cases ht⟩

/-- **re-saving a loaded unit reproduces it byte for byte**: what `foamFrBuffer` hands back is
`norm f` (`decode_encode`); writing that again gives the bytes (and final `labelFmt`, and abort
flag) of writing `f`.  Needs no well-formedness: neither the size field nor a re-expressed
integer is looked at again by the writer. -/
theorem encode_norm_idempotent (T : Table) (X : XF) (hT : FoamInfoOK T = true) (lf : Int) (f : Foam) :
    encode T X lf (norm T f) = encode T X lf f := by
  have hne : T.tBCall ≠ T.tSInt := by
    simp only [FoamInfoOK, okReduce, Bool.and_eq_true, decide_eq_true_eq] at hT
    exact hT.2.1.1.1.1.1.1.2
  exact resave_same T X (FoamInfoOK.xok hT) hne lf f

/-- on a well-formed tree foamToBuffer reaches no `bug()`/`assert`, and never patches bytes outside
the `Prog` being written. -/
theorem encode_no_abort (T : Table) (X : XF) (hT : FoamInfoOK T = true) (hX : X.OK)
    (lf : Int) (f : Foam) (h : WF T lf f) : (encode T X lf f).2.2 = false := by
  rw [WF, Option.isSome_iff_exists] at h
  obtain ⟨lf', hlf⟩ := h
  exact (PF_all T X (FoamInfoOK.tok hT) hX (preReduce T f) 0 lf lf' _ [] hlf (Nat.le_refl _)).2.1

/-- **the re-expressed integer denotes the same value**, for every 64-bit pattern (`LONG_MIN`
included: there `-x` and the final negation both wrap). -/
theorem sintReduce_value : ∀ x : BitVec 64, evalReduced (sintReduce x) = x := sintReduce_eval

/-- the constants `foamSIntReduce` leaves in the expression fit 31 unsigned bits (so that the
32-bit `w` field carries them). -/
theorem part_lt (n : BitVec 64) (k : Nat) : (part n k).toNat < 2147483648 := by
  have h : part n k = (n.sshiftRight (31 * k)) &&& 0x7fffffff#64 := rfl
  rw [h, BitVec.toNat_and]
  exact Nat.lt_of_le_of_lt Nat.and_le_right (by decide)


/-! ## non-vacuity, and where `WF` draws the line (each witness is replayed on the real code by
checks/parts/codec.py: `fixed_cases`) -/
section Witnesses
open AldorVerif.Gen.FoamInfo

instance (T : Table) (lf : Int) (f : Foam) : Decidable (WF T lf f) := by unfold WF; infer_instance

/-- a float format for witnesses without floats -/
def X0 : XF := ⟨fun _ => [], fun _ => none, fun _ => [], fun _ => none⟩

/-- `(Prog 0 3 Word fmt 0 0 0 0 (DDecl Params) (DDecl Locals) (DFluid) (DEnv 4) (Seq (Goto 2) (SInt 4294967297)))` -/
def progWith (fmt : Int) : Foam :=
  .node table.tProg [.int 0, .int 3, .int 8, .int fmt, .int 0, .int 0, .int 0, .int 0,
    .sub (.node 68 [.int 2]), .sub (.node 68 [.int 3]), .sub (.node 69 []), .sub (.node 70 [.int 4]),
    .sub (.node 81 [.sub (.node 35 [.int 2]), .sub (.node table.tSInt [.int 4294967297])])]

def fieldInt (k : Nat) : Foam → Option Int
  | .node _ args => match args.getD k (.str []) with
    | .int v => some v
    | _ => none
def fieldBInt (k : Nat) : Foam → Option Int
  | .node _ args => match args.getD k (.str []) with
    | .bint v => some v
    | _ => none

/-- a tree meeting the hypotheses of `decode_encode`: a `Prog` (size field, label format,
labels) holding an integer wider than 32 bits. -/
example : WF table 0 (progWith 4) := by decide
example : WF table 1 (progWith 255) := by decide

/-- formerly an excluded point (`fix: property=C05 … Prog format`): a unit with more than 255
formats whose multi-value function gets a return format above 255.  `foamTagFormat` now widens
the node's format when the `format` field does not fit a byte, so the tree is well formed and
`decode_encode` applies; spelled out: 300 is read back as 300. -/
theorem prog_format_kept :
    WF table 0 (progWith 300) ∧ (encode table X0 0 (progWith 300)).2.2 = false ∧
    (decode table X0 0 (encode table X0 0 (progWith 300)).1).map (fun r => (fieldInt 3 r.1, r.2.1))
      = some (some 300, []) := by decide

/-- files written before the repair are read as before: where the field fits a byte the bytes
have not changed (first bytes of `progWith 4`: tag `Prog` in format 1, argc 13, …, format 04). -/
example : (encode table X0 0 (progWith 4)).1.take 12 = [0x7a, 0x0d, 0x3d, 0, 0, 0, 3, 0, 0, 0, 8, 4] := by decide

/-- `(BInt 2^4096)` -/
def bigB : Foam := .node table.tBInt [.bint (2 ^ 4096)]

/-- formerly an excluded point (`fix: property=C05 … BInt format`): an integer literal of more than
255 sixteen-bit places (about 1229 decimal digits).  The format is now chosen from the count that
is written (257 ⇒ four-byte count), the tree is well formed, and it is read back whole. -/
theorem long_bint_kept :
    WF table 0 bigB ∧ (encode table X0 0 bigB).2.2 = false ∧
    (decode table X0 0 (encode table X0 0 bigB).1).map (fun r => (fieldBInt 0 r.1, r.2.1.length))
      = some (some (2 ^ 4096), 0) := by decide +kernel

/-- excluded points no program reaches (negative indices): `(Par -1)` is read back as `(Par 255)`. -/
example : (decode table X0 0 (encode table X0 0 (.node 49 [.int (-1)])).1).map (fun r => fieldInt 0 r.1)
    = some (some 255) := by decide

end Witnesses

end AldorVerif.Foam
