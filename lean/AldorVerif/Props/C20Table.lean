import AldorVerif.Lemmas.Table

/-! # C20 (hash-table part): property theorems about the model of `table.c`

`abs : Table → (Nat → Option Nat)` reads the finite map off a table (first slot with the key in
iteration order; it does not mention the hash function).  `Inv hf t` is the representation
invariant (at least one bucket; each slot stores `hf key` and lives in bucket `hash mod buckc`;
no key twice; `count` = number of slots).  Every theorem holds for an arbitrary hash function
`hf`, in particular for the colliding `k mod m` the harness uses. -/
namespace AldorVerif.Table

/-- the operations of a history -/
inductive Op where
  | set (k e : Nat)
  | get (k dflt : Nat)
  | drop (k : Nat)
  | nmap (f : Nat → Nat)
  | removeIf (test : Nat → Bool)
  | copy

/-- effect on the table (`tblElt` moves the found slot to the front of its chain) -/
def Op.apply (hf : Nat → Nat) (t : Table) : Op → Table
  | .set k e => tblSetElt hf t k e
  | .get k d => (tblElt hf t k d).1
  | .drop k => tblDrop hf t k
  | .nmap f => tblNMap f t
  | .removeIf p => tblRemoveIf p t
  | .copy => tblCopy t

/-- effect on the finite map -/
def Op.spec (m : Nat → Option Nat) : Op → (Nat → Option Nat)
  | .set k e => upd m k (some e)
  | .get _ _ => m
  | .drop k => upd m k none
  | .nmap f => fun k => (m k).map f
  | .removeIf p => fun k => (m k).map (fun e => if e ≠ 0 ∧ p e = true then 0 else e)
  | .copy => m

/-- the table after a history, starting from `tblNew` -/
def run (hf : Nat → Nat) (ops : List Op) : Table := ops.foldl (Op.apply hf) tblNew
/-- the finite map after the same history, starting from the empty map -/
def specRun (ops : List Op) : Nat → Option Nat := ops.foldl Op.spec (fun _ => none)

/-! ## single operations -/

theorem tblNew_spec (hf : Nat → Nat) : Inv hf tblNew ∧ abs tblNew = fun _ => none := by
  refine ⟨⟨by decide, ?_, by decide, by decide⟩, by funext k; rfl⟩
  intro i h s hs
  have h' : i < 7 := h
  have : (tblNew.buckv[i]'h) = [] := by
    simp [tblNew, tblNew0]
  rw [this] at hs; simp at hs

/-- `tblElt` returns the value of the map (the default when the key is absent), keeps the map,
    keeps the invariant; the table changes at most by a permutation of the entries. -/
theorem tblElt_spec (hf : Nat → Nat) (t : Table) (hi : Inv hf t) (k d : Nat) :
    (tblElt hf t k d).2 = (abs t k).getD d ∧ abs (tblElt hf t k d).1 = abs t ∧
    Inv hf (tblElt hf t k d).1 ∧ (tblIter (tblElt hf t k d).1).Perm (tblIter t) := by
  obtain ⟨h1, h2, h3⟩ := tblElt_spec' hi k d
  exact ⟨h3, abs_perm h1 h2, h1, h2⟩

/-- `tblSetElt` updates the map at exactly `k` (across `tblEnlarge` too). -/
theorem tblSetElt_spec (hf : Nat → Nat) (t : Table) (hi : Inv hf t) (k e : Nat) :
    abs (tblSetElt hf t k e) = upd (abs t) k (some e) ∧ Inv hf (tblSetElt hf t k e) := by
  obtain ⟨h1, h2⟩ := tblSetElt_spec' hi k e
  exact ⟨h2, h1⟩

/-- `tblDrop` removes exactly `k`. -/
theorem tblDrop_spec (hf : Nat → Nat) (t : Table) (hi : Inv hf t) (k : Nat) :
    abs (tblDrop hf t k) = upd (abs t) k none ∧ Inv hf (tblDrop hf t k) := by
  obtain ⟨h1, h2⟩ := tblDrop_spec' hi k
  exact ⟨h2, h1⟩

/-- `tblEnlarge` keeps the map and the invariant and moves to the next prime bucket count. -/
theorem tblEnlarge_spec (hf : Nat → Nat) (t : Table) (hi : Inv hf t) :
    abs (tblEnlarge t) = abs t ∧ Inv hf (tblEnlarge t) ∧
    (tblEnlarge t).buckc = binPrime (cielLg t.buckc + 1) ∧ tblSize (tblEnlarge t) = tblSize t := by
  obtain ⟨h1, h2, h3⟩ := tblEnlarge_spec' hi
  exact ⟨abs_perm h1 h2, h1, h3, rfl⟩

theorem tblNMap_spec (hf : Nat → Nat) (t : Table) (hi : Inv hf t) (f : Nat → Nat) :
    abs (tblNMap f t) = (fun k => (abs t k).map f) ∧ Inv hf (tblNMap f t) := by
  obtain ⟨h1, _, h3⟩ := mapSlots_spec hi (fun b => { b with elt := f b.elt }) f
    (fun _ => rfl) (fun _ => rfl) (fun _ => rfl)
  exact ⟨h3, h1⟩

theorem tblCopy_spec (hf : Nat → Nat) (t : Table) (hi : Inv hf t) :
    abs (tblCopy t) = abs t ∧ Inv hf (tblCopy t) ∧ tblIter (tblCopy t) = tblIter t := by
  obtain ⟨h1, h2, h3⟩ := mapSlots_spec hi id id (fun _ => rfl) (fun _ => rfl) (fun _ => rfl)
  refine ⟨?_, h1, ?_⟩
  · show abs { buckv := t.buckv.map (fun c => c.map id), count := t.count } = abs t
    rw [h3]; funext k; simp
  · show tblIter { buckv := t.buckv.map (fun c => c.map id), count := t.count } = tblIter t
    rw [h2]; simp

theorem tblRemoveIf_spec (hf : Nat → Nat) (t : Table) (hi : Inv hf t) (p : Nat → Bool) :
    abs (tblRemoveIf p t) = (fun k => (abs t k).map (fun e => if e ≠ 0 ∧ p e = true then 0 else e)) ∧
    Inv hf (tblRemoveIf p t) := by
  obtain ⟨h1, _, h3⟩ := mapSlots_spec hi
    (fun b => if b.elt ≠ 0 ∧ p b.elt = true then { b with elt := 0 } else b)
    (fun e => if e ≠ 0 ∧ p e = true then 0 else e)
    (fun s => by split <;> rfl) (fun s => by split <;> rfl)
    (fun s => by split <;> rfl)
  exact ⟨h3, h1⟩

/-- Iteration (`tblITER/tblMORE/tblSTEP`) visits each entry of the map exactly once, and
    `tblSize` is the number of entries. -/
theorem tblIter_spec (hf : Nat → Nat) (t : Table) (hi : Inv hf t) :
    ((tblIter t).map Slot.key).Nodup ∧
    (∀ k e, (k, e) ∈ (tblIter t).map entry ↔ abs t k = some e) ∧
    tblSize t = (tblIter t).length := by
  refine ⟨hi.nodup, ?_, hi.count⟩
  intro k e
  rw [abs, lookup_eq_some_iff k e _ hi.nodup, List.mem_map]
  constructor
  · rintro ⟨s, hs, he⟩
    simp only [entry, Prod.mk.injEq] at he
    exact ⟨s, hs, he.1, he.2⟩
  · rintro ⟨s, hs, h1, h2⟩
    exact ⟨s, hs, by simp [entry, h1, h2]⟩

/-! ## histories -/

theorem apply_spec (hf : Nat → Nat) (t : Table) (hi : Inv hf t) (op : Op) :
    Inv hf (op.apply hf t) ∧ abs (op.apply hf t) = op.spec (abs t) := by
  cases op with
  | set k e => exact ⟨(tblSetElt_spec hf t hi k e).2, (tblSetElt_spec hf t hi k e).1⟩
  | get k d => exact ⟨(tblElt_spec hf t hi k d).2.2.1, (tblElt_spec hf t hi k d).2.1⟩
  | drop k => exact ⟨(tblDrop_spec hf t hi k).2, (tblDrop_spec hf t hi k).1⟩
  | nmap f => exact ⟨(tblNMap_spec hf t hi f).2, (tblNMap_spec hf t hi f).1⟩
  | removeIf p => exact ⟨(tblRemoveIf_spec hf t hi p).2, (tblRemoveIf_spec hf t hi p).1⟩
  | copy => exact ⟨(tblCopy_spec hf t hi).2.1, (tblCopy_spec hf t hi).1⟩

theorem foldl_spec (hf : Nat → Nat) (ops : List Op) (t : Table) (m : Nat → Option Nat)
    (hi : Inv hf t) (ha : abs t = m) :
    Inv hf (ops.foldl (Op.apply hf) t) ∧ abs (ops.foldl (Op.apply hf) t) = ops.foldl Op.spec m := by
  induction ops generalizing t m with
  | nil => exact ⟨hi, ha⟩
  | cons op r ih =>
    simp only [List.foldl_cons]
    obtain ⟨h1, h2⟩ := apply_spec hf t hi op
    exact ih _ _ h1 (by rw [h2, ha])

/-- The invariant holds after every history (induction over the operation list), and the table
    denotes the finite map obtained by running the same history on maps. -/
theorem inv_reachable (hf : Nat → Nat) (ops : List Op) :
    Inv hf (run hf ops) ∧ abs (run hf ops) = specRun ops :=
  foldl_spec hf ops tblNew _ (tblNew_spec hf).1 (tblNew_spec hf).2

/-- **C20 / hash table.**  For every hash function and every history of operations starting
from `tblNew`: the table denotes the finite map produced by the same history; a lookup returns
the last value stored for the key (the default if there is none, or it was dropped since);
iteration visits each entry of that map exactly once; the size is the number of entries. -/
theorem table_refines_map (hf : Nat → Nat) (ops : List Op) :
    abs (run hf ops) = specRun ops ∧
    (∀ k d, (tblElt hf (run hf ops) k d).2 = (specRun ops k).getD d) ∧
    ((tblIter (run hf ops)).map Slot.key).Nodup ∧
    (∀ k e, (k, e) ∈ (tblIter (run hf ops)).map entry ↔ specRun ops k = some e) ∧
    tblSize (run hf ops) = (tblIter (run hf ops)).length := by
  obtain ⟨hi, ha⟩ := inv_reachable hf ops
  obtain ⟨i1, i2, i3⟩ := tblIter_spec hf _ hi
  refine ⟨ha, ?_, i1, ?_, i3⟩
  · intro k d; rw [(tblElt_spec hf _ hi k d).1, ha]
  · intro k e; rw [i2, ha]

/-- the map semantics of a history, spelled out: last store wins, drop removes exactly the key -/
theorem specRun_set_get (ops : List Op) (k e : Nat) :
    specRun (ops ++ [.set k e]) k = some e ∧ ∀ k', k' ≠ k → specRun (ops ++ [.set k e]) k' = specRun ops k' := by
  simp [specRun, List.foldl_append, Op.spec, upd]
  intro k' h; simp [h]

theorem specRun_drop_get (ops : List Op) (k : Nat) :
    specRun (ops ++ [.drop k]) k = none ∧ ∀ k', k' ≠ k → specRun (ops ++ [.drop k]) k' = specRun ops k' := by
  simp [specRun, List.foldl_append, Op.spec, upd]
  intro k' h; simp [h]

/-! non-vacuity: a reachable table with a forced collision (hash `k mod 3`, so keys 1, 4, 7 share
    hash and bucket), move-to-front by a lookup, a drop from the middle of a chain, and growth. -/
example :
    let t := run (· % 3) [.set 1 10, .set 4 40, .set 7 70, .get 1 0, .drop 4, .set 2 20]
    (tblIter t).map entry = [(1, 10), (7, 70), (2, 20)] ∧ tblSize t = 3 ∧ t.buckc = 7 := by
  decide +kernel

example :
    let t := run (· % 1000) ((List.range 36).map (fun i => Op.set i i))
    t.buckc = 13 ∧ tblSize t = 36 ∧ t.chain 0 = [⟨13, 13, 13⟩, ⟨26, 26, 26⟩, ⟨0, 0, 0⟩] := by
  decide +kernel

end AldorVerif.Table
