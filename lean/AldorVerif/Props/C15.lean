import AldorVerif.Lemmas.SrcPos

/-! # C15: diagnostics point at the right file, line and column — theorems about the model of
`srcpos.c` and of the line bookkeeping of `include.c`

Vocabulary (defined in Model/SrcPos.lean and Lemmas/SrcPos.lean):
* `sposSet l c` is the packed word; `sposGlobalLine`, `sposChar` unpack it; `sposOffset p d` is what
  the scanner applies to a line's position to get a token's position (`tokPos`).
* `run (start f) evs` is the includer reading top file `f`; one event per physical line, plus
  `close`.  Its `marks` are the source lines with their packed position; its `table` is
  `gloLineTbl`.  `decoded r` lists (file, line, column) for every source line, decoded with
  `sposFile`/`sposLine`/`sposChar` in the *final* table — what a diagnostic on that line shows.
* `r.stale` is the instrumented run: some `sposNew` call added no table entry although the last
  entry belongs to another numbering (possible only when an included file, or a `#line`
  directive, carries the same file name as the file around it).
* `shifted (some 0) post` tells, for each later source line, whether it is a line of the file
  into which lines were inserted and no `#line` has renumbered that file since. -/
namespace AldorVerif.SrcPos

/-! ## the packed word -/

/-- **pack_roundtrip.** A line number below 2^48 and a column below 2^14 come back unchanged. -/
theorem pack_roundtrip (l c : BitVec 64)
    (hl : l.toNat < 2 ^ SPOS_LNO_NBITS) (hc : c.toNat < 2 ^ SPOS_CNO_NBITS) :
    sposGlobalLine (sposSet l c) = l ∧ sposChar (sposSet l c) = c :=
  ⟨pack_gline l c hl hc, pack_char l c hl hc⟩

example : (70001 : BitVec 64).toNat < 2 ^ SPOS_LNO_NBITS ∧ (16383 : BitVec 64).toNat < 2 ^ SPOS_CNO_NBITS
    ∧ sposSet 70001 16383 = 0x88b8fffe#64 := by decide

/-- **column_carry.** `sposOffset` treats (line, column) as the single number
`line * 2^14 + column` and adds the offset to that number: a column that reaches 2^14 carries
into the line field (and a negative offset borrows from it).  The flag bit is kept. -/
theorem column_carry (l c : BitVec 64) (d : Int)
    (hl : l.toNat < 2 ^ SPOS_LNO_NBITS) (hc : c.toNat < 2 ^ SPOS_CNO_NBITS)
    (h0 : 0 ≤ (l.toNat : Int) * 2 ^ 14 + c.toNat + d) (h1 : (l.toNat : Int) * 2 ^ 14 + c.toNat + d < 2 ^ 62) :
    ((sposGlobalLine (sposOffset (sposSet l c) d)).toNat : Int) = ((l.toNat : Int) * 2 ^ 14 + c.toNat + d) / 2 ^ 14 ∧
    ((sposChar (sposOffset (sposSet l c) d)).toNat : Int) = ((l.toNat : Int) * 2 ^ 14 + c.toNat + d) % 2 ^ 14 := by
  have hl' : l.toNat < 2 ^ 48 := hl
  have hc' : c.toNat < 2 ^ 14 := hc
  rw [sposGlobalLine_toNat, sposChar_toNat, sposOffset_toNat, sposSet_toNat l c hl hc]
  constructor <;> omega

/-- the observation on the real compiler: a token 17020 characters into global line 3 is
reported at line 4, column 637. -/
theorem column_carry_witness :
    sposGlobalLine (tokPos (sposSet 3 1) 17020) = 4 ∧ sposChar (tokPos (sposSet 3 1) 17020) = 637 := by
  decide

/-- `sposSet` itself (used by `sposNew`/`sposGet`) does not mask: column bits from 2^14 up are
OR-ed into the line field. -/
theorem sposSet_unmasked (l c : BitVec 64) :
    sposGlobalLine (sposSet l c) = (l ||| (c >>> 14)) &&& (BitVec.ofNat 64 (2 ^ 48 - 1))
    ∧ sposChar (sposSet l c) = c &&& (BitVec.ofNat 64 (2 ^ 14 - 1)) := sposSet_or l c

/-- full-strength column statement for the quantifier's line lengths (up to 20000 characters):
a token `d` characters into a line keeps the line and gets column `1 + d`. -/
def column_exact_statement : Prop :=
  ∀ (g : BitVec 64) (d : Nat), 0 < g.toNat → g.toNat < 2 ^ 31 → d ≤ 20000 →
    sposGlobalLine (tokPos (sposSet g 1) d) = g ∧ sposChar (tokPos (sposSet g 1) d) = BitVec.ofNat 64 (1 + d)

/-- proved part: as long as the column stays below 2^14. -/
theorem column_exact_partial (g : BitVec 64) (d : Nat) (hg : g.toNat < 2 ^ SPOS_LNO_NBITS)
    (hd : 1 + d < 2 ^ SPOS_CNO_NBITS) :
    sposGlobalLine (tokPos (sposSet g 1) d) = g ∧ sposChar (tokPos (sposSet g 1) d) = BitVec.ofNat 64 (1 + d) := by
  have h1 : (1 : BitVec 64).toNat < 2 ^ 14 := by decide
  have h1' : (1 : BitVec 64).toNat = 1 := by decide
  have hg' : g.toNat < 2 ^ 48 := hg
  have hd' : 1 + d < 2 ^ 14 := hd
  constructor <;> apply BitVec.eq_of_toNat_eq
  · rw [sposGlobalLine_toNat, tokPos, sposOffset_toNat, sposSet_toNat g 1 hg h1, h1']; omega
  · rw [sposChar_toNat, tokPos, sposOffset_toNat, sposSet_toNat g 1 hg h1, h1', BitVec.toNat_ofNat]; omega

example : (3 : BitVec 64).toNat < 2 ^ SPOS_LNO_NBITS ∧ 1 + 16382 < 2 ^ SPOS_CNO_NBITS ∧
    sposChar (tokPos (sposSet 3 1) 16382) = 16383 := by decide

theorem column_exact_statement_refuted : ¬ column_exact_statement := by
  intro h
  have := (h 3 17020 (by decide) (by decide) (by decide)).1
  revert this; decide

/-- `sposCmp` (used to sort the messages) is the lexicographic order on (line, column). -/
theorem sposCmp_lex (l1 c1 l2 c2 : BitVec 64)
    (hl1 : l1.toNat < 2 ^ SPOS_LNO_NBITS) (hc1 : c1.toNat < 2 ^ SPOS_CNO_NBITS)
    (hl2 : l2.toNat < 2 ^ SPOS_LNO_NBITS) (hc2 : c2.toNat < 2 ^ SPOS_CNO_NBITS) :
    sposCmp (sposSet l1 c1) (sposSet l2 c2) =
      if l1.toNat < l2.toNat ∨ (l1.toNat = l2.toNat ∧ c1.toNat < c2.toNat) then -1
      else if l1.toNat = l2.toNat ∧ c1.toNat = c2.toNat then 0 else 1 := by
  have a1 : l1.toNat < 2 ^ 48 := hl1
  have a2 : c1.toNat < 2 ^ 14 := hc1
  have a3 : l2.toNat < 2 ^ 48 := hl2
  have a4 : c2.toNat < 2 ^ 14 := hc2
  unfold sposCmp
  simp only [BitVec.lt_def, GT.gt, BitVec.toNat_ushiftRight, sposSet_toNat l1 c1 hl1 hc1, sposSet_toNat l2 c2 hl2 hc2]
  show (if (l1.toNat * 2 ^ 15 + c1.toNat * 2) >>> 1 < (l2.toNat * 2 ^ 15 + c2.toNat * 2) >>> 1 then (-1 : Int)
        else if (l2.toNat * 2 ^ 15 + c2.toNat * 2) >>> 1 < (l1.toNat * 2 ^ 15 + c1.toNat * 2) >>> 1 then 1 else 0) = _
  split <;> split <;> (try split) <;> (try split) <;> first | rfl | omega

/-! ## the global line table and the includer -/

/-- a token's file and line are those of its line's position whenever its global line is -/
theorem file_line_of_gline (t : Table) (p q : SrcPos) (h : sposGlobalLine p = sposGlobalLine q) :
    sposFile t p = sposFile t q ∧ sposLine t p = sposLine t q := by
  simp [sposFile, sposLine, sposIsSpecial, h]

/-- full-strength statement: every source line's position decodes, in the final table, to the
file name and line number the includer had in `fileState` when it read the line. -/
def incl_decode_statement : Prop :=
  ∀ (f : String) (evs : List Ev), (run (start f) evs).serial < 2 ^ 31 →
    ∀ m ∈ (run (start f) evs).marks,
      sposFile (run (start f) evs).table m.pos = some m.file ∧
      sposLine (run (start f) evs).table m.pos = BitVec.ofInt 64 m.line ∧
      sposChar m.pos = 1

/-- **proved part**: true of every run in which no `sposNew` call was stale, with fewer than
2^31 physical lines in total (`int prevGlno` in `sposNew`). -/
theorem incl_decode_partial (f : String) (evs : List Ev)
    (hst : (run (start f) evs).stale = false) (hb : (run (start f) evs).serial < 2 ^ 31) :
    ∀ m ∈ (run (start f) evs).marks,
      sposFile (run (start f) evs).table m.pos = some m.file ∧
      sposLine (run (start f) evs).table m.pos = BitVec.ofInt 64 m.line ∧
      sposChar m.pos = 1 := incl_decode f evs hst hb

/-- the side condition `stale = false` holds for every single-file program (no `#include` that
opens a file; any number of `#line` directives and inactive `#if` sections). -/
theorem stale_false_flat (f : String) (evs : List Ev) (h : ∀ e ∈ evs, e.flat = true) :
    (run (start f) evs).stale = false := stale_false_flat' f evs h

/-- the full statement is false of the code: `a.as` = `#include "b.as"` / text, `b.as` =
`#line 5 "a.as"` / text.  When the includer is back in `a.as` the last table entry already bears
the name `a.as`, `sposNew` adds none, and line 2 of `a.as` is reported as line 6. -/
theorem incl_decode_statement_refuted : ¬ incl_decode_statement := by
  intro h
  have := h "a.as" [.incl "b.as", .hashLine 5 (some "a.as"), .line, .close, .line] (by decide)
    ⟨sposSet 4 1, "a.as", 2⟩ (by decide)
  revert this; decide +kernel

example : decoded (run (start "a.as") [.incl "b.as", .hashLine 5 (some "a.as"), .line, .close, .line])
    = [(some "a.as", 1, 1), (some "a.as", 5, 1), (some "a.as", 6, 1)] := by decide +kernel

/-- **include_attribution.** Lines of an included file `g` decode to `g` and their own line
numbers 1, 2, … (and the `#include` line itself to the including file) … -/
theorem include_attribution (f : String) (pre post : List Ev) (g : String) (m : Nat)
    (c0 : String) (n0 : Int) (rest : List FState)
    (hopen : (run (start f) pre).stack = ⟨c0, n0⟩ :: rest)
    (hst : (run (start f) (pre ++ (.incl g :: List.replicate m .line ++ post))).stale = false)
    (hb : (run (start f) (pre ++ (.incl g :: List.replicate m .line ++ post))).serial < 2 ^ 31) :
    ((decoded (run (start f) (pre ++ (.incl g :: List.replicate m .line ++ post)))).drop
        (run (start f) pre).marks.length).take (m + 1)
      = ((some c0, BitVec.ofInt 64 (n0 + 1), 1) : Option String × Length × Length) ::
        (List.range m).map (fun (i : Nat) => ((some g, BitVec.ofInt 64 (1 + i), 1) : Option String × Length × Length)) :=
  include_lists f pre post g m c0 n0 rest hopen hst hb

/-- … and after the included file (here: `b` plain lines) ends, the lines of the including file
continue its own numbering under its own name. -/
theorem include_attribution_return (f : String) (pre post : List Ev) (g : String) (b m : Nat)
    (c0 : String) (n0 : Int) (rest : List FState)
    (hopen : (run (start f) pre).stack = ⟨c0, n0⟩ :: rest)
    (hst : (run (start f) (pre ++ (.incl g :: List.replicate b .line ++ (.close :: List.replicate m .line ++ post)))).stale = false)
    (hb : (run (start f) (pre ++ (.incl g :: List.replicate b .line ++ (.close :: List.replicate m .line ++ post)))).serial < 2 ^ 31) :
    ((decoded (run (start f) (pre ++ (.incl g :: List.replicate b .line ++ (.close :: List.replicate m .line ++ post))))).drop
        ((run (start f) pre).marks.length + 1 + b)).take m
      = (List.range m).map (fun (i : Nat) => ((some c0, BitVec.ofInt 64 (n0 + 2 + i), 1) : Option String × Length × Length)) :=
  include_return_lists f pre post g b m c0 n0 rest hopen hst hb

example :
    let evs : List Ev := [.line, .line] ++ (.incl "inc.as" :: List.replicate 3 .line ++ (.close :: List.replicate 2 .line ++ []))
    (run (start "a.as") [.line, .line]).stack = [⟨"a.as", 2⟩] ∧ (run (start "a.as") evs).stale = false ∧
    decoded (run (start "a.as") evs) =
      [(some "a.as", 1, 1), (some "a.as", 2, 1), (some "a.as", 3, 1), (some "inc.as", 1, 1), (some "inc.as", 2, 1),
       (some "inc.as", 3, 1), (some "a.as", 4, 1), (some "a.as", 5, 1)] := by decide +kernel

/-- **hash_line_renumber.** The `m` lines after `#line n` / `#line n "g"` decode to lines
`n, n+1, …` of `g` (of the current file when no name is given). -/
theorem hash_line_renumber (f : String) (pre post : List Ev) (n : Int) (fo : Option String) (m : Nat)
    (c0 : String) (n0 : Int) (rest : List FState)
    (hopen : (run (start f) pre).stack = ⟨c0, n0⟩ :: rest)
    (hst : (run (start f) (pre ++ (.hashLine n fo :: List.replicate m .line ++ post))).stale = false)
    (hb : (run (start f) (pre ++ (.hashLine n fo :: List.replicate m .line ++ post))).serial < 2 ^ 31) :
    ((decoded (run (start f) (pre ++ (.hashLine n fo :: List.replicate m .line ++ post)))).drop
        (run (start f) pre).marks.length).take m
      = (List.range m).map (fun (i : Nat) => ((some (fo.getD c0), BitVec.ofInt 64 (n + i), 1) : Option String × Length × Length)) :=
  hash_line_lists f pre post n fo m c0 n0 rest hopen hst hb

example :
    let evs : List Ev := [.line] ++ (.hashLine 500 (some "f.as") :: List.replicate 2 .line ++ [.hashLine 7 none, .line])
    (run (start "a.as") evs).stale = false ∧
    decoded (run (start "a.as") evs) =
      [(some "a.as", 1, 1), (some "f.as", 500, 1), (some "f.as", 501, 1), (some "f.as", 7, 1)] := by decide +kernel

/-- **blank_insertion_shift.** Insert `k` lines (blank, comment: anything that is an ordinary
source line) at a point where the includer is reading file `c` after its line `n`.  Then the
decoded (file, line, column) list of the new run is: the old list up to the insertion point,
unchanged; the `k` new lines at `c`, lines `n+1 … n+k`; and the old rest in which exactly the
lines that still belong to that file and numbering (`shifted`) have their line number increased
by `k` — file names and columns are untouched, lines of files included later and lines after a
later `#line` keep their numbers.
Side conditions the code needs: fewer than 2^31 physical lines in all, and no stale `sposNew`
(same-name confusion) in either run. -/
theorem blank_insertion_shift (f : String) (pre post : List Ev) (k : Nat) (c : String) (n : Int)
    (rest : List FState)
    (hopen : (run (start f) pre).stack = ⟨c, n⟩ :: rest)
    (hA : (run (start f) (pre ++ post)).stale = false)
    (hAb : (run (start f) (pre ++ post)).serial < 2 ^ 31)
    (hB : (run (start f) (pre ++ List.replicate k .line ++ post)).stale = false)
    (hBb : (run (start f) (pre ++ List.replicate k .line ++ post)).serial < 2 ^ 31) :
    decoded (run (start f) (pre ++ List.replicate k .line ++ post)) =
      (decoded (run (start f) (pre ++ post))).take (run (start f) pre).marks.length
      ++ (List.range k).map (fun (i : Nat) => ((some c, BitVec.ofInt 64 (n + 1 + i), 1) : Option String × Length × Length))
      ++ List.zipWith (bumpD k) (shifted (some 0) post)
           ((decoded (run (start f) (pre ++ post))).drop (run (start f) pre).marks.length) :=
  blank_shift_lists f pre post k c n rest hopen hA hAb hB hBb

example :
    let pre : List Ev := [.line, .incl "inc.as", .line]
    let post : List Ev := [.line, .close, .line, .hashLine 40 none, .line]
    (run (start "a.as") pre).stack = [⟨"inc.as", 1⟩, ⟨"a.as", 2⟩] ∧
    (run (start "a.as") (pre ++ post)).stale = false ∧
    (run (start "a.as") (pre ++ List.replicate 3 .line ++ post)).stale = false ∧
    shifted (some 0) post = [true, false, false] ∧
    decoded (run (start "a.as") (pre ++ post)) =
      [(some "a.as", 1, 1), (some "a.as", 2, 1), (some "inc.as", 1, 1), (some "inc.as", 2, 1), (some "a.as", 3, 1),
       (some "a.as", 40, 1)] ∧
    decoded (run (start "a.as") (pre ++ List.replicate 3 .line ++ post)) =
      [(some "a.as", 1, 1), (some "a.as", 2, 1), (some "inc.as", 1, 1), (some "inc.as", 2, 1), (some "inc.as", 3, 1),
       (some "inc.as", 4, 1), (some "inc.as", 5, 1), (some "a.as", 3, 1), (some "a.as", 40, 1)] := by decide +kernel

/-- a token `d` characters into a source line is reported in that line's file, at that line, in
column `1 + d` — as long as `1 + d < 2^14`. -/
theorem token_decode (f : String) (evs : List Ev) (d : Nat)
    (hst : (run (start f) evs).stale = false) (hb : (run (start f) evs).serial < 2 ^ 31)
    (hd : 1 + d < 2 ^ SPOS_CNO_NBITS) :
    ∀ m ∈ (run (start f) evs).marks,
      sposFile (run (start f) evs).table (tokPos m.pos d) = some m.file ∧
      sposLine (run (start f) evs).table (tokPos m.pos d) = BitVec.ofInt 64 m.line ∧
      sposChar (tokPos m.pos d) = BitVec.ofNat 64 (1 + d) := by
  intro m hm
  obtain ⟨σ, e, a1, a2, a3, -⟩ := (run_inv evs _ (inv_start f) hst hb).marks m hm
  have gn : (BitVec.ofInt 64 σ).toNat = σ.toNat := toNat_ofInt_nonneg _ (by omega) (by omega)
  have hg : (BitVec.ofInt 64 σ).toNat < 2 ^ SPOS_LNO_NBITS := by rw [gn]; show σ.toNat < 2 ^ 48; omega
  obtain ⟨t1, t2⟩ := column_exact_partial (BitVec.ofInt 64 σ) d hg hd
  obtain ⟨d1, d2, _⟩ := incl_decode f evs hst hb m hm
  have hgl : sposGlobalLine (tokPos m.pos d) = sposGlobalLine m.pos := by
    rw [a3, t1, pack_gline _ _ hg (by decide)]
  obtain ⟨e1, e2⟩ := file_line_of_gline (run (start f) evs).table _ _ hgl
  exact ⟨e1.trans d1, e2.trans d2, by rw [a3]; exact t2⟩

/-- full-strength statement for long lines: a token up to 20000 characters into a line of an
included file is still attributed to that file. -/
def include_attribution_carry_statement : Prop :=
  ∀ (f : String) (evs : List Ev) (d : Nat), (run (start f) evs).stale = false →
    (run (start f) evs).serial < 2 ^ 31 → d ≤ 20000 →
    ∀ m ∈ (run (start f) evs).marks,
      sposFile (run (start f) evs).table (tokPos m.pos d) = some m.file

/-- false of the code: on the last line of an included file a token at column ≥ 2^14 carries
into the next global line, which belongs to the including file. -/
theorem include_attribution_carry_statement_refuted : ¬ include_attribution_carry_statement := by
  intro h
  have := h "a.as" [.incl "inc.as", .line, .close, .line] 16383 (by decide +kernel) (by decide) (by decide)
    ⟨sposSet 2 1, "inc.as", 1⟩ (by decide)
  revert this; decide +kernel

end AldorVerif.SrcPos
