import AldorVerif.Lemmas.JPrint
import AldorVerif.Gen.JMap

/-! # C12: the Java expression printer (`javacode.c`) writes expressions that Java reads as intended

`JPrint.print` models `jcBinOpPrint` (parentheses for an operand of lower class precedence, and for
an operand of EQUAL precedence on the side the operator does not associate to); `Gen.JMap.binOps` is
the operator table read from the source; `JPrint.Reads` is Java's own expression grammar with Java's
own levels (`JPrint.jls`, from the JLS).

* `print_parse_roundtrip` — for every tree over a table that orders its operators the way Java does
  (`Consistent`), Java's grammar derives the printed token string with exactly the printed tree.
  (Java's expression grammar is unambiguous, so this is the tree Java reads; the executable side —
  the real printer's text parsed back with Java's rules — is checked by the correspondence of part
  `jprint`.)
* The compiler's table is NOT consistent: `&`, `|`, `^` share class precedence 7 and `&&`, `||`
  share 4, while Java ranks `&` > `^` > `|` and `&&` > `||`.  `table_consistent_statement_refuted`;
  `bitwise_misread_witness`: `(a ^ b) & c` is printed `a ^ b & c`, which Java reads `a ^ (b & c)`.
* `print_parse_roundtrip_partial` — the round trip for all trees that use at most one operator of
  each of the two groups {`&`, `|`, `^`} and {`&&`, `||`} … stated for the table without `|`, `^`, `||`.
-/
namespace AldorVerif.C12
open AldorVerif AldorVerif.JPrint AldorVerif.Gen

/-- the three C functions have exactly the text that `JPrint.print` models (checked by the translator) -/
theorem printer_rule_is_standard : JMap.printerRuleStandard = true := by decide

/-- **round trip.**  Over a consistent operator table the printed form of a tree is derived by Java's
grammar, from the start symbol, with that very tree. -/
theorem print_parse_roundtrip (ops : List Op) (h : Consistent ops) (t : Tree) (ht : t.Over ops) :
    Reads 0 (print t) t :=
  Reads.mono (print_reads_lvl h t ht) (Nat.zero_le _)

/-- full-strength statement about the compiler's own table -/
def table_consistent_statement : Prop := Consistent JMap.binOps
theorem table_consistent_statement_refuted : ¬ table_consistent_statement := by
  unfold table_consistent_statement Consistent; decide

def opAnd : Op := ⟨"And", "&", 7, true⟩
def opXOr : Op := ⟨"XOr", "^", 7, true⟩
example : opAnd ∈ JMap.binOps ∧ opXOr ∈ JMap.binOps := by decide

/-- the witness: `(a ^ b) & c` is printed without parentheses and Java reads `a ^ (b & c)` -/
theorem bitwise_misread_witness :
    print (.bin opAnd (.bin opXOr (.leaf "a") (.leaf "b")) (.leaf "c"))
      = [Tok.id "a", Tok.op "^", Tok.id "b", Tok.op "&", Tok.id "c"] ∧
    Reads 0 [Tok.id "a", Tok.op "^", Tok.id "b", Tok.op "&", Tok.id "c"]
      (.bin opXOr (.leaf "a") (.bin opAnd (.leaf "b") (.leaf "c"))) := by
  refine ⟨by decide, ?_⟩
  apply Reads.mono (k := 6) _ (Nat.zero_le _)
  have hr : Reads 7 ([Tok.id "b"] ++ [Tok.op opAnd.txt] ++ [Tok.id "c"])
      (.bin opAnd (.leaf "b") (.leaf "c")) :=
    Reads.bin opAnd 7 _ _ _ _ (by decide) (Reads.leaf _ _) (Reads.leaf _ _)
  exact Reads.bin opXOr 6 [Tok.id "a"] _ (.leaf "a") _ (by decide) (Reads.leaf _ _) hr

/-- the table without the lower-ranked members of the two groups that share a class precedence -/
def coreOps : List Op := JMap.binOps.filter fun o => !(o.txt == "|" || o.txt == "^" || o.txt == "||")

theorem core_consistent : Consistent coreOps := by unfold Consistent; decide

/-- **round trip, proved part**: every tree over the arithmetic, shift, comparison, equality operators,
`&` and `&&` is read back by Java as printed. -/
theorem print_parse_roundtrip_partial (t : Tree) (ht : t.Over coreOps) : Reads 0 (print t) t :=
  print_parse_roundtrip coreOps core_consistent t ht

/-- non-vacuity: `k * (a / b)` and `x - (10 - y)` keep their parentheses -/
example : (print (.bin ⟨"Times", "*", 12, true⟩ (.leaf "k") (.bin ⟨"Divide", "/", 12, true⟩ (.leaf "a") (.leaf "b")))).map showTok
    = ["k", "*", "(", "a", "/", "b", ")"] := by decide
example : Tree.Over coreOps (.bin ⟨"Minus", "-", 11, true⟩ (.leaf "x") (.bin ⟨"Minus", "-", 11, true⟩ (.leaf "10") (.leaf "y"))) :=
  ⟨by decide, trivial, by decide, trivial, trivial⟩

end AldorVerif.C12
