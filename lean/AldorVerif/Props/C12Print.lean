import AldorVerif.Lemmas.JPrint
import AldorVerif.Gen.JMap

/-! # C12: the Java expression printer (`javacode.c`) writes expressions that Java reads as intended

`JPrint.print` models `jcBinOpPrint` (parentheses for an operand of lower class precedence, and for
an operand of EQUAL precedence on the side the operator does not associate to); `Gen.JMap.binOps` is
the operator table read from the source; `JPrint.Reads` is Java's own expression grammar with Java's
own levels (`JPrint.jls`, from the JLS — not from the compiler's table).

* `print_parse_roundtrip` — for every tree over a table that orders its operators the way Java does
  (`Consistent`), Java's grammar derives the printed token string with exactly the printed tree.
  (Java's expression grammar is unambiguous, so this is the tree Java reads; the executable side —
  the real printer's text parsed back with Java's rules — is checked by the correspondence of part
  `jprint`.)
* `table_consistent` — the compiler's table IS consistent with Java's ranking (since the fix that gave
  `&` 7, `^` 6, `|` 5, `&&` 4, `||` 3), hence `print_parse_roundtrip_table`: the round trip for every
  tree over the table's binary operators, no exclusion.
* `equal_level_table_misreads` — why the ranking matters: with `&` and `^` on one level (the table before
  the fix) `(a ^ b) & c` is printed `a ^ b & c`, which Java reads `a ^ (b & c)`.
-/
namespace AldorVerif.C12
open AldorVerif AldorVerif.JPrint AldorVerif.Gen

/-- the three C functions have exactly the text that `JPrint.print` models (checked by the translator) -/
theorem printer_rule_is_standard : JMap.printerRuleStandard = true := by decide

/-- **round trip.**  Over a consistent operator table the printed form of a tree is derived by Java's
grammar, from the start symbol, with that very tree. -/
theorem print_parse_roundtrip (ops : List Op) (h : Consistent ops) (t : Tree) (ht : t.Over ops) :
    Reads 0 (print t) t :=
  Reads.mono (print_reads_lvl h t ht) (Nat.zero_le _)

/-- the compiler's own table orders its operators the way Java does -/
theorem table_consistent : Consistent JMap.binOps := by unfold Consistent; decide

/-- **round trip for the compiler's table**: every tree over the binary operators of `JcOpInfoTable` is
read back by Java as printed. -/
theorem print_parse_roundtrip_table (t : Tree) (ht : t.Over JMap.binOps) : Reads 0 (print t) t :=
  print_parse_roundtrip JMap.binOps table_consistent t ht

/-- a table that puts `&` and `^` on one level (as the class table did before the fix) -/
def eqAnd : Op := ⟨"And", "&", 7, true⟩
def eqXOr : Op := ⟨"XOr", "^", 7, true⟩
example : ¬ Consistent [eqAnd, eqXOr] := by unfold Consistent; decide

/-- … prints `(a ^ b) & c` without parentheses, and Java reads `a ^ (b & c)` -/
theorem equal_level_table_misreads :
    print (.bin eqAnd (.bin eqXOr (.leaf "a") (.leaf "b")) (.leaf "c"))
      = [Tok.id "a", Tok.op "^", Tok.id "b", Tok.op "&", Tok.id "c"] ∧
    Reads 0 [Tok.id "a", Tok.op "^", Tok.id "b", Tok.op "&", Tok.id "c"]
      (.bin eqXOr (.leaf "a") (.bin eqAnd (.leaf "b") (.leaf "c"))) := by
  refine ⟨by decide, ?_⟩
  apply Reads.mono (k := 6) _ (Nat.zero_le _)
  have hr : Reads 7 ([Tok.id "b"] ++ [Tok.op eqAnd.txt] ++ [Tok.id "c"])
      (.bin eqAnd (.leaf "b") (.leaf "c")) :=
    Reads.bin eqAnd 7 _ _ _ _ (by decide) (Reads.leaf _ _) (Reads.leaf _ _)
  exact Reads.bin eqXOr 6 [Tok.id "a"] _ (.leaf "a") _ (by decide) (Reads.leaf _ _) hr

/-- with the table as it is now the same tree keeps its parentheses -/
example : (print (.bin ⟨"And", "&", 7, true⟩ (.bin ⟨"XOr", "^", 6, true⟩ (.leaf "a") (.leaf "b")) (.leaf "c"))).map showTok
    = ["(", "a", "^", "b", ")", "&", "c"] := by decide

/-- non-vacuity: `k * (a / b)` and `x - (10 - y)` keep their parentheses -/
example : (print (.bin ⟨"Times", "*", 12, true⟩ (.leaf "k") (.bin ⟨"Divide", "/", 12, true⟩ (.leaf "a") (.leaf "b")))).map showTok
    = ["k", "*", "(", "a", "/", "b", ")"] := by decide
example : Tree.Over JMap.binOps (.bin ⟨"Minus", "-", 11, true⟩ (.leaf "x") (.bin ⟨"Minus", "-", 11, true⟩ (.leaf "10") (.leaf "y"))) :=
  ⟨by decide, trivial, by decide, trivial, trivial⟩

end AldorVerif.C12
