import AldorVerif.Lemmas.MiniTy
import AldorVerif.Model.EmitGate

/-! # C06: ill-typed programs are rejected, well-typed ones accepted

The universal claim of C06 is about the real type checker (tinfer.c, ti_bup.c, ti_tdn.c, tfsat.c,
scobind.c, abcheck.c), which is not modelled.  The Lean content is

* a typed core language (Model/MiniTy.lean) in which the check's templates are written:
  `checker_sound_complete` — the executable `typecheck` accepts exactly the programs of the
  declarative judgement `ProgWT`;
* `mutant_ill_typed` — for EVERY catalogue kind: planting fault `k` at an eligible site `s` of a
  well-typed program yields a program that `typecheck` rejects, with the error kind of `k`,
  AT `s`.  So "the mutant must be rejected, at this position" is a theorem about the language,
  not an assumption of the harness (`mutant_not_well_typed`: it is outside `ProgWT`);
* `no_outputs_after_error` — in the decision model of `compIsMoreAfterSyntax` /
  `compSourceFile` / `emitDoneOptions` (Model/EmitGate.lean) a back-end output is written iff it
  was requested and the error count at the end of the front end is zero.

The tie to the compiler is end to end (checks/parts/typing.py): every generated program and
every eligible mutant is rendered by `Prog.render` and compiled by the real compiler. -/

namespace AldorVerif.MiniTy

/-- **the checker is sound and complete for the declarative judgement** -/
theorem checker_sound_complete (p : Prog) : typecheck p = .ok () ↔ ProgWT p := by
  unfold typecheck ProgWT
  rw [checkList_ok_iff, forall_mem_iff_getElem]
  constructor
  · intro h j hj
    exact (checkDecl_ok_iff _ _ _).1 (h j hj)
  · intro h j hj
    exact (checkDecl_ok_iff _ _ _).2 (h j hj)

/-- **every mutant of the catalogue is ill typed, with the expected kind, at the planted site** -/
theorem mutant_ill_typed (k : Kind) (s : Site) (p p' : Prog)
    (hok : typecheck p = .ok ()) (hm : mutate k s p = some p') :
    ∃ e, typecheck p' = .error e ∧ e.kind = expectedKind k ∧ e.site = s := by
  have hall := (checkList_ok_iff _ p 0).1 hok
  have stmtCase : ∀ (i : Nat) (r : Site), s = i :: r →
      modNth p i (fun d => d.modStmt (mutStmt k) (globalEnv p) r) = some p' →
      ∃ e, typecheck p' = .error e ∧ e.kind = expectedKind k ∧ e.site = s := by
    intro i r hs h
    obtain ⟨hi, d', hd, rfl⟩ := modNth_eq_some h
    have hdi := hall i hi
    simp only [Nat.zero_add] at hdi
    obtain ⟨herr, henv⟩ := Decl.modStmt_error k (globalEnv p) i r p[i] d' hdi hd
    exact ⟨_, typecheck_set_error p i d' _ hi hok henv herr, rfl, hs.symm⟩
  cases k with
  | missingExport di =>
    cases s with
    | nil => simp [mutate] at hm
    | cons i r =>
      cases r with
      | cons j r => simp [mutate] at hm
      | nil =>
        simp only [mutate] at hm
        obtain ⟨hi, d', hd, rfl⟩ := modNth_eq_some hm
        have hdi := hall i hi
        simp only [Nat.zero_add] at hdi
        obtain ⟨herr, henv⟩ := Decl.dropDef_error (globalEnv p) i _ p[i] d' hdi hd
        exact ⟨_, typecheck_set_error p i d' _ hi hok henv herr, rfl, rfl⟩
  | wrongArgType a t =>
    cases s with
    | nil => simp [mutate] at hm
    | cons i r => exact stmtCase i r rfl (by simpa [mutate] using hm)
  | wrongArgCount more =>
    cases s with
    | nil => simp [mutate] at hm
    | cons i r => exact stmtCase i r rfl (by simpa [mutate] using hm)
  | undefinedName y =>
    cases s with
    | nil => simp [mutate] at hm
    | cons i r => exact stmtCase i r rfl (by simpa [mutate] using hm)
  | ambiguous =>
    cases s with
    | nil => simp [mutate] at hm
    | cons i r => exact stmtCase i r rfl (by simpa [mutate] using hm)
  | assignConst c =>
    cases s with
    | nil => simp [mutate] at hm
    | cons i r => exact stmtCase i r rfl (by simpa [mutate] using hm)
  | wrongReturnType t =>
    cases s with
    | nil => simp [mutate] at hm
    | cons i r => exact stmtCase i r rfl (by simpa [mutate] using hm)
  | paramLacksOp y =>
    cases s with
    | nil => simp [mutate] at hm
    | cons i r => exact stmtCase i r rfl (by simpa [mutate] using hm)
  | unknownKeyword y =>
    cases s with
    | nil => simp [mutate] at hm
    | cons i r => exact stmtCase i r rfl (by simpa [mutate] using hm)
  | tooManyPositional =>
    cases s with
    | nil => simp [mutate] at hm
    | cons i r => exact stmtCase i r rfl (by simpa [mutate] using hm)
  | keywordDupPositional =>
    cases s with
    | nil => simp [mutate] at hm
    | cons i r => exact stmtCase i r rfl (by simpa [mutate] using hm)
  | omitRequired =>
    cases s with
    | nil => simp [mutate] at hm
    | cons i r => exact stmtCase i r rfl (by simpa [mutate] using hm)

/-- a mutant is outside the declarative judgement -/
theorem mutant_not_well_typed (k : Kind) (s : Site) (p p' : Prog)
    (hok : ProgWT p) (hm : mutate k s p = some p') : ¬ ProgWT p' := by
  intro h
  obtain ⟨e, he, _⟩ := mutant_ill_typed k s p p' ((checker_sound_complete p).2 hok) hm
  rw [(checker_sound_complete p').2 h] at he
  cases he

/-! ### one statement per catalogue kind (what the harness relies on, kind by kind) -/

theorem mutant_ill_typed_wrongArgType (a : Nat) (t : BTy) (s : Site) (p p' : Prog)
    (hok : typecheck p = .ok ()) (hm : mutate (.wrongArgType a t) s p = some p') :
    typecheck p' = .error ⟨.wrongArgType, s⟩ := by
  obtain ⟨⟨k, s'⟩, h, hk, hs⟩ := mutant_ill_typed _ s p p' hok hm
  simp only [expectedKind] at hk hs; rw [h, hk, hs]

theorem mutant_ill_typed_wrongArgCount (more : Bool) (s : Site) (p p' : Prog)
    (hok : typecheck p = .ok ()) (hm : mutate (.wrongArgCount more) s p = some p') :
    typecheck p' = .error ⟨.wrongArgCount, s⟩ := by
  obtain ⟨⟨k, s'⟩, h, hk, hs⟩ := mutant_ill_typed _ s p p' hok hm
  simp only [expectedKind] at hk hs; rw [h, hk, hs]

theorem mutant_ill_typed_undefinedName (y : String) (s : Site) (p p' : Prog)
    (hok : typecheck p = .ok ()) (hm : mutate (.undefinedName y) s p = some p') :
    typecheck p' = .error ⟨.undefinedName, s⟩ := by
  obtain ⟨⟨k, s'⟩, h, hk, hs⟩ := mutant_ill_typed _ s p p' hok hm
  simp only [expectedKind] at hk hs; rw [h, hk, hs]

theorem mutant_ill_typed_ambiguous (s : Site) (p p' : Prog)
    (hok : typecheck p = .ok ()) (hm : mutate .ambiguous s p = some p') :
    typecheck p' = .error ⟨.ambiguous, s⟩ := by
  obtain ⟨⟨k, s'⟩, h, hk, hs⟩ := mutant_ill_typed _ s p p' hok hm
  simp only [expectedKind] at hk hs; rw [h, hk, hs]

theorem mutant_ill_typed_assignConst (c : String) (s : Site) (p p' : Prog)
    (hok : typecheck p = .ok ()) (hm : mutate (.assignConst c) s p = some p') :
    typecheck p' = .error ⟨.assignConst, s⟩ := by
  obtain ⟨⟨k, s'⟩, h, hk, hs⟩ := mutant_ill_typed _ s p p' hok hm
  simp only [expectedKind] at hk hs; rw [h, hk, hs]

theorem mutant_ill_typed_wrongReturnType (t : BTy) (s : Site) (p p' : Prog)
    (hok : typecheck p = .ok ()) (hm : mutate (.wrongReturnType t) s p = some p') :
    typecheck p' = .error ⟨.wrongReturnType, s⟩ := by
  obtain ⟨⟨k, s'⟩, h, hk, hs⟩ := mutant_ill_typed _ s p p' hok hm
  simp only [expectedKind] at hk hs; rw [h, hk, hs]

theorem mutant_ill_typed_missingExport (d : Nat) (s : Site) (p p' : Prog)
    (hok : typecheck p = .ok ()) (hm : mutate (.missingExport d) s p = some p') :
    typecheck p' = .error ⟨.missingExport, s⟩ := by
  obtain ⟨⟨k, s'⟩, h, hk, hs⟩ := mutant_ill_typed _ s p p' hok hm
  simp only [expectedKind] at hk hs; rw [h, hk, hs]

theorem mutant_ill_typed_paramLacksOp (g : String) (s : Site) (p p' : Prog)
    (hok : typecheck p = .ok ()) (hm : mutate (.paramLacksOp g) s p = some p') :
    typecheck p' = .error ⟨.paramLacksOp, s⟩ := by
  obtain ⟨⟨k, s'⟩, h, hk, hs⟩ := mutant_ill_typed _ s p p' hok hm
  simp only [expectedKind] at hk hs; rw [h, hk, hs]

/-- (a) a keyword argument whose name is not a parameter of the callee -/
theorem mutant_ill_typed_unknownKeyword (y : String) (s : Site) (p p' : Prog)
    (hok : typecheck p = .ok ()) (hm : mutate (.unknownKeyword y) s p = some p') :
    typecheck p' = .error ⟨.unknownKeyword, s⟩ := by
  obtain ⟨⟨k, s'⟩, h, hk, hs⟩ := mutant_ill_typed _ s p p' hok hm
  simp only [expectedKind] at hk hs; rw [h, hk, hs]

/-- (b) too many positional arguments for a callee with default-valued parameters -/
theorem mutant_ill_typed_tooManyPositional (s : Site) (p p' : Prog)
    (hok : typecheck p = .ok ()) (hm : mutate .tooManyPositional s p = some p') :
    typecheck p' = .error ⟨.wrongArgCount, s⟩ := by
  obtain ⟨⟨k, s'⟩, h, hk, hs⟩ := mutant_ill_typed _ s p p' hok hm
  simp only [expectedKind] at hk hs; rw [h, hk, hs]

/-- (c) a keyword argument duplicating a positional one -/
theorem mutant_ill_typed_keywordDupPositional (s : Site) (p p' : Prog)
    (hok : typecheck p = .ok ()) (hm : mutate .keywordDupPositional s p = some p') :
    typecheck p' = .error ⟨.duplicateArg, s⟩ := by
  obtain ⟨⟨k, s'⟩, h, hk, hs⟩ := mutant_ill_typed _ s p p' hok hm
  simp only [expectedKind] at hk hs; rw [h, hk, hs]

/-- (d) a parameter without default left out while later ones have defaults -/
theorem mutant_ill_typed_omitRequired (s : Site) (p p' : Prog)
    (hok : typecheck p = .ok ()) (hm : mutate .omitRequired s p = some p') :
    typecheck p' = .error ⟨.wrongArgCount, s⟩ := by
  obtain ⟨⟨k, s'⟩, h, hk, hs⟩ := mutant_ill_typed _ s p p' hok hm
  simp only [expectedKind] at hk hs; rw [h, hk, hs]

/-! ### non-vacuity: a program meeting the hypotheses, with an eligible site of every kind -/

instance : DecidableEq (Except TypeErr Unit) := fun a b =>
  match a, b with
  | .ok (), .ok () => isTrue rfl
  | .error e, .error e' =>
    if h : e = e' then isTrue (by rw [h]) else isFalse (by intro h'; cases h'; exact h rfl)
  | .ok _, .error _ => isFalse (by intro h; cases h)
  | .error _, .ok _ => isFalse (by intro h; cases h)

/-- ```
C0: Category == with { f: (x: MachineInteger) -> MachineInteger; b: (MachineInteger) -> Boolean; }
C1: Category == with { f: (x: MachineInteger) -> MachineInteger; }
D0: C0 == add { f(a) == { return a; }  b(a) == (true@Boolean) }
D1: C1 == add { f(a) == { return f(a)$D0; } }
F0(T: C1): C1 == add { f(a) == { return f(a)$T; } }
import from D0; import from D1;
k: MachineInteger == (3@MachineInteger);
v: MachineInteger := f(k)$D0;
v := k;
area(w: MachineInteger, h: MachineInteger == (1@MachineInteger)): MachineInteger == {
    local c: Boolean := b(w); c => h; w }
v := area(k, h == v);
v := area(k);
``` -/
def ex0 : Prog := [
  .cat "C0" [⟨"f", [⟨"x", .mint, none⟩], .mint, false⟩, ⟨"b", [⟨"y", .mint, none⟩], .bool, true⟩],
  .cat "C1" [⟨"f", [⟨"x", .mint, none⟩], .mint, false⟩],
  .dom "D0" "C0" [⟨"f", [⟨"a", .mint, none⟩], .mint, [.ret (.var "a")], false⟩,
                  ⟨"b", [⟨"a", .mint, none⟩], .bool, [.value (.lit .bool 0)], true⟩],
  .dom "D1" "C1" [⟨"f", [⟨"a", .mint, none⟩], .mint, [.ret (.app "f" (some "D0") [.var "a"] [])], false⟩],
  .functor "F0" "T" "C1" "C1"
    [⟨"f", [⟨"a", .mint, none⟩], .mint, [.ret (.app "f" (some "T") [.var "a"] [])], false⟩],
  .imp "D0", .imp "D1",
  .stmt (.defConst "k" .mint (.lit .mint 3)),
  .stmt (.defVar "v" .mint (.app "f" (some "D0") [.var "k"] [])),
  .stmt (.assign "v" (.var "k")),
  .func ⟨"area", [⟨"w", .mint, none⟩, ⟨"h", .mint, some 1⟩], .mint,
         [.defVar "c" .bool (.app "b" none [.var "w"] []), .exit "c" (.var "h"), .value (.var "w")], false⟩,
  .stmt (.assign "v" (.app "area" none [.var "k", .var "v"] ["h"])),
  .stmt (.assign "v" (.app "area" none [.var "k"] []))]

example : typecheck ex0 = .ok () := by decide +kernel
example : ProgWT ex0 := (checker_sound_complete ex0).1 (by decide +kernel)
example : (mutate (.wrongArgType 0 .str) [8, 0] ex0).map typecheck = some (.error ⟨.wrongArgType, [8, 0]⟩) := by
  decide +kernel
example : (mutate (.wrongArgCount true) [8, 0] ex0).map typecheck = some (.error ⟨.wrongArgCount, [8, 0]⟩) := by
  decide +kernel
example : (mutate (.wrongArgCount false) [3, 0, 0, 0] ex0).map typecheck =
    some (.error ⟨.wrongArgCount, [3, 0, 0, 0]⟩) := by decide +kernel
example : (mutate (.undefinedName "zz") [8, 0, 0] ex0).map typecheck = some (.error ⟨.undefinedName, [8, 0, 0]⟩) := by
  decide +kernel
example : (mutate (.undefinedName "zz") [8, 0] ex0).map typecheck = some (.error ⟨.undefinedName, [8, 0]⟩) := by
  decide +kernel
example : (mutate .ambiguous [8, 0] ex0).map typecheck = some (.error ⟨.ambiguous, [8, 0]⟩) := by
  decide +kernel
example : (mutate (.assignConst "k") [9] ex0).map typecheck = some (.error ⟨.assignConst, [9]⟩) := by
  decide +kernel
example : (mutate (.wrongReturnType .str) [2, 0, 0] ex0).map typecheck =
    some (.error ⟨.wrongReturnType, [2, 0, 0]⟩) := by decide +kernel
/-- value positions: bare-expression body, value of `c => v`, last expression of the `{…}` body -/
example : (mutate (.wrongReturnType .str) [2, 1, 0] ex0).map typecheck =
    some (.error ⟨.wrongReturnType, [2, 1, 0]⟩) := by decide +kernel
example : (mutate (.wrongReturnType .str) [10, 1] ex0).map typecheck =
    some (.error ⟨.wrongReturnType, [10, 1]⟩) := by decide +kernel
example : (mutate (.wrongReturnType .bool) [10, 2] ex0).map typecheck =
    some (.error ⟨.wrongReturnType, [10, 2]⟩) := by decide +kernel
/-- (a) with defaults (`area(k, zz == v)`), without (`f(zz == k)$D0`), and for the anonymous
signature `b: (MachineInteger) -> Boolean` (`b(zz == w)`, which the compiler ACCEPTS: recorded finding) -/
example : (mutate (.unknownKeyword "zz") [11, 0] ex0).map typecheck =
    some (.error ⟨.unknownKeyword, [11, 0]⟩) := by decide +kernel
example : (mutate (.unknownKeyword "zz") [8, 0] ex0).map typecheck =
    some (.error ⟨.unknownKeyword, [8, 0]⟩) := by decide +kernel
example : (mutate (.unknownKeyword "zz") [10, 0, 0] ex0).map typecheck =
    some (.error ⟨.unknownKeyword, [10, 0, 0]⟩) := by decide +kernel
/-- (b) `area(k, 0, 0)` -/
example : (mutate .tooManyPositional [12, 0] ex0).map typecheck =
    some (.error ⟨.wrongArgCount, [12, 0]⟩) := by decide +kernel
/-- (c) `area(k, h == v, w == 0)` -/
example : (mutate .keywordDupPositional [11, 0] ex0).map typecheck =
    some (.error ⟨.duplicateArg, [11, 0]⟩) := by decide +kernel
/-- (d) `area(h == v)` and `area()` -/
example : (mutate .omitRequired [11, 0] ex0).map typecheck =
    some (.error ⟨.wrongArgCount, [11, 0]⟩) := by decide +kernel
example : (mutate .omitRequired [12, 0] ex0).map typecheck =
    some (.error ⟨.wrongArgCount, [12, 0]⟩) := by decide +kernel
/-- a keyword may not be a value name of the calling scope: inside `area` the keyword `h` clashes -/
example : typecheck [.func ⟨"area", [⟨"w", .mint, none⟩, ⟨"h", .mint, some 1⟩], .mint,
    [.ret (.app "area" none [.var "w", .var "h"] ["h"])], false⟩] = .error ⟨.keywordClash, [0, 0, 0]⟩ := by
  decide +kernel
example : (mutate (.missingExport 1) [2] ex0).map typecheck = some (.error ⟨.missingExport, [2]⟩) := by
  decide +kernel
example : (mutate (.paramLacksOp "b") [4, 0, 0, 0] ex0).map typecheck =
    some (.error ⟨.paramLacksOp, [4, 0, 0, 0]⟩) := by decide +kernel
/-- eligibility is a real restriction: dropping `$D0` inside `D1`, whose own `f` hides the
imported ones, is not offered (the compiler accepts that program) -/
example : mutate .ambiguous [3, 0, 0, 0] ex0 = none := by decide +kernel
/-- `b` is exported by `D0` only: an unqualified call is unambiguous, nothing to plant -/
example : (meanings { g := globalEnv ex0 } "b" none).length = 1 := by decide +kernel

end AldorVerif.MiniTy

namespace AldorVerif.EmitGate

/-- **no back-end output after an error**: when `comsgErrorCount() ≠ 0` at the end of the front
end, `compSourceFile` writes none of `.asy .ao .fm .lsp .java .c .o`, whatever was requested. -/
theorem no_outputs_after_error (errs : Nat) (o : Opts) (ft : FType) (h : errs ≠ 0) :
    emitted errs o ft = false := by
  simp [emitted, moreAfterSyntax, h]

/-- outputs are produced iff they were requested and the error count is zero -/
theorem outputs_iff_no_error (errs : Nat) (o : Opts) (ft : FType) (hb : ft ∈ backEnd) :
    emitted errs o ft = true ↔ errs = 0 ∧ need o ft = true := by
  by_cases h : errs = 0
  · subst h
    have hbc : backEnd.contains ft = true := by simpa using hb
    simp only [emitted, hbc, moreAfterSyntax, Bool.true_and, true_and]
    constructor
    · intro hh
      simp only [Bool.and_eq_true] at hh
      exact hh.2
    · intro hn
      simp only [backEnd, List.mem_cons, List.not_mem_nil, or_false] at hb
      rcases hb with rfl | rfl | rfl | rfl | rfl | rfl | rfl
      all_goals (simp only [need] at hn ⊢; grind)
  · simp [no_outputs_after_error errs o ft h, h]

/-- the link / run stage of `compFilesLoop` is skipped after any error -/
theorem no_link_after_error (tot files : Nat) (o : Opts) (h : tot ≠ 0) : linked tot files o = false := by
  simp [linked, linkStage, h]

/-- `emitCleanup` (run on `EXIT_FAILURE`) removes every needed output that was still being
written, and never leaves a needed, existing file both un-renamed and un-removed -/
theorem cleanup_removes_partial (keep : Bool) :
    cleanup true true true true keep = .remove ∧
    (∀ inUse, cleanup true true inUse true keep ≠ .leave) := by
  refine ⟨by simp [cleanup], ?_⟩
  intro inUse
  cases inUse <;> cases keep <;> simp [cleanup]

example : emitted 0 { emitDo := fun ft => ft = .intermed ∨ ft = .c ∨ ft = .foamexpr } .c = true := by
  decide
example : emitted 1 { emitDo := fun ft => ft = .intermed ∨ ft = .c ∨ ft = .foamexpr } .c = false := by
  decide
/-- no `-F` at all means `-Fao` -/
example : emitted 0 { emitDo := fun _ => false } .intermed = true := by decide

end AldorVerif.EmitGate
