import AldorVerif.Model.ExitClass

/-! # C03 — interpreter and native executable agree: the exit model

What is proved here is the *classification of endings* (`Model/ExitClass.lean`) over the table
regenerated from the sources (`Gen/HaltCodes.lean`, `translate/haltcodes.py`).

**Partial by construction.** The 6 500-line evaluator loop of `fint.c` (`fintStmt`, `fintEval_`)
and the 7 000-line C emitter `genc.c` are NOT modelled; "same standard output for every program"
is therefore explored by the end-to-end search `checks/parts/routesearch.py`, not proved.
Agreement of the two routes on each *builtin operation* is property C04's pair of theorems
`fint_X_spec` / `cmap_X_spec` (both implementations equal the same specification, hence each
other: the corollary `fint_eq_cmap`, which lives with them — see the note at the end of this file).

History the theorems keep in conditional form.  The sources this model was first read from had two
defects, both repaired since (`fix:` commits in /repo), both found by replaying a witness of a
refuted statement on the real binaries:
* `foam_c.c:fiHalt` had an arm `case -1: break;` → `halt(-1)` *continued* in the executable and
  failed in the interpreter.  `silent_arm_breaks_agreement` states, for ANY table with such an arm,
  that the success/failure classes differ; `exit_class_agree` needs `no_silent_halt`.
* `fint.c` printed the call stack of a halt on stdout.  `trace_on_stdout_breaks_agreement` states,
  for ANY table with the trace on stdout, that every halt's standard output differs between the
  routes; `halt_stdout_agree` needs the regenerated stream to be stderr.
If either defect comes back the regenerated table no longer satisfies the `decide`d hypotheses and
the theorems below stop elaborating, while `checks/parts/exitclass.py` replays the witness.

Still false of the code (recorded as a known finding, `routes|exit|fault|…`): the standard output
of a run ended by a hardware fault — `stdout_agree_statement_refuted`, `fault_stdout_differs`. -/
namespace AldorVerif.ExitClass
open AldorVerif.Gen.HaltCodes (Stream)

/-! ## the halt-code table -/

/-- the `FOAM_Halt_*` values are pairwise distinct, and so are their names -/
theorem halt_codes_distinct :
    (gen.haltEnum.map (·.2)).Nodup ∧ (gen.haltEnum.map (·.1)).Nodup := by decide

/-- `fiHalt`'s numeric `case` labels are exactly the enum values, in order ("These numbers must be
the same as the foamHaltCode enum"), the interpreter's labels are exactly the enumerators, and the
two message columns (and the two default messages) are identical -/
theorem halt_tables_agree :
    gen.cHaltCases.map (·.1) = gen.haltEnum.map (·.2) ∧
    gen.fintHaltCases.map (·.1) = gen.haltEnum.map (·.1) ∧
    gen.cHaltCases.map (·.2) = gen.fintHaltCases.map (·.2) ∧
    gen.cHaltDefault = gen.fintHaltDefault := by decide

/-- the message identifies the code: no two arms (default included) share a message -/
theorem halt_messages_distinct :
    (gen.cHaltDefault :: gen.cHaltCases.map (·.2)).Nodup ∧
    (gen.fintHaltDefault :: gen.fintHaltCases.map (·.2)).Nodup := by decide

/-- `fiHalt` has no arm that returns to its caller -/
theorem no_silent_halt : gen.cHaltSilent = [] := by decide

/-- the halt operand enters both switches as `(int)c`; the functions below factor through it -/
def fintMsgI (t : Table) (v : Int) : String :=
  match enumName t v with
  | some n => (lookup n t.fintHaltCases).getD t.fintHaltDefault
  | none => t.fintHaltDefault

def cMsgI (t : Table) (v : Int) : Option String :=
  if t.cHaltSilent.contains v then none else some ((lookup v t.cHaltCases).getD t.cHaltDefault)

theorem fintHaltMsg_eq (t : Table) (c : BitVec 64) : fintHaltMsg t c = fintMsgI t (int32 c) := rfl
theorem cHaltMsg_eq (t : Table) (c : BitVec 64) : cHaltMsg t c = cMsgI t (int32 c) := rfl

theorem lookup_none {α β} [DecidableEq α] (k : α) (l : List (α × β)) (h : k ∉ l.map (·.1)) :
    lookup k l = none := by
  induction l with
  | nil => rfl
  | cons p r ih =>
    obtain ⟨a, b⟩ := p
    simp only [List.map_cons, List.mem_cons, not_or] at h
    simp only [lookup]
    rw [if_neg (fun e => h.1 e.symm)]
    exact ih h.2

/-- for EVERY integer operand both routes pick the same message -/
theorem halt_msg_agree_int (v : Int) : cMsgI gen v = some (fintMsgI gen v) := by
  by_cases h : v ∈ ([101, 102, 103, 104, 105, 106] : List Int)
  · simp only [List.mem_cons, List.not_mem_nil, or_false] at h
    rcases h with h | h | h | h | h | h <;> subst h <;> decide
  · have hs : gen.cHaltSilent.contains v = false := by
      simp [gen, Gen.HaltCodes.cHaltSilent]
    have hc : lookup v gen.cHaltCases = none := by
      apply lookup_none
      intro hm
      apply h
      have : gen.cHaltCases.map (·.1) = [101, 102, 103, 104, 105, 106] := by decide
      rw [this] at hm
      exact hm
    have he : enumName gen v = none := by
      apply lookup_none
      intro hm
      apply h
      have : (gen.haltEnum.map fun p => (p.2, p.1)).map (·.1) = [101, 102, 103, 104, 105, 106] := by decide
      rw [this] at hm
      exact hm
    have hd : gen.cHaltDefault = gen.fintHaltDefault := by decide
    simp only [cMsgI, fintMsgI, hs, hc, he, Option.getD_none, hd]
    rfl

/-- for every 64-bit halt operand the interpreter and the runtime library raise the `RuntimeError`
with the same message -/
theorem halt_msg_agree (c : BitVec 64) : cHaltMsg gen c = some (fintHaltMsg gen c) := by
  rw [cHaltMsg_eq, fintHaltMsg_eq]; exact halt_msg_agree_int _

example : cHaltMsg gen (-1#64) = some "(Aldor error) Halt" := by decide
example : cHaltMsg gen (0x0000000100000066#64) = some "(Aldor error) Reached a \"never\"" := by decide
example : fintHaltMsg gen (-1#64) = "(Aldor error) Halt" := by decide
example : fintHaltMsg gen (104#64) = "(Aldor error) Assertion failed." := by decide

/-! ## success / failure class -/

/-- the table conditions under which every ending has the same class on both routes -/
theorem exit_class_agree_of_table (t : Table) (hs : t.cHaltSilent = [])
    (hi : t.interpFailExit ≠ 0) (hc : t.cUnhandledExit ≠ 0) (hm : t.mainReturn = 0)
    (hf : t.cInstallsFaultHandler = false) :
    ∀ k : TerminationKind, successClass (interpRoute t k) = successClass (cRoute t k) := by
  intro k
  cases k with
  | normal => simp [interpRoute, cRoute, successClass, hm]
  | halt c =>
    have : cHaltMsg t c = some ((lookup (int32 c) t.cHaltCases).getD t.cHaltDefault) := by
      simp [cHaltMsg, hs]
    simp only [interpRoute, cRoute, this]
    cases h1 : t.interpFailExit with
    | zero => exact absurd h1 hi
    | succ a => cases h2 : t.cUnhandledExit with
      | zero => exact absurd h2 hc
      | succ b => rfl
  | uncaught =>
    simp only [interpRoute, cRoute]
    cases h1 : t.interpFailExit with
    | zero => exact absurd h1 hi
    | succ a => cases h2 : t.cUnhandledExit with
      | zero => exact absurd h2 hc
      | succ b => rfl
  | divZero =>
    simp only [interpRoute, cRoute, hf]
    cases t.interpInstallsFaultHandler with
    | false => rfl
    | true =>
      cases h1 : t.interpFailExit with
      | zero => exact absurd h1 hi
      | succ a => simp [successClass]
  | storageFault =>
    simp only [interpRoute, cRoute, hf]
    cases t.interpInstallsFaultHandler with
    | false => rfl
    | true =>
      cases h1 : t.interpFailExit with
      | zero => exact absurd h1 hi
      | succ a => simp [successClass]

/-- **C03, exit classes.** For every way a run can end — normal end, a halt with any of the 2^64
operands (`never`, failed assertion, bad union selector, `halt n`, `error`), an uncaught exception,
a division-by-zero trap, a storage fault — interpreting the program and running the executable
give the same success/failure class (finite case analysis over the regenerated table). -/
theorem exit_class_agree :
    ∀ k : TerminationKind, successClass (interpRoute gen k) = successClass (cRoute gen k) :=
  exit_class_agree_of_table gen no_silent_halt (by decide) (by decide) (by decide) (by decide)

/-- what the classes are: only the normal end succeeds -/
theorem exit_class_values :
    successClass (interpRoute gen .normal) = some true ∧
    successClass (cRoute gen .normal) = some true ∧
    (∀ k, k ≠ .normal → successClass (interpRoute gen k) = some false) := by
  refine ⟨by decide, by decide, ?_⟩
  intro k hk
  cases k with
  | normal => exact absurd rfl hk
  | halt c => rfl
  | uncaught => decide
  | divZero => decide
  | storageFault => decide

/-- the two routes do NOT use the same failure status: 1 (EXIT_FAILURE of the compiler process) on
the interpreter route, 2 (`fiUnhandledException`) on the C route; only the class agrees -/
theorem failure_status_differs :
    (interpRoute gen .uncaught).status = .exit 1 ∧ (cRoute gen .uncaught).status = .exit 2 := by decide

/-- why `fiHalt` must not have a silent arm: in ANY table where `(int)c` of some operand is a
silent label, that halt fails on the interpreter route and does not end the run on the C route -/
theorem silent_arm_breaks_agreement (t : Table) (c : BitVec 64)
    (h : t.cHaltSilent.contains (int32 c) = true) :
    successClass (interpRoute t (.halt c)) ≠ successClass (cRoute t (.halt c)) := by
  have hc : cHaltMsg t c = none := by
    unfold cHaltMsg
    rw [if_pos h]
  simp only [interpRoute, cRoute, hc]
  cases t.interpFailExit with
  | zero => simp [successClass]
  | succ n => simp [successClass]

/-- the table of the sources as first read (`case -1: break;` present) -/
def genWithSilentArm : Table := { gen with cHaltSilent := [-1] }

example : successClass (interpRoute genWithSilentArm (.halt (-1#64))) ≠
    successClass (cRoute genWithSilentArm (.halt (-1#64))) :=
  silent_arm_breaks_agreement genWithSilentArm (-1#64) (by decide)

example : successClass (interpRoute genWithSilentArm (.halt (0x00000000ffffffff#64))) ≠
    successClass (cRoute genWithSilentArm (.halt (0x00000000ffffffff#64))) :=
  silent_arm_breaks_agreement genWithSilentArm _ (by decide)

/-! ## standard error (not part of the property; tied by the correspondence check) -/

/-- the diagnostic written on stderr is the same on both routes for every ending -/
theorem stderr_agree (k : TerminationKind) : (interpRoute gen k).stderr = (cRoute gen k).stderr := by
  cases k with
  | normal => decide
  | uncaught => decide
  | divZero => decide
  | storageFault => decide
  | halt c => simp only [interpRoute, cRoute, halt_msg_agree c]

/-- the interpreter additionally prints its call stack on stderr at a halt; the executable does not -/
theorem halt_trace_on_stderr (c : BitVec 64) :
    (interpRoute gen (.halt c)).stderrExtra = .backtrace ∧ (cRoute gen (.halt c)).stderrExtra = .none := by
  refine ⟨rfl, ?_⟩
  simp only [cRoute, halt_msg_agree c]

/-! ## standard output -/

def stdoutAgree (a b : Outcome) : Bool := a.stdoutExtra == b.stdoutExtra && a.flushed == b.flushed

/-- full-strength statement: neither route adds to, or loses part of, the program's own output
differently from the other -/
def stdout_agree_statement : Prop :=
  ∀ k : TerminationKind, stdoutAgree (interpRoute gen k) (cRoute gen k) = true

/-- table condition under which a halt adds nothing to stdout on either route -/
theorem halt_stdout_agree_of_table (t : Table) (h : t.fintHaltTrace = false ∨ t.fintTraceStream = Stream.stderr)
    (c : BitVec 64) : stdoutAgree (interpRoute t (.halt c)) (cRoute t (.halt c)) = true := by
  have ht : traceExtra t = .none := by
    rcases h with h | h <;> simp [traceExtra, h]
  simp only [interpRoute, cRoute, ht]
  cases cHaltMsg t c <;> rfl

/-- a halt (any operand) leaves the program's standard output alone on both routes -/
theorem halt_stdout_agree (c : BitVec 64) :
    stdoutAgree (interpRoute gen (.halt c)) (cRoute gen (.halt c)) = true :=
  halt_stdout_agree_of_table gen (Or.inr (by decide)) c

/-- **C03, standard output, proved part**: every ending that is not a hardware fault -/
theorem stdout_agree_partial (k : TerminationKind) (h : k ≠ .divZero ∧ k ≠ .storageFault) :
    stdoutAgree (interpRoute gen k) (cRoute gen k) = true := by
  cases k with
  | normal => decide
  | uncaught => decide
  | halt c => exact halt_stdout_agree c
  | divZero => exact absurd rfl h.1
  | storageFault => exact absurd rfl h.2

example : TerminationKind.halt 102#64 ≠ .divZero ∧ TerminationKind.halt 102#64 ≠ .storageFault := by decide

/-- why the trace must not go to stdout: in ANY table that prints it there, every halt has
different standard output on the two routes -/
theorem trace_on_stdout_breaks_agreement (t : Table) (h1 : t.fintHaltTrace = true)
    (h2 : t.fintTraceStream = Stream.stdout) (c : BitVec 64) :
    stdoutAgree (interpRoute t (.halt c)) (cRoute t (.halt c)) = false := by
  have ht : traceExtra t = .backtrace := by simp [traceExtra, h1, h2]
  simp only [interpRoute, cRoute, ht]
  cases cHaltMsg t c <;> rfl

/-- a fault (division by zero, invalid pointer) is caught by the compiler process on the
interpreter route (message on stdout, `exit(1)`, buffers flushed) and kills the executable
(buffered output lost): same class, different stdout -/
theorem fault_stdout_differs :
    stdoutAgree (interpRoute gen .divZero) (cRoute gen .divZero) = false ∧
    stdoutAgree (interpRoute gen .storageFault) (cRoute gen .storageFault) = false ∧
    (cRoute gen .divZero).status = .killed ∧ (cRoute gen .storageFault).status = .killed ∧
    (interpRoute gen .divZero).status = .exit 1 := by decide

/-- **the full statement is false of the code** (witness: division by zero; replayed by
`checks/parts/exitclass.py`, kind `divzero`; known finding `routes|exit|fault|…`) -/
theorem stdout_agree_statement_refuted : ¬ stdout_agree_statement := by
  intro h
  have := h .divZero
  revert this; decide

/-! ## link to C04 (builtin-level agreement)

`fint_eq_cmap` — for every builtin in C04's modelled set and every argument tuple in its domain
the interpreter's case of `fintEvalBCall` and the C mapping of `ccBValInfoTable` compute the same
value — is the transitivity corollary of C04's `Gen.Fint.X_spec` and `Gen.CMap.X_spec`
(`fint X = spec X` and `cmap X = spec X`).  It lives with those theorems (`Props/C04Gen.lean`,
another part); this file deliberately imports nothing of C04 so that the exit model builds alone. -/

end AldorVerif.ExitClass
