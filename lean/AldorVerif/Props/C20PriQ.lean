import AldorVerif.Lemmas.PriQ

/-! # C20 (priority-queue part): property theorems about the model of `priq.c`

`HeapInv h`: no parent key exceeds a child key in the used slots (`heapParent j = (j-1)/2`).
The statements are about every history of `priqInsert`/`priqExtractMin` from `priqNew`.
`priqExtractMin` on an empty queue is outside the model's domain (`none`; C calls `bug`). -/
namespace AldorVerif.PriQ

/-- operations of a history -/
inductive Op where
  | ins (k : Int) (e : Nat)
  | ext

/-- one step: the queue and the sequence of extracted `(key, entry)` pairs so far
    (an extraction from the empty queue is skipped) -/
def step (s : PriQ × List Part) : Op → PriQ × List Part
  | .ins k e => (priqInsert s.1 k e, s.2)
  | .ext => match priqExtractMin s.1 with
    | some (p, q) => (q, s.2 ++ [p])
    | none => s

def run (argcGuess : Nat) (ops : List Op) : PriQ × List Part := ops.foldl step (priqNew argcGuess, [])

/-- the pairs inserted by a history -/
def inserted : List Op → List Part
  | [] => []
  | .ins k e :: r => (k, e) :: inserted r
  | .ext :: r => inserted r

/-- extract until empty (`fuel` = number of entries) -/
def drain : Nat → PriQ → List Part
  | 0, _ => []
  | fuel + 1, q => match priqExtractMin q with
    | some (p, q') => p :: drain fuel q'
    | none => []

/-- `priqInsert` keeps the heap order, adds exactly the new pair, and doubles `size` when full. -/
theorem priq_insert_spec (q : PriQ) (k : Int) (e : Nat) (hi : HeapInv q.argv) :
    HeapInv (priqInsert q k e).argv ∧
    (priqInsert q k e).argv.toList.Perm ((k, e) :: q.argv.toList) ∧
    (priqInsert q k e).argc = q.argc + 1 ∧
    (priqInsert q k e).size = if q.size = q.argc then 2 * q.size else q.size := by
  obtain ⟨h1, h2, h3⟩ := heapInsert_spec q.argv k e hi
  exact ⟨h1, h3, h2, rfl⟩

/-- `priqExtractMin` returns a pair of the queue whose key is minimal, removes exactly that
    pair, keeps the heap order; it is the pair `priqPeekMin` shows. -/
theorem priq_extract_spec (q : PriQ) (hi : HeapInv q.argv) :
    (priqExtractMin q = none ↔ q.argc = 0) ∧
    ∀ p q', priqExtractMin q = some (p, q') →
      HeapInv q'.argv ∧ q.argv.toList.Perm (p :: q'.argv.toList) ∧
      (∀ x ∈ q.argv.toList, p.1 ≤ x.1) ∧ q'.argc = q.argc - 1 ∧ q'.size = q.size ∧
      priqPeekMin q = some p := by
  unfold priqExtractMin PriQ.argc
  by_cases h0 : q.argv.size = 0
  · simp [h0]
  · simp only [h0, if_false]
    refine ⟨by simp, ?_⟩
    intro p q' hs
    simp only [Option.some.injEq, Prod.mk.injEq] at hs
    obtain ⟨rfl, rfl⟩ := hs
    obtain ⟨h1, h2, h3, h4⟩ := heapExtractMin_spec q.argv (by omega) hi
    refine ⟨h2, h4, ?_, h3, rfl, ?_⟩
    · intro x hx; rw [h1]; exact root_min_mem q.argv hi x hx
    · simp [priqPeekMin, PriQ.argc, h0, h1]

/-- under the heap order the root carries a minimal key (what `priqPeekMin` returns) -/
theorem heap_root_min (q : PriQ) (hi : HeapInv q.argv) (p : Part) (hp : priqPeekMin q = some p) :
    p ∈ q.argv.toList ∧ ∀ x ∈ q.argv.toList, p.1 ≤ x.1 := by
  unfold priqPeekMin PriQ.argc at hp
  by_cases h0 : q.argv.size = 0
  · simp [h0] at hp
  · simp only [h0, if_false, Option.some.injEq] at hp
    subst hp
    refine ⟨?_, fun x hx => root_min_mem q.argv hi x hx⟩
    have h1 : 0 < q.argv.size := by omega
    simp [Array.getD, h1]

theorem step_spec (s : PriQ × List Part) (ins : List Part) (op : Op) (hi : HeapInv s.1.argv)
    (hp : ins.Perm (s.2 ++ s.1.argv.toList)) :
    HeapInv (step s op).1.argv ∧ (ins ++ inserted [op]).Perm ((step s op).2 ++ (step s op).1.argv.toList) := by
  cases op with
  | ins k e =>
    obtain ⟨h1, h2, _⟩ := priq_insert_spec s.1 k e hi
    refine ⟨h1, ?_⟩
    simp only [step, inserted]
    refine (List.Perm.append hp (List.Perm.refl _)).trans ?_
    rw [List.append_assoc]
    refine List.Perm.append (List.Perm.refl _) ?_
    exact List.perm_append_comm.trans h2.symm
  | ext =>
    simp only [step, inserted, List.append_nil]
    cases he : priqExtractMin s.1 with
    | none => exact ⟨hi, hp⟩
    | some r =>
      obtain ⟨p, q'⟩ := r
      obtain ⟨h1, h2, _⟩ := (priq_extract_spec s.1 hi).2 p q' he
      refine ⟨h1, hp.trans ?_⟩
      simp only [List.append_assoc, List.singleton_append]
      exact List.Perm.append (List.Perm.refl _) h2

theorem inserted_append (a b : List Op) : inserted (a ++ b) = inserted a ++ inserted b := by
  induction a with
  | nil => rfl
  | cons op r ih => cases op <;> simp [inserted, ih]

theorem foldl_spec (ops : List Op) (s : PriQ × List Part) (ins : List Part) (hi : HeapInv s.1.argv)
    (hp : ins.Perm (s.2 ++ s.1.argv.toList)) :
    HeapInv (ops.foldl step s).1.argv ∧
    (ins ++ inserted ops).Perm ((ops.foldl step s).2 ++ (ops.foldl step s).1.argv.toList) := by
  induction ops generalizing s ins with
  | nil => simpa [inserted] using ⟨hi, hp⟩
  | cons op r ih =>
    obtain ⟨h1, h2⟩ := step_spec s ins op hi hp
    have := ih (step s op) (ins ++ inserted [op]) h1 h2
    simp only [List.foldl_cons]
    refine ⟨this.1, ?_⟩
    have e : ins ++ inserted (op :: r) = ins ++ inserted [op] ++ inserted r := by
      rw [List.append_assoc, ← inserted_append]; rfl
    rw [e]; exact this.2

/-- successive extractions come out in non-decreasing key order -/
theorem two_extracts_ordered (q : PriQ) (hi : HeapInv q.argv) (p1 p2 : Part) (q1 q2 : PriQ)
    (h1 : priqExtractMin q = some (p1, q1)) (h2 : priqExtractMin q1 = some (p2, q2)) : p1.1 ≤ p2.1 := by
  obtain ⟨i1, pm1, min1, _⟩ := (priq_extract_spec q hi).2 p1 q1 h1
  obtain ⟨_, pm2, _⟩ := (priq_extract_spec q1 i1).2 p2 q2 h2
  apply min1
  exact pm1.mem_iff.mpr (List.mem_cons_of_mem _ (pm2.mem_iff.mpr List.mem_cons_self))

/-- Extracting everything from a queue in heap order yields its pairs sorted by key. -/
theorem priq_drain_sorted (q : PriQ) (hi : HeapInv q.argv) :
    (drain q.argc q).Perm q.argv.toList ∧ ((drain q.argc q).map (·.1)).Pairwise (· ≤ ·) := by
  generalize hn : q.argc = n
  induction n generalizing q with
  | zero =>
    unfold PriQ.argc at hn
    have : q.argv.toList = [] := by
      apply List.eq_nil_of_length_eq_zero; simpa using hn
    simp [drain, this]
  | succ n ih =>
    unfold drain
    cases he : priqExtractMin q with
    | none =>
      have := (priq_extract_spec q hi).1.mp he
      omega
    | some r =>
      obtain ⟨p, q'⟩ := r
      obtain ⟨h1, h2, h3, h4, _⟩ := (priq_extract_spec q hi).2 p q' he
      obtain ⟨r1, r2⟩ := ih q' h1 (by omega)
      simp only
      refine ⟨(List.Perm.cons p r1).trans h2.symm, ?_⟩
      rw [List.map_cons, List.pairwise_cons]
      refine ⟨?_, r2⟩
      intro k hk
      obtain ⟨x, hx, rfl⟩ := List.mem_map.mp hk
      apply h3
      exact h2.mem_iff.mpr (List.mem_cons_of_mem _ (r1.mem_iff.mp hx))

/-- **C20 / priority queue.**  After every history of insertions and extractions starting from
`priqNew`: the heap order holds; the pairs inserted are exactly the pairs extracted so far
together with the pairs still queued (as multisets); two successive extractions return keys in
non-decreasing order; draining the queue returns all its pairs sorted by key. -/
theorem priq_extract_sorted (argcGuess : Nat) (ops : List Op) :
    HeapInv (run argcGuess ops).1.argv ∧
    (inserted ops).Perm ((run argcGuess ops).2 ++ (run argcGuess ops).1.argv.toList) ∧
    (∀ p1 q1 p2 q2, priqExtractMin (run argcGuess ops).1 = some (p1, q1) →
        priqExtractMin q1 = some (p2, q2) → p1.1 ≤ p2.1) ∧
    (drain (run argcGuess ops).1.argc (run argcGuess ops).1).Perm (run argcGuess ops).1.argv.toList ∧
    ((drain (run argcGuess ops).1.argc (run argcGuess ops).1).map (·.1)).Pairwise (· ≤ ·) := by
  have h0 : HeapInv (priqNew argcGuess).argv := by
    intro j _ hj; simp [priqNew] at hj
  have hp0 : ([] : List Part).Perm (([] : List Part) ++ (priqNew argcGuess).argv.toList) := by
    simp [priqNew]
  obtain ⟨h1, h2⟩ := foldl_spec ops (priqNew argcGuess, []) [] h0 hp0
  have h3 := priq_drain_sorted (run argcGuess ops).1 h1
  exact ⟨h1, by simpa [run] using h2, fun p1 q1 p2 q2 e1 e2 => two_extracts_ordered _ h1 p1 p2 q1 q2 e1 e2, h3.1, h3.2⟩

/-- `priqCheck` answers (does not call `bug`) exactly when the heap order holds; equal keys
    between parent and child are legal. -/
theorem priq_check_iff (q : PriQ) : priqCheck q = true ↔ HeapInv q.argv := by
  unfold priqCheck heapCheck
  rw [List.all_eq_true]
  constructor
  · intro hc j hj0 hjn
    have := hc (j - 1) (by simp; omega)
    have e : j - 1 + 1 = j := by omega
    rw [e] at this
    simp at this
    omega
  · intro hi j hj
    have hj' : j < q.argv.size - 1 := by simpa using hj
    have := hi (j + 1) (by omega) (by omega)
    simp
    omega

/-- hence `priqCheck` succeeds after every history (also with equal keys) -/
theorem priq_check_reachable (argcGuess : Nat) (ops : List Op) : priqCheck (run argcGuess ops).1 = true :=
  (priq_check_iff _).mpr
    (foldl_spec ops (priqNew argcGuess, []) [] (by intro j _ hj; simp [priqNew] at hj) (by simp [priqNew])).1

/-! non-vacuity: a history with duplicate keys, growth of the slot array and an extraction
    in the middle; what is left drains in order. -/
example :
    let r := run 0 [.ins 5 1, .ins 3 2, .ins (-4) 3, .ins 3 4, .ext, .ins 7 5, .ext]
    r.2 = [(-4, 3), (3, 2)] ∧ r.1.size = 4 ∧ r.1.argc = 3 ∧
    drain r.1.argc r.1 = [(3, 4), (5, 1), (7, 5)] := by
  decide +kernel

end AldorVerif.PriQ
