import AldorVerif.Lemmas.Linear

/-! # C14 (lineariser part): parsing does not depend on layout

Property theorems about the model of `linear.c` (`Model/Linear.lean`).  The lineariser is the
only pass between scanner and parser that looks at layout: it removes comments and newlines and,
inside `#pile` regions, turns indentation into `SetTab` / `BackSet` / `BackTab`.

* `blank_comment_invariant`      – inserting blank lines / comment-only lines at line boundaries
  does not change the result at all (the other tokens kept as they are), nor the diagnostics;
* `line_numbers_irrelevant`      – line numbers are only copied: renumbering lines commutes;
* `blank_comment_invariant_mod_positions` – the two together: what the scanner really delivers
  after such an insertion (later lines renumbered) gives the same result up to that renumbering;
* `linearize_braced_eq`, `spacing_invariant_braced` – without `#pile` the result is computed from
  the tags alone: columns (and lines) do not matter at all;
* `indent_scale_invariant`       – with `#pile`: re-positioning all columns by a strictly
  increasing map (widths 1..8, tabs or spaces as the scanner measures them) commutes with
  `linearize`: only the order of the indentations matters;
* `pile_eq_braces_partial`       – piled and braced renderings of the programs of a small block
  language give the same token list (checked for all programs up to a bound; the general
  statement is `pile_eq_braces_statement`).

The scanner and the parser are not modelled: that the scanner's tokens themselves do not depend
on layout, and that the grammar treats `SetTab/BackSet/BackTab` like `{ ; }`, is checked end to
end by `checks/parts/linear.py` on the compiler's `-WTr+li` and `-Fap` output. -/
namespace AldorVerif.Linear

/-! ## blank lines and comment-only lines -/

/-- `InsBlank b ts ts'`: `ts'` is `ts` with blank lines (a newline token) and comment-only lines
(a comment token and a newline token) inserted at line boundaries; `b` says that the current
position is a line boundary (start of the input, or just after a newline token). -/
inductive InsBlank : Bool → List Tok → List Tok → Prop
  | nil {b : Bool} : InsBlank b [] []
  | keep {b : Bool} {t : Tok} {r r' : List Tok} :
      InsBlank (t.tag == kwNewLine) r r' → InsBlank b (t :: r) (t :: r')
  | blank {n : Tok} {r r' : List Tok} :
      n.tag = kwNewLine → InsBlank true r r' → InsBlank true r (n :: r')
  | comment {c n : Tok} {r r' : List Tok} :
      c.tag = tkComment → n.tag = kwNewLine → InsBlank true r r' → InsBlank true r (c :: n :: r')

theorem prepare_insBlank {b : Bool} {ts ts' : List Tok} (hi : InsBlank b ts ts') :
    ∀ skip : Bool, (b = true → skip = true) →
      xBlankLinesGo skip (xTokens tkComment ts') = xBlankLinesGo skip (xTokens tkComment ts) := by
  induction hi with
  | nil => intros; rfl
  | @keep b t r r' _ ih =>
    intro skip _
    by_cases hc : t.tag = tkComment
    · have hn : (t.tag == kwNewLine) = false := by rw [hc]; decide
      have := ih skip (by rw [hn]; intro h; cases h)
      simpa [xTokens, hc] using this
    · have e1 : xTokens tkComment (t :: r') = t :: xTokens tkComment r' := by simp [xTokens, hc]
      have e2 : xTokens tkComment (t :: r) = t :: xTokens tkComment r := by simp [xTokens, hc]
      rw [e1, e2]
      by_cases hn : t.tag = kwNewLine
      · have := ih true (fun _ => rfl)
        cases skip <;> simp [xBlankLinesGo, hn, this]
      · have hn' : (t.tag == kwNewLine) = false := by simp [hn]
        have := ih (t.tag == kwStartPile) (by rw [hn']; intro h; cases h)
        simp [xBlankLinesGo, hn, this]
  | @blank n r r' hn _ ih =>
    intro skip hs
    have hs := hs rfl
    subst hs
    have hc : n.tag ≠ tkComment := by rw [hn]; decide
    have e1 : xTokens tkComment (n :: r') = n :: xTokens tkComment r' := by simp [xTokens, hc]
    rw [e1]
    simp only [xBlankLinesGo, hn, beq_self_eq_true, if_true]
    exact ih true (fun _ => rfl)
  | @comment c n r r' hc hn _ ih =>
    intro skip hs
    have hs := hs rfl
    subst hs
    have hc' : n.tag ≠ tkComment := by rw [hn]; decide
    have e1 : xTokens tkComment (c :: n :: r') = n :: xTokens tkComment r' := by
      simp [xTokens, hc, hc']
    rw [e1]
    simp only [xBlankLinesGo, hn, beq_self_eq_true, if_true]
    exact ih true (fun _ => rfl)

/-- **C14, blank lines and comments.**  Inserting blank lines and comment-only lines at line
boundaries (all other tokens unchanged) changes neither the result of `linearize` nor the number
of balance errors it reports — in a batch compile and in the interactive loop. -/
theorem blank_comment_invariant (m : Bool) {ts ts' : List Tok} (hi : InsBlank true ts ts') :
    linearizeMode m ts' = linearizeMode m ts ∧ linearizeErrors m ts' = linearizeErrors m ts := by
  have hp : prepare m ts' = prepare m ts := by
    simp only [prepare, xBlankLines, prepare_insBlank hi true (fun _ => rfl)]
  simp [linearizeMode, linearizeErrors, hp]

/-- a run of the hypothesis: a comment line before, a blank line inside, a comment line after -/
example : InsBlank true
    [⟨1, "a", 1, 1⟩, ⟨kwNewLine, "", 1, 2⟩, ⟨1, "b", 2, 1⟩, ⟨kwNewLine, "", 2, 2⟩]
    [⟨tkComment, "c", 1, 1⟩, ⟨kwNewLine, "", 1, 4⟩, ⟨1, "a", 1, 1⟩, ⟨kwNewLine, "", 1, 2⟩,
     ⟨kwNewLine, "", 9, 9⟩, ⟨1, "b", 2, 1⟩, ⟨kwNewLine, "", 2, 2⟩, ⟨tkComment, "d", 7, 3⟩, ⟨kwNewLine, "", 7, 9⟩] :=
  .comment rfl rfl (.keep (.keep (.blank rfl (.keep (.keep (.comment rfl rfl .nil))))))

/-- **C14, positions are only copied.**  Renumbering the lines (by any map that keeps the
non-line 0 of `sposNone`) commutes with `linearize`. -/
theorem line_numbers_irrelevant (m : Bool) (h : Nat → Nat) (h0 : h 0 = 0) (ts : List Tok) :
    linearizeMode m (ts.map (Tok.re id h)) = (linearizeMode m ts).map (Tok.re id h) :=
  linearizeMode_re ⟨fun _ _ hab => hab, rfl, h0⟩ m ts

/-- what is left of a token when its line number is forgotten -/
def Tok.noLine (t : Tok) : Tag × String × Nat := (t.tag, t.text, t.col)

/-- **C14, blank lines and comments, as the scanner delivers them.**  `ts'` is the token list of
the text with blank / comment-only lines inserted: the tokens of `ts` with their lines renumbered
by `h`, plus the inserted tokens.  The result is that of `ts`, renumbered; in particular tags,
texts and columns are the same. -/
theorem blank_comment_invariant_mod_positions (m : Bool) (h : Nat → Nat) (h0 : h 0 = 0)
    {ts ts' : List Tok} (hi : InsBlank true (ts.map (Tok.re id h)) ts') :
    linearizeMode m ts' = (linearizeMode m ts).map (Tok.re id h) ∧
    (linearizeMode m ts').map Tok.noLine = (linearizeMode m ts).map Tok.noLine := by
  have e := (blank_comment_invariant m hi).1
  rw [line_numbers_irrelevant m h h0] at e
  refine ⟨e, ?_⟩
  rw [e, List.map_map]
  rfl

/-! ## braced programs: no dependence on columns -/

/-- **C14, braced programs.**  Without `#pile` (batch compile) the line tree is flat and the 2-D
rules do nothing: `linearize` is comment removal, blank-line removal, newline removal and the
two `;` passes. -/
theorem linearize_braced_eq (ts : List Tok) (hp : ∀ t ∈ ts, t.tag ≠ kwStartPile) :
    linearize ts = useNeededSep (xTokens kwNewLine (xBlankLines (xTokens tkComment ts))) :=
  linearize_nopile ts hp

/-- **C14, spacing in braced programs.**  Two token lists without `#pile` that agree in tags and
texts — whatever their columns and lines — are linearised to token lists that agree in tags and
texts. -/
theorem spacing_invariant_braced {ts ts' : List Tok} (hp : ∀ t ∈ ts, t.tag ≠ kwStartPile)
    (hs : SameToks ts ts') : SameToks (linearize ts) (linearize ts') := by
  rw [linearize_braced_eq ts hp, linearize_braced_eq ts' (nopile_of_same hs hp)]
  unfold useNeededSep xSep xBlankLines
  exact xSepGo_same (xSepLeading_same (iSepAfterDontPiles_same
    (xTokens_same _ (xBlankLinesGo_same _ (xTokens_same _ hs)))))

example : SameToks [⟨1, "a", 1, 1⟩, ⟨kwCCurly, "}", 1, 3⟩] [⟨1, "a", 5, 40⟩, ⟨kwCCurly, "}", 9, 2⟩] :=
  .cons ⟨rfl, rfl⟩ (.cons ⟨rfl, rfl⟩ .nil)

/-! ## piled programs: only the order of the indentations matters -/

/-- **C14, indentation width.**  Moving every column by a strictly increasing map `φ` (that
keeps the non-column 0 of `sposNone`) commutes with `linearize`, also inside `#pile`: the block
structure depends on the order of the indentations only. -/
theorem indent_scale_invariant (m : Bool) (φ : Nat → Nat) (hφ : StrictMonoNat φ) (h0 : φ 0 = 0)
    (ts : List Tok) :
    linearizeMode m (ts.map (Tok.re φ id)) = (linearizeMode m ts).map (Tok.re φ id) :=
  linearizeMode_re ⟨hφ, h0, rfl⟩ m ts

/-- both at once: columns by `φ`, lines by `h` -/
theorem reposition_invariant (m : Bool) (φ h : Nat → Nat) (hφ : StrictMonoNat φ) (h0 : φ 0 = 0)
    (hl : h 0 = 0) (ts : List Tok) :
    linearizeMode m (ts.map (Tok.re φ h)) = (linearizeMode m ts).map (Tok.re φ h) :=
  linearizeMode_re ⟨hφ, h0, hl⟩ m ts

/-- indentation widths 1..8 (any positive factor): `c ↦ k * c` is such a map -/
theorem indent_scale_widths (m : Bool) (k : Nat) (hk : 0 < k) (ts : List Tok) :
    linearizeMode m (ts.map (Tok.re (· * k) id)) = (linearizeMode m ts).map (Tok.re (· * k) id) :=
  indent_scale_invariant m (· * k) (fun _ _ hab => Nat.mul_lt_mul_of_pos_right hab hk) (by simp) ts

/-- The stronger reading — only the columns of the tokens that *start a line* matter, the other
columns may change in any way — is not proved here (it is what the layout variants of
`checks/parts/linear.py` exercise on the compiler). -/
def leading_columns_only_statement : Prop :=
  ∀ (φ : Nat → Nat) (ts ts' : List Tok), StrictMonoNat φ → φ 0 = 0 → SameToks ts ts' →
    (∀ i (hi : i < ts.length) (hi' : i < ts'.length),
        (i = 0 ∨ (∃ hj : i - 1 < ts.length, ts[i - 1].tag = kwNewLine ∨ ts[i - 1].tag = kwStartPile
          ∨ ts[i - 1].tag = kwEndPile ∨ ts[i - 1].tag = kwOCurly ∨ ts[i - 1].tag = kwCCurly) ∨
          (∃ hj : i - 2 < ts.length, 2 ≤ i ∧ ts[i - 2].tag = kwAt)) →
        ts'[i].col = φ ts[i].col) →
    SameToks (linearize ts) (linearize ts')

/-! ## piles and braces: a small block language -/

/-- a statement of the block language: a one-line statement, or a head line followed by a block
of statements (`f(x) ==` + body, `if c then` + body, …); only the token tags matter -/
inductive Stmt where
  | line  (ts : List Tag)
  | block (head : List Tag) (body : List Stmt)
deriving Repr, Inhabited

/-- the tokens of one source line starting in column `d`, with its newline token -/
def lineToks (d : Nat) (ts : List Tag) : List Tok :=
  (ts.zipIdx.map fun (k, i) => (⟨k, "", 1, d + i⟩ : Tok)) ++ [⟨kwNewLine, "", 1, d + ts.length⟩]

mutual
/-- piled rendering: every statement on its own line(s), a body indented by `w` more -/
def Stmt.piled (w : Nat) : Nat → Stmt → List Tok
  | d, .line ts => lineToks d ts
  | d, .block head body => lineToks d head ++ piledL w (d + w) body
def piledL (w : Nat) : Nat → List Stmt → List Tok
  | _, [] => []
  | d, s :: r => s.piled w d ++ piledL w d r
end

/-- the piled program text: `#pile`, then the statements at indentation `d0` -/
def piledProg (w d0 : Nat) (p : List Stmt) : List Tok := ⟨kwStartPile, "", 1, 1⟩ :: piledL w d0 p

/-- `isPileRequired`'s keywords -/
def pileKw (k : Tag) : Bool :=
  k == kwThen || k == kwElse || k == kwWith || k == kwAdd || k == kwTry || k == kwBut ||
  k == kwCatch || k == kwFinally || k == kwAlways

def kwTok (k : Tag) : Tok := ⟨k, "", 1, 1⟩

mutual
/-- braced rendering: a block is `{ s1 ; s2 ; … }`; the braces are left out around a single
statement unless the head ends in a keyword after which a pile is always formed. Newlines are
put after every `;` and brace (they are layout only). -/
def Stmt.braced : Stmt → List Tok
  | .line ts => ts.map kwTok
  | .block head body =>
    head.map kwTok ++
      (if body.length ≥ 2 || (head.getLast?.any pileKw) then
        [kwTok kwOCurly, kwTok kwNewLine] ++ bracedL body ++ [kwTok kwNewLine, kwTok kwCCurly]
      else bracedL body)
def bracedL : List Stmt → List Tok
  | [] => []
  | [s] => s.braced
  | s :: s' :: r => s.braced ++ [kwTok kwSemicolon, kwTok kwNewLine] ++ bracedL (s' :: r)
end

/-- the braced program text: the whole program in one pair of braces when it has more than one
statement (this is what a `#pile` around everything amounts to) -/
def bracedProg (p : List Stmt) : List Tok :=
  if p.length ≥ 2 then [kwTok kwOCurly, kwTok kwNewLine] ++ bracedL p ++ [kwTok kwNewLine, kwTok kwCCurly]
  else bracedL p

/-- `SetTab`, `BackSet`, `BackTab` read as `{`, `;`, `}` -/
def untab (k : Tag) : Tag :=
  if k == kwSetTab then kwOCurly else if k == kwBackSet then kwSemicolon
  else if k == kwBackTab then kwCCurly else k

/-- a tag a statement of the block language may contain: an ordinary token -/
def plainTag (k : Tag) : Bool :=
  tkStart ≤ k && k < tkLimit && !(k == tkPreDoc || k == tkPostDoc || k == tkComment || k == kwSemicolon ||
    k == kwAt || k == kwOCurly || k == kwCCurly || k == kwNewLine || k == kwStartPile ||
    k == kwEndPile || k == kwSetTab || k == kwBackSet || k == kwBackTab || k == 9 || k == 10)

/-- a line that stands on its own in a pile: ordinary tokens, not starting with a token that
cannot start a statement, not ending in `,` or an opening bracket (such lines are continued) -/
def lineOk (ts : List Tag) : Bool :=
  ts.all plainTag && (ts.head?.any fun k => !isNonStarter k) &&
    (ts.getLast?.any fun k => !(k == kwComma || isOpener k))

mutual
def Stmt.ok : Stmt → Bool
  | .line ts => lineOk ts && !(ts.getLast?.any pileKw)
  | .block head body => lineOk head && !body.isEmpty && okL body
def okL : List Stmt → Bool
  | [] => true
  | s :: r => s.ok && okL r
end

/-- the statement for one program and one choice of indentation: linearising the piled text and
reading the tab tokens as braces gives the token tags of the linearised braced text -/
def pileEqBraces (w d0 : Nat) (p : List Stmt) : Bool :=
  ((linearize (piledProg w d0 p)).map fun t => untab t.tag) == ((linearize (bracedProg p)).map (·.tag))

/-- full-strength statement: for every well-formed program of the block language, every
indentation step `w ≥ 1` and every start column `d0 ≥ 1` -/
def pile_eq_braces_statement : Prop :=
  ∀ (w d0 : Nat) (p : List Stmt), 0 < w → 0 < d0 → okL p = true → !p.isEmpty → pileEqBraces w d0 p = true

/-! bounded instance: all programs over a small alphabet up to nesting depth 2 -/

def sampleLines : List (List Tag) := [[1], [1, 77, 3]]           -- `x`   `x := 1`
def sampleHeads : List (List Tag) := [[1, 86], [38, 1, 61]]       -- `f ==`   `if x then`

def lists12 {α : Type} (xs : List α) : List (List α) :=
  xs.map (fun x => [x]) ++ xs.flatMap (fun x => xs.map fun y => [x, y])

def stmts0 : List Stmt := sampleLines.map .line
def stmts1 : List Stmt := stmts0 ++ sampleHeads.flatMap fun h => (lists12 stmts0).map (Stmt.block h)
def stmts2 : List Stmt := sampleHeads.flatMap fun h => (lists12 stmts1).map (Stmt.block h)

def everyNth {α : Type} (n : Nat) (xs : List α) : List α :=
  (xs.zipIdx.filter fun (_, i) => i % n == 0).map (·.1)

/-- all programs of one or two statements of nesting depth ≤ 1 (210), and a seventh of the
statements of depth 2, alone (60) and followed by a one-line statement (60) -/
def samplePrograms : List (List Stmt) :=
  lists12 stmts1 ++ (everyNth 7 stmts2).map (fun s => [s]) ++ (everyNth 7 stmts2).map (fun s => [s, .line [1]])

/-- **C14, piles and braces (bounded).**  For the 330 sample programs (indentation step 4 from
column 1) and for every eleventh of them with step 1 from column 3: the piled text, linearised,
with `SetTab/BackSet/BackTab` read as `{ ; }`, is the linearised braced text. (Kernel
evaluation; the general statement is `pile_eq_braces_statement`, exercised on random programs
against model and implementation by `checks/parts/linear.py`.) -/
theorem pile_eq_braces_partial :
    (samplePrograms.all fun p => okL p && !p.isEmpty && pileEqBraces 4 1 p) = true ∧
    ((everyNth 11 samplePrograms).all fun p => pileEqBraces 1 3 p) = true := by
  constructor <;> decide +kernel

end AldorVerif.Linear
