import AldorVerif.Lemmas.Linear
import AldorVerif.Lemmas.LinearBlocks

/-! # C14 (lineariser part): parsing does not depend on layout

Property theorems about the model of `linear.c` (`Model/Linear.lean`).  The lineariser is the
only pass between scanner and parser that looks at layout: it removes comments and newlines and,
inside `#pile` regions, turns indentation into `SetTab` / `BackSet` / `BackTab`.

* `blank_comment_invariant`      – inserting blank lines / comment-only lines at line boundaries
  does not change the result at all (the other tokens kept as they are), nor the diagnostics;
* `line_numbers_irrelevant`      – line numbers are only copied: renumbering lines commutes;
* `blank_comment_invariant_mod_positions` – the two together: what the scanner really delivers
  after such an insertion (later lines renumbered) gives the same result up to that renumbering;
* `linearize_braced_eq`, `spacing_invariant_braced` – without `#pile` the result is computed from
  the tags alone: columns (and lines) do not matter at all;
* `indent_scale_invariant`       – with `#pile`: re-positioning all columns by a strictly
  increasing map (widths 1..8, tabs or spaces as the scanner measures them) commutes with
  `linearize`: only the order of the indentations matters;
* `pile_eq_braces`               – piled and braced renderings of every well-formed program of a
  small block language are linearised to the same token tags (`SetTab/BackSet/BackTab` read as
  `{ ; }`), for every indentation step and start column.

The scanner and the parser are not modelled: that the scanner's tokens themselves do not depend
on layout, and that the grammar treats `SetTab/BackSet/BackTab` like `{ ; }`, is checked end to
end by `checks/parts/linear.py` on the compiler's `-WTr+li` and `-Fap` output. -/
namespace AldorVerif.Linear

/-! ## blank lines and comment-only lines -/

/-- `InsBlank b ts ts'`: `ts'` is `ts` with blank lines (a newline token) and comment-only lines
(a comment token and a newline token) inserted at line boundaries; `b` says that the current
position is a line boundary (start of the input, or just after a newline token). -/
inductive InsBlank : Bool → List Tok → List Tok → Prop
  | nil {b : Bool} : InsBlank b [] []
  | keep {b : Bool} {t : Tok} {r r' : List Tok} :
      InsBlank (t.tag == kwNewLine) r r' → InsBlank b (t :: r) (t :: r')
  | blank {n : Tok} {r r' : List Tok} :
      n.tag = kwNewLine → InsBlank true r r' → InsBlank true r (n :: r')
  | comment {c n : Tok} {r r' : List Tok} :
      c.tag = tkComment → n.tag = kwNewLine → InsBlank true r r' → InsBlank true r (c :: n :: r')

theorem prepare_insBlank {b : Bool} {ts ts' : List Tok} (hi : InsBlank b ts ts') :
    ∀ skip : Bool, (b = true → skip = true) →
      xBlankLinesGo skip (xTokens tkComment ts') = xBlankLinesGo skip (xTokens tkComment ts) := by
  induction hi with
  | nil => intros; rfl
  | @keep b t r r' _ ih =>
    intro skip _
    by_cases hc : t.tag = tkComment
    · have hn : (t.tag == kwNewLine) = false := by rw [hc]; decide
      have := ih skip (by rw [hn]; intro h; cases h)
      simpa [xTokens, hc] using this
    · have e1 : xTokens tkComment (t :: r') = t :: xTokens tkComment r' := by simp [xTokens, hc]
      have e2 : xTokens tkComment (t :: r) = t :: xTokens tkComment r := by simp [xTokens, hc]
      rw [e1, e2]
      by_cases hn : t.tag = kwNewLine
      · have := ih true (fun _ => rfl)
        cases skip <;> simp [xBlankLinesGo, hn, this]
      · have hn' : (t.tag == kwNewLine) = false := by simp [hn]
        have := ih (t.tag == kwStartPile) (by rw [hn']; intro h; cases h)
        simp [xBlankLinesGo, hn, this]
  | @blank n r r' hn _ ih =>
    intro skip hs
    have hs := hs rfl
    subst hs
    have hc : n.tag ≠ tkComment := by rw [hn]; decide
    have e1 : xTokens tkComment (n :: r') = n :: xTokens tkComment r' := by simp [xTokens, hc]
    rw [e1]
    simp only [xBlankLinesGo, hn, beq_self_eq_true, if_true]
    exact ih true (fun _ => rfl)
  | @comment c n r r' hc hn _ ih =>
    intro skip hs
    have hs := hs rfl
    subst hs
    have hc' : n.tag ≠ tkComment := by rw [hn]; decide
    have e1 : xTokens tkComment (c :: n :: r') = n :: xTokens tkComment r' := by
      simp [xTokens, hc, hc']
    rw [e1]
    simp only [xBlankLinesGo, hn, beq_self_eq_true, if_true]
    exact ih true (fun _ => rfl)

/-- **C14, blank lines and comments.**  Inserting blank lines and comment-only lines at line
boundaries (all other tokens unchanged) changes neither the result of `linearize` nor the number
of balance errors it reports — in a batch compile and in the interactive loop. -/
theorem blank_comment_invariant (m : Bool) {ts ts' : List Tok} (hi : InsBlank true ts ts') :
    linearizeMode m ts' = linearizeMode m ts ∧ linearizeErrors m ts' = linearizeErrors m ts := by
  have hp : prepare m ts' = prepare m ts := by
    simp only [prepare, xBlankLines, prepare_insBlank hi true (fun _ => rfl)]
  simp [linearizeMode, linearizeErrors, hp]

/-- a run of the hypothesis: a comment line before, a blank line inside, a comment line after -/
example : InsBlank true
    [⟨1, "a", 1, 1⟩, ⟨kwNewLine, "", 1, 2⟩, ⟨1, "b", 2, 1⟩, ⟨kwNewLine, "", 2, 2⟩]
    [⟨tkComment, "c", 1, 1⟩, ⟨kwNewLine, "", 1, 4⟩, ⟨1, "a", 1, 1⟩, ⟨kwNewLine, "", 1, 2⟩,
     ⟨kwNewLine, "", 9, 9⟩, ⟨1, "b", 2, 1⟩, ⟨kwNewLine, "", 2, 2⟩, ⟨tkComment, "d", 7, 3⟩, ⟨kwNewLine, "", 7, 9⟩] :=
  .comment rfl rfl (.keep (.keep (.blank rfl (.keep (.keep (.comment rfl rfl .nil))))))

/-- **C14, positions are only copied.**  Renumbering the lines (by any map that keeps the
non-line 0 of `sposNone`) commutes with `linearize`. -/
theorem line_numbers_irrelevant (m : Bool) (h : Nat → Nat) (h0 : h 0 = 0) (ts : List Tok) :
    linearizeMode m (ts.map (Tok.re id h)) = (linearizeMode m ts).map (Tok.re id h) :=
  linearizeMode_re ⟨fun _ _ hab => hab, rfl, h0⟩ m ts

/-- what is left of a token when its line number is forgotten -/
def Tok.noLine (t : Tok) : Tag × String × Nat := (t.tag, t.text, t.col)

/-- **C14, blank lines and comments, as the scanner delivers them.**  `ts'` is the token list of
the text with blank / comment-only lines inserted: the tokens of `ts` with their lines renumbered
by `h`, plus the inserted tokens.  The result is that of `ts`, renumbered; in particular tags,
texts and columns are the same. -/
theorem blank_comment_invariant_mod_positions (m : Bool) (h : Nat → Nat) (h0 : h 0 = 0)
    {ts ts' : List Tok} (hi : InsBlank true (ts.map (Tok.re id h)) ts') :
    linearizeMode m ts' = (linearizeMode m ts).map (Tok.re id h) ∧
    (linearizeMode m ts').map Tok.noLine = (linearizeMode m ts).map Tok.noLine := by
  have e := (blank_comment_invariant m hi).1
  rw [line_numbers_irrelevant m h h0] at e
  refine ⟨e, ?_⟩
  rw [e, List.map_map]
  rfl

/-! ## braced programs: no dependence on columns -/

/-- **C14, braced programs.**  Without `#pile` (batch compile) the line tree is flat and the 2-D
rules do nothing: `linearize` is comment removal, blank-line removal, newline removal and the
two `;` passes. -/
theorem linearize_braced_eq (ts : List Tok) (hp : ∀ t ∈ ts, t.tag ≠ kwStartPile) :
    linearize ts = useNeededSep (xTokens kwNewLine (xBlankLines (xTokens tkComment ts))) :=
  linearize_nopile ts hp

/-- **C14, spacing in braced programs.**  Two token lists without `#pile` that agree in tags and
texts — whatever their columns and lines — are linearised to token lists that agree in tags and
texts. -/
theorem spacing_invariant_braced {ts ts' : List Tok} (hp : ∀ t ∈ ts, t.tag ≠ kwStartPile)
    (hs : SameToks ts ts') : SameToks (linearize ts) (linearize ts') := by
  rw [linearize_braced_eq ts hp, linearize_braced_eq ts' (nopile_of_same hs hp)]
  unfold useNeededSep xSep xBlankLines
  exact xSepGo_same (xSepLeading_same (iSepAfterDontPiles_same
    (xTokens_same _ (xBlankLinesGo_same _ (xTokens_same _ hs)))))

example : SameToks [⟨1, "a", 1, 1⟩, ⟨kwCCurly, "}", 1, 3⟩] [⟨1, "a", 5, 40⟩, ⟨kwCCurly, "}", 9, 2⟩] :=
  .cons ⟨rfl, rfl⟩ (.cons ⟨rfl, rfl⟩ .nil)

/-! ## piled programs: only the order of the indentations matters -/

/-- **C14, indentation width.**  Moving every column by a strictly increasing map `φ` (that
keeps the non-column 0 of `sposNone`) commutes with `linearize`, also inside `#pile`: the block
structure depends on the order of the indentations only. -/
theorem indent_scale_invariant (m : Bool) (φ : Nat → Nat) (hφ : StrictMonoNat φ) (h0 : φ 0 = 0)
    (ts : List Tok) :
    linearizeMode m (ts.map (Tok.re φ id)) = (linearizeMode m ts).map (Tok.re φ id) :=
  linearizeMode_re ⟨hφ, h0, rfl⟩ m ts

/-- both at once: columns by `φ`, lines by `h` -/
theorem reposition_invariant (m : Bool) (φ h : Nat → Nat) (hφ : StrictMonoNat φ) (h0 : φ 0 = 0)
    (hl : h 0 = 0) (ts : List Tok) :
    linearizeMode m (ts.map (Tok.re φ h)) = (linearizeMode m ts).map (Tok.re φ h) :=
  linearizeMode_re ⟨hφ, h0, hl⟩ m ts

/-- indentation widths 1..8 (any positive factor): `c ↦ k * c` is such a map -/
theorem indent_scale_widths (m : Bool) (k : Nat) (hk : 0 < k) (ts : List Tok) :
    linearizeMode m (ts.map (Tok.re (· * k) id)) = (linearizeMode m ts).map (Tok.re (· * k) id) :=
  indent_scale_invariant m (· * k) (fun _ _ hab => Nat.mul_lt_mul_of_pos_right hab hk) (by simp) ts

/-- The stronger reading — only the columns of the tokens that can *start a line* matter (the
first token, a token after a newline, `#pile`, `#endpile`, `{` or `}`, or the second token after
an `@`), the other columns may change in any way — is not proved here; it is evaluated on random
token lists against `linear.c` and the model (`twin_nonleading` in `checks/parts/linear.py`) and
is what the layout variants of the source programs exercise on the compiler. Comments are
removed first, so the statement is about comment-free token lists. -/
def leading_columns_only_statement : Prop :=
  ∀ (m : Bool) (ts ts' : List Tok), (∀ t ∈ ts, t.tag ≠ tkComment) → SameToks ts ts' →
    (∀ i (hi : i < ts.length) (hi' : i < ts'.length),
        (i = 0 ∨ (∃ _ : i - 1 < ts.length, 1 ≤ i ∧ (ts[i - 1].tag = kwNewLine ∨ ts[i - 1].tag = kwStartPile
          ∨ ts[i - 1].tag = kwEndPile ∨ ts[i - 1].tag = kwOCurly ∨ ts[i - 1].tag = kwCCurly)) ∨
          (∃ _ : i - 2 < ts.length, 2 ≤ i ∧ ts[i - 2].tag = kwAt)) →
        ts'[i].col = ts[i].col) →
    SameToks (linearizeMode m ts) (linearizeMode m ts')

/-! ## piles and braces: a small block language

`Stmt` (Lemmas/LinearBlocks.lean): a statement is one line of ordinary tokens, or a head line
followed by a block of statements.  `piledProg w d0 p` is the `#pile` text (every statement on
its own line, bodies indented by `w` more, starting in column `d0`), `bracedProg p` the text with
`{ ; }` (braces around a body of two or more statements or after a head ending in one of
`isPileRequired`'s keywords; around the whole program when it has two or more statements).
`okL p`: the lines are non-empty, made of ordinary tokens, do not begin with a token that cannot
start a statement and do not end in `,` or an opening bracket (such lines are continued by the
2-D rules), and a one-line statement does not end in one of the pile keywords. -/

/-- **C14, piles and braces.**  For every well-formed program of the block language, every
indentation step `w ≥ 1` and every start column: the piled text, linearised, with
`SetTab / BackSet / BackTab` read as `{ ; }`, has the same token tags as the linearised braced
text. -/
theorem pile_eq_braces (w d0 : Nat) (p : List Stmt) (hw : 0 < w) (hok : okL p = true) (hne : p ≠ []) :
    (linearize (piledProg w d0 p)).map (fun t => untab t.tag) =
      (linearize (bracedProg p)).map (·.tag) := by
  have := pileEqBraces_all w d0 hw p hok hne
  simpa [pileEqBraces] using this

/-- what both sides are: the tags of the program with brackets around bodies -/
theorem pile_eq_braces_tags (w d0 : Nat) (p : List Stmt) (hw : 0 < w) (hok : okL p = true) (hne : p ≠ []) :
    (linearize (piledProg w d0 p)).map (·.tag) = progG kwSetTab kwBackSet kwBackTab p ∧
    (linearize (bracedProg p)).map (·.tag) = progG kwOCurly kwSemicolon kwCCurly p :=
  ⟨piled_tags w d0 hw p hok hne, braced_tags p hok hne⟩

/-- a program meeting the hypotheses: `f == ⏎ x := 1 ⏎ if x then ⏎ y ⏎ x` and `z` -/
example : okL [.block [1, 86] [.line [1, 77, 3], .block [38, 1, 61] [.line [1]], .line [1]], .line [1]] = true := by
  decide

example :
    (linearize (piledProg 4 1 [.block [1, 86] [.line [1, 77, 3], .block [38, 1, 61] [.line [1]], .line [1]], .line [1]])).map
      (·.tag) =
    [kwSetTab, 1, 86, kwSetTab, 1, 77, 3, kwBackSet, 38, 1, 61, kwSetTab, 1, kwBackTab, kwBackSet, 1, kwBackTab,
     kwBackSet, 1, kwBackTab] := by
  decide +kernel

end AldorVerif.Linear
