import AldorVerif.Lemmas.TableOrder
import AldorVerif.Model.PtrAllow

/-! # C08 -- "compiler output is a function of its input only": what is, and what is not, proved

**Weak proof content, stated plainly.**  Whether two runs of the compiler write the same bytes is a
fact about a process: address-space layout, when the collector runs, what the environment holds.
None of that exists in Lean.  What is proved here is only the part of the argument that is
about the code's *algorithms*:

* `iter_order_depends_only_on_hashes` / `iter_order_corresponding`: the order in which table.c's
  iteration visits the entries is determined by the bucket count, the hash values, the
  equality pattern of the keys and the operation history -- so a table hashed on *content*
  is walked identically in any two runs that make the same requests;
* `ptr_order_depends_on_address`: the converse witness -- for a table hashed on the key's
  address the order does change when the addresses change;
* `content_hash_pure`: `strHash` reads only the bytes of the string;
* `codesort_canonical_partial`: `libCodeSort` puts `codev` into an order that does not depend on
  the order the symes arrived in, PROVIDED their hash codes are pairwise different;
  `codesort_tie_witness` / `codesort_canonical_statement_refuted`: with equal codes it does;
* `ptr_tables_not_iterated_partial`: every address-hashed table the translator found in the C
  sources is either never iterated, or its iteration places were read by a person and are
  listed in Model/PtrAllow.lean (as harmless, or as a recorded defect).

The tie to the C code: `Model/TableOrder.lean` by correspondence (harness/determ_drv.c against
table.c, strops.c, util.c, lib.c on generated histories); `Gen/PtrTables.lean` regenerated from
the sources at every run.  Everything about ASLR, `-Wgc`/`-Wno-gc`/forced collections, working
directory, environment and batched compilation is examined by *search* only
(checks/parts/determ.py); a search is not a theorem. -/
namespace AldorVerif.C08
open AldorVerif.TableOrder AldorVerif.Gen.PtrTables AldorVerif.PtrAllow

/-! ## 1. iteration order of chained hashing -/

/-- Renaming version.  If `f` carries the keys of one history to the keys of another, keeps every
hash value and keeps the answers of the equality test, the second table is walked in the image
of the first table's order, and every lookup answers the same. -/
theorem iter_order_depends_only_on_hashes {κ₁ κ₂ : Type} (P₁ : Params κ₁) (P₂ : Params κ₂)
    (f : κ₁ → κ₂) (hhash : ∀ a, P₂.hash (f a) = P₁.hash a)
    (heq : ∀ a b, P₂.eq (f a) (f b) = P₁.eq a b) (ops : List (Op κ₁)) :
    iterOrder (run P₂ (ops.map (Op.map f))).tbl = (iterOrder (run P₁ ops).tbl).map f ∧
    (run P₂ (ops.map (Op.map f))).gets = (run P₁ ops).gets := by
  have C : Compat P₁ P₂ f := ⟨hhash, heq⟩
  rw [run_map C]
  exact ⟨iterOrder_map f _, rfl⟩

/-- Pairwise version ("same key-equality pattern, same hash sequence").  A joint history is a
list of requests whose keys are PAIRS (key used in run 1, key used in run 2).  If on the pairs
that occur the hash values agree and the two equality tests agree, there is one list of pairs
`L` such that run 1 walks `L.map fst` and run 2 walks `L.map snd`: the orders correspond
position by position. -/
theorem iter_order_corresponding {κ₁ κ₂ : Type} (P₁ : Params κ₁) (P₂ : Params κ₂)
    (ops : List (Op (κ₁ × κ₂)))
    (hhash : ∀ o ∈ ops, P₁.hash o.key.1 = P₂.hash o.key.2)
    (heq : ∀ o ∈ ops, ∀ o' ∈ ops, P₁.eq o.key.1 o'.key.1 = P₂.eq o.key.2 o'.key.2) :
    ∃ L : List (κ₁ × κ₂),
      iterOrder (run P₁ (ops.map (Op.map Prod.fst))).tbl = L.map Prod.fst ∧
      iterOrder (run P₂ (ops.map (Op.map Prod.snd))).tbl = L.map Prod.snd ∧
      (run P₁ (ops.map (Op.map Prod.fst))).gets = (run P₂ (ops.map (Op.map Prod.snd))).gets := by
  -- keys restricted to the pairs that occur in the history
  let K := { p : κ₁ × κ₂ // ∃ o ∈ ops, o.key = p }
  let P : Params K := { hash := fun p => P₁.hash p.1.1, eq := fun p q => P₁.eq p.1.1 q.1.1 }
  let ops' : List (Op K) := ops.attach.map (fun o => { kind := o.1.kind, key := ⟨o.1.key, o.1, o.2, rfl⟩, elt := o.1.elt })
  have h1 : ops'.map (Op.map (fun p : K => p.1.1)) = ops.map (Op.map Prod.fst) := by
    simp only [ops', List.map_map]
    exact List.attach_map_val (l := ops) (f := Op.map Prod.fst)
  have h2 : ops'.map (Op.map (fun p : K => p.1.2)) = ops.map (Op.map Prod.snd) := by
    simp only [ops', List.map_map]
    exact List.attach_map_val (l := ops) (f := Op.map Prod.snd)
  have C1 : Compat P P₁ (fun p : K => p.1.1) := ⟨fun _ => rfl, fun _ _ => rfl⟩
  have C2 : Compat P P₂ (fun p : K => p.1.2) := by
    refine ⟨?_, ?_⟩
    · intro a
      obtain ⟨o, ho, hk⟩ := a.2
      have := hhash o ho
      simp only [P]; rw [← hk]; exact this.symm
    · intro a b
      obtain ⟨o, ho, hk⟩ := a.2
      obtain ⟨o', ho', hk'⟩ := b.2
      have := heq o ho o' ho'
      simp only [P]; rw [← hk, ← hk']; exact this.symm
  refine ⟨(iterOrder (run P ops').tbl).map (·.1), ?_, ?_, ?_⟩
  · rw [← h1, run_map C1]
    simp [Run.map, iterOrder_map, List.map_map, Function.comp_def]
  · rw [← h2, run_map C2]
    simp [Run.map, iterOrder_map, List.map_map, Function.comp_def]
  · rw [← h1, ← h2, run_map C1, run_map C2]
    rfl

/-- non-vacuity: a content-hashed table (hash = length of the key, equality of the lists) and a
history with a move-to-front lookup and a drop; renaming by `f = (· ++ [0])`-free identity. -/
example :
    let P : Params (List Nat) := { hash := fun k => k.length, eq := fun a b => a == b }
    let ops : List (Op (List Nat)) :=
      [⟨.set, [1], 10⟩, ⟨.set, [2], 20⟩, ⟨.set, [3, 3, 3, 3, 3, 3, 3, 3], 30⟩, ⟨.get, [1], 0⟩, ⟨.drop, [2], 0⟩]
    iterOrder (run P ops).tbl = [[1], [3, 3, 3, 3, 3, 3, 3, 3]] ∧ (run P ops).gets = [some 10] := by
  decide

/-- Converse witness: an address-hashed table (`tblNew(0, 0)`: hash = the key itself, equality =
equality of hashes).  The same two insertions, with the same equality pattern, are walked in
the opposite order after the "addresses" move (0x1000, 0x1008 -> 0x2000, 0x2008: 0x1000 % 7 = 1,
0x1008 % 7 = 2, 0x2000 % 7 = 2, 0x2008 % 7 = 3 would keep the order; a shift by 5 words does not). -/
theorem ptr_order_depends_on_address :
    let P : Params Nat := { hash := fun k => k, eq := fun _ _ => true }
    let hist (a b : Nat) : List (Op Nat) := [⟨.set, a, 1⟩, ⟨.set, b, 2⟩]
    -- run 1: objects at 0x1000 and 0x1008; run 2: the same two objects at 0x1005 and 0x100d
    (iterOrder (run P (hist 0x1000 0x1008)).tbl).map (· - 0x1000) = [0, 8] ∧
    (iterOrder (run P (hist 0x1005 0x100d)).tbl).map (· - 0x1005) = [8, 0] := by
  decide

/-! ## 2. the content hash -/

/-- `strHash` as the C loop reads it from memory is a function of the string's bytes only: two
memories holding the same bytes (up to the NUL) at possibly different addresses hash alike. -/
theorem content_hash_pure (mem₁ mem₂ : Nat → UInt8) (a₁ a₂ fuel : Nat)
    (h : cstr mem₁ fuel a₁ = cstr mem₂ fuel a₂) :
    strHashAt mem₁ fuel a₁ 0 = strHashAt mem₂ fuel a₂ 0 := by
  rw [strHashAt_eq, strHashAt_eq, h]

/-- and it is `strHash` of those bytes (the closed form the driver is compared with). -/
theorem content_hash_is_strHash (mem : Nat → UInt8) (a fuel : Nat) :
    strHashAt mem fuel a 0 = strHash (cstr mem fuel a) := strHashAt_eq mem fuel a 0

/-- the result fits 30 bits (so `libCmpCode`'s subtraction cannot wrap, see below). -/
theorem strHash_lt (bs : List UInt8) : strHash bs < 2 ^ 30 := by
  unfold strHash
  have : ∀ (l : List UInt8) (h : Nat), h < 2 ^ 30 → l.foldl strHashStep h < 2 ^ 30 := by
    intro l
    induction l with
    | nil => intro h hh; exact hh
    | cons b l ih => intro h _; exact ih _ (strHashStep_lt h b)
  exact this bs 0 (by decide)

/-- "Integer", and two bytes `>= 0x80` (negative `char`s). -/
example : strHash [73, 110, 116, 101, 103, 101, 114] = 484208045 ∧ strHash [0xe9, 0x80] = 51473467 := by decide

/-! ## 3. libCodeSort -/

/-- full-strength statement: the sorted code vector does not depend on the order of arrival. -/
def codesort_canonical_statement : Prop :=
  ∀ (hashOf : Nat → Nat) (l l' : List Nat), (∀ i ∈ l, hashOf i < 2 ^ 31) → l.Perm l' →
    TableOrder.codeSort hashOf l = TableOrder.codeSort hashOf l'

/-- proved part: with pairwise different hash codes (and codes below 2^31, which the mask
`0x3FFFFFFF` in symeHashArg/tfHashArg guarantees) the result is canonical. -/
theorem codesort_canonical_partial (hashOf : Nat → Nat) (l l' : List Nat)
    (hr : ∀ i ∈ l, hashOf i < 2 ^ 31)
    (hd : l.Pairwise (fun i j => hashOf i ≠ hashOf j)) (hp : l.Perm l') :
    TableOrder.codeSort hashOf l = TableOrder.codeSort hashOf l' := by
  unfold TableOrder.codeSort
  -- a comparator that is total on all of Nat and agrees with the real one on the members of `l`
  have hcong : ∀ m : List Nat, (∀ i ∈ m, i ∈ l) →
      lisort (fun i j => cmpCode (hashOf i) (hashOf j)) m =
      lisort (fun i j => cmpCode (hashOf i % 2 ^ 31) (hashOf j % 2 ^ 31)) m := by
    intro m hm
    apply lisort_congr
    intro a ha b hb
    rw [Nat.mod_eq_of_lt (hr a (hm a ha)), Nat.mod_eq_of_lt (hr b (hm b hb))]
  rw [hcong l (fun _ h => h), hcong l' (fun i h => hp.symm.subset h)]
  apply lisort_canonical _ (fun i => hashOf i % 2 ^ 31)
  · intro a b
    exact cmpCode_pos_iff _ _ (Nat.mod_lt _ (by decide)) (Nat.mod_lt _ (by decide))
  · intro a ha b hb hk
    rw [Nat.mod_eq_of_lt (hr a ha), Nat.mod_eq_of_lt (hr b hb)] at hk
    apply Classical.byContradiction
    intro hne
    exact pairwise_mem_of_symm (R := fun i j => hashOf i ≠ hashOf j) (fun h => Ne.symm h) hd a ha b hb hne hk
  · exact hp

/-- non-vacuity of the hypotheses, and the sort really sorts. -/
example :
    let h : Nat → Nat := fun i => [700, 5, 1073741823, 42].getD i 0
    TableOrder.codeSort h [0, 1, 2, 3] = [1, 3, 0, 2] ∧ TableOrder.codeSort h [3, 2, 1, 0] = [1, 3, 0, 2] := by decide

/-- the tie witness: symes 0 and 1 carry the same code; `lisort` is a stable insertion sort, so
they stay in arrival order. -/
theorem codesort_tie_witness :
    let h : Nat → Nat := fun _ => 12345
    TableOrder.codeSort h [0, 1] = [0, 1] ∧ TableOrder.codeSort h [1, 0] = [1, 0] := by decide

theorem codesort_canonical_statement_refuted : ¬ codesort_canonical_statement := by
  intro h
  have := h (fun _ => 12345) [0, 1] [1, 0] (by decide) (List.Perm.swap 1 0 [])
  exact absurd this (by decide)

/-- outside the 31-bit range the comparator is not even antisymmetric (both differences
truncate to `INT_MIN`): the range hypothesis of `codesort_canonical_partial` is needed. -/
example : cmpCode 0 (2 ^ 31) < 0 ∧ cmpCode (2 ^ 31) 0 < 0 := by decide

/-- the comparator and the sorter that were regenerated from lib.c / util.c are the ones modelled
(`cmpCode`, `lisort`): same operand order (ascending), difference converted to `int`, swap
test `> 0` (stable), two nested loops. A change of any of these breaks this obligation. -/
theorem codesort_comparator_is_modelled :
    let c := Gen.PtrTables.codeSort
    c.sorter = "lisort" ∧ c.cmpfn = "libCmpCode" ∧ c.rettype = "int" ∧ c.eltsize = "sizeof(UShort)" ∧
    c.params = ["i", "j"] ∧
    c.returns = ["cast<int>((libCmpLib->symev[*i]->hash - libCmpLib->symev[*j]->hash))"] ∧
    c.swapWhen = ["> 0"] ∧ c.sorterForLoops = 2 := by decide

/-! ## 4. address-hashed tables -/

/-- full-strength statement: no address-hashed table is iterated, except where a reviewer
found the walk harmless. -/
def ptr_tables_not_iterated_statement : Prop :=
  ∀ s ∈ sites, s.iterated = false ∨ allowed s = true

/-- what holds of the present sources: every iterated address-hashed table is on the reviewed
list -- as harmless, or as a recorded defect (Model/PtrAllow.lean, verdict `.defect`; the python
part turns each of those into a finding).  A new address-ordered iteration, or a new walk over
a listed table, makes this `decide` fail. -/
theorem ptr_tables_not_iterated_partial :
    ∀ s ∈ sites, s.iterated = false ∨ allowed s = true ∨ recordedDefect s = true := by decide

/-- the full statement is false of the present sources: java/genjava.c:gj0ProgDeclarations walks a
table whose token keys hash by Symbol address and emits Java declarations in that order.
Replayed on the real compiler by the search (axis `aslr`, output kind `java`).
When the C code is repaired the translator no longer lists that site: delete this theorem and
the `.defect` entry together. -/
theorem ptr_tables_not_iterated_statement_refuted : ¬ ptr_tables_not_iterated_statement := by
  unfold ptr_tables_not_iterated_statement
  decide

/-- the translator saw the whole compiler, and the list is not empty (an empty list would make
the obligations above vacuous). -/
theorem ptr_tables_nonvacuous :
    filesAnalysed ≥ 150 ∧ sites.length ≥ 16 ∧ (sites.filter (·.iterated)).length ≥ 1 ∧
    contentHashSites ≥ 10 ∧ "_tblITER" ∈ iteratingTableFunctions := by decide

end AldorVerif.C08
